import Casket.Model.Reload
set_option linter.unusedSimpArgs false
/-
Invariants of the reload protocol model, preserved by every action — hence by every
interleaving of client steps with the steps of any sequence of reloads.
-/
namespace Casket.Reload

def b2n (b : Bool) : Nat := if b then 1 else 0

def active : Phase → Bool
  | .idle => false
  | .loading _ _ => false
  | _ => true

/-- the new instance has started its servers -/
def serving : Phase → Bool
  | .started => true
  | .stopping _ => true
  | _ => false

theorem closeFd_fds (m : M) (a : Nat) : (closeFd m a).fds = upd m.fds a (m.fds a - 1) := by
  unfold closeFd
  split
  · rename_i h; simp [h]
  · rfl

theorem closeFd_cur (m : M) (a : Nat) : (closeFd m a).cur = m.cur := by unfold closeFd; split <;> rfl
theorem closeFd_new (m : M) (a : Nat) : (closeFd m a).new = m.new := by unfold closeFd; split <;> rfl
theorem closeFd_phase (m : M) (a : Nat) : (closeFd m a).phase = m.phase := by unfold closeFd; split <;> rfl
theorem closeFd_conns (m : M) (a : Nat) : (closeFd m a).conns = m.conns := by unfold closeFd; split <;> rfl
theorem closeFd_served (m : M) (a : Nat) : (closeFd m a).served = m.served := by unfold closeFd; split <;> rfl

/-- the state-level invariant -/
structure Inv (m : M) : Prop where
  /-- every open descriptor belongs to a listener of the current or of the new instance: nothing is leaked -/
  acc : ∀ a, m.fds a = b2n (m.cur.holds a) + b2n (m.new.holds a)
  /-- outside a reload there is no new instance -/
  inactive : active m.phase = false → (∀ a, m.new.holds a = false) ∧ (∀ a, m.new.accepts a = false)
  /-- the new instance accepts only on listeners it holds and only after `serve` -/
  newAcc : ∀ a, m.new.accepts a = true → m.new.holds a = true ∧ serving m.phase = true
  gen : active m.phase = true → m.cur.gen < m.new.gen
  loadingGen : ∀ g c, m.phase = .loading g c → m.cur.gen < g
  curAddrs : ∀ a, m.cur.holds a = true → a ∈ m.cur.addrs
  newAddrs : ∀ a, m.new.holds a = true → a ∈ m.new.addrs
  todoAddrs : ∀ t, m.phase = .listening t → ∀ a ∈ t, a ∈ m.new.addrs
  /-- while the old instance is being stopped, the listeners it still holds are still to be closed -/
  stopTodo : ∀ t, m.phase = .stopping t → ∀ a, m.cur.holds a = true → a ∈ t
  servedCur : m.cur.gen ∈ m.served
  servedNew : serving m.phase = true → m.new.gen ∈ m.served
  /-- a connection is owned by a generation at least as new as the one current when it was made, whose servers were started -/
  conns : ∀ c ∈ m.conns, c.minGen ≤ m.cur.gen ∧ ∀ g, c.owner = some g → c.minGen ≤ g ∧ g ∈ m.served

theorem inv_init (busy addrs : List Nat) : Inv (M.init busy addrs) := by
  refine ⟨?_, ?_, ?_, ?_, ?_, ?_, ?_, ?_, ?_, ?_, ?_, ?_⟩
  · intro a; simp only [M.init, Inst.none, b2n]; split <;> simp_all
  · intro _; simp [M.init, Inst.none]
  · intro a h; simp [M.init, Inst.none] at h
  · intro h; simp [M.init, active] at h
  · intro g c h; simp [M.init] at h
  · intro a h; simpa [M.init] using h
  · intro a h; simp [M.init, Inst.none] at h
  · intro t h; simp [M.init] at h
  · intro t h; simp [M.init] at h
  · simp [M.init]
  · intro h; simp [M.init, serving] at h
  · intro c hc; simp [M.init] at hc

theorem upd_app {α : Type} (f : Nat → α) (a : Nat) (v : α) (x : Nat) : upd f a v x = if x = a then v else f x := rfl
theorem set_app (f : Nat → Bool) (a : Nat) (v : Bool) (x : Nat) : set f a v x = if x = a then v else f x := rfl

theorem inv_begin {m : M} (h : Inv m) (g : Nat) (c : Cfg) : Inv (step m (.begin g c)) := by
  cases hp : m.phase <;> simp only [step, hp] <;> try exact h
  have hin := h.inactive (by simp [hp, active])
  split
  · rename_i hg
    exact { acc := h.acc, inactive := fun _ => hin, newAcc := fun a ha => by simp [hin.2 a] at ha,
            gen := fun hh => by simp [active] at hh,
            loadingGen := fun g' c' e => by simp at e; rw [← e.1]; exact hg,
            curAddrs := h.curAddrs, newAddrs := h.newAddrs, todoAddrs := fun t e => by simp at e,
            stopTodo := fun t e => by simp at e, servedCur := h.servedCur,
            servedNew := fun hh => by simp [serving] at hh, conns := h.conns }
  · exact h

theorem inv_setup {m : M} (h : Inv m) : Inv (step m .setup) := by
  cases hp : m.phase <;> simp only [step, hp] <;> try exact h
  rename_i g c
  have hin := h.inactive (by simp [hp, active])
  split
  · exact { acc := h.acc, inactive := fun _ => hin, newAcc := fun a ha => by simp [hin.2 a] at ha,
            gen := fun hh => by simp [active] at hh, loadingGen := fun g' c' e => by simp at e,
            curAddrs := h.curAddrs, newAddrs := h.newAddrs, todoAddrs := fun t e => by simp at e,
            stopTodo := fun t e => by simp at e, servedCur := h.servedCur,
            servedNew := fun hh => by simp [serving] at hh, conns := h.conns }
  · exact { acc := fun a => by have := h.acc a; simp only [hin.1 a] at this; simpa using this,
            inactive := fun hh => by simp [active] at hh, newAcc := fun a ha => by simp at ha,
            gen := fun _ => h.loadingGen g c hp, loadingGen := fun g' c' e => by simp at e,
            curAddrs := h.curAddrs, newAddrs := fun a ha => by simp at ha,
            todoAddrs := fun t e a ha => by simp at e; subst e; exact ha,
            stopTodo := fun t e => by simp at e, servedCur := h.servedCur,
            servedNew := fun hh => by simp [serving] at hh, conns := h.conns }

theorem inv_serve {m : M} (h : Inv m) : Inv (step m .serve) := by
  cases hp : m.phase <;> simp only [step, hp] <;> try exact h
  exact { acc := h.acc, inactive := fun hh => by simp [active] at hh,
          newAcc := fun a ha => ⟨ha, by simp [serving]⟩,
          gen := fun _ => h.gen (by simp [hp, active]), loadingGen := fun g' c' e => by simp at e,
          curAddrs := h.curAddrs, newAddrs := h.newAddrs, todoAddrs := fun t e => by simp at e,
          stopTodo := fun t e => by simp at e, servedCur := by simp [h.servedCur],
          servedNew := fun _ => by simp,
          conns := fun c hc => ⟨(h.conns c hc).1, fun g hg => ⟨((h.conns c hc).2 g hg).1, by simp [((h.conns c hc).2 g hg).2]⟩⟩ }

theorem inv_stopOld {m : M} (h : Inv m) : Inv (step m .stopOld) := by
  cases hp : m.phase <;> simp only [step, hp] <;> try exact h
  exact { acc := h.acc, inactive := fun hh => by simp [active] at hh,
          newAcc := fun a ha => ⟨(h.newAcc a ha).1, by simp [serving]⟩,
          gen := fun _ => h.gen (by simp [hp, active]), loadingGen := fun g' c' e => by simp at e,
          curAddrs := h.curAddrs, newAddrs := h.newAddrs, todoAddrs := fun t e => by simp at e,
          stopTodo := fun t e a ha => by simp at e; subst e; exact h.curAddrs a ha,
          servedCur := h.servedCur, servedNew := fun _ => h.servedNew (by simp [hp, serving]), conns := h.conns }

theorem inv_finish {m : M} (h : Inv m) : Inv (step m .finish) := by
  cases hp : m.phase <;> simp only [step, hp] <;> try exact h
  rename_i todo
  cases todo with
  | cons a t => exact h
  | nil =>
    simp only
    have hg := h.gen (by simp [hp, active])
    have hnone : ∀ a, m.cur.holds a = false := by
      intro a
      cases hc : m.cur.holds a
      · rfl
      · have := h.stopTodo [] hp a hc; simp at this
    exact { acc := fun a => by have := h.acc a; simp only [hnone a] at this; simp [Inst.none, b2n] at this ⊢; omega,
            inactive := fun _ => by simp [Inst.none], newAcc := fun a ha => by simp [Inst.none] at ha,
            gen := fun hh => by simp [active] at hh, loadingGen := fun g' c' e => by simp at e,
            curAddrs := h.newAddrs, newAddrs := fun a ha => by simp [Inst.none] at ha,
            todoAddrs := fun t e => by simp at e, stopTodo := fun t e => by simp at e,
            servedCur := h.servedNew (by simp [hp, serving]), servedNew := fun hh => by simp [serving] at hh,
            conns := fun c hc => ⟨Nat.le_trans (h.conns c hc).1 (Nat.le_of_lt hg), (h.conns c hc).2⟩ }


theorem b2n_true : b2n true = 1 := rfl
theorem b2n_false : b2n false = 0 := rfl

theorem inv_listen {m : M} (h : Inv m) : Inv (step m .listen) := by
  cases hp : m.phase <;> simp only [step, hp] <;> try exact h
  rename_i todo
  have hact : active m.phase = true := by simp [hp, active]
  have hnoacc : ∀ a, m.new.accepts a = false := by
    intro a
    cases hc : m.new.accepts a
    · rfl
    · have := (h.newAcc a hc).2; simp [hp, serving] at this
  cases todo with
  | nil =>
    exact { acc := h.acc, inactive := fun hh => by simp [active] at hh,
            newAcc := fun a ha => by simp [hnoacc a] at ha,
            gen := fun _ => h.gen hact, loadingGen := fun g' c' e => by simp at e,
            curAddrs := h.curAddrs, newAddrs := h.newAddrs, todoAddrs := fun t e => by simp at e,
            stopTodo := fun t e => by simp at e, servedCur := h.servedCur,
            servedNew := fun hh => by simp [serving] at hh, conns := h.conns }
  | cons a todo =>
    have htodo : ∀ x ∈ todo, x ∈ m.new.addrs := fun x hx => h.todoAddrs _ hp x (List.mem_cons_of_mem _ hx)
    have ha : a ∈ m.new.addrs := h.todoAddrs _ hp a List.mem_cons_self
    simp only
    by_cases h1 : m.new.holds a = true
    · simp only [h1, if_true]
      exact { acc := h.acc, inactive := fun hh => by simp [active] at hh,
              newAcc := fun x hx => by simp [hnoacc x] at hx,
              gen := fun _ => h.gen hact, loadingGen := fun g' c' e => by simp at e,
              curAddrs := h.curAddrs, newAddrs := h.newAddrs,
              todoAddrs := fun t e x hx => by simp at e; subst e; exact htodo x hx,
              stopTodo := fun t e => by simp at e, servedCur := h.servedCur,
              servedNew := fun hh => by simp [serving] at hh, conns := h.conns }
    · have h1' : m.new.holds a = false := by simpa using h1
      simp only [h1', Bool.false_eq_true, if_false]
      by_cases h2 : m.cur.holds a = true
      · simp only [h2, if_true]
        exact { acc := fun x => by
                  have := h.acc x
                  simp only [upd_app, set_app]
                  by_cases hx : x = a
                  · subst hx; simp only [if_true, h2, h1', b2n_true, b2n_false] at this ⊢; omega
                  · simp only [hx, if_false]; exact this,
                inactive := fun hh => by simp [active] at hh,
                newAcc := fun x hx => by simp [hnoacc x] at hx,
                gen := fun _ => h.gen hact, loadingGen := fun g' c' e => by simp at e,
                curAddrs := h.curAddrs,
                newAddrs := fun x hx => by
                  simp only [set_app] at hx
                  by_cases hxa : x = a
                  · subst hxa; exact ha
                  · simp only [hxa, if_false] at hx; exact h.newAddrs x hx,
                todoAddrs := fun t e x hx => by simp at e; subst e; exact htodo x hx,
                stopTodo := fun t e => by simp at e, servedCur := h.servedCur,
                servedNew := fun hh => by simp [serving] at hh, conns := h.conns }
      · have h2' : m.cur.holds a = false := by simpa using h2
        simp only [h2', Bool.false_eq_true, if_false]
        split
        · -- the listen fails: everything the new instance obtained is closed again
          exact { acc := fun x => by
                    have := h.acc x
                    simp only [closeHeld, Inst.none]
                    cases hx : m.new.holds x <;> simp [hx, b2n] at this ⊢ <;> omega,
                  inactive := fun _ => by simp [Inst.none],
                  newAcc := fun x hx => by simp [Inst.none] at hx,
                  gen := fun hh => by simp [active] at hh, loadingGen := fun g' c' e => by simp at e,
                  curAddrs := h.curAddrs, newAddrs := fun x hx => by simp [Inst.none] at hx,
                  todoAddrs := fun t e => by simp at e, stopTodo := fun t e => by simp at e,
                  servedCur := h.servedCur, servedNew := fun hh => by simp [serving] at hh, conns := h.conns }
        · rename_i hb
          have hf : m.fds a = 0 := by
            have := h.acc a
            simp only [h1', h2', b2n_false] at this
            omega
          exact { acc := fun x => by
                    have := h.acc x
                    simp only [upd_app, set_app]
                    by_cases hx : x = a
                    · subst hx; simp only [if_true, h2', b2n_true, b2n_false]
                    · simp only [hx, if_false]; exact this,
                  inactive := fun hh => by simp [active] at hh,
                  newAcc := fun x hx => by simp [hnoacc x] at hx,
                  gen := fun _ => h.gen hact, loadingGen := fun g' c' e => by simp at e,
                  curAddrs := h.curAddrs,
                  newAddrs := fun x hx => by
                    simp only [set_app] at hx
                    by_cases hxa : x = a
                    · subst hxa; exact ha
                    · simp only [hxa, if_false] at hx; exact h.newAddrs x hx,
                  todoAddrs := fun t e x hx => by simp at e; subst e; exact htodo x hx,
                  stopTodo := fun t e => by simp at e, servedCur := h.servedCur,
                  servedNew := fun hh => by simp [serving] at hh, conns := h.conns }


theorem inv_stop {m : M} (h : Inv m) : Inv (step m .stop) := by
  cases hp : m.phase <;> simp only [step, hp] <;> try exact h
  rename_i todo
  have hact : active m.phase = true := by simp [hp, active]
  have hserv : serving m.phase = true := by simp [hp, serving]
  cases todo with
  | nil => exact h
  | cons a todo =>
    simp only
    by_cases h1 : m.cur.holds a = true
    · simp only [h1, if_true]
      exact { acc := fun x => by
                have := h.acc x
                simp only [closeFd_fds, closeFd_new, upd_app, set_app]
                by_cases hx : x = a
                · subst hx; simp only [if_true, h1, b2n_true, b2n_false] at this ⊢; omega
                · simp only [hx, if_false]; exact this,
              inactive := fun hh => by simp [active] at hh,
              newAcc := fun x hx => by
                simp only [closeFd_new] at hx ⊢
                exact ⟨(h.newAcc x hx).1, by simp [serving]⟩,
              gen := fun _ => by simp only [closeFd_new]; exact h.gen hact,
              loadingGen := fun g' c' e => by simp at e,
              curAddrs := fun x hx => by
                simp only [set_app] at hx
                by_cases hxa : x = a
                · simp [hxa] at hx
                · simp only [hxa, if_false] at hx; exact h.curAddrs x hx,
              newAddrs := fun x hx => by simp only [closeFd_new] at hx ⊢; exact h.newAddrs x hx,
              todoAddrs := fun t e => by simp at e,
              stopTodo := fun t e x hx => by
                simp at e; subst e
                simp only [set_app] at hx
                by_cases hxa : x = a
                · simp [hxa] at hx
                · simp only [hxa, if_false] at hx
                  have := h.stopTodo _ hp x hx
                  simpa [hxa] using this,
              servedCur := by simp only [closeFd_served]; exact h.servedCur,
              servedNew := fun _ => by simp only [closeFd_served, closeFd_new]; exact h.servedNew hserv,
              conns := fun c hc => by simp only [closeFd_conns, closeFd_served] at hc ⊢; exact h.conns c hc }
    · have h1' : m.cur.holds a = false := by simpa using h1
      simp only [h1', Bool.false_eq_true, if_false]
      exact { acc := h.acc, inactive := fun hh => by simp [active] at hh,
              newAcc := fun x hx => ⟨(h.newAcc x hx).1, by simp [serving]⟩,
              gen := fun _ => h.gen hact, loadingGen := fun g' c' e => by simp at e,
              curAddrs := h.curAddrs, newAddrs := h.newAddrs, todoAddrs := fun t e => by simp at e,
              stopTodo := fun t e x hx => by
                simp at e; subst e
                have := h.stopTodo _ hp x hx
                by_cases hxa : x = a
                · subst hxa; simp [h1'] at hx
                · simpa [hxa] using this,
              servedCur := h.servedCur, servedNew := fun _ => h.servedNew hserv, conns := h.conns }

theorem inv_connect {m : M} (h : Inv m) (a : Nat) : Inv (step m (.connect a)) := by
  simp only [step]
  split
  · exact { acc := h.acc, inactive := h.inactive, newAcc := h.newAcc, gen := h.gen, loadingGen := h.loadingGen,
            curAddrs := h.curAddrs, newAddrs := h.newAddrs, todoAddrs := h.todoAddrs, stopTodo := h.stopTodo,
            servedCur := h.servedCur, servedNew := h.servedNew,
            conns := fun c hc => by
              rcases List.mem_append.mp hc with hc | hc
              · exact h.conns c hc
              · simp only [List.mem_singleton] at hc
                subst hc
                exact ⟨Nat.le_refl _, fun g hg => by simp at hg⟩ }
  · exact { acc := h.acc, inactive := h.inactive, newAcc := h.newAcc, gen := h.gen, loadingGen := h.loadingGen,
            curAddrs := h.curAddrs, newAddrs := h.newAddrs, todoAddrs := h.todoAddrs, stopTodo := h.stopTodo,
            servedCur := h.servedCur, servedNew := h.servedNew, conns := h.conns }

theorem mem_setOwner {cs : List Conn} {id g : Nat} {c : Conn} (h : c ∈ setOwner cs id g) :
    ∃ c0 ∈ cs, c = c0 ∨ (c = { c0 with owner := some g }) := by
  simp only [setOwner, List.mem_map] at h
  obtain ⟨c0, hc0, e⟩ := h
  refine ⟨c0, hc0, ?_⟩
  split at e
  · exact Or.inr e.symm
  · exact Or.inl e.symm

theorem mem_setAnswered {cs : List Conn} {id : Nat} {c : Conn} (h : c ∈ setAnswered cs id) :
    ∃ c0 ∈ cs, c.minGen = c0.minGen ∧ c.owner = c0.owner ∧ c.addr = c0.addr := by
  simp only [setAnswered, List.mem_map] at h
  obtain ⟨c0, hc0, e⟩ := h
  refine ⟨c0, hc0, ?_⟩
  split at e <;> subst e <;> exact ⟨rfl, rfl, rfl⟩

theorem inv_accept {m : M} (h : Inv m) (g a : Nat) : Inv (step m (.accept g a)) := by
  simp only [step]
  split
  · exact h
  · rename_i id rest hq
    split
    · rename_i hcond
      have hg : m.cur.gen ≤ g ∧ g ∈ m.served := by
        simp only [Bool.or_eq_true, Bool.and_eq_true, decide_eq_true_eq] at hcond
        rcases hcond with ⟨e, _⟩ | ⟨e, hacc⟩
        · subst e; exact ⟨Nat.le_refl _, h.servedCur⟩
        · subst e
          have hs := (h.newAcc a hacc).2
          have hact : active m.phase = true := by
            cases hp : m.phase <;> simp [hp, serving, active] at hs ⊢
          exact ⟨Nat.le_of_lt (h.gen hact), h.servedNew hs⟩
      exact { acc := h.acc, inactive := h.inactive, newAcc := h.newAcc, gen := h.gen, loadingGen := h.loadingGen,
              curAddrs := h.curAddrs, newAddrs := h.newAddrs, todoAddrs := h.todoAddrs, stopTodo := h.stopTodo,
              servedCur := h.servedCur, servedNew := h.servedNew,
              conns := fun c hc => by
                obtain ⟨c0, hc0, e | e⟩ := mem_setOwner hc
                · subst e; exact h.conns c hc0
                · subst e
                  refine ⟨(h.conns c0 hc0).1, fun g' hg' => ?_⟩
                  simp at hg'
                  subst hg'
                  exact ⟨Nat.le_trans (h.conns c0 hc0).1 hg.1, hg.2⟩ }
    · exact h

theorem inv_respond {m : M} (h : Inv m) (id : Nat) : Inv (step m (.respond id)) := by
  simp only [step]
  exact { acc := h.acc, inactive := h.inactive, newAcc := h.newAcc, gen := h.gen, loadingGen := h.loadingGen,
          curAddrs := h.curAddrs, newAddrs := h.newAddrs, todoAddrs := h.todoAddrs, stopTodo := h.stopTodo,
          servedCur := h.servedCur, servedNew := h.servedNew,
          conns := fun c hc => by
            obtain ⟨c0, hc0, e1, e2, _⟩ := mem_setAnswered hc
            rw [e1, e2]; exact h.conns c0 hc0 }

theorem inv_step {m : M} (h : Inv m) (act : Act) : Inv (step m act) := by
  cases act with
  | «begin» g c => exact inv_begin h g c
  | setup => exact inv_setup h
  | listen => exact inv_listen h
  | serve => exact inv_serve h
  | stopOld => exact inv_stopOld h
  | stop => exact inv_stop h
  | finish => exact inv_finish h
  | connect a => exact inv_connect h a
  | accept g a => exact inv_accept h g a
  | respond id => exact inv_respond h id

theorem inv_run : ∀ (acts : List Act) {m : M}, Inv m → Inv (run m acts) := by
  intro acts
  induction acts with
  | nil => intro m h; exact h
  | cons a rest ih => intro m h; exact ih (inv_step h a)


/-- the address is served now and by the configuration being loaded: some instance holds a listener for it at
every moment of the reload -/
def Keeps (a : Nat) (m : M) : Prop :=
  match m.phase with
  | .idle => m.cur.holds a = true
  | .loading _ c => m.cur.holds a = true ∧ a ∈ c.addrs
  | .listening todo => m.cur.holds a = true ∧ (a ∈ todo ∨ m.new.holds a = true)
  | .listened => m.cur.holds a = true ∧ m.new.holds a = true
  | .started => m.cur.holds a = true ∧ m.new.holds a = true
  | .stopping _ => m.new.holds a = true

/-- no connection to the address was refused, none that waited on it was dropped -/
def NoLoss (a : Nat) (m : M) : Prop :=
  ∀ e ∈ m.events, e ≠ .refused a ∧ ∀ id, e ≠ .dropped a id

theorem keeps_fds {a : Nat} {m : M} (h : Inv m) (k : Keeps a m) : 1 ≤ m.fds a := by
  have hacc := h.acc a
  unfold Keeps at k
  cases hp : m.phase <;> simp only [hp] at k
  case idle => simp [k, b2n] at hacc; omega
  case loading => simp [k.1, b2n] at hacc; omega
  case listening => simp [k.1, b2n] at hacc; omega
  case listened => simp [k.1, b2n] at hacc; omega
  case started => simp [k.1, b2n] at hacc; omega
  case stopping => simp [k, b2n] at hacc; split at hacc <;> omega

/-- which begin actions keep the address -/
def keepsAct (a : Nat) : Act → Prop
  | .begin _ c => a ∈ c.addrs
  | _ => True

theorem noLoss_append {a : Nat} {m : M} {es : List Ev} (h : NoLoss a m)
    (hes : ∀ e ∈ es, e ≠ .refused a ∧ ∀ id, e ≠ .dropped a id) :
    ∀ e ∈ m.events ++ es, e ≠ .refused a ∧ ∀ id, e ≠ .dropped a id := by
  intro e he
  rcases List.mem_append.mp he with h1 | h1
  · exact h e h1
  · exact hes e h1

theorem keeps_step {a : Nat} {m : M} (h : Inv m) (k : Keeps a m) (act : Act) (hk : keepsAct a act) :
    Keeps a (step m act) ∧ (NoLoss a m → NoLoss a (step m act)) := by
  have hfd := keeps_fds h k
  cases act with
  | «begin» g c =>
    cases hp : m.phase <;> simp only [step, hp] <;> try exact ⟨by simpa [Keeps, hp] using k, id⟩
    split
    · simp only [Keeps, hp] at k ⊢
      exact ⟨⟨k, hk⟩, id⟩
    · exact ⟨by simpa [Keeps, hp] using k, id⟩
  | setup =>
    cases hp : m.phase <;> simp only [step, hp] <;> try exact ⟨by simpa [Keeps, hp] using k, id⟩
    rename_i g c
    simp only [Keeps, hp] at k
    split
    · refine ⟨by simp [Keeps, k.1], fun hn => ?_⟩
      exact noLoss_append hn (by intro e he; simp at he; subst he; simp)
    · exact ⟨by simp [Keeps, k.1, k.2], id⟩
  | listen =>
    cases hp : m.phase <;> simp only [step, hp] <;> try exact ⟨by simpa [Keeps, hp] using k, id⟩
    rename_i todo
    simp only [Keeps, hp] at k
    cases todo with
    | nil =>
      rcases k.2 with hk2 | hk2
      · simp at hk2
      · exact ⟨by simp [Keeps, k.1, hk2], id⟩
    | cons x todo =>
      simp only
      by_cases h1 : m.new.holds x = true
      · simp only [h1, if_true]
        refine ⟨?_, id⟩
        simp only [Keeps]
        refine ⟨k.1, ?_⟩
        rcases k.2 with hk2 | hk2
        · rcases List.mem_cons.mp hk2 with e | e
          · subst e; exact Or.inr h1
          · exact Or.inl e
        · exact Or.inr hk2
      · have h1' : m.new.holds x = false := by simpa using h1
        simp only [h1', Bool.false_eq_true, if_false]
        by_cases h2 : m.cur.holds x = true
        · simp only [h2, if_true]
          refine ⟨?_, id⟩
          simp only [Keeps, set_app]
          refine ⟨k.1, ?_⟩
          rcases k.2 with hk2 | hk2
          · rcases List.mem_cons.mp hk2 with e | e
            · subst e; right; simp
            · exact Or.inl e
          · right; split <;> simp [hk2]
        · have h2' : m.cur.holds x = false := by simpa using h2
          have hxa : ¬ a = x := fun e => by subst e; rw [k.1] at h2'; exact Bool.noConfusion h2'
          simp only [h2', Bool.false_eq_true, if_false]
          split
          · -- a listen on another address fails
            refine ⟨by simp [Keeps, closeHeld, k.1], fun hn => ?_⟩
            show ∀ e ∈ ((closeHeld m).events ++ [Ev.reloadFailed]), _
            have hce : ∀ e ∈ (closeHeld m).events, e ≠ .refused a ∧ ∀ id, e ≠ .dropped a id := by
              simp only [closeHeld]
              apply noLoss_append hn
              intro e he
              simp only [List.mem_flatMap, List.mem_filter, List.mem_map] at he
              obtain ⟨y, ⟨_, hy⟩, id, _, rfl⟩ := he
              refine ⟨by simp, fun id' e' => ?_⟩
              injection e' with e1 _
              subst e1
              -- the new instance holds `a` only through a duplicate of the old listener: two descriptors
              simp only [Bool.and_eq_true, beq_iff_eq] at hy
              have := h.acc y
              simp [hy.1, k.1, b2n] at this
              omega
            intro e he
            rcases List.mem_append.mp he with h3 | h3
            · exact hce e h3
            · simp at h3; subst h3; simp
          · refine ⟨?_, id⟩
            simp only [Keeps, set_app]
            refine ⟨k.1, ?_⟩
            rcases k.2 with hk2 | hk2
            · rcases List.mem_cons.mp hk2 with e | e
              · exact absurd e hxa
              · exact Or.inl e
            · right; split <;> simp [hk2]
  | serve =>
    cases hp : m.phase <;> simp only [step, hp] <;> exact ⟨by simpa [Keeps, hp] using k, id⟩
  | stopOld =>
    cases hp : m.phase <;> simp only [step, hp] <;> try exact ⟨by simpa [Keeps, hp] using k, id⟩
    simp only [Keeps, hp] at k
    exact ⟨by simp [Keeps, k.2], id⟩
  | stop =>
    cases hp : m.phase <;> simp only [step, hp] <;> try exact ⟨by simpa [Keeps, hp] using k, id⟩
    rename_i todo
    simp only [Keeps, hp] at k
    cases todo with
    | nil => exact ⟨by simpa [Keeps, hp] using k, id⟩
    | cons x todo =>
      simp only
      by_cases h1 : m.cur.holds x = true
      · simp only [h1, if_true]
        refine ⟨by simp [Keeps, closeFd_new, k], fun hn => ?_⟩
        show ∀ e ∈ (closeFd m x).events, _
        unfold closeFd
        split
        · rename_i hf1
          apply noLoss_append hn
          intro e he
          simp only [List.mem_map] at he
          obtain ⟨id, _, rfl⟩ := he
          refine ⟨by simp, fun id' e' => ?_⟩
          injection e' with e1 _
          subst e1
          have := h.acc x
          simp [h1, k, b2n] at this
          omega
        · exact hn
      · have h1' : m.cur.holds x = false := by simpa using h1
        simp only [h1', Bool.false_eq_true, if_false]
        exact ⟨by simp [Keeps, k], id⟩
  | finish =>
    cases hp : m.phase <;> simp only [step, hp] <;> try exact ⟨by simpa [Keeps, hp] using k, id⟩
    rename_i todo
    simp only [Keeps, hp] at k
    cases todo with
    | cons x t => exact ⟨by simpa [Keeps, hp] using k, id⟩
    | nil =>
      refine ⟨by simp [Keeps, k], fun hn => ?_⟩
      exact noLoss_append hn (by intro e he; simp at he; subst he; simp)
  | connect x =>
    simp only [step]
    split
    · exact ⟨by cases hp : m.phase <;> simpa [Keeps, hp] using k, id⟩
    · rename_i hx
      refine ⟨by cases hp : m.phase <;> simpa [Keeps, hp] using k, fun hn => ?_⟩
      apply noLoss_append hn
      intro e he
      simp at he; subst he
      refine ⟨fun e' => ?_, by simp⟩
      injection e' with e1
      subst e1
      omega
  | accept g x =>
    simp only [step]
    split
    · exact ⟨k, id⟩
    · split
      · exact ⟨by cases hp : m.phase <;> simpa [Keeps, hp] using k, id⟩
      · exact ⟨k, id⟩
  | respond id' =>
    simp only [step]
    exact ⟨by cases hp : m.phase <;> simpa [Keeps, hp] using k, id⟩


theorem keeps_run {a : Nat} : ∀ (acts : List Act) {m : M}, Inv m → Keeps a m → NoLoss a m →
    (∀ act ∈ acts, keepsAct a act) →
    Keeps a (run m acts) ∧ NoLoss a (run m acts) ∧ 1 ≤ (run m acts).fds a := by
  intro acts
  induction acts with
  | nil => intro m h k n _; exact ⟨k, n, keeps_fds h k⟩
  | cons act rest ih =>
    intro m h k n hk
    have hs := keeps_step h k act (hk act List.mem_cons_self)
    exact ih (inv_step h act) hs.1 (hs.2 n) (fun x hx => hk x (List.mem_cons_of_mem _ hx))

/-- the setup of the configuration being loaded fails -/
def setupFails (m : M) : Prop := ∃ g c, m.phase = .loading g c ∧ c.failSetup = true

/-- the next listen fails: the address is neither inherited nor free -/
def listenFails (m : M) : Prop :=
  ∃ a todo, m.phase = .listening (a :: todo) ∧ m.new.holds a = false ∧ m.cur.holds a = false ∧
    (m.busy.contains a || decide (m.fds a > 0)) = true

theorem setup_fail_keeps_old {m : M} (hf : setupFails m) :
    (step m .setup).cur = m.cur ∧ (step m .setup).phase = .idle ∧ (step m .setup).fds = m.fds ∧
    (step m .setup).events = m.events ++ [.reloadFailed] := by
  obtain ⟨g, c, hp, hc⟩ := hf
  simp [step, hp, hc]

theorem listen_fail_keeps_old {m : M} (h : Inv m) (hf : listenFails m) :
    (step m .listen).cur = m.cur ∧ (step m .listen).phase = .idle ∧
    (∀ a, (step m .listen).fds a = b2n (m.cur.holds a)) ∧
    (∀ a, (step m .listen).new.holds a = false) ∧
    (step m .listen).events.getLast? = some .reloadFailed := by
  obtain ⟨a, todo, hp, h1, h2, hb⟩ := hf
  have e : step m .listen = { closeHeld m with new := Inst.none, phase := .idle, events := (closeHeld m).events ++ [.reloadFailed] } := by
    simp only [step, hp, h1, h2, Bool.false_eq_true, if_false]
    rw [if_pos hb]
  rw [e]
  refine ⟨rfl, rfl, ?_, fun _ => rfl, by simp⟩
  intro x
  have := h.acc x
  simp only [closeHeld]
  cases hx : m.new.holds x <;> simp [hx, b2n] at this ⊢ <;> omega


end Casket.Reload
