import Casket.Proofs.AutoHTTPSAddr
/-
Helper lemmas for Props/C15.lean, part: IP-literal hosts in site addresses (IPv4 literals are canonical text; bracketed
IPv6 literals), Address.String and its round trip, which site an address denotes.  Core Lean only.
-/
set_option linter.unusedSimpArgs false
namespace Casket.AutoHTTPS
open Casket.Generated Casket.AutoHTTPSSpec

/-! ## IPv4 literals are their own canonical text -/

set_option maxRecDepth 100000 in
/-- appending a digit to the decimal text of a value: no leading zero, result ≤ 255 -/
theorem decByte_snoc : ∀ v : Fin 26, ∀ d : Fin 10, 1 ≤ v.val → v.val * 10 + d.val ≤ 255 →
    decByte (v.val * 10 + d.val) = decByte v.val ++ [UInt8.ofNat (48 + d.val)] := by decide

theorem decByte_digit : ∀ d : Fin 10, decByte d.val = [UInt8.ofNat (48 + d.val)] := by decide

theorem isDigit_val (c : UInt8) (h : isDigit c = true) : c.toNat - 48 < 10 ∧ UInt8.ofNat (48 + (c.toNat - 48)) = c := by
  unfold isDigit at h
  simp only [Bool.and_eq_true, decide_eq_true_eq] at h
  have h1 : 48 ≤ c.toNat := UInt8.le_iff_toNat_le.mp h.1
  have h2 : c.toNat ≤ 57 := UInt8.le_iff_toNat_le.mp h.2
  refine ⟨by omega, ?_⟩
  have : 48 + (c.toNat - 48) = c.toNat := by omega
  rw [this]; simp

/-- the text of the octets read so far: finished octets joined by dots, a dot after each -/
def octetsText : List UInt8 → Bytes
  | [] => []
  | o :: rest => octetsText rest ++ decByte o.toNat ++ [46]

def decOctet (o : UInt8) : Bytes := decByte o.toNat

theorem joinWith_snoc (sep : Bytes) : ∀ (l : List Bytes) (x : Bytes), l ≠ [] → joinWith sep (l ++ [x]) = joinWith sep l ++ sep ++ x := by
  intro l
  induction l with
  | nil => intro x h; exact absurd rfl h
  | cons a t ih =>
    intro x _
    cases t with
    | nil => simp [joinWith]
    | cons b t' =>
      have := ih x (by simp)
      simp only [List.cons_append] at this ⊢
      simp only [joinWith]
      rw [this]; simp

theorem join_octets : ∀ (acc : List UInt8) (x : UInt8),
    joinWith b!"." ((acc.reverse ++ [x]).map decOctet) = octetsText acc ++ decOctet x := by
  intro acc
  induction acc with
  | nil => intro x; simp [joinWith, octetsText]
  | cons o rest ih =>
    intro x
    have h1 : ((o :: rest).reverse ++ [x]).map decOctet = ((rest.reverse ++ [o]).map decOctet) ++ [decOctet x] := by simp
    rw [h1, joinWith_snoc _ _ _ (by simp), ih o]
    simp [octetsText, decOctet]

theorem ipv4Go_text : ∀ (s : Bytes) (first prevDot : Bool) (val digLen : Nat) (acc r : List UInt8) (cur : Bytes),
    ipv4Go s first prevDot val digLen acc = some r →
    cur.length = digLen → (digLen = 0 → val = 0) → (digLen > 0 → cur = decByte val ∧ val ≤ 255) → (digLen ≥ 2 → val ≥ 10) →
    (digLen = 0 → (first || prevDot) = true) → (prevDot = true → s ≠ []) → (first = true → acc = []) →
    octetsText acc ++ cur ++ s = joinWith b!"." (r.map decOctet) := by
  intro s
  induction s with
  | nil =>
    intro first prevDot val digLen acc r cur h hlen h0 hpos _ hfp hpd hfa
    unfold ipv4Go at h
    by_cases h3 : acc.length < 3
    · simp [h3] at h
    · simp only [h3, if_false, Option.some.injEq] at h
      have hd : digLen > 0 := by
        rcases Nat.eq_zero_or_pos digLen with hz | hp
        · have := hfp hz
          simp only [Bool.or_eq_true] at this
          rcases this with hf | hp'
          · have := hfa hf; subst this; simp at h3
          · exact absurd rfl (hpd hp')
        · exact hp
      obtain ⟨hcur, hle⟩ := hpos hd
      rw [← h, List.reverse_cons, join_octets]
      have : (UInt8.ofNat val).toNat = val := by simp; omega
      simp [decOctet, this, hcur]
  | cons a t ih =>
    intro first prevDot val digLen acc r cur h hlen h0 hpos h10 hfp hpd hfa
    unfold ipv4Go at h
    by_cases hd : isDigit a = true
    · simp only [hd, if_true] at h
      by_cases h1 : (digLen == 1 && val == 0) = true
      · simp [h1] at h
      · simp only [h1] at h
        by_cases h2 : val * 10 + (a.toNat - 48) > 255
        · simp [h2] at h
        · simp only [h2, if_false] at h
          obtain ⟨hdv, hda⟩ := isDigit_val a hd
          have hcur' : cur ++ [a] = decByte (val * 10 + (a.toNat - 48)) := by
            rcases Nat.eq_zero_or_pos digLen with hz | hp
            · have hv := h0 hz
              have hc : cur = [] := by
                have : cur.length = 0 := by omega
                simpa using this
              subst hv; subst hc
              have := decByte_digit ⟨a.toNat - 48, hdv⟩
              simp only at this
              simp [this, hda]
            · obtain ⟨hcv, _⟩ := hpos hp
              have hv1 : 1 ≤ val := by
                rcases Nat.lt_or_ge digLen 2 with hl | hg
                · have hd1 : digLen = 1 := by omega
                  rcases Nat.eq_zero_or_pos val with hz | hpv
                  · exfalso; apply h1; simp [hd1, hz]
                  · exact hpv
                · have := h10 hg; omega
              have hv26 : val < 26 := by omega
              have := decByte_snoc ⟨val, hv26⟩ ⟨a.toNat - 48, hdv⟩ hv1 (by simp only; omega)
              simp only at this
              rw [this, hcv, hda]
          have := ih false false (val * 10 + (a.toNat - 48)) (digLen + 1) acc r (cur ++ [a]) h
            (by simp [hlen]) (by omega) (fun _ => ⟨hcur', by omega⟩)
            (by intro hg
                rcases Nat.eq_zero_or_pos digLen with hz | hp
                · omega
                · have hv1 : 1 ≤ val := by
                    rcases Nat.lt_or_ge digLen 2 with hl | hg2
                    · have hd1 : digLen = 1 := by omega
                      rcases Nat.eq_zero_or_pos val with hz | hpv
                      · exfalso; apply h1; simp [hd1, hz]
                      · exact hpv
                    · have := h10 hg2; omega
                  omega)
            (by omega) (by simp) (by simp)
          rw [← this]; simp
    · simp only [hd] at h
      by_cases h46 : (a == 46) = true
      · simp only [h46, if_true] at h
        have ha : a = 46 := by simpa using h46
        by_cases h1 : (first || t.isEmpty || prevDot) = true
        · simp [h1] at h
        · simp only [h1] at h
          by_cases h2 : (acc.length == 3) = true
          · simp [h2] at h
          · simp only [h2] at h
            simp only [Bool.or_eq_true, not_or, Bool.not_eq_true] at h1
            obtain ⟨⟨hf, hte⟩, hp⟩ := h1
            have hdpos : digLen > 0 := by
              rcases Nat.eq_zero_or_pos digLen with hz | hpz
              · have := hfp hz; simp [hf, hp] at this
              · exact hpz
            obtain ⟨hcv, hle⟩ := hpos hdpos
            have hvn : (UInt8.ofNat val).toNat = val := by simp; omega
            have := ih false true 0 0 (UInt8.ofNat val :: acc) r [] h rfl (fun _ => rfl) (by intro h; omega) (by intro h; omega)
              (by intro _; rfl) (by intro _; intro he; rw [he] at hte; simp at hte) (by intro h; cases h)
            rw [← this, ha]
            simp [octetsText, hvn, hcv]
      · simp [h46] at h

theorem parseIPv4_text (s : Bytes) (r : List UInt8) (h : parseIPv4 s = some r) : joinWith b!"." (r.map decOctet) = s := by
  have := ipv4Go_text s true false 0 0 [] r [] h rfl (fun _ => rfl) (by intro h; omega) (by intro h; omega)
    (by intro _; rfl) (by intro h; cases h) (by intro _; rfl)
  simpa [octetsText] using this.symm

/-- A host written with name bytes only (letters, digits, `- . _ *`) is left alone by Normalize's IP canonicalisation:
either it is no IP literal, or it is an IPv4 literal — and Go accepts only the canonical spelling of those. -/
theorem canonHost_name (h : Bytes) (hn : h.all nameByte = true) : canonHost h = h := by
  unfold canonHost
  cases hp : parseIP h with
  | none => rfl
  | some ip =>
    simp only
    unfold parseIP at hp
    by_cases h37 : hasByte h 37 = true
    · simp [h37] at hp
    · simp only [h37, Bool.false_eq_true, ↓reduceIte] at hp
      cases hf : h.find? (fun c => c == 46 || c == 58) with
      | none => simp [hf] at hp
      | some c =>
        simp only [hf] at hp
        have hc46 : (c == 46) = true := by
          have hmem := List.mem_of_find?_eq_some hf
          have hpred := List.find?_some hf
          simp only [Bool.or_eq_true, beq_iff_eq] at hpred
          rcases hpred with h1 | h1
          · simp [h1]
          · exfalso; subst h1; exact (not_mem_name h hn).1 hmem
        simp only [hc46, if_true] at hp
        cases hv : parseIPv4 h with
        | none => simp [hv] at hp
        | some v4 =>
          simp only [hv, Option.map_some, Option.some.injEq] at hp
          have hl := parseIPv4_length h v4 hv
          have ht := parseIPv4_text h v4 hv
          rw [← hp]
          unfold ipString to4
          have h12 : (v4in6Prefix ++ v4).take 12 = v4in6Prefix := by simp [v4in6Prefix]
          have hd12 : (v4in6Prefix ++ v4).drop 12 = v4 := by simp [v4in6Prefix]
          simp only [h12, hd12, beq_self_eq_true, if_true]
          exact ht

/-! ## the address theorems for every well-formed `[scheme://]host[:port]`, IPv4 literals included -/

theorem canon_ok (a : AddrParts) (hok : a.ok) : canonHost a.host = a.host ∧ canonHost (toLower a.host) = toLower a.host :=
  ⟨canonHost_name _ hok.2.1, canonHost_name _ (lower_ok a hok).2.1⟩

theorem normalized_compose_all (a : AddrParts) (hok : a.ok) (r : Address) (h : standardizeAddress (composeAddr a) = .ok r) :
    r.normalize = { original := composeAddr a, scheme := tableScheme (toLower a.scheme) (tablePort (toLower a.scheme) a.port),
                    host := toLower a.host, port := tablePort (toLower a.scheme) a.port, path := [] } :=
  normalized_compose_canon a hok (canon_ok a hok).1 r h

theorem reader_agrees_all (a : AddrParts) (hok : a.ok) (r : Address) (h : standardizeAddress (composeAddr a) = .ok r) :
    (r.normalize.scheme, r.normalize.host, r.normalize.port) = readAddr (composeAddr a) :=
  reader_agrees_canon a hok (canon_ok a hok).1 r h

theorem vhost_compose_all (a : AddrParts) (hok : a.ok) (r : Address) (h : standardizeAddress (composeAddr a) = .ok r) :
    r.normalize.vhost = a.host ++ portPart a := vhost_compose_canon a hok (canon_ok a hok).1 r h

theorem key_compose_all (a : AddrParts) (hok : a.ok) (r : Address) (h : standardizeAddress (composeAddr a) = .ok r) :
    r.normalize.key = expectedKey a := key_compose_canon a hok (canon_ok a hok).1 r h

theorem key_roundtrip_all (a : AddrParts) (hok : a.ok) (r : Address) (h : standardizeAddress (composeAddr a) = .ok r) :
    ∃ r', standardizeAddress r.normalize.key = .ok r' ∧ r'.normalize.scheme = r.normalize.scheme ∧
      r'.normalize.host = r.normalize.host ∧ r'.normalize.port = r.normalize.port ∧ r'.normalize.key = r.normalize.key :=
  key_roundtrip_canon a hok (canon_ok a hok).1 (canon_ok a hok).2 r h

end Casket.AutoHTTPS
