import Casket.Proofs.ProxyMsg
/-
Helper lemmas for the encoded-path theorems of Props/C04.lean: percent-unescaping
(`Casket.Path.unescape`, the model of net/url in Model/Path.lean) is a homomorphism for
concatenation, inverts `escapePath`, and therefore `URL.EscapedPath()` always decodes to Path.
-/
namespace Casket.ProxyMsg
open Casket.ProxyMsgSpec
open Casket.Path (unescape escapePath escapedPath isHex unhexVal hexDigitUpper shouldEscapePath)

theorem unescape_cons_ne (c : UInt8) (r : Str) (h : c ≠ 37) :
    unescape false (c :: r) = (unescape false r).map (c :: ·) := by
  cases r with
  | nil => simp [unescape, h]
  | cons a r =>
    cases r with
    | nil => simp [unescape, h]
    | cons b r => simp [unescape, h]

theorem unescape_append (a a' b : Str) (h : unescape false a = some a') :
    unescape false (a ++ b) = (unescape false b).map (a' ++ ·) := by
  induction a using Casket.Path.unescape.induct generalizing a' with
  | case1 => simp [unescape] at h; subst h; simp
  | case2 x y rest hxy ih =>
    simp only [unescape, hxy, if_true] at h
    cases hr : unescape false rest with
    | none => simp [hr] at h
    | some r' =>
      simp only [hr, Option.map_some, Option.some.injEq] at h
      subst h
      simp only [List.cons_append, unescape, hxy, if_true, ih r' hr]
      cases unescape false b <;> simp
  | case3 x y rest hxy => simp [unescape, hxy] at h
  | case4 t ht =>
    exfalso
    cases t with
    | nil => simp [unescape] at h
    | cons x t =>
      cases t with
      | nil => simp [unescape] at h
      | cons y t => exact ht x y t rfl
  | case5 c rest _ hne ih =>
    have hne' : c ≠ 37 := fun h => hne h
    rw [unescape_cons_ne c rest hne'] at h
    cases hr : unescape false rest with
    | none => simp [hr] at h
    | some r' =>
      simp only [hr, Option.map_some, Option.some.injEq] at h
      subst h
      simp only [List.cons_append]
      rw [unescape_cons_ne c _ hne', ih r' hr]
      cases unescape false b <;> simp

set_option maxRecDepth 8000 in
theorem hex_roundtrip : ∀ c : UInt8,
    (isHex (hexDigitUpper (c / 16)) && isHex (hexDigitUpper (c % 16)) &&
      (unhexVal (hexDigitUpper (c / 16)) * 16 + unhexVal (hexDigitUpper (c % 16)) == c)) = true :=
  all_u8 _ (by decide)

theorem percent_escaped : shouldEscapePath 37 = true := by decide

theorem unescape_escape (p : Str) : unescape false (escapePath p) = some p := by
  induction p with
  | nil => rfl
  | cons c rest ih =>
    unfold escapePath
    by_cases hs : shouldEscapePath c = true
    · have hb := hex_roundtrip c
      simp only [Bool.and_eq_true, beq_iff_eq] at hb
      simp only [hs, if_true, unescape, hb.1.1, hb.1.2, Bool.and_self, ih, Option.map_some, hb.2]
    · have hne : c ≠ 37 := by
        intro h; subst h; exact hs percent_escaped
      simp only [hs, Bool.false_eq_true, if_false]
      rw [unescape_cons_ne c _ hne, ih]
      rfl

/-- `URL.EscapedPath()` always decodes to `URL.Path` -/
theorem escapedOf_unescape (path raw : Str) : unescape false (escapedOf path raw) = some path := by
  unfold escapedOf escapedPath
  simp only
  by_cases h1 : raw ≠ [] ∧ Casket.Path.validEncodedPath raw = true ∧ unescape false raw = some path
  · rw [if_pos h1]
    exact h1.2.2
  · rw [if_neg h1]
    by_cases h2 : path = [42]
    · subst h2; rfl
    · rw [if_neg h2]
      exact unescape_escape path

/-- joining two encoded pieces whose slash situation at the joint is the same as that of the
decoded pieces gives an encoding of the joined decoded pieces -/
theorem unescape_join (a b A B : Str) (ha : unescape false a = some A) (hb : unescape false b = some B)
    (h1 : endsWithSlash a = endsWithSlash A) (h2 : startsWithSlash b = startsWithSlash B)
    (h3 : b = [] ↔ B = []) :
    unescape false (singleJoiningSlash a b) = some (singleJoiningSlash A B) := by
  unfold singleJoiningSlash
  rw [h1, h2]
  have hbne : (b != []) = (B != []) := by
    cases b with
    | nil => rw [h3.mp rfl]
    | cons x xs =>
      cases B with
      | nil => exact absurd (h3.mpr rfl) (by simp)
      | cons y ys => rfl
  rw [hbne]
  by_cases hc1 : (endsWithSlash A && startsWithSlash B) = true
  · simp only [hc1, if_true]
    -- b = '/' :: b', B = '/' :: B'
    have hsb : startsWithSlash b = true := by rw [h2]; simp only [Bool.and_eq_true] at hc1; exact hc1.2
    cases b with
    | nil => simp [startsWithSlash] at hsb
    | cons c b' =>
      have hc : c = slash := by simpa [startsWithSlash] using hsb
      subst hc
      rw [unescape_cons_ne slash b' (by decide)] at hb
      cases hb' : unescape false b' with
      | none => simp [hb'] at hb
      | some B' =>
        simp only [hb', Option.map_some, Option.some.injEq] at hb
        subst hb
        simp only [List.drop_succ_cons, List.drop_zero]
        rw [unescape_append a A b' ha, hb']
        rfl
  · simp only [hc1, Bool.false_eq_true, if_false]
    by_cases hc2 : (!endsWithSlash A && !startsWithSlash B && B != []) = true
    · simp only [hc2, if_true]
      rw [List.append_assoc, unescape_append a A _ ha]
      have : unescape false ([slash] ++ b) = some ([slash] ++ B) := by
        show unescape false (slash :: b) = _
        rw [unescape_cons_ne slash b (by decide), hb]; rfl
      rw [this]
      simp
    · simp only [hc2, Bool.false_eq_true, if_false]
      rw [unescape_append a A b ha, hb]
      rfl

end Casket.ProxyMsg
