import Casket.Model.ExecSetup
/-
`-validate` and a start make the same setup calls (C11): the recording instance of `execute`.
-/
namespace Casket.ExecSetup
open Casket.Lexer

def isOk {ε α : Type} : Except ε α → Bool
  | .ok _ => true
  | .error _ => false

/-- the outcome of running the setup calls `cs`, independent of the trace so far -/
def runRes (fails : Call → Bool) : List Call → Bool × List Ev
  | [] => (true, [])
  | c :: cs => if fails c then (false, [.setup c]) else ((runRes fails cs).1, .setup c :: (runRes fails cs).2)

theorem runRes_setups (fails : Call → Bool) (cs : List Call) : (runRes fails cs).2.filter Ev.isSetup = (runRes fails cs).2 := by
  induction cs with
  | nil => rfl
  | cons c cs ih =>
    unfold runRes
    split
    · rfl
    · simp only [List.filter_cons, Ev.isSetup, if_true, ih]

theorem runCalls_rec (fails : Call → Bool) (cs : List Call) (tr : List Ev) :
    runCalls (recSetup fails) cs tr =
      if (runRes fails cs).1 then .ok (tr ++ (runRes fails cs).2) else .error (tr ++ (runRes fails cs).2) := by
  induction cs generalizing tr with
  | nil => simp [runCalls, runRes]
  | cons c cs ih =>
    by_cases hf : fails c = true
    · have h1 : recSetup fails c tr = .error (tr ++ [.setup c]) := by simp [recSetup, hf]
      simp [runCalls, h1, runRes, hf]
    · have h1 : recSetup fails c tr = .ok (tr ++ [.setup c]) := by simp [recSetup, hf]
      simp only [runCalls, h1, runRes, hf, Bool.false_eq_true, if_false]
      rw [ih]
      simp only [List.append_assoc, List.singleton_append]

/-- one directive of `execute`, for the recording instance -/
theorem execute_cons (fails : Call → Bool) (cbs : List Bytes) (fd : Option Bytes) (jv : Bool) (blocks : List Block)
    (d : Bytes) (ds : List Bytes) (tr : List Ev) :
    execute (recSetup fails) (recCallback cbs fd) jv blocks (d :: ds) tr =
      if (runRes fails (callsFor d blocks)).1 then
        (if jv then execute (recSetup fails) (recCallback cbs fd) jv blocks ds (tr ++ (runRes fails (callsFor d blocks)).2)
         else if cbs.contains d then
           (if fd == some d then .error (tr ++ (runRes fails (callsFor d blocks)).2 ++ [.callback d])
            else execute (recSetup fails) (recCallback cbs fd) jv blocks ds (tr ++ (runRes fails (callsFor d blocks)).2 ++ [.callback d]))
         else execute (recSetup fails) (recCallback cbs fd) jv blocks ds (tr ++ (runRes fails (callsFor d blocks)).2))
      else .error (tr ++ (runRes fails (callsFor d blocks)).2) := by
  rw [execute, runCalls_rec]
  by_cases hb : (runRes fails (callsFor d blocks)).1 = true
  · simp only [hb, if_true]
    by_cases hj : jv = true
    · simp only [hj, if_true]
    · simp only [hj, Bool.false_eq_true, if_false, recCallback]
      by_cases hreg : cbs.contains d = true
      · simp only [hreg, if_true]
        by_cases hfail : (fd == some d) = true
        · simp only [hfail, if_true]
        · simp only [hfail, Bool.false_eq_true, if_false]
      · simp only [hreg, Bool.false_eq_true, if_false]
  · simp only [hb, Bool.false_eq_true, if_false]

/-- a load only ever extends the trace -/
theorem execute_extends (fails : Call → Bool) (cbs : List Bytes) (fd : Option Bytes) (jv : Bool) (blocks : List Block)
    (dirs : List Bytes) (tr : List Ev) :
    tr <+: traceOf (execute (recSetup fails) (recCallback cbs fd) jv blocks dirs tr) := by
  induction dirs generalizing tr with
  | nil => exact List.prefix_refl _
  | cons d ds ih =>
    rw [execute_cons]
    have p1 : ∀ e, tr <+: tr ++ e := fun e => List.prefix_append _ _
    have p2 : ∀ e f, tr <+: tr ++ e ++ f := fun e f => List.IsPrefix.trans (p1 e) (List.prefix_append _ _)
    repeat' split
    all_goals first
      | exact List.IsPrefix.trans (p1 _) (ih _)
      | exact List.IsPrefix.trans (p2 _ _) (ih _)
      | exact p1 _
      | exact p2 _ _

/-- the setup events of a start are a prefix of those of a validation, and unless the failing callback ran the two
loads make exactly the same setup calls and end the same way -/
theorem start_vs_validate (fails : Call → Bool) (cbs : List Bytes) (fd : Option Bytes) (blocks : List Block)
    (dirs : List Bytes) (trV trS : List Ev) (hinv : trS.filter Ev.isSetup = trV) :
    (traceOf (execute (recSetup fails) (recCallback cbs fd) false blocks dirs trS)).filter Ev.isSetup <+:
      traceOf (execute (recSetup fails) (recCallback cbs fd) true blocks dirs trV) ∧
    ((∀ d, fd = some d → Ev.callback d ∉ traceOf (execute (recSetup fails) (recCallback cbs fd) false blocks dirs trS)) →
      (traceOf (execute (recSetup fails) (recCallback cbs fd) false blocks dirs trS)).filter Ev.isSetup =
        traceOf (execute (recSetup fails) (recCallback cbs fd) true blocks dirs trV) ∧
      isOk (execute (recSetup fails) (recCallback cbs fd) false blocks dirs trS) =
        isOk (execute (recSetup fails) (recCallback cbs fd) true blocks dirs trV)) := by
  induction dirs generalizing trV trS with
  | nil =>
    simp only [execute, traceOf, isOk]
    exact ⟨by rw [hinv]; exact List.prefix_refl _, fun _ => ⟨hinv, trivial⟩⟩
  | cons d ds ih =>
    have hfilt : ∀ e, (trS ++ (runRes fails (callsFor d blocks)).2 ++ e).filter Ev.isSetup =
        trV ++ (runRes fails (callsFor d blocks)).2 ++ e.filter Ev.isSetup := by
      intro e
      simp only [List.filter_append, hinv, runRes_setups]
    have h0 := hfilt []
    simp only [List.filter_nil, List.append_nil] at h0
    have h1 := hfilt [.callback d]
    simp only [List.filter_cons, Ev.isSetup, Bool.false_eq_true, if_false, List.filter_nil, List.append_nil] at h1
    rw [execute_cons, execute_cons]
    by_cases hb : (runRes fails (callsFor d blocks)).1 = true
    · simp only [hb, if_true, Bool.false_eq_true, if_false]
      by_cases hreg : cbs.contains d = true
      · simp only [hreg, if_true]
        by_cases hfail : (fd == some d) = true
        · simp only [hfail, if_true]
          refine ⟨?_, fun hnone => ?_⟩
          · simp only [traceOf]
            rw [h1]
            exact execute_extends fails cbs fd true blocks ds _
          · have hd : fd = some d := by simpa using hfail
            exact absurd (by simp [traceOf]) (hnone d hd)
        · simp only [hfail, Bool.false_eq_true, if_false]
          exact ih _ _ h1
      · simp only [hreg, Bool.false_eq_true, if_false]
        exact ih _ _ h0
    · simp only [hb, Bool.false_eq_true, if_false, traceOf, isOk]
      exact ⟨by rw [h0]; exact List.prefix_refl _, fun _ => ⟨h0, trivial⟩⟩

end Casket.ExecSetup
