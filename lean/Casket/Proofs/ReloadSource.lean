import Casket.Model.ReloadSource
/-
Loading is a function of what is written at the time of the call: whatever was written (and loaded) before, after
`write _ sp c g` a load yields the meaning `c` with marker `g` on every site, in every spelling.
-/
namespace Casket.Reload

theorem map_addr_site (addrs : List Nat) (g : Nat) (fail : Bool) :
    addrs.map ((fun (x : SiteText) => x.addr) ∘ fun a => ({ addr := a, marker := g, fail := fail } : SiteText)) = addrs := by
  induction addrs with
  | nil => rfl
  | cons a as ih => simp [ih]

theorem load_write (old : Source) (sp : Spelling) (c : Cfg) (g : Nat) (h : c.addrs ≠ []) :
    load (write old sp c g) = c := by
  cases c with
  | mk addrs fail =>
    simp only [load, write, List.map_map, List.any_map]
    have h2 : addrs.any ((fun (x : SiteText) => x.fail) ∘ fun a => ({ addr := a, marker := g, fail := fail } : SiteText)) = fail := by
      cases addrs with
      | nil => exact absurd rfl h
      | cons a as => cases fail <;> simp
    rw [map_addr_site, h2]

theorem markers_write (old : Source) (sp : Spelling) (c : Cfg) (g : Nat) :
    ∀ k ∈ markers (write old sp c g), k = g := by
  intro k hk
  simp only [markers, write, List.map_map, List.mem_map] at hk
  obtain ⟨_, _, rfl⟩ := hk
  rfl

theorem resolveOps_meaning (ws : List WOp) (s : Source) (g : Nat) (h : ∀ w ∈ ws, w.cfg.addrs ≠ []) :
    resolveOps s g ws = ws.map WOp.meaning := by
  induction ws generalizing s g with
  | nil => rfl
  | cons w rest ih =>
    simp only [resolveOps, List.map_cons, WOp.meaning]
    rw [load_write _ _ _ _ (h w (List.mem_cons_self ..)), ih _ _ (fun w' hw' => h w' (List.mem_cons_of_mem _ hw'))]

theorem handoverRunW_meaning (busy : List Nat) (c0 : Cfg) (sp0 : Spelling) (ws : List WOp)
    (h0 : c0.addrs ≠ []) (h : ∀ w ∈ ws, w.cfg.addrs ≠ []) :
    handoverRunW busy c0 sp0 ws = handoverRun busy c0 (ws.map WOp.meaning) := by
  simp only [handoverRunW]
  rw [load_write _ _ _ _ h0, resolveOps_meaning ws _ _ h]

end Casket.Reload
