import Casket.Proofs.AutoHTTPSAddrIP
/-
Helper lemmas for Props/C15.lean, part: site addresses with a bracketed IPv6 literal `[scheme://][v6][:port]`.  Core Lean only.
-/
set_option linter.unusedSimpArgs false
namespace Casket.AutoHTTPS
open Casket.Generated Casket.AutoHTTPSSpec

/-! ## bracketed IPv6 literals `[scheme://][v6][:port]` -/

structure V6Parts where
  scheme : Bytes := []
  v6 : Bytes := []
  port : Option Bytes := none

/-- scheme: letters; v6: a text net.ParseIP accepts (so no zone) that contains a ':' ; port: digits, at least one -/
def V6Parts.ok (a : V6Parts) : Prop :=
  a.scheme.all isAlpha = true ∧ (parseIP a.v6).isSome = true ∧ hasByte a.v6 58 = true ∧
  ∀ p, a.port = some p → p ≠ [] ∧ p.all isDigit = true

def portPart6 (a : V6Parts) : Bytes := match a.port with | none => [] | some p => 58 :: p

/-- `[v6]` or `[v6]:port` -/
def hostPort6 (a : V6Parts) : Bytes := 91 :: a.v6 ++ 93 :: portPart6 a

def composeAddr6 (a : V6Parts) : Bytes := schemePrefix a.scheme ++ hostPort6 a

set_option maxRecDepth 100000 in
theorem ipByte_facts (c : UInt8) (h : ipByte c = true) :
    c ≠ 104 ∧ c ≠ 47 ∧ c ≠ 91 ∧ c ≠ 93 ∧ hostByteOK c = true ∧ (0x21 ≤ c && c ≤ 0x7e && c != 35 && c != 63 && c != 37 && c != 64) = true := by
  have := forall_uint8 (fun c => !ipByte c || (c != 104 && c != 47 && c != 91 && c != 93 && hostByteOK c &&
    (0x21 ≤ c && c ≤ 0x7e && c != 35 && c != 63 && c != 37 && c != 64))) (by decide) c
  simp only [h, Bool.not_true, Bool.false_or, Bool.and_eq_true, bne_iff_ne, ne_eq] at this
  obtain ⟨⟨⟨⟨⟨h1, h2⟩, h3⟩, h4⟩, h5⟩, h6⟩ := this
  refine ⟨h1, h2, h3, h4, h5, ?_⟩
  simp only [Bool.and_eq_true, bne_iff_ne, ne_eq]
  exact h6

theorem noColonH_of_no_h (s : Bytes) (h : (104 : UInt8) ∉ s) : noColonH s = true := by
  induction s with
  | nil => rfl
  | cons c t ih =>
    unfold noColonH
    have ht : t.head? ≠ some 104 := by
      intro hh; apply h
      cases t with
      | nil => cases hh
      | cons d t' => simp at hh; simp [hh]
    have : (t.head? == some 104) = false := by simpa using ht
    simp [this, ih (fun hm => h (by simp [hm]))]

/-- `[v6]:port` splits into v6 and port (also for an empty port) -/
theorem splitHostPort_bracket (v6 p : Bytes) (hv : (91 : UInt8) ∉ v6 ∧ (93 : UInt8) ∉ v6)
    (hp : (58 : UInt8) ∉ p ∧ (91 : UInt8) ∉ p ∧ (93 : UInt8) ∉ p) :
    splitHostPort (91 :: v6 ++ 93 :: 58 :: p) = some (v6, p) := by
  have hl : lastIndexByte (91 :: v6 ++ 93 :: 58 :: p) 58 = some (v6.length + 2) := by
    have : 91 :: v6 ++ 93 :: 58 :: p = (91 :: v6 ++ [93]) ++ 58 :: p := by simp
    rw [this, lastIndexByte_append _ _ 58 hp.1]; simp
  have he : indexByte (91 :: v6 ++ 93 :: 58 :: p) 93 = some (v6.length + 1) := by
    have h93 : (93 : UInt8) ∉ (91 :: v6) := by
      intro hm; rcases List.mem_cons.mp hm with h | h
      · cases h
      · exact hv.2 h
    have := indexByte_append (91 :: v6) (58 :: p) 93 h93
    simpa using this
  unfold splitHostPort
  rw [hl]
  simp only [List.cons_append, List.head?_cons, beq_self_eq_true, if_true]
  have he' : indexByte (91 :: (v6 ++ 93 :: 58 :: p)) 93 = some (v6.length + 1) := by simpa using he
  rw [he']
  simp only
  have hlen : ¬ (v6.length + 1 + 1 = (91 :: (v6 ++ 93 :: 58 :: p)).length) := by simp
  have h1 : hasByte (v6 ++ 93 :: 58 :: p) 91 = false := by
    rw [hasByte_false_iff]
    intro hm; rcases List.mem_append.mp hm with h | h
    · exact hv.1 h
    · simp at h; exact hp.2.1 h
  have h2 : hasByte (58 :: p) 93 = false := by
    rw [hasByte_false_iff]; intro hm; simp at hm; exact hp.2.2 hm
  have hd : ∀ n, n = v6.length → List.drop n (v6 ++ 93 :: 58 :: p) = 93 :: 58 :: p := by
    intro n hn; subst hn; simp
  simp [hlen, h1, h2, hd]

theorem lastIndexByte_isSome_of_mem (s : Bytes) (c : UInt8) (h : c ∈ s) : ∃ i, lastIndexByte s c = some i := by
  unfold lastIndexByte
  cases hf : s.reverse.findIdx? (· == c) with
  | some r => exact ⟨_, rfl⟩
  | none =>
    rw [List.findIdx?_eq_none_iff] at hf
    have := hf c (by simpa using h)
    simp at this

/-- `[v6]` alone has no port for SplitHostPort -/
theorem splitHostPort_bracket_noport (v6 : Bytes) (hv : (93 : UInt8) ∉ v6) (h58 : (58 : UInt8) ∈ v6) :
    splitHostPort (91 :: v6 ++ [93]) = none := by
  obtain ⟨i, hi⟩ := lastIndexByte_isSome_of_mem (91 :: v6 ++ [93]) 58 (by simp [h58])
  have he : indexByte (91 :: v6 ++ [93]) 93 = some (v6.length + 1) := by
    have h93 : (93 : UInt8) ∉ (91 :: v6) := by
      intro hm; rcases List.mem_cons.mp hm with h | h
      · cases h
      · exact hv h
    have := indexByte_append (91 :: v6) [] 93 h93
    simpa using this
  unfold splitHostPort
  rw [hi]
  simp only [List.cons_append, List.head?_cons, beq_self_eq_true, if_true]
  have he' : indexByte (91 :: (v6 ++ [93])) 93 = some (v6.length + 1) := by simpa using he
  rw [he']
  simp

structure V6Facts (a : V6Parts) : Prop where
  v91 : (91 : UInt8) ∉ a.v6
  v93 : (93 : UInt8) ∉ a.v6
  v58 : (58 : UInt8) ∈ a.v6
  nc : noColonH (hostPort6 a) = true
  n47 : (47 : UInt8) ∉ hostPort6 a
  dom : inAddrDomain (hostPort6 a) = true
  hostOK : (hostPort6 a).all (fun c => c ≥ 0x80 || hostByteOK c) = true

theorem v6_facts (a : V6Parts) (hok : a.ok) : V6Facts a := by
  obtain ⟨_, hip, h58, hp⟩ := hok
  cases hpi : parseIP a.v6 with
  | none => simp [hpi] at hip
  | some ip =>
    have halpha := (parseIP_some a.v6 ip hpi).1
    have hmem : ∀ c ∈ hostPort6 a, c = 91 ∨ c = 93 ∨ c = 58 ∨ ipByte c = true ∨ isDigit c = true := by
      intro c hc
      unfold hostPort6 portPart6 at hc
      rcases List.mem_append.mp hc with hc | hc
      · rcases List.mem_cons.mp hc with rfl | hc
        · left; rfl
        · right; right; right; left; exact halpha c hc
      · rcases List.mem_cons.mp hc with rfl | hc
        · right; left; rfl
        · cases hpt : a.port with
          | none => simp [hpt] at hc
          | some p =>
            simp only [hpt] at hc
            rcases List.mem_cons.mp hc with rfl | hc
            · right; right; left; rfl
            · right; right; right; right
              have := (hp p hpt).2; rw [List.all_eq_true] at this; exact this c hc
    have hgen : ∀ c ∈ hostPort6 a, c ≠ 104 ∧ c ≠ 47 ∧ hostByteOK c = true ∧
        (0x21 ≤ c && c ≤ 0x7e && c != 35 && c != 63 && c != 37 && c != 64) = true := by
      intro c hc
      rcases hmem c hc with rfl | rfl | rfl | h | h
      · decide
      · decide
      · decide
      · have := ipByte_facts c h; exact ⟨this.1, this.2.1, this.2.2.2.2.1, this.2.2.2.2.2⟩
      · have := digit_facts c h
        exact ⟨this.2.2.2.2.1, this.2.1, this.2.2.2.2.2.1, (nameByte_facts c this.2.2.2.2.2.2).2.2.2.2.2⟩
    refine ⟨?_, ?_, by simpa [hasByte] using h58, ?_, ?_, ?_, ?_⟩
    · intro hm; exact (ipByte_facts 91 (halpha 91 hm)).2.2.1 rfl
    · intro hm; exact (ipByte_facts 93 (halpha 93 hm)).2.2.2.1 rfl
    · exact noColonH_of_no_h _ (fun hm => (hgen 104 hm).1 rfl)
    · exact fun hm => (hgen 47 hm).2.1 rfl
    · unfold inAddrDomain; rw [List.all_eq_true]; intro c hc; exact (hgen c hc).2.2.2
    · rw [List.all_eq_true]; intro c hc; simp [(hgen c hc).2.2.1]

theorem parseHost_hostPort6 (a : V6Parts) (hok : a.ok) : parseHost (hostPort6 a) = some (hostPort6 a) := by
  have hf := v6_facts a hok
  unfold parseHost
  have hpre : hasPrefix (hostPort6 a) b!"[" = true := by simp [hostPort6, hasPrefix, List.isPrefixOf]
  simp only [hpre, if_true, hf.hostOK]
  have hl : lastIndexByte (hostPort6 a) 93 = some (a.v6.length + 1) ∧
      validOptionalPort ((hostPort6 a).drop (a.v6.length + 1 + 1)) = true := by
    unfold hostPort6 portPart6
    cases hpt : a.port with
    | none =>
      constructor
      · have := lastIndexByte_append (91 :: a.v6) [] 93 (by simp)
        simpa using this
      · simp [validOptionalPort]
    | some p =>
      have hpn := not_mem_digits p (hok.2.2.2 p hpt).2
      constructor
      · have := lastIndexByte_append (91 :: a.v6) (58 :: p) 93 (by
          intro hm; rcases List.mem_cons.mp hm with h | h
          · cases h
          · exact hpn.2.2.2 h)
        simpa using this
      · have : (91 :: a.v6 ++ 93 :: 58 :: p).drop (a.v6.length + 1 + 1) = 58 :: p := by
          have e : 91 :: a.v6 ++ 93 :: 58 :: p = (91 :: a.v6 ++ [93]) ++ 58 :: p := by simp
          rw [e, List.drop_left' (by simp)]
        rw [this]; simp [validOptionalPort, (hok.2.2.2 p hpt).2]
  rw [hl.1]
  simp [hl.2]

/-- what standardizeAddress must give for `[scheme://][v6][:port]`: the host is the literal without brackets -/
def expectedAddr6 (a : V6Parts) : Except AddrErr Address :=
  let scheme := toLower a.scheme
  let port := tablePort scheme a.port
  if (scheme == b!"http" && port == httpsPort) || (scheme == b!"https" && port == httpPort) then .error .convention
  else .ok { original := composeAddr6 a, scheme := tableScheme scheme port, host := a.v6, port := port, path := [] }

/-- THE SCHEME/PORT TABLE for bracketed IPv6 literals (with and without port, any notation net.ParseIP accepts) -/
theorem standardize_compose6 (a : V6Parts) (hok : a.ok) : standardizeAddress (composeAddr6 a) = expectedAddr6 a := by
  have hf := v6_facts a hok
  unfold composeAddr6
  rw [standardize_front a.scheme _ hok.1 hf.nc hf.n47 hf.dom (parseHost_hostPort6 a hok)]
  unfold finishStandardize splitURLHost expectedAddr6 composeAddr6 tablePort tableScheme hostPort6 portPart6
  cases hpt : a.port with
  | none =>
    have e1 : 91 :: a.v6 ++ 93 :: ([] : Bytes) = 91 :: a.v6 ++ [93] := rfl
    have e2 : 91 :: a.v6 ++ [93] ++ b!":" = 91 :: a.v6 ++ 93 :: 58 :: [] := by simp
    simp only [e1]
    rw [splitHostPort_bracket_noport a.v6 hf.v93 hf.v58, e2,
      splitHostPort_bracket a.v6 [] ⟨hf.v91, hf.v93⟩ ⟨by simp, by simp, by simp⟩]
    simp
  | some p =>
    have hpn := not_mem_digits p (hok.2.2.2 p hpt).2
    have hpne : p.isEmpty = false := by
      have := (hok.2.2.2 p hpt).1
      cases p <;> simp_all
    simp only
    rw [splitHostPort_bracket a.v6 p ⟨hf.v91, hf.v93⟩ ⟨hpn.1, hpn.2.2.1, hpn.2.2.2⟩]
    simp [hpne]

/-- the normalised Address: IP.String of the literal, lower-cased -/
theorem normalized_compose6 (a : V6Parts) (hok : a.ok) (r : Address) (h : standardizeAddress (composeAddr6 a) = .ok r) :
    r.normalize = { original := composeAddr6 a, scheme := tableScheme (toLower a.scheme) (tablePort (toLower a.scheme) a.port),
                    host := toLower (canonHost a.v6), port := tablePort (toLower a.scheme) a.port, path := [] } := by
  rw [standardize_compose6 a hok] at h
  unfold expectedAddr6 at h
  simp only at h
  split at h
  · cases h
  · injection h with h
    subst h
    rw [normalize_eq]
    simp only [toLower_tableScheme]
    rfl

/-- VHost keeps the text as written: `[v6][:port]` -/
theorem vhost_compose6 (a : V6Parts) (hok : a.ok) (r : Address) (h : standardizeAddress (composeAddr6 a) = .ok r) :
    r.normalize.vhost = hostPort6 a := by
  have hf := v6_facts a hok
  have hsn := not_mem_name a.scheme (all_alpha_name _ hok.1)
  rw [normalized_compose6 a hok r h, vhost_eq_splitScheme]
  simp only
  unfold splitScheme composeAddr6 schemePrefix
  by_cases hs : a.scheme.isEmpty = true
  · simp only [hs, if_true, List.nil_append]
    rw [indexSub_none_of_not_mem _ b!"://" 47 (by simp) hf.n47 0]
  · simp only [hs, Bool.false_eq_true, if_false]
    have := indexSub_first a.scheme (hostPort6 a) 58 [47, 47] hsn.1 0
    simp only [Nat.zero_add] at this
    have e : a.scheme ++ b!"://" ++ hostPort6 a = a.scheme ++ 58 :: [47, 47] ++ hostPort6 a := by simp
    rw [e, this]
    simp

theorem hasPrefix_false_of_second (l q : Bytes) (x : UInt8) (hl : l[1]? = some x) (hq : q ≠ []) (hne : q.head? ≠ some x) :
    hasPrefix l (58 :: q) = false := by
  cases hp : hasPrefix l (58 :: q) with
  | false => rfl
  | true =>
    exfalso
    unfold hasPrefix at hp
    rw [List.isPrefixOf_iff_prefix] at hp
    obtain ⟨t, rfl⟩ := hp
    cases q with
    | nil => exact hq rfl
    | cons y q' =>
      simp at hl
      simp at hne
      exact hne hl

theorem tablePort_head (s : Bytes) (port : Option Bytes) (hp : ∀ p, port = some p → p ≠ [] ∧ p.all isDigit = true) :
    (tablePort s port).head? ≠ some 93 := by
  unfold tablePort
  cases hpt : port with
  | some p =>
    obtain ⟨hne, hd⟩ := hp p hpt
    cases p with
    | nil => exact absurd rfl hne
    | cons c t =>
      simp only [List.all_cons, Bool.and_eq_true] at hd
      simp only [List.head?_cons, ne_eq, Option.some.injEq]
      exact (digit_facts c hd.1).2.2.2.1
  | none =>
    simp only
    split
    · decide
    · split <;> decide

theorem hostPort6_second (a : V6Parts) (pre : Bytes) (n : Nat) (hn : n = pre.length + a.v6.length) :
    ((pre ++ hostPort6 a).drop n)[1]? = some 93 := by
  subst hn
  rw [List.getElem?_drop, List.getElem?_append_right (by omega)]
  unfold hostPort6
  have : 91 :: a.v6 ++ 93 :: portPart6 a = (91 :: a.v6) ++ 93 :: portPart6 a := rfl
  rw [this, List.getElem?_append_right (by simp; omega)]
  have : pre.length + a.v6.length + 1 - pre.length - (91 :: a.v6).length = 0 := by simp; omega
  rw [this]; rfl

theorem hostPort6_length (a : V6Parts) : (hostPort6 a).length = a.v6.length + 2 + (portPart6 a).length := by
  unfold hostPort6; simp; omega

/-- Address.Key for a bracketed IPv6 literal written in its canonical form: the explicit port is NOT part of the key
(the offset arithmetic of Key assumes the host text of the original, which has brackets here). -/
theorem key_compose6_drops_port (a : V6Parts) (hok : a.ok) (hcan : toLower (canonHost a.v6) = a.v6) (r : Address)
    (h : standardizeAddress (composeAddr6 a) = .ok r) :
    r.normalize.key = schemePrefix (tableScheme (toLower a.scheme) (tablePort (toLower a.scheme) a.port)) ++ a.v6 := by
  rw [normalized_compose6 a hok r h, hcan]
  have l1 : httpPort = b!"80" := by decide
  have l2 : httpsPort = b!"443" := by decide
  generalize hport : tablePort (toLower a.scheme) a.port = port
  have hphead : port.head? ≠ some 93 := by rw [← hport]; exact tablePort_head _ _ hok.2.2.2
  -- the port test of Key fails
  have hfail : ¬ (port ≠ [] ∧ (composeAddr6 a).length ≥ (schemePrefix (tableScheme (toLower a.scheme) port) ++ a.v6).length ∧
      hasPrefix ((composeAddr6 a).drop (schemePrefix (tableScheme (toLower a.scheme) port) ++ a.v6).length) (58 :: port) = true) := by
    rintro ⟨hpne, hge, hpre⟩
    by_cases hs : a.scheme.isEmpty = true
    · have hs' : a.scheme = [] := by simpa using hs
      have hl : toLower a.scheme = [] := by rw [hs']; rfl
      have hc : composeAddr6 a = [] ++ hostPort6 a := by unfold composeAddr6 schemePrefix; simp [hs]
      rw [hl] at hge hpre hport
      have hpp : (portPart6 a).length ≤ port.length + 1 := by
        unfold portPart6; cases hpt : a.port with
        | none => simp
        | some p => rw [← hport]; simp [tablePort, hpt]
      unfold tableScheme at hge hpre
      simp only [List.isEmpty_nil, if_true, l1, l2] at hge hpre
      by_cases h80 : (port == b!"80") = true
      · have hp80 : port = b!"80" := by simpa using h80
        simp only [h80, if_true] at hge
        rw [hc, List.nil_append, hostPort6_length] at hge
        rw [hp80] at hpp
        simp [schemePrefix] at hge hpp
        omega
      · by_cases h443 : (port == b!"443") = true
        · have hp443 : port = b!"443" := by simpa using h443
          simp only [h80, h443, Bool.false_eq_true, if_false, if_true] at hge
          rw [hc, List.nil_append, hostPort6_length] at hge
          rw [hp443] at hpp
          simp [schemePrefix] at hge hpp
          omega
        · simp only [h80, h443, Bool.false_eq_true, if_false] at hpre
          have hsp : schemePrefix ([] : Bytes) = [] := rfl
          rw [hsp, List.nil_append, hc] at hpre
          have h2 := hostPort6_second a [] a.v6.length (by simp)
          rw [hasPrefix_false_of_second _ port 93 h2 hpne hphead] at hpre
          cases hpre
    · have hl : (toLower a.scheme).isEmpty = false := by
        cases hsc : a.scheme with
        | nil => simp [hsc] at hs
        | cons c t => simp [toLower]
      have hts : tableScheme (toLower a.scheme) port = toLower a.scheme := by unfold tableScheme; simp [hl]
      have hc : composeAddr6 a = (a.scheme ++ b!"://") ++ hostPort6 a := by unfold composeAddr6 schemePrefix; simp [hs]
      have hsp : schemePrefix (toLower a.scheme) = toLower a.scheme ++ b!"://" := by unfold schemePrefix; simp [hl]
      rw [hts, hsp, hc] at hpre
      have h2 := hostPort6_second a (a.scheme ++ b!"://") (toLower a.scheme ++ b!"://" ++ a.v6).length (by
        have := toLower_length a.scheme
        simp only [List.length_append]; omega)
      rw [hasPrefix_false_of_second _ port 93 h2 hpne hphead] at hpre
      cases hpre
  unfold Address.key
  simp only [List.append_nil]
  have hres : (if (tableScheme (toLower a.scheme) port).isEmpty then [] else tableScheme (toLower a.scheme) port ++ b!"://") =
      schemePrefix (tableScheme (toLower a.scheme) port) := rfl
  rw [hres]
  have hcond : (!port.isEmpty && decide ((composeAddr6 a).length ≥ (schemePrefix (tableScheme (toLower a.scheme) port) ++ a.v6).length) &&
      hasPrefix ((composeAddr6 a).drop (schemePrefix (tableScheme (toLower a.scheme) port) ++ a.v6).length) (b!":" ++ port)) = false := by
    rw [Bool.eq_false_iff]
    intro hc
    simp only [Bool.and_eq_true, decide_eq_true_eq, Bool.not_eq_true'] at hc
    obtain ⟨⟨h1, h2⟩, h3⟩ := hc
    exact hfail ⟨by intro he; rw [he] at h1; simp at h1, h2, h3⟩
  rw [hcond]
  rfl

end Casket.AutoHTTPS
