import Casket.Model.Log
import Casket.Spec.Log
/-
Helper lemmas for C20 (logging part).
-/
namespace Casket.Log
open Casket.LogSpec

/-! ### recorder and client see the same response -/

/-- recorder and client agree (and a response not yet started has the default status) -/
def Agree (r : Recorder) (c : Client) : Prop :=
  r.wrote = c.wrote ∧ r.status = c.status ∧ r.size = c.size ∧ (c.wrote = false → c.status = 200)

theorem agree_init : Agree {} {} := by simp [Agree]

theorem agree_apply {r : Recorder} {c : Client} (h : Agree r c) (op : Op) :
    Agree (r.apply (c.accepts op) op) (c.apply op) := by
  obtain ⟨hw, hs, hz, hd⟩ := h
  cases op with
  | header code =>
    unfold Recorder.apply Client.apply
    by_cases hcw : c.wrote = true
    · simp [Agree, hcw, hw, hs, hz]
    · have hcw' : c.wrote = false := by simpa using hcw
      by_cases hi : informational code = true
      · simp [Agree, hcw', hw, hs, hz, hi, hd hcw']
      · have hi' : informational code = false := by simpa using hi
        simp [Agree, hcw', hw, hz, hi']
  | write n =>
    unfold Recorder.apply Client.apply
    by_cases hcw : c.wrote = true
    · by_cases hok : c.accepts (.write n) = true
      · simp [Agree, hcw, hs, hz, hok]
      · have hok' : c.accepts (.write n) = false := by simpa using hok
        simp [Agree, hcw, hs, hz, hok']
    · have hcw' : c.wrote = false := by simpa using hcw
      by_cases hok : c.accepts (.write n) = true
      · simp [Agree, hcw', hz, hs, hd hcw', hok]
      · have hok' : c.accepts (.write n) = false := by simpa using hok
        simp [Agree, hcw', hz, hs, hd hcw', hok']
  | declare n =>
    unfold Recorder.apply Client.apply
    exact ⟨hw, hs, hz, hd⟩

theorem agree_runOps : ∀ (ops : List Op) (r : Recorder) (c : Client), Agree r c →
    Agree (runOps ops (r, c)).1 (runOps ops (r, c)).2 := by
  intro ops
  induction ops with
  | nil => intro r c h; simpa [runOps] using h
  | cons op rest ih => intro r c h; simpa [runOps] using ih _ _ (agree_apply h op)

/-! ### logParse -/

/-- the entries of the first rule with scope `s` -/
def entriesFor (rules : List Rule) (s : PathB) : List Entry :=
  match rules.find? fun r => decide (r.scope = s) with
  | some r => r.entries
  | none => []

theorem entriesFor_appendEntry (rules : List Rule) (s s' : PathB) (e : Entry) :
    entriesFor (appendEntry rules s e) s' = if s' = s then entriesFor rules s ++ [e] else entriesFor rules s' := by
  induction rules with
  | nil =>
    by_cases h : s' = s
    · simp [appendEntry, entriesFor, h]
    · have h' : ¬ s = s' := fun hh => h hh.symm
      simp [appendEntry, entriesFor, h, h']
  | cons r rs ih =>
    unfold appendEntry
    by_cases hrs : r.scope = s
    · simp only [hrs, if_true]
      by_cases h : s' = s
      · subst h
        simp [entriesFor, List.find?, hrs]
      · have h' : ¬ s = s' := fun hh => h hh.symm
        simp [entriesFor, List.find?, hrs, h, h']
    · simp only [hrs, if_false]
      by_cases h : s' = s
      · subst h
        have := ih
        simp only [if_true] at this
        simp only [entriesFor, List.find?, hrs, decide_false, if_true] at this ⊢
        exact this
      · have := ih
        simp only [h, if_false] at this
        by_cases hr' : r.scope = s'
        · simp [entriesFor, List.find?, hr', h]
        · simp only [entriesFor, List.find?, hr', decide_false, h, if_false] at this ⊢
          exact this

/-- the entries the directives `ds` (numbered from `k`) contribute to scope `s`: each
directive's own id and its own `except` list -/
def dirEntries (s : PathB) : Nat → List Directive → List Entry
  | _, [] => []
  | k, d :: ds => (if d.scope = s then [{ id := k, excepts := d.excepts }] else []) ++ dirEntries s (k + 1) ds

theorem entriesFor_logParseGo (s : PathB) : ∀ (ds : List Directive) (k : Nat) (rules : List Rule),
    entriesFor (logParseGo ds k rules) s = entriesFor rules s ++ dirEntries s k ds := by
  intro ds
  induction ds with
  | nil => intro k rules; simp [logParseGo, dirEntries]
  | cons d rest ih =>
    intro k rules
    unfold logParseGo dirEntries
    rw [ih, entriesFor_appendEntry]
    by_cases h : s = d.scope
    · subst h; simp
    · have h' : ¬ d.scope = s := fun hh => h hh.symm
      simp [h, h']

/-- scope of the first rule whose scope satisfies `p` -/
def firstScope (p : PathB → Bool) (rules : List Rule) : Option PathB :=
  (rules.find? fun r => p r.scope).map (·.scope)

theorem firstScope_appendEntry (p : PathB → Bool) (rules : List Rule) (s : PathB) (e : Entry) :
    firstScope p (appendEntry rules s e) =
      match firstScope p rules with
      | some x => some x
      | none => if p s then some s else none := by
  induction rules with
  | nil => by_cases h : p s = true <;> simp [appendEntry, firstScope, h]
  | cons r rs ih =>
    unfold appendEntry
    by_cases hrs : r.scope = s
    · simp only [hrs, if_true]
      by_cases hp : p s = true
      · simp [firstScope, List.find?, hrs, hp]
      · have hp' : p s = false := by simpa using hp
        simp only [firstScope, List.find?, hrs, hp'] at ih ⊢
        cases hf : (rs.find? fun r => p r.scope) <;> simp
    · simp only [hrs, if_false]
      by_cases hp : p r.scope = true
      · simp [firstScope, List.find?, hp]
      · have hp' : p r.scope = false := by simpa using hp
        simp only [firstScope, List.find?, hp'] at ih ⊢
        exact ih

theorem firstScope_logParseGo (p : PathB → Bool) : ∀ (ds : List Directive) (k : Nat) (rules : List Rule),
    firstScope p (logParseGo ds k rules) =
      match firstScope p rules with
      | some x => some x
      | none => (ds.find? fun d => p d.scope).map (·.scope) := by
  intro ds
  induction ds with
  | nil => intro k rules; cases h : firstScope p rules <;> simp [logParseGo, h]
  | cons d rest ih =>
    intro k rules
    unfold logParseGo
    rw [ih, firstScope_appendEntry]
    cases h : firstScope p rules with
    | some x => simp
    | none =>
      by_cases hp : p d.scope = true
      · simp [hp, List.find?]
      · have hp' : p d.scope = false := by simpa using hp
        simp [hp', List.find?]

/-- the first rule satisfying a predicate on scopes is also the first rule with its own scope -/
theorem find_rule_entriesFor (p : PathB → Bool) : ∀ (rules : List Rule) (r : Rule),
    (rules.find? fun r => p r.scope) = some r → entriesFor rules r.scope = r.entries ∧ p r.scope = true := by
  intro rules
  induction rules with
  | nil => intro r h; simp at h
  | cons x xs ih =>
    intro r h
    by_cases hp : p x.scope = true
    · simp only [List.find?, hp] at h
      cases h
      simp [entriesFor, List.find?, hp]
    · have hp' : p x.scope = false := by simpa using hp
      simp only [List.find?, hp'] at h
      obtain ⟨h1, h2⟩ := ih r h
      have hne : ¬ x.scope = r.scope := by
        intro he
        rw [he] at hp'
        rw [hp'] at h2
        exact Bool.noConfusion h2
      refine ⟨?_, h2⟩
      simp only [entriesFor, List.find?, hne, decide_false] at h1 ⊢
      exact h1

/-! ### counting lines -/

/-- what `Logger.ServeHTTP` turns an entry into -/
def lineOf (m : PathB → PathB → Bool) (path : PathB) (st sz : Nat) (e : Entry) : Option Line :=
  if shouldLog m e path then some { entry := e.id, status := st, size := sz } else none

theorem countFor_append (a b : List Line) (i : Nat) : countFor (a ++ b) i = countFor a i + countFor b i := by
  simp [countFor, List.filter_append]

theorem countFor_dirEntries (m : PathB → PathB → Bool) (path s : PathB) (st sz : Nat) :
    ∀ (ds : List Directive) (k i : Nat),
    countFor ((dirEntries s k ds).filterMap (lineOf m path st sz)) i =
      if k ≤ i then
        match ds[i - k]? with
        | some d => if d.scope = s ∧ shouldLog m { id := i, excepts := d.excepts } path = true then 1 else 0
        | none => 0
      else 0 := by
  intro ds
  induction ds with
  | nil => intro k i; simp [dirEntries, countFor]
  | cons d rest ih =>
    intro k i
    unfold dirEntries
    rw [List.filterMap_append, countFor_append, ih (k + 1) i]
    by_cases hki : k ≤ i
    · simp only [hki, if_true]
      by_cases heq : i = k
      · subst heq
        have h1 : ¬ (i + 1 ≤ i) := by omega
        simp only [h1, if_false, Nat.sub_self, List.getElem?_cons_zero, Nat.add_zero]
        by_cases hs : d.scope = s
        · by_cases hl : shouldLog m { id := i, excepts := d.excepts } path = true
          · simp [hs, hl, lineOf, countFor]
          · simp [hs, hl, lineOf, countFor]
        · simp [hs, countFor]
      · have h1 : k + 1 ≤ i := by omega
        have h2 : i - k = (i - (k + 1)) + 1 := by omega
        simp only [h1, if_true, h2, List.getElem?_cons_succ]
        by_cases hs : d.scope = s
        · by_cases hl : shouldLog m { id := k, excepts := d.excepts } path = true
          · have : (k == i) = false := by simp; omega
            simp [hs, hl, lineOf, countFor, this]
          · simp [hs, hl, lineOf, countFor]
        · simp [hs, countFor]
    · have h1 : ¬ (k + 1 ≤ i) := by omega
      simp only [hki, h1, if_false]
      by_cases hs : d.scope = s
      · by_cases hl : shouldLog m { id := k, excepts := d.excepts } path = true
        · have : (k == i) = false := by simp; omega
          simp [hs, hl, lineOf, countFor, this]
        · simp [hs, hl, lineOf, countFor]
      · simp [hs, countFor]

theorem shouldLog_id (m : PathB → PathB → Bool) (i j : Nat) (ex : List PathB) (path : PathB) :
    shouldLog m { id := i, excepts := ex } path = shouldLog m { id := j, excepts := ex } path := rfl

theorem firstBad_ok (vs : List Verdict) (h : ∀ v ∈ vs, v = .ok) : firstBad vs = .ok := by
  unfold firstBad
  have h1 : (vs.find? fun v => v != .ok && !v.recorded) = none := by
    rw [List.find?_eq_none]
    intro v hv
    simp [h v hv]
  have h2 : (vs.find? fun v => v != .ok) = none := by
    rw [List.find?_eq_none]
    intro v hv
    simp [h v hv]
  simp [h1, h2]

theorem directivesVerdictGo_mem (m : PathB → PathB → Bool) (all : List Directive) (path : PathB) (pan : Bool)
    (lines : List Line) : ∀ (ds : List Directive) (k : Nat) (v : Verdict),
    v ∈ directivesVerdictGo m all path pan lines k ds →
    ∃ j d, ds[j]? = some d ∧ v = directiveVerdict m all path pan lines (k + j) d := by
  intro ds
  induction ds with
  | nil => intro k v h; simp [directivesVerdictGo] at h
  | cons d rest ih =>
    intro k v h
    simp only [directivesVerdictGo, List.mem_cons] at h
    rcases h with h | h
    · exact ⟨0, d, by simp, by simpa using h⟩
    · obtain ⟨j, d', hj, hv⟩ := ih (k + 1) v h
      exact ⟨j + 1, d', by simpa using hj, by rw [hv]; congr 1; omega⟩

/-! ### Logger.ServeHTTP on the rules logParse builds -/

theorem firstScope_logParse (p : PathB → Bool) (ds : List Directive) :
    firstScope p (logParse ds) = (ds.find? fun d => p d.scope).map (·.scope) := by
  unfold logParse
  rw [firstScope_logParseGo]
  simp [firstScope]

/-- which rule `Logger.ServeHTTP` picks, in terms of the directives as written -/
theorem find_logParse (m : PathB → PathB → Bool) (ds : List Directive) (path : PathB) :
    match (logParse ds).find? fun r => m path r.scope with
    | none => firstMatchingScope m ds path = none
    | some rule => firstMatchingScope m ds path = some rule.scope ∧ rule.entries = dirEntries rule.scope 0 ds ∧
        m path rule.scope = true := by
  have hfs := firstScope_logParse (fun s => m path s) ds
  cases hf : (logParse ds).find? fun r => m path r.scope with
  | none =>
    simp only [firstScope, hf, Option.map_none] at hfs
    simp only [firstMatchingScope]
    exact hfs.symm
  | some rule =>
    simp only [firstScope, hf, Option.map_some] at hfs
    obtain ⟨h1, h2⟩ := find_rule_entriesFor (fun s => m path s) (logParse ds) rule hf
    refine ⟨by simp only [firstMatchingScope]; exact hfs.symm, ?_, h2⟩
    rw [← h1]
    unfold logParse
    rw [entriesFor_logParseGo]
    simp [entriesFor]

theorem loggerServe_lines_none (m : PathB → PathB → Bool) (errLen : Nat → Nat) (rules : List Rule) (path : PathB)
    (o : Outcome) (c : Client) (hf : (rules.find? fun r => m path r.scope) = none) :
    (loggerServe m errLen rules path o c).lines = [] := by
  simp [loggerServe, hf]

theorem loggerServe_lines_some (m : PathB → PathB → Bool) (errLen : Nat → Nat) (rules : List Rule) (path : PathB)
    (o : Outcome) (c : Client) (rule : Rule) (hp : o.panics = false)
    (hf : (rules.find? fun r => m path r.scope) = some rule) :
    ∃ st sz, (loggerServe m errLen rules path o c).lines = rule.entries.filterMap (lineOf m path st sz) := by
  unfold loggerServe
  rw [hf]
  simp only [hp]
  by_cases hr : o.ret ≥ 400
  · simp only [hr, if_true]
    exact ⟨_, _, rfl⟩
  · simp only [hr, if_false]
    exact ⟨_, _, rfl⟩

theorem serverServe_lines (m : PathB → PathB → Bool) (errLen : Nat → Nat) (rules : List Rule) (path : PathB)
    (o : Outcome) : (serverServe m errLen rules path o).lines = (loggerServe m errLen rules path o {}).lines := by
  unfold serverServe
  simp only
  split
  · rfl
  · split <;> rfl

end Casket.Log
