import Casket.Model.FileServeSites
import Casket.Proofs.FileServe
/-
Lemmas for C02's several-sites model: the walk of `hideCasketfile` over all site configurations
gives each one exactly what the single-site function gives for ITS root, whatever stands before
or after it in the Casketfile.
-/
namespace Casket.FileServeSitesProofs
open Casket.Path Casket.FS Casket.FileServe Casket.FileServeSites Casket.FileServeSpec Casket.FileServeProofs

theorem hideCasketfile_nil (r : Bytes) : hideCasketfile r [] = [] := by simp [hideCasketfile]

theorem hideAll_eq_map (cf : Bytes) (roots : List Bytes) :
    hideAll cf roots = roots.map (fun r => hideCasketfile r cf) := by
  induction roots with
  | nil => rfl
  | cons r rest ih =>
    unfold hideAll
    by_cases h : cf = []
    · subst h; simp [hideCasketfile_nil]
    · simp only [h, if_false, List.map_cons, ih]
      simp [hideCasketfile, h]

theorem find_zip_map {α β : Type} (l : List α) (f : α → β) (p : α → Bool) :
    (l.zip (l.map f)).find? (fun ab => p ab.1) = (l.find? p).map (fun a => (a, f a)) := by
  induction l with
  | nil => rfl
  | cons a l ih =>
    simp only [List.map_cons, List.zip_cons_cons, List.find?_cons]
    cases p a <;> simp [ih]

/-- the site a host selects: the block that lists the host, with the hide list of its own root -/
theorem siteOf_eq (enc : List (Bytes × Bytes)) (cf : Bytes) (blocks : List Block) (host : Bytes) :
    siteOf enc cf blocks host =
      ((configs blocks).find? (fun hb => hb.1 = host)).map
        (fun hb => mkSite enc hb.2 (hideCasketfile hb.2.root cf)) := by
  unfold siteOf
  simp only [hideAll_eq_map, List.map_map]
  have := find_zip_map (configs blocks) (fun hb => hideCasketfile hb.2.root cf) (fun hb => decide (hb.1 = host))
  simp only [Function.comp_def] at *
  rw [this]
  cases (configs blocks).find? (fun hb => decide (hb.1 = host)) <;> rfl

/-- in a list of pairs with pairwise different keys, looking a key up finds THE pair with it -/
theorem find_of_mem_nodup {β : Type} (l : List (Bytes × β)) (h : Bytes) (b : β)
    (hnd : (l.map (·.1)).Nodup) (hm : (h, b) ∈ l) :
    l.find? (fun hb => decide (hb.1 = h)) = some (h, b) := by
  induction l with
  | nil => cases hm
  | cons x l ih =>
    simp only [List.map_cons, List.nodup_cons] at hnd
    rw [List.find?_cons]
    rcases List.mem_cons.mp hm with heq | hin
    · subst heq; simp
    · have hne : x.1 ≠ h := by
        intro he
        apply hnd.1
        rw [he]
        exact List.mem_map.mpr ⟨(h, b), hin, rfl⟩
      simp only [hne, decide_false]
      exact ih hnd.2 hin

theorem mem_configs {blocks : List Block} {b : Block} {h : Bytes}
    (hb : b ∈ blocks) (hh : h ∈ b.hosts) : (h, b) ∈ configs blocks := by
  unfold configs
  exact List.mem_flatMap.mpr ⟨b, hb, List.mem_map.mpr ⟨h, hh, rfl⟩⟩

/-- Order and neighbours are irrelevant: with pairwise different addresses, every address of every
block selects the site made of THAT block and of `hideCasketfile` applied to that block's root. -/
theorem siteOf_of_mem (enc : List (Bytes × Bytes)) (cf : Bytes) (blocks : List Block) (b : Block) (h : Bytes)
    (hnd : ((configs blocks).map (·.1)).Nodup) (hb : b ∈ blocks) (hh : h ∈ b.hosts) :
    siteOf enc cf blocks h = some (mkSite enc b (hideCasketfile b.root cf)) := by
  rw [siteOf_eq, find_of_mem_nodup _ h b hnd (mem_configs hb hh)]
  rfl

theorem serveSites_verdict_ok (fs : FS) (enc : List (Bytes × Bytes)) (cf : Bytes) (blocks : List Block)
    (host method target ae : Bytes) (s : Site) (hs : siteOf enc cf blocks host = some s)
    (hroot : NormalSegs s.root) (hp : NormalPrefix s.pathPrefix) (hrd : RootIsDir fs s) :
    verdict fs s target ae (serveSites fs enc cf blocks host method target ae) = "ok" := by
  unfold serveSites
  rw [hs]
  exact serve_verdict_ok fs s method target ae hroot hp hrd

end Casket.FileServeSitesProofs
