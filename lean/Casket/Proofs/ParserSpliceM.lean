import Casket.Proofs.ParserSplice
import Casket.Proofs.ImportMeasure
/-
Structure preservation across imports, generalised (C10): ANY number of `import <file>` lines at directive level, in
ANY block of the configuration, each replacing a run of whole directives, parse to the blocks of the inline text.

A block's directive list is written as a list of items — a directive, or an import line together with the file it names
and the run of directives that file holds.  `directives()` is followed item by item (`directives_items`): a directive
is one turn of the loop (`directives_prefix`), an import line is `doImport` (`doImport_file`) followed by the turns
over the spliced run.  The import stack is not empty after the first import; `FrB` (every source on it ends at or after
the cursor's distance from the end) makes `popFrames` clear it at the next import line.
-/
namespace Casket.ParserRT
open Casket.Lexer Casket.Dispenser Casket.Dispenser.Disp Casket.Parser

/-- what stands in a block: a directive, or an import line with the file it names and the directives the file holds -/
inductive WItem where
  | dir (d : WDir)
  | imp (imp arg : Token) (name : String) (content : Bytes) (run : List WDir)

/-- the tokens written in the importing text -/
def WItem.written : WItem → List Token
  | .dir d => d.toks
  | .imp i a _ _ _ => [i, a]

/-- the directives the item stands for -/
def WItem.inline : WItem → List WDir
  | .dir d => [d]
  | .imp _ _ _ _ run => run

def writtenToks (items : List WItem) : List Token := items.flatMap WItem.written
def inlineDirs (items : List WItem) : List WDir := items.flatMap WItem.inline

/-- number of imported tokens -/
def impLen : List WItem → Nat
  | [] => 0
  | .dir _ :: r => impLen r
  | .imp _ _ _ _ run :: r => (dirToks run).length + impLen r

/-- turns of the `directives()` loop -/
def cost : List WItem → Nat
  | [] => 0
  | .dir _ :: r => cost r + 1
  | .imp _ _ _ _ run :: r => cost r + run.length + 1

/-- the token written after an item: the first token of the next item, or the closing brace -/
def nextW (items : List WItem) (close : Token) : Token := (writtenToks items ++ [close]).head?.getD close

/-- the items are well formed: a directive as in `dirsOK`, followed by a new line; an import line = `import` and a plain
non-empty argument alone on one line, naming exactly one non-empty file whose tokens are the directives `run`, themselves
well formed and followed by a new line -/
def itemsOK (cfg : Cfg) : List WItem → Token → Bool
  | [], _ => true
  | .dir d :: r, close => dirsOK [d] (nextW r close) && itemsOK cfg r close
  | .imp i a n c run :: r, close =>
    i.text == sImport && (i.file == a.file && i.line + numLineBreaks i.text == a.line) && noRef a.text && !a.text.isEmpty &&
    !(a.file == (nextW r close).file && a.line + numLineBreaks a.text == (nextW r close).line) &&
    decide (resolve cfg.fs a.text = .files [(n, c)]) && !c.isEmpty && decide (dirToks run = fileToks n c) &&
    dirsOK run (nextW r close) && itemsOK cfg r close

theorem writtenToks_cons (x : WItem) (r : List WItem) : writtenToks (x :: r) = x.written ++ writtenToks r := by
  simp [writtenToks]

theorem inlineDirs_cons (x : WItem) (r : List WItem) : inlineDirs (x :: r) = x.inline ++ inlineDirs r := by
  simp [inlineDirs]

/-- what follows an item is `nextW` -/
theorem nextW_head (r : List WItem) (close : Token) (post : List Token) :
    ∃ tl, writtenToks r ++ close :: post = nextW r close :: tl := by
  unfold nextW
  cases h : writtenToks r with
  | nil => exact ⟨post, by simp⟩
  | cons x xs => exact ⟨xs ++ close :: post, by simp⟩

theorem nextW_ne_lbrace (cfg : Cfg) (r : List WItem) (close : Token) (hclose : close.text = rbrace)
    (hok : itemsOK cfg r close = true) : (nextW r close).text ≠ lbrace := by
  cases r with
  | nil => simp only [nextW, writtenToks, List.flatMap_nil, List.nil_append, List.head?_cons, Option.getD_some]; rw [hclose]; decide
  | cons x r' =>
    cases x with
    | dir d =>
      simp only [itemsOK, dirsOK, Bool.and_eq_true, bne_iff_ne, ne_eq] at hok
      simp only [nextW, writtenToks_cons, WItem.written, WDir.toks, List.cons_append, List.head?_cons, Option.getD_some]
      exact hok.1.1.1.1.1.2
    | imp i a n c run =>
      simp only [itemsOK, Bool.and_eq_true, beq_iff_eq] at hok
      simp only [nextW, writtenToks_cons, WItem.written, List.cons_append, List.head?_cons, Option.getD_some]
      rw [hok.1.1.1.1.1.1.1.1.1]; decide

/-- every source on the import stack ends at or after the cursor's distance from the end of the token list -/
def FrB (s : PState) : Prop :=
  ∀ f ∈ s.frames, ∀ e ∈ f, (s.d.tokens.length : Int) - s.d.cursor - 1 ≤ (e.after : Int)

theorem dropFinished_nil_of {a : Nat} {f : List Active} (h : ∀ e ∈ f, a < e.after) : dropFinished a f = [] := by
  induction f with
  | nil => rfl
  | cons x xs ih =>
    unfold dropFinished
    rw [if_pos (h x List.mem_cons_self)]
    exact ih fun e he => h e (List.mem_cons_of_mem _ he)

theorem popFrames_nil_of {a : Nat} {fr : List (List Active)} (h : ∀ f ∈ fr, ∀ e ∈ f, a < e.after) : popFrames a fr = [] := by
  induction fr with
  | nil => rfl
  | cons f rest ih =>
    rw [popFrames_cons_nil (dropFinished_nil_of (h f List.mem_cons_self))]
    exact ih fun g hg => h g (List.mem_cons_of_mem _ hg)

theorem take_add_of_drop {ts a b : List Token} {q : Nat} (h : ts.drop q = a ++ b) : ts.take (q + a.length) = ts.take q ++ a := by
  by_cases hle : q ≤ ts.length
  · have h1 : ts = ts.take q ++ (a ++ b) := by rw [← h, List.take_append_drop]
    have hq : (ts.take q).length = q := by simp only [List.length_take]; omega
    conv => lhs; rw [h1]
    rw [← List.append_assoc, List.take_append_of_le_length (by simp only [List.length_append, hq]; omega)]
    rw [List.take_of_length_le (by simp only [List.length_append, hq]; omega)]
  · have hd : ts.drop q = [] := List.drop_of_length_le (by omega)
    rw [hd] at h
    have ha : a = [] := by cases a with | nil => rfl | cons _ _ => simp at h
    subst ha
    simp

theorem frb_mono {s s' : PState} (h : FrB s) (hf : s'.frames = s.frames) (ht : s'.d.tokens.length = s.d.tokens.length)
    (hc : s.d.cursor ≤ s'.d.cursor) : FrB s' := by
  intro f hfm e he
  rw [hf] at hfm
  have := h f hfm e he
  rw [ht]; omega

/-- `directives()` over the items of a block: afterwards the token list holds the directives of the inline text, every
token of them is recorded, and the loop goes on from the last of them -/
theorem directives_items (cfg : Cfg) (hf : 0 < cfg.envFuel) (hv : cfg.valid = none) (hcc : cfg.cycleCheck = true)
    (close : Token) (hclose : close.text = rbrace) (post : List Token) (items : List WItem) :
    ∀ (ts : List Token) (p : Nat) (s : PState) (fuel : Nat), At ts p s → s.snippets = [] → FrB s →
      ts.drop (p + 1) = writtenToks items ++ close :: post → itemsOK cfg items close = true →
      ts.length + impLen items ≤ fuel →
      ∃ S' : PState, directives cfg (fuel + cost items) s = directives cfg fuel S' ∧
        At (ts.take (p + 1) ++ dirToks (inlineDirs items) ++ close :: post) (p + (dirToks (inlineDirs items)).length) S' ∧
        S'.btoks = foldDirs s.btoks (inlineDirs items) ∧ S'.keys = s.keys ∧ S'.eof = s.eof ∧ S'.snippets = [] ∧ FrB S' := by
  induction items with
  | nil =>
    intro ts p s fuel hat hsn hfb hseg _ _
    refine ⟨s, rfl, ?_, rfl, rfl, rfl, hsn, hfb⟩
    simp only [writtenToks, List.flatMap_nil, List.nil_append] at hseg
    simp only [inlineDirs, List.flatMap_nil, dirToks, List.length_nil, Nat.add_zero, List.append_nil]
    rw [← hseg, List.take_append_drop]; exact hat
  | cons x r ih =>
    cases x with
    | dir d =>
      intro ts p s fuel hat hsn hfb hseg hok hfuel
      simp only [itemsOK, Bool.and_eq_true] at hok
      obtain ⟨hd, hr⟩ := hok
      obtain ⟨tl, htl⟩ := nextW_head r close post
      have hnx := nextW_ne_lbrace cfg r close hclose hr
      simp only [impLen] at hfuel
      have hseg1 : ts.drop (p + 1) = dirToks [d] ++ nextW r close :: tl := by
        rw [hseg, writtenToks_cons, List.append_assoc, htl]; simp [WItem.written, dirToks]
      have hstep := directives_prefix cfg hf hv ts (nextW r close) hnx tl [d] p s (fuel + cost r) hat hseg1 hd (by omega)
      obtain ⟨S1, hS1⟩ : ∃ S1 : PState, S1 = { moveTo s (p + (dirToks [d]).length) with btoks := foldDirs s.btoks [d] } := ⟨_, rfl⟩
      rw [← hS1] at hstep
      have hat1 : At ts (p + (dirToks [d]).length) S1 := by rw [hS1]; exact ⟨hat.1, rfl⟩
      have hseg2 : ts.drop (p + (dirToks [d]).length + 1) = writtenToks r ++ close :: post := by
        have := drop_drop' hseg1
        have e : p + 1 + (dirToks [d]).length = p + (dirToks [d]).length + 1 := by omega
        rw [e] at this; rw [htl]; exact this
      have hfb1 : FrB S1 := by
        refine frb_mono hfb (by rw [hS1]; rfl) (by rw [hS1]; rfl) ?_
        rw [hS1, hat.2]; simp only [moveTo, setCursor_cursor]; omega
      obtain ⟨S', h1, h2, h3, h4, h5, h6, h7⟩ := ih ts (p + (dirToks [d]).length) S1 fuel hat1 (by rw [hS1]; exact hsn) hfb1 hseg2 hr hfuel
      have htake : ts.take (p + (dirToks [d]).length + 1) = ts.take (p + 1) ++ dirToks [d] := by
        have := take_add_of_drop hseg1
        rw [show p + (dirToks [d]).length + 1 = p + 1 + (dirToks [d]).length by omega]; exact this
      refine ⟨S', ?_, ⟨h2.1.trans ?_, h2.2.trans ?_⟩, ?_, ?_, ?_, h6, h7⟩
      · rw [show fuel + cost (WItem.dir d :: r) = fuel + cost r + [d].length by simp only [cost, List.length_cons, List.length_nil]; omega]
        rw [hstep]; exact h1
      · rw [htake]; simp only [inlineDirs_cons, WItem.inline, dirToks_append, List.append_assoc]
      · simp only [inlineDirs_cons, WItem.inline, dirToks_append, List.length_append]; omega
      · rw [h3, hS1]; simp only [inlineDirs_cons, WItem.inline, foldDirs_append]
      · rw [h4, hS1]; rfl
      · rw [h5, hS1]; rfl
    | imp i a n c run =>
      intro ts p s fuel hat hsn hfb hseg hok hfuel
      simp only [itemsOK, Bool.and_eq_true, decide_eq_true_eq] at hok
      obtain ⟨⟨⟨⟨⟨⟨⟨⟨⟨hit, hline⟩, hnr⟩, hne⟩, hendb⟩, hres⟩, hcont⟩, hrun⟩, hdrun⟩, hr⟩ := hok
      have hit' : i.text = sImport := by simpa using hit
      have hline' : (i.file == a.file && i.line + numLineBreaks i.text == a.line) = true := by
        simp only [Bool.and_eq_true]; exact hline
      have hne' : a.text.isEmpty = false := by simpa using hne
      have hcont' : c.isEmpty = false := by simpa using hcont
      obtain ⟨tl, htl⟩ := nextW_head r close post
      have hnx := nextW_ne_lbrace cfg r close hclose hr
      simp only [impLen] at hfuel
      have hseg1 : ts.drop (p + 1) = i :: a :: (writtenToks r ++ close :: post) := by
        rw [hseg, writtenToks_cons]; rfl
      have hi : ts[p + 1]? = some i := by have := getElem?_of_drop hseg1 0; simpa using this
      have hlen : p + 1 + (2 + (writtenToks r ++ close :: post).length) = ts.length := by
        have := length_of_drop hseg1 (by simp)
        simp only [List.length_cons] at this; omega
      obtain ⟨A, hA⟩ : ∃ A, A = (writtenToks r ++ close :: post).length := ⟨_, rfl⟩
      rw [← hA] at hlen
      obtain ⟨S1, hS1⟩ : ∃ S1 : PState, S1 = { s with d := s.d.setCursor ((p + 1 : Nat) : Int) } := ⟨_, rfl⟩
      have hS1at : At ts (p + 1) S1 := by rw [hS1]; exact ⟨hat.1, rfl⟩
      have hend : ∀ b, (writtenToks r ++ close :: post).head? = some b →
          (a.file == b.file && a.line + numLineBreaks a.text == b.line) = false := by
        intro b hb
        rw [htl] at hb
        simp only [List.head?_cons, Option.some.injEq] at hb
        subst hb
        simpa only [Bool.not_eq_true'] using hendb
      have hpop : popFrames (writtenToks r ++ close :: post).length S1.frames = [] := by
        apply popFrames_nil_of
        intro f hfm e he
        have := hfb f (by rw [hS1] at hfm; exact hfm) e he
        rw [hat.1, hat.2] at this
        omega
      have hdo := doImport_file cfg hf hcc ts (p + 1) S1 i a _ n c hS1at hseg1 hline' hnr hne' hend
        (by rw [hS1]; exact hsn) hpop hres hcont'
      have hval : (s.d.setCursor ((p + 1 : Nat) : Int)).val = sImport := by
        have := at_val hS1at hi
        rw [hS1] at this
        rw [← hit']; exact this
      rw [hS1] at hdo
      have hstep := directives_import_step cfg (fuel + cost r + run.length) s _ _ (next_some hat hi) hval hdo
      -- on the spliced token list
      obtain ⟨ts1, hts1⟩ : ∃ ts1, ts1 = ts.take (p + 1) ++ fileToks n c ++ (writtenToks r ++ close :: post) := ⟨_, rfl⟩
      obtain ⟨S2, hS2⟩ : ∃ S2 : PState, S2 = back { ({ s with d := s.d.setCursor ((p + 1 : Nat) : Int) } : PState) with
          d := { (s.d.setCursor ((p + 1 : Nat) : Int)) with tokens := ts.take (p + 1) ++ fileToks n c ++ (writtenToks r ++ close :: post), cursor := ((p + 1 : Nat) : Int) },
          frames := [[⟨ImpName.file n, (writtenToks r ++ close :: post).length⟩]] } := ⟨_, rfl⟩
      rw [← hS2] at hstep
      have hS2at : At ts1 p S2 := by
        rw [hS2, hts1]
        refine ⟨rfl, ?_⟩
        simp only [back, setCursor_cursor]
        omega
      have hS2fr : S2.frames = [[⟨ImpName.file n, A⟩]] := by rw [hS2, hA]; rfl
      have hS2bt : S2.btoks = s.btoks := by rw [hS2]; rfl
      have hS2k : S2.keys = s.keys := by rw [hS2]; rfl
      have hS2e : S2.eof = s.eof := by rw [hS2]; rfl
      have hS2sn : S2.snippets = [] := by rw [hS2]; exact hsn
      clear hS2 hdo
      have htk : (ts.take (p + 1)).length = p + 1 := by simp only [List.length_take]; omega
      have hlen1 : ts1.length = p + 1 + (dirToks run).length + A := by
        rw [hts1, hA]; simp only [List.length_append, htk, hrun]
      have hdrop1 : ts1.drop (p + 1) = dirToks run ++ nextW r close :: tl := by
        rw [hts1, List.append_assoc, List.drop_append, htk, List.drop_of_length_le (by omega), Nat.sub_self, List.drop_zero,
          List.nil_append, hrun, htl]
      have hstep2 := directives_prefix cfg hf hv ts1 (nextW r close) hnx tl run p S2 (fuel + cost r) hS2at hdrop1 hdrun (by omega)
      obtain ⟨S3, hS3⟩ : ∃ S3 : PState, S3 = { moveTo S2 (p + (dirToks run).length) with btoks := foldDirs S2.btoks run } := ⟨_, rfl⟩
      rw [← hS3] at hstep2
      have hat3 : At ts1 (p + (dirToks run).length) S3 := by rw [hS3]; exact ⟨hS2at.1, rfl⟩
      have hseg3 : ts1.drop (p + (dirToks run).length + 1) = writtenToks r ++ close :: post := by
        have := drop_drop' hdrop1
        have e : p + 1 + (dirToks run).length = p + (dirToks run).length + 1 := by omega
        rw [e] at this; rw [htl]; exact this
      have hfb3 : FrB S3 := by
        intro f hfm e he
        have hfr3 : S3.frames = [[⟨ImpName.file n, A⟩]] := by rw [hS3]; exact hS2fr
        rw [hfr3] at hfm
        simp only [List.mem_singleton] at hfm
        subst hfm
        simp only [List.mem_singleton] at he
        subst he
        rw [hat3.1, hat3.2, hlen1]
        simp only; omega
      obtain ⟨S', h1, h2, h3, h4, h5, h6, h7⟩ := ih ts1 (p + (dirToks run).length) S3 fuel hat3 (by rw [hS3]; exact hS2sn) hfb3 hseg3 hr (by omega)
      have htake : ts1.take (p + (dirToks run).length + 1) = ts.take (p + 1) ++ dirToks run := by
        have := take_add_of_drop hdrop1
        rw [show p + (dirToks run).length + 1 = p + 1 + (dirToks run).length by omega, this]
        congr 1
        rw [hts1, List.append_assoc, List.take_append_of_le_length (by omega), List.take_of_length_le (by omega)]
      refine ⟨S', ?_, ⟨h2.1.trans ?_, h2.2.trans ?_⟩, ?_, ?_, ?_, h6, h7⟩
      · rw [show fuel + cost (WItem.imp i a n c run :: r) = (fuel + cost r + run.length) + 1 by simp only [cost]; omega]
        rw [hstep, hstep2]; exact h1
      · rw [htake]; simp only [inlineDirs_cons, WItem.inline, dirToks_append, List.append_assoc]
      · simp only [inlineDirs_cons, WItem.inline, dirToks_append, List.length_append]; omega
      · rw [h3, hS3, hS2bt]; simp only [inlineDirs_cons, WItem.inline, foldDirs_append]
      · rw [h4, hS3]; exact hS2k
      · rw [h5, hS3]; exact hS2e

/-- a server block whose directives are written as items (directives and import lines) -/
structure WBlockM where
  keys : List Token
  open_ : Token
  items : List WItem
  close : Token

def WBlockM.toks (b : WBlockM) : List Token := b.keys ++ b.open_ :: (writtenToks b.items ++ [b.close])

/-- the same block with every imported run written inline -/
def WBlockM.inline (b : WBlockM) : WBlock := ⟨b.keys, b.open_, inlineDirs b.items, b.close⟩

def blockMOK (cfg : Cfg) (b : WBlockM) : Bool :=
  keysOK b.keys && (isSnippet (b.keys.map keyOf)).isNone &&
  b.open_.text == lbrace && b.close.text == rbrace && itemsOK cfg b.items b.close

def flattenM (bs : List WBlockM) : List Token := bs.flatMap WBlockM.toks

def impLenB : List WBlockM → Nat
  | [] => 0
  | b :: bs => impLen b.items + impLenB bs

def costB : List WBlockM → Nat
  | [] => 0
  | b :: bs => cost b.items + costB bs

theorem inline_len (items : List WItem) : (dirToks (inlineDirs items)).length ≤ (writtenToks items).length + impLen items := by
  induction items with
  | nil => simp [inlineDirs, writtenToks, dirToks, impLen]
  | cons x r ih =>
    cases x with
    | dir d =>
      simp only [inlineDirs_cons, writtenToks_cons, WItem.inline, WItem.written, dirToks_append, List.length_append, impLen]
      have : (dirToks [d]).length = d.toks.length := by simp [dirToks]
      omega
    | imp i a n c run =>
      simp only [inlineDirs_cons, writtenToks_cons, WItem.inline, WItem.written, dirToks_append, List.length_append, impLen,
        List.length_cons, List.length_nil]
      omega

/-- `begin()` on a block written with import lines -/
theorem begin_m (cfg : Cfg) (hf : 0 < cfg.envFuel) (hv : cfg.valid = none) (hcc : cfg.cycleCheck = true)
    (ts : List Token) (b : WBlockM) (post : List Token) (p : Nat) (s : PState) (fuel : Nat)
    (hat : At ts p s) (hkeys : s.keys = []) (hbt : s.btoks = []) (heof : s.eof = false) (hsn0 : s.snippets = []) (hfb : FrB s)
    (hseg : ts.drop p = b.toks ++ post) (hok : blockMOK cfg b = true)
    (hfuel : ts.length + impLen b.items + cost b.items + 2 ≤ fuel) :
    ∃ S' : PState, begin cfg fuel s = .ok S' ∧
      At (ts.take (p + b.keys.length + 1) ++ dirToks (inlineDirs b.items) ++ b.close :: post)
        (p + b.keys.length + 1 + (dirToks (inlineDirs b.items)).length) S' ∧
      S'.btoks = foldDirs [] (inlineDirs b.items) ∧ S'.keys = b.keys.map keyOf ∧ S'.eof = false ∧ S'.snippets = [] ∧ FrB S' := by
  simp only [blockMOK, Bool.and_eq_true, beq_iff_eq, Option.isNone_iff_eq_none] at hok
  obtain ⟨⟨⟨⟨hk, hsn⟩, hopen⟩, hclose⟩, hitems⟩ := hok
  obtain ⟨k, more, hkm⟩ := keysOK_ne hk
  have hseg1 : ts.drop p = (k :: more) ++ b.open_ :: ((writtenToks b.items ++ [b.close]) ++ post) := by
    rw [hseg, WBlockM.toks, hkm]; simp
  have hlen := length_of_drop hseg1 (by simp)
  simp only [List.length_append, List.length_cons, List.length_nil] at hlen
  have hne : ts.isEmpty = false := by
    cases hh : ts with
    | nil => rw [hh] at hlen; simp at hlen
    | cons _ _ => rfl
  -- addresses
  obtain ⟨s1, hs1⟩ : ∃ s1 : PState, s1 = { moveTo s (p + (k :: more).length) with keys := s.keys ++ (k :: more).map keyOf } := ⟨_, rfl⟩
  have haddr : addresses cfg fuel s false = .ok s1 := by
    rw [hs1]
    exact addresses_rt cfg hf ts b.open_ hopen _ more k p s fuel false hat hseg1 (hkm ▸ hk) (by simp only [List.length_cons]; omega)
  have hs1at : At ts (p + b.keys.length) s1 := by rw [hs1, hkm]; exact ⟨hat.1, rfl⟩
  have hs1e : s1.eof = false := by rw [hs1]; exact heof
  have hs1k : s1.keys = b.keys.map keyOf := by rw [hs1, hkeys, hkm]; rfl
  have hs1b : s1.btoks = [] := by rw [hs1]; exact hbt
  have hs1s : s1.snippets = [] := by rw [hs1]; exact hsn0
  have hs1f : FrB s1 := by
    refine frb_mono hfb (by rw [hs1]; rfl) (by rw [hs1]; rfl) ?_
    rw [hs1, hat.2]; simp only [moveTo, setCursor_cursor]; omega
  clear hs1
  have hsegq : ts.drop (p + b.keys.length) = b.open_ :: ((writtenToks b.items ++ [b.close]) ++ post) := by
    have := drop_drop' hseg1
    rw [hkm]; exact this
  have ho : ts[p + b.keys.length]? = some b.open_ := by have := getElem?_of_drop hsegq 0; simpa using this
  have hsegd : ts.drop (p + b.keys.length + 1) = writtenToks b.items ++ b.close :: post := by
    have := drop_drop' (a := [b.open_]) (by simpa using hsegq)
    simpa using this
  -- the directives
  obtain ⟨f0, hf0⟩ : ∃ f0, fuel = f0 + cost b.items := ⟨fuel - cost b.items, by omega⟩
  obtain ⟨S2, h1, h2, h3, h4, h5, h6, h7⟩ := directives_items cfg hf hv hcc b.close hclose post b.items ts (p + b.keys.length) s1 f0
    hs1at hs1s hs1f hsegd hitems (by omega)
  obtain ⟨ts', hts'⟩ : ∃ ts', ts' = ts.take (p + b.keys.length + 1) ++ dirToks (inlineDirs b.items) ++ b.close :: post := ⟨_, rfl⟩
  rw [← hts'] at h2 ⊢
  have hmk : b.keys.length = more.length + 1 := by rw [hkm]; rfl
  have htk : (ts.take (p + b.keys.length + 1)).length = p + b.keys.length + 1 := by
    simp only [List.length_take]; omega
  have hlen' : ts'.length = p + b.keys.length + 1 + (dirToks (inlineDirs b.items)).length + 1 + post.length := by
    rw [hts']; simp only [List.length_append, htk, List.length_cons]; omega
  have hdrop' : ts'.drop (p + b.keys.length + (dirToks (inlineDirs b.items)).length + 1) = dirToks [] ++ b.close :: post := by
    rw [hts', show p + b.keys.length + (dirToks (inlineDirs b.items)).length + 1 =
      (ts.take (p + b.keys.length + 1) ++ dirToks (inlineDirs b.items)).length by simp only [List.length_append, htk]; omega]
    rw [List.drop_left]; rfl
  have hrt := directives_rt cfg hf hv ts' b.close hclose post [] (p + b.keys.length + (dirToks (inlineDirs b.items)).length) S2 f0
    h2 hdrop' rfl (by rw [hlen']; omega) (by omega)
  obtain ⟨S3, hS3⟩ : ∃ S3 : PState, S3 = { moveTo S2 (p + b.keys.length + (dirToks (inlineDirs b.items)).length + 1 + (dirToks ([] : List WDir)).length) with
      btoks := foldDirs S2.btoks [] } := ⟨_, rfl⟩
  rw [← hS3] at hrt
  have hS3at : At ts' (p + b.keys.length + 1 + (dirToks (inlineDirs b.items)).length) S3 := by
    rw [hS3]
    refine ⟨h2.1, ?_⟩
    simp only [moveTo, setCursor_cursor, dirToks, List.flatMap_nil, List.length_nil]
    omega
  have hc : ts'[p + b.keys.length + 1 + (dirToks (inlineDirs b.items)).length]? = some b.close := by
    have := getElem?_of_drop hdrop' 0
    have e0 : dirToks ([] : List WDir) = [] := rfl
    rw [e0] at this
    simp only [Nat.add_zero, List.nil_append, List.getElem?_cons_zero] at this
    rw [← this]; congr 1; omega
  have hcl : S3.d.val = b.close.text := at_val hS3at hc
  refine ⟨S3, ?_, hS3at, ?_, ?_, ?_, ?_, ?_⟩
  · unfold begin
    rw [hat.1, hne]
    simp only [Bool.false_eq_true, if_false, haddr, Res.bind, hs1e, hs1k, hsn]
    unfold blockContents
    rw [at_val hs1at ho, hopen]
    simp only [bne_self_eq_false, Bool.false_eq_true, if_false, Bool.not_false, Bool.true_and]
    rw [hf0, h1, hrt]
    simp only [Res.bind, hcl, hclose, bne_self_eq_false, Bool.false_eq_true, if_false]
  · rw [hS3]; show foldDirs S2.btoks [] = _; rw [h3, hs1b]; rfl
  · rw [hS3]; show S2.keys = _; rw [h4, hs1k]
  · rw [hS3]; show S2.eof = _; rw [h5, hs1e]
  · rw [hS3]; exact h6
  · refine frb_mono h7 (by rw [hS3]; rfl) (by rw [hS3]; rfl) ?_
    rw [hS3, h2.2]; simp only [moveTo, setCursor_cursor]; omega

theorem toksM_length (b : WBlockM) : b.toks.length = b.keys.length + 1 + (writtenToks b.items).length + 1 := by
  simp [WBlockM.toks]; omega

/-- `parseAll()` on blocks written with import lines -/
theorem parseAll_m (cfg : Cfg) (hf : 0 < cfg.envFuel) (hv : cfg.valid = none) (hcc : cfg.cycleCheck = true) (bs : List WBlockM) :
    ∀ (ts : List Token) (p : Nat) (s : PState) (acc : List ServerBlock) (fuel : Nat), s.d.tokens = ts → s.d.cursor = (p : Int) - 1 →
      s.eof = false → s.snippets = [] → FrB s → ts.drop p = flattenM bs → (∀ b ∈ bs, blockMOK cfg b = true) →
      ts.length + impLenB bs + costB bs + 2 * bs.length + 2 ≤ fuel → p ≤ ts.length →
      parseAll cfg fuel s acc = .ok (acc ++ bs.map fun b => expectedBlock b.inline) := by
  induction bs with
  | nil =>
    intro ts p s acc fuel h1 h2 _ _ _ hseg _ hfuel hple
    have hlen : ts.length ≤ p := by
      have := congrArg List.length hseg
      simp [flattenM] at this; omega
    obtain ⟨j, rfl⟩ : ∃ j, fuel = j + 1 := ⟨fuel - 1, by omega⟩
    unfold parseAll
    rw [next_pred_none h1 h2 (List.getElem?_eq_none_iff.mpr hlen)]
    simp
  | cons b bs' ih =>
    intro ts p s acc fuel h1 h2 heof hsn hfb hseg hall hfuel hple
    have hb := hall b List.mem_cons_self
    have hseg1 : ts.drop p = b.toks ++ flattenM bs' := by rw [hseg]; simp [flattenM]
    obtain ⟨k, more, hkm⟩ := keysOK_ne (by
      have := hb; simp only [blockMOK, Bool.and_eq_true] at this; exact this.1.1.1.1)
    have hk : ts[p]? = some k := by
      have := getElem?_of_drop hseg1 0
      simp only [Nat.add_zero] at this
      rw [this, WBlockM.toks, hkm]; simp
    have hlen := length_of_drop hseg1 (by simp [WBlockM.toks])
    simp only [List.length_append, toksM_length] at hlen
    simp only [impLenB, costB, List.length_cons] at hfuel
    obtain ⟨j, rfl⟩ : ∃ j, fuel = j + 1 := ⟨fuel - 1, by omega⟩
    unfold parseAll
    rw [next_pred h1 h2 hk]
    simp only [Bool.not_true, Bool.false_eq_true, if_false]
    have hat : At ts p { s with d := s.d.setCursor (p : Int), keys := [], btoks := [] } := ⟨h1, rfl⟩
    have hfb0 : FrB { s with d := s.d.setCursor (p : Int), keys := [], btoks := [] } :=
      frb_mono hfb rfl rfl (by rw [h2]; simp only [setCursor_cursor]; omega)
    obtain ⟨S', hS', g2, g3, g4, g5, g6, g7⟩ := begin_m cfg hf hv hcc ts b (flattenM bs') p _ (j + 1) hat rfl rfl heof hsn hfb0 hseg1 hb (by omega)
    rw [hS']
    simp only [Res.bind]
    have hkne : S'.keys.isEmpty = false := by rw [g4, hkm]; rfl
    simp only [hkne, Bool.false_eq_true, if_false]
    obtain ⟨ts', hts'⟩ : ∃ ts', ts' = ts.take (p + b.keys.length + 1) ++ dirToks (inlineDirs b.items) ++ b.close :: flattenM bs' := ⟨_, rfl⟩
    rw [← hts'] at g2
    have htk : (ts.take (p + b.keys.length + 1)).length = p + b.keys.length + 1 := by
      simp only [List.length_take]; omega
    have hlen' : ts'.length = p + b.keys.length + 1 + (dirToks (inlineDirs b.items)).length + 1 + (flattenM bs').length := by
      rw [hts']; simp only [List.length_append, htk, List.length_cons]; omega
    have hil := inline_len b.items
    have hdrop : ts'.drop (p + b.keys.length + 1 + (dirToks (inlineDirs b.items)).length + 1) = flattenM bs' := by
      rw [hts', show ts.take (p + b.keys.length + 1) ++ dirToks (inlineDirs b.items) ++ b.close :: flattenM bs' =
        (ts.take (p + b.keys.length + 1) ++ dirToks (inlineDirs b.items) ++ [b.close]) ++ flattenM bs' by simp]
      rw [show p + b.keys.length + 1 + (dirToks (inlineDirs b.items)).length + 1 =
        (ts.take (p + b.keys.length + 1) ++ dirToks (inlineDirs b.items) ++ [b.close]).length by
          simp only [List.length_append, htk, List.length_cons, List.length_nil]]
      rw [List.drop_left]
    refine (ih ts' (p + b.keys.length + 1 + (dirToks (inlineDirs b.items)).length + 1) S' _ j g2.1 ?_ g5 g6 g7 hdrop
      (fun x hx => hall x (List.mem_cons_of_mem _ hx)) ?_ ?_).trans ?_
    · rw [g2.2]; omega
    · rw [hlen']; omega
    · rw [hlen']; omega
    · rw [g3, g4]
      simp only [List.map_cons, List.append_assoc, List.singleton_append]
      rfl

theorem flattenM_cost (bs : List WBlockM) : costB bs + 2 * bs.length ≤ (flattenM bs).length + impLenB bs := by
  induction bs with
  | nil => simp [costB, flattenM, impLenB]
  | cons b r ih =>
    have hc : ∀ items : List WItem, cost items ≤ (writtenToks items).length + impLen items := by
      intro items
      induction items with
      | nil => simp [cost]
      | cons x r' ih' =>
        cases x with
        | dir d =>
          simp only [cost, writtenToks_cons, WItem.written, WDir.toks, List.length_append, List.length_cons, impLen]; omega
        | imp i a n c run =>
          have := dirs_length_le run
          simp only [cost, writtenToks_cons, WItem.written, List.length_append, List.length_cons, List.length_nil, impLen]; omega
    have := hc b.items
    have hfl : (flattenM (b :: r)).length = b.toks.length + (flattenM r).length := by simp [flattenM]
    rw [hfl, toksM_length]
    simp only [costB, impLenB, List.length_cons]
    omega

/-- `Parse` over a configuration written with any number of import lines returns the blocks of the inline text -/
theorem parseTokens_m (cfg : Cfg) (hf : 0 < cfg.envFuel) (hv : cfg.valid = none) (hcc : cfg.cycleCheck = true) (fn : String)
    (bs : List WBlockM) (hall : ∀ b ∈ bs, blockMOK cfg b = true) (fuel : Nat)
    (hfuel : 2 * ((flattenM bs).length + impLenB bs) + 2 ≤ fuel) :
    parseTokens cfg fuel fn (flattenM bs) = .ok (bs.map fun b => expectedBlock b.inline) := by
  unfold parseTokens
  have hc := flattenM_cost bs
  have := parseAll_m cfg hf hv hcc bs (flattenM bs) 0 { d := Disp.new fn (flattenM bs) } [] fuel rfl (by simp [Disp.new]) rfl rfl
    (fun f hfm => by cases hfm) (by simp) hall (by omega) (by omega)
  simpa using this

/-- the block with its directives written inline as `ds` -/
def WBlockM.inlineWith (b : WBlockM) (ds : List WDir) : WBlock := ⟨b.keys, b.open_, ds, b.close⟩

theorem textsOf_inlineWith (b : WBlockM) (ds : List WDir) (h : (inlineDirs b.items).map dirTexts = ds.map dirTexts) :
    textsOf (expectedBlock b.inline) = textsOf (expectedBlock (b.inlineWith ds)) := by
  unfold textsOf expectedBlock WBlockM.inline WBlockM.inlineWith
  simp only [Prod.mk.injEq, true_and]
  exact projT_foldDirs [] (inlineDirs b.items) ds h [] rfl

end Casket.ParserRT
