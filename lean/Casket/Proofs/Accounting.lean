import Casket.Spec.Accounting
/-
Helper lemmas for Props/C14.lean: the well-formedness invariant of the accounting model is
preserved by every atomic step.
-/
namespace Casket.Accounting

/-! ### list helpers -/

theorem getI_bump (l : List Int) (h : Nat) (d : Int) (k : Nat) :
    getI (bump l h d) k = if h = k ∧ k < l.length then getI l k + d else getI l k := by
  unfold getI bump
  rw [List.getD_eq_getElem?_getD, List.getD_eq_getElem?_getD, List.getElem?_modify]
  by_cases hk : k < l.length
  · rw [List.getElem?_eq_getElem hk]
    by_cases hh : h = k <;> simp [hh, hk]
  · have : l[k]? = none := List.getElem?_eq_none (by omega)
    simp [hk]

theorem getN_bumpN (l : List Nat) (h k : Nat) :
    getN (bumpN l h) k = if h = k ∧ k < l.length then getN l k + 1 else getN l k := by
  unfold getN bumpN
  rw [List.getD_eq_getElem?_getD, List.getD_eq_getElem?_getD, List.getElem?_modify]
  by_cases hk : k < l.length
  · rw [List.getElem?_eq_getElem hk]
    by_cases hh : h = k <;> simp [hh, hk]
  · have : l[k]? = none := List.getElem?_eq_none (by omega)
    simp [hk]

theorem getN_dropN (l : List Nat) (h k : Nat) :
    getN (dropN l h) k = if h = k ∧ k < l.length then getN l k - 1 else getN l k := by
  unfold getN dropN
  rw [List.getD_eq_getElem?_getD, List.getD_eq_getElem?_getD, List.getElem?_modify]
  by_cases hk : k < l.length
  · rw [List.getElem?_eq_getElem hk]
    by_cases hh : h = k <;> simp [hh, hk]
  · have : l[k]? = none := List.getElem?_eq_none (by omega)
    simp [hk]

theorem getN_pos_lt (l : List Nat) (h : Nat) (hp : getN l h > 0) : h < l.length := by
  unfold getN at hp
  rw [List.getD_eq_getElem?_getD] at hp
  by_cases hk : h < l.length
  · exact hk
  · have : l[h]? = none := List.getElem?_eq_none (by omega)
    simp [this] at hp

/-! ### counting the forwarding threads -/

theorem forwardingTo_eq_countP (s : State) (h : Nat) :
    forwardingTo s h = s.pcs.countP (· == .forwarding h) := by
  unfold forwardingTo; rw [List.countP_eq_length_filter]

theorem forwardingTo_setPC (s : State) (t : Nat) (old new : PC) (h : Nat) (hold : s.pcs[t]? = some old) :
    forwardingTo (setPC s t new) h + (if old == .forwarding h then 1 else 0) =
      forwardingTo s h + (if new == .forwarding h then 1 else 0) := by
  have hlt : t < s.pcs.length := by
    by_cases hk : t < s.pcs.length
    · exact hk
    · have : s.pcs[t]? = none := List.getElem?_eq_none (by omega)
      rw [this] at hold; cases hold
  have hget : s.pcs[t] = old := by
    rw [List.getElem?_eq_getElem hlt] at hold; exact Option.some.inj hold
  rw [forwardingTo_eq_countP, forwardingTo_eq_countP]
  show List.countP _ (s.pcs.set t new) + _ = _
  rw [List.countP_set hlt, hget]
  by_cases ho : (old == PC.forwarding h) = true
  · have hpos : 0 < s.pcs.countP (· == .forwarding h) := by
      rw [List.countP_pos_iff]
      exact ⟨old, by rw [← hget]; exact List.getElem_mem hlt, ho⟩
    simp only [ho, if_true]
    omega
  · simp only [ho, Bool.false_eq_true, if_false]
    omega

/-! ### the invariant -/

def pcHostOk (c : Cfg) : PC → Prop
  | .selected h => h < c.nHosts
  | .forwarding h => h < c.nHosts
  | .failed h => h < c.nHosts
  | _ => True

structure WF (c : Cfg) (s : State) : Prop where
  lenC : s.conns.length = c.nHosts
  lenF : s.fails.length = c.nHosts
  lenT : s.timers.length = c.nHosts
  hostsOk : ∀ (t : Nat) (pc : PC), s.pcs[t]? = some pc → pcHostOk c pc
  connsExact : ∀ h, getI s.conns h = (forwardingTo s h : Int)
  failsExact : ∀ h, getI s.fails h = (getN s.timers h : Int)
  cap : c.maxConns > 0 → ∀ h, getI s.conns h ≤ (c.maxConns : Int)

theorem getElem?_setPC (s : State) (t : Nat) (pc : PC) (t' : Nat) (p : PC)
    (h : (setPC s t pc).pcs[t']? = some p) : p = pc ∨ s.pcs[t']? = some p := by
  unfold setPC at h
  simp only [List.getElem?_set] at h
  by_cases ht : t = t'
  · simp only [ht, if_true] at h
    by_cases hl : t' < s.pcs.length
    · simp only [hl, if_true] at h
      left; exact (Option.some.inj h).symm
    · simp [hl] at h
  · simp only [ht, if_false] at h
    right; exact h

theorem wf_init (c : Cfg) (n : Nat) : WF c (State.init c n) := by
  refine ⟨by simp [State.init], by simp [State.init], by simp [State.init], ?_, ?_, ?_, ?_⟩
  · intro t pc h
    simp only [State.init] at h
    rw [List.getElem?_replicate] at h
    by_cases ht : t < n
    · simp only [ht, if_true] at h; cases h; trivial
    · simp [ht] at h
  · intro h
    have h1 : forwardingTo (State.init c n) h = 0 := by
      unfold forwardingTo State.init
      simp
    rw [h1]
    unfold getI State.init
    rw [List.getD_eq_getElem?_getD, List.getElem?_replicate]
    by_cases hh : h < c.nHosts <;> simp [hh]
  · intro h
    unfold getI getN State.init
    rw [List.getD_eq_getElem?_getD, List.getD_eq_getElem?_getD, List.getElem?_replicate, List.getElem?_replicate]
    by_cases hh : h < c.nHosts <;> simp [hh]
  · intro _ h
    unfold getI State.init
    rw [List.getD_eq_getElem?_getD, List.getElem?_replicate]
    by_cases hh : h < c.nHosts <;> simp [hh]

theorem hostsOk_setPC (c : Cfg) (s : State) (t : Nat) (pc : PC) (hw : ∀ (t : Nat) (p : PC), s.pcs[t]? = some p → pcHostOk c p)
    (hpc : pcHostOk c pc) : ∀ (t' : Nat) (p : PC), (setPC s t pc).pcs[t']? = some p → pcHostOk c p := by
  intro t' p h
  rcases getElem?_setPC s t pc t' p h with rfl | h
  · exact hpc
  · exact hw t' p h

/-- a thread that is not forwarding before and after its step leaves every count unchanged -/
theorem forwardingTo_setPC_same (s : State) (t : Nat) (old new : PC) (h : Nat) (hold : s.pcs[t]? = some old)
    (ho : ∀ h, (old == PC.forwarding h) = false) (hn : ∀ h, (new == PC.forwarding h) = false) :
    forwardingTo (setPC s t new) h = forwardingTo s h := by
  have := forwardingTo_setPC s t old new h hold
  simp only [ho h, hn h, Bool.false_eq_true, if_false] at this
  omega

theorem avail_lt {c : Cfg} {s : State} {h : Nat} (ha : avail c s h = true) : h < c.nHosts := by
  simp only [avail, Bool.and_eq_true, decide_eq_true_eq] at ha
  exact ha.1.1

/-- every atomic action keeps the invariant -/
theorem wf_step (c : Cfg) (s s' : State) (e : Event) (hw : WF c s) (hs : step c s e = some s') : WF c s' := by
  cases e with
  | select t choice again =>
    simp only [step] at hs
    cases hpc : s.pcs[t]? with
    | none => simp [hpc] at hs
    | some pc =>
      cases pc with
      | idle =>
        simp only [hpc] at hs
        have key : ∀ new : PC, (∀ h, (new == PC.forwarding h) = false) → pcHostOk c new → WF c (setPC s t new) := by
          intro new hn hok
          refine ⟨hw.lenC, hw.lenF, hw.lenT, hostsOk_setPC c s t new hw.hostsOk hok, ?_, hw.failsExact, hw.cap⟩
          intro h
          rw [forwardingTo_setPC_same s t .idle new h hpc (by intro h; rfl) hn]
          exact hw.connsExact h
        cases choice with
        | none =>
          simp only [Option.some.injEq] at hs
          subst hs
          cases again
          · exact key .done (by intro h; rfl) trivial
          · exact key .idle (by intro h; rfl) trivial
        | some h =>
          by_cases ha : avail c s h = true
          · simp only [ha, if_true, Option.some.injEq] at hs
            subst hs
            exact key (.selected h) (by intro h'; rfl) (avail_lt ha)
          · simp [ha] at hs
      | selected _ => simp [hpc] at hs
      | forwarding _ => simp [hpc] at hs
      | failed _ => simp [hpc] at hs
      | done => simp [hpc] at hs
  | reserve t =>
    simp only [step] at hs
    cases hpc : s.pcs[t]? with
    | none => simp [hpc] at hs
    | some pc =>
      cases pc with
      | selected h =>
        simp only [hpc] at hs
        have hlt : h < c.nHosts := hw.hostsOk t _ hpc
        by_cases hf : full c s h = true
        · simp only [hf, if_true, Option.some.injEq] at hs
          subst hs
          refine ⟨hw.lenC, hw.lenF, hw.lenT, hostsOk_setPC c s t .idle hw.hostsOk trivial, ?_, hw.failsExact, hw.cap⟩
          intro h'
          rw [forwardingTo_setPC_same s t (.selected h) .idle h' hpc (by intro h; rfl) (by intro h; rfl)]
          exact hw.connsExact h'
        · simp only [hf, Bool.false_eq_true, if_false, Option.some.injEq] at hs
          subst hs
          have hcount : ∀ h', forwardingTo (setPC { s with conns := bump s.conns h 1 } t (.forwarding h)) h' =
              forwardingTo s h' + (if h = h' then 1 else 0) := by
            intro h'
            have := forwardingTo_setPC { s with conns := bump s.conns h 1 } t (.selected h) (.forwarding h) h' hpc
            have e1 : (PC.selected h == PC.forwarding h') = false := rfl
            simp only [e1, Bool.false_eq_true, if_false, Nat.add_zero] at this
            rw [this]
            show forwardingTo s h' + _ = _
            by_cases hh : h = h'
            · subst hh; simp
            · have : (PC.forwarding h == PC.forwarding h') = false := by simp [hh]
              simp [this, hh]
          refine ⟨by simp [setPC, bump, hw.lenC], hw.lenF, hw.lenT, ?_, ?_, hw.failsExact, ?_⟩
          · exact hostsOk_setPC c _ t _ hw.hostsOk hlt
          · intro h'
            rw [hcount]
            show getI (bump s.conns h 1) h' = _
            rw [getI_bump, hw.lenC]
            by_cases hh : h = h'
            · subst hh; simp [hlt, hw.connsExact h]
            · simp [hh, hw.connsExact h']
          · intro hm h'
            show getI (bump s.conns h 1) h' ≤ _
            rw [getI_bump, hw.lenC]
            by_cases hh : h = h'
            · subst hh
              simp only [hlt, and_self, if_true]
              simp only [full, hm, decide_true, Bool.true_and, decide_eq_true_eq] at hf
              omega
            · simp only [hh, false_and, if_false]; exact hw.cap hm h'
      | idle => simp [hpc] at hs
      | forwarding _ => simp [hpc] at hs
      | failed _ => simp [hpc] at hs
      | done => simp [hpc] at hs
  | finish t o =>
    simp only [step] at hs
    cases hpc : s.pcs[t]? with
    | none => simp [hpc] at hs
    | some pc =>
      cases pc with
      | forwarding h =>
        simp only [hpc] at hs
        have hlt : h < c.nHosts := hw.hostsOk t _ hpc
        have key : ∀ new : PC, (∀ h, (new == PC.forwarding h) = false) → pcHostOk c new →
            WF c (setPC { s with conns := bump s.conns h (-1) } t new) := by
          intro new hn hok
          have hcount : ∀ h', forwardingTo (setPC { s with conns := bump s.conns h (-1) } t new) h' + (if h = h' then 1 else 0) =
              forwardingTo s h' := by
            intro h'
            have := forwardingTo_setPC { s with conns := bump s.conns h (-1) } t (.forwarding h) new h' hpc
            simp only [hn h', Bool.false_eq_true, if_false, Nat.add_zero] at this
            rw [← show forwardingTo { s with conns := bump s.conns h (-1) } h' = forwardingTo s h' from rfl, ← this]
            by_cases hh : h = h'
            · subst hh; simp
            · have : (PC.forwarding h == PC.forwarding h') = false := by simp [hh]
              simp [this, hh]
          refine ⟨by simp [setPC, bump, hw.lenC], hw.lenF, hw.lenT, ?_, ?_, hw.failsExact, ?_⟩
          · exact hostsOk_setPC c _ t _ hw.hostsOk hok
          · intro h'
            show getI (bump s.conns h (-1)) h' = _
            rw [getI_bump, hw.lenC]
            have := hcount h'
            by_cases hh : h = h'
            · subst hh
              simp only [hlt, and_self, if_true, hw.connsExact h]
              simp only [if_true] at this
              omega
            · simp only [hh, false_and, if_false, hw.connsExact h']
              simp only [hh, if_false, Nat.add_zero] at this
              rw [this]
          · intro hm h'
            show getI (bump s.conns h (-1)) h' ≤ _
            rw [getI_bump, hw.lenC]
            have := hw.cap hm h'
            by_cases hh : h = h'
            · subst hh; simp only [hlt, and_self, if_true]; omega
            · simp only [hh, false_and, if_false]; exact this
        cases o with
        | err => simp only [Option.some.injEq] at hs; subst hs; exact key (.failed h) (by intro h; rfl) hlt
        | ok => simp only [Option.some.injEq] at hs; subst hs; exact key .done (by intro h; rfl) trivial
        | cancel => simp only [Option.some.injEq] at hs; subst hs; exact key .done (by intro h; rfl) trivial
        | tooLarge => simp only [Option.some.injEq] at hs; subst hs; exact key .done (by intro h; rfl) trivial
        | panic => simp only [Option.some.injEq] at hs; subst hs; exact key .done (by intro h; rfl) trivial
      | idle => simp [hpc] at hs
      | selected _ => simp [hpc] at hs
      | failed _ => simp [hpc] at hs
      | done => simp [hpc] at hs
  | countFail t again =>
    simp only [step] at hs
    cases hpc : s.pcs[t]? with
    | none => simp [hpc] at hs
    | some pc =>
      cases pc with
      | failed h =>
        simp only [hpc, Option.some.injEq] at hs
        subst hs
        have hnew : ∀ h', ((if again then PC.idle else PC.done) == PC.forwarding h') = false := by
          intro h'; cases again <;> rfl
        have hok : pcHostOk c (if again then PC.idle else PC.done) := by cases again <;> trivial
        by_cases hcf : c.countFails = true
        · simp only [hcf, if_true]
          refine ⟨hw.lenC, by simp [setPC, bump, hw.lenF], by simp [setPC, bumpN, hw.lenT], ?_, ?_, ?_, hw.cap⟩
          · exact hostsOk_setPC c _ t _ hw.hostsOk hok
          · intro h'
            rw [forwardingTo_setPC_same { s with fails := bump s.fails h 1, timers := bumpN s.timers h } t (.failed h) _ h' hpc (by intro h; rfl) hnew]
            exact hw.connsExact h'
          · intro h'
            show getI (bump s.fails h 1) h' = (getN (bumpN s.timers h) h' : Int)
            rw [getI_bump, getN_bumpN, hw.lenF, hw.lenT]
            by_cases hh : h = h' ∧ h' < c.nHosts
            · simp only [hh, and_self, if_true, hw.failsExact h']; omega
            · simp only [hh, if_false]; exact hw.failsExact h'
        · simp only [hcf, Bool.false_eq_true, if_false]
          refine ⟨hw.lenC, hw.lenF, hw.lenT, hostsOk_setPC c _ t _ hw.hostsOk hok, ?_, hw.failsExact, hw.cap⟩
          intro h'
          rw [forwardingTo_setPC_same _ t (.failed h) _ h' hpc (by intro h; rfl) hnew]
          exact hw.connsExact h'
      | idle => simp [hpc] at hs
      | selected _ => simp [hpc] at hs
      | forwarding _ => simp [hpc] at hs
      | done => simp [hpc] at hs
  | timer h =>
    simp only [step] at hs
    by_cases hp : getN s.timers h > 0
    · simp only [hp, if_true, Option.some.injEq] at hs
      subst hs
      have hlt : h < c.nHosts := by rw [← hw.lenT]; exact getN_pos_lt _ _ hp
      refine ⟨hw.lenC, by simp [bump, hw.lenF], by simp [dropN, hw.lenT], hw.hostsOk, hw.connsExact, ?_, hw.cap⟩
      intro h'
      show getI (bump s.fails h (-1)) h' = (getN (dropN s.timers h) h' : Int)
      rw [getI_bump, getN_dropN, hw.lenF, hw.lenT]
      by_cases hh : h = h' ∧ h' < c.nHosts
      · obtain ⟨rfl, _⟩ := hh
        simp only [hlt, and_self, if_true, hw.failsExact h]
        omega
      · simp only [hh, if_false]; exact hw.failsExact h'
    · simp [hp] at hs
  | health flags =>
    simp only [step, Option.some.injEq] at hs
    subst hs
    exact ⟨hw.lenC, hw.lenF, hw.lenT, hw.hostsOk, hw.connsExact, hw.failsExact, hw.cap⟩

theorem wf_run (c : Cfg) : ∀ (es : List Event) (s s' : State), WF c s → run c s es = some s' → WF c s' := by
  intro es
  induction es with
  | nil => intro s s' hw h; simp only [run, Option.some.injEq] at h; subst h; exact hw
  | cons e es ih =>
    intro s s' hw h
    simp only [run] at h
    cases hs : step c s e with
    | none => simp [hs] at h
    | some s1 =>
      simp only [hs] at h
      exact ih s1 s' (wf_step c s s1 e hw hs) h

/-! ### the schedule replay satisfies the judged predicate -/

open Casket.AccountingSpec

def inflightList (c : Cfg) (s : State) : List Nat := (List.range c.nHosts).map (forwardingTo s)

theorem wf_stepD (c : Cfg) (s : State) (e : Event) (hw : WF c s) : WF c (stepD c s e) := by
  unfold stepD
  cases h : step c s e with
  | none => exact hw
  | some s' => exact wf_step c s s' e hw h

theorem conns_eq_inflight (c : Cfg) (s : State) (hw : WF c s) : s.conns = natsToInts (inflightList c s) := by
  apply List.ext_getElem?
  intro i
  unfold natsToInts inflightList
  rw [List.getElem?_map, List.getElem?_map]
  by_cases hi : i < c.nHosts
  · rw [List.getElem?_range hi]
    have h1 : i < s.conns.length := by rw [hw.lenC]; exact hi
    rw [List.getElem?_eq_getElem h1]
    have := hw.connsExact i
    unfold getI at this
    rw [List.getD_eq_getElem?_getD, List.getElem?_eq_getElem h1] at this
    simp only [Option.getD_some] at this
    simp [this]
  · have h1 : s.conns[i]? = none := List.getElem?_eq_none (by rw [hw.lenC]; omega)
    have h2 : (List.range c.nHosts)[i]? = none := List.getElem?_eq_none (by simp; omega)
    simp [h1, h2]

theorem fails_eq_timers (c : Cfg) (s : State) (hw : WF c s) : s.fails = natsToInts s.timers := by
  apply List.ext_getElem?
  intro i
  unfold natsToInts
  rw [List.getElem?_map]
  by_cases hi : i < c.nHosts
  · have h1 : i < s.fails.length := by rw [hw.lenF]; exact hi
    have h2 : i < s.timers.length := by rw [hw.lenT]; exact hi
    rw [List.getElem?_eq_getElem h1, List.getElem?_eq_getElem h2]
    have := hw.failsExact i
    unfold getI getN at this
    rw [List.getD_eq_getElem?_getD, List.getD_eq_getElem?_getD, List.getElem?_eq_getElem h1,
      List.getElem?_eq_getElem h2] at this
    simp only [Option.getD_some] at this
    simp [this]
  · have h1 : s.fails[i]? = none := List.getElem?_eq_none (by rw [hw.lenF]; omega)
    have h2 : s.timers[i]? = none := List.getElem?_eq_none (by rw [hw.lenT]; omega)
    simp [h1, h2]

theorem inflight_getD (c : Cfg) (s : State) (h : Nat) (hh : h < c.nHosts) :
    (inflightList c s).getD h 0 = forwardingTo s h := by
  unfold inflightList
  rw [List.getD_eq_getElem?_getD, List.getElem?_map, List.getElem?_range hh]
  rfl

theorem specAvail_eq (c : Cfg) (s : State) (hw : WF c s) (h : Nat) :
    specAvail c s.unhealthy s.timers (inflightList c s) h = avail c s h := by
  unfold specAvail avail down full
  by_cases hh : h < c.nHosts
  · rw [inflight_getD c s h hh]
    have h1 := hw.connsExact h
    have h2 := hw.failsExact h
    unfold getN at h2
    rw [h1, h2]
    have e1 : decide ((forwardingTo s h : Int) ≥ (c.maxConns : Int)) = decide (forwardingTo s h ≥ c.maxConns) := by simp
    have e2 : decide (((s.timers.getD h 0 : Nat) : Int) ≥ (c.maxFails : Int)) = decide (s.timers.getD h 0 ≥ c.maxFails) := by simp
    have e3 : ∀ a : Nat, decide (a < c.maxFails) = !decide (a ≥ c.maxFails) := by
      intro a
      by_cases hf : a < c.maxFails
      · have : ¬ (a ≥ c.maxFails) := by omega
        simp [hf, this]
      · have : a ≥ c.maxFails := by omega
        simp [hf, this]
    rw [e1, e2, e3 (s.timers.getD h 0)]
    cases s.unhealthy.getD h false <;> cases decide (s.timers.getD h 0 ≥ c.maxFails) <;> simp [hh]
  · simp [hh]

theorem modify_modify_cancel (l : List Nat) (h : Nat) : dropN (bumpN l h) h = l := by
  unfold dropN bumpN
  apply List.ext_getElem?
  intro i
  rw [List.getElem?_modify, List.getElem?_modify]
  cases l[i]? with
  | none => rfl
  | some a => by_cases hi : h = i <;> simp [hi]

theorem firstAvail_none (c : Cfg) (s : State) (h : firstAvail c s = none) : ∀ k < c.nHosts, avail c s k = false := by
  intro k hk
  unfold firstAvail at h
  rw [List.find?_eq_none] at h
  have := h k (List.mem_range.mpr hk)
  simpa using this

theorem chooseHost_some (c : Cfg) (s : State) (x h : Nat) (hc : chooseHost c s x = some h) : avail c s h = true := by
  unfold chooseHost at hc
  by_cases ha : avail c s (x % c.nHosts) = true
  · simp only [ha, if_true, Option.some.injEq] at hc; rw [← hc]; exact ha
  · simp only [ha, Bool.false_eq_true, if_false] at hc
    unfold firstAvail at hc
    exact (List.find?_some hc)

theorem chooseHost_none (c : Cfg) (s : State) (x : Nat) (hc : chooseHost c s x = none) : ∀ k < c.nHosts, avail c s k = false := by
  unfold chooseHost at hc
  by_cases ha : avail c s (x % c.nHosts) = true
  · simp [ha] at hc
  · simp only [ha, Bool.false_eq_true, if_false] at hc
    exact firstAvail_none c s hc

/-- what the judge needs to know about the label of an action taken from state `s` -/
def labelOK (c : Cfg) (s : State) : Label → Prop
  | .sel h => avail c s h = true
  | .none => ∀ k < c.nHosts, avail c s k = false
  | _ => True

theorem stepD_timers_select (c : Cfg) (s : State) (t : Nat) (ch : Option Nat) (a : Bool) :
    (stepD c s (.select t ch a)).timers = s.timers := by
  simp only [stepD, step]
  cases s.pcs[t]? with
  | none => rfl
  | some pc =>
    cases pc with
    | idle =>
      cases ch with
      | none => rfl
      | some h => by_cases ha : avail c s h = true <;> simp [ha, setPC]
    | selected _ => rfl
    | forwarding _ => rfl
    | failed _ => rfl
    | done => rfl

theorem stepD_timers_reserve (c : Cfg) (s : State) (t : Nat) : (stepD c s (.reserve t)).timers = s.timers := by
  simp only [stepD, step]
  cases s.pcs[t]? with
  | none => rfl
  | some pc =>
    cases pc with
    | selected h => by_cases hf : full c s h = true <;> simp [hf, setPC]
    | idle => rfl
    | forwarding _ => rfl
    | failed _ => rfl
    | done => rfl

theorem advance_spec (c : Cfg) (ex : Expiry) (s : State) (t x : Nat) (hw : WF c s)
    (hcf : c.countFails = (ex != .off)) :
    WF c (advance c ex s t x).1 ∧
    (advance c ex s t x).1.timers = outstandingAfter ex s.timers (advance c ex s t x).2 ∧
    labelOK c s (advance c ex s t x).2 := by
  unfold advance
  cases hpc : s.pcs[t]? with
  | none => exact ⟨hw, rfl, trivial⟩
  | some pc =>
    cases pc with
    | idle =>
      simp only
      cases hch : chooseHost c s x with
      | some h =>
        exact ⟨wf_stepD c s _ hw, stepD_timers_select c s t _ _, chooseHost_some c s x h hch⟩
      | none =>
        exact ⟨wf_stepD c s _ hw, stepD_timers_select c s t _ _, chooseHost_none c s x hch⟩
    | selected h =>
      simp only
      by_cases hf : ((stepD c s (.reserve t)).pcs[t]? == some (.forwarding h)) = true
      · simp only [hf, if_true]
        exact ⟨wf_stepD c s _ hw, stepD_timers_reserve c s t, trivial⟩
      · simp only [hf, Bool.false_eq_true, if_false]
        cases firstAvail c (stepD c s (.reserve t)) with
        | some _ => exact ⟨wf_stepD c s _ hw, stepD_timers_reserve c s t, trivial⟩
        | none =>
          refine ⟨wf_stepD c _ _ (wf_stepD c s _ hw), ?_, trivial⟩
          rw [stepD_timers_select, stepD_timers_reserve]
          rfl
    | forwarding h =>
      simp only
      have hlt : h < c.nHosts := hw.hostsOk t _ hpc
      -- the round trip ends
      have hfin : ∀ o, step c s (.finish t o) = some (setPC { s with conns := bump s.conns h (-1) } t
          (if o = .err then .failed h else .done)) := by
        intro o
        simp only [step, hpc]
        cases o <;> rfl
      have htl : t < s.pcs.length := by
        by_cases hk : t < s.pcs.length
        · exact hk
        · have : s.pcs[t]? = none := List.getElem?_eq_none (by omega)
          rw [this] at hpc; cases hpc
      by_cases ho : decodeOutcome x = .err
      · -- failed: the failure is recorded (and, with an immediate expiry, forgotten again)
        simp only [ho]
        have hs1 : stepD c s (.finish t .err) =
            setPC { s with conns := bump s.conns h (-1) } t (.failed h) := by
          unfold stepD; rw [hfin]; rfl
        have hpc1 : (setPC { s with conns := bump s.conns h (-1) } t (.failed h)).pcs[t]? = some (.failed h) := by
          simp [setPC, List.getElem?_set, htl]
        have hw1 : WF c (setPC { s with conns := bump s.conns h (-1) } t (.failed h)) := by
          rw [← hs1]; exact wf_stepD c s _ hw
        simp only [hs1, beq_self_eq_true, if_true, Bool.true_and]
        have hs2 : stepD c (setPC { s with conns := bump s.conns h (-1) } t (.failed h)) (.countFail t c.retry) =
            setPC (if c.countFails then
              { (setPC { s with conns := bump s.conns h (-1) } t (.failed h)) with
                fails := bump s.fails h 1, timers := bumpN s.timers h }
              else setPC { s with conns := bump s.conns h (-1) } t (.failed h)) t (if c.retry then .idle else .done) := by
          unfold stepD
          simp only [step, hpc1]
          rfl
        cases ex with
        | off =>
          have hc0 : c.countFails = false := by rw [hcf]; rfl
          simp only [show (Expiry.off == Expiry.immediate) = false from rfl, Bool.false_eq_true, if_false]
          refine ⟨wf_stepD c _ _ hw1, ?_, trivial⟩
          rw [hs2, hc0]
          simp [setPC, outstandingAfter]
        | never =>
          have hc1 : c.countFails = true := by rw [hcf]; rfl
          simp only [show (Expiry.never == Expiry.immediate) = false from rfl, Bool.false_eq_true, if_false]
          refine ⟨wf_stepD c _ _ hw1, ?_, trivial⟩
          rw [hs2, hc1]
          simp [setPC, outstandingAfter, bumpN]
        | delayed =>
          have hc1 : c.countFails = true := by rw [hcf]; rfl
          simp only [show (Expiry.delayed == Expiry.immediate) = false from rfl, Bool.false_eq_true, if_false]
          refine ⟨wf_stepD c _ _ hw1, ?_, trivial⟩
          rw [hs2, hc1]
          simp [setPC, outstandingAfter, bumpN]
        | immediate =>
          have hc1 : c.countFails = true := by rw [hcf]; rfl
          simp only [beq_self_eq_true, if_true]
          refine ⟨wf_stepD c _ _ (wf_stepD c _ _ hw1), ?_, trivial⟩
          rw [hs2, hc1]
          simp only [if_true]
          have hpos : getN (bumpN s.timers h) h > 0 := by
            rw [getN_bumpN, hw.lenT]; simp [hlt]
          unfold stepD
          simp only [step, setPC, hpos, if_true, Option.getD_some]
          simp [outstandingAfter, modify_modify_cancel]
      · -- any other outcome: nothing is recorded
        have hne : (decodeOutcome x == Outcome.err) = false := by simp [ho]
        simp only [hne, Bool.false_and, Bool.false_eq_true, if_false]
        refine ⟨wf_stepD c s _ hw, ?_, trivial⟩
        have : (stepD c s (.finish t (decodeOutcome x))).timers = s.timers := by
          unfold stepD; rw [hfin]; rfl
        rw [this]
        cases hd : decodeOutcome x <;> first | rfl | exact absurd hd ho
    | failed h => exact ⟨hw, rfl, trivial⟩
    | done => exact ⟨hw, rfl, trivial⟩

theorem cap_inflight (c : Cfg) (s : State) (hw : WF c s) :
    (decide (c.maxConns > 0) && (inflightList c s).any (fun n => decide (n > c.maxConns))) = false := by
  by_cases hm : c.maxConns > 0
  · simp only [hm, decide_true, Bool.true_and]
    rw [Bool.eq_false_iff]
    intro hany
    rw [List.any_eq_true] at hany
    obtain ⟨n, hn, hgt⟩ := hany
    unfold inflightList at hn
    obtain ⟨h, _, rfl⟩ := List.mem_map.mp hn
    have h1 := hw.cap hm h
    have h2 := hw.connsExact h
    simp only [decide_eq_true_eq] at hgt
    omega
  · simp [hm]

theorem allZero_conns (c : Cfg) (s : State) (hw : WF c s) (hz : allZeroN (inflightList c s) = true) :
    allZeroI s.conns = true := by
  rw [conns_eq_inflight c s hw]
  unfold allZeroI allZeroN natsToInts at *
  rw [List.all_eq_true] at hz ⊢
  intro x hx
  obtain ⟨n, hn, rfl⟩ := List.mem_map.mp hx
  have := hz n hn
  simp only [beq_iff_eq] at this ⊢
  subst this; rfl

theorem checkSnap_none (c : Cfg) (s s' : State) (l : Label) (hw : WF c s) (hw' : WF c s')
    (hl : labelOK c s l) (hts : ∀ h, l = .sel h → s'.timers = s.timers) (htn : l = .none → s'.timers = s.timers)
    (hun : (∀ f, l ≠ .hc f) → s'.unhealthy = s.unhealthy) :
    checkSnap c s'.unhealthy s'.timers (inflightList c s) (snap c s' l) = none := by
  unfold checkSnap snap
  simp only
  have e1 : (s'.conns != natsToInts ((List.range c.nHosts).map (forwardingTo s'))) = false := by
    have := conns_eq_inflight c s' hw'
    unfold inflightList at this
    rw [← this]; simp
  have e2 := cap_inflight c s' hw'
  unfold inflightList at e2
  have e3 : (s'.fails != natsToInts s'.timers) = false := by
    rw [← fails_eq_timers c s' hw']; simp
  have e4 : (s'.unhealthy != s'.unhealthy) = false := by simp
  simp only [e1, e2, e3, e4, Bool.false_eq_true, if_false]
  cases l with
  | sel h =>
    simp only
    rw [hts h rfl, hun (by intro f hf; cases hf), specAvail_eq c s hw h]
    simp only [labelOK] at hl
    simp [hl]
  | none =>
    simp only
    rw [htn rfl, hun (by intro f hf; cases hf)]
    have : (List.range c.nHosts).any (specAvail c s.unhealthy s.timers (inflightList c s)) = false := by
      rw [Bool.eq_false_iff]
      intro hany
      obtain ⟨k, hk, hav⟩ := List.any_eq_true.mp hany
      rw [specAvail_eq c s hw k] at hav
      simp only [labelOK] at hl
      rw [hl k (List.mem_range.mp hk)] at hav
      cases hav
    simp [this]
  | final =>
    simp only
    by_cases hz : allZeroN ((List.range c.nHosts).map (forwardingTo s')) = true
    · have := allZero_conns c s' hw' hz
      simp [hz, this]
    · simp [hz]
  | fwd _ => rfl
  | lost _ => rfl
  | fin _ _ => rfl
  | noop => rfl
  | exp _ => rfl
  | hc _ => rfl

theorem stepD_timer_timers (c : Cfg) (s : State) (h : Nat) :
    (stepD c s (.timer h)).timers = s.timers.modify h (· - 1) := by
  simp only [stepD, step]
  by_cases hp : getN s.timers h > 0
  · simp [hp, dropN]
  · simp only [hp, if_false, Option.getD_none]
    apply List.ext_getElem?
    intro i
    rw [List.getElem?_modify]
    cases hi : s.timers[i]? with
    | none => rfl
    | some a =>
      by_cases hh : h = i
      · subst hh
        have : a = 0 := by
          unfold getN at hp
          rw [List.getD_eq_getElem?_getD, hi] at hp
          simp at hp; exact hp
        subst this; simp
      · simp [hh]

/-- The judged predicate holds on every replay of the model from a well-formed state. -/
theorem stepD_timers_finish (c : Cfg) (s : State) (t : Nat) (o : Outcome) :
    (stepD c s (.finish t o)).timers = s.timers := by
  simp only [stepD, step]
  cases s.pcs[t]? with
  | none => rfl
  | some pc =>
    cases pc with
    | forwarding h => cases o <;> rfl
    | idle => rfl
    | selected _ => rfl
    | failed _ => rfl
    | done => rfl

/-- the extra action of a cancelled request keeps what `advance_spec` established -/
theorem afterCancel_spec (c : Cfg) (ex : Expiry) (s : State) (t : Nat) (r : State × Label)
    (hw : WF c r.1) (htim : r.1.timers = outstandingAfter ex s.timers r.2) (hlab : labelOK c s r.2) :
    WF c (afterCancel c t r).1 ∧ (afterCancel c t r).1.timers = outstandingAfter ex s.timers (afterCancel c t r).2 ∧
      labelOK c s (afterCancel c t r).2 := by
  obtain ⟨s', l⟩ := r
  cases l with
  | fwd h =>
    refine ⟨wf_stepD c _ _ hw, ?_, trivial⟩
    show (stepD c s' (.finish t .cancel)).timers = _
    rw [stepD_timers_finish]
    exact htim
  | sel _ => exact ⟨hw, htim, hlab⟩
  | none => exact ⟨hw, htim, hlab⟩
  | lost _ => exact ⟨hw, htim, hlab⟩
  | fin _ _ => exact ⟨hw, htim, hlab⟩
  | noop => exact ⟨hw, htim, hlab⟩
  | exp _ => exact ⟨hw, htim, hlab⟩
  | hc _ => exact ⟨hw, htim, hlab⟩
  | final => exact ⟨hw, htim, hlab⟩

/-- only the health-check event writes the health flags -/
theorem stepD_unhealthy (c : Cfg) (s : State) (e : Event) (hne : ∀ f, e ≠ .health f) :
    (stepD c s e).unhealthy = s.unhealthy := by
  cases e with
  | select t ch a =>
    simp only [stepD, step]
    cases s.pcs[t]? with
    | none => rfl
    | some pc =>
      cases pc with
      | idle =>
        cases ch with
        | none => rfl
        | some h => by_cases ha : avail c s h = true <;> simp [ha, setPC]
      | selected _ => rfl
      | forwarding _ => rfl
      | failed _ => rfl
      | done => rfl
  | reserve t =>
    simp only [stepD, step]
    cases s.pcs[t]? with
    | none => rfl
    | some pc =>
      cases pc with
      | selected h => by_cases hf : full c s h = true <;> simp [hf, setPC]
      | idle => rfl
      | forwarding _ => rfl
      | failed _ => rfl
      | done => rfl
  | finish t o =>
    simp only [stepD, step]
    cases s.pcs[t]? with
    | none => rfl
    | some pc =>
      cases pc with
      | forwarding h => cases o <;> rfl
      | idle => rfl
      | selected _ => rfl
      | failed _ => rfl
      | done => rfl
  | countFail t a =>
    simp only [stepD, step]
    cases s.pcs[t]? with
    | none => rfl
    | some pc =>
      cases pc with
      | failed h => by_cases hc : c.countFails = true <;> simp [hc, setPC]
      | idle => rfl
      | selected _ => rfl
      | forwarding _ => rfl
      | done => rfl
  | timer h =>
    simp only [stepD, step]
    by_cases hp : getN s.timers h > 0 <;> simp [hp]
  | health f => exact absurd rfl (hne f)

theorem advance_unhealthy (c : Cfg) (ex : Expiry) (s : State) (t x : Nat) :
    (advance c ex s t x).1.unhealthy = s.unhealthy ∧ ∀ f, (advance c ex s t x).2 ≠ .hc f := by
  have hsel : ∀ ch a s0, (stepD c s0 (.select t ch a)).unhealthy = s0.unhealthy :=
    fun ch a s0 => stepD_unhealthy c s0 _ (by intro f hf; cases hf)
  have hres : ∀ s0, (stepD c s0 (.reserve t)).unhealthy = s0.unhealthy :=
    fun s0 => stepD_unhealthy c s0 _ (by intro f hf; cases hf)
  have hfin : ∀ o s0, (stepD c s0 (.finish t o)).unhealthy = s0.unhealthy :=
    fun o s0 => stepD_unhealthy c s0 _ (by intro f hf; cases hf)
  have hcf : ∀ a s0, (stepD c s0 (.countFail t a)).unhealthy = s0.unhealthy :=
    fun a s0 => stepD_unhealthy c s0 _ (by intro f hf; cases hf)
  have htm : ∀ h s0, (stepD c s0 (.timer h)).unhealthy = s0.unhealthy :=
    fun h s0 => stepD_unhealthy c s0 _ (by intro f hf; cases hf)
  unfold advance
  cases hpc : s.pcs[t]? with
  | none => exact ⟨rfl, by intro f hf; cases hf⟩
  | some pc =>
    cases pc with
    | idle =>
      simp only
      cases chooseHost c s x with
      | some h => exact ⟨hsel _ _ _, by intro f hf; cases hf⟩
      | none => exact ⟨hsel _ _ _, by intro f hf; cases hf⟩
    | selected h =>
      simp only
      by_cases hf : ((stepD c s (.reserve t)).pcs[t]? == some (.forwarding h)) = true
      · simp only [hf, if_true]; exact ⟨hres _, by intro f hf; cases hf⟩
      · simp only [hf, Bool.false_eq_true, if_false]
        cases firstAvail c (stepD c s (.reserve t)) with
        | some _ => exact ⟨hres _, by intro f hf; cases hf⟩
        | none => exact ⟨by rw [hsel, hres], by intro f hf; cases hf⟩
    | forwarding h =>
      simp only
      refine ⟨?_, by intro f hf; cases hf⟩
      by_cases ho : (decodeOutcome x == Outcome.err) = true
      · simp only [ho, if_true, Bool.true_and]
        by_cases hi : (ex == Expiry.immediate) = true
        · simp only [hi, if_true]; rw [htm, hcf, hfin]
        · simp only [hi, Bool.false_eq_true, if_false]; rw [hcf, hfin]
      · simp only [ho, Bool.false_eq_true, if_false, Bool.false_and]; rw [hfin]
    | failed _ => exact ⟨rfl, by intro f hf; cases hf⟩
    | done => exact ⟨rfl, by intro f hf; cases hf⟩

theorem afterCancel_unhealthy (c : Cfg) (t : Nat) (r : State × Label) (s : State)
    (h : r.1.unhealthy = s.unhealthy ∧ ∀ f, r.2 ≠ .hc f) :
    (afterCancel c t r).1.unhealthy = s.unhealthy ∧ ∀ f, (afterCancel c t r).2 ≠ .hc f := by
  obtain ⟨s', l⟩ := r
  cases l with
  | fwd h' =>
    refine ⟨?_, by intro f hf; cases hf⟩
    show (stepD c s' (.finish t .cancel)).unhealthy = _
    rw [stepD_unhealthy c s' _ (by intro f hf; cases hf)]
    exact h.1
  | sel _ => exact h
  | none => exact h
  | lost _ => exact h
  | fin _ _ => exact h
  | noop => exact h
  | exp _ => exact h
  | hc _ => exact h
  | final => exact h

theorem verdictGo_replay (c : Cfg) (ex : Expiry) (hcf : c.countFails = (ex != .off)) :
    ∀ (es : List (Nat × Nat)) (s : State) (q cs : List Nat), WF c s →
      verdictGo c ex s.unhealthy s.timers (inflightList c s) (replay c ex s q cs es) = "ok" := by
  intro es
  induction es with
  | nil =>
    intro s q cs hw
    simp only [replay, verdictGo]
    have h1 : outstandingAfter ex s.timers (snap c s .final).label = s.timers := rfl
    have h2 : unhealthyAfter s.unhealthy (snap c s .final).label = s.unhealthy := rfl
    rw [h1, h2, checkSnap_none c s s .final hw hw trivial (by intro h hh; cases hh) (by intro hh; cases hh) (fun _ => rfl)]
  | cons e es ih =>
    intro s q cs hw
    obtain ⟨t, x⟩ := e
    -- a snapshot of a state reached by an action that is not a health check
    have key : ∀ r : State × Label, WF c r.1 → r.1.timers = outstandingAfter ex s.timers r.2 → labelOK c s r.2 →
        (r.1.unhealthy = s.unhealthy ∧ ∀ f, r.2 ≠ .hc f) →
        ∀ rest, verdictGo c ex r.1.unhealthy r.1.timers (inflightList c r.1) rest = "ok" →
          verdictGo c ex s.unhealthy s.timers (inflightList c s) (snap c r.1 r.2 :: rest) = "ok" := by
      intro r hw' htim hlab hunh rest hrest
      simp only [verdictGo]
      have hout : outstandingAfter ex s.timers (snap c r.1 r.2).label = r.1.timers := by rw [htim]; rfl
      have hu : unhealthyAfter s.unhealthy (snap c r.1 r.2).label = r.1.unhealthy := by
        show unhealthyAfter s.unhealthy r.2 = _
        rw [hunh.1]
        cases hl : r.2 with
        | hc f => exact absurd hl (hunh.2 f)
        | sel _ => rfl
        | none => rfl
        | fwd _ => rfl
        | lost _ => rfl
        | fin _ _ => rfl
        | noop => rfl
        | exp _ => rfl
        | final => rfl
      rw [hout, hu, checkSnap_none c s r.1 r.2 hw hw' hlab
        (by intro h hh; rw [htim, hh]; rfl) (by intro hh; rw [htim, hh]; rfl) (fun _ => hunh.1)]
      exact hrest
    by_cases ht : t = waitMark
    · simp only [replay, ht, if_true]
      cases q with
      | nil => exact key (s, .noop) hw rfl trivial ⟨rfl, by intro f hf; cases hf⟩ _ (ih s [] cs hw)
      | cons h q' =>
        have hw' := wf_stepD c s (.timer h) hw
        exact key (stepD c s (.timer h), .exp h) hw' (by rw [stepD_timer_timers]; rfl) trivial
          ⟨stepD_unhealthy c s _ (by intro f hf; cases hf), by intro f hf; cases hf⟩ _ (ih _ q' cs hw')
    · simp only [replay, ht, if_false]
      by_cases hhm : t ≥ healthMark
      · -- one pass of the health check
        simp only [hhm, if_true, verdictGo]
        have hw' := wf_stepD c s (.health ((List.range c.nHosts).map (fun h => x / 2 ^ h % 2 == 1))) hw
        have hst : stepD c s (.health ((List.range c.nHosts).map (fun h => x / 2 ^ h % 2 == 1))) =
            { s with unhealthy := (List.range c.nHosts).map (fun h => x / 2 ^ h % 2 == 1) } := rfl
        rw [hst] at hw' ⊢
        have h1 : outstandingAfter ex s.timers (snap c { s with unhealthy := (List.range c.nHosts).map (fun h => x / 2 ^ h % 2 == 1) }
            (.hc ((List.range c.nHosts).map (fun h => x / 2 ^ h % 2 == 1)))).label = s.timers := rfl
        have h2 : unhealthyAfter s.unhealthy (snap c { s with unhealthy := (List.range c.nHosts).map (fun h => x / 2 ^ h % 2 == 1) }
            (.hc ((List.range c.nHosts).map (fun h => x / 2 ^ h % 2 == 1)))).label =
            (List.range c.nHosts).map (fun h => x / 2 ^ h % 2 == 1) := rfl
        rw [h1, h2]
        have := checkSnap_none c s { s with unhealthy := (List.range c.nHosts).map (fun h => x / 2 ^ h % 2 == 1) }
          (.hc ((List.range c.nHosts).map (fun h => x / 2 ^ h % 2 == 1))) hw hw' trivial
          (by intro h hh; cases hh) (by intro hh; cases hh) (by intro hne; exact absurd rfl (hne _))
        rw [this]
        exact ih _ q cs hw'
      · simp only [hhm, if_false]
        by_cases hcm : t ≥ cancelMark
        · simp only [hcm, if_true]
          exact key (s, .noop) hw rfl trivial ⟨rfl, by intro f hf; cases hf⟩ _ (ih s q _ hw)
        · simp only [hcm, if_false]
          obtain ⟨hw0, htim0, hlab0⟩ := advance_spec c ex s t x hw hcf
          have hun0 := advance_unhealthy c ex s t x
          by_cases hc : cs.contains t = true
          · simp only [hc, if_true]
            obtain ⟨h1, h2, h3⟩ := afterCancel_spec c ex s t _ hw0 htim0 hlab0
            exact key _ h1 h2 h3 (afterCancel_unhealthy c t _ s hun0) _ (ih _ _ cs h1)
          · simp only [hc, Bool.false_eq_true, if_false]
            exact key _ hw0 htim0 hlab0 hun0 _ (ih _ _ cs hw0)

/-! ### the logical clock: a failure lives for fail_timeout -/

theorem tstep_now_mono (c : Cfg) (ft : Nat) (S S' : Timed) (e : TEvent) (h : tstep c ft S e = some S') :
    S.now ≤ S'.now := by
  cases e with
  | tick d =>
    simp only [tstep] at h
    by_cases hc : S.pending.all (fun p => decide (S.now + d ≤ p.2 + ft)) = true
    · simp only [hc, if_true, Option.some.injEq] at h; subst h; simp
    · simp [hc] at h
  | ev e =>
    cases e with
    | countFail t a =>
      simp only [tstep] at h
      cases hb : step c S.base (.countFail t a) with
      | none => simp [hb] at h
      | some b =>
        simp only [hb] at h
        cases hp : S.base.pcs[t]? with
        | none => simp only [hp, Option.some.injEq] at h; subst h; exact Nat.le_refl _
        | some pc =>
          cases pc <;> (simp only [hp, Option.some.injEq] at h; subst h; exact Nat.le_refl _)
    | timer hh =>
      simp only [tstep] at h
      cases hd : dueOf ft S.now hh S.pending with
      | none => simp [hd] at h
      | some p =>
        simp only [hd] at h
        cases hb : step c S.base (.timer hh) with
        | none => simp [hb] at h
        | some b => simp only [hb, Option.some.injEq] at h; subst h; exact Nat.le_refl _
    | select t ch a =>
      simp only [tstep, Option.map_eq_some_iff] at h
      obtain ⟨b, _, rfl⟩ := h; exact Nat.le_refl _
    | reserve t =>
      simp only [tstep, Option.map_eq_some_iff] at h
      obtain ⟨b, _, rfl⟩ := h; exact Nat.le_refl _
    | finish t o =>
      simp only [tstep, Option.map_eq_some_iff] at h
      obtain ⟨b, _, rfl⟩ := h; exact Nat.le_refl _
    | health f =>
      simp only [tstep, Option.map_eq_some_iff] at h
      obtain ⟨b, _, rfl⟩ := h; exact Nat.le_refl _

/-- one step never drops a failure that is not yet due -/
theorem tstep_keeps (c : Cfg) (ft : Nat) (S S' : Timed) (e : TEvent) (h : tstep c ft S e = some S')
    (p : Nat × Nat) (hp : p ∈ S.pending) (hnd : S'.now < p.2 + ft) : p ∈ S'.pending := by
  cases e with
  | tick d =>
    simp only [tstep] at h
    by_cases hc : S.pending.all (fun p => decide (S.now + d ≤ p.2 + ft)) = true
    · simp only [hc, if_true, Option.some.injEq] at h; subst h; exact hp
    · simp [hc] at h
  | ev e =>
    cases e with
    | countFail t a =>
      simp only [tstep] at h
      cases hb : step c S.base (.countFail t a) with
      | none => simp [hb] at h
      | some b =>
        simp only [hb] at h
        cases hpc : S.base.pcs[t]? with
        | none => simp only [hpc, Option.some.injEq] at h; subst h; exact hp
        | some pc =>
          cases pc with
          | failed hh =>
            simp only [hpc, Option.some.injEq] at h; subst h
            by_cases hcf : c.countFails = true
            · simp only [hcf, if_true]; exact List.mem_append_left _ hp
            · simp only [hcf, Bool.false_eq_true, if_false]; exact hp
          | idle => simp only [hpc, Option.some.injEq] at h; subst h; exact hp
          | selected _ => simp only [hpc, Option.some.injEq] at h; subst h; exact hp
          | forwarding _ => simp only [hpc, Option.some.injEq] at h; subst h; exact hp
          | done => simp only [hpc, Option.some.injEq] at h; subst h; exact hp
    | timer hh =>
      simp only [tstep] at h
      cases hd : dueOf ft S.now hh S.pending with
      | none => simp [hd] at h
      | some q =>
        simp only [hd] at h
        cases hb : step c S.base (.timer hh) with
        | none => simp [hb] at h
        | some b =>
          simp only [hb, Option.some.injEq] at h; subst h
          have hq := List.find?_some hd
          simp only [Bool.and_eq_true, decide_eq_true_eq] at hq
          have hne : p ≠ q := by
            intro heq; subst heq
            simp only at hnd
            omega
          exact (List.mem_erase_of_ne hne).mpr hp
    | select t ch a =>
      simp only [tstep, Option.map_eq_some_iff] at h
      obtain ⟨b, _, rfl⟩ := h; exact hp
    | reserve t =>
      simp only [tstep, Option.map_eq_some_iff] at h
      obtain ⟨b, _, rfl⟩ := h; exact hp
    | finish t o =>
      simp only [tstep, Option.map_eq_some_iff] at h
      obtain ⟨b, _, rfl⟩ := h; exact hp
    | health f =>
      simp only [tstep, Option.map_eq_some_iff] at h
      obtain ⟨b, _, rfl⟩ := h; exact hp

theorem trun_now_mono (c : Cfg) (ft : Nat) : ∀ (es : List TEvent) (S S' : Timed), trun c ft S es = some S' → S.now ≤ S'.now := by
  intro es
  induction es with
  | nil => intro S S' h; simp only [trun, Option.some.injEq] at h; subst h; exact Nat.le_refl _
  | cons e es ih =>
    intro S S' h
    simp only [trun] at h
    cases hs : tstep c ft S e with
    | none => simp [hs] at h
    | some S1 =>
      simp only [hs] at h
      exact Nat.le_trans (tstep_now_mono c ft S S1 e hs) (ih S1 S' h)

theorem trun_keeps (c : Cfg) (ft : Nat) : ∀ (es : List TEvent) (S S' : Timed), trun c ft S es = some S' →
    ∀ p ∈ S.pending, S'.now < p.2 + ft → p ∈ S'.pending := by
  intro es
  induction es with
  | nil => intro S S' h p hp _; simp only [trun, Option.some.injEq] at h; subst h; exact hp
  | cons e es ih =>
    intro S S' h p hp hnd
    simp only [trun] at h
    cases hs : tstep c ft S e with
    | none => simp [hs] at h
    | some S1 =>
      simp only [hs] at h
      have hmono := trun_now_mono c ft es S1 S' h
      exact ih S1 S' h p (tstep_keeps c ft S S1 e hs p hp (by omega)) hnd

/-- invariant of the timed runs: the untimed invariant, every pending failure is counted by the
failure bookkeeping of its backend, and none is overdue -/
structure TWF (c : Cfg) (ft : Nat) (S : Timed) : Prop where
  base : WF c S.base
  count : ∀ h, pendingOn S h = getN S.base.timers h
  notLate : ∀ p ∈ S.pending, S.now ≤ p.2 + ft

theorem twf_init (c : Cfg) (ft n : Nat) : TWF c ft (Timed.init c n) := by
  refine ⟨wf_init c n, ?_, ?_⟩
  · intro h
    unfold pendingOn Timed.init getN State.init
    simp only [List.filter_nil, List.length_nil]
    rw [List.getD_eq_getElem?_getD, List.getElem?_replicate]
    by_cases hh : h < c.nHosts <;> simp [hh]
  · intro p hp; simp [Timed.init] at hp

theorem pendingOn_append (S : Timed) (q : Nat × Nat) (h : Nat) :
    ((S.pending ++ [q]).filter (fun p => p.1 == h)).length = pendingOn S h + (if q.1 = h then 1 else 0) := by
  unfold pendingOn
  rw [List.filter_append, List.length_append]
  by_cases hq : q.1 = h <;> simp [hq]

theorem pendingOn_erase (S : Timed) (q : Nat × Nat) (hq : q ∈ S.pending) (h : Nat) :
    ((S.pending.erase q).filter (fun p => p.1 == h)).length + (if q.1 = h then 1 else 0) = pendingOn S h := by
  unfold pendingOn
  rw [← List.erase_filter]
  by_cases hh : q.1 = h
  · have : q ∈ S.pending.filter (fun p => p.1 == h) := List.mem_filter.mpr ⟨hq, by simp [hh]⟩
    rw [List.length_erase_of_mem this]
    have : 0 < (S.pending.filter (fun p => p.1 == h)).length := List.length_pos_of_mem this
    simp only [hh, if_true]
    omega
  · have : q ∉ S.pending.filter (fun p => p.1 == h) := by
      intro hm; have := (List.mem_filter.mp hm).2; simp at this; exact hh this
    rw [List.erase_of_not_mem this]
    simp [hh]

theorem twf_tstep (c : Cfg) (ft : Nat) (S S' : Timed) (e : TEvent) (hw : TWF c ft S) (h : tstep c ft S e = some S') :
    TWF c ft S' := by
  cases e with
  | tick d =>
    simp only [tstep] at h
    by_cases hc : S.pending.all (fun p => decide (S.now + d ≤ p.2 + ft)) = true
    · simp only [hc, if_true, Option.some.injEq] at h; subst h
      refine ⟨hw.base, hw.count, ?_⟩
      intro p hp
      have := (List.all_eq_true.mp hc) p hp
      simpa using this
    · simp [hc] at h
  | ev e =>
    have hother : ∀ e0 : Event, (∀ t a, e0 ≠ .countFail t a) → (∀ hh, e0 ≠ .timer hh) →
        ∀ b, step c S.base e0 = some b → b.timers = S.base.timers →
        TWF c ft { S with base := b } := by
      intro e0 _ _ b hb ht
      refine ⟨wf_step c S.base b e0 hw.base hb, ?_, hw.notLate⟩
      intro hh
      show pendingOn S hh = getN b.timers hh
      rw [ht]; exact hw.count hh
    cases e with
    | countFail t a =>
      simp only [tstep] at h
      cases hb : step c S.base (.countFail t a) with
      | none => simp [hb] at h
      | some b =>
        simp only [hb] at h
        have hwb := wf_step c S.base b _ hw.base hb
        cases hpc : S.base.pcs[t]? with
        | none => simp [step, hpc] at hb
        | some pc =>
          cases pc with
          | failed hh =>
            simp only [hpc, Option.some.injEq] at h; subst h
            have hlt : hh < c.nHosts := hw.base.hostsOk t _ hpc
            simp only [step, hpc, Option.some.injEq] at hb
            by_cases hcf : c.countFails = true
            · simp only [hcf, if_true] at hb ⊢
              subst hb
              refine ⟨hwb, ?_, ?_⟩
              · intro h'
                show ((S.pending ++ [(hh, S.now)]).filter (fun p => p.1 == h')).length = getN (bumpN S.base.timers hh) h'
                rw [pendingOn_append, getN_bumpN, hw.base.lenT, hw.count h']
                by_cases he : hh = h'
                · subst he; simp [hlt]
                · simp [he]
              · intro p hp
                rcases List.mem_append.mp hp with hp | hp
                · exact hw.notLate p hp
                · simp only [List.mem_singleton] at hp; subst hp; simp
            · simp only [hcf, Bool.false_eq_true, if_false] at hb ⊢
              subst hb
              exact ⟨hwb, hw.count, hw.notLate⟩
          | idle => simp [step, hpc] at hb
          | selected _ => simp [step, hpc] at hb
          | forwarding _ => simp [step, hpc] at hb
          | done => simp [step, hpc] at hb
    | timer hh =>
      simp only [tstep] at h
      cases hd : dueOf ft S.now hh S.pending with
      | none => simp [hd] at h
      | some q =>
        simp only [hd] at h
        cases hb : step c S.base (.timer hh) with
        | none => simp [hb] at h
        | some b =>
          simp only [hb, Option.some.injEq] at h; subst h
          have hwb := wf_step c S.base b _ hw.base hb
          have hq := List.find?_some hd
          have hqm := List.mem_of_find?_eq_some hd
          simp only [Bool.and_eq_true, beq_iff_eq, decide_eq_true_eq] at hq
          simp only [step] at hb
          by_cases hpos : getN S.base.timers hh > 0
          · simp only [hpos, if_true, Option.some.injEq] at hb
            subst hb
            have hlt : hh < S.base.timers.length := getN_pos_lt _ _ hpos
            refine ⟨hwb, ?_, ?_⟩
            · intro h'
              show ((S.pending.erase q).filter (fun p => p.1 == h')).length = getN (dropN S.base.timers hh) h'
              have h1 := pendingOn_erase S q hqm h'
              rw [getN_dropN, ← hw.count h']
              by_cases he : hh = h'
              · subst he
                simp only [hq.1, if_true] at h1
                simp only [hlt, and_self, if_true]
                omega
              · have : ¬ q.1 = h' := by rw [hq.1]; exact he
                simp only [this, if_false, Nat.add_zero] at h1
                simp [he, h1]
            · intro p hp
              exact hw.notLate p (List.mem_of_mem_erase hp)
          · simp [hpos] at hb
    | select t ch a =>
      simp only [tstep, Option.map_eq_some_iff] at h
      obtain ⟨b, hb, rfl⟩ := h
      refine hother _ (by intro _ _ hh; cases hh) (by intro _ hh; cases hh) b hb ?_
      have := stepD_timers_select c S.base t ch a
      simpa [stepD, hb] using this
    | reserve t =>
      simp only [tstep, Option.map_eq_some_iff] at h
      obtain ⟨b, hb, rfl⟩ := h
      refine hother _ (by intro _ _ hh; cases hh) (by intro _ hh; cases hh) b hb ?_
      have := stepD_timers_reserve c S.base t
      simpa [stepD, hb] using this
    | finish t o =>
      simp only [tstep, Option.map_eq_some_iff] at h
      obtain ⟨b, hb, rfl⟩ := h
      refine hother _ (by intro _ _ hh; cases hh) (by intro _ hh; cases hh) b hb ?_
      have := stepD_timers_finish c S.base t o
      simpa [stepD, hb] using this
    | health f =>
      simp only [tstep, Option.map_eq_some_iff] at h
      obtain ⟨b, hb, rfl⟩ := h
      refine hother _ (by intro _ _ hh; cases hh) (by intro _ hh; cases hh) b hb ?_
      simp only [step, Option.some.injEq] at hb; subst hb; rfl

theorem twf_trun (c : Cfg) (ft : Nat) : ∀ (es : List TEvent) (S S' : Timed), TWF c ft S → trun c ft S es = some S' → TWF c ft S' := by
  intro es
  induction es with
  | nil => intro S S' hw h; simp only [trun, Option.some.injEq] at h; subst h; exact hw
  | cons e es ih =>
    intro S S' hw h
    simp only [trun] at h
    cases hs : tstep c ft S e with
    | none => simp [hs] at h
    | some S1 =>
      simp only [hs] at h
      exact ih S1 S' (twf_tstep c ft S S1 e hw hs) h

end Casket.Accounting
