import Casket.Spec.Accounting
/-
Helper lemmas for Props/C14.lean: the well-formedness invariant of the accounting model is
preserved by every atomic step.
-/
namespace Casket.Accounting

/-! ### list helpers -/

theorem getI_bump (l : List Int) (h : Nat) (d : Int) (k : Nat) :
    getI (bump l h d) k = if h = k ∧ k < l.length then getI l k + d else getI l k := by
  unfold getI bump
  rw [List.getD_eq_getElem?_getD, List.getD_eq_getElem?_getD, List.getElem?_modify]
  by_cases hk : k < l.length
  · rw [List.getElem?_eq_getElem hk]
    by_cases hh : h = k <;> simp [hh, hk]
  · have : l[k]? = none := List.getElem?_eq_none (by omega)
    simp [hk]

theorem getN_bumpN (l : List Nat) (h k : Nat) :
    getN (bumpN l h) k = if h = k ∧ k < l.length then getN l k + 1 else getN l k := by
  unfold getN bumpN
  rw [List.getD_eq_getElem?_getD, List.getD_eq_getElem?_getD, List.getElem?_modify]
  by_cases hk : k < l.length
  · rw [List.getElem?_eq_getElem hk]
    by_cases hh : h = k <;> simp [hh, hk]
  · have : l[k]? = none := List.getElem?_eq_none (by omega)
    simp [hk]

theorem getN_dropN (l : List Nat) (h k : Nat) :
    getN (dropN l h) k = if h = k ∧ k < l.length then getN l k - 1 else getN l k := by
  unfold getN dropN
  rw [List.getD_eq_getElem?_getD, List.getD_eq_getElem?_getD, List.getElem?_modify]
  by_cases hk : k < l.length
  · rw [List.getElem?_eq_getElem hk]
    by_cases hh : h = k <;> simp [hh, hk]
  · have : l[k]? = none := List.getElem?_eq_none (by omega)
    simp [hk]

theorem getN_pos_lt (l : List Nat) (h : Nat) (hp : getN l h > 0) : h < l.length := by
  unfold getN at hp
  rw [List.getD_eq_getElem?_getD] at hp
  by_cases hk : h < l.length
  · exact hk
  · have : l[h]? = none := List.getElem?_eq_none (by omega)
    simp [this] at hp

/-! ### counting the forwarding threads -/

theorem forwardingTo_eq_countP (s : State) (h : Nat) :
    forwardingTo s h = s.pcs.countP (· == .forwarding h) := by
  unfold forwardingTo; rw [List.countP_eq_length_filter]

theorem forwardingTo_setPC (s : State) (t : Nat) (old new : PC) (h : Nat) (hold : s.pcs[t]? = some old) :
    forwardingTo (setPC s t new) h + (if old == .forwarding h then 1 else 0) =
      forwardingTo s h + (if new == .forwarding h then 1 else 0) := by
  have hlt : t < s.pcs.length := by
    by_cases hk : t < s.pcs.length
    · exact hk
    · have : s.pcs[t]? = none := List.getElem?_eq_none (by omega)
      rw [this] at hold; cases hold
  have hget : s.pcs[t] = old := by
    rw [List.getElem?_eq_getElem hlt] at hold; exact Option.some.inj hold
  rw [forwardingTo_eq_countP, forwardingTo_eq_countP]
  show List.countP _ (s.pcs.set t new) + _ = _
  rw [List.countP_set hlt, hget]
  by_cases ho : (old == PC.forwarding h) = true
  · have hpos : 0 < s.pcs.countP (· == .forwarding h) := by
      rw [List.countP_pos_iff]
      exact ⟨old, by rw [← hget]; exact List.getElem_mem hlt, ho⟩
    simp only [ho, if_true]
    omega
  · simp only [ho, Bool.false_eq_true, if_false]
    omega

/-! ### the invariant -/

def pcHostOk (c : Cfg) : PC → Prop
  | .selected h => h < c.nHosts
  | .forwarding h => h < c.nHosts
  | .failed h => h < c.nHosts
  | _ => True

structure WF (c : Cfg) (s : State) : Prop where
  lenC : s.conns.length = c.nHosts
  lenF : s.fails.length = c.nHosts
  lenT : s.timers.length = c.nHosts
  hostsOk : ∀ (t : Nat) (pc : PC), s.pcs[t]? = some pc → pcHostOk c pc
  connsExact : ∀ h, getI s.conns h = (forwardingTo s h : Int)
  failsExact : ∀ h, getI s.fails h = (getN s.timers h : Int)
  cap : c.maxConns > 0 → ∀ h, getI s.conns h ≤ (c.maxConns : Int)

theorem getElem?_setPC (s : State) (t : Nat) (pc : PC) (t' : Nat) (p : PC)
    (h : (setPC s t pc).pcs[t']? = some p) : p = pc ∨ s.pcs[t']? = some p := by
  unfold setPC at h
  simp only [List.getElem?_set] at h
  by_cases ht : t = t'
  · simp only [ht, if_true] at h
    by_cases hl : t' < s.pcs.length
    · simp only [hl, if_true] at h
      left; exact (Option.some.inj h).symm
    · simp [hl] at h
  · simp only [ht, if_false] at h
    right; exact h

theorem wf_init (c : Cfg) (n : Nat) : WF c (State.init c n) := by
  refine ⟨by simp [State.init], by simp [State.init], by simp [State.init], ?_, ?_, ?_, ?_⟩
  · intro t pc h
    simp only [State.init] at h
    rw [List.getElem?_replicate] at h
    by_cases ht : t < n
    · simp only [ht, if_true] at h; cases h; trivial
    · simp [ht] at h
  · intro h
    have h1 : forwardingTo (State.init c n) h = 0 := by
      unfold forwardingTo State.init
      simp
    rw [h1]
    unfold getI State.init
    rw [List.getD_eq_getElem?_getD, List.getElem?_replicate]
    by_cases hh : h < c.nHosts <;> simp [hh]
  · intro h
    unfold getI getN State.init
    rw [List.getD_eq_getElem?_getD, List.getD_eq_getElem?_getD, List.getElem?_replicate, List.getElem?_replicate]
    by_cases hh : h < c.nHosts <;> simp [hh]
  · intro _ h
    unfold getI State.init
    rw [List.getD_eq_getElem?_getD, List.getElem?_replicate]
    by_cases hh : h < c.nHosts <;> simp [hh]

theorem hostsOk_setPC (c : Cfg) (s : State) (t : Nat) (pc : PC) (hw : ∀ (t : Nat) (p : PC), s.pcs[t]? = some p → pcHostOk c p)
    (hpc : pcHostOk c pc) : ∀ (t' : Nat) (p : PC), (setPC s t pc).pcs[t']? = some p → pcHostOk c p := by
  intro t' p h
  rcases getElem?_setPC s t pc t' p h with rfl | h
  · exact hpc
  · exact hw t' p h

/-- a thread that is not forwarding before and after its step leaves every count unchanged -/
theorem forwardingTo_setPC_same (s : State) (t : Nat) (old new : PC) (h : Nat) (hold : s.pcs[t]? = some old)
    (ho : ∀ h, (old == PC.forwarding h) = false) (hn : ∀ h, (new == PC.forwarding h) = false) :
    forwardingTo (setPC s t new) h = forwardingTo s h := by
  have := forwardingTo_setPC s t old new h hold
  simp only [ho h, hn h, Bool.false_eq_true, if_false] at this
  omega

theorem avail_lt {c : Cfg} {s : State} {h : Nat} (ha : avail c s h = true) : h < c.nHosts := by
  simp only [avail, Bool.and_eq_true, decide_eq_true_eq] at ha
  exact ha.1.1

/-- every atomic action keeps the invariant -/
theorem wf_step (c : Cfg) (s s' : State) (e : Event) (hw : WF c s) (hs : step c s e = some s') : WF c s' := by
  cases e with
  | select t choice again =>
    simp only [step] at hs
    cases hpc : s.pcs[t]? with
    | none => simp [hpc] at hs
    | some pc =>
      cases pc with
      | idle =>
        simp only [hpc] at hs
        have key : ∀ new : PC, (∀ h, (new == PC.forwarding h) = false) → pcHostOk c new → WF c (setPC s t new) := by
          intro new hn hok
          refine ⟨hw.lenC, hw.lenF, hw.lenT, hostsOk_setPC c s t new hw.hostsOk hok, ?_, hw.failsExact, hw.cap⟩
          intro h
          rw [forwardingTo_setPC_same s t .idle new h hpc (by intro h; rfl) hn]
          exact hw.connsExact h
        cases choice with
        | none =>
          simp only [Option.some.injEq] at hs
          subst hs
          cases again
          · exact key .done (by intro h; rfl) trivial
          · exact key .idle (by intro h; rfl) trivial
        | some h =>
          by_cases ha : avail c s h = true
          · simp only [ha, if_true, Option.some.injEq] at hs
            subst hs
            exact key (.selected h) (by intro h'; rfl) (avail_lt ha)
          · simp [ha] at hs
      | selected _ => simp [hpc] at hs
      | forwarding _ => simp [hpc] at hs
      | failed _ => simp [hpc] at hs
      | done => simp [hpc] at hs
  | reserve t =>
    simp only [step] at hs
    cases hpc : s.pcs[t]? with
    | none => simp [hpc] at hs
    | some pc =>
      cases pc with
      | selected h =>
        simp only [hpc] at hs
        have hlt : h < c.nHosts := hw.hostsOk t _ hpc
        by_cases hf : full c s h = true
        · simp only [hf, if_true, Option.some.injEq] at hs
          subst hs
          refine ⟨hw.lenC, hw.lenF, hw.lenT, hostsOk_setPC c s t .idle hw.hostsOk trivial, ?_, hw.failsExact, hw.cap⟩
          intro h'
          rw [forwardingTo_setPC_same s t (.selected h) .idle h' hpc (by intro h; rfl) (by intro h; rfl)]
          exact hw.connsExact h'
        · simp only [hf, Bool.false_eq_true, if_false, Option.some.injEq] at hs
          subst hs
          have hcount : ∀ h', forwardingTo (setPC { s with conns := bump s.conns h 1 } t (.forwarding h)) h' =
              forwardingTo s h' + (if h = h' then 1 else 0) := by
            intro h'
            have := forwardingTo_setPC { s with conns := bump s.conns h 1 } t (.selected h) (.forwarding h) h' hpc
            have e1 : (PC.selected h == PC.forwarding h') = false := rfl
            simp only [e1, Bool.false_eq_true, if_false, Nat.add_zero] at this
            rw [this]
            show forwardingTo s h' + _ = _
            by_cases hh : h = h'
            · subst hh; simp
            · have : (PC.forwarding h == PC.forwarding h') = false := by simp [hh]
              simp [this, hh]
          refine ⟨by simp [setPC, bump, hw.lenC], hw.lenF, hw.lenT, ?_, ?_, hw.failsExact, ?_⟩
          · exact hostsOk_setPC c _ t _ hw.hostsOk hlt
          · intro h'
            rw [hcount]
            show getI (bump s.conns h 1) h' = _
            rw [getI_bump, hw.lenC]
            by_cases hh : h = h'
            · subst hh; simp [hlt, hw.connsExact h]
            · simp [hh, hw.connsExact h']
          · intro hm h'
            show getI (bump s.conns h 1) h' ≤ _
            rw [getI_bump, hw.lenC]
            by_cases hh : h = h'
            · subst hh
              simp only [hlt, and_self, if_true]
              simp only [full, hm, decide_true, Bool.true_and, decide_eq_true_eq] at hf
              omega
            · simp only [hh, false_and, if_false]; exact hw.cap hm h'
      | idle => simp [hpc] at hs
      | forwarding _ => simp [hpc] at hs
      | failed _ => simp [hpc] at hs
      | done => simp [hpc] at hs
  | finish t o =>
    simp only [step] at hs
    cases hpc : s.pcs[t]? with
    | none => simp [hpc] at hs
    | some pc =>
      cases pc with
      | forwarding h =>
        simp only [hpc] at hs
        have hlt : h < c.nHosts := hw.hostsOk t _ hpc
        have key : ∀ new : PC, (∀ h, (new == PC.forwarding h) = false) → pcHostOk c new →
            WF c (setPC { s with conns := bump s.conns h (-1) } t new) := by
          intro new hn hok
          have hcount : ∀ h', forwardingTo (setPC { s with conns := bump s.conns h (-1) } t new) h' + (if h = h' then 1 else 0) =
              forwardingTo s h' := by
            intro h'
            have := forwardingTo_setPC { s with conns := bump s.conns h (-1) } t (.forwarding h) new h' hpc
            simp only [hn h', Bool.false_eq_true, if_false, Nat.add_zero] at this
            rw [← show forwardingTo { s with conns := bump s.conns h (-1) } h' = forwardingTo s h' from rfl, ← this]
            by_cases hh : h = h'
            · subst hh; simp
            · have : (PC.forwarding h == PC.forwarding h') = false := by simp [hh]
              simp [this, hh]
          refine ⟨by simp [setPC, bump, hw.lenC], hw.lenF, hw.lenT, ?_, ?_, hw.failsExact, ?_⟩
          · exact hostsOk_setPC c _ t _ hw.hostsOk hok
          · intro h'
            show getI (bump s.conns h (-1)) h' = _
            rw [getI_bump, hw.lenC]
            have := hcount h'
            by_cases hh : h = h'
            · subst hh
              simp only [hlt, and_self, if_true, hw.connsExact h]
              simp only [if_true] at this
              omega
            · simp only [hh, false_and, if_false, hw.connsExact h']
              simp only [hh, if_false, Nat.add_zero] at this
              rw [this]
          · intro hm h'
            show getI (bump s.conns h (-1)) h' ≤ _
            rw [getI_bump, hw.lenC]
            have := hw.cap hm h'
            by_cases hh : h = h'
            · subst hh; simp only [hlt, and_self, if_true]; omega
            · simp only [hh, false_and, if_false]; exact this
        cases o with
        | err => simp only [Option.some.injEq] at hs; subst hs; exact key (.failed h) (by intro h; rfl) hlt
        | ok => simp only [Option.some.injEq] at hs; subst hs; exact key .done (by intro h; rfl) trivial
        | cancel => simp only [Option.some.injEq] at hs; subst hs; exact key .done (by intro h; rfl) trivial
        | tooLarge => simp only [Option.some.injEq] at hs; subst hs; exact key .done (by intro h; rfl) trivial
        | panic => simp only [Option.some.injEq] at hs; subst hs; exact key .done (by intro h; rfl) trivial
      | idle => simp [hpc] at hs
      | selected _ => simp [hpc] at hs
      | failed _ => simp [hpc] at hs
      | done => simp [hpc] at hs
  | countFail t again =>
    simp only [step] at hs
    cases hpc : s.pcs[t]? with
    | none => simp [hpc] at hs
    | some pc =>
      cases pc with
      | failed h =>
        simp only [hpc, Option.some.injEq] at hs
        subst hs
        have hnew : ∀ h', ((if again then PC.idle else PC.done) == PC.forwarding h') = false := by
          intro h'; cases again <;> rfl
        have hok : pcHostOk c (if again then PC.idle else PC.done) := by cases again <;> trivial
        by_cases hcf : c.countFails = true
        · simp only [hcf, if_true]
          refine ⟨hw.lenC, by simp [setPC, bump, hw.lenF], by simp [setPC, bumpN, hw.lenT], ?_, ?_, ?_, hw.cap⟩
          · exact hostsOk_setPC c _ t _ hw.hostsOk hok
          · intro h'
            rw [forwardingTo_setPC_same { s with fails := bump s.fails h 1, timers := bumpN s.timers h } t (.failed h) _ h' hpc (by intro h; rfl) hnew]
            exact hw.connsExact h'
          · intro h'
            show getI (bump s.fails h 1) h' = (getN (bumpN s.timers h) h' : Int)
            rw [getI_bump, getN_bumpN, hw.lenF, hw.lenT]
            by_cases hh : h = h' ∧ h' < c.nHosts
            · simp only [hh, and_self, if_true, hw.failsExact h']; omega
            · simp only [hh, if_false]; exact hw.failsExact h'
        · simp only [hcf, Bool.false_eq_true, if_false]
          refine ⟨hw.lenC, hw.lenF, hw.lenT, hostsOk_setPC c _ t _ hw.hostsOk hok, ?_, hw.failsExact, hw.cap⟩
          intro h'
          rw [forwardingTo_setPC_same _ t (.failed h) _ h' hpc (by intro h; rfl) hnew]
          exact hw.connsExact h'
      | idle => simp [hpc] at hs
      | selected _ => simp [hpc] at hs
      | forwarding _ => simp [hpc] at hs
      | done => simp [hpc] at hs
  | timer h =>
    simp only [step] at hs
    by_cases hp : getN s.timers h > 0
    · simp only [hp, if_true, Option.some.injEq] at hs
      subst hs
      have hlt : h < c.nHosts := by rw [← hw.lenT]; exact getN_pos_lt _ _ hp
      refine ⟨hw.lenC, by simp [bump, hw.lenF], by simp [dropN, hw.lenT], hw.hostsOk, hw.connsExact, ?_, hw.cap⟩
      intro h'
      show getI (bump s.fails h (-1)) h' = (getN (dropN s.timers h) h' : Int)
      rw [getI_bump, getN_dropN, hw.lenF, hw.lenT]
      by_cases hh : h = h' ∧ h' < c.nHosts
      · obtain ⟨rfl, _⟩ := hh
        simp only [hlt, and_self, if_true, hw.failsExact h]
        omega
      · simp only [hh, if_false]; exact hw.failsExact h'
    · simp [hp] at hs

theorem wf_run (c : Cfg) : ∀ (es : List Event) (s s' : State), WF c s → run c s es = some s' → WF c s' := by
  intro es
  induction es with
  | nil => intro s s' hw h; simp only [run, Option.some.injEq] at h; subst h; exact hw
  | cons e es ih =>
    intro s s' hw h
    simp only [run] at h
    cases hs : step c s e with
    | none => simp [hs] at h
    | some s1 =>
      simp only [hs] at h
      exact ih s1 s' (wf_step c s s1 e hw hs) h

end Casket.Accounting
