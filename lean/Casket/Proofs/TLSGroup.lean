import Casket.Model.TLSGroup
import Casket.Spec.TLSGroup
import Casket.Proofs.VHost
/-
Helper lemmas for C06: the loop of MakeTLSConfig keeps, per SNI key, the last config of
that key; it fails exactly on TLS/plaintext mixes, unreadable client CAs and same-key
configs with different settings; what it stores for a site is the site's settings with
defaults filled in.
-/
namespace Casket.TLSGroup
open Casket.TLSSpec
open Casket.VHost (Bytes)

/-! ### group map -/

theorem groupLookup_groupSet (g : Group) (k : Bytes) (e : Entry) (k' : Bytes) :
    groupLookup (groupSet g k e) k' = if k' = k then some e else groupLookup g k' := by
  induction g with
  | nil =>
    by_cases h : k' = k
    · subst h; simp [groupSet, groupLookup]
    · have h' : ¬ k = k' := fun x => h x.symm
      simp [groupSet, groupLookup, h, h']
  | cons ke rest ih =>
    obtain ⟨k0, e0⟩ := ke
    by_cases h0 : k0 = k
    · subst h0
      by_cases h : k' = k0
      · subst h; simp [groupSet, groupLookup]
      · have h' : ¬ k0 = k' := fun x => h x.symm
        simp [groupSet, groupLookup, h, h']
    · by_cases h : k' = k
      · subst h; simp [groupSet, groupLookup, h0, ih]
      · by_cases h1 : k0 = k'
        · subst h1; simp [groupSet, groupLookup, h0, h]
        · simp [groupSet, groupLookup, h0, h1, ih, h]

/-! ### one loop step -/

/-- what the loop does with one config before the compatibility check -/
def stepCfg (aesni : Bool) (c : Cfg) : Option (Cfg × Option Built) :=
  if c.enabled then (build aesni c).map (fun p => (p.1, some p.2)) else some (c, none)

theorem build_hostname {aesni : Bool} {c c' : Cfg} {b : Built} (h : build aesni c = some (c', b)) :
    c'.hostname = c.hostname ∧ c'.clientCerts = c.clientCerts ∧ c'.clientAuth = c.clientAuth := by
  unfold build at h
  split at h
  · cases h
  · simp only [Option.some.injEq, Prod.mk.injEq] at h
    rw [← h.1]; exact ⟨rfl, rfl, rfl⟩

theorem stepCfg_hostname {aesni : Bool} {c c' : Cfg} {b : Option Built} (h : stepCfg aesni c = some (c', b)) :
    c'.hostname = c.hostname ∧ c'.clientCerts = c.clientCerts := by
  unfold stepCfg at h
  split at h
  · cases hb : build aesni c with
    | none => rw [hb] at h; cases h
    | some p =>
      rw [hb] at h
      simp only [Option.map_some, Option.some.injEq, Prod.mk.injEq] at h
      have := build_hostname (c' := p.1) (b := p.2) hb
      rw [← h.1]; exact ⟨this.1, this.2.1⟩
  · simp only [Option.some.injEq, Prod.mk.injEq] at h
    rw [← h.1]; exact ⟨rfl, rfl⟩

theorem makeLoop_cons (aesni : Bool) (c : Cfg) (rest : List Cfg) (i : Nat) (prev : Option Bool) (g : Group) :
    makeLoop aesni (c :: rest) i prev g =
      if prev.isSome ∧ prev ≠ some c.enabled then .error (.mix i)
      else match stepCfg aesni c with
        | none => .error (.build i)
        | some (c', b) =>
          match groupLookup g (mapKey c'.hostname) with
          | some other =>
            if compatible c' other.cfg b other.built then
              makeLoop aesni rest (i + 1) (some c.enabled) (groupSet g (mapKey c'.hostname) ⟨i, c', b⟩)
            else .error (.incompatible i)
          | none => makeLoop aesni rest (i + 1) (some c.enabled) (groupSet g (mapKey c'.hostname) ⟨i, c', b⟩) := by
  rfl

/-! ### mixing -/

theorem makeLoop_mixed_error (aesni : Bool) (l : List Cfg) (i : Nat) (b0 : Bool) (g : Group)
    (h : ∃ c ∈ l, c.enabled ≠ b0) : ∃ e, makeLoop aesni l i (some b0) g = .error e := by
  induction l generalizing i g with
  | nil => obtain ⟨c, hc, _⟩ := h; simp at hc
  | cons c rest ih =>
    rw [makeLoop_cons]
    by_cases hc : c.enabled = b0
    · have hrest : ∃ c ∈ rest, c.enabled ≠ b0 := by
        obtain ⟨d, hd, hne⟩ := h
        simp only [List.mem_cons] at hd
        rcases hd with rfl | hd
        · exact absurd hc hne
        · exact ⟨d, hd, hne⟩
      simp only [Option.isSome_some, ne_eq, Option.some.injEq, true_and, hc, not_true_eq_false, if_false]
      cases stepCfg aesni c with
      | none => exact ⟨_, rfl⟩
      | some p =>
        obtain ⟨c', b⟩ := p
        simp only []
        cases groupLookup g (mapKey c'.hostname) with
        | none => rw [← hc] at hrest ⊢; simpa [hc] using ih (i + 1) _ (by simpa [hc] using hrest)
        | some other =>
          simp only []
          by_cases hcomp : compatible c' other.cfg b other.built = true
          · simp only [hcomp, if_true]
            simpa [hc] using ih (i + 1) _ hrest
          · simp only [hcomp]; exact ⟨_, rfl⟩
    · have : ¬ b0 = c.enabled := fun x => hc x.symm
      simp [this]


/-! ### a failing step -/

theorem makeLoop_step_error (aesni : Bool) (l : List Cfg) (i : Nat) (prev : Option Bool) (g : Group)
    (h : ∃ c ∈ l, stepCfg aesni c = none) : ∃ e, makeLoop aesni l i prev g = .error e := by
  induction l generalizing i prev g with
  | nil => obtain ⟨c, hc, _⟩ := h; simp at hc
  | cons c rest ih =>
    rw [makeLoop_cons]
    by_cases hm : prev.isSome ∧ prev ≠ some c.enabled
    · rw [if_pos hm]; exact ⟨_, rfl⟩
    · rw [if_neg hm]
      cases hs : stepCfg aesni c with
      | none => exact ⟨_, rfl⟩
      | some p =>
        obtain ⟨c', b⟩ := p
        have hrest : ∃ d ∈ rest, stepCfg aesni d = none := by
          obtain ⟨d, hd, hn⟩ := h
          simp only [List.mem_cons] at hd
          rcases hd with rfl | hd
          · rw [hs] at hn; cases hn
          · exact ⟨d, hd, hn⟩
        simp only []
        cases groupLookup g (mapKey c'.hostname) with
        | none => exact ih _ _ _ hrest
        | some other =>
          simp only []
          by_cases hcomp : compatible c' other.cfg b other.built = true
          · simp only [hcomp, if_true]; exact ih _ _ _ hrest
          · simp only [hcomp]; exact ⟨_, rfl⟩

/-! ### the loop on stepped configs -/

abbrev Stepped := Cfg × Option Built

def comp (p q : Stepped) : Bool := compatible p.1 q.1 p.2 q.2

def keyS (p : Stepped) : Bytes := mapKey p.1.hostname

def loopS : List Stepped → Nat → Group → Except Nat Group
  | [], _, g => .ok g
  | p :: rest, i, g =>
    match groupLookup g (keyS p) with
    | some o =>
      if comp p (o.cfg, o.built) then loopS rest (i + 1) (groupSet g (keyS p) ⟨i, p.1, p.2⟩)
      else .error i
    | none => loopS rest (i + 1) (groupSet g (keyS p) ⟨i, p.1, p.2⟩)

theorem loopS_cons (p : Stepped) (rest : List Stepped) (i : Nat) (g : Group) :
    loopS (p :: rest) i g =
      match groupLookup g (keyS p) with
      | some o =>
        if comp p (o.cfg, o.built) then loopS rest (i + 1) (groupSet g (keyS p) ⟨i, p.1, p.2⟩)
        else .error i
      | none => loopS rest (i + 1) (groupSet g (keyS p) ⟨i, p.1, p.2⟩) := rfl

/-- with uniform `Enabled` and successful steps, `makeLoop` is `loopS` on the stepped configs -/
theorem makeLoop_eq_loopS (aesni : Bool) (l : List Cfg) (sl : List Stepped) (i : Nat) (b0 : Bool)
    (prev : Option Bool) (g : Group) (hprev : prev = none ∨ prev = some b0)
    (hen : ∀ c ∈ l, c.enabled = b0) (hsl : l.map (stepCfg aesni) = sl.map some) :
    makeLoop aesni l i prev g = (match loopS sl i g with | .ok g' => .ok g' | .error j => .error (.incompatible j)) := by
  induction l generalizing sl i prev g with
  | nil =>
    cases sl with
    | nil => rfl
    | cons _ _ => simp at hsl
  | cons c rest ih =>
    cases sl with
    | nil => simp at hsl
    | cons p srest =>
      simp only [List.map_cons, List.cons.injEq] at hsl
      obtain ⟨hp, hrest⟩ := hsl
      have hce : c.enabled = b0 := hen c (by simp)
      rw [makeLoop_cons]
      have hm : ¬ (prev.isSome ∧ prev ≠ some c.enabled) := by
        rcases hprev with h | h <;> simp [h, hce]
      simp only [hm, if_false, hp, loopS, keyS, comp]
      have ih' := fun g' => ih srest (i + 1) (some c.enabled) g' (Or.inr (by rw [hce]))
        (fun d hd => hen d (by simp [hd])) hrest
      cases groupLookup g (mapKey p.1.hostname) with
      | none => exact ih' _
      | some o =>
        simp only []
        by_cases hc : compatible p.1 o.cfg p.2 o.built = true
        · simp only [hc, if_true]; exact ih' _
        · simp only [hc]; rfl

/-! ### compatibility is an equivalence -/

theorem comp_symm (p q : Stepped) : comp p q = comp q p := by
  unfold comp compatible
  cases hp : p.2 <;> cases hq : q.2 <;> simp only []
  rename_i x y
  unfold clientCertsCompatible
  rw [Bool.eq_iff_iff]
  simp only [Bool.and_eq_true, beq_iff_eq, Bool.or_eq_true]
  constructor <;>
  · rintro ⟨⟨⟨⟨⟨⟨h1, h2⟩, h3⟩, h4⟩, h5⟩, h6⟩, h7, h8⟩
    refine ⟨⟨⟨⟨⟨⟨h1.symm, h2.symm⟩, h3.symm⟩, h4.symm⟩, h5.symm⟩, h6.symm⟩, h7.symm, ?_⟩
    rcases h8 with (h8 | h8) | h8
    · exact Or.inl (Or.inr h8)
    · exact Or.inl (Or.inl h8)
    · exact Or.inr h8.symm

theorem comp_trans {p q r : Stepped} (h1 : comp p q = true) (h2 : comp q r = true) : comp p r = true := by
  unfold comp compatible at *
  cases hp : p.2 <;> cases hq : q.2 <;> cases hr : r.2 <;> simp only [hp, hq, hr] at h1 h2 ⊢ <;>
    try (first | exact h1 | exact h2 | cases h1 | cases h2)
  rename_i x y z
  unfold clientCertsCompatible at *
  simp only [Bool.and_eq_true, beq_iff_eq, Bool.or_eq_true] at h1 h2 ⊢
  obtain ⟨⟨⟨⟨⟨⟨a1, a2⟩, a3⟩, a4⟩, a5⟩, a6⟩, a7, a8⟩ := h1
  obtain ⟨⟨⟨⟨⟨⟨b1, b2⟩, b3⟩, b4⟩, b5⟩, b6⟩, b7, b8⟩ := h2
  refine ⟨⟨⟨⟨⟨⟨a1.trans b1, a2.trans b2⟩, a3.trans b3⟩, a4.trans b4⟩, a5.trans b5⟩, a6.trans b6⟩, a7.trans b7, ?_⟩
  rcases a8 with (a8 | a8) | a8
  · exact Or.inl (Or.inl a8)
  · exact Or.inl (Or.inr (by rw [← b7]; exact a8))
  · rcases b8 with (b8 | b8) | b8
    · exact Or.inl (Or.inl (by rw [a7]; exact b8))
    · exact Or.inl (Or.inr b8)
    · exact Or.inr (a8.trans b8)


/-! ### when the loop succeeds, and what it leaves in the map -/

def holderP (g : Group) (p : Stepped) : Bool :=
  match groupLookup g (keyS p) with
  | some o => comp p (o.cfg, o.built)
  | none => true

def pairOK : List Stepped → Bool
  | [] => true
  | p :: rest => rest.all (fun q => keyS q != keyS p || comp q p) && pairOK rest

theorem loopS_ok_iff (l : List Stepped) (i : Nat) (g : Group) :
    (∃ g', loopS l i g = .ok g') ↔ (pairOK l = true ∧ l.all (holderP g) = true) := by
  induction l generalizing i g with
  | nil => simp [loopS, pairOK]
  | cons p rest ih =>
    have key : (∃ g', loopS (p :: rest) i g = .ok g') ↔
        (holderP g p = true ∧ ∃ g', loopS rest (i + 1) (groupSet g (keyS p) ⟨i, p.1, p.2⟩) = .ok g') := by
      rw [loopS_cons]
      unfold holderP
      cases groupLookup g (keyS p) with
      | none => simp
      | some o =>
        simp only []
        by_cases hc : comp p (o.cfg, o.built) = true
        · simp [hc]
        · simp [hc]
    rw [key, ih]
    simp only [pairOK, List.all_cons, Bool.and_eq_true, List.all_eq_true, Bool.or_eq_true, bne_iff_ne, ne_eq]
    have hg1 : ∀ q : Stepped, holderP (groupSet g (keyS p) ⟨i, p.1, p.2⟩) q
        = if keyS q = keyS p then comp q p else holderP g q := by
      intro q
      unfold holderP
      rw [groupLookup_groupSet]
      by_cases hk : keyS q = keyS p
      · simp [hk]
      · simp [hk]
    constructor
    · rintro ⟨hP, hpair, hH⟩
      refine ⟨⟨?_, hpair⟩, hP, ?_⟩
      · intro q hq
        have := hH q hq
        rw [hg1] at this
        by_cases hk : keyS q = keyS p
        · right; simpa [hk] using this
        · left; exact hk
      · intro q hq
        have := hH q hq
        rw [hg1] at this
        by_cases hk : keyS q = keyS p
        · simp only [hk, if_true] at this
          unfold holderP at hP ⊢
          rw [hk]
          cases hl : groupLookup g (keyS p) with
          | none => rfl
          | some o =>
            rw [hl] at hP
            exact comp_trans this hP
        · simpa [hk] using this
    · rintro ⟨⟨hA, hpair⟩, hP, hG⟩
      refine ⟨hP, hpair, ?_⟩
      intro q hq
      rw [hg1]
      by_cases hk : keyS q = keyS p
      · simp only [hk, if_true]
        rcases hA q hq with h | h
        · exact absurd hk h
        · exact h
      · simp only [hk, if_false]; exact hG q hq

def lastEntryS : List Stepped → Bytes → Nat → Option Entry
  | [], _, _ => none
  | p :: rest, k, i =>
    match lastEntryS rest k (i + 1) with
    | some e => some e
    | none => if keyS p = k then some ⟨i, p.1, p.2⟩ else none

theorem loopS_lookup {l : List Stepped} {i : Nat} {g g' : Group} (h : loopS l i g = .ok g') (k : Bytes) :
    groupLookup g' k = (lastEntryS l k i).or (groupLookup g k) := by
  induction l generalizing i g with
  | nil => simp only [loopS, Except.ok.injEq] at h; subst h; simp [lastEntryS]
  | cons p rest ih =>
    have hrest : loopS rest (i + 1) (groupSet g (keyS p) ⟨i, p.1, p.2⟩) = .ok g' := by
      rw [loopS_cons] at h
      cases hl : groupLookup g (keyS p) with
      | none => rw [hl] at h; exact h
      | some o =>
        rw [hl] at h
        simp only [] at h
        by_cases hc : comp p (o.cfg, o.built) = true
        · simpa [hc] using h
        · simp [hc] at h
    rw [ih hrest, groupLookup_groupSet]
    simp only [lastEntryS]
    cases lastEntryS rest k (i + 1) with
    | some e => simp
    | none =>
      by_cases hk : k = keyS p
      · subst hk; simp
      · have hk' : ¬ keyS p = k := fun x => hk x.symm
        simp [hk, hk']


/-! ### what is stored for a site: its own settings with defaults -/

theorem dedup_snoc_acc (s : Nat) (xs acc : List Nat) (h : ¬ s ∈ xs) :
    dedup xs (acc ++ [s]) = s :: dedup xs acc := by
  induction xs generalizing acc with
  | nil => simp [dedup]
  | cons x rest ih =>
    simp only [List.mem_cons, not_or] at h
    have hx : ¬ x = s := fun e => h.1 e.symm
    simp only [dedup, List.contains_eq_mem, List.mem_append, List.mem_singleton, hx, or_false]
    by_cases hm : x ∈ acc
    · simp only [hm, decide_true, if_true]; exact ih acc h.2
    · simp only [hm, decide_false, Bool.false_eq_true, if_false]
      have := ih (x :: acc) h.2
      simpa using this

theorem scsv_not_default (aesni : Bool) : ¬ scsv ∈ preferredDefaultCiphers aesni := by
  cases aesni <;> decide

/-- the config as `buildStandardTLSConfig` leaves it, and its tls.Config -/
def steppedOf (aesni : Bool) (c : Cfg) : Stepped :=
  ({ setDefaults aesni c with alpn := effALPN c }, some (effective aesni c))

theorem stepCfg_setDefaults (aesni : Bool) (c : Cfg) (hen : c.enabled = true) (hca : caFilesOk c = true)
    (hdom : c.ciphers.contains scsv = false) :
    stepCfg aesni (setDefaults aesni c) = some (steppedOf aesni c) := by
  have hX : ¬ scsv ∈ (if c.ciphers.isEmpty then preferredDefaultCiphers aesni else c.ciphers) := by
    split
    · exact scsv_not_default aesni
    · simpa using hdom
  have hd : dedup (scsv :: (if c.ciphers.isEmpty then preferredDefaultCiphers aesni else c.ciphers)) []
      = scsv :: dedup (if c.ciphers.isEmpty then preferredDefaultCiphers aesni else c.ciphers) [] := by
    have := dedup_snoc_acc scsv _ [] hX
    simpa [dedup] using this
  have hca' : caFilesOk (setDefaults aesni c) = true := hca
  unfold stepCfg
  have hen' : (setDefaults aesni c).enabled = true := hen
  simp only [hen', if_true]
  unfold build
  simp only [hca', Bool.not_true, Bool.false_eq_true, if_false, Option.map_some]
  unfold steppedOf effective effCiphers effCurves effALPN
  simp only [setDefaults, hd, List.isEmpty_cons, Bool.false_eq_true, if_false, List.head?_cons, if_true]
  rfl

theorem withDefaults_steps (aesni : Bool) (raw : List Cfg) (hen : ∀ c ∈ raw, c.enabled = true)
    (hca : ∀ c ∈ raw, caFilesOk c = true) (hdom : ∀ c ∈ raw, c.ciphers.contains scsv = false) :
    (withDefaults aesni raw).map (stepCfg aesni) = (raw.map (steppedOf aesni)).map some := by
  induction raw with
  | nil => rfl
  | cons c rest ih =>
    simp only [withDefaults, List.map_cons, List.cons.injEq]
    refine ⟨?_, ?_⟩
    · rw [if_pos (hen c (by simp))]
      exact stepCfg_setDefaults aesni c (hen c (by simp)) (hca c (by simp)) (hdom c (by simp))
    · exact ih (fun d hd => hen d (by simp [hd])) (fun d hd => hca d (by simp [hd])) (fun d hd => hdom d (by simp [hd]))

theorem keyS_steppedOf (aesni : Bool) (c : Cfg) : keyS (steppedOf aesni c) = mapKey c.hostname := rfl

theorem comp_steppedOf (aesni : Bool) (c d : Cfg) :
    comp (steppedOf aesni c) (steppedOf aesni d) = sameSettings aesni c d := by
  unfold comp compatible steppedOf sameSettings clientCertsCompatible
  simp only []
  rw [Bool.eq_iff_iff]
  simp only [Bool.and_eq_true, beq_iff_eq, Bool.or_eq_true]
  have hc1 : (effective aesni c).clientAuth = c.clientAuth := rfl
  have hd1 : (effective aesni d).clientAuth = d.clientAuth := rfl
  have hcc : ({ setDefaults aesni c with alpn := effALPN c } : Cfg).clientCerts = c.clientCerts := rfl
  have hdc : ({ setDefaults aesni d with alpn := effALPN d } : Cfg).clientCerts = d.clientCerts := rfl
  rw [hcc, hdc, hc1, hd1]
  constructor
  · rintro ⟨⟨⟨⟨⟨⟨h1, h2⟩, h3⟩, h4⟩, h5⟩, h6⟩, h7, h8⟩
    refine ⟨?_, ?_⟩
    · cases he : effective aesni c
      cases hf : effective aesni d
      rw [he, hf] at h1 h2 h3 h4 h5 h6
      simp only [] at h1 h2 h3 h4 h5 h6
      have h7' : (effective aesni c).clientAuth = (effective aesni d).clientAuth := h7
      rw [he, hf] at h7'
      simp only [] at h7'
      simp [h1, h2, h3, h4, h5, h6, h7']
    · rcases h8 with (h8 | h8) | h8
      · exact Or.inl h8
      · exact Or.inl (by rw [h7]; exact h8)
      · exact Or.inr h8
  · rintro ⟨he, h8⟩
    have h7 : c.clientAuth = d.clientAuth := by
      have := congrArg Built.clientAuth he
      exact this
    rw [he]
    refine ⟨⟨⟨⟨⟨⟨rfl, rfl⟩, rfl⟩, rfl⟩, rfl⟩, rfl⟩, h7, ?_⟩
    rcases h8 with h8 | h8
    · exact Or.inl (Or.inl h8)
    · exact Or.inr h8

theorem pairOK_steppedOf (aesni : Bool) (raw : List Cfg) :
    pairOK (raw.map (steppedOf aesni)) = !conflicting aesni raw := by
  induction raw with
  | nil => rfl
  | cons c rest ih =>
    simp only [List.map_cons, pairOK, conflicting, ih, Bool.not_or, List.all_map]
    congr 1
    rw [Bool.eq_iff_iff]
    simp only [List.all_eq_true, Function.comp, Bool.or_eq_true, bne_iff_ne, ne_eq, Bool.not_eq_true',
      List.any_eq_false, Bool.and_eq_true, beq_iff_eq, Bool.not_eq_true', not_and, keyS_steppedOf]
    constructor
    · intro h d hd hk
      rcases h d hd with h' | h'
      · exact absurd hk h'
      · rw [comp_symm, comp_steppedOf] at h'
        simp [h']
    · intro h d hd
      by_cases hk : mapKey d.hostname = mapKey c.hostname
      · right
        have := h d hd hk
        rw [comp_symm, comp_steppedOf]
        simpa using this
      · left; exact hk


/-! ### the whole pipeline -/

theorem withDefaults_enabled (aesni : Bool) (raw : List Cfg) :
    ∀ d ∈ withDefaults aesni raw, ∃ c ∈ raw, d.enabled = c.enabled ∧ (c.enabled = true → d = setDefaults aesni c) ∧ (c.enabled = false → d = c) := by
  intro d hd
  simp only [withDefaults, List.mem_map] at hd
  obtain ⟨c, hc, rfl⟩ := hd
  refine ⟨c, hc, ?_, ?_, ?_⟩
  · split <;> rfl
  · intro h; simp [h]
  · intro h; simp [h]

theorem makeTLS_mixed (aesni : Bool) (cfgs : List Cfg) (h : mixed cfgs = true) :
    ∃ e, makeTLS aesni cfgs = .error e := by
  cases cfgs with
  | nil => simp [mixed] at h
  | cons c0 rest =>
    have hrest : ∃ d ∈ rest, d.enabled ≠ c0.enabled := by
      unfold mixed at h
      simp only [List.any_cons, Bool.and_eq_true, Bool.or_eq_true, List.any_eq_true, Bool.not_eq_true'] at h
      cases hc : c0.enabled with
      | true =>
        rcases h.2 with h2 | ⟨d, hd, hde⟩
        · rw [hc] at h2; cases h2
        · exact ⟨d, hd, by rw [hde]; simp⟩
      | false =>
        rcases h.1 with h1 | ⟨d, hd, hde⟩
        · rw [hc] at h1; cases h1
        · exact ⟨d, hd, by rw [hde]; simp⟩
    have : ∃ e, makeLoop aesni (c0 :: rest) 0 none [] = .error e := by
      rw [makeLoop_cons]
      simp only [Option.isSome_none, Bool.false_eq_true, false_and, if_false]
      cases stepCfg aesni c0 with
      | none => exact ⟨_, rfl⟩
      | some p =>
        obtain ⟨c', b⟩ := p
        simp only [groupLookup]
        exact makeLoop_mixed_error aesni rest 1 c0.enabled _ hrest
    obtain ⟨e, he⟩ := this
    exact ⟨e, by simp [makeTLS, he]⟩

theorem mixed_withDefaults (aesni : Bool) (raw : List Cfg) : mixed (withDefaults aesni raw) = mixed raw := by
  unfold mixed withDefaults
  simp only [List.any_map]
  congr 1
  · congr 1; funext c; simp only [Function.comp]; split <;> simp_all [setDefaults]
  · congr 1; funext c; simp only [Function.comp]; split <;> simp_all [setDefaults]

theorem pipeline_mixed (aesni : Bool) (raw : List Cfg) (sni : Bytes) (la : Option Bytes)
    (h : mixed raw = true) : ∃ n, pipeline aesni raw sni la = .error n := by
  obtain ⟨e, he⟩ := makeTLS_mixed aesni (withDefaults aesni raw) (by rw [mixed_withDefaults]; exact h)
  exact ⟨e.cls, by simp [pipeline, he]⟩

theorem withDefaults_disabled (aesni : Bool) (raw : List Cfg) (h : raw.all (!·.enabled) = true) :
    withDefaults aesni raw = raw := by
  unfold withDefaults
  have : ∀ c ∈ raw, (if c.enabled then setDefaults aesni c else c) = c := by
    intro c hc
    have := List.all_eq_true.mp h c hc
    simp only [Bool.not_eq_true'] at this
    simp [this]
  have h2 := List.map_congr_left this
  simpa using h2

theorem pipeline_plain (aesni : Bool) (raw : List Cfg) (sni : Bytes) (la : Option Bytes)
    (h : raw.all (!·.enabled) = true) : pipeline aesni raw sni la = .plain := by
  unfold pipeline
  rw [withDefaults_disabled aesni raw h]
  cases raw with
  | nil => rfl
  | cons c0 rest =>
    have hall : ∀ c ∈ c0 :: rest, c.enabled = false := by
      intro c hc
      have := List.all_eq_true.mp h c hc
      simpa using this
    have hsteps : (c0 :: rest).map (stepCfg aesni) = ((c0 :: rest).map (fun c => ((c, none) : Stepped))).map some := by
      rw [List.map_map]
      apply List.map_congr_left
      intro c hc
      simp [stepCfg, hall c hc]
    have hloop := makeLoop_eq_loopS aesni (c0 :: rest) _ 0 false none [] (Or.inl rfl) hall hsteps
    have hok : ∃ g', loopS ((c0 :: rest).map (fun c => ((c, none) : Stepped))) 0 [] = .ok g' := by
      rw [loopS_ok_iff]
      refine ⟨?_, ?_⟩
      · generalize (c0 :: rest) = l
        induction l with
        | nil => rfl
        | cons c r ih =>
          simp only [List.map_cons, pairOK, ih, Bool.and_true, List.all_map]
          rw [List.all_eq_true]
          intro d _
          simp [comp, compatible]
      · rw [List.all_eq_true]
        intro p _
        simp [holderP, groupLookup]
    obtain ⟨g', hg'⟩ := hok
    rw [hg'] at hloop
    have h0 : c0.enabled = false := hall c0 (by simp)
    simp [makeTLS, hloop, h0]

theorem pipeline_missing_ca (aesni : Bool) (raw : List Cfg) (sni : Bytes) (la : Option Bytes)
    (hen : raw.all (·.enabled) = true) (hne : raw ≠ []) (h : caMissing raw = true) :
    ∃ n, pipeline aesni raw sni la = .error n := by
  have : ∃ d ∈ withDefaults aesni raw, stepCfg aesni d = none := by
    unfold caMissing at h
    obtain ⟨c, hc, hca⟩ := List.any_eq_true.mp h
    have hce : c.enabled = true := List.all_eq_true.mp hen c hc
    refine ⟨setDefaults aesni c, ?_, ?_⟩
    · simp only [withDefaults, List.mem_map]
      exact ⟨c, hc, by simp [hce]⟩
    · have hca0 : caFilesOk c = false := by simpa using hca
      have hca' : caFilesOk (setDefaults aesni c) = false := hca0
      have hen' : (setDefaults aesni c).enabled = true := hce
      simp [stepCfg, hen', build, hca']
  obtain ⟨e, he⟩ := makeLoop_step_error aesni (withDefaults aesni raw) 0 none [] this
  cases hw : withDefaults aesni raw with
  | nil =>
    cases raw with
    | nil => exact absurd rfl hne
    | cons _ _ => simp [withDefaults] at hw
  | cons d0 drest =>
    rw [hw] at he
    exact ⟨e.cls, by simp [pipeline, makeTLS, hw, he]⟩


theorem makeTLS_enabled (aesni : Bool) (raw : List Cfg) (c0 : Cfg) (rest : List Cfg) (hraw : raw = c0 :: rest)
    (hen : raw.all (·.enabled) = true) (hca : caMissing raw = false) (hdom : inDomain raw = true) :
    makeTLS aesni (withDefaults aesni raw) =
      match loopS (raw.map (steppedOf aesni)) 0 [] with
      | .ok g' => .ok (some g')
      | .error j => .error (.incompatible j) := by
  have hen' : ∀ c ∈ raw, c.enabled = true := fun c hc => List.all_eq_true.mp hen c hc
  have hca' : ∀ c ∈ raw, caFilesOk c = true := by
    intro c hc
    unfold caMissing at hca
    have := List.any_eq_false.mp hca c hc
    simpa using this
  have hdom' : ∀ c ∈ raw, c.ciphers.contains scsv = false := by
    intro c hc
    have := List.all_eq_true.mp hdom c hc
    simpa using this
  have hwe : ∀ d ∈ withDefaults aesni raw, d.enabled = true := by
    intro d hd
    obtain ⟨c, hc, he, _, _⟩ := withDefaults_enabled aesni raw d hd
    rw [he]; exact hen' c hc
  have hloop := makeLoop_eq_loopS aesni (withDefaults aesni raw) _ 0 true none [] (Or.inl rfl) hwe
    (withDefaults_steps aesni raw hen' hca' hdom')
  subst hraw
  have h0 : (if c0.enabled then setDefaults aesni c0 else c0).enabled = true := hwe _ (by simp [withDefaults])
  simp only [withDefaults, List.map_cons] at hloop h0 ⊢
  unfold makeTLS
  simp only [hloop]
  cases loopS (steppedOf aesni c0 :: List.map (steppedOf aesni) rest) 0 [] with
  | error j => rfl
  | ok g' => simp [h0]

/-- `lastEntryS` on the stepped sites is `lastIdx` plus the site's effective settings -/
theorem lastEntryS_steppedOf (aesni : Bool) (raw : List Cfg) (k : Bytes) (i : Nat) :
    (lastEntryS (raw.map (steppedOf aesni)) k i = none ∧ lastIdx raw k i = none) ∨
    (∃ e c, lastEntryS (raw.map (steppedOf aesni)) k i = some e ∧ lastIdx raw k i = some e.idx ∧
       i ≤ e.idx ∧ raw[e.idx - i]? = some c ∧ e.built = some (effective aesni c)) := by
  induction raw generalizing i with
  | nil => left; exact ⟨rfl, rfl⟩
  | cons c rest ih =>
    simp only [List.map_cons, lastEntryS, lastIdx]
    rcases ih (i + 1) with ⟨h1, h2⟩ | ⟨e, c', h1, h2, h3, h4, h5⟩
    · rw [h1, h2]
      simp only [keyS_steppedOf]
      by_cases hk : mapKey c.hostname = k
      · right
        refine ⟨⟨i, (steppedOf aesni c).1, (steppedOf aesni c).2⟩, c, by simp [hk], by simp [hk], Nat.le_refl _, by simp, rfl⟩
      · left; simp [hk]
    · right
      rw [h1, h2]
      refine ⟨e, c', rfl, rfl, by omega, ?_, h5⟩
      have : e.idx - i = (e.idx - (i + 1)) + 1 := by omega
      rw [this, List.getElem?_cons_succ]
      exact h4

theorem lastIdx_isSome (raw : List Cfg) (k : Bytes) (i : Nat) :
    (lastIdx raw k i).isSome = keyDeclared raw k := by
  induction raw generalizing i with
  | nil => rfl
  | cons c rest ih =>
    simp only [lastIdx, keyDeclared, List.any_cons]
    have := ih (i + 1)
    unfold keyDeclared at this
    cases h : lastIdx rest k (i + 1) with
    | some j => rw [h] at this; simp [← this]
    | none =>
      rw [h] at this
      simp only [Option.isSome_none] at this
      rw [← this]
      by_cases hk : mapKey c.hostname = k <;> simp [hk]

theorem settingsVerdict_effective (aesni : Bool) (c : Cfg) : settingsVerdict aesni c (effective aesni c) = "ok" := by
  unfold settingsVerdict
  have h1 : ¬ (c.minV = 0 ∧ (effective aesni c).minV < tls12) := by
    intro ⟨h0, hlt⟩
    simp [effective, h0] at hlt
  have h2 : ((effective aesni c).ciphers.head? != some scsv) = false := by simp [effective, effCiphers]
  have h3 : ((effective aesni c).clientAuth != c.clientAuth) = false := by simp [effective]
  simp [h1, h2, h3]


/-- the facts about one key of the finished map -/
def KeyFact (aesni : Bool) (raw : List Cfg) (g : Group) (k : Bytes) : Prop :=
  (groupLookup g k = none ∧ lastIdx raw k 0 = none) ∨
  (∃ e c, groupLookup g k = some e ∧ lastIdx raw k 0 = some e.idx ∧ raw[e.idx]? = some c ∧
     e.built = some (effective aesni c))

theorem findSome_keyFact {aesni : Bool} {raw : List Cfg} {g : Group} (F : ∀ k, KeyFact aesni raw g k) (l : List Bytes) :
    (l.findSome? (groupLookup g) = none ∧ (l.find? (keyDeclared raw)).bind (fun k => lastIdx raw k 0) = none) ∨
    (∃ e c, l.findSome? (groupLookup g) = some e ∧
       (l.find? (keyDeclared raw)).bind (fun k => lastIdx raw k 0) = some e.idx ∧ raw[e.idx]? = some c ∧
       e.built = some (effective aesni c)) := by
  induction l with
  | nil => left; exact ⟨rfl, rfl⟩
  | cons k rest ih =>
    simp only [List.findSome?, List.find?]
    rcases F k with ⟨h1, h2⟩ | ⟨e, c, h1, h2, h3, h4⟩
    · have hd : keyDeclared raw k = false := by rw [← lastIdx_isSome raw k 0, h2]; rfl
      rw [h1, hd]; exact ih
    · have hd : keyDeclared raw k = true := by rw [← lastIdx_isSome raw k 0, h2]; rfl
      rw [h1, hd]
      right; exact ⟨e, c, rfl, by simpa using h2, h3, h4⟩

theorem normalizedName_nil : normalizedName [] = [] := by decide

theorem selectVerdict_pipeline (aesni : Bool) (raw : List Cfg) (sni : Bytes) (la : Option Bytes)
    (hen : raw.all (·.enabled) = true) (hne : raw ≠ []) (hca : caMissing raw = false)
    (hdom : inDomain raw = true) (hconf : conflicting aesni raw = false) :
    selectVerdict aesni raw sni la (pipeline aesni raw sni la) = "ok" := by
  obtain ⟨c0, rest, hraw⟩ : ∃ c0 rest, raw = c0 :: rest := by
    cases raw with
    | nil => exact absurd rfl hne
    | cons a b => exact ⟨a, b, rfl⟩
  have hmk := makeTLS_enabled aesni raw c0 rest hraw hen hca hdom
  have hok : ∃ g', loopS (raw.map (steppedOf aesni)) 0 [] = .ok g' := by
    rw [loopS_ok_iff, pairOK_steppedOf, hconf]
    refine ⟨rfl, ?_⟩
    rw [List.all_eq_true]; intro p _; simp [holderP, groupLookup]
  obtain ⟨g', hg'⟩ := hok
  rw [hg'] at hmk
  have hlook : ∀ k, groupLookup g' k = lastEntryS (raw.map (steppedOf aesni)) k 0 := by
    intro k; rw [loopS_lookup hg' k]; simp [groupLookup]
  have F : ∀ k, KeyFact aesni raw g' k := by
    intro k
    unfold KeyFact
    rw [hlook]
    rcases lastEntryS_steppedOf aesni raw k 0 with h | ⟨e, c, h1, h2, _, h4, h5⟩
    · left; exact h
    · right; exact ⟨e, c, h1, h2, by simpa using h4, h5⟩
  have entryOK : ∀ (e : Entry) (c : Cfg), raw[e.idx]? = some c → e.built = some (effective aesni c) →
      (wanted raw sni la = some e.idx ∨ wanted raw sni la = none) →
      selectVerdict aesni raw sni la (match e.built with | some b => .cfg e.idx b | none => .nothing) = "ok" := by
    intro e c h1 h2 hw
    rw [h2]
    simp only [selectVerdict, h1]
    rcases hw with hw | hw <;> rw [hw] <;> simp [settingsVerdict_effective]
  -- the map is not empty
  have hnonempty : g' ≠ [] := by
    intro hnil
    have hk : keyDeclared raw (mapKey c0.hostname) = true := by
      rw [hraw]; simp [keyDeclared]
    rcases F (mapKey c0.hostname) with ⟨_, h2⟩ | ⟨e, c, h1, _⟩
    · rw [← lastIdx_isSome raw _ 0, h2] at hk; cases hk
    · rw [hnil] at h1; simp [groupLookup] at h1
  unfold pipeline
  rw [hmk]
  simp only []
  unfold getConfig
  simp only [normalizedName_nil]
  have hname : (if normalizedName sni = [] then [] else normalizedName sni) = normalizedName sni := by
    split <;> simp_all
  rw [hname]
  -- the address lookup
  have hw : wanted raw sni la =
      match (if normalizedName sni = [] then la.bind (fun a => lastIdx raw (Casket.VHost.stripPort a) 0) else none) with
      | some j => some j
      | none => (specKey raw (normalizedName sni)).bind (fun k => lastIdx raw k 0) := rfl
  have hIP : (∃ e c, (if normalizedName sni = [] then la.bind (fun a => groupLookup g' (Casket.VHost.stripPort a)) else none) = some e ∧
        (if normalizedName sni = [] then la.bind (fun a => lastIdx raw (Casket.VHost.stripPort a) 0) else none) = some e.idx ∧
        raw[e.idx]? = some c ∧ e.built = some (effective aesni c)) ∨
      ((if normalizedName sni = [] then la.bind (fun a => groupLookup g' (Casket.VHost.stripPort a)) else none) = none ∧
        (if normalizedName sni = [] then la.bind (fun a => lastIdx raw (Casket.VHost.stripPort a) 0) else none) = none) := by
    by_cases hn : normalizedName sni = []
    · simp only [hn, if_true]
      cases la with
      | none => right; exact ⟨rfl, rfl⟩
      | some a =>
        simp only [Option.bind_some]
        rcases F (Casket.VHost.stripPort a) with ⟨h1, h2⟩ | ⟨e, c, h1, h2, h3, h4⟩
        · right; exact ⟨h1, h2⟩
        · left; exact ⟨e, c, h1, h2, h3, h4⟩
    · right; simp [hn]
  rcases hIP with ⟨e, c, h1, h2, h3, h4⟩ | ⟨h1, h2⟩
  · rw [h1]
    simp only []
    exact entryOK e c h3 h4 (Or.inl (by rw [hw, h2]))
  · rw [h1]
    simp only []
    have hw' : wanted raw sni la = (specKey raw (normalizedName sni)).bind (fun k => lastIdx raw k 0) := by
      rw [hw, h2]
    rcases findSome_keyFact F (Casket.VHost.hostCands (normalizedName sni) ++ [[]]) with ⟨f1, f2⟩ | ⟨e, c, f1, f2, f3, f4⟩
    · rw [f1]
      simp only []
      have hwn : wanted raw sni la = none := by rw [hw']; exact f2
      cases hg : g' with
      | nil => exact absurd hg hnonempty
      | cons ke grest =>
        obtain ⟨k0, e0⟩ := ke
        cases grest with
        | nil =>
          simp only []
          rcases F k0 with ⟨g1, _⟩ | ⟨e, c, g1, _, g3, g4⟩
          · rw [hg] at g1; simp [groupLookup] at g1
          · rw [hg] at g1
            simp only [groupLookup, if_true, Option.some.injEq] at g1
            subst g1
            exact entryOK e0 c g3 g4 (Or.inr hwn)
        | cons _ _ =>
          simp only [selectVerdict, hwn]
          rfl
    · rw [f1]
      simp only []
      exact entryOK e c f3 f4 (Or.inl (by rw [hw']; exact f2))


/-! ### the certificate of the governing site (handshake model) -/

theorem lastIdx_spec {raw : List Cfg} {k : Bytes} {i j : Nat} (h : lastIdx raw k i = some j) :
    i ≤ j ∧ ∃ c, raw[j - i]? = some c ∧ mapKey c.hostname = k := by
  induction raw generalizing i with
  | nil => simp [lastIdx] at h
  | cons c rest ih =>
    simp only [lastIdx] at h
    cases hr : lastIdx rest k (i + 1) with
    | some j' =>
      rw [hr] at h
      simp only [Option.some.injEq] at h
      subst h
      obtain ⟨h1, c', h2, h3⟩ := ih hr
      refine ⟨by omega, c', ?_, h3⟩
      have : j' - i = (j' - (i + 1)) + 1 := by omega
      rw [this, List.getElem?_cons_succ]; exact h2
    | none =>
      rw [hr] at h
      simp only [] at h
      by_cases hk : mapKey c.hostname = k
      · simp only [hk, if_true, Option.some.injEq] at h
        subst h
        exact ⟨Nat.le_refl _, c, by simp, hk⟩
      · simp [hk] at h

theorem mapKey_eq_self {h : Bytes} (hn : mapKey h ≠ []) : mapKey h = h := by
  unfold mapKey at *
  split
  · rename_i hc; simp [hc] at hn
  · rfl

theorem joinDot_head (l : Bytes) (ls : List Bytes) (c : Nat) (h : l.head? = some c) :
    (Casket.VHost.joinDot (l :: ls)).head? = some c := by
  cases l with
  | nil => simp at h
  | cons a as =>
    cases ls with
    | nil => simpa [Casket.VHost.joinDot] using h
    | cons m ms => simpa [Casket.VHost.joinDot] using h

theorem hostCands_not_alias {name k : Bytes} (hn : mapKey name ≠ []) (hk : k ∈ Casket.VHost.hostCands name) :
    k ≠ [] ∧ k ≠ host0000 ∧ k ≠ hostV6Any := by
  unfold Casket.VHost.hostCands at hk
  simp only [List.mem_cons, List.mem_map, List.mem_range] at hk
  rcases hk with rfl | ⟨i, _, rfl⟩
  · refine ⟨?_, ?_, ?_⟩
    · intro h; rw [h] at hn; exact hn rfl
    · intro h; rw [h] at hn; exact hn (by decide)
    · intro h; rw [h] at hn; exact hn (by decide)
  · have hh : (Casket.VHost.wildcard (i + 1) (Casket.VHost.splitDot name)).head? = some Casket.VHost.cStar := by
      unfold Casket.VHost.wildcard
      rw [List.replicate_succ, List.cons_append]
      exact joinDot_head _ _ _ rfl
    refine ⟨?_, ?_, ?_⟩ <;> intro h <;> rw [h] at hh <;> revert hh <;> decide

theorem find?_congr' {α : Type} {p q : α → Bool} (l : List α) (h : ∀ x ∈ l, p x = q x) :
    l.find? p = l.find? q := by
  induction l with
  | nil => rfl
  | cons a as ih =>
    simp only [List.find?, h a (by simp)]
    rw [ih (fun x hx => h x (by simp [hx]))]

theorem certFor_eq_key {raw : List Cfg} {name san k : Bytes} (hn : mapKey name ≠ [])
    (hc : certFor raw name = some san) (hk : specKey raw name = some k) (hkne : k ≠ []) : san = k := by
  unfold specKey at hk
  rw [List.find?_append] at hk
  unfold certFor at hc
  have hcongr : List.find? (keyDeclared raw) (Casket.VHost.hostCands name)
      = List.find? (fun k' => raw.any (fun c => c.hostname == k')) (Casket.VHost.hostCands name) := by
    apply find?_congr'
    intro k' hk'
    obtain ⟨h1, h2, h3⟩ := hostCands_not_alias hn hk'
    unfold keyDeclared
    congr 1
    funext c
    unfold mapKey
    by_cases ha : c.hostname = host0000 ∨ c.hostname = hostV6Any
    · simp only [ha, if_true]
      rcases ha with ha | ha
      · rw [ha]
        have e1 : ¬ ([] : Bytes) = k' := fun e => h1 e.symm
        have e2 : ¬ host0000 = k' := fun e => h2 e.symm
        rw [beq_eq_false_iff_ne.mpr e1, beq_eq_false_iff_ne.mpr e2]
      · rw [ha]
        have e1 : ¬ ([] : Bytes) = k' := fun e => h1 e.symm
        have e2 : ¬ hostV6Any = k' := fun e => h3 e.symm
        rw [beq_eq_false_iff_ne.mpr e1, beq_eq_false_iff_ne.mpr e2]
    · simp only [ha, if_false]
  rw [hcongr, hc] at hk
  simpa using hk


/-! ### SNI = Host: the config that governs the handshake vs the site that serves the request -/

open Casket.VHost in
theorem entriesFrom_index {sites : List Site} {i0 : Nat} {e : Casket.VHostSpec.Entry}
    (h : e ∈ Casket.VHostSpec.entriesFrom sites i0) :
    i0 ≤ e.idx ∧ ∃ s, sites[e.idx - i0]? = some s ∧ e.host = (keyOf s).1 := by
  induction sites generalizing i0 with
  | nil => simp [Casket.VHostSpec.entriesFrom] at h
  | cons s rest ih =>
    simp only [Casket.VHostSpec.entriesFrom, List.mem_cons] at h
    rcases h with rfl | h
    · exact ⟨Nat.le_refl _, s, by simp, rfl⟩
    · obtain ⟨h1, s', h2, h3⟩ := ih h
      refine ⟨by omega, s', ?_, h3⟩
      have : e.idx - i0 = (e.idx - (i0 + 1)) + 1 := by omega
      rw [this, List.getElem?_cons_succ]; exact h2

theorem mapKey_beq {h k : Bytes} (h1 : k ≠ []) (h2 : k ≠ host0000) (h3 : k ≠ hostV6Any) :
    (mapKey h == k) = (h == k) := by
  unfold mapKey
  by_cases ha : h = host0000 ∨ h = hostV6Any
  · simp only [ha, if_true]
    have e1 : ¬ ([] : Bytes) = k := fun e => h1 e.symm
    rcases ha with ha | ha
    · rw [ha]
      have e2 : ¬ host0000 = k := fun e => h2 e.symm
      rw [beq_eq_false_iff_ne.mpr e1, beq_eq_false_iff_ne.mpr e2]
    · rw [ha]
      have e2 : ¬ hostV6Any = k := fun e => h3 e.symm
      rw [beq_eq_false_iff_ne.mpr e1, beq_eq_false_iff_ne.mpr e2]
  · simp only [ha, if_false]

open Casket.VHost in
/-- host patterns declared for routing = SNI keys declared for TLS, on non-alias names -/
theorem declared_eq_keyDeclared {sites : List Site} {cfgs : List Cfg}
    (hh : cfgs.map (·.hostname) = sites.map (fun s => (keyOf s).1))
    {k : Bytes} (h1 : k ≠ []) (h2 : k ≠ host0000) (h3 : k ≠ hostV6Any) :
    Casket.VHostSpec.declared (Casket.VHostSpec.entries sites) k = keyDeclared cfgs k := by
  unfold Casket.VHostSpec.declared Casket.VHostSpec.entries keyDeclared
  rw [entriesFrom_any sites 0 (fun a _ => a == k)]
  have e1 : cfgs.any (fun c => mapKey c.hostname == k) = (cfgs.map (·.hostname)).any (fun h => mapKey h == k) := by
    rw [List.any_map]; rfl
  have e2 : sites.any (fun s => (keyOf s).1 == k) = (sites.map (fun s => (keyOf s).1)).any (fun h => h == k) := by
    rw [List.any_map]; rfl
  rw [e1, e2, hh]
  congr 1
  funext h
  exact (mapKey_beq h1 h2 h3).symm

theorem conflicting_pair {aesni : Bool} {cfgs : List Cfg} (hc : conflicting aesni cfgs = false)
    {i j : Nat} {c d : Cfg} (hij : i < j) (hi : cfgs[i]? = some c) (hj : cfgs[j]? = some d)
    (hk : mapKey d.hostname = mapKey c.hostname) : sameSettings aesni c d = true := by
  induction cfgs generalizing i j with
  | nil => simp at hi
  | cons x rest ih =>
    simp only [conflicting, Bool.or_eq_false_iff, List.any_eq_false, Bool.and_eq_true, beq_iff_eq,
      Bool.not_eq_true', not_and, Bool.not_eq_false] at hc
    cases i with
    | zero =>
      simp only [List.getElem?_cons_zero, Option.some.injEq] at hi
      subst hi
      cases j with
      | zero => omega
      | succ j' =>
        simp only [List.getElem?_cons_succ] at hj
        have hmem : d ∈ rest := List.mem_of_getElem? hj
        exact hc.1 d hmem hk
    | succ i' =>
      cases j with
      | zero => omega
      | succ j' =>
        simp only [List.getElem?_cons_succ] at hi hj
        exact ih hc.2 (by omega) hi hj

theorem sameSettings_clientAuth {aesni : Bool} {c d : Cfg} (h : sameSettings aesni c d = true) :
    c.clientAuth = d.clientAuth ∧ (c.clientAuth ≠ 0 → c.clientCerts = d.clientCerts) := by
  unfold sameSettings at h
  simp only [Bool.and_eq_true, beq_iff_eq, Bool.or_eq_true] at h
  have : c.clientAuth = d.clientAuth := congrArg Built.clientAuth h.1
  refine ⟨this, fun hne => ?_⟩
  rcases h.2 with h0 | h0
  · exact absurd h0 hne
  · exact h0

/-- same SNI key in a consistent set ⇒ same client-certificate policy -/
theorem sameKey_sameClientAuth {aesni : Bool} {cfgs : List Cfg} (hc : conflicting aesni cfgs = false)
    {i j : Nat} {c d : Cfg} (hi : cfgs[i]? = some c) (hj : cfgs[j]? = some d)
    (hk : mapKey d.hostname = mapKey c.hostname) (hauth : c.clientAuth ≠ 0) : sameClientAuth c d = true := by
  unfold sameClientAuth
  simp only [Bool.and_eq_true, beq_iff_eq]
  rcases Nat.lt_trichotomy i j with hlt | heq | hgt
  · obtain ⟨h1, h2⟩ := sameSettings_clientAuth (conflicting_pair hc hlt hi hj hk)
    exact ⟨h1, h2 hauth⟩
  · subst heq; rw [hi] at hj; cases hj; exact ⟨rfl, rfl⟩
  · obtain ⟨h1, h2⟩ := sameSettings_clientAuth (conflicting_pair hc hgt hj hi hk.symm)
    exact ⟨h1.symm, (h2 (by rw [h1]; exact hauth)).symm⟩


theorem mapKey_of_not_alias {k : Bytes} (h2 : k ≠ host0000) (h3 : k ≠ hostV6Any) : mapKey k = k := by
  unfold mapKey
  simp [h2, h3]

open Casket.VHost Casket.VHostSpec in
/-- If the request for `name` is served by site `i` whose host pattern is found directly by name
or is one of the three catch-all hosts, then the TLS lookup for `name` lands on a config stored
under the same SNI key as site `i`'s. -/
theorem wanted_of_route {sites : List Site} {cfgs : List Cfg} {name path : Bytes} {i : Nat} {p : Bytes}
    (hh : cfgs.map (·.hostname) = sites.map (fun s => (keyOf s).1))
    (hspec : specRoute sites ⟨name, path, 1⟩ = .site i p)
    (hname : normalizedName name = normHost name) (hna : mapKey (normHost name) ≠ [])
    (hdirect : ∀ c k, chosenKey sites ⟨name, path, 1⟩ = some (c, k) →
      c ∈ hostCands (normHost name) ∨ mapKey c = []) :
    ∃ c j d, cfgs[i]? = some c ∧ wanted cfgs name none = some j ∧ cfgs[j]? = some d ∧
      mapKey d.hostname = mapKey c.hostname := by
  obtain ⟨e, he, hidx, _, hck⟩ := spec_site_key sites _ i p hspec
  obtain ⟨_, s, hs, hhost⟩ := entriesFrom_index he
  simp only [Nat.sub_zero, hidx] at hs
  -- the config of site i
  have hci : ∃ c, cfgs[i]? = some c ∧ c.hostname = e.host := by
    have h1 : (cfgs.map (·.hostname))[i]? = some e.host := by
      rw [hh, List.getElem?_map, hs]; simp [hhost]
    rw [List.getElem?_map] at h1
    cases hc : cfgs[i]? with
    | none => rw [hc] at h1; simp at h1
    | some c => rw [hc] at h1; exact ⟨c, rfl, by simpa using h1⟩
  obtain ⟨c, hc, hchost⟩ := hci
  have hcmem : c ∈ cfgs := List.mem_of_getElem? hc
  -- the routing lookup
  have hfind : List.find? (declared (entries sites)) (candidates (normHost name) (fallbacks sites)) = some e.host := by
    unfold chosenKey at hck
    simp only [] at hck
    cases hf : List.find? (declared (entries sites)) (candidates (normHost name) (fallbacks sites)) with
    | none => rw [hf] at hck; cases hck
    | some c0 =>
      rw [hf] at hck
      simp only [] at hck
      cases hk : List.find? (fun k => (entries sites).any (fun e => e.host == c0 && e.path == k)) (prefixesDesc path) with
      | none => rw [hk] at hck; cases hck
      | some k0 =>
        rw [hk] at hck
        simp only [Option.map_some, Option.some.injEq, Prod.mk.injEq] at hck
        rw [hck.1]
  have hdecl : declared (entries sites) e.host = true := List.find?_some hfind
  have hsplit : candidates (normHost name) (fallbacks sites)
      = hostCands (normHost name) ++ (fallbacks sites).flatMap hostCands := by
    simp [candidates, List.flatMap_cons]
  rw [hsplit, List.find?_append] at hfind
  have hcongr : List.find? (declared (entries sites)) (hostCands (normHost name))
      = List.find? (keyDeclared cfgs) (hostCands (normHost name)) := by
    apply find?_congr'
    intro k hk
    obtain ⟨h1, h2, h3⟩ := hostCands_not_alias hna hk
    exact declared_eq_keyDeclared hh h1 h2 h3
  have hw : wanted cfgs name none = (specKey cfgs (normHost name)).bind (fun k => lastIdx cfgs k 0) := by
    unfold wanted
    simp [hname]
  have finish : ∀ k, specKey cfgs (normHost name) = some k → keyDeclared cfgs k = true → mapKey c.hostname = k →
      ∃ c j d, cfgs[i]? = some c ∧ wanted cfgs name none = some j ∧ cfgs[j]? = some d ∧
        mapKey d.hostname = mapKey c.hostname := by
    intro k hsk hkd hck'
    have hsome : (lastIdx cfgs k 0).isSome = true := by rw [lastIdx_isSome]; exact hkd
    obtain ⟨j, hj⟩ := Option.isSome_iff_exists.mp hsome
    obtain ⟨_, d, hd, hdk⟩ := lastIdx_spec hj
    simp only [Nat.sub_zero] at hd
    exact ⟨c, j, d, hc, by rw [hw, hsk]; simpa using hj, hd, by rw [hdk, hck']⟩
  rcases hdirect _ _ hck with hmem | halias
  · -- found directly by name
    obtain ⟨h1, h2, h3⟩ := hostCands_not_alias hna hmem
    have hfirst : List.find? (declared (entries sites)) (hostCands (normHost name)) = some e.host := by
      cases hr : List.find? (declared (entries sites)) (hostCands (normHost name)) with
      | some c' => rw [hr] at hfind; simpa using hfind
      | none =>
        have := List.find?_eq_none.mp hr e.host hmem
        rw [hdecl] at this; simp at this
    rw [hcongr] at hfirst
    have hsk : specKey cfgs (normHost name) = some e.host := by
      unfold specKey; rw [List.find?_append, hfirst]; rfl
    exact finish e.host hsk (List.find?_some hfirst) (by rw [hchost]; exact mapKey_of_not_alias h2 h3)
  · -- one of the catch-all hosts
    by_cases hmem : e.host ∈ hostCands (normHost name)
    · obtain ⟨h1, h2, h3⟩ := hostCands_not_alias hna hmem
      rw [mapKey_of_not_alias h2 h3] at halias
      exact absurd halias h1
    · have hnone : List.find? (declared (entries sites)) (hostCands (normHost name)) = none := by
        cases hr : List.find? (declared (entries sites)) (hostCands (normHost name)) with
        | none => rfl
        | some c' =>
          rw [hr] at hfind
          have hce : c' = e.host := by simpa using hfind
          rw [hce] at hr
          exact absurd (List.mem_of_find?_eq_some hr) hmem
      rw [hcongr] at hnone
      have hkd : keyDeclared cfgs [] = true := by
        unfold keyDeclared
        rw [List.any_eq_true]
        exact ⟨c, hcmem, by rw [hchost, halias]; rfl⟩
      have hsk : specKey cfgs (normHost name) = some [] := by
        unfold specKey
        rw [List.find?_append, hnone]
        simp [List.find?, hkd]
      exact finish [] hsk hkd (by rw [hchost]; exact halias)

/-! ### one connection against a listener written as a Casketfile (`c06.loaded`) -/

theorem connectSH_fst (aesni : Bool) (sites : List Casket.VHost.Site) (cfgs : List Cfg) (sni host path : Bytes) :
    (connectSH aesni sites cfgs sni host path).1 = pipeline aesni cfgs sni none := by
  unfold connectSH
  cases hp : pipeline aesni cfgs sni none <;> rfl

/-- what the listener keeps of a site: how the routing trie files its address (host in lower case without port,
path), the fallback flag and the host pattern -/
def siteMeaning (s : Casket.VHost.Site) : (Bytes × Bytes) × Bool × Bytes :=
  (Casket.VHost.splitHostPath (Casket.VHost.vhostOf s.key), s.fallback, s.addrHost)

theorem insertAll_congr (s1 s2 : List Casket.VHost.Site) (h : s1.map siteMeaning = s2.map siteMeaning) :
    ∀ (t : Casket.VHost.Trie) (i : Nat), Casket.VHost.insertAll t s1 i = Casket.VHost.insertAll t s2 i := by
  induction s1 generalizing s2 with
  | nil =>
    cases s2 with
    | nil => intro t i; rfl
    | cons b r => simp at h
  | cons a r ih =>
    cases s2 with
    | nil => simp at h
    | cons b r2 =>
      simp only [List.map_cons, List.cons.injEq] at h
      intro t i
      have hk : Casket.VHost.splitHostPath (Casket.VHost.vhostOf a.key) = Casket.VHost.splitHostPath (Casket.VHost.vhostOf b.key) :=
        congrArg Prod.fst h.1
      have : t.insert (Casket.VHost.vhostOf a.key) i = t.insert (Casket.VHost.vhostOf b.key) i := by
        unfold Casket.VHost.Trie.insert
        rw [hk]
      unfold Casket.VHost.insertAll
      rw [this]
      exact ih r2 h.2 _ _

theorem fallbacks_congr (s1 s2 : List Casket.VHost.Site) (h : s1.map siteMeaning = s2.map siteMeaning) :
    (s1.filter (·.fallback)).map (·.addrHost) = (s2.filter (·.fallback)).map (·.addrHost) := by
  induction s1 generalizing s2 with
  | nil =>
    cases s2 with
    | nil => rfl
    | cons b r => simp at h
  | cons a r ih =>
    cases s2 with
    | nil => simp at h
    | cons b r2 =>
      simp only [List.map_cons, List.cons.injEq] at h
      have hf : a.fallback = b.fallback := congrArg (fun x => x.2.1) h.1
      have ha : a.addrHost = b.addrHost := congrArg (fun x => x.2.2) h.1
      have := ih r2 h.2
      by_cases hb : b.fallback = true
      · simp [List.filter, hf, hb, ha, this]
      · simp [List.filter, hf, hb, this]

end Casket.TLSGroup
