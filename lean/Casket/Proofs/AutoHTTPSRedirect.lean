import Casket.Proofs.AutoHTTPS
/-
Helper lemmas for Props/C15.lean, part: the redirect handler (net/url escaping round trip, Location shape).  Core Lean only.
-/
set_option linter.unusedSimpArgs false
namespace Casket.AutoHTTPS
open Casket.Generated Casket.AutoHTTPSSpec

/-! ## the redirect handler -/

theorem hexEsc_append (a b : Bytes) : hexEscapeNonASCII (a ++ b) = hexEscapeNonASCII a ++ hexEscapeNonASCII b := by
  simp [hexEscapeNonASCII, List.flatMap_append]

theorem hexEsc_ascii (s : Bytes) (h : ∀ c ∈ s, c < 0x80) : hexEscapeNonASCII s = s := by
  induction s with
  | nil => rfl
  | cons a t ih =>
    have ha : ¬ a ≥ 0x80 := by have := h a (by simp); exact UInt8.not_le.mpr this
    have := ih (fun c hc => h c (by simp [hc]))
    simp only [hexEscapeNonASCII, List.flatMap_cons] at this ⊢
    simp [ha, this]

set_option maxRecDepth 100000 in
theorem noEscape_facts (c : UInt8) (h : shouldEscapePath c = false) : c < 0x80 ∧ c ≠ 63 ∧ c ≠ 37 := by
  have := forall_uint8 (fun c => shouldEscapePath c || (decide (c < 0x80) && c != 63 && c != 37)) (by decide) c
  simp [h] at this
  exact ⟨this.1.1, this.1.2, this.2⟩

set_option maxRecDepth 100000 in
theorem escape_triplet (c : UInt8) :
    isHexDigit (hexDigitUpper (c.toNat / 16)) = true ∧ isHexDigit (hexDigitUpper (c.toNat % 16)) = true ∧
    UInt8.ofNat (hexVal (hexDigitUpper (c.toNat / 16)) * 16 + hexVal (hexDigitUpper (c.toNat % 16))) = c ∧
    hexDigitUpper (c.toNat / 16) < 0x80 ∧ hexDigitUpper (c.toNat % 16) < 0x80 ∧
    hexDigitUpper (c.toNat / 16) ≠ 63 ∧ hexDigitUpper (c.toNat % 16) ≠ 63 := by
  have := forall_uint8 (fun c => isHexDigit (hexDigitUpper (c.toNat / 16)) && isHexDigit (hexDigitUpper (c.toNat % 16)) &&
    (UInt8.ofNat (hexVal (hexDigitUpper (c.toNat / 16)) * 16 + hexVal (hexDigitUpper (c.toNat % 16))) == c) &&
    decide (hexDigitUpper (c.toNat / 16) < 0x80) && decide (hexDigitUpper (c.toNat % 16) < 0x80) &&
    (hexDigitUpper (c.toNat / 16) != 63) && (hexDigitUpper (c.toNat % 16) != 63)) (by decide) c
  simp only [Bool.and_eq_true, beq_iff_eq, decide_eq_true_eq, bne_iff_ne, ne_eq] at this
  obtain ⟨⟨⟨⟨⟨⟨h1, h2⟩, h3⟩, h4⟩, h5⟩, h6⟩, h7⟩ := this
  exact ⟨h1, h2, h3, h4, h5, h6, h7⟩

theorem unescapePath_cons_ne (c : UInt8) (t : Bytes) (h : c ≠ 37) : unescapePath (c :: t) = (unescapePath t).map (c :: ·) := by
  conv => lhs; unfold unescapePath
  split
  · next heq => cases heq
  · next heq => simp at heq; exact absurd heq.1 h
  · next heq => simp at heq; exact absurd heq.1 h
  · next heq => simp at heq; obtain ⟨rfl, rfl⟩ := heq; rfl

/-- %-decoding the default encoding of a path gives the path back -/
theorem unescape_escape (p : Bytes) : unescapePath (escapePath p) = some p := by
  induction p with
  | nil => rfl
  | cons c t ih =>
    have : escapePath (c :: t) = (if shouldEscapePath c then [37, hexDigitUpper (c.toNat / 16), hexDigitUpper (c.toNat % 16)] else [c]) ++ escapePath t := by
      simp [escapePath, List.flatMap_cons]
    rw [this]
    by_cases hc : shouldEscapePath c = true
    · simp only [hc, if_true]
      obtain ⟨h1, h2, h3, _⟩ := escape_triplet c
      show unescapePath (37 :: hexDigitUpper (c.toNat / 16) :: hexDigitUpper (c.toNat % 16) :: escapePath t) = some (c :: t)
      conv => lhs; unfold unescapePath
      simp only [h1, h2, Bool.and_self, if_true, h3, ih, Option.map_some]
    · have hc' : shouldEscapePath c = false := by simpa using hc
      simp only [hc', Bool.false_eq_true, if_false]
      show unescapePath (c :: escapePath t) = some (c :: t)
      rw [unescapePath_cons_ne c _ (noEscape_facts c hc').2.2, ih]
      rfl

theorem escapePath_bytes (p : Bytes) : ∀ c ∈ escapePath p, c < 0x80 ∧ c ≠ 63 := by
  induction p with
  | nil => intro c hc; cases hc
  | cons a t ih =>
    intro c hc
    have : escapePath (a :: t) = (if shouldEscapePath a then [37, hexDigitUpper (a.toNat / 16), hexDigitUpper (a.toNat % 16)] else [a]) ++ escapePath t := by
      simp [escapePath, List.flatMap_cons]
    rw [this] at hc
    rcases List.mem_append.mp hc with hc | hc
    · by_cases ha : shouldEscapePath a = true
      · simp only [ha, if_true] at hc
        obtain ⟨_, _, _, h4, h5, h6, h7⟩ := escape_triplet a
        simp at hc
        rcases hc with rfl | rfl | rfl
        · decide
        · exact ⟨h4, h6⟩
        · exact ⟨h5, h7⟩
      · have ha' : shouldEscapePath a = false := by simpa using ha
        simp only [ha', Bool.false_eq_true, if_false] at hc
        simp at hc; subst hc
        exact ⟨(noEscape_facts c ha').1, (noEscape_facts c ha').2.1⟩
    · exact ih c hc

theorem bracket_decompose (hdr : Bytes) (hp : hasPrefix hdr b!"[" = true) (hs : hasSuffix hdr b!"]" = true)
    (hne : (hdr.drop 1).dropLast ≠ []) : hdr = b!"[" ++ (hdr.drop 1).dropLast ++ b!"]" := by
  unfold hasPrefix at hp
  unfold hasSuffix at hs
  rw [List.isPrefixOf_iff_prefix] at hp
  rw [List.isSuffixOf_iff_suffix] at hs
  obtain ⟨t, rfl⟩ := hp
  obtain ⟨pre, hpre⟩ := hs
  simp only [List.cons_append, List.nil_append, List.drop_succ_cons, List.drop_zero] at hne ⊢
  have htne : t ≠ [] := by intro h; subst h; simp at hne
  have hlast : t.getLast? = some 93 := by
    have h1 := congrArg List.getLast? hpre
    simp only [List.getLast?_append, List.getLast?_singleton, Option.or_some] at h1
    cases ht : t.getLast? with
    | none => rw [List.getLast?_eq_none_iff] at ht; exact absurd ht htne
    | some x => rw [ht] at h1; simp at h1; rw [h1]
  obtain ⟨ys, hys⟩ := List.getLast?_eq_some_iff.mp hlast
  rw [hys]
  simp

theorem joinHostPort_eq (h rp : Bytes) :
    joinHostPort h rp = (if hasByte h 58 then b!"[" ++ h ++ b!"]" else h) ++ b!":" ++ rp := by
  unfold joinHostPort
  by_cases h58 : hasByte h 58 = true <;> simp [h58]

/-- For a Host header in scope the model's host[:port] is the specification's: the header's host (IPv6 literal in
brackets), then ":port" if a port was captured. -/
theorem redirHostPort_eq (rp hdr : Bytes) (hsc : hostHeaderInScope hdr = true) :
    redirHostPort rp hdr = hostOnly hdr ++ (if rp.isEmpty then [] else b!":" ++ rp) := by
  unfold hostHeaderInScope at hsc
  unfold redirHostPort hostOnly
  cases hsp : splitHostPort hdr with
  | some hp =>
    obtain ⟨h, p⟩ := hp
    simp only [hsp]
    by_cases hrp : rp.isEmpty = true
    · by_cases h58 : hasByte h 58 = true <;> simp [hrp, h58]
    · simp only [hrp, Bool.not_false, if_true, Bool.false_eq_true, if_false]
      rw [joinHostPort_eq]; simp
  | none =>
    simp only [hsp] at hsc ⊢
    by_cases hpre : hasPrefix hdr b!"[" = true
    · simp only [hpre, if_true, Bool.and_eq_true, Bool.not_eq_true'] at hsc
      obtain ⟨_, ⟨⟨hsuf, h58⟩, _⟩, _⟩ := hsc
      have hne : (hdr.drop 1).dropLast ≠ [] := by intro h; rw [h] at h58; simp [hasByte] at h58
      have hd := bracket_decompose hdr hpre hsuf hne
      by_cases hrp : rp.isEmpty = true
      · simp only [hpre, hsuf, Bool.and_self, if_true, hrp, Bool.not_true, Bool.false_eq_true, if_false, h58, List.append_nil]
        exact hd.symm
      · simp only [hpre, hsuf, Bool.and_self, if_true, hrp, Bool.not_false, Bool.false_eq_true, if_false]
        rw [joinHostPort_eq]; simp only [h58, if_true]
        conv => rhs; rw [hd]
        simp
    · have hpre' : hasPrefix hdr b!"[" = false := by simpa using hpre
      simp only [hpre', Bool.false_eq_true, if_false, Bool.and_eq_true, Bool.not_eq_true'] at hsc
      obtain ⟨_, ⟨h58, _⟩, _⟩ := hsc
      by_cases hrp : rp.isEmpty = true
      · simp [hrp, h58, hpre']
      · simp only [hpre', Bool.false_and, Bool.false_eq_true, if_false, hrp, Bool.not_false, if_true]
        rw [joinHostPort_eq]; simp [h58]

theorem indexByte_none (s : Bytes) (c : UInt8) (h : indexByte s c = none) : c ∉ s := by
  unfold indexByte at h
  rw [List.findIdx?_eq_none_iff] at h
  intro hc
  have := h c hc
  simp at this

theorem cutByte_of_not_mem (a : Bytes) (c : UInt8) (h : c ∉ a) : cutByte a c = (a, [], false) := by
  unfold cutByte
  have : indexByte a c = none := by
    unfold indexByte
    rw [List.findIdx?_eq_none_iff]
    intro x hx; simp; intro hxc; subst hxc; exact h hx
  rw [this]

theorem cutByte_append (a b : Bytes) (c : UInt8) (h : c ∉ a) : cutByte (a ++ c :: b) c = (a, b, true) := by
  unfold cutByte
  have : indexByte (a ++ c :: b) c = some a.length := by
    unfold indexByte
    rw [List.findIdx?_eq_some_iff_getElem]
    refine ⟨by simp, by simp, ?_⟩
    intro j hj
    have : (a ++ c :: b)[j]'(by simp; omega) = a[j] := by rw [List.getElem_append_left hj]
    rw [this]
    have hm : a[j] ∈ a := List.getElem_mem hj
    intro hh; simp at hh; rw [hh] at hm; exact h hm
  rw [this]
  simp

/-- cutting at the first `c`: s = before ++ c :: after, or c does not occur -/
theorem cutByte_spec (s : Bytes) (c : UInt8) :
    (c ∉ (cutByte s c).1) ∧ (((cutByte s c).2.2 = true ∧ s = (cutByte s c).1 ++ c :: (cutByte s c).2.1) ∨
      ((cutByte s c).2.2 = false ∧ (cutByte s c).2.1 = [] ∧ s = (cutByte s c).1)) := by
  unfold cutByte
  cases hi : indexByte s c with
  | none => exact ⟨indexByte_none s c hi, Or.inr ⟨rfl, rfl, rfl⟩⟩
  | some i =>
    unfold indexByte at hi
    rw [List.findIdx?_eq_some_iff_getElem] at hi
    obtain ⟨hlt, hci, hbefore⟩ := hi
    have hci' : s[i] = c := by simpa using hci
    simp only
    refine ⟨?_, Or.inl ⟨trivial, ?_⟩⟩
    · intro hm
      obtain ⟨j, hj, hje⟩ := List.getElem_of_mem hm
      have hjl : j < i := by simp at hj; omega
      have := hbefore j hjl
      rw [List.getElem_take] at hje
      simp [hje] at this
    · have := List.take_append_drop i s
      conv => lhs; rw [← this]
      congr 1
      rw [List.drop_eq_getElem_cons hlt, hci']

set_option maxRecDepth 100000 in
theorem validEncoded_ascii (c : UInt8) (h : ((b!"!$&'()*+,;=:@[]%").contains c || !shouldEscapePath c) = true) : c < 0x80 := by
  have := forall_uint8 (fun c => !((b!"!$&'()*+,;=:@[]%").contains c || !shouldEscapePath c) || decide (c < 0x80)) (by decide) c
  simp only [h, Bool.not_true, Bool.false_or, decide_eq_true_eq] at this
  exact this

/-- what `requestURI` returns for an origin-form target: the decoded-equal path, then the query as written -/
theorem requestURI_ok (target uri : Bytes) (hstar : target ≠ b!"*") (hu : requestURI target = .ok uri) :
    ∃ escaped, uri = escaped ++ (if (cutByte target 63).2.2 then b!"?" ++ (cutByte target 63).2.1 else []) ∧
      (∀ c ∈ escaped, c < 0x80 ∧ c ≠ 63) ∧
      (unescapePath (cutByte target 63).1).isSome = true ∧ unescapePath escaped = unescapePath (cutByte target 63).1 := by
  unfold requestURI at hu
  have h1 : (target == b!"*") = false := by simpa using hstar
  simp only [h1, Bool.false_eq_true, if_false] at hu
  by_cases h2 : (!hasPrefix target b!"/") = true
  · simp [h2] at hu
  · simp only [h2, Bool.false_eq_true, if_false] at hu
    by_cases h3 : hasCTL target = true
    · simp [h3] at hu
    · simp only [h3, Bool.false_eq_true, if_false] at hu
      obtain ⟨hno, _⟩ := cutByte_spec target 63
      generalize cutByte target 63 = cut at hu hno ⊢
      obtain ⟨rest, query, hasQ⟩ := cut
      simp only at hu hno ⊢
      cases hp : unescapePath rest with
      | none => simp [hp] at hu
      | some path =>
        simp only [hp, ReqURI.ok.injEq] at hu
        by_cases he : (escapePath path == rest) = true
        · simp only [he, if_true] at hu
          refine ⟨escapePath path, by rw [← hu]; cases hasQ <;> simp, escapePath_bytes path, rfl, ?_⟩
          rw [unescape_escape]
        · simp only [he, Bool.false_eq_true, if_false] at hu
          by_cases hv : validEncodedPath rest = true
          · simp only [hv, if_true] at hu
            refine ⟨rest, by rw [← hu]; cases hasQ <;> simp, ?_, rfl, hp.symm ▸ hp⟩
            intro c hc
            unfold validEncodedPath at hv
            rw [List.all_eq_true] at hv
            exact ⟨validEncoded_ascii c (hv c hc), fun h => hno (h ▸ hc)⟩
          · simp only [hv, Bool.false_eq_true, if_false] at hu
            refine ⟨escapePath path, by rw [← hu]; cases hasQ <;> simp, escapePath_bytes path, rfl, ?_⟩
            rw [unescape_escape]

theorem sameURI_ok (target uri : Bytes) (hstar : target ≠ b!"*") (hu : requestURI target = .ok uri) :
    sameURI (hexEscapeNonASCII uri) target = true := by
  obtain ⟨escaped, huri, hesc, hsome, hun⟩ := requestURI_ok target uri hstar hu
  obtain ⟨_, hcut⟩ := cutByte_spec target 63
  have hno63 : (63 : UInt8) ∉ escaped := fun h => (hesc 63 h).2 rfl
  have hasc : hexEscapeNonASCII escaped = escaped := hexEsc_ascii escaped (fun c hc => (hesc c hc).1)
  unfold sameURI
  rcases hcut with ⟨hq, _⟩ | ⟨hq, hqe, _⟩
  · rw [hq] at huri
    simp only [if_true] at huri
    have : hexEscapeNonASCII uri = escaped ++ 63 :: hexEscapeNonASCII (cutByte target 63).2.1 := by
      rw [huri, hexEsc_append, hexEsc_append, hasc]
      simp [hexEscapeNonASCII]
    rw [this, cutByte_append _ _ _ hno63]
    simp only [hq, beq_self_eq_true, Bool.true_and, hun, hsome, Bool.and_self]
  · rw [hq] at huri
    simp only [Bool.false_eq_true, if_false, List.append_nil] at huri
    rw [huri, hasc, cutByte_of_not_mem _ _ hno63]
    simp only [hq, hqe, beq_self_eq_true, Bool.true_and, hun, hsome, Bool.and_self]
    rfl

theorem captured_suffix (P : Ports) (port : Bytes) :
    (if (capturedPortP P port).isEmpty then [] else b!":" ++ capturedPortP P port) =
    (if port.isEmpty || port == P.https then [] else b!":" ++ port) := by
  unfold capturedPortP
  by_cases h : (port == P.https) = true
  · simp [h]
  · simp only [h, Bool.false_eq_true, if_false, Bool.or_false]

/-- THE REDIRECT ANSWER: for every captured port, every Host header in scope and every request target net/http can parse
(origin-form or "*"), the handler answers 301 with Location = https://<same host>[:port]<same path and query>. -/
theorem redirect_verdict_ok (P : Ports) (port hdr target uri : Bytes) (hu : requestURI target = .ok uri) :
    redirectVerdict P port hdr target redirStatus (redirLocation (capturedPortP P port) hdr uri) = "ok" := by
  unfold redirectVerdict
  by_cases hsc : hostHeaderInScope hdr = true
  · simp only [hsc, Bool.not_true, Bool.false_eq_true, if_false, redirStatus, bne_self_eq_false]
    unfold redirLocation
    rw [redirHostPort_eq _ _ hsc, captured_suffix]
    generalize hA : (b!"https://" ++ (hostOnly hdr ++ if (port.isEmpty || port == P.https) = true then [] else b!":" ++ port)) = A
    have hA' : b!"https://" ++ hostOnly hdr ++ (if (port.isEmpty || port == P.https) = true then [] else b!":" ++ port) = A := by
      rw [← hA]; simp
    rw [hA', hexEsc_append]
    have hpre : hasPrefix (hexEscapeNonASCII A ++ hexEscapeNonASCII uri) (hexEscapeNonASCII A) = true := by
      unfold hasPrefix; rw [List.isPrefixOf_iff_prefix]; exact List.prefix_append _ _
    simp only [hpre, Bool.not_true, Bool.false_eq_true, if_false, List.drop_left]
    by_cases hstar : target = b!"*"
    · subst hstar
      have : uri = b!"*" := by
        have : requestURI b!"*" = .ok b!"*" := by decide
        rw [this] at hu; exact (ReqURI.ok.inj hu).symm
      subst this
      decide
    · have h1 : (target == b!"*") = false := by simpa using hstar
      simp only [h1, Bool.false_eq_true, if_false, sameURI_ok target uri hstar hu, Bool.not_true]
  · simp [hsc]

theorem digits_ascii (p : Bytes) (h : p.all isDigit = true) : ∀ c ∈ p, c < 0x80 := by
  intro c hc
  rw [List.all_eq_true] at h
  have := h c hc
  unfold isDigit at this
  simp only [Bool.and_eq_true, decide_eq_true_eq] at this
  exact Nat.lt_of_le_of_lt (UInt8.le_iff_toNat_le.mp this.2) (by decide)

/-- the probe of stream c15.sites reads back exactly the port the handler captured -/
theorem probe_roundtrip (rp : Bytes) (hd : rp.all isDigit = true) :
    probeTarget (redirLocation rp probeHost probeURI) = some rp := by
  have hsplit : splitHostPort probeHost = none := by decide
  have hpre : (hasPrefix probeHost b!"[" && hasSuffix probeHost b!"]") = false := by decide
  have h58 : hasByte probeHost 58 = false := by decide
  unfold redirLocation redirHostPort
  simp only [hsplit, hpre, Bool.false_eq_true, if_false, h58]
  by_cases he : rp.isEmpty = true
  · have : rp = [] := by simpa using he
    subst this
    decide
  · have hne : rp ≠ [] := by simpa using he
    simp only [he, Bool.not_false, if_true]
    rw [joinHostPort_eq]
    simp only [h58, Bool.false_eq_true, if_false]
    have hasc : hexEscapeNonASCII (b!"https://" ++ (probeHost ++ b!":" ++ rp) ++ probeURI) = b!"https://probe.test" ++ (58 :: rp ++ probeURI) := by
      rw [hexEsc_ascii]
      · simp [probeHost]
      · intro c hc
        simp only [List.mem_append] at hc
        rcases hc with (hc | (hc | hc) | hc) | hc
        · revert c; decide
        · revert c; decide
        · revert c; decide
        · exact digits_ascii rp hd c hc
        · revert c; decide
    rw [hasc]
    unfold probeTarget
    have hp : hasPrefix (b!"https://probe.test" ++ (58 :: rp ++ probeURI)) b!"https://probe.test" = true := by
      unfold hasPrefix; rw [List.isPrefixOf_iff_prefix]; exact List.prefix_append _ _
    simp only [hp, Bool.not_true, Bool.false_eq_true, if_false, List.drop_left]
    have h1 : ((58 :: rp ++ probeURI) == probeURI) = false := by
      rw [beq_eq_false_iff_ne]; intro h; simp [probeURI] at h
    have h2 : hasPrefix (58 :: rp ++ probeURI) b!":" = true := by simp [hasPrefix, List.isPrefixOf]
    have h3 : hasSuffix (58 :: rp ++ probeURI) probeURI = true := by
      unfold hasSuffix; rw [List.isSuffixOf_iff_suffix]; exact ⟨58 :: rp, by simp⟩
    have h4 : ((58 :: rp ++ probeURI).drop 1).take ((58 :: rp ++ probeURI).length - 1 - probeURI.length) = rp := by
      simp
    simp only [h1, Bool.false_eq_true, if_false, h2, h3, Bool.and_self, if_true, h4, hd, he, Bool.not_false]

end Casket.AutoHTTPS
