import Casket.Model.Parser
/-
Fuel monotonicity of the parser model (C10): a parser function that answered (anything but `timeout`) with
some fuel gives the same answer with any larger fuel.  `Res.le r r'` = "`r` is `timeout` or equals `r'`".
-/
namespace Casket.Parser
open Casket.Lexer Casket.Dispenser

def Res.le {α : Type} (r r' : Res α) : Prop := r = .timeout ∨ r = r'

theorem Res.le_refl {α : Type} (r : Res α) : r.le r := Or.inr rfl

theorem Res.le_timeout {α : Type} (r : Res α) : (Res.timeout : Res α).le r := Or.inl rfl

theorem Res.le_bind {α β : Type} {r r' : Res α} {f f' : α → Res β} (h : r.le r') (hf : ∀ a, (f a).le (f' a)) :
    (r.bind f).le (r'.bind f') := by
  rcases h with h | h
  · subst h; exact Or.inl rfl
  · subst h
    cases r with
    | ok a => exact hf a
    | err c fl l => exact Or.inr rfl
    | panic m => exact Or.inr rfl
    | timeout => exact Or.inl rfl

theorem Res.le_ite {α : Type} {c : Prop} [Decidable c] {a a' b b' : Res α} (h1 : c → a.le a') (h2 : ¬ c → b.le b') :
    (if c then a else b).le (if c then a' else b') := by
  by_cases h : c
  · rw [if_pos h, if_pos h]; exact h1 h
  · rw [if_neg h, if_neg h]; exact h2 h

theorem Res.le_eq {α : Type} {r r' : Res α} (h : r.le r') (hne : r ≠ .timeout) : r' = r := by
  rcases h with h | h
  · exact absurd h hne
  · exact h.symm

theorem directiveLoop_mono (cfg : Cfg) (dir : Bytes) (f f' : Nat) (hff : f ≤ f') (s : PState) (n : Nat) :
    (directiveLoop cfg dir f s n).le (directiveLoop cfg dir f' s n) := by
  induction f generalizing f' s n with
  | zero => exact Or.inl (by unfold directiveLoop; rfl)
  | succ k ih =>
    obtain ⟨k', rfl⟩ : ∃ k', f' = k' + 1 := ⟨f' - 1, by omega⟩
    have hk : k ≤ k' := by omega
    rw [directiveLoop, directiveLoop]
    simp only []
    refine Res.le_ite (fun _ => Res.le_refl _) fun _ => ?_
    refine Res.le_ite (fun _ => Res.le_bind (Res.le_refl _) fun s2 => ih k' hk s2 _) fun _ => ?_
    refine Res.le_ite (fun _ => Res.le_refl _) fun _ => ?_
    refine Res.le_ite (fun _ => Res.le_bind (Res.le_refl _) fun s2 => ih k' hk s2 _) fun _ => ?_
    refine Res.le_ite (fun _ => Res.le_refl _) fun _ => ?_
    refine Res.le_ite (fun _ => Res.le_bind (Res.le_refl _) fun s2 => ih k' hk _ _) fun _ => ?_
    exact Res.le_bind (Res.le_refl _) fun s2 => ih k' hk s2 _

theorem directive_mono (cfg : Cfg) (f f' : Nat) (hff : f ≤ f') (s : PState) :
    (directive cfg f s).le (directive cfg f' s) := by
  unfold directive
  refine Res.le_bind (Res.le_refl _) fun dir => ?_
  refine Res.le_ite (fun _ => Res.le_refl _) fun _ => ?_
  split
  · exact Res.le_refl _
  · exact directiveLoop_mono cfg dir f f' hff _ _

theorem directives_mono (cfg : Cfg) (f f' : Nat) (hff : f ≤ f') (s : PState) :
    (directives cfg f s).le (directives cfg f' s) := by
  induction f generalizing f' s with
  | zero => exact Or.inl (by unfold directives; rfl)
  | succ k ih =>
    obtain ⟨k', rfl⟩ : ∃ k', f' = k' + 1 := ⟨f' - 1, by omega⟩
    have hk : k ≤ k' := by omega
    rw [directives, directives]
    simp only []
    refine Res.le_ite (fun _ => Res.le_refl _) fun _ => ?_
    refine Res.le_ite (fun _ => Res.le_refl _) fun _ => ?_
    refine Res.le_ite (fun _ => Res.le_bind (Res.le_refl _) fun s2 => ih k' hk _) fun _ => ?_
    exact Res.le_bind (directive_mono cfg (k + 1) (k' + 1) hff _) fun s2 => ih k' hk s2

theorem addresses_mono (cfg : Cfg) (f f' : Nat) (hff : f ≤ f') (s : PState) (e : Bool) :
    (addresses cfg f s e).le (addresses cfg f' s e) := by
  induction f generalizing f' s e with
  | zero => exact Or.inl (by unfold addresses; rfl)
  | succ k ih =>
    obtain ⟨k', rfl⟩ : ∃ k', f' = k' + 1 := ⟨f' - 1, by omega⟩
    have hk : k ≤ k' := by omega
    rw [addresses, addresses]
    refine Res.le_bind (Res.le_refl _) fun tkn => ?_
    refine Res.le_ite (fun _ => Res.le_bind (Res.le_refl _) fun s2 => ih k' hk s2 e) fun _ => ?_
    refine Res.le_ite (fun _ => Res.le_refl _) fun _ => ?_
    simp only []
    refine Res.le_ite (fun _ => Res.le_refl _) fun _ => ?_
    refine Res.le_ite (fun _ => Res.le_refl _) fun _ => ?_
    refine Res.le_ite (fun _ => Res.le_refl _) fun _ => ?_
    exact ih k' hk _ _

theorem snippetLoop_mono (f f' : Nat) (hff : f ≤ f') (s : PState) (c : Nat) (acc : List Token) :
    (snippetLoop f s c acc).le (snippetLoop f' s c acc) := by
  induction f generalizing f' s c acc with
  | zero => exact Or.inl (by unfold snippetLoop; rfl)
  | succ k ih =>
    obtain ⟨k', rfl⟩ : ∃ k', f' = k' + 1 := ⟨f' - 1, by omega⟩
    have hk : k ≤ k' := by omega
    rw [snippetLoop, snippetLoop]
    simp only []
    refine Res.le_ite (fun _ => Res.le_refl _) fun _ => ?_
    refine Res.le_ite (fun _ => Res.le_refl _) fun _ => ?_
    split
    · exact Res.le_refl _
    · exact ih k' hk _ _ _

theorem snippetTokens_mono (f f' : Nat) (hff : f ≤ f') (s : PState) :
    (snippetTokens f s).le (snippetTokens f' s) := by
  unfold snippetTokens
  exact Res.le_ite (fun _ => Res.le_refl _) fun _ => snippetLoop_mono f f' hff s 1 []

theorem blockContents_mono (cfg : Cfg) (f f' : Nat) (hff : f ≤ f') (s : PState) :
    (blockContents cfg f s).le (blockContents cfg f' s) := by
  unfold blockContents
  exact Res.le_bind (directives_mono cfg f f' hff _) fun s1 => Res.le_refl _

theorem begin_mono (cfg : Cfg) (f f' : Nat) (hff : f ≤ f') (s : PState) :
    (begin cfg f s).le (begin cfg f' s) := by
  unfold begin
  refine Res.le_ite (fun _ => Res.le_refl _) fun _ => ?_
  refine Res.le_bind (addresses_mono cfg f f' hff s false) fun s1 => ?_
  refine Res.le_ite (fun _ => Res.le_refl _) fun _ => ?_
  split
  · refine Res.le_ite (fun _ => Res.le_refl _) fun _ => ?_
    exact Res.le_bind (snippetTokens_mono f f' hff s1) fun st => Res.le_refl _
  · exact blockContents_mono cfg f f' hff s1

theorem parseAll_mono (cfg : Cfg) (f f' : Nat) (hff : f ≤ f') (s : PState) (bs : List ServerBlock) :
    (parseAll cfg f s bs).le (parseAll cfg f' s bs) := by
  induction f generalizing f' s bs with
  | zero => exact Or.inl (by unfold parseAll; rfl)
  | succ k ih =>
    obtain ⟨k', rfl⟩ : ∃ k', f' = k' + 1 := ⟨f' - 1, by omega⟩
    have hk : k ≤ k' := by omega
    rw [parseAll, parseAll]
    refine Res.le_ite (fun _ => Res.le_refl _) fun _ => ?_
    exact Res.le_bind (begin_mono cfg (k + 1) (k' + 1) hff _) fun s1 => ih k' hk s1 _

/-- `Parse` answers the same with any larger fuel once it answered at all -/
theorem parse_mono (cfg : Cfg) (f f' : Nat) (hff : f ≤ f') (fn : String) (input : Bytes) :
    (parse cfg f fn input).le (parse cfg f' fn input) :=
  parseAll_mono cfg f f' hff _ _

end Casket.Parser
