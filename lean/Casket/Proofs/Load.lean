import Casket.Model.Load
import Casket.Spec.Load
set_option linter.unusedSimpArgs false
/-
Helper lemmas for C08: the cleanup performed on every error path restores the state
the attempt started from; in a state without leaked listeners a configuration that is
valid for the environment loads.
-/
namespace Casket.Load
open Casket.LoadSpec

theorem decr_incr (f : Nat → Nat) (p : Nat) : decr (incr f p) p = f := by
  funext x
  simp only [decr, incr]
  split <;> omega

/-- closing what an attempt opened gives back the descriptor table it started from -/
theorem listenLoop_fail_restores (busy inh : List Nat) (f0 : Nat → Nat) :
    ∀ (ports opened : List Nat) (f : Nat → Nat), closeAll f opened = f0 →
      (listenLoop busy inh f opened ports).1 = false → (listenLoop busy inh f opened ports).2 = f0 := by
  intro ports
  induction ports with
  | nil => intro opened f _ h; simp [listenLoop] at h
  | cons p rest ih =>
    intro opened f hc h
    unfold listenLoop at h ⊢
    have hstep : closeAll (incr f p) (p :: opened) = f0 := by simp [closeAll, decr_incr, hc]
    split
    · rename_i hi
      simp only [hi, if_true] at h
      exact ih _ _ hstep h
    · rename_i hi
      simp only [hi, if_false] at h
      split
      · exact hc
      · rename_i hb
        simp only [hb, if_false] at h
        exact ih _ _ hstep h

theorem setup_fail_hooks {c : Cfg} {hooks : Nat} {jv : Bool} (h : (setup c hooks jv).1 = false) :
    (setup c hooks jv).2 = hooks := by
  unfold setup at h ⊢
  cases hf : c.fail <;> cases jv <;> simp_all

theorem setup_ok_hooks {c : Cfg} {hooks : Nat} {jv : Bool} (h : (setup c hooks jv).1 = true) :
    (setup c hooks jv).2 = hooks + c.hooks := by
  unfold setup at h ⊢
  cases hf : c.fail <;> cases jv <;> simp_all

theorem pstate_eta (s : PState) : ({ s with fds := s.fds, hooks := s.hooks } : PState) = s := by
  cases s; rfl

theorem start_err_identity {busy : List Nat} {s : PState} {c : Cfg} (h : (start busy s c).2 = .err) :
    (start busy s c).1 = s := by
  unfold start at h ⊢
  by_cases h1 : (setup c s.hooks false).1 = true
  · by_cases h2 : (listenLoop busy [] s.fds [] c.ports).1 = true
    · simp [h1, h2] at h
    · have h2' : (listenLoop busy [] s.fds [] c.ports).1 = false := by simpa using h2
      have hf := listenLoop_fail_restores busy [] s.fds c.ports [] s.fds rfl h2'
      simp only [h1, h2', hf, setup_ok_hooks h1, Nat.add_sub_cancel]
      simp [pstate_eta s]
  · have h1' : (setup c s.hooks false).1 = false := by simpa using h1
    simp only [h1', setup_fail_hooks h1']
    cases s; rfl

theorem reload_err_identity {busy : List Nat} {s : PState} {c : Cfg} (h : (reload busy s c).2 = .err) :
    (reload busy s c).1 = s := by
  unfold reload at h ⊢
  by_cases h1 : (setup c 0 false).1 = true
  · by_cases h2 : (listenLoop busy (s.sites.map (·.port)) s.fds [] c.ports).1 = true
    · simp [h1, h2] at h
    · have h2' : (listenLoop busy (s.sites.map (·.port)) s.fds [] c.ports).1 = false := by simpa using h2
      have hf := listenLoop_fail_restores busy (s.sites.map (·.port)) s.fds c.ports [] s.fds rfl h2'
      simp only [h1, h2', hf]
      simp [pstate_eta s]
  · have h1' : (setup c 0 false).1 = false := by simpa using h1
    simp only [h1']
    cases s; rfl

/-- a failed direct `Instance.Restart` — no handler restores anything: the cleanup of the error paths alone — is the
identity, whatever number of hooks the configuration registered next to the ones that were there -/
theorem restart_err_identity {busy : List Nat} {s : PState} {c : Cfg} (h : (restart busy s c).2 = .err) :
    (restart busy s c).1 = s := by
  unfold restart at h ⊢
  by_cases h1 : (setup c s.hooks false).1 = true
  · by_cases h2 : (listenLoop busy (s.sites.map (·.port)) s.fds [] c.ports).1 = true
    · simp [h1, h2] at h
    · have h2' : (listenLoop busy (s.sites.map (·.port)) s.fds [] c.ports).1 = false := by simpa using h2
      have hf := listenLoop_fail_restores busy (s.sites.map (·.port)) s.fds c.ports [] s.fds rfl h2'
      simp only [h1, h2', hf, setup_ok_hooks h1, Nat.add_sub_cancel]
      simp [pstate_eta s]
  · have h1' : (setup c s.hooks false).1 = false := by simpa using h1
    simp only [h1', setup_fail_hooks h1']
    cases s; rfl

/-- the SIGUSR1 handler is: purge the registry, `Restart`, put the old registry back if that failed -/
theorem reload_eq_restart (busy : List Nat) (s : PState) (c : Cfg) :
    reload busy s c =
      (if (restart busy { s with hooks := 0 } c).2 = .err
        then ({ (restart busy { s with hooks := 0 } c).1 with hooks := s.hooks }, .err)
        else restart busy { s with hooks := 0 } c) := by
  unfold reload restart
  by_cases h1 : (setup c 0 false).1 = true
  · by_cases h2 : (listenLoop busy (s.sites.map (·.port)) s.fds [] c.ports).1 = true
    · simp [h1, h2]
    · have h2' : (listenLoop busy (s.sites.map (·.port)) s.fds [] c.ports).1 = false := by simpa using h2
      simp [h1, h2']
  · have h1' : (setup c 0 false).1 = false := by simpa using h1
    simp [h1']

/-- every failed attempt — load, reload, validation — is the identity on the process state -/
theorem step_err_identity {busy : List Nat} {s : PState} {op : Op} (h : (step busy s op).2 = .err) :
    (step busy s op).1 = s := by
  cases op with
  | load c =>
    cases hr : s.running
    · simp only [step, hr] at h ⊢
      exact start_err_identity h
    · simp only [step, hr, if_true] at h ⊢
      exact reload_err_identity h
  | restart c =>
    cases hr : s.running
    · simp only [step, hr] at h ⊢
      exact start_err_identity h
    · simp only [step, hr, if_true] at h ⊢
      exact restart_err_identity h
  | validate c =>
    simp only [step] at h ⊢
    by_cases h1 : (setup c s.hooks true).1 = true
    · simp [h1] at h
    · have h1' : (setup c s.hooks true).1 = false := by simpa using h1
      rw [setup_fail_hooks h1']
  | stop => simp [step] at h

theorem closeAll_apply : ∀ (l : List Nat) (f : Nat → Nat) (p : Nat), closeAll f l p = f p - l.count p := by
  intro l
  induction l with
  | nil => intro f p; simp [closeAll]
  | cons a rest ih =>
    intro f p
    simp only [closeAll, ih, decr, List.count_cons]
    by_cases h : p = a
    · subst h; simp; omega
    · have h' : ¬ a = p := fun e => h e.symm
      simp [h, h']

theorem listenLoop_ok_apply (busy inh : List Nat) : ∀ (ports opened : List Nat) (f : Nat → Nat),
    (listenLoop busy inh f opened ports).1 = true →
    ∀ p, (listenLoop busy inh f opened ports).2 p = f p + ports.count p := by
  intro ports
  induction ports with
  | nil => intro opened f _ p; simp [listenLoop]
  | cons a rest ih =>
    intro opened f h p
    unfold listenLoop at h ⊢
    have key : ∀ (hh : (listenLoop busy inh (incr f a) (a :: opened) rest).1 = true),
        (listenLoop busy inh (incr f a) (a :: opened) rest).2 p = f p + (a :: rest).count p := by
      intro hh
      rw [ih _ _ hh p]
      simp only [incr, List.count_cons]
      by_cases e : p = a
      · subst e; simp; omega
      · have e' : ¬ a = p := fun x => e x.symm
        simp [e, e']
    split
    · rename_i hi
      simp only [hi, if_true] at h
      exact key h
    · rename_i hi
      simp only [hi, if_false] at h
      split
      · rename_i hb; rw [if_pos hb] at h; simp at h
      · rename_i hb
        rw [if_neg hb] at h
        exact key h

/-- a successful listen loop only listened on ports that were inherited or not in use -/
theorem listenLoop_ok_free (busy inh : List Nat) : ∀ (ports opened : List Nat) (f : Nat → Nat),
    (listenLoop busy inh f opened ports).1 = true →
    ∀ p ∈ ports, inh.contains p = true ∨ busy.contains p = false := by
  intro ports
  induction ports with
  | nil => intro _ _ _ p hp; simp at hp
  | cons a rest ih =>
    intro opened f h p hp
    unfold listenLoop at h
    by_cases hi : inh.contains a = true
    · simp only [hi, if_true] at h
      rcases List.mem_cons.mp hp with rfl | hp'
      · exact Or.inl hi
      · exact ih _ _ h p hp'
    · simp only [hi, if_false] at h
      by_cases hb : (busy.contains a || decide (f a > 0)) = true
      · rw [if_pos hb] at h; simp at h
      · rw [if_neg hb] at h
        rcases List.mem_cons.mp hp with rfl | hp'
        · right
          simp only [Bool.or_eq_true, not_or, Bool.not_eq_true] at hb
          exact hb.1
        · exact ih _ _ h p hp'

/-- the listen loop succeeds when every port is inherited or free (not in use by anybody) and no port occurs twice -/
theorem listenLoop_succeeds (busy inh : List Nat) : ∀ (ports opened : List Nat) (f : Nat → Nat),
    ports.Nodup → (∀ p ∈ ports, inh.contains p = true ∨ (busy.contains p = false ∧ f p = 0)) →
    (listenLoop busy inh f opened ports).1 = true := by
  intro ports
  induction ports with
  | nil => intro _ _ _ _; simp [listenLoop]
  | cons a rest ih =>
    intro opened f hn h
    rw [List.nodup_cons] at hn
    have hrest : ∀ p ∈ rest, inh.contains p = true ∨ (busy.contains p = false ∧ (incr f a) p = 0) := by
      intro p hp
      rcases h p (List.mem_cons_of_mem _ hp) with h1 | h1
      · exact Or.inl h1
      · right
        have : ¬ p = a := fun e => hn.1 (e ▸ hp)
        exact ⟨h1.1, by simp [incr, this, h1.2]⟩
    unfold listenLoop
    by_cases hi : inh.contains a = true
    · simp only [hi, if_true]
      exact ih _ _ hn.2 hrest
    · simp only [hi, if_false]
      rcases h a List.mem_cons_self with h1 | h1
      · exact absurd h1 hi
      · have : ¬ (busy.contains a || decide (f a > 0)) = true := by
          rw [h1.1, h1.2]; simp
        rw [if_neg this]
        exact ih _ _ hn.2 hrest

theorem nodup_count : ∀ {l : List Nat}, l.Nodup → ∀ (p : Nat), l.count p = if p ∈ l then 1 else 0 := by
  intro l
  induction l with
  | nil => intro _ p; simp
  | cons a rest ih =>
    intro h p
    rw [List.nodup_cons] at h
    rw [List.count_cons, ih h.2 p]
    by_cases e : p = a
    · subst e; simp [h.1]
    · have e' : ¬ a = p := fun x => e x.symm
      simp [e, e']


def ports (sites : List Site) : List Nat := sites.map (·.port)

/-- no listener is leaked: the process holds exactly one listening descriptor per port of the running instance -/
structure Clean (busy : List Nat) (s : PState) : Prop where
  fds : ∀ p, s.fds p = if p ∈ ports s.sites then 1 else 0
  nodup : (ports s.sites).Nodup
  notBusy : ∀ p ∈ ports s.sites, busy.contains p = false
  idle : s.running = false → s.sites = []
  /-- nothing has altered the directive table -/
  dirs : s.dirs = 0

theorem clean_init (busy : List Nat) : Clean busy PState.init :=
  ⟨fun _ => by simp [PState.init, ports], by simp [PState.init, ports], by simp [PState.init, ports], fun _ => rfl, rfl⟩

/-- one server per listen address -/
def WF : Op → Prop
  | .load c => c.ports.Nodup
  | .restart c => c.ports.Nodup
  | .validate _ => True
  | .stop => True

theorem start_ok {busy : List Nat} {s : PState} {c : Cfg} (hs : Clean busy s) (hr : s.running = false)
    (h : (start busy s c).2 = .ok) (hw : c.ports.Nodup) :
    (start busy s c).1.running = true ∧ (start busy s c).1.sites = c.sites ∧
    (start busy s c).1.hooks = s.hooks + c.hooks ∧ Clean busy (start busy s c).1 := by
  unfold start at h ⊢
  by_cases h1 : (setup c s.hooks false).1 = true
  · by_cases h2 : (listenLoop busy [] s.fds [] c.ports).1 = true
    · have e : start busy s c = (({ s with running := true, sites := c.sites, fds := (listenLoop busy [] s.fds [] c.ports).2, hooks := (setup c s.hooks false).2 } : PState), Res.ok) := by
        simp [start, h1, h2]
      change (start busy s c).1.running = true ∧ (start busy s c).1.sites = c.sites ∧ (start busy s c).1.hooks = s.hooks + c.hooks ∧ Clean busy (start busy s c).1
      rw [e]
      refine ⟨rfl, rfl, setup_ok_hooks h1, ?_, hw, ?_, fun h => by simp at h, hs.dirs⟩
      · intro p
        show (listenLoop busy [] s.fds [] c.ports).2 p = _
        rw [listenLoop_ok_apply busy [] c.ports [] s.fds h2 p, hs.fds p, hs.idle hr, nodup_count hw p]
        simp [ports, Cfg.ports]
      · intro p hp
        rcases listenLoop_ok_free busy [] c.ports [] s.fds h2 p hp with h3 | h3
        · simp at h3
        · exact h3
    · have h2' : (listenLoop busy [] s.fds [] c.ports).1 = false := by simpa using h2
      simp [h1, h2'] at h
  · have h1' : (setup c s.hooks false).1 = false := by simpa using h1
    simp [h1'] at h

theorem reload_ok {busy : List Nat} {s : PState} {c : Cfg} (hs : Clean busy s)
    (h : (reload busy s c).2 = .ok) (hw : c.ports.Nodup) :
    (reload busy s c).1.running = true ∧ (reload busy s c).1.sites = c.sites ∧
    (reload busy s c).1.hooks = c.hooks ∧ Clean busy (reload busy s c).1 := by
  unfold reload at h ⊢
  by_cases h1 : (setup c 0 false).1 = true
  · by_cases h2 : (listenLoop busy (s.sites.map (·.port)) s.fds [] c.ports).1 = true
    · have e : reload busy s c = (({ s with running := true, sites := c.sites, fds := closeAll (listenLoop busy (s.sites.map (·.port)) s.fds [] c.ports).2 (s.sites.map (·.port)), hooks := (setup c 0 false).2 } : PState), Res.ok) := by
        simp [reload, h1, h2]
      change (reload busy s c).1.running = true ∧ (reload busy s c).1.sites = c.sites ∧ (reload busy s c).1.hooks = c.hooks ∧ Clean busy (reload busy s c).1
      rw [e]
      refine ⟨rfl, rfl, by simpa using setup_ok_hooks h1, ?_, hw, ?_, fun h => by simp at h, hs.dirs⟩
      · intro p
        show closeAll (listenLoop busy (s.sites.map (·.port)) s.fds [] c.ports).2 (s.sites.map (·.port)) p = _
        rw [closeAll_apply, listenLoop_ok_apply busy _ c.ports [] s.fds h2 p, hs.fds p, nodup_count hw p]
        have := nodup_count hs.nodup p
        simp only [ports] at this ⊢
        rw [this]
        simp only [Cfg.ports]
        by_cases hp1 : p ∈ List.map (fun x => x.port) s.sites <;>
          by_cases hp2 : p ∈ List.map (fun x => x.port) c.sites <;> simp [hp1, hp2]
      · intro p hp
        rcases listenLoop_ok_free busy _ c.ports [] s.fds h2 p hp with h3 | h3
        · exact hs.notBusy p (by simpa [ports] using h3)
        · exact h3
    · have h2' : (listenLoop busy (s.sites.map (·.port)) s.fds [] c.ports).1 = false := by simpa using h2
      simp [h1, h2'] at h
  · have h1' : (setup c 0 false).1 = false := by simpa using h1
    simp [h1'] at h

theorem restart_ok {busy : List Nat} {s : PState} {c : Cfg} (hs : Clean busy s)
    (h : (restart busy s c).2 = .ok) (hw : c.ports.Nodup) :
    (restart busy s c).1.running = true ∧ (restart busy s c).1.sites = c.sites ∧
    (restart busy s c).1.hooks = s.hooks + c.hooks ∧ Clean busy (restart busy s c).1 := by
  unfold restart at h ⊢
  by_cases h1 : (setup c s.hooks false).1 = true
  · by_cases h2 : (listenLoop busy (s.sites.map (·.port)) s.fds [] c.ports).1 = true
    · have e : restart busy s c = (({ s with running := true, sites := c.sites, fds := closeAll (listenLoop busy (s.sites.map (·.port)) s.fds [] c.ports).2 (s.sites.map (·.port)), hooks := (setup c s.hooks false).2 } : PState), Res.ok) := by
        simp [restart, h1, h2]
      change (restart busy s c).1.running = true ∧ (restart busy s c).1.sites = c.sites ∧ (restart busy s c).1.hooks = s.hooks + c.hooks ∧ Clean busy (restart busy s c).1
      rw [e]
      refine ⟨rfl, rfl, setup_ok_hooks h1, ?_, hw, ?_, fun h => by simp at h, hs.dirs⟩
      · intro p
        show closeAll (listenLoop busy (s.sites.map (·.port)) s.fds [] c.ports).2 (s.sites.map (·.port)) p = _
        rw [closeAll_apply, listenLoop_ok_apply busy _ c.ports [] s.fds h2 p, hs.fds p, nodup_count hw p]
        have := nodup_count hs.nodup p
        simp only [ports] at this ⊢
        rw [this]
        simp only [Cfg.ports]
        by_cases hp1 : p ∈ List.map (fun x => x.port) s.sites <;>
          by_cases hp2 : p ∈ List.map (fun x => x.port) c.sites <;> simp [hp1, hp2]
      · intro p hp
        rcases listenLoop_ok_free busy _ c.ports [] s.fds h2 p hp with h3 | h3
        · exact hs.notBusy p (by simpa [ports] using h3)
        · exact h3
    · have h2' : (listenLoop busy (s.sites.map (·.port)) s.fds [] c.ports).1 = false := by simpa using h2
      simp [h1, h2'] at h
  · have h1' : (setup c s.hooks false).1 = false := by simpa using h1
    simp [h1'] at h

theorem res_cases (r : Res) : r = .ok ∨ r = .err := by cases r <;> simp

/-- the invariant is kept by every operation -/
theorem clean_step {busy : List Nat} {s : PState} (hs : Clean busy s) (op : Op) (hw : WF op) :
    Clean busy (step busy s op).1 := by
  rcases res_cases (step busy s op).2 with hr | hr
  · cases op with
    | load c =>
      cases hrun : s.running
      · simp only [step, hrun] at hr ⊢
        exact (start_ok hs hrun hr hw).2.2.2
      · simp only [step, hrun, if_true] at hr ⊢
        exact (reload_ok hs hr hw).2.2.2
    | restart c =>
      cases hrun : s.running
      · simp only [step, hrun] at hr ⊢
        exact (start_ok hs hrun hr hw).2.2.2
      · simp only [step, hrun, if_true] at hr ⊢
        exact (restart_ok hs hr hw).2.2.2
    | validate c => exact ⟨hs.fds, hs.nodup, hs.notBusy, hs.idle, hs.dirs⟩
    | stop =>
      refine ⟨?_, by simp [step, ports], by simp [step, ports], fun _ => rfl, hs.dirs⟩
      intro p
      show closeAll s.fds (s.sites.map (·.port)) p = _
      rw [closeAll_apply, hs.fds p]
      have := nodup_count hs.nodup p
      simp only [ports] at this ⊢
      rw [this]
      by_cases hp1 : p ∈ List.map (fun x => x.port) s.sites <;> simp [hp1, step]
  · rw [step_err_identity hr]; exact hs


theorem setup_none {c : Cfg} (h : c.fail = .none) (hooks : Nat) (jv : Bool) : (setup c hooks jv).1 = true := by
  simp [setup, h]

theorem setup_fails {c : Cfg} (h : c.fail ≠ .none) (hooks : Nat) : (setup c hooks false).1 = false := by
  unfold setup
  cases hf : c.fail <;> simp_all

/-- in a state without leaked listeners, a configuration that is valid for the environment loads -/
theorem load_valid_ok {busy : List Nat} {s : PState} {c : Cfg} (hs : Clean busy s) (hw : c.ports.Nodup)
    (hv : validFor busy c = true) : (step busy s (.load c)).2 = .ok := by
  simp only [validFor, Bool.and_eq_true, beq_iff_eq, List.all_eq_true, Bool.not_eq_true'] at hv
  cases hrun : s.running
  · have hl : (listenLoop busy [] s.fds [] c.ports).1 = true := by
      apply listenLoop_succeeds _ _ _ _ _ hw
      intro p hp
      right
      refine ⟨hv.2 p hp, ?_⟩
      rw [hs.fds p, hs.idle hrun]; simp [ports]
    simp [step, hrun, start, setup_none hv.1, hl]
  · have hl : (listenLoop busy (s.sites.map (·.port)) s.fds [] c.ports).1 = true := by
      apply listenLoop_succeeds _ _ _ _ _ hw
      intro p hp
      by_cases hin : p ∈ s.sites.map (·.port)
      · left; simpa using hin
      · right
        refine ⟨hv.2 p hp, ?_⟩
        rw [hs.fds p]; simp only [ports]; simp [hin]
    simp [step, hrun, reload, setup_none hv.1, hl]

/-- … and one that is not valid for the environment is rejected -/
theorem load_invalid_err {busy : List Nat} {s : PState} {c : Cfg} (hs : Clean busy s)
    (hv : validFor busy c = false) : (step busy s (.load c)).2 = .err := by
  rcases res_cases (step busy s (.load c)).2 with hr | hr
  · exfalso
    by_cases hf : c.fail = .none
    · -- some port is in use by another process
      have hb : ∃ p ∈ c.ports, busy.contains p = true := by
        simp only [validFor, hf, beq_self_eq_true, Bool.true_and] at hv
        rw [List.all_eq_false] at hv
        obtain ⟨p, hp, hpb⟩ := hv
        exact ⟨p, hp, by simpa using hpb⟩
      obtain ⟨p, hp, hpb⟩ := hb
      cases hrun : s.running
      · simp only [step, hrun] at hr
        unfold start at hr
        by_cases h2 : (listenLoop busy [] s.fds [] c.ports).1 = true
        · rcases listenLoop_ok_free busy [] c.ports [] s.fds h2 p hp with h3 | h3
          · simp at h3
          · rw [h3] at hpb; exact Bool.noConfusion hpb
        · have h2' : (listenLoop busy [] s.fds [] c.ports).1 = false := by simpa using h2
          simp [setup_none hf, h2'] at hr
      · simp only [step, hrun, if_true] at hr
        unfold reload at hr
        by_cases h2 : (listenLoop busy (s.sites.map (·.port)) s.fds [] c.ports).1 = true
        · rcases listenLoop_ok_free busy _ c.ports [] s.fds h2 p hp with h3 | h3
          · have := hs.notBusy p (by simpa [ports] using h3)
            rw [this] at hpb; exact Bool.noConfusion hpb
          · rw [h3] at hpb; exact Bool.noConfusion hpb
        · have h2' : (listenLoop busy (s.sites.map (·.port)) s.fds [] c.ports).1 = false := by simpa using h2
          simp [setup_none hf, h2'] at hr
    · cases hrun : s.running
      · simp [step, hrun, start, setup_fails hf] at hr
      · simp [step, hrun, reload, setup_fails hf] at hr
  · exact hr

/-- the same two facts for the API-level reload -/
theorem restart_valid_ok {busy : List Nat} {s : PState} {c : Cfg} (hs : Clean busy s) (hw : c.ports.Nodup)
    (hv : validFor busy c = true) : (step busy s (.restart c)).2 = .ok := by
  simp only [validFor, Bool.and_eq_true, beq_iff_eq, List.all_eq_true, Bool.not_eq_true'] at hv
  cases hrun : s.running
  · have hl : (listenLoop busy [] s.fds [] c.ports).1 = true := by
      apply listenLoop_succeeds _ _ _ _ _ hw
      intro p hp
      right
      refine ⟨hv.2 p hp, ?_⟩
      rw [hs.fds p, hs.idle hrun]; simp [ports]
    simp [step, hrun, start, setup_none hv.1, hl]
  · have hl : (listenLoop busy (s.sites.map (·.port)) s.fds [] c.ports).1 = true := by
      apply listenLoop_succeeds _ _ _ _ _ hw
      intro p hp
      by_cases hin : p ∈ s.sites.map (·.port)
      · left; simpa using hin
      · right
        refine ⟨hv.2 p hp, ?_⟩
        rw [hs.fds p]; simp only [ports]; simp [hin]
    simp [step, hrun, restart, setup_none hv.1, hl]

theorem restart_invalid_err {busy : List Nat} {s : PState} {c : Cfg} (hs : Clean busy s)
    (hv : validFor busy c = false) : (step busy s (.restart c)).2 = .err := by
  rcases res_cases (step busy s (.restart c)).2 with hr | hr
  · exfalso
    by_cases hf : c.fail = .none
    · have hb : ∃ p ∈ c.ports, busy.contains p = true := by
        simp only [validFor, hf, beq_self_eq_true, Bool.true_and] at hv
        rw [List.all_eq_false] at hv
        obtain ⟨p, hp, hpb⟩ := hv
        exact ⟨p, hp, by simpa using hpb⟩
      obtain ⟨p, hp, hpb⟩ := hb
      cases hrun : s.running
      · simp only [step, hrun] at hr
        unfold start at hr
        by_cases h2 : (listenLoop busy [] s.fds [] c.ports).1 = true
        · rcases listenLoop_ok_free busy [] c.ports [] s.fds h2 p hp with h3 | h3
          · simp at h3
          · rw [h3] at hpb; exact Bool.noConfusion hpb
        · have h2' : (listenLoop busy [] s.fds [] c.ports).1 = false := by simpa using h2
          simp [setup_none hf, h2'] at hr
      · simp only [step, hrun, if_true] at hr
        unfold restart at hr
        by_cases h2 : (listenLoop busy (s.sites.map (·.port)) s.fds [] c.ports).1 = true
        · rcases listenLoop_ok_free busy _ c.ports [] s.fds h2 p hp with h3 | h3
          · have := hs.notBusy p (by simpa [ports] using h3)
            rw [this] at hpb; exact Bool.noConfusion hpb
          · rw [h3] at hpb; exact Bool.noConfusion hpb
        · have h2' : (listenLoop busy (s.sites.map (·.port)) s.fds [] c.ports).1 = false := by simpa using h2
          simp [setup_none hf, h2'] at hr
    · cases hrun : s.running
      · simp [step, hrun, start, setup_fails hf] at hr
      · simp [step, hrun, restart, setup_fails hf] at hr
  · exact hr

theorem probe_clean {busy : List Nat} {s : PState} (hs : Clean busy s) (p : Nat) :
    probe s p = match s.sites.find? (·.port == p) with | some site => site.marker | none => "-" := by
  unfold probe
  cases hf : s.sites.find? (·.port == p) with
  | some site => rfl
  | none =>
    have : p ∉ ports s.sites := by
      intro hm
      simp only [ports, List.mem_map] at hm
      obtain ⟨x, hx, hxp⟩ := hm
      have := List.find?_eq_none.mp hf x hx
      simp [hxp] at this
    simp [hs.fds p, this]


/-- the model never hangs: every attempt returns -/
def lift (l : List (Res × Obs)) : List (Option Res × Obs) := l.map fun x => (some x.1, x.2)

theorem observe_loaded {busy : List Nat} {s' : PState} {c : Cfg} (hc : Clean busy s') (hsites : s'.sites = c.sites) :
    (observe s').s1 = markerAt c 1 ∧ (observe s').s2 = markerAt c 2 ∧
    (observe s').l1 = fdsAt c 1 ∧ (observe s').l2 = fdsAt c 2 := by
  refine ⟨?_, ?_, ?_, ?_⟩
  · simp only [observe, probe_clean hc, hsites, markerAt]
    cases List.find? (fun x => x.port == 1) c.sites <;> rfl
  · simp only [observe, probe_clean hc, hsites, markerAt]
    cases List.find? (fun x => x.port == 2) c.sites <;> rfl
  · simp [observe, hc.fds 1, hsites, fdsAt, ports, Cfg.ports]
  · simp [observe, hc.fds 2, hsites, fdsAt, ports, Cfg.ports]

theorem setup_validates (c : Cfg) (hooks : Nat) : (setup c hooks true).1 = validates c := by
  unfold setup validates
  cases hf : c.fail <;> simp

theorem stepLaw_step {busy : List Nat} {s : PState} (hs : Clean busy s) (op : Op) (hw : WF op) :
    stepLaw busy (observe s) op (some (step busy s op).2) (observe (step busy s op).1) = none := by
  have hc' := clean_step hs op hw
  have hdv : (observe (step busy s op).1).dv = 0 := hc'.dirs
  cases op with
  | load c =>
    by_cases hv : validFor busy c = true
    · have hok := load_valid_ok hs hw hv
      have hsites : (step busy s (.load c)).1.sites = c.sites := by
        cases hrun : s.running
        · simp only [step, hrun] at hok ⊢
          exact (start_ok hs hrun hok hw).2.1
        · simp only [step, hrun, if_true] at hok ⊢
          exact (reload_ok hs hok hw).2.1
      obtain ⟨h1, h2, h3, h4⟩ := observe_loaded hc' hsites
      simp [stepLaw, hdv, hv, hok, h1, h2, h3, h4]
    · have hv' : validFor busy c = false := by simpa using hv
      have herr := load_invalid_err hs hv'
      have hid := step_err_identity herr
      rw [hid] at hdv
      simp [stepLaw, hdv, hv', herr, hid]
  | restart c =>
    by_cases hv : validFor busy c = true
    · have hok := restart_valid_ok hs hw hv
      have hsites : (step busy s (.restart c)).1.sites = c.sites := by
        cases hrun : s.running
        · simp only [step, hrun] at hok ⊢
          exact (start_ok hs hrun hok hw).2.1
        · simp only [step, hrun, if_true] at hok ⊢
          exact (restart_ok hs hok hw).2.1
      obtain ⟨h1, h2, h3, h4⟩ := observe_loaded hc' hsites
      simp [stepLaw, hdv, hv, hok, h1, h2, h3, h4]
    · have hv' : validFor busy c = false := by simpa using hv
      have herr := restart_invalid_err hs hv'
      have hid := step_err_identity herr
      rw [hid] at hdv
      simp [stepLaw, hdv, hv', herr, hid]
  | validate c =>
    have hsame : ∀ p, probe (step busy s (.validate c)).1 p = probe s p := by
      intro p; simp [step, probe]
    by_cases h1 : (setup c s.hooks true).1 = true
    · have hv : validates c = true := by rw [← setup_validates c s.hooks]; exact h1
      have hdv' : s.dirs = 0 := hs.dirs
      simp [stepLaw, step, h1, hv, observe, probe, hdv']
    · have h1' : (setup c s.hooks true).1 = false := by simpa using h1
      have hv : validates c = false := by rw [← setup_validates c s.hooks]; exact h1'
      have hdv' : s.dirs = 0 := hs.dirs
      simp [stepLaw, step, h1', hv, observe, probe, setup_fail_hooks h1', hdv']
  | stop =>
    have hsites : (step busy s .stop).1.sites = [] := by simp [step]
    have hf : ∀ p, (step busy s .stop).1.fds p = 0 := by
      intro p; rw [hc'.fds p, hsites]; simp [ports]
    have hp : ∀ p, probe (step busy s .stop).1 p = "-" := by
      intro p; rw [probe_clean hc', hsites]; simp
    have hh : (step busy s .stop).1.hooks = s.hooks := by simp [step]
    have hr : (step busy s .stop).2 = .ok := by simp [step]
    have hdv' : (step busy s .stop).1.dirs = 0 := hc'.dirs
    simp only [stepLaw, hr, observe, hf, hp, hh, hdv']
    simp

theorem check_runFrom (busy : List Nat) : ∀ (ops : List Op) (s : PState) (k : Nat), Clean busy s →
    (∀ op ∈ ops, WF op) → check busy (observe s) k ops (lift (runFrom busy s ops)) = none := by
  intro ops
  induction ops with
  | nil => intro s k _ _; rfl
  | cons op rest ih =>
    intro s k hs hw
    have h1 := stepLaw_step hs op (hw op List.mem_cons_self)
    simp only [runFrom, lift, List.map_cons, check, h1]
    exact ih _ _ (clean_step hs op (hw op List.mem_cons_self)) (fun o ho => hw o (List.mem_cons_of_mem _ ho))

/-- the state after a history -/
def stateAfter (busy : List Nat) (s : PState) : List Op → PState
  | [] => s
  | op :: rest => stateAfter busy (step busy s op).1 rest

/-- every attempt of the history fails -/
def allFail (busy : List Nat) (s : PState) : List Op → Prop
  | [] => True
  | op :: rest => (step busy s op).2 = .err ∧ allFail busy (step busy s op).1 rest

theorem stateAfter_allFail (busy : List Nat) : ∀ (ops : List Op) (s : PState), allFail busy s ops →
    stateAfter busy s ops = s := by
  intro ops
  induction ops with
  | nil => intro s _; rfl
  | cons op rest ih =>
    intro s h
    simp only [stateAfter]
    rw [ih _ h.2, step_err_identity h.1]

theorem clean_after (busy : List Nat) : ∀ (ops : List Op) (s : PState), Clean busy s → (∀ op ∈ ops, WF op) →
    Clean busy (stateAfter busy s ops) := by
  intro ops
  induction ops with
  | nil => intro s hs _; exact hs
  | cons op rest ih =>
    intro s hs hw
    exact ih _ (clean_step hs op (hw op List.mem_cons_self)) (fun o ho => hw o (List.mem_cons_of_mem _ ho))


end Casket.Load
