import Casket.Proofs.FileServe
import Casket.Spec.Cond
/-
C02, conditional and range answers: whatever `http.ServeContent` makes of the request headers,
the two files its answer can identify — the served one (ETag, Content-Length, Content-Range, body)
and the resolved one (Last-Modified) — are files the request may see.
-/
namespace Casket.CondProofs
open Casket.Path Casket.FS Casket.FileServe Casket.Cond Casket.FileServeSpec Casket.FileServeProofs Casket.CondSpec

theorem siteUrl_eq (site : Site) (target : Bytes) : Cond.siteUrl site target = FileServeSpec.siteUrl site target := rfl

/-- the file `serveFile` resolved (before sibling substitution) is allowed, regular and not hidden
whenever a file body is served -/
theorem resolved_ok {fs : FS} {site : Site} {r : Req} {ino : Nat} {enc : Option Bytes}
    (hroot : NormalSegs site.root) (h : staticServe fs site r = .file ino enc) :
    inoOk fs site r.url r.acceptEncoding (resolvedIno fs site r.url) = true := by
  unfold staticServe at h
  split at h
  · simp at h
  · simp only [] at h
    split at h
    · simp at h
    · simp at h
    · rename_i d hd
      split at h
      · simp at h
      · split at h
        · simp at h
        · obtain ⟨hq, hop⟩ := resolveIndex_facts (site := site) hd
          unfold staticContent at h
          simp only [] at h
          split at h
          · simp at h
          · rename_i hnot
            simp only [Bool.or_eq_true, not_or, Bool.not_eq_true] at hnot
            have hres : resolvedIno fs site r.url = (resolveIndex fs site d r.url.path).1.ino := by
              simp [resolvedIno, hd]
            rw [hres]
            unfold inoOk
            have h1 : hidden fs site (resolveIndex fs site d r.url.path).1.ino = false := hnot.2
            have h2 := dirOpen_regularInRoot hroot hop hnot.1
            have h3 := mem_allowedInos_base (ae := r.acceptEncoding) hq hop
            simp [h1, h2, h3]

theorem served_ok {fs : FS} {site : Site} {r : Req} {ino : Nat} {enc : Option Bytes}
    (hroot : NormalSegs site.root) (h : staticServe fs site r = .file ino enc) :
    inoOk fs site r.url r.acceptEncoding ino = true := by
  obtain ⟨h1, h2, h3⟩ := staticServe_file hroot h
  unfold inoOk
  simp [h1, h2, h3]

theorem rangeOutcome_cases (f : Nat) (enc : Option Bytes) (d : Nat) (r : Option RangeSpec) :
    (∃ a b, rangeOutcome f enc d r = .part f enc d a b) ∨ rangeOutcome f enc d r = .full f enc d ∨
    rangeOutcome f enc d r = .unsatisfiable (some f) ∨ rangeOutcome f enc d r = .unsatisfiable none := by
  cases r with
  | none => exact Or.inr (Or.inl rfl)
  | some spec =>
    cases hr : rangeResult (fileSize f) spec with
    | full => exact Or.inr (Or.inl (by simp [rangeOutcome, hr]))
    | part a b => exact Or.inl ⟨a, b, by simp [rangeOutcome, hr]⟩
    | noOverlap => exact Or.inr (Or.inr (Or.inl (by simp [rangeOutcome, hr])))
    | invalid => exact Or.inr (Or.inr (Or.inr (by simp [rangeOutcome, hr])))

theorem applyCond_cases (c : Cond) (f : Nat) (enc : Option Bytes) (d : Nat) :
    applyCond c f enc d = .explored f d ∨ applyCond c f enc d = .notModified f ∨
    (∃ a b, applyCond c f enc d = .part f enc d a b) ∨ applyCond c f enc d = .full f enc d ∨
    applyCond c f enc d = .unsatisfiable (some f) ∨ applyCond c f enc d = .unsatisfiable none := by
  unfold applyCond
  split
  · exact Or.inl rfl
  · split
    · exact Or.inr (Or.inl rfl)
    · split
      · exact Or.inr (Or.inl rfl)
      · rcases rangeOutcome_cases f enc d c.range with ⟨a, b, h⟩ | h | h | h
        · exact Or.inr (Or.inr (Or.inl ⟨a, b, h⟩))
        · exact Or.inr (Or.inr (Or.inr (Or.inl h)))
        · exact Or.inr (Or.inr (Or.inr (Or.inr (Or.inl h))))
        · exact Or.inr (Or.inr (Or.inr (Or.inr (Or.inr h))))

/-- The model's answer to a conditional / range request always satisfies the judged predicate. -/
theorem serveCond_verdict_ok (fs : FS) (site : Site) (method target ae : Bytes) (c : Cond)
    (hroot : NormalSegs site.root) (hp : NormalPrefix site.pathPrefix) (hrd : RootIsDir fs site) :
    CondSpec.verdict fs site target ae (serveCond fs site method target ae c) = "ok" := by
  have hplain : ∀ r, serve fs site method target ae = r →
      CondSpec.verdict fs site target ae (.plain r) = "ok" := by
    intro r hr
    show FileServeSpec.verdict fs site target ae r = "ok"
    rw [← hr]; exact serve_verdict_ok fs site method target ae hroot hp hrd
  unfold serveCond
  cases hs : serve fs site method target ae with
  | status c => exact hplain _ hs
  | redirect c l => exact hplain _ hs
  | listing n => exact hplain _ hs
  | archive n => exact hplain _ hs
  | file f enc =>
    simp only []
    rcases serve_cases fs site method target ae with ⟨c', hc⟩ | ⟨u, hsu, _, hsb⟩
    · rw [hs] at hc; simp at hc
    · rw [siteUrl_eq, hsu]
      simp only []
      rw [hs] at hsb
      have hst := browseServe_file hsb.symm
      have hf := served_ok hroot hst
      have hd := resolved_ok hroot hst
      simp only [] at hf hd
      have ok : ∀ l : List Nat, (∀ i ∈ l, i = f ∨ i = resolvedIno fs site u) → l.all (inoOk fs site u ae) = true := by
        intro l hl
        rw [List.all_eq_true]
        intro i hi
        rcases hl i hi with rfl | rfl
        · exact hf
        · exact hd
      rcases applyCond_cases c f enc (resolvedIno fs site u) with h | h | ⟨a, b, h⟩ | h | h | h <;>
        rw [h] <;> simp only [CondSpec.verdict, hsu]
      · rw [if_pos (ok _ (by simp [mentioned]))]
      · rw [if_pos (ok _ (by simp [mentioned]))]
      · rw [if_pos (ok _ (by simp [mentioned]))]
      · rw [if_pos (ok _ (by simp [mentioned]))]
      · rw [if_pos (ok _ (by simp [mentioned]))]
      · rw [if_pos (ok _ (by simp [mentioned]))]

end Casket.CondProofs
