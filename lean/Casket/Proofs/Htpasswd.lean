import Casket.Model.Htpasswd
import Casket.Spec.Htpasswd
/-
The htpasswd cache of basicauth is not observable.  Invariant: every cached (stamp, table) is
what SOME snapshot of the history holds for that path; assumption `Faithful`: a stamp (mtime and
size) identifies the content of a path across the snapshots.  Then every load gives each site the
matcher built from that site's own file as it is at that load — whatever was loaded before, in
which order, and whatever the file said earlier.
-/
namespace Casket.HtpasswdProofs
open Casket.Path Casket.Htpasswd Casket.HtpasswdSpec

/-- same path and same stamp in two snapshots of the world ⇒ same content -/
def Faithful (W : List Files) : Prop :=
  ∀ F ∈ W, ∀ F' ∈ W, ∀ k st t t', F.get k = some (st, t) → F'.get k = some (st, t') → t = t'

/-- every cached entry is what some snapshot holds for that path -/
def Coherent (W : List Files) (c : Cache) : Prop :=
  ∀ k st t, c.get k = some (st, t) → ∃ F ∈ W, F.get k = some (st, t)

theorem coherent_nil (W : List Files) : Coherent W [] := by
  intro k st t h; simp [Cache.get] at h

theorem cache_get_cons (c : Cache) (k k' : Bytes) (v : Nat × Table) :
    Cache.get ((k, v) :: c) k' = if k = k' then some v else c.get k' := by
  unfold Cache.get
  by_cases h : k = k' <;> simp [List.find?, h]

theorem coherent_insert {W : List Files} {c : Cache} {F : Files} {k : Bytes} {st : Nat} {t : Table}
    (hc : Coherent W c) (hF : F ∈ W) (hg : F.get k = some (st, t)) : Coherent W ((k, st, t) :: c) := by
  intro k' st' t' h
  rw [cache_get_cons] at h
  by_cases hk : k = k'
  · simp only [hk, if_true, Option.some.injEq, Prod.mk.injEq] at h
    exact ⟨F, hF, by rw [← hk, hg, h.1, h.2]⟩
  · simp only [hk, if_false] at h
    exact hc _ _ _ h

theorem getTable_spec {W : List Files} {files : Files} {c : Cache} (s : SiteCfg)
    (hW : Faithful W) (hF : files ∈ W) (hc : Coherent W c) :
    Coherent W (getTable files c s).1 ∧ (getTable files c s).2 = (files.get s.key).map (·.2) := by
  unfold getTable
  cases hf : files.get s.key with
  | none => exact ⟨hc, rfl⟩
  | some v =>
    obtain ⟨st, t⟩ := v
    simp only [Option.map_some]
    cases hg : c.get s.key with
    | none => exact ⟨coherent_insert hc hF hf, rfl⟩
    | some v' =>
      obtain ⟨st', t'⟩ := v'
      simp only []
      by_cases hst : st' = st
      · simp only [hst, if_true]
        refine ⟨hc, ?_⟩
        obtain ⟨F0, hF0, h0⟩ := hc _ _ _ hg
        rw [hst] at h0
        rw [hW F0 hF0 files hF _ _ _ _ h0 hf]
      · simp only [hst, if_false]
        exact ⟨coherent_insert hc hF hf, trivial⟩

theorem getMatcher_spec {W : List Files} {files : Files} {c : Cache} (s : SiteCfg)
    (hW : Faithful W) (hF : files ∈ W) (hc : Coherent W c) :
    Coherent W (getMatcher files c s).1 ∧ (getMatcher files c s).2 = ownMatcher files s := by
  obtain ⟨h1, h2⟩ := getTable_spec s hW hF hc
  unfold getMatcher ownMatcher
  simp only []
  refine ⟨h1, ?_⟩
  rw [h2]
  cases files.get s.key <;> rfl

theorem loadSites_spec {W : List Files} {files : Files} (sites : List SiteCfg) {c : Cache}
    (hW : Faithful W) (hF : files ∈ W) (hc : Coherent W c) :
    Coherent W (loadSites files c sites).1 ∧
    (loadSites files c sites).2 = sites.map (fun s => (s, ownMatcher files s)) := by
  induction sites generalizing c with
  | nil => exact ⟨hc, rfl⟩
  | cons s rest ih =>
    obtain ⟨h1, h2⟩ := getMatcher_spec s hW hF hc
    obtain ⟨h3, h4⟩ := ih h1
    unfold loadSites
    simp only []
    exact ⟨h3, by rw [h2, h4]; rfl⟩

/-- the matchers a single load would give without any cache -/
def ownLoad (l : Load) : List (SiteCfg × Option Secret) := l.2.map (fun s => (s, ownMatcher l.1 s))

/-- After any history of loads, started from any coherent cache, the sites being served have the
matchers of their own files as they were at the last load. -/
theorem runHistory_spec {W : List Files} (hist : List Load) {c : Cache}
    (hW : Faithful W) (hH : ∀ l ∈ hist, l.1 ∈ W) (hc : Coherent W c) :
    (runHistory c hist).2 = match hist.getLast? with | some l => ownLoad l | none => [] := by
  induction hist generalizing c with
  | nil => rfl
  | cons l rest ih =>
    cases rest with
    | nil => simpa [runHistory, ownLoad] using (loadSites_spec l.2 hW (hH l (by simp)) hc).2
    | cons l2 rest2 =>
      have := ih (c := (loadSites l.1 c l.2).1) (fun x hx => hH x (by simp [hx]))
        (loadSites_spec l.2 hW (hH l (by simp)) hc).1
      simpa [runHistory, List.getLast?_cons_cons] using this

/-- The model's answer passes the judge for every history and every coherent starting cache. -/
theorem serve_verdict_ok {W : List Files} (hist : List Load) (last : Load) {c : Cache}
    (hW : Faithful W) (hH : ∀ l ∈ hist, l.1 ∈ W) (hc : Coherent W c) (hl : hist.getLast? = some last)
    (host path : Bytes) (creds : Option (Bytes × Bytes)) :
    verdict last.1 last.2 host path creds (serve c hist host path creds) = "ok" := by
  unfold serve
  rw [runHistory_spec hist hW hH hc, hl]
  simp only [ownLoad]
  obtain ⟨files, served⟩ := last
  simp only []
  unfold HtpasswdSpec.verdict
  rw [List.find?_map]
  cases hf : served.find? (fun s => s.host = host) with
  | none =>
    have : List.find? ((fun sm : SiteCfg × Option Secret => decide (sm.1.host = host)) ∘ fun s => (s, ownMatcher files s)) served = none := by
      rw [← hf]; rfl
    simp [this]
  | some s =>
    have : List.find? ((fun sm : SiteCfg × Option Secret => decide (sm.1.host = host)) ∘ fun s => (s, ownMatcher files s)) served = some s := by
      rw [← hf]; rfl
    simp only [this, Option.map_some]
    by_cases hp : pathMatches path (b! "/secret") = true
    · simp only [hp, if_true]
      cases hm : ownMatcher files s with
      | none => simp [validFor, hm]
      | some sec =>
        cases creds with
        | none => simp [validFor, hm]
        | some up =>
          obtain ⟨u, pw⟩ := up
          by_cases hv : u = s.user ∧ sec.accepts pw = true
          · simp [validFor, hm, hv.1, hv.2]
          · simp only [hv, if_false]
            have : validFor files s (some (u, pw)) = false := by
              unfold validFor
              simp only [hm]
              by_cases hu : u = s.user
              · have : sec.accepts pw = false := by
                  cases h : sec.accepts pw with
                  | false => rfl
                  | true => exact absurd ⟨hu, h⟩ hv
                simp [hu, this]
              · simp [hu]
            simp [this]
    · simp [hp]

end Casket.HtpasswdProofs
