import Casket.Model.Gzip
import Casket.Spec.Gzip
/-
Helper lemmas for C18: the wrapped execution simulates the plain one.
-/
namespace Casket.Gzip
open Casket.GzipSpec
open Casket.Limits (Bytes)

/-- the decision the middleware takes at the response header with status `code` for inner
response `i` under block `b` -/
def decision (b : Block) (i : Inner) (code : Nat) : Bool := code != 204 && responsePasses b i.hdr

def hdrAfter (b : Block) (i : Inner) (code : Nat) : Hdr := if decision b i code then rewrite i.hdr else i.hdr

/-- simulation between the wrapper's state and the plain ResponseWriter's state after the same calls -/
inductive Sim (b : Block) (i : Inner) : W → Under → Prop
  | fresh : Sim b i { live := i.hdr, decided := none, under := { committed := none, wrote := false } }
      { committed := none, wrote := false }
  | going (code : Nat) (wr : Bool) (hc : isInfo code = false) :
      Sim b i { live := hdrAfter b i code, decided := some (decision b i code),
                under := { committed := some (code, hdrAfter b i code), wrote := wr } }
        { committed := some (code, i.hdr), wrote := wr }

theorem wWriteHeader_fresh (b : Block) (i : Inner) (code : Nat) (hc : isInfo code = false) :
    wWriteHeader b { live := i.hdr, decided := none, under := { committed := none, wrote := false } } code =
      { live := hdrAfter b i code, decided := some (decision b i code),
        under := { committed := some (code, hdrAfter b i code), wrote := false } } := by
  unfold wWriteHeader hdrAfter decision
  by_cases h : (code != 204 && responsePasses b i.hdr) = true
  · simp [h, hc, commit]
  · simp [h, hc, commit]

@[simp] theorem isInfo_200 : isInfo 200 = false := by decide
@[simp] theorem isInfo_206 : isInfo 206 = false := by decide

theorem sim_step (b : Block) (i : Inner) (w : W) (u : Under) (op : Op) (h : Sim b i w u) :
    Sim b i (wStep b w op) (plainStep u i.hdr op) := by
  cases h with
  | fresh =>
    cases op with
    | hdr code =>
      by_cases hc : isInfo code = true
      · simp only [wStep, plainStep, wWriteHeader, commit, hc, if_true, Option.isSome_none, Bool.false_eq_true, if_false]
        exact Sim.fresh
      · have hc' : isInfo code = false := by simpa using hc
        simp only [wStep, plainStep, wWriteHeader_fresh b i code hc', commit, hc']
        exact Sim.going code false hc'
    | write =>
      simp only [wStep, plainStep, wEnsureHeader, wWriteHeader_fresh b i 200 isInfo_200, commit, isInfo_200]
      exact Sim.going 200 true isInfo_200
    | flush =>
      simp only [wStep, plainStep, wEnsureHeader, wWriteHeader_fresh b i 200 isInfo_200, commit, isInfo_200]
      exact Sim.going 200 false isInfo_200
  | going code wr hc =>
    cases op with
    | hdr code' =>
      simp only [wStep, plainStep, wWriteHeader, Option.isSome_some, if_true, commit]
      split <;> exact Sim.going code wr hc
    | write =>
      simp only [wStep, plainStep, wEnsureHeader, commit, isInfo_200]
      exact Sim.going code true hc
    | flush =>
      simp only [wStep, plainStep, wEnsureHeader, commit, isInfo_200]
      exact Sim.going code wr hc

theorem sim_fold (b : Block) (i : Inner) (ops : List Op) (w : W) (u : Under) (h : Sim b i w u) :
    Sim b i (ops.foldl (wStep b) w) (ops.foldl (fun u op => plainStep u i.hdr op) u) := by
  induction ops generalizing w u with
  | nil => exact h
  | cons op ops ih => exact ih _ _ (sim_step b i w u op h)

/-- the wire body and its length after the inner handler's calls -/
def wireBody (i : Inner) (wr : Bool) : Term := if wr then i.body else .raw []
def wireLen (i : Inner) (wr : Bool) : Nat := if wr then i.plen else 0

theorem plainRun_going (i : Inner) (code : Nat) (wr : Bool)
    (h : i.ops.foldl (fun u op => plainStep u i.hdr op) { committed := none, wrote := false } =
      { committed := some (code, i.hdr), wrote := wr }) :
    plainRun i = { status := code, hdr := i.hdr, body := wireBody i wr, blen := some (wireLen i wr) } := by
  unfold plainRun
  simp only [h]
  cases wr <;> simp [finish, wireBody, wireLen]

@[simp] theorem cleanup_absent (ret : Nat) (e : Bool) : cleanup ret e .absent = .absent := rfl
@[simp] theorem cleanup_opened (ret : Nat) (e : Bool) : cleanup ret e .opened = .closed := rfl

/-- Either the middleware leaves the response exactly as the plain chain produces it, or the
client offered gzip, the response passed the filters, and exactly one gzip layer was added with
the rewritten header. -/
theorem gzipRun_cases (blocks : List Block) (path ae : Bytes) (i : Inner) :
    gzipRun blocks path ae i = plainRun i ∨
    (acceptsGzip ae = true ∧ ∃ b code wr, decision b i code = true ∧
      plainRun i = { status := code, hdr := i.hdr, body := wireBody i wr, blen := some (wireLen i wr) } ∧
      gzipRun blocks path ae i =
        { status := code, hdr := rewrite i.hdr, body := .layer .gzip (wireBody i wr), blen := none }) := by
  unfold gzipRun
  by_cases hae : acceptsGzip ae = true
  · simp only [hae, Bool.not_true, Bool.false_eq_true, if_false]
    cases hb : blocks.find? (fun b => requestPasses b path) with
    | none => exact Or.inl rfl
    | some b =>
      simp only []
      have hsim := sim_fold b i i.ops _ _ (Sim.fresh (b := b) (i := i))
      generalize hw : i.ops.foldl (wStep b)
        { live := i.hdr, decided := none, under := { committed := none, wrote := false } } = w at hsim
      generalize hu : i.ops.foldl (fun u op => plainStep u i.hdr op) { committed := none, wrote := false } = u at hsim
      cases hsim with
      | fresh =>
        left
        unfold plainRun
        simp only [hu]
        simp [finish]
      | going code wr hc =>
        have hp := plainRun_going i code wr hu
        by_cases hd : decision b i code = true
        · right
          refine ⟨trivial, b, code, wr, hd, hp, ?_⟩
          simp only [hd, hdrAfter, if_true, finish, wireBody, cleanup, streamBody]
          simp
        · left
          rw [hp]
          have hd' : decision b i code = false := by simpa using hd
          simp only [hd', hdrAfter, finish, wireBody, wireLen, cleanup]
          simp
  · left
    simp [hae]

/-! ### a coding listed verbatim is a coding offered -/

theorem mem_trimLeft {x : UInt8} {s : Bytes} (hx : x ∈ s) (hs : isSpace x = false) : x ∈ trimLeft s := by
  induction s with
  | nil => cases hx
  | cons c cs ih =>
    unfold trimLeft
    by_cases hc : isSpace c = true
    · simp only [hc, if_true]
      rcases List.mem_cons.mp hx with rfl | hx
      · rw [hs] at hc; cases hc
      · exact ih hx
    · simp only [hc]; exact hx

theorem mem_trimSpace {x : UInt8} {s : Bytes} (hx : x ∈ s) (hs : isSpace x = false) : x ∈ trimSpace s := by
  unfold trimSpace
  exact List.mem_reverse.mpr (mem_trimLeft (List.mem_reverse.mpr (mem_trimLeft hx hs)) hs)

theorem splitOn_not_mem (sep : UInt8) (s : Bytes) (h : sep ∉ s) : splitOn sep s = [s] := by
  induction s with
  | nil => rfl
  | cons c cs ih =>
    have hc : ¬ c = sep := fun e => h (by rw [e]; exact List.mem_cons_self)
    have hcs : sep ∉ cs := fun m => h (List.mem_cons_of_mem _ m)
    unfold splitOn
    rw [ih hcs]
    simp [hc]

theorem offers_of_lists (ae : Bytes) (c : Coding) (h : listsCoding ae c = true) : offersCoding ae c = true := by
  unfold listsCoding at h
  unfold offersCoding
  rw [List.any_eq_true] at h ⊢
  obtain ⟨acc, hacc, heq⟩ := h
  refine ⟨acc, hacc, ?_⟩
  have heq' : trimSpace acc = c.name := by simpa using heq
  have hsemi : (59 : UInt8) ∉ acc := by
    intro hm
    have := mem_trimSpace hm (by decide)
    rw [heq'] at this
    cases c <;> simp [Coding.name] at this
  rw [splitOn_not_mem 59 acc hsemi]
  simp [heq']

end Casket.Gzip
