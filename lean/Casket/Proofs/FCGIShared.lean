import Casket.Model.FCGIShared
import Casket.Spec.FCGIShared
import Casket.Proofs.FCGI
/-
Several readers over one heap of record buffers (Model/FCGIShared.lean) against the isolated
by-value readers of Model/FCGI.lean: under every safe allocator each reader of the shared system
does, call by call, what it would do alone.
-/
namespace Casket.FCGI
open Casket.Fault Casket.FCGISpec

/-! ### slices and stores -/

theorem deref_len0 (heap : List Bytes) (r : BufRef) (h : r.len = 0) : deref heap r = [] := by
  simp [deref, h]

theorem store_length (heap : List Bytes) (d : Option Nat) (c : Bytes) :
    heap.length ≤ (storeRecord heap d c).1.length := by
  unfold storeRecord
  cases d with
  | none => simp
  | some k => by_cases hk : k < heap.length <;> simp [hk]

/-- the record just stored is what its slice denotes -/
theorem store_self (heap : List Bytes) (d : Option Nat) (c : Bytes) :
    deref (storeRecord heap d c).1 { id := (storeRecord heap d c).2, off := 0, len := c.length } = c := by
  unfold storeRecord deref
  cases d with
  | none => simp
  | some k =>
    by_cases hk : k < heap.length
    · simp [hk]
    · simp [hk]

/-- a slice into another buffer (or an empty slice) denotes what it denoted before -/
theorem store_other (heap : List Bytes) (d : Option Nat) (c : Bytes) (ρ : BufRef)
    (h : ρ.len ≠ 0 → ρ.id < heap.length ∧ ∀ k, d = some k → ρ.id ≠ k) :
    deref (storeRecord heap d c).1 ρ = deref heap ρ := by
  by_cases h0 : ρ.len = 0
  · rw [deref_len0 _ _ h0, deref_len0 _ _ h0]
  · obtain ⟨hlt, hne⟩ := h h0
    unfold storeRecord deref
    cases d with
    | none => simp [List.getElem?_append_left hlt]
    | some k =>
      have hk' : ρ.id ≠ k := hne k rfl
      by_cases hk : k < heap.length
      · simp only [hk, if_true]
        rw [List.getElem?_set_ne (Ne.symm hk')]
      · simp only [hk, if_false]
        rw [List.getElem?_append_left hlt]

/-! ### one reader of the shared system follows its isolated copy -/

/-- reader `r` over `heap` is in the state `s` of the by-value model -/
def Tracks (heap : List Bytes) (r : HR) (s : SR) : Prop :=
  r.inp = s.inp ∧ r.stderr = s.stderr ∧ deref heap r.ref = s.buf ∧ r.ref.len = s.buf.length

theorem tracks_valid {heap : List Bytes} {r : HR} {s : SR} (h : Tracks heap r s) (h0 : r.ref.len ≠ 0) :
    r.ref.id < heap.length := by
  obtain ⟨_, _, hd, hl⟩ := h
  by_cases hlt : r.ref.id < heap.length
  · exact hlt
  · exfalso
    have : heap[r.ref.id]? = none := List.getElem?_eq_none (by omega)
    have hnil : deref heap r.ref = [] := by simp [deref, this]
    rw [hnil] at hd
    rw [← hd] at hl
    simp at hl
    exact h0 hl

/-- every reader of the shared system tracks its isolated copy -/
def Rel (sh : Shared) (srs : Nat → Option SR) : Prop :=
  (∀ j r, sh.readers j = some r → ∃ s, srs j = some s ∧ Tracks sh.heap r s) ∧
  (∀ j, sh.readers j = none → srs j = none)

theorem rel_valid {sh : Shared} {srs : Nat → Option SR} (h : Rel sh srs) :
    ∀ j rj, sh.readers j = some rj → rj.ref.len ≠ 0 → rj.ref.id < sh.heap.length := by
  intro j rj hj h0
  obtain ⟨s, _, ht⟩ := h.1 j rj hj
  exact tracks_valid ht h0

/-- the record loop: same records, same errors; the slices of all readers of the process denote
what they denoted before; the reader that called ends up tracking its copy -/
theorem fill_sim (a : Alloc) (ha : a.Safe) :
    ∀ (f : Nat) (sh : Shared) (r : HR) (s : SR) (acc : List Rec),
      r.inp = s.inp → r.stderr = s.stderr → r.ref.len = 0 → s.buf = [] →
      (∀ j rj, sh.readers j = some rj → rj.ref.len ≠ 0 → rj.ref.id < sh.heap.length) →
      match SR.fill f s acc with
      | .error e => Shared.fill a f sh r acc = .error e
      | .ok (s', e, c) =>
        ∃ sh' r', Shared.fill a f sh r acc = .ok (sh', r', e, c) ∧ sh'.readers = sh.readers ∧
          sh.heap.length ≤ sh'.heap.length ∧
          (∀ j rj, sh.readers j = some rj → deref sh'.heap rj.ref = deref sh.heap rj.ref) ∧
          Tracks sh'.heap r' s' := by
  intro f
  induction f with
  | zero =>
    intro sh r s acc _ _ _ _ _
    simp [SR.fill, Shared.fill]
  | succ f ih =>
    intro sh r s acc hinp herr hlen hbuf hvalid
    unfold SR.fill Shared.fill
    rw [hinp]
    cases hr : readRecord s.inp with
    | error e => simp
    | ok v =>
      obtain ⟨res, rest⟩ := v
      cases res with
      | error e =>
        simp only
        refine ⟨sh, { r with inp := rest }, rfl, rfl, Nat.le_refl _, fun _ _ _ => rfl, ?_⟩
        refine ⟨rfl, herr, ?_, ?_⟩
        · simp [deref_len0 _ _ hlen, hbuf]
        · simp [hlen, hbuf]
      | ok rec =>
        simp only
        have hother : ∀ j rj, sh.readers j = some rj →
            deref (storeRecord sh.heap (a sh) rec.content).1 rj.ref = deref sh.heap rj.ref := by
          intro j rj hj
          apply store_other
          intro h0
          exact ⟨hvalid j rj hj h0, fun k hk => ha sh k hk j rj hj h0⟩
        have hlen' := store_length sh.heap (a sh) rec.content
        have hself := store_self sh.heap (a sh) rec.content
        generalize storeRecord sh.heap (a sh) rec.content = st at hother hlen' hself
        by_cases ht : rec.typ = typeStderr
        · simp only [ht, if_true]
          have hstep := ih { sh with heap := st.1 }
            { r with inp := rest, stderr := r.stderr ++ deref st.1 ⟨st.2, 0, rec.content.length⟩ }
            { s with inp := rest, stderr := s.stderr ++ rec.content } (acc ++ [rec])
            rfl (by simp only; rw [hself, herr]) hlen hbuf
            (fun j rj hj h0 => Nat.lt_of_lt_of_le (hvalid j rj hj h0) hlen')
          cases hs : SR.fill f { s with inp := rest, stderr := s.stderr ++ rec.content } (acc ++ [rec]) with
          | error e => rw [hs] at hstep; exact hstep
          | ok v =>
            obtain ⟨s', e, c⟩ := v
            rw [hs] at hstep
            obtain ⟨sh', r', hfill, hreaders, hl, hpres, htr⟩ := hstep
            refine ⟨sh', r', hfill, hreaders, Nat.le_trans hlen' hl, ?_, htr⟩
            intro j rj hj
            rw [hpres j rj hj, hother j rj hj]
        · simp only [ht, if_false]
          refine ⟨_, _, rfl, rfl, hlen', hother, ?_⟩
          exact ⟨rfl, herr, hself, rfl⟩

theorem setReader_same (f : Nat → Option HR) (i : Nat) (r : HR) : setReader f i r i = some r := by
  simp [setReader]

theorem setReader_other (f : Nat → Option HR) {i j : Nat} (r : HR) (h : j ≠ i) :
    setReader f i r j = f j := by
  simp [setReader, h]

/-- reader `i` moves on, on a heap that left every slice of the process alone -/
theorem rel_update {sh : Shared} {srs : Nat → Option SR} (h : Rel sh srs) (heap' : List Bytes) (i : Nat)
    (r' : HR) (s' : SR)
    (hpres : ∀ j rj, sh.readers j = some rj → deref heap' rj.ref = deref sh.heap rj.ref)
    (ht : Tracks heap' r' s') :
    Rel { heap := heap', readers := setReader sh.readers i r' } (fun j => if j = i then some s' else srs j) := by
  constructor
  · intro j rj hj
    by_cases hji : j = i
    · subst hji
      simp only [setReader_same] at hj
      cases hj
      exact ⟨s', by simp, ht⟩
    · simp only [setReader_other _ _ hji] at hj
      obtain ⟨s, hs, t1, t2, t3, t4⟩ := h.1 j rj hj
      refine ⟨s, by simp [hji, hs], t1, t2, ?_, t4⟩
      show deref heap' rj.ref = s.buf
      rw [hpres j rj hj, t3]
  · intro j hj
    by_cases hji : j = i
    · subst hji
      simp [setReader_same] at hj
    · simp only [setReader_other _ _ hji] at hj
      simp [hji, h.2 j hj]

theorem deliver_sim {heap : List Bytes} {r : HR} {s : SR} (h : Tracks heap r s) (plen : Nat) (c : List Rec) :
    (r.deliver heap plen c).2 = (s.deliver plen c).2 ∧
    Tracks heap (r.deliver heap plen c).1 (s.deliver plen c).1 := by
  obtain ⟨h1, h2, h3, h4⟩ := h
  unfold HR.deliver SR.deliver
  simp only
  rw [← h4]
  have hd : deref heap { r.ref with len := min plen r.ref.len } = List.take (min plen r.ref.len) s.buf := by
    rw [← h3]
    unfold deref
    simp only [List.take_take]
    congr 1
    omega
  refine ⟨by rw [hd], h1, h2, ?_, ?_⟩
  · show deref heap _ = List.drop (min plen r.ref.len) s.buf
    rw [← h3]
    unfold deref
    simp only [List.drop_take, List.drop_drop]
  · show r.ref.len - min plen r.ref.len = (List.drop (min plen r.ref.len) s.buf).length
    rw [List.length_drop, ← h4]

/-- one `Read` of reader `i` in the shared system is the `Read` of its isolated copy -/
theorem read_sim (a : Alloc) (ha : a.Safe) {sh : Shared} {srs : Nat → Option SR} (hrel : Rel sh srs)
    (i plen : Nat) (s : SR) (hs : srs i = some s) :
    match s.read plen with
    | .error e => sh.read a i plen = .error e
    | .ok (s', o) => ∃ sh', sh.read a i plen = .ok (sh', o) ∧
        Rel sh' (fun j => if j = i then some s' else srs j) := by
  cases hri : sh.readers i with
  | none => rw [hrel.2 i hri] at hs; cases hs
  | some r =>
    obtain ⟨s0, hs0, htr⟩ := hrel.1 i r hri
    rw [hs] at hs0
    cases hs0
    have hsame : (fun j => if j = i then some s else srs j) = srs := by
      funext j
      by_cases hji : j = i
      · subst hji; simp [hs]
      · simp [hji]
    unfold SR.read Shared.read
    simp only [hri]
    by_cases hp : plen = 0
    · simp only [hp, if_true]
      exact ⟨sh, rfl, by rw [hsame]; exact hrel⟩
    · simp only [hp, if_false]
      obtain ⟨t1, t2, t3, t4⟩ := htr
      by_cases hb : s.buf.length ≠ 0
      · have hb' : r.ref.len ≠ 0 := by omega
        rw [if_pos hb, if_pos hb']
        obtain ⟨d1, d2⟩ := deliver_sim ⟨t1, t2, t3, t4⟩ plen []
        simp only [SR.deliver] at d1 d2
        refine ⟨_, by rw [d1], ?_⟩
        exact rel_update hrel sh.heap i _ _ (fun _ _ _ => rfl) d2
      · have hb' : ¬ (r.ref.len ≠ 0) := by omega
        rw [if_neg hb, if_neg hb']
        have hlen0 : r.ref.len = 0 := by omega
        have hbuf0 : s.buf = [] := List.length_eq_zero_iff.mp (by omega)
        have hfs := fill_sim a ha (s.inp.length + 1) sh r s [] t1 t2 hlen0 hbuf0 (rel_valid hrel)
        rw [t1]
        cases hf : SR.fill (s.inp.length + 1) s [] with
        | error e => rw [hf] at hfs; simp only [hfs]
        | ok v =>
          obtain ⟨s1, e, c⟩ := v
          rw [hf] at hfs
          obtain ⟨sh', r', hfill, hreaders, _, hpres, htr'⟩ := hfs
          simp only [hfill]
          cases e with
          | some e =>
            simp only
            refine ⟨_, rfl, ?_⟩
            rw [hreaders]
            exact rel_update hrel sh'.heap i r' s1 hpres htr'
          | none =>
            simp only
            obtain ⟨d1, d2⟩ := deliver_sim htr' plen c
            refine ⟨_, by rw [d1], ?_⟩
            rw [hreaders]
            exact rel_update hrel sh'.heap i _ _ hpres d2

/-- a reader that does not exist: nothing happens -/
theorem read_none (a : Alloc) {sh : Shared} {srs : Nat → Option SR} (hrel : Rel sh srs) (i plen : Nat)
    (hs : srs i = none) : sh.read a i plen = .ok (sh, { data := [], err := none, consumed := [] }) := by
  cases hri : sh.readers i with
  | none => simp [Shared.read, hri]
  | some r =>
    obtain ⟨s0, hs0, _⟩ := hrel.1 i r hri
    rw [hs] at hs0; cases hs0

/-- THE simulation: for every schedule the shared system fails where the isolated readers fail and
otherwise every caller has received the same bytes and the same end of stream -/
theorem run_sim (a : Alloc) (ha : a.Safe) : ∀ (sched : Sched) (sh : Shared) (srs : Nat → Option SR)
    (g : Nat → Got), Rel sh srs →
    match Indep.run srs g sched with
    | .error e => Shared.run a sh g sched = .error e
    | .ok (srs', g') => ∃ sh', Shared.run a sh g sched = .ok (sh', g') ∧ Rel sh' srs' := by
  intro sched
  induction sched with
  | nil => intro sh srs g hrel; exact ⟨sh, rfl, hrel⟩
  | cons st rest ih =>
    intro sh srs g hrel
    obtain ⟨i, plen⟩ := st
    unfold Indep.run Shared.run
    by_cases hfin : (g i).fin.isSome = true
    · simp only [hfin, if_true]
      exact ih sh srs g hrel
    · have hfin' : (g i).fin.isSome = false := by simpa using hfin
      simp only [hfin', Bool.false_eq_true, if_false]
      cases hs : srs i with
      | none =>
        simp only [read_none a hrel i plen hs]
        exact ih sh srs _ hrel
      | some s =>
        have hr := read_sim a ha hrel i plen s hs
        simp only
        cases hread : s.read plen with
        | error e => rw [hread] at hr; simp only [hr]
        | ok v =>
          obtain ⟨s', o⟩ := v
          rw [hread] at hr
          obtain ⟨sh', hsr, hrel'⟩ := hr
          simp only [hsr]
          exact ih sh' _ _ hrel'

/-! ### the isolated system, reader by reader -/

theorem plensOf_cons_same (i p : Nat) (rest : Sched) : plensOf i ((i, p) :: rest) = p :: plensOf i rest := by
  simp [plensOf]

theorem plensOf_cons_other {i j : Nat} (p : Nat) (rest : Sched) (h : j ≠ i) :
    plensOf i ((j, p) :: rest) = plensOf i rest := by
  simp [plensOf, h]

theorem plensOf_append (i : Nat) (a b : Sched) : plensOf i (a ++ b) = plensOf i a ++ plensOf i b := by
  simp [plensOf]

theorem plensOf_replicate_same (i p n : Nat) : plensOf i (List.replicate n (i, p)) = List.replicate n p := by
  induction n with
  | zero => rfl
  | succ n ih => rw [List.replicate_succ, plensOf_cons_same, ih, List.replicate_succ]

theorem plensOf_replicate_other {i j : Nat} (p n : Nat) (h : j ≠ i) :
    plensOf i (List.replicate n (j, p)) = [] := by
  induction n with
  | zero => rfl
  | succ n ih => rw [List.replicate_succ, plensOf_cons_other _ _ h, ih]

/-- the calls the final reading adds for reader `i` -/
theorem plensOf_drainFrom (plen i : Nat) : ∀ (raws : List Bytes) (k : Nat),
    plensOf i (drainFrom plen k raws) =
      if k ≤ i then (match raws[i - k]? with
        | some raw => List.replicate (2 * raw.length + 2) plen
        | none => []) else [] := by
  intro raws
  induction raws with
  | nil => intro k; simp [drainFrom, plensOf]
  | cons raw rest ih =>
    intro k
    unfold drainFrom
    rw [plensOf_append, ih (k + 1)]
    by_cases hk : k = i
    · subst hk
      rw [plensOf_replicate_same]
      simp
      intro h; omega
    · rw [plensOf_replicate_other _ _ hk]
      by_cases hle : k ≤ i
      · have h1 : k + 1 ≤ i := by omega
        have h2 : i - k = (i - (k + 1)) + 1 := by omega
        simp only [hle, h1, if_true, List.nil_append]
        rw [h2, List.getElem?_cons_succ]
      · have h1 : ¬ (k + 1 ≤ i) := by omega
        simp [hle, h1]

theorem readUntil_fin : ∀ (plens : List Nat) (s : SR) (g : Got), g.fin.isSome = true →
    SR.readUntil s g plens = .ok (s, g) := by
  intro plens
  induction plens with
  | nil => intro s g _; rfl
  | cons p rest ih => intro s g h; unfold SR.readUntil; simp only [h, if_true]; exact ih s g h

theorem readUntil_cons (s : SR) (g : Got) (p : Nat) (rest : List Nat) :
    SR.readUntil s g (p :: rest) =
      if g.fin.isSome then SR.readUntil s g rest
      else match s.read p with
        | .error e => .error e
        | .ok (s', o) => SR.readUntil s' (g.add o) rest := by
  rw [SR.readUntil]
  split <;> rfl

theorem readUntil_append : ∀ (p q : List Nat) (s : SR) (g : Got),
    SR.readUntil s g (p ++ q) =
      match SR.readUntil s g p with
      | .error e => .error e
      | .ok (s', g') => SR.readUntil s' g' q := by
  intro p
  induction p with
  | nil => intro q s g; rfl
  | cons x rest ih =>
    intro q s g
    rw [List.cons_append, readUntil_cons, readUntil_cons]
    by_cases hf : g.fin.isSome = true
    · simp only [hf, if_true]; exact ih q s g
    · have hf' : g.fin.isSome = false := by simpa using hf
      simp only [hf', Bool.false_eq_true, if_false]
      cases hr : s.read x with
      | error e => rfl
      | ok v => obtain ⟨s', o⟩ := v; exact ih q s' _

/-- `Indep.run` is nothing but every reader on its own: it fails only if some reader alone fails on
its own calls, and otherwise every reader is where its own calls take it -/
theorem indep_run_char : ∀ (sched : Sched) (srs : Nat → Option SR) (g : Nat → Got),
    match Indep.run srs g sched with
    | .error e => ∃ i s, srs i = some s ∧ SR.readUntil s (g i) (plensOf i sched) = .error e
    | .ok (srs', g') => ∀ i, match srs i with
      | some s => ∃ s', SR.readUntil s (g i) (plensOf i sched) = .ok (s', g' i) ∧ srs' i = some s'
      | none => srs' i = none := by
  intro sched
  induction sched with
  | nil =>
    intro srs g
    simp only [Indep.run]
    intro i
    cases srs i with
    | none => rfl
    | some s => exact ⟨s, rfl, rfl⟩
  | cons st rest ih =>
    intro srs g
    obtain ⟨i0, plen⟩ := st
    unfold Indep.run
    by_cases hfin : (g i0).fin.isSome = true
    · simp only [hfin, if_true]
      have h := ih srs g
      cases hrun : Indep.run srs g rest with
      | error e =>
        rw [hrun] at h
        obtain ⟨i, s, hs, hr⟩ := h
        refine ⟨i, s, hs, ?_⟩
        by_cases hi : i0 = i
        · subst hi
          rw [plensOf_cons_same]; unfold SR.readUntil; simp only [hfin, if_true]; exact hr
        · rw [plensOf_cons_other _ _ hi]; exact hr
      | ok v =>
        obtain ⟨srs', g'⟩ := v
        rw [hrun] at h
        intro i
        have hi := h i
        by_cases hii : i0 = i
        · subst hii
          cases hs : srs i0 with
          | none => rw [hs] at hi; exact hi
          | some s =>
            rw [hs] at hi
            simp only at hi ⊢
            rw [plensOf_cons_same]; unfold SR.readUntil; simp only [hfin, if_true]; exact hi
        · rw [plensOf_cons_other _ _ hii]; exact hi
    · have hfin' : (g i0).fin.isSome = false := by simpa using hfin
      simp only [hfin', Bool.false_eq_true, if_false]
      cases hs0 : srs i0 with
      | none =>
        simp only
        have h := ih srs (setGot g i0 ((g i0).add { data := [], err := none, consumed := [] }))
        cases hrun : Indep.run srs (setGot g i0 ((g i0).add { data := [], err := none, consumed := [] })) rest with
        | error e =>
          rw [hrun] at h
          obtain ⟨i, s, hs, hr⟩ := h
          have hi : i0 ≠ i := by intro he; subst he; rw [hs0] at hs; cases hs
          refine ⟨i, s, hs, ?_⟩
          rw [plensOf_cons_other _ _ hi]
          simpa [setGot, Ne.symm hi] using hr
        | ok v =>
          obtain ⟨srs', g'⟩ := v
          rw [hrun] at h
          intro i
          have hi := h i
          by_cases hii : i0 = i
          · subst hii
            rw [hs0] at hi ⊢
            exact hi
          · rw [plensOf_cons_other _ _ hii]
            simpa [setGot, Ne.symm hii] using hi
      | some s0 =>
        simp only
        cases hread : s0.read plen with
        | error e =>
          simp only
          refine ⟨i0, s0, hs0, ?_⟩
          rw [plensOf_cons_same]; unfold SR.readUntil
          simp only [hfin', Bool.false_eq_true, if_false, hread]
        | ok v =>
          obtain ⟨s1, o⟩ := v
          simp only
          have h := ih (fun j => if j = i0 then some s1 else srs j) (setGot g i0 ((g i0).add o))
          cases hrun : Indep.run (fun j => if j = i0 then some s1 else srs j) (setGot g i0 ((g i0).add o)) rest with
          | error e =>
            rw [hrun] at h
            obtain ⟨i, s, hs, hr⟩ := h
            by_cases hii : i = i0
            · subst hii
              simp only [if_true, Option.some.injEq] at hs
              subst hs
              refine ⟨i, s0, hs0, ?_⟩
              rw [plensOf_cons_same]; unfold SR.readUntil
              simp only [hfin', Bool.false_eq_true, if_false, hread]
              simpa [setGot] using hr
            · simp only [hii, if_false] at hs
              refine ⟨i, s, hs, ?_⟩
              rw [plensOf_cons_other _ _ (Ne.symm hii)]
              simpa [setGot, hii] using hr
          | ok v =>
            obtain ⟨srs', g'⟩ := v
            rw [hrun] at h
            intro i
            have hi := h i
            by_cases hii : i = i0
            · subst hii
              simp only [if_true] at hi
              rw [hs0]
              simp only
              obtain ⟨s', hr, hsr⟩ := hi
              refine ⟨s', ?_, hsr⟩
              rw [plensOf_cons_same]; unfold SR.readUntil
              simp only [hfin', Bool.false_eq_true, if_false, hread]
              simpa [setGot] using hr
            · simp only [hii, if_false] at hi
              rw [plensOf_cons_other _ _ (Ne.symm hii)]
              simpa [setGot, hii] using hi

theorem rel_init (raws : List Bytes) : Rel (Shared.init raws) (Indep.init raws) := by
  constructor
  · intro j r hj
    simp only [Shared.init] at hj
    cases hraw : raws[j]? with
    | none => rw [hraw] at hj; cases hj
    | some raw =>
      rw [hraw] at hj
      simp only [Option.map_some, Option.some.injEq] at hj
      subst hj
      exact ⟨{ inp := raw }, by simp [Indep.init, hraw], rfl, rfl, by simp [deref], rfl⟩
  · intro j hj
    simp only [Shared.init] at hj
    cases hraw : raws[j]? with
    | none => simp [Indep.init, hraw]
    | some raw => rw [hraw] at hj; cases hj

/-! ### one reader over a framing, called with any buffer sizes -/

/-- one `Read` with a non-empty buffer over what is left of a framing: either the stream ends
(nothing was left), or bytes of the stdout still due are delivered and the reader is again at a
framing — a strictly smaller one by `callBound` -/
theorem read_framing (rid : Nat) (hid : rid < 65536) (tail : Bytes) (plen : Nat) (hp : 0 < plen)
    (ps : List Piece) (b e : Bytes) (hws : WellSized ps) :
    ∃ s' o, SR.read { inp := framing rid ps tail, buf := b, stderr := e } plen = .ok (s', o) ∧
      ((o.err = some .eof ∧ o.data = [] ∧ b = [] ∧ (outsOf ps).flatten = [] ∧ s'.stderr = e ++ errsOf ps) ∨
       (o.err = none ∧ ∃ ps' b' e', WellSized ps' ∧ s' = { inp := framing rid ps' tail, buf := b', stderr := e' } ∧
          b ++ (outsOf ps).flatten = o.data ++ b' ++ (outsOf ps').flatten ∧
          e ++ errsOf ps = e' ++ errsOf ps' ∧ callBound ps' b' < callBound ps b)) := by
  unfold SR.read
  have hp0 : ¬ (plen = 0) := by omega
  simp only [hp0, if_false]
  by_cases hb : b.length ≠ 0
  · rw [if_pos (show ({ inp := framing rid ps tail, buf := b, stderr := e } : SR).buf.length ≠ 0 from hb)]
    refine ⟨_, _, rfl, Or.inr ⟨rfl, ps, List.drop (min plen b.length) b, e, hws, rfl, ?_, rfl, ?_⟩⟩
    · simp only [List.take_append_drop]
    · unfold callBound
      simp only [List.length_drop]
      omega
  · have hb0 : b = [] := List.length_eq_zero_iff.mp (by omega)
    subst hb0
    rw [if_neg (show ¬ (({ inp := framing rid ps tail, buf := [], stderr := e } : SR).buf.length ≠ 0) from hb)]
    have hfuel : ∀ qs : List Piece, qs.length < (framing rid qs tail).length + 1 := fun qs => framing_length rid qs tail
    rcases pieces_split ps with hall | ⟨pre, q, qs, hps, hpre, hq⟩
    · obtain ⟨rest, c, hfill, _⟩ := fill_allErr rid hid tail ps _ e [] hws hall (hfuel ps)
      rw [hfill]
      exact ⟨_, _, rfl, Or.inl ⟨rfl, rfl, rfl, by simp [outsOf_allErr hall], rfl⟩⟩
    · subst hps
      have hlen : pre.length < (framing rid (pre ++ q :: qs) tail).length + 1 := by
        have := hfuel (pre ++ q :: qs)
        simp only [List.length_append, List.length_cons] at this
        omega
      obtain ⟨c, hfill, _⟩ := fill_split rid hid tail q qs hq pre _ e [] hws hpre hlen
      rw [hfill]
      have hwsq : WellSized qs := fun x hx => hws x (by simp; right; right; exact hx)
      refine ⟨_, _, rfl, Or.inr ⟨rfl, qs, List.drop (min plen q.content.length) q.content, e ++ errsOf pre,
        hwsq, rfl, ?_, ?_, ?_⟩⟩
      · simp only [outsOf_split hpre hq, List.flatten_cons, List.nil_append]
        rw [List.take_append_drop]
      · rw [errsOf_split hq, List.append_assoc]
      · unfold callBound
        simp only [List.length_drop, List.map_append, List.map_cons, List.sum_append, List.sum_cons,
          List.length_nil]
        omega

/-- where a reader and its caller are while the responder's output `total` / `totalErr`, framed
in some way, is being read: on the way (the bytes received, the remainder of the current record
and the stdout of the records to come make up `total`; at most `bound` more calls are needed), or
at the clean end with exactly `total` received and exactly `totalErr` in the error log -/
def OnWay (rid : Nat) (tail total totalErr : Bytes) (bound : Nat) (s : SR) (g : Got) : Prop :=
  (g.fin = none ∧ ∃ ps, WellSized ps ∧ s.inp = framing rid ps tail ∧
      g.data ++ s.buf ++ (outsOf ps).flatten = total ∧ s.stderr ++ errsOf ps = totalErr ∧
      callBound ps s.buf ≤ bound) ∨
  (g.fin = some .eof ∧ g.data = total ∧ s.stderr = totalErr)

theorem onWay_mono {rid : Nat} {tail total totalErr : Bytes} {b b' : Nat} {s : SR} {g : Got}
    (h : OnWay rid tail total totalErr b s g) (hb : b ≤ b') : OnWay rid tail total totalErr b' s g := by
  rcases h with ⟨h1, ps, h2, h3, h4, h5, h6⟩ | h
  · exact Or.inl ⟨h1, ps, h2, h3, h4, h5, Nat.le_trans h6 hb⟩
  · exact Or.inr h

theorem callBound_pos (ps : List Piece) (b : Bytes) : 0 < callBound ps b := by
  unfold callBound; omega

/-- one call (any buffer size, zero included) keeps the reader on its way; a call with a non-empty
buffer brings it closer to the end -/
theorem onWay_step {rid : Nat} (hid : rid < 65536) {tail total totalErr : Bytes} {bound : Nat} {s : SR} {g : Got}
    (h : OnWay rid tail total totalErr bound s g) (hfin : g.fin = none) (plen : Nat) :
    ∃ s' o, s.read plen = .ok (s', o) ∧ OnWay rid tail total totalErr (if plen = 0 then bound else bound - 1) s' (g.add o) := by
  rcases h with ⟨_, ps, hws, hinp, hdata, herr, hbound⟩ | ⟨h1, _, _⟩
  · by_cases hp : plen = 0
    · subst hp
      refine ⟨s, { data := [], err := none, consumed := [] }, by simp [SR.read], ?_⟩
      simp only [if_true]
      exact Or.inl ⟨rfl, ps, hws, hinp, by simpa [Got.add] using hdata, herr, hbound⟩
    · have hs : s = { inp := framing rid ps tail, buf := s.buf, stderr := s.stderr } := by
        cases s; simp only at hinp; subst hinp; rfl
      obtain ⟨s', o, hread, hcase⟩ := read_framing rid hid tail plen (by omega) ps s.buf s.stderr hws
      rw [← hs] at hread
      refine ⟨s', o, hread, ?_⟩
      simp only [hp, if_false]
      rcases hcase with ⟨e1, e2, e3, e4, e5⟩ | ⟨e1, ps', b', e', hws', hs', hd', he', hcb⟩
      · refine Or.inr ⟨by simp [Got.add, e1], ?_, ?_⟩
        · simp only [Got.add, e2, List.append_nil]
          rw [e3, e4] at hdata
          simpa using hdata
        · rw [e5, herr]
      · refine Or.inl ⟨by simp [Got.add, e1], ps', hws', by rw [hs'], ?_, ?_, ?_⟩
        · simp only [Got.add, hs']
          rw [← hdata]
          simp only [List.append_assoc] at hd' ⊢
          rw [hd']
        · rw [hs']; simp only; rw [← he', herr]
        · rw [hs']; simp only; omega
  · rw [hfin] at h1; cases h1

/-- any calls whatever keep it on its way -/
theorem readUntil_onWay {rid : Nat} (hid : rid < 65536) {tail total totalErr : Bytes} :
    ∀ (plens : List Nat) (bound : Nat) (s : SR) (g : Got), OnWay rid tail total totalErr bound s g →
    ∃ s' g', SR.readUntil s g plens = .ok (s', g') ∧ OnWay rid tail total totalErr bound s' g' := by
  intro plens
  induction plens with
  | nil => intro bound s g h; exact ⟨s, g, rfl, h⟩
  | cons p rest ih =>
    intro bound s g h
    rw [readUntil_cons]
    cases hf : g.fin with
    | some e => simp only [Option.isSome_some, if_true]; exact ih bound s g h
    | none =>
      simp only [Option.isSome_none, Bool.false_eq_true, if_false]
      obtain ⟨s', o, hread, h'⟩ := onWay_step hid h hf p
      rw [hread]
      simp only
      exact ih bound s' _ (onWay_mono h' (by split <;> omega))

/-- and `bound` calls with a non-empty buffer take it to the end -/
theorem readUntil_drain {rid : Nat} (hid : rid < 65536) {tail total totalErr : Bytes} (plen : Nat) (hp : 0 < plen) :
    ∀ (n bound : Nat) (s : SR) (g : Got), OnWay rid tail total totalErr bound s g → bound ≤ n →
    ∃ s' g', SR.readUntil s g (List.replicate n plen) = .ok (s', g') ∧
      g'.fin = some .eof ∧ g'.data = total ∧ s'.stderr = totalErr := by
  intro n
  induction n with
  | zero =>
    intro bound s g h hb
    rcases h with ⟨_, ps, _, _, _, _, hcb⟩ | ⟨h1, h2, h3⟩
    · have := callBound_pos ps s.buf; omega
    · exact ⟨s, g, rfl, h1, h2, h3⟩
  | succ n ih =>
    intro bound s g h hb
    rw [List.replicate_succ, readUntil_cons]
    cases hf : g.fin with
    | some e =>
      simp only [Option.isSome_some, if_true]
      rcases h with ⟨h1, _⟩ | ⟨h1, h2, h3⟩
      · rw [hf] at h1; cases h1
      · rw [readUntil_fin _ _ _ (by simp [hf])]
        exact ⟨s, g, rfl, h1, h2, h3⟩
    | none =>
      simp only [Option.isSome_none, Bool.false_eq_true, if_false]
      obtain ⟨s', o, hread, h'⟩ := onWay_step hid h hf plen
      rw [hread]
      simp only
      have hp0 : ¬ (plen = 0) := by omega
      simp only [hp0, if_false] at h'
      exact ih (bound - 1) s' _ h' (by omega)

/-- a responder's output and its framing -/
structure Fr where
  rid  : Nat
  ps   : List Piece
  tail : Bytes

def Fr.bytes (f : Fr) : Bytes := framing f.rid f.ps f.tail
def Fr.Ok (f : Fr) : Prop := f.rid < 65536 ∧ WellSized f.ps

/-- what the caller of a reader over the framing must end up with -/
def Fr.ending (f : Fr) : Ending := { out := (outsOf f.ps).flatten, fin := some .eof, stderr := errsOf f.ps }

/-- one reader alone over a framing: any calls, then the final reading — exactly stdout, a clean
end, exactly stderr in the error log -/
theorem readUntil_framing (f : Fr) (hf : f.Ok) (plens : List Nat) (drain : Nat) (hd : 0 < drain) :
    ∃ s', SR.readUntil { inp := f.bytes } {} (plens ++ List.replicate (2 * f.bytes.length + 2) drain) =
        .ok (s', { data := (outsOf f.ps).flatten, fin := some .eof }) ∧ s'.stderr = errsOf f.ps := by
  have h0 : OnWay f.rid f.tail (outsOf f.ps).flatten (errsOf f.ps) (callBound f.ps [])
      { inp := f.bytes } {} :=
    Or.inl ⟨rfl, f.ps, hf.2, rfl, by simp, by simp, Nat.le_refl _⟩
  obtain ⟨s1, g1, hr1, h1⟩ := readUntil_onWay hf.1 plens _ _ _ h0
  obtain ⟨s2, g2, hr2, e1, e2, e3⟩ := readUntil_drain hf.1 drain hd (2 * f.bytes.length + 2) _ s1 g1 h1
    (callBound_le f.rid f.ps f.tail)
  refine ⟨s2, ?_, e3⟩
  rw [readUntil_append, hr1]
  simp only
  rw [hr2]
  cases g2
  simp only at e1 e2
  subst e1 e2
  rfl

/-! ### the whole of c13.overlap, level r -/

theorem range_map_eq_map {α β : Type} (l : List α) (f : Nat → β) (g : α → β)
    (h : ∀ i a, l[i]? = some a → f i = g a) : (List.range l.length).map f = l.map g := by
  apply List.ext_getElem?
  intro i
  simp only [List.getElem?_map]
  by_cases hi : i < l.length
  · rw [List.getElem?_range hi]
    have : l[i]? = some l[i] := List.getElem?_eq_getElem hi
    simp only [Option.map_some, this]
    rw [h i _ this]
  · have h1 : (List.range l.length)[i]? = none := List.getElem?_eq_none (by simp; omega)
    have h2 : l[i]? = none := List.getElem?_eq_none (by omega)
    simp [h1, h2]

/-- For every safe allocator, every list of responders' framings, every schedule and every final
buffer size: every caller ends up with exactly its own responder's stdout, a clean end, and exactly
its own responder's stderr in its error log. -/
theorem overlap_framings (a : Alloc) (ha : a.Safe) (fs : List Fr) (hfs : ∀ f ∈ fs, f.Ok)
    (sched : Sched) (drain : Nat) (hd : 0 < drain) :
    overlapRun a (fs.map Fr.bytes) sched drain = .ok (fs.map Fr.ending) := by
  -- every reader on its own
  have hiso : ∀ i f, fs[i]? = some f →
      ∃ s', SR.readUntil { inp := f.bytes } {} (plensOf i (sched ++ drainSched (fs.map Fr.bytes) drain)) =
        .ok (s', { data := (outsOf f.ps).flatten, fin := some .eof }) ∧ s'.stderr = errsOf f.ps := by
    intro i f hif
    have hmem : f ∈ fs := List.mem_of_getElem? hif
    rw [plensOf_append]
    unfold drainSched
    rw [plensOf_drainFrom]
    simp only [Nat.zero_le, if_true, Nat.sub_zero, List.getElem?_map, hif, Option.map_some]
    exact readUntil_framing f (hfs f hmem) _ drain hd
  -- the isolated system
  have hchar := indep_run_char (sched ++ drainSched (fs.map Fr.bytes) drain) (Indep.init (fs.map Fr.bytes)) (fun _ => {})
  have hsim := run_sim a ha (sched ++ drainSched (fs.map Fr.bytes) drain) _ _ (fun _ => {}) (rel_init (fs.map Fr.bytes))
  unfold overlapRun
  cases hrun : Indep.run (Indep.init (fs.map Fr.bytes)) (fun _ => {}) (sched ++ drainSched (fs.map Fr.bytes) drain) with
  | error e =>
    rw [hrun] at hchar
    obtain ⟨i, s, hs, hr⟩ := hchar
    exfalso
    simp only [Indep.init, List.getElem?_map] at hs
    cases hif : fs[i]? with
    | none => rw [hif] at hs; cases hs
    | some f =>
      rw [hif] at hs
      simp only [Option.map_some, Option.some.injEq] at hs
      subst hs
      obtain ⟨s', hok, _⟩ := hiso i f hif
      rw [hok] at hr
      cases hr
  | ok v =>
    obtain ⟨srs', g'⟩ := v
    rw [hrun] at hchar hsim
    obtain ⟨sh', hshared, hrel'⟩ := hsim
    rw [hshared]
    simp only [List.length_map]
    congr 1
    apply range_map_eq_map
    intro i f hif
    have hi := hchar i
    simp only [Indep.init, List.getElem?_map, hif, Option.map_some] at hi
    obtain ⟨s', hr, hsr⟩ := hi
    obtain ⟨s'', hok, herr⟩ := hiso i f hif
    rw [hok] at hr
    simp only [Except.ok.injEq, Prod.mk.injEq] at hr
    obtain ⟨hs', hg⟩ := hr
    subst hs'
    cases hri : sh'.readers i with
    | none => rw [hrel'.2 i hri] at hsr; cases hsr
    | some r =>
      obtain ⟨s0, hs0, htr⟩ := hrel'.1 i r hri
      rw [hsr] at hs0
      cases hs0
      simp only [Fr.ending, ← hg, Option.map_some, Option.getD_some, htr.2.1, herr]

theorem firstBad_all_ok (what : String) : ∀ (l : List String) (n : Nat), (∀ v ∈ l, v = "ok") →
    Casket.FCGISpec.firstBad what n l = "ok" := by
  intro l
  induction l with
  | nil => intro n _; rfl
  | cons v rest ih =>
    intro n h
    have hv : v = "ok" := h v (List.mem_cons_self ..)
    subst hv
    simp only [Casket.FCGISpec.firstBad, beq_self_eq_true, if_true]
    exact ih (n + 1) (fun x hx => h x (List.mem_cons_of_mem _ hx))

/-- so the judge of c13.overlap accepts the model's answer -/
theorem overlapVerdict_endings (fs : List Fr) :
    Casket.FCGISpec.overlapVerdict (fs.map fun f => ((outsOf f.ps).flatten, errsOf f.ps)) (fs.map Fr.ending) = "ok" := by
  unfold Casket.FCGISpec.overlapVerdict
  simp only [List.length_map, ne_eq, not_true_eq_false, if_false]
  apply firstBad_all_ok
  intro v hv
  rw [List.zip_map', List.map_map] at hv
  simp only [List.mem_map] at hv
  obtain ⟨f, _, rfl⟩ := hv
  simp [Casket.FCGISpec.endingVerdict, Fr.ending]

/-- the shared run succeeds exactly when the isolated readers do, with the same answers: the
per-reader form of `run_sim` -/
theorem shared_run_reader (a : Alloc) (ha : a.Safe) (raws : List Bytes) (sched : Sched)
    (sh' : Shared) (g' : Nat → Got)
    (h : Shared.run a (Shared.init raws) (fun _ => {}) sched = .ok (sh', g'))
    (i : Nat) (raw : Bytes) (hi : raws[i]? = some raw) :
    ∃ s' r', SR.readUntil { inp := raw } {} (plensOf i sched) = .ok (s', g' i) ∧
      sh'.readers i = some r' ∧ r'.stderr = s'.stderr := by
  have hchar := indep_run_char sched (Indep.init raws) (fun _ => {})
  have hsim := run_sim a ha sched _ _ (fun _ => {}) (rel_init raws)
  cases hrun : Indep.run (Indep.init raws) (fun _ => {}) sched with
  | error e => rw [hrun] at hsim; rw [hsim] at h; cases h
  | ok v =>
    obtain ⟨srs', g''⟩ := v
    rw [hrun] at hsim hchar
    obtain ⟨sh'', hshared, hrel'⟩ := hsim
    rw [hshared] at h
    simp only [Except.ok.injEq, Prod.mk.injEq] at h
    obtain ⟨h1, h2⟩ := h
    subst h1 h2
    have hci := hchar i
    simp only [Indep.init, hi, Option.map_some] at hci
    obtain ⟨s', hr, hsr⟩ := hci
    cases hri : sh''.readers i with
    | none => rw [hrel'.2 i hri] at hsr; cases hsr
    | some r =>
      obtain ⟨s0, hs0, htr⟩ := hrel'.1 i r hri
      rw [hsr] at hs0
      cases hs0
      exact ⟨s', r, hr, rfl, htr.2.1⟩

/-- and it does succeed whenever every reader alone gets through its own calls -/
theorem shared_run_total (a : Alloc) (ha : a.Safe) (raws : List Bytes) (sched : Sched)
    (hall : ∀ i raw, raws[i]? = some raw →
      ∃ res, SR.readUntil { inp := raw } {} (plensOf i sched) = .ok res) :
    ∃ sh' g', Shared.run a (Shared.init raws) (fun _ => {}) sched = .ok (sh', g') := by
  have hchar := indep_run_char sched (Indep.init raws) (fun _ => {})
  have hsim := run_sim a ha sched _ _ (fun _ => {}) (rel_init raws)
  cases hrun : Indep.run (Indep.init raws) (fun _ => {}) sched with
  | error e =>
    rw [hrun] at hchar
    obtain ⟨i, s, hs, hr⟩ := hchar
    exfalso
    simp only [Indep.init] at hs
    cases hraw : raws[i]? with
    | none => rw [hraw] at hs; cases hs
    | some raw =>
      rw [hraw] at hs
      simp only [Option.map_some, Option.some.injEq] at hs
      subst hs
      obtain ⟨res, hok⟩ := hall i raw hraw
      rw [hok] at hr
      cases hr
  | ok v =>
    obtain ⟨srs', g'⟩ := v
    rw [hrun] at hsim
    obtain ⟨sh', hshared, _⟩ := hsim
    exact ⟨sh', g', hshared⟩

theorem allocFresh_safe : allocFresh.Safe := by
  intro sh k h
  cases h

end Casket.FCGI
