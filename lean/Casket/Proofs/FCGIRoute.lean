import Casket.Model.FCGIRoute
import Casket.Spec.FCGIRoute
import Casket.Proofs.PeerBytes
/-
Helper lemmas for the routing part of C13.
-/
namespace Casket.Fault

/-- completeness of `indexOf`: an occurrence anywhere is found -/
theorem indexOfAux_complete (sub : Bytes) : ∀ (s : Bytes) (k : Nat) (pre post : Bytes),
    s = pre ++ sub ++ post → (indexOfAux sub s k).isSome = true := by
  intro s
  induction s with
  | nil =>
    intro k pre post h
    have hsub : sub = [] := by
      have := congrArg List.length h
      simp at this
      exact List.length_eq_zero_iff.mp (by omega)
    simp [indexOfAux, hsub]
  | cons c cs ih =>
    intro k pre post h
    simp only [indexOfAux]
    split
    · rfl
    · rename_i hnp
      cases pre with
      | nil =>
        exfalso
        apply hnp
        rw [List.isPrefixOf_iff_prefix]
        exact ⟨post, by simpa using h.symm⟩
      | cons p pre' =>
        have : cs = pre' ++ sub ++ post := by
          simp only [List.cons_append] at h
          exact (List.cons.inj h).2
        exact ih (k + 1) pre' post this

theorem indexOf_complete {s sub : Bytes} (pre post : Bytes) (h : s = pre ++ sub ++ post) :
    (indexOf s sub).isSome = true := indexOfAux_complete sub s 0 pre post h

end Casket.Fault

namespace Casket.Fault

/-- `indexOf` returns the FIRST occurrence: the pattern does not occur at any earlier offset -/
theorem indexOfAux_first (sub : Bytes) : ∀ (s : Bytes) (k i : Nat), indexOfAux sub s k = some i →
    ∀ j, k ≤ j → j < i → ¬ (sub <+: s.drop (j - k)) := by
  intro s
  induction s with
  | nil =>
    intro k i h j hkj hji
    simp only [indexOfAux] at h
    split at h
    · have : k = i := by simpa using h
      omega
    · simp at h
  | cons c cs ih =>
    intro k i h j hkj hji
    simp only [indexOfAux] at h
    split at h
    · have : k = i := by simpa using h
      omega
    · rename_i hnp
      by_cases hjk : j = k
      · subst hjk
        simp only [Nat.sub_self, List.drop_zero]
        intro hp
        exact hnp (List.isPrefixOf_iff_prefix.mpr hp)
      · have := ih (k + 1) i h j (by omega) hji
        have e : j - k = (j - (k + 1)) + 1 := by omega
        rw [e, List.drop_succ_cons]
        exact this

theorem indexOf_first {s sub : Bytes} {i : Nat} (h : indexOf s sub = some i) :
    ∀ j, j < i → ¬ (sub <+: s.drop j) := by
  intro j hj
  have := indexOfAux_first sub s 0 i h j (Nat.zero_le _) hj
  simpa using this

theorem indexOf_at {s sub : Bytes} {i : Nat} (h : indexOf s sub = some i) : sub <+: s.drop i := by
  have := (indexOfAux_spec sub s 0 i h).2.2
  simpa using this

theorem indexOf_none {s sub : Bytes} (h : indexOf s sub = none) : ∀ j, ¬ (sub <+: s.drop j) := by
  intro j hp
  obtain ⟨t, ht⟩ := hp
  have hs : s = s.take j ++ sub ++ t := by
    rw [List.append_assoc, ht, List.take_append_drop]
  have := indexOf_complete (s.take j) t hs
  rw [h] at this
  cases this

end Casket.Fault

namespace Casket.FCGIRoute
open Casket.Fault Casket.FCGIRouteSpec

theorem hasSuffix_iff {s p : Bytes} : hasSuffix s p = true ↔ ∃ pre, s = pre ++ p := by
  unfold hasSuffix
  rw [List.isPrefixOf_iff_prefix]
  constructor
  · rintro ⟨t, ht⟩
    refine ⟨t.reverse, ?_⟩
    have := congrArg List.reverse ht
    simpa using this.symm
  · rintro ⟨pre, rfl⟩
    exact ⟨pre.reverse, by simp⟩

/-- the rule's split string can be found in any path that ends with the rule's extension:
no split string, or one that occurs in the extension (the `php` preset: both are `.php`) -/
def SplitInExt (rule : Rule) : Prop :=
  ∃ a b, toLower rule.ext = a ++ toLower rule.split ++ b

theorem splitPos_isSome (cs : Bool) (rule : Rule) (p : Bytes) (hs : SplitInExt rule)
    (hsuf : hasSuffix (toLower p) (toLower rule.ext) = true) : (splitPos cs rule p).isSome = true := by
  obtain ⟨a, b, hab⟩ := hs
  obtain ⟨pre, hpre⟩ := hasSuffix_iff.mp hsuf
  have hl : (indexOf (toLower p) (toLower rule.split)).isSome = true :=
    indexOf_complete (pre ++ a) b (by rw [hpre, hab]; simp)
  unfold splitPos
  cases cs with
  | false => simpa using hl
  | true =>
    simp only [if_true]
    cases indexOf p rule.split with
    | some i => rfl
    | none => simpa using hl

theorem indexFile_none (fs : FS) (fpath : Bytes) (index : List Bytes)
    (hne : fpath ≠ []) (hl : fpath.getLast? ≠ some slash) : indexFile fs fpath index = none := by
  unfold indexFile
  have : fpath.isEmpty = false := by cases fpath <;> simp_all
  simp [this, hl]

theorem covers_nonempty {cs : Bool} {fs : FS} {urlPath : Bytes} {rule : Rule}
    (hc : ruleCovers cs fs urlPath rule = true) : urlPath ≠ [] ∧ urlPath.getLast? ≠ some slash := by
  simp only [ruleCovers, Bool.and_eq_true, Bool.not_eq_true', bne_iff_ne, ne_eq] at hc
  obtain ⟨⟨⟨⟨⟨hext, _⟩, _⟩, _⟩, hlast⟩, hsuf⟩ := hc
  refine ⟨?_, hlast⟩
  intro he
  rw [he] at hsuf
  have : toLower rule.ext = [] := by
    obtain ⟨pre, hp⟩ := hasSuffix_iff.mp hsuf
    simp [toLower] at hp
    simpa [toLower] using hp.2
  have : rule.ext = [] := by simpa [toLower] using this
  simp [this] at hext

theorem scriptPath_plain (fs : FS) (urlPath : Bytes) (rule : Rule)
    (hne : urlPath ≠ []) (hlast : urlPath.getLast? ≠ some slash)
    (htrim : trimRightSpDot urlPath = urlPath) : scriptPath fs urlPath rule = (urlPath, false) := by
  unfold scriptPath
  rw [htrim, indexFile_none fs urlPath rule.index hne hlast]

/-- a rule that covers the request sends it -/
theorem tryRule_covers (cs : Bool) (fs : FS) (urlPath : Bytes) (rule : Rule)
    (hc : ruleCovers cs fs urlPath rule = true) (hs : SplitInExt rule)
    (htrim : trimRightSpDot urlPath = urlPath) : tryRule cs fs urlPath rule = .sent urlPath := by
  obtain ⟨hne, hlast⟩ := covers_nonempty hc
  simp only [ruleCovers, Bool.and_eq_true, Bool.not_eq_true', bne_iff_ne, ne_eq] at hc
  obtain ⟨⟨⟨⟨⟨_, hpm⟩, hal⟩, _hfile⟩, _⟩, hsuf⟩ := hc
  unfold tryRule
  rw [scriptPath_plain fs urlPath rule hne hlast htrim]
  have happ : ruleApplies cs urlPath rule = true := by simp [ruleApplies, hpm, hal]
  simp only [happ, Bool.not_true, Bool.false_eq_true, if_false]
  unfold decideScript
  have hsp := splitPos_isSome cs rule urlPath hs hsuf
  have : (splitPos cs rule urlPath).isNone = false := by
    cases h : splitPos cs rule urlPath <;> simp_all
  simp [this, hsuf]

/-- no rule answers 500 for a path that does not end with a slash -/
theorem tryRule_no_err500 (cs : Bool) (fs : FS) (urlPath : Bytes) (rule : Rule)
    (hne : urlPath ≠ []) (hlast : urlPath.getLast? ≠ some slash)
    (htrim : trimRightSpDot urlPath = urlPath) : tryRule cs fs urlPath rule ≠ .err500 := by
  unfold tryRule
  rw [scriptPath_plain fs urlPath rule hne hlast htrim]
  unfold decideScript
  simp only [Bool.false_eq_true, if_false]
  repeat' split
  all_goals simp

theorem routeFrom_sent (cs : Bool) (fs : FS) (urlPath : Bytes)
    (hne : urlPath ≠ []) (hlast : urlPath.getLast? ≠ some slash)
    (htrim : trimRightSpDot urlPath = urlPath) :
    ∀ (rules : List Rule) (i : Nat),
      (∃ r ∈ rules, ruleCovers cs fs urlPath r = true ∧ SplitInExt r) →
      ∃ j f, routeFrom cs fs urlPath rules i = .sent j f := by
  intro rules
  induction rules with
  | nil => intro i ⟨r, hr, _⟩; cases hr
  | cons r rest ih =>
    intro i ⟨r0, hr0, hc, hs⟩
    unfold routeFrom
    cases ht : tryRule cs fs urlPath r with
    | sent f => exact ⟨i, f, rfl⟩
    | err500 => exact absurd ht (tryRule_no_err500 cs fs urlPath r hne hlast htrim)
    | cont =>
      simp only
      rcases List.mem_cons.mp hr0 with rfl | hmem
      · rw [tryRule_covers cs fs urlPath r0 hc hs htrim] at ht
        cases ht
      · exact ih (i + 1) ⟨r0, hmem, hc, hs⟩

end Casket.FCGIRoute

/-! ### trailing dots and spaces -/
namespace Casket.FCGIRoute
open Casket.Fault Casket.FCGIRouteSpec

def isSpDot (b : UInt8) : Bool := b == 0x20 || b == dot

/-- the rule's extension does not end in a dot or a space (it would name no file `TrimRight`
leaves alone) -/
def ExtPlain (rule : Rule) : Prop := ∀ b, rule.ext.getLast? = some b → isSpDot b = false

/-- checked on all 256 byte values -/
theorem isSpDot_lowerB_nat : ∀ n, n < 256 → isSpDot (lowerB (UInt8.ofNat n)) = isSpDot (UInt8.ofNat n) := by
  decide +kernel

theorem isSpDot_lowerB (b : UInt8) : isSpDot (lowerB b) = isSpDot b := by
  have := isSpDot_lowerB_nat b.toNat (UInt8.toNat_lt b)
  rwa [UInt8.ofNat_toNat] at this

theorem trimRightSpDot_id {s : Bytes} {b : UInt8} (hl : s.getLast? = some b) (hb : isSpDot b = false) :
    trimRightSpDot s = s := by
  unfold trimRightSpDot
  obtain ⟨ys, rfl⟩ := List.getLast?_eq_some_iff.mp hl
  have hr : (ys ++ [b]).reverse = b :: ys.reverse := by simp
  rw [hr, List.dropWhile_cons]
  have : (b == 0x20 || b == dot) = false := hb
  simp only [this, Bool.false_eq_true, if_false]
  simp

/-- a path that carries a plain extension (in any letter case) is not touched by the trimming -/
theorem trim_of_ext {urlPath : Bytes} {rule : Rule} (hp : ExtPlain rule) (hext : rule.ext ≠ [])
    (hsuf : hasSuffix (toLower urlPath) (toLower rule.ext) = true) : trimRightSpDot urlPath = urlPath := by
  obtain ⟨pre, hpre⟩ := hasSuffix_iff.mp hsuf
  -- last byte of the extension
  obtain ⟨e, he⟩ : ∃ e, rule.ext.getLast? = some e := by
    cases h : rule.ext.getLast? with
    | none => exact absurd (List.getLast?_eq_none_iff.mp h) hext
    | some e => exact ⟨e, rfl⟩
  have hlow : (toLower rule.ext).getLast? = some (lowerB e) := by
    simp [toLower, List.getLast?_map, he]
  have hul : (toLower urlPath).getLast? = some (lowerB e) := by
    rw [hpre, List.getLast?_append, hlow]; rfl
  have : ∃ c, urlPath.getLast? = some c ∧ lowerB c = lowerB e := by
    simp only [toLower, List.getLast?_map] at hul
    cases hc : urlPath.getLast? with
    | none => rw [hc] at hul; cases hul
    | some c => rw [hc] at hul; exact ⟨c, rfl, by simpa using hul⟩
  obtain ⟨c, hc, hce⟩ := this
  apply trimRightSpDot_id hc
  rw [← isSpDot_lowerB, hce, isSpDot_lowerB]
  exact hp e he

end Casket.FCGIRoute

/-! ### the environment -/
namespace Casket.FCGIRoute
open Casket.Fault Casket.FCGIRouteSpec

theorem lookup_setVar_eq (k v : Bytes) : ∀ e : List (Bytes × Bytes), lookup (setVar k v e) k = some v := by
  intro e
  induction e with
  | nil => simp [setVar, lookup]
  | cons x xs ih =>
    obtain ⟨k', v'⟩ := x
    unfold setVar
    by_cases h : (k == k') = true
    · simp [h, lookup]
    · rw [if_neg h]
      have hne : (k' == k) = false := by
        have : k ≠ k' := by simpa using h
        simpa using (fun e => this e.symm)
      simp only [lookup, List.find?_cons, hne] at ih ⊢
      exact ih

theorem lookup_setVar_ne (k k' v : Bytes) (hne : k' ≠ k) :
    ∀ e : List (Bytes × Bytes), lookup (setVar k v e) k' = lookup e k' := by
  intro e
  induction e with
  | nil =>
    have : (k == k') = false := by simpa using (fun e => hne e.symm)
    simp [setVar, lookup, this]
  | cons x xs ih =>
    obtain ⟨k0, v0⟩ := x
    unfold setVar
    by_cases h : (k == k0) = true
    · have hk : k = k0 := by simpa using h
      subst hk
      have : (k == k') = false := by simpa using (fun e => hne e.symm)
      simp [h, lookup, this]
    · rw [if_neg h]
      by_cases h2 : (k0 == k') = true
      · simp [lookup, h2]
      · simp only [lookup, List.find?_cons, h2] at ih ⊢
        exact ih

theorem distinct_cons {x : Bytes} {xs : List Bytes} (h : distinct (x :: xs) = true) :
    x ∉ xs ∧ distinct xs = true := by
  simp only [distinct, Bool.and_eq_true, Bool.not_eq_true', List.contains_eq_mem, decide_eq_false_iff_not] at h
  exact h

/-- a fold of `setVar`s: keys that are not set keep their value -/
theorem lookup_foldl_other {α : Type} (key : α → Bytes) (val : α → Bytes) (K : Bytes) :
    ∀ (l : List α) (e : List (Bytes × Bytes)), (∀ a ∈ l, key a ≠ K) →
      lookup (l.foldl (fun e a => setVar (key a) (val a) e) e) K = lookup e K := by
  intro l
  induction l with
  | nil => intro e _; rfl
  | cons a rest ih =>
    intro e h
    simp only [List.foldl_cons]
    rw [ih _ (fun x hx => h x (List.mem_cons_of_mem _ hx))]
    exact lookup_setVar_ne _ _ _ (fun e => h a (List.mem_cons_self ..) e.symm) _

/-- a fold of `setVar`s with distinct keys: every key set holds its value -/
theorem lookup_foldl_mem {α : Type} (key : α → Bytes) (val : α → Bytes) :
    ∀ (l : List α) (e : List (Bytes × Bytes)), distinct (l.map key) = true →
      ∀ a ∈ l, lookup (l.foldl (fun e a => setVar (key a) (val a) e) e) (key a) = some (val a) := by
  intro l
  induction l with
  | nil => intro e _ a ha; cases ha
  | cons b rest ih =>
    intro e hd a ha
    simp only [List.map_cons] at hd
    obtain ⟨hnot, hd'⟩ := distinct_cons hd
    simp only [List.foldl_cons]
    rcases List.mem_cons.mp ha with rfl | hmem
    · rw [lookup_foldl_other key val (key a) rest _ (by
        intro x hx he
        exact hnot (he ▸ List.mem_map_of_mem hx))]
      exact lookup_setVar_eq _ _ _
    · exact ih _ hd' a hmem

theorem envName_head (f : Bytes) : ∃ t, envName f = 0x48 :: t := by
  simp [envName, bytes]

theorem envName_ne_of_head {f K : Bytes} (h : K.head? ≠ some 0x48) : envName f ≠ K := by
  obtain ⟨t, ht⟩ := envName_head f
  intro he
  rw [ht] at he
  rw [← he] at h
  simp at h

/-- the three variables `Get`/`Head`/`Options`/`Post` overwrite -/
def methodKeys : List Bytes := [bytes "REQUEST_METHOD", bytes "CONTENT_LENGTH", bytes "CONTENT_TYPE"]

theorem lookup_methodEnv (r : Req) (env : List (Bytes × Bytes)) (K : Bytes)
    (h1 : K ≠ bytes "REQUEST_METHOD") (h2 : K ≠ bytes "CONTENT_LENGTH") (h3 : K ≠ bytes "CONTENT_TYPE") :
    lookup (methodEnv r env) K = lookup env K := by
  unfold methodEnv
  simp only
  split
  · rw [lookup_setVar_ne _ _ _ h2, lookup_setVar_ne _ _ _ h1]
  · split
    · rw [lookup_setVar_ne _ _ _ h2, lookup_setVar_ne _ _ _ h1]
    · rw [lookup_setVar_ne _ _ _ h3, lookup_setVar_ne _ _ _ h2, lookup_setVar_ne _ _ _ h1]

theorem splitPos_bound {cs : Bool} {rule : Rule} {p : Bytes} {sp : Nat}
    (h : splitPos cs rule p = some sp) : sp + rule.split.length ≤ p.length := by
  have low : ∀ i, indexOf (toLower p) (toLower rule.split) = some i → i + rule.split.length ≤ p.length := by
    intro i hi
    have := indexOf_le hi
    simpa [toLower] using this
  unfold splitPos at h
  cases cs with
  | false => simp only [Bool.false_eq_true, if_false] at h; exact low sp h
  | true =>
    simp only [if_true] at h
    cases he : indexOf p rule.split with
    | some i =>
      rw [he] at h
      cases h
      exact indexOf_le he
    | none =>
      rw [he] at h
      exact low sp h

theorem lookup_base_doc (srv : Server) (r : Req) (rule : Rule) (fpath : Bytes) (sp : Nat) :
    lookup (baseEnv srv r rule fpath sp) (bytes "DOCUMENT_URI") = some (fpath.take (sp + rule.split.length)) := by
  simp [lookup, baseEnv, bytes]

theorem lookup_base_info (srv : Server) (r : Req) (rule : Rule) (fpath : Bytes) (sp : Nat) :
    lookup (baseEnv srv r rule fpath sp) (bytes "PATH_INFO") = some (fpath.drop (sp + rule.split.length)) := by
  simp [lookup, baseEnv, bytes]

/-- a variable that neither the configuration, nor a header, nor the method step sets keeps the
value of the map literal -/
theorem lookup_buildEnv_base (srv : Server) (r : Req) (rule : Rule) (fpath : Bytes) (sp : Nat) (K : Bytes)
    (hm1 : K ≠ bytes "REQUEST_METHOD") (hm2 : K ≠ bytes "CONTENT_LENGTH") (hm3 : K ≠ bytes "CONTENT_TYPE")
    (hhead : K.head? ≠ some 0x48) (hrule : ∀ kv ∈ rule.env, kv.1 ≠ K) (hpt : K ≠ bytes "PATH_TRANSLATED") :
    lookup (methodEnv r (headersEnv r (ruleEnv rule (pathTranslatedEnv rule fpath sp (baseEnv srv r rule fpath sp))))) K
      = lookup (baseEnv srv r rule fpath sp) K := by
  rw [lookup_methodEnv r _ K hm1 hm2 hm3]
  unfold headersEnv
  rw [lookup_foldl_other (fun h : Bytes × List Bytes => envName h.1) (fun h => joinComma h.2) K r.headers _
    (fun a _ => envName_ne_of_head hhead)]
  unfold ruleEnv
  rw [lookup_foldl_other (fun kv : Bytes × Bytes => kv.1) (fun kv => kv.2) K rule.env _ hrule]
  unfold pathTranslatedEnv
  simp only
  split
  · rfl
  · exact lookup_setVar_ne _ _ _ hpt _

/-! #### which names can occur in the environment -/

def keysOf (e : List (Bytes × Bytes)) : List Bytes := e.map (·.1)

theorem keys_setVar (k v : Bytes) : ∀ (e : List (Bytes × Bytes)) (x : Bytes),
    x ∈ keysOf (setVar k v e) → x = k ∨ x ∈ keysOf e := by
  intro e
  induction e with
  | nil => intro x hx; simp [setVar, keysOf] at hx; exact Or.inl hx
  | cons y ys ih =>
    intro x hx
    obtain ⟨k', v'⟩ := y
    unfold setVar at hx
    by_cases h : (k == k') = true
    · simp only [h, if_true, keysOf, List.map_cons, List.mem_cons] at hx
      rcases hx with hx | hx
      · exact Or.inl hx
      · exact Or.inr (by simp only [keysOf, List.map_cons, List.mem_cons]; exact Or.inr hx)
    · rw [if_neg h] at hx
      simp only [keysOf, List.map_cons, List.mem_cons] at hx
      rcases hx with hx | hx
      · exact Or.inr (by simp only [keysOf, List.map_cons, List.mem_cons]; exact Or.inl hx)
      · rcases ih x hx with h1 | h1
        · exact Or.inl h1
        · exact Or.inr (by simp only [keysOf, List.map_cons, List.mem_cons]; exact Or.inr h1)

theorem keys_foldl {α : Type} (key : α → Bytes) (val : α → Bytes) :
    ∀ (l : List α) (e : List (Bytes × Bytes)) (x : Bytes),
      x ∈ keysOf (l.foldl (fun e a => setVar (key a) (val a) e) e) → x ∈ l.map key ∨ x ∈ keysOf e := by
  intro l
  induction l with
  | nil => intro e x hx; exact Or.inr hx
  | cons a rest ih =>
    intro e x hx
    simp only [List.foldl_cons] at hx
    rcases ih _ x hx with h | h
    · exact Or.inl (List.mem_cons_of_mem _ h)
    · rcases keys_setVar _ _ _ x h with h1 | h1
      · exact Or.inl (by simp [h1])
      · exact Or.inr h1

theorem keys_methodEnv (r : Req) (env : List (Bytes × Bytes)) (x : Bytes)
    (hx : x ∈ keysOf (methodEnv r env)) : x ∈ methodKeys ∨ x ∈ keysOf env := by
  unfold methodEnv at hx
  simp only at hx
  have three : ∀ (a b : Bytes) (va vb : Bytes) (e : List (Bytes × Bytes)), a ∈ methodKeys → b ∈ methodKeys →
      x ∈ keysOf (setVar a va (setVar b vb e)) → x ∈ methodKeys ∨ x ∈ keysOf e := by
    intro a b va vb e ha hb h
    rcases keys_setVar _ _ _ x h with h1 | h1
    · exact Or.inl (h1 ▸ ha)
    · rcases keys_setVar _ _ _ x h1 with h2 | h2
      · exact Or.inl (h2 ▸ hb)
      · exact Or.inr h2
  split at hx
  · exact three _ _ _ _ _ (by decide) (by decide) hx
  · split at hx
    · exact three _ _ _ _ _ (by decide) (by decide) hx
    · rcases keys_setVar _ _ _ x hx with h1 | h1
      · exact Or.inl (h1 ▸ (by decide))
      · exact three _ _ _ _ _ (by decide) (by decide) h1

/-- the names of the map literal of `buildEnv` -/
def baseNames : List Bytes := ["AUTH_TYPE", "CONTENT_LENGTH", "CONTENT_TYPE", "GATEWAY_INTERFACE", "PATH_INFO",
  "QUERY_STRING", "REMOTE_ADDR", "REMOTE_HOST", "REMOTE_PORT", "REMOTE_IDENT", "REMOTE_USER", "REQUEST_METHOD",
  "REQUEST_SCHEME", "SERVER_NAME", "SERVER_PORT", "SERVER_PROTOCOL", "SERVER_SOFTWARE", "DOCUMENT_ROOT",
  "DOCUMENT_URI", "HTTP_HOST", "REQUEST_URI", "SCRIPT_FILENAME", "SCRIPT_NAME"].map bytes

theorem keys_baseEnv (srv : Server) (r : Req) (rule : Rule) (fpath : Bytes) (sp : Nat) :
    keysOf (baseEnv srv r rule fpath sp) = baseNames := by
  simp [baseEnv, keysOf, baseNames]

/-- of the fixed names only HTTP_HOST lies in the HTTP_ namespace -/
theorem fixedNames_own : ∀ k ∈ baseNames ++ methodKeys ++ [bytes "PATH_TRANSLATED"],
    (!hasPrefix k (bytes "HTTP_") || k == bytes "HTTP_HOST") = true := by
  decide

/-- every variable of the environment `buildEnv` (+ the method adjustments) derives belongs to the
request: no HTTP_* name but HTTP_HOST, the configured entries and the request's own headers -/
theorem buildEnv_ownVars (srv : Server) (r : Req) (rule : Rule) (fpath : Bytes) (sp : Nat) :
    (methodEnv r (headersEnv r (ruleEnv rule (pathTranslatedEnv rule fpath sp (baseEnv srv r rule fpath sp))))).all
      (fun kv => ownVar r rule kv.1) = true := by
  rw [List.all_eq_true]
  intro kv hkv
  have hk : kv.1 ∈ keysOf (methodEnv r (headersEnv r (ruleEnv rule (pathTranslatedEnv rule fpath sp (baseEnv srv r rule fpath sp))))) :=
    List.mem_map_of_mem hkv
  have fixed : kv.1 ∈ baseNames ++ methodKeys ++ [bytes "PATH_TRANSLATED"] → ownVar r rule kv.1 = true := by
    intro h
    have := fixedNames_own kv.1 h
    unfold ownVar
    simp only [Bool.or_eq_true] at this ⊢
    rcases this with h1 | h1
    · exact Or.inl (Or.inl (Or.inl h1))
    · exact Or.inl (Or.inl (Or.inr h1))
  rcases keys_methodEnv r _ _ hk with h | h
  · exact fixed (by simp only [List.mem_append]; exact Or.inl (Or.inr h))
  · unfold headersEnv at h
    rcases keys_foldl (fun h : Bytes × List Bytes => envName h.1) (fun h => joinComma h.2) _ _ _ h with h1 | h1
    · unfold ownVar
      simp only [List.mem_map] at h1
      obtain ⟨hd, hmem, he⟩ := h1
      have : r.headers.any (fun h => envName h.1 == kv.1) = true :=
        List.any_eq_true.mpr ⟨hd, hmem, by simp [he]⟩
      simp [this]
    · unfold ruleEnv at h1
      rcases keys_foldl (fun kv : Bytes × Bytes => kv.1) (fun kv => kv.2) _ _ _ h1 with h2 | h2
      · unfold ownVar
        simp only [List.mem_map] at h2
        obtain ⟨e, hmem, he⟩ := h2
        have : rule.env.any (fun x => x.1 == kv.1) = true :=
          List.any_eq_true.mpr ⟨e, hmem, by simp [he]⟩
        simp [this]
      · unfold pathTranslatedEnv at h2
        simp only at h2
        split at h2
        · rw [keys_baseEnv] at h2
          exact fixed (by simp only [List.mem_append]; exact Or.inl (Or.inl h2))
        · rcases keys_setVar _ _ _ _ h2 with h3 | h3
          · exact fixed (by simp [h3])
          · rw [keys_baseEnv] at h3
            exact fixed (by simp only [List.mem_append]; exact Or.inl (Or.inl h3))

theorem noCollisions_parts {r : Req} {rule : Rule} (h : noCollisions r rule = true) :
    distinct (r.headers.map (fun h => envName h.1)) = true ∧
    (∀ kv ∈ rule.env, kv.1 ∉ r.headers.map (fun h => envName h.1)) ∧
    distinct (rule.env.map (·.1)) = true ∧
    (∀ kv ∈ rule.env, kv.1 ≠ bytes "DOCUMENT_URI" ∧ kv.1 ≠ bytes "PATH_INFO") := by
  simp only [noCollisions, Bool.and_eq_true, List.all_eq_true, Bool.not_eq_true', bne_iff_ne, ne_eq,
    List.contains_eq_mem, decide_eq_false_iff_not] at h
  obtain ⟨⟨⟨h1, h2⟩, h3⟩, h4⟩ := h
  exact ⟨h1, h2, h3, h4⟩

/-- The judge accepts the model's environment: every header as HTTP_*, every configured entry,
the split law, the body — for every request whose method forwards the body. -/
theorem envVerdict_buildEnv (cs : Bool) (srv : Server) (r : Req) (rule : Rule) (fpath : Bytes)
    (env : List (Bytes × Bytes)) (hb : buildEnv cs srv r rule fpath = some env)
    (hcand : (scriptCandidates r rule).contains fpath = true) (hbody : stdinOf r = r.body) :
    envVerdict cs r rule env (stdinOf r) = "ok" := by
  unfold buildEnv at hb
  cases hsp : splitPos cs rule fpath with
  | none => rw [hsp] at hb; cases hb
  | some sp =>
    rw [hsp] at hb
    simp only [Option.some.injEq] at hb
    unfold envVerdict
    by_cases hnc : noCollisions r rule = true
    · obtain ⟨hd1, hdis, hd2, hres⟩ := noCollisions_parts hnc
      simp only [hnc, Bool.not_true, Bool.false_eq_true, if_false]
      -- (b) headers
      have hB : r.headers.all (fun h => lookup env (envName h.1) == some (joinComma h.2)) = true := by
        rw [List.all_eq_true]
        intro h hh
        rw [← hb, lookup_methodEnv r _ _ (envName_ne_of_head (by decide)) (envName_ne_of_head (by decide))
          (envName_ne_of_head (by decide))]
        unfold headersEnv
        rw [lookup_foldl_mem (fun h : Bytes × List Bytes => envName h.1) (fun h => joinComma h.2) r.headers _ hd1 h hh]
        simp
      -- (c) configured entries
      have hC : rule.env.all (fun kv => lookup env kv.1 == some kv.2 ||
          [bytes "REQUEST_METHOD", bytes "CONTENT_LENGTH", bytes "CONTENT_TYPE"].contains kv.1) = true := by
        rw [List.all_eq_true]
        intro kv hkv
        by_cases hin : [bytes "REQUEST_METHOD", bytes "CONTENT_LENGTH", bytes "CONTENT_TYPE"].contains kv.1 = true
        · simp only [hin, Bool.or_true]
        · have hin' : kv.1 ≠ bytes "REQUEST_METHOD" ∧ kv.1 ≠ bytes "CONTENT_LENGTH" ∧ kv.1 ≠ bytes "CONTENT_TYPE" := by
            simp only [List.contains_eq_mem, List.mem_cons, List.not_mem_nil, or_false, decide_eq_true_eq,
              not_or] at hin
            exact hin
          rw [← hb, lookup_methodEnv r _ _ hin'.1 hin'.2.1 hin'.2.2]
          unfold headersEnv
          rw [lookup_foldl_other (fun h : Bytes × List Bytes => envName h.1) (fun h => joinComma h.2) kv.1 r.headers _
            (by
              intro a ha he
              exact hdis kv hkv (he ▸ List.mem_map_of_mem (f := fun h : Bytes × List Bytes => envName h.1) ha))]
          unfold ruleEnv
          rw [lookup_foldl_mem (fun kv : Bytes × Bytes => kv.1) (fun kv => kv.2) rule.env _ hd2 kv hkv]
          simp
      have hO : env.all (fun kv => ownVar r rule kv.1) = true := by
        rw [← hb]; exact buildEnv_ownVars srv r rule fpath sp
      simp only [hB, hC, hO, Bool.not_true, Bool.false_eq_true, if_false]
      -- (d) the split
      have hdoc : lookup env (bytes "DOCUMENT_URI") = some (fpath.take (sp + rule.split.length)) := by
        rw [← hb, lookup_buildEnv_base srv r rule fpath sp _ (by decide) (by decide) (by decide) (by decide)
          (fun kv hkv => (hres kv hkv).1) (by decide)]
        exact lookup_base_doc ..
      have hinfo : lookup env (bytes "PATH_INFO") = some (fpath.drop (sp + rule.split.length)) := by
        rw [← hb, lookup_buildEnv_base srv r rule fpath sp _ (by decide) (by decide) (by decide) (by decide)
          (fun kv hkv => (hres kv hkv).2) (by decide)]
        exact lookup_base_info ..
      rw [hdoc, hinfo]
      simp only [List.take_append_drop, hcand, Bool.not_true, Bool.false_eq_true, if_false, hsp, Option.map_some]
      have hlen : (fpath.take (sp + rule.split.length)).length = sp + rule.split.length := by
        rw [List.length_take]
        have := splitPos_bound hsp
        omega
      simp [hlen, hbody]
    · simp [hnc]

theorem decideScript_sent {cs : Bool} {fs : FS} {rule : Rule} {p f : Bytes} {fi : Bool}
    (h : decideScript cs fs rule p fi = .sent f) : f = p ∧ (splitPos cs rule p).isSome = true := by
  unfold decideScript at h
  by_cases h1 : (splitPos cs rule p).isNone = true
  · simp only [h1, if_true] at h
    cases fi <;> simp at h
  · simp only [h1, Bool.false_eq_true, if_false] at h
    by_cases h2 : (!statOK fs p || hasSuffix p [slash] || hasSuffix (toLower p) (toLower rule.ext)) = true
    · simp only [h2, if_true, RuleResult.sent.injEq] at h
      refine ⟨h.symm, ?_⟩
      cases hh : splitPos cs rule p <;> simp_all
    · simp only [h2, Bool.false_eq_true, if_false] at h
      cases h

theorem scriptPath_candidate (fs : FS) (r : Req) (rule : Rule) :
    (scriptCandidates r rule).contains (scriptPath fs r.path rule).1 = true := by
  unfold scriptPath
  cases hidx : indexFile fs (trimRightSpDot r.path) rule.index with
  | none => simp [scriptCandidates]
  | some idx =>
    simp only
    unfold indexFile at hidx
    simp only at hidx
    by_cases hl : ((if (trimRightSpDot r.path).isEmpty = true then [slash] else trimRightSpDot r.path).getLast? != some slash) = true
    · rw [if_pos hl] at hidx; cases hidx
    · rw [if_neg hl] at hidx
      have := List.mem_of_find?_eq_some hidx
      simp only [scriptCandidates, List.contains_eq_mem, List.mem_cons, decide_eq_true_eq]
      exact Or.inr this

/-- the script path a rule sends is the request path (less trailing dots and spaces) or one of the
rule's index files below it, and it can be split -/
theorem tryRule_sent_candidate (cs : Bool) (fs : FS) (r : Req) (rule : Rule) (f : Bytes)
    (h : tryRule cs fs r.path rule = .sent f) :
    (scriptCandidates r rule).contains f = true ∧ (splitPos cs rule f).isSome = true := by
  unfold tryRule at h
  by_cases ha : (!ruleApplies cs r.path rule) = true
  · simp [ha] at h
  · simp only [ha, Bool.false_eq_true, if_false] at h
    obtain ⟨hf, hs⟩ := decideScript_sent h
    subst hf
    exact ⟨scriptPath_candidate fs r rule, hs⟩

theorem routeFrom_sent_rule (cs : Bool) (fs : FS) (urlPath : Bytes) :
    ∀ (rules : List Rule) (i j : Nat) (f : Bytes), routeFrom cs fs urlPath rules i = .sent j f →
      ∃ rule, rules[j - i]? = some rule ∧ i ≤ j ∧ tryRule cs fs urlPath rule = .sent f := by
  intro rules
  induction rules with
  | nil => intro i j f h; simp [routeFrom] at h
  | cons r rest ih =>
    intro i j f h
    unfold routeFrom at h
    cases ht : tryRule cs fs urlPath r with
    | sent g =>
      rw [ht] at h
      simp only [Outcome.sent.injEq] at h
      obtain ⟨rfl, rfl⟩ := h
      exact ⟨r, by simp, Nat.le_refl _, ht⟩
    | err500 => rw [ht] at h; cases h
    | cont =>
      rw [ht] at h
      simp only at h
      obtain ⟨rule, hr, hle, htr⟩ := ih (i + 1) j f h
      refine ⟨rule, ?_, by omega, htr⟩
      have : j - i = (j - (i + 1)) + 1 := by omega
      rw [this]
      simpa using hr

end Casket.FCGIRoute
