import Casket.Model.FCGIRoute
import Casket.Spec.FCGIRoute
import Casket.Proofs.PeerBytes
/-
Helper lemmas for the routing part of C13.
-/
namespace Casket.Fault

/-- completeness of `indexOf`: an occurrence anywhere is found -/
theorem indexOfAux_complete (sub : Bytes) : ∀ (s : Bytes) (k : Nat) (pre post : Bytes),
    s = pre ++ sub ++ post → (indexOfAux sub s k).isSome = true := by
  intro s
  induction s with
  | nil =>
    intro k pre post h
    have hsub : sub = [] := by
      have := congrArg List.length h
      simp at this
      exact List.length_eq_zero_iff.mp (by omega)
    simp [indexOfAux, hsub]
  | cons c cs ih =>
    intro k pre post h
    simp only [indexOfAux]
    split
    · rfl
    · rename_i hnp
      cases pre with
      | nil =>
        exfalso
        apply hnp
        rw [List.isPrefixOf_iff_prefix]
        exact ⟨post, by simpa using h.symm⟩
      | cons p pre' =>
        have : cs = pre' ++ sub ++ post := by
          simp only [List.cons_append] at h
          exact (List.cons.inj h).2
        exact ih (k + 1) pre' post this

theorem indexOf_complete {s sub : Bytes} (pre post : Bytes) (h : s = pre ++ sub ++ post) :
    (indexOf s sub).isSome = true := indexOfAux_complete sub s 0 pre post h

end Casket.Fault

namespace Casket.FCGIRoute
open Casket.Fault Casket.FCGIRouteSpec

theorem hasSuffix_iff {s p : Bytes} : hasSuffix s p = true ↔ ∃ pre, s = pre ++ p := by
  unfold hasSuffix
  rw [List.isPrefixOf_iff_prefix]
  constructor
  · rintro ⟨t, ht⟩
    refine ⟨t.reverse, ?_⟩
    have := congrArg List.reverse ht
    simpa using this.symm
  · rintro ⟨pre, rfl⟩
    exact ⟨pre.reverse, by simp⟩

/-- the rule's split string can be found in any path that ends with the rule's extension:
no split string, or one that occurs in the extension (the `php` preset: both are `.php`) -/
def SplitInExt (rule : Rule) : Prop :=
  ∃ a b, toLower rule.ext = a ++ toLower rule.split ++ b

theorem splitPos_isSome (cs : Bool) (rule : Rule) (p : Bytes) (hs : SplitInExt rule)
    (hsuf : hasSuffix (toLower p) (toLower rule.ext) = true) : (splitPos cs rule p).isSome = true := by
  obtain ⟨a, b, hab⟩ := hs
  obtain ⟨pre, hpre⟩ := hasSuffix_iff.mp hsuf
  have hl : (indexOf (toLower p) (toLower rule.split)).isSome = true :=
    indexOf_complete (pre ++ a) b (by rw [hpre, hab]; simp)
  unfold splitPos
  cases cs with
  | false => simpa using hl
  | true =>
    simp only [if_true]
    cases indexOf p rule.split with
    | some i => rfl
    | none => simpa using hl

theorem indexFile_none (fs : FS) (fpath : Bytes) (index : List Bytes)
    (hne : fpath ≠ []) (hl : fpath.getLast? ≠ some slash) : indexFile fs fpath index = none := by
  unfold indexFile
  have : fpath.isEmpty = false := by cases fpath <;> simp_all
  simp [this, hl]

theorem covers_nonempty {cs : Bool} {fs : FS} {urlPath : Bytes} {rule : Rule}
    (hc : ruleCovers cs fs urlPath rule = true) : urlPath ≠ [] ∧ urlPath.getLast? ≠ some slash := by
  simp only [ruleCovers, Bool.and_eq_true, Bool.not_eq_true', bne_iff_ne, ne_eq] at hc
  obtain ⟨⟨⟨⟨⟨hext, _⟩, _⟩, _⟩, hlast⟩, hsuf⟩ := hc
  refine ⟨?_, hlast⟩
  intro he
  rw [he] at hsuf
  have : toLower rule.ext = [] := by
    obtain ⟨pre, hp⟩ := hasSuffix_iff.mp hsuf
    simp [toLower] at hp
    simpa [toLower] using hp.2
  have : rule.ext = [] := by simpa [toLower] using this
  simp [this] at hext

/-- a rule that covers the request sends it -/
theorem tryRule_covers (cs : Bool) (fs : FS) (urlPath : Bytes) (rule : Rule)
    (hc : ruleCovers cs fs urlPath rule = true) (hs : SplitInExt rule)
    (htrim : trimRightSpDot urlPath = urlPath) : tryRule cs fs urlPath rule = .sent urlPath := by
  simp only [ruleCovers, Bool.and_eq_true, Bool.not_eq_true', bne_iff_ne, ne_eq] at hc
  obtain ⟨⟨⟨⟨⟨hext, hpm⟩, hal⟩, _hfile⟩, hlast⟩, hsuf⟩ := hc
  have hne : urlPath ≠ [] := by
    intro he
    rw [he] at hsuf
    have : toLower rule.ext = [] := by
      obtain ⟨pre, hp⟩ := hasSuffix_iff.mp hsuf
      simp [toLower] at hp
      simpa [toLower] using hp.2
    have : rule.ext = [] := by simpa [toLower] using this
    simp [this] at hext
  unfold tryRule
  simp only [hpm, if_true, Bool.not_true, Bool.false_eq_true, if_false, hal, htrim]
  rw [indexFile_none fs urlPath rule.index hne hlast]
  simp only
  have hsp := splitPos_isSome cs rule urlPath hs hsuf
  have : (splitPos cs rule urlPath).isNone = false := by
    cases h : splitPos cs rule urlPath <;> simp_all
  simp [this, hsuf]

/-- no rule answers 500 for a path that does not end with a slash -/
theorem tryRule_no_err500 (cs : Bool) (fs : FS) (urlPath : Bytes) (rule : Rule)
    (hne : urlPath ≠ []) (hlast : urlPath.getLast? ≠ some slash)
    (htrim : trimRightSpDot urlPath = urlPath) : tryRule cs fs urlPath rule ≠ .err500 := by
  unfold tryRule
  simp only [htrim]
  rw [indexFile_none fs urlPath rule.index hne hlast]
  simp only
  repeat' split
  all_goals simp

theorem routeFrom_sent (cs : Bool) (fs : FS) (urlPath : Bytes)
    (hne : urlPath ≠ []) (hlast : urlPath.getLast? ≠ some slash)
    (htrim : trimRightSpDot urlPath = urlPath) :
    ∀ (rules : List Rule) (i : Nat),
      (∃ r ∈ rules, ruleCovers cs fs urlPath r = true ∧ SplitInExt r) →
      ∃ j f, routeFrom cs fs urlPath rules i = .sent j f := by
  intro rules
  induction rules with
  | nil => intro i ⟨r, hr, _⟩; cases hr
  | cons r rest ih =>
    intro i ⟨r0, hr0, hc, hs⟩
    unfold routeFrom
    cases ht : tryRule cs fs urlPath r with
    | sent f => exact ⟨i, f, rfl⟩
    | err500 => exact absurd ht (tryRule_no_err500 cs fs urlPath r hne hlast htrim)
    | cont =>
      simp only
      rcases List.mem_cons.mp hr0 with rfl | hmem
      · rw [tryRule_covers cs fs urlPath r0 hc hs htrim] at ht
        cases ht
      · exact ih (i + 1) ⟨r0, hmem, hc, hs⟩

end Casket.FCGIRoute
