import Casket.Model.UpstreamAddr
/-
Lemmas about the cuts of `parseUpstream`: with `colonIdx` the position of the LAST colon, the first slash of
`u[colonIdx:]` lies strictly behind it, so `colonIdx + 1 ≤ portsEnd ≤ len u` and all three slices are in range.
-/
namespace Casket.UpstreamAddr

theorem lastIdx_spec (c : UInt8) : ∀ (u : Bytes) (i : Nat), lastIdx c u = some i →
    i < u.length ∧ (u.drop i).head? = some c := by
  intro u
  induction u with
  | nil => intro i h; simp [lastIdx] at h
  | cons x xs ih =>
    intro i h
    unfold lastIdx at h
    cases hj : lastIdx c xs with
    | some j =>
      rw [hj] at h
      simp only [Option.some.injEq] at h
      subst h
      have := ih j hj
      exact ⟨by simp only [List.length_cons]; omega, by simpa using this.2⟩
    | none =>
      rw [hj] at h
      by_cases hx : x = c
      · simp only [hx, if_true, Option.some.injEq] at h
        subst h
        exact ⟨by simp, by simp [hx]⟩
      · simp [hx] at h

theorem firstIdx_lt (c : UInt8) : ∀ (u : Bytes) (k : Nat), firstIdx c u = some k → k < u.length := by
  intro u
  induction u with
  | nil => intro k h; simp [firstIdx] at h
  | cons x xs ih =>
    intro k h
    unfold firstIdx at h
    by_cases hx : x = c
    · simp only [hx, if_true, Option.some.injEq] at h
      subst h; simp
    · simp only [hx, if_false, Option.map_eq_some_iff] at h
      obtain ⟨j, hj, rfl⟩ := h
      have := ih j hj
      simp only [List.length_cons]; omega

theorem firstIdx_pos (c d : UInt8) (hd : d ≠ c) (u : Bytes) (hu : u.head? = some d) (k : Nat)
    (h : firstIdx c u = some k) : 1 ≤ k := by
  cases u with
  | nil => simp at hu
  | cons x xs =>
    simp only [List.head?_cons, Option.some.injEq] at hu
    subst hu
    unfold firstIdx at h
    simp only [hd, if_false, Option.map_eq_some_iff] at h
    obtain ⟨j, _, rfl⟩ := h
    omega

theorem slice_some (u : Bytes) (lo hi : Nat) (h1 : lo ≤ hi) (h2 : hi ≤ u.length) :
    slice u lo hi = some ((u.take hi).drop lo) := by
  simp [slice, h1, h2]

theorem slice_none (u : Bytes) (lo hi : Nat) (h : hi < lo) : slice u lo hi = none := by
  have : ¬ lo ≤ hi := by omega
  simp [slice, this]

/-- with the position of the last colon all three slices of parseUpstream are in range -/
theorem cut_isSome (u : Bytes) (i : Nat) (h : lastIdx colon u = some i) : (cut u i).isSome = true := by
  obtain ⟨hlt, hhead⟩ := lastIdx_spec colon u i h
  have hus : slice u 0 i = some (u.take i) := by
    rw [slice_some u 0 i (Nat.zero_le _) (Nat.le_of_lt hlt)]; simp
  have hrest : slice u i u.length = some (u.drop i) := by
    rw [slice_some u i u.length (Nat.le_of_lt hlt) (Nat.le_refl _)]; simp
  have hlen : (u.take i).length = i := by
    rw [List.length_take]; exact Nat.min_eq_left (Nat.le_of_lt hlt)
  unfold cut
  rw [hus, hrest]
  simp only [hlen]
  cases hk : firstIdx slash (u.drop i) with
  | some k =>
    have h1 := firstIdx_lt slash _ k hk
    have h2 := firstIdx_pos slash colon (by decide) _ hhead k hk
    rw [List.length_drop] at h1
    have e1 := slice_some u (i + k) u.length (by omega) (Nat.le_refl _)
    have e2 := slice_some u (i + 1) (i + k) (by omega) (by omega)
    simp only [e1, e2]
    rfl
  | none =>
    have e1 := slice_some u (i + 1) u.length (by omega) (Nat.le_refl _)
    simp only [e1]
    rfl

theorem parseUpstream_ne_panic (u : Bytes) : parseUpstream u ≠ .panic := by
  have hexp : ∀ us ports ue, expand u us ports ue ≠ .panic := by
    intro us ports ue
    unfold expand
    repeat' split
    all_goals try simp
    all_goals (split <;> first | simp | (simp_all; done) | (split <;> simp))
  unfold parseUpstream
  split
  · simp
  · split
    · simp
    · rename_i i hi
      split
      · simp
      · split
        · simp
        · have := cut_isSome u i hi
          split
          · rename_i hc; rw [hc] at this; simp at this
          · exact hexp _ _ _

end Casket.UpstreamAddr
