import Casket.Spec.Retry
import Casket.Spec.Policy
/-
Helper lemmas for the retry theorems at the end of Props/C05.lean.  Soundness and completeness
of selection are taken as hypotheses here (`SelSound`, `SelComplete`) and discharged in
Props/C05.lean by `C05_sound` / `C05_complete`.
-/
namespace Casket.Retry
open Casket.Policy Casket.PolicySpec Casket.RetrySpec

def SelSound : Prop :=
  ∀ (k : Kind) (p : Pool) (robin h : Nat) (rs : List Nat), sound p (upstreamSelect k p robin h rs).1 = true

def SelComplete : Prop :=
  ∀ (k : Kind) (p : Pool) (robin h : Nat) (rs : List Nat),
    (p.length ≤ 2147483648 ∧ ∀ x ∈ p, x.conns ≤ maxInt64) → p.any Host.avail = true →
    (upstreamSelect k p robin h rs).1.isSome = true

/-! ### the pool seen by Select -/

theorem poolAt_length (c : Cfg) (st : St) : (poolAt c st).length = c.hosts.length := by
  simp [poolAt]

theorem availAt_poolAt (c : Cfg) (st : St) (i : Nat) :
    availAt (poolAt c st) i =
      match hostState c st.over i with
      | some s => !(s.unhealthy || decide (s.fails + failsAt st i ≥ c.maxFails)) && !fullS c s
      | none => false := by
  unfold availAt poolAt
  rw [List.getElem?_map]
  by_cases hi : i < c.hosts.length
  · rw [List.getElem?_range hi]
    simp only [Option.map_some]
    have : ∃ s, hostState c st.over i = some s := by
      simp [hostState, List.getElem?_eq_getElem hi]
    obtain ⟨s, hs⟩ := this
    simp [hs, Host.avail, Host.full, fullS]
  · have h1 : c.hosts[i]? = none := List.getElem?_eq_none (by omega)
    have h2 : (List.range c.hosts.length)[i]? = none := List.getElem?_eq_none (by simp; omega)
    simp [hostState, h1, h2]

/-! ### events -/

/-- what the events of one attempt leave of the state of host j: what it was, or the state of an event on j -/
theorem applyEvents_cases (evs : List Event) (n : Nat) (over : Nat → Option HostState) (j : Nat) :
    applyEvents evs n over j = over j ∨ ∃ e ∈ evs, e.host = j ∧ applyEvents evs n over j = some e.state := by
  induction evs generalizing over with
  | nil => left; rfl
  | cons e es ih =>
    unfold applyEvents
    simp only [List.foldl_cons]
    rcases ih (if e.attempt = n then (fun j => if j = e.host then some e.state else over j) else over) with h | ⟨e', he', hj, h⟩
    · unfold applyEvents at h
      rw [h]
      by_cases hn : e.attempt = n
      · simp only [hn, if_true]
        by_cases hj : j = e.host
        · right; exact ⟨e, by simp, hj.symm, by simp [hj]⟩
        · left; simp [hj]
      · left; simp [hn]
    · right; exact ⟨e', by simp [he'], hj, h⟩

/-- every state an event has given a host is the state of an event on that host -/
def OverOK (c : Cfg) (over : Nat → Option HostState) : Prop :=
  ∀ i s, over i = some s → ∃ e ∈ c.events, e.host = i ∧ e.state = s

theorem overOK_init (c : Cfg) : OverOK c (fun _ => none) := by
  intro i s h; cases h

theorem overOK_apply (c : Cfg) (n : Nat) (over : Nat → Option HostState) (h : OverOK c over) :
    OverOK c (applyEvents c.events n over) := by
  intro i s hs
  rcases applyEvents_cases c.events n over i with h1 | ⟨e, he, hi, h1⟩
  · rw [h1] at hs; exact h i s hs
  · rw [h1] at hs; cases hs; exact ⟨e, he, hi, rfl⟩

theorem over_untouched (c : Cfg) (over : Nat → Option HostState) (h : OverOK c over) (i : Nat)
    (hu : untouched c i = true) : over i = none := by
  cases ho : over i with
  | none => rfl
  | some s =>
    obtain ⟨e, he, hi, _⟩ := h i s ho
    have := (List.all_eq_true.mp hu) e he
    simp [hi] at this

theorem poolAt_sized (c : Cfg) (st : St) (hs : sized c = true) (hov : OverOK c st.over) :
    (poolAt c st).length ≤ 2147483648 ∧ ∀ x ∈ poolAt c st, x.conns ≤ maxInt64 := by
  simp only [sized, Bool.and_eq_true, decide_eq_true_eq, List.all_eq_true] at hs
  refine ⟨by rw [poolAt_length]; exact hs.1.1, ?_⟩
  intro x hx
  simp only [poolAt, List.mem_map, List.mem_range] at hx
  obtain ⟨i, hi, rfl⟩ := hx
  simp only [hostState, List.getElem?_eq_getElem hi]
  cases ho : st.over i with
  | none => exact hs.1.2 _ (List.getElem_mem hi)
  | some s =>
    obtain ⟨e, he, _, hes⟩ := hov i s ho
    have := hs.2 e he
    simpa [hes] using this

theorem any_avail_of_availAt {p : Pool} {i : Nat} (h : availAt p i = true) : p.any Host.avail = true := by
  unfold availAt at h
  cases hp : p[i]? with
  | none => simp [hp] at h
  | some x =>
    simp only [hp] at h
    exact List.any_eq_true.mpr ⟨x, List.mem_of_getElem? hp, h⟩

/-! ### scripts -/

theorem outcomeAt_mem (script : List Outcome) (n : Nat) (hne : script ≠ []) : outcomeAt script n ∈ script := by
  induction script generalizing n with
  | nil => exact absurd rfl hne
  | cons o rest ih =>
    unfold outcomeAt
    by_cases h : (n = 0 || rest.isEmpty) = true
    · simp [h]
    · simp only [h, Bool.false_eq_true, if_false]
      have hr : rest ≠ [] := by
        intro hr; subst hr; simp at h
      exact List.mem_cons_of_mem _ (ih (n - 1) hr)

theorem outcomeAt_alwaysOk (h : HostCfg) (n : Nat) (hok : alwaysOk h = true) : outcomeAt h.script n = .ok := by
  by_cases hne : h.script = []
  · rw [hne]; rfl
  · have := outcomeAt_mem h.script n hne
    simp only [alwaysOk, List.all_eq_true, beq_iff_eq] at hok
    exact hok _ this

theorem outcomeAt_okOrFail (script : List Outcome) (n : Nat) (h : script.all okOrFail = true) :
    okOrFail (outcomeAt script n) = true := by
  by_cases hne : script = []
  · rw [hne]; rfl
  · exact (List.all_eq_true.mp h) _ (outcomeAt_mem script n hne)

/-! ### the potential: failures the bad backends can still produce before they are all down -/

def slackL (c : Cfg) (bad : HostCfg → Bool) (len : Nat → Nat) : List HostCfg → Nat → Nat
  | [], _ => 0
  | h :: hs, k => (if bad h then c.maxFails - len k else 0) + slackL c bad len hs (k + 1)

def lenT (st : St) (i : Nat) : Nat := (st.timers i).length

theorem slackL_zero (c : Cfg) (bad : HostCfg → Bool) (hs : List HostCfg) (k : Nat) :
    slackL c bad (fun _ => 0) hs k = c.maxFails * (hs.filter bad).length := by
  induction hs generalizing k with
  | nil => simp [slackL]
  | cons h hs ih =>
    simp only [slackL, ih, List.filter_cons]
    cases hg : bad h
    · simp
    · simp [Nat.mul_add, Nat.add_comm]

theorem slackL_congr (c : Cfg) (bad : HostCfg → Bool) (len len' : Nat → Nat) (hs : List HostCfg) (k : Nat)
    (h : ∀ j, k ≤ j → len' j = len j) : slackL c bad len' hs k = slackL c bad len hs k := by
  induction hs generalizing k with
  | nil => rfl
  | cons x xs ih =>
    simp only [slackL]
    rw [h k (Nat.le_refl k), ih (k + 1) (fun j hj => h j (by omega))]

theorem slackL_bump (c : Cfg) (bad : HostCfg → Bool) (len : Nat → Nat) (i0 : Nat) (h0 : HostCfg) (hbad : bad h0 = true)
    (hlt : len i0 < c.maxFails) (hs : List HostCfg) (k : Nat) (hk : k ≤ i0) (hget : hs[i0 - k]? = some h0) :
    slackL c bad (fun j => if j = i0 then len j + 1 else len j) hs k + 1 = slackL c bad len hs k := by
  induction hs generalizing k with
  | nil => simp at hget
  | cons x xs ih =>
    simp only [slackL]
    by_cases hki : k = i0
    · subst hki
      simp only [Nat.sub_self, List.getElem?_cons_zero, Option.some.injEq] at hget
      subst hget
      rw [slackL_congr c bad len _ xs (k + 1) (fun j hj => by
        have : j ≠ k := by omega
        simp [this])]
      simp only [hbad, if_true]
      omega
    · have hlt' : k < i0 := by omega
      have hget' : xs[i0 - (k + 1)]? = some h0 := by
        have : i0 - k = (i0 - (k + 1)) + 1 := by omega
        rw [this, List.getElem?_cons_succ] at hget
        exact hget
      have := ih (k + 1) (by omega) hget'
      simp only [hki, if_false]
      omega

theorem keepRetrying_cases (c : Cfg) (st : St) (acc : List Attempt) :
    keepRetrying c st acc = .done .badGateway acc ∨
      (st.now < c.tryDuration ∧ keepRetrying c st acc = .next { st with now := st.now + c.interval } acc) := by
  unfold keepRetrying
  by_cases h : st.now ≥ c.tryDuration
  · left; simp [h]
  · right; exact ⟨by omega, by simp [h]⟩


/-! ### the retrying phase: the potential and its invariant -/

/-- failures the backends can still produce before they are all marked down -/
def slack (c : Cfg) (st : St) : Nat := slackL c (fun h => !alwaysOk h) (lenT st) c.hosts 0

structure Inv (c : Cfg) (st : St) (acc : List Attempt) : Prop where
  unexpired : ∀ i e, e ∈ st.timers i → e ≥ c.failTimeout
  okClean : ∀ i h, c.hosts[i]? = some h → alwaysOk h = true → st.timers i = []
  budget : st.now + slack c st * c.interval < c.tryDuration
  over : st.over = overAfter c st.attempts
  len : acc.length = st.attempts

/-- what both "the request is answered" theorems assume of the configuration -/
structure Enabled (c : Cfg) : Prop where
  failTimeoutPos : c.failTimeout > 0
  okFail : okFailOnly c = true
  maxFails : c.maxFails ≥ 1
  outlives : c.failTimeout ≥ c.tryDuration
  sized : sized c = true

theorem overOK_overAfter (c : Cfg) (m : Nat) : OverOK c (overAfter c m) := by
  induction m with
  | zero => exact overOK_init c
  | succ m ih => exact overOK_apply c m _ ih

theorem Inv.overOK {c : Cfg} {st : St} {acc : List Attempt} (h : Inv c st acc) : OverOK c st.over := by
  rw [h.over]; exact overOK_overAfter c _

theorem failsAt_eq_lenT (c : Cfg) (st : St) (acc : List Attempt) (hinv : Inv c st acc) (hF : c.failTimeout ≥ c.tryDuration) (i : Nat) :
    failsAt st i = lenT st i := by
  unfold failsAt lenT
  congr 1
  rw [List.filter_eq_self]
  intro e he
  have := hinv.unexpired i e he
  have := hinv.budget
  simp only [decide_eq_true_eq]
  omega

theorem mem_getElem? {α} {l : List α} {x : α} (h : x ∈ l) : ∃ i : Nat, l[i]? = some x := by
  obtain ⟨i, hi, hx⟩ := List.mem_iff_getElem.mp h
  exact ⟨i, by rw [List.getElem?_eq_getElem hi, hx]⟩

/-- recording one more failure of a backend that can fail lowers the potential by one -/
theorem slack_bump (c : Cfg) (st st' : St) (i : Nat) (h : HostCfg) (hhi : c.hosts[i]? = some h)
    (hbad : alwaysOk h = false) (hlt : lenT st i < c.maxFails)
    (ht : st'.timers = fun j => if j = i then (st.now + c.failTimeout) :: st.timers j else st.timers j) :
    slack c st' + 1 = slack c st := by
  unfold slack
  have : lenT st' = fun j => if j = i then lenT st j + 1 else lenT st j := by
    funext j
    simp only [lenT, ht]
    by_cases hj : j = i <;> simp [hj]
  rw [this]
  exact slackL_bump c _ (lenT st) i h (by simp [hbad]) hlt c.hosts 0 (Nat.zero_le _) (by simpa using hhi)

/-- a backend that always answers and is in rotation after the attempts made so far is available to `Select` -/
theorem avail_of_goodAfter (c : Cfg) (st : St) (acc : List Attempt) (hinv : Inv c st acc)
    (hF : c.failTimeout ≥ c.tryDuration) (g : Nat) (hg : goodAfter c st.attempts g = true) :
    availAt (poolAt c st) g = true := by
  rw [availAt_poolAt, hinv.over]
  unfold goodAfter at hg
  cases hgi : c.hosts[g]? with
  | none => simp [hgi] at hg
  | some h =>
    cases hst : hostState c (overAfter c st.attempts) g with
    | none => simp [hgi, hst] at hg
    | some s =>
      simp only [hgi, hst, Bool.and_eq_true] at hg
      have h0 : failsAt st g = 0 := by
        rw [failsAt_eq_lenT c st acc hinv hF, lenT, hinv.okClean g h hgi hg.1]; rfl
      have hup := hg.2
      simp only [upS, Bool.and_eq_true, Bool.not_eq_true', decide_eq_true_eq] at hup
      have hnf : ¬ (s.fails ≥ c.maxFails) := by omega
      simp [h0, hup.1.1, hup.1.2, hnf]

/-- a backend that is healthy on arrival and that no event touches is healthy after any number of attempts -/
theorem stableGood_goodAfter (c : Cfg) (g m : Nat) (hg : stableGood c g = true) : goodAfter c m g = true := by
  unfold stableGood at hg
  unfold goodAfter
  cases hgi : c.hosts[g]? with
  | none => simp [hgi] at hg
  | some h =>
    simp only [hgi, Bool.and_eq_true] at hg
    have hnone := over_untouched c (overAfter c m) (overOK_overAfter c m) g hg.2
    have hgood := hg.1
    simp only [good, isFull, Bool.and_eq_true] at hgood
    simp [hostState, hgi, hnone, HostCfg.state, upS, fullS, hgood.2, hgood.1.1.1, hgood.1.1.2, hgood.1.2]

/-- One iteration from a state satisfying the invariant in which some backend is available either
succeeds or records one more failure of a backend that can fail, keeps the invariant and lowers
the potential by one. -/
theorem step_retry (hs : SelSound) (hc : SelComplete) (c : Cfg) (he : Enabled c)
    (st : St) (acc : List Attempt) (hinv : Inv c st acc) (hany : (poolAt c st).any Host.avail = true) :
    (∃ acc', step c st acc = .done .success acc') ∨
    (∃ st' acc', step c st acc = .next st' acc' ∧ Inv c st' acc' ∧ slack c st' + 1 = slack c st) := by
  have hfa : ∀ i, failsAt st i = lenT st i := failsAt_eq_lenT c st acc hinv he.outlives
  have hsome := hc c.kind (poolAt c st) st.robin c.hash (c.rands st.selects) (poolAt_sized c st he.sized hinv.overOK) hany
  have hsound := hs c.kind (poolAt c st) st.robin c.hash (c.rands st.selects)
  cases hsel : (upstreamSelect c.kind (poolAt c st) st.robin c.hash (c.rands st.selects)).1 with
  | none => rw [hsel] at hsome; simp at hsome
  | some i =>
    rw [hsel] at hsound
    simp only [sound] at hsound
    rw [availAt_poolAt] at hsound
    cases hhi : c.hosts[i]? with
    | none => simp [hostState, hhi] at hsound
    | some h =>
      simp only [hostState, hhi, Bool.and_eq_true, Bool.not_eq_true', Bool.or_eq_false_iff, decide_eq_false_iff_not] at hsound
      have hlt : lenT st i < c.maxFails := by have := hfa i; omega
      have hoc : okOrFail (outcomeAt h.script (st.calls i)) = true :=
        outcomeAt_okOrFail _ _ ((List.all_eq_true.mp he.okFail) h (List.mem_of_getElem? hhi))
      unfold step
      simp only [hsel, outcomeOf, hhi]
      cases ho : outcomeAt h.script (st.calls i) with
      | ok => left; exact ⟨_, rfl⟩
      | cancel => rw [ho] at hoc; simp [okOrFail] at hoc
      | tooLarge => rw [ho] at hoc; simp [okOrFail] at hoc
      | fail r =>
        right
        have hbad : alwaysOk h = false := by
          cases hgd : alwaysOk h with
          | false => rfl
          | true =>
            rw [outcomeAt_alwaysOk h _ hgd] at ho
            cases ho
        have hnow : ¬ (st.now ≥ c.tryDuration) := by have := hinv.budget; omega
        have hFp : c.failTimeout > 0 := he.failTimeoutPos
        simp only [hFp, if_true, keepRetrying, hnow, if_false]
        refine ⟨_, _, rfl, ?_⟩
        have hsl := slack_bump c st (i := i) (h := h) (hhi := hhi) (hbad := hbad) (hlt := hlt)
          (st' := { st with
            now := st.now + c.interval, robin := (upstreamSelect c.kind (poolAt c st) st.robin c.hash (c.rands st.selects)).2,
            selects := st.selects + 1,
            calls := fun j => if j = i then st.calls j + 1 else st.calls j,
            bodyUnread := st.bodyUnread && !readsBody (.fail r),
            attempts := st.attempts + 1,
            over := applyEvents c.events st.attempts st.over,
            timers := fun j => if j = i then (st.now + c.failTimeout) :: st.timers j else st.timers j }) rfl
        refine ⟨⟨?_, ?_, ?_, ?_, ?_⟩, hsl⟩
        · intro j e he'
          simp only at he'
          by_cases hj : j = i
          · simp only [hj, if_true, List.mem_cons] at he'
            rcases he' with rfl | he'
            · omega
            · exact hinv.unexpired i e he'
          · simp only [hj, if_false] at he'
            exact hinv.unexpired j e he'
        · intro j hj hjget hjok
          have hji : j ≠ i := by
            intro heq; subst heq
            rw [hhi] at hjget
            cases hjget
            rw [hbad] at hjok; cases hjok
          simp only [hji, if_false]
          exact hinv.okClean j hj hjget hjok
        · have hb := hinv.budget
          rw [← hsl, Nat.add_mul] at hb
          simp only [Nat.one_mul] at hb
          show st.now + c.interval + _ * c.interval < c.tryDuration
          omega
        · show applyEvents c.events st.attempts st.over = overAfter c (st.attempts + 1)
          rw [hinv.over]; rfl
        · simp [hinv.len]

/-- A backend that is healthy whatever number of attempts has been made: the loop reaches it. -/
theorem loop_success (hs : SelSound) (hc : SelComplete) (c : Cfg) (he : Enabled c)
    (g : Nat) (hg : ∀ m, goodAfter c m g = true) :
    ∀ (fuel : Nat) (st : St) (acc : List Attempt), Inv c st acc → slack c st < fuel → (loop c fuel st acc).1 = .success := by
  intro fuel
  induction fuel with
  | zero => intro st acc _ h; omega
  | succ fuel ih =>
    intro st acc hinv hlt
    unfold loop
    have hany := any_avail_of_availAt (avail_of_goodAfter c st acc hinv he.outlives g (hg _))
    rcases step_retry hs hc c he st acc hinv hany with ⟨acc', h⟩ | ⟨st', acc', h, hinv', hsl⟩
    · rw [h]
    · rw [h]
      exact ih st' acc' hinv' (by omega)

theorem slack_init (c : Cfg) (robin : Nat) :
    slack c { St.init with robin := robin } = c.maxFails * flakyCount c := by
  unfold slack flakyCount
  have : lenT { St.init with robin := robin } = fun _ => 0 := by funext j; rfl
  rw [this, slackL_zero]

theorem inv_init (c : Cfg) (robin : Nat) (hb : c.maxFails * flakyCount c * c.interval < c.tryDuration) :
    Inv c { St.init with robin := robin } [] := by
  refine ⟨?_, ?_, ?_, rfl, rfl⟩
  · intro i e he; simp [St.init] at he
  · intro i h _ _; rfl
  · rw [slack_init]; simpa [St.init] using hb

theorem fuel_enough (c : Cfg) (robin : Nat) (hI : c.interval ≥ 1)
    (hb : c.maxFails * flakyCount c * c.interval < c.tryDuration) :
    slack c { St.init with robin := robin } < fuelFor c := by
  rw [slack_init]
  have : c.maxFails * flakyCount c ≤ c.maxFails * flakyCount c * c.interval := Nat.le_mul_of_pos_right _ hI
  unfold fuelFor
  omega

/-- backends that can fail are not healthy -/
theorem flakyCount_le_badCount (c : Cfg) : flakyCount c ≤ badCount c := by
  unfold flakyCount badCount
  generalize c.hosts = hs
  induction hs with
  | nil => simp
  | cons h hs ih =>
    simp only [List.filter_cons]
    cases ha : alwaysOk h
    · have : good c h = false := by simp [good, ha]
      simp [this]; omega
    · cases hg : good c h <;> simp <;> omega

theorem serve_success (hs : SelSound) (hc : SelComplete) (c : Cfg) (robin : Nat) (hm : mustSucceed c = true) :
    (serve c robin).1 = .success := by
  simp only [mustSucceed, retriesEnabled, budget, Bool.and_eq_true, decide_eq_true_eq] at hm
  obtain ⟨⟨⟨⟨⟨_, hFpos⟩, hgood⟩, hof⟩, ⟨⟨⟨hI, hM⟩, hB⟩, hF⟩⟩, hsz⟩ := hm
  obtain ⟨g, _, hgs⟩ := List.any_eq_true.mp hgood
  have hb : c.maxFails * flakyCount c * c.interval < c.tryDuration :=
    Nat.lt_of_le_of_lt (Nat.mul_le_mul_right _ (Nat.mul_le_mul_left _ (flakyCount_le_badCount c))) hB
  unfold serve
  exact loop_success hs hc c ⟨hFpos, hof, hM, hF, hsz⟩ g (fun m => stableGood_goodAfter c g m hgs) _ _ _
    (inv_init c robin hb) (fuel_enough c robin hI hb)

/-! ### backends that come back: nobody left in rotation is the only way to fail -/

/-- nobody is in rotation, no recorded failure expires before the loop gives up -/
structure Stuck (c : Cfg) (st : St) : Prop where
  late : ∀ i e, e ∈ st.timers i → e ≥ c.tryDuration + c.interval
  now : st.now < c.tryDuration + c.interval
  nobody : (poolAt c st).any Host.avail = false

theorem failsAt_of_unexpired (st : St) (i : Nat) (h : ∀ e, e ∈ st.timers i → e > st.now) : failsAt st i = lenT st i := by
  unfold failsAt lenT
  congr 1
  rw [List.filter_eq_self]
  intro e he
  simpa using h e he

theorem poolAt_congr (c : Cfg) (st st' : St) (ho : st'.over = st.over) (hf : ∀ i, failsAt st' i = failsAt st i) :
    poolAt c st' = poolAt c st := by
  unfold poolAt
  simp only [ho, hf]

theorem step_stuck (hs : SelSound) (c : Cfg) (st : St) (acc : List Attempt) (h : Stuck c st) :
    step c st acc = .done .badGateway acc ∨ ∃ st', step c st acc = .next st' acc ∧ Stuck c st' := by
  unfold step
  simp only
  cases hsel : (upstreamSelect c.kind (poolAt c st) st.robin c.hash (c.rands st.selects)).1 with
  | some i =>
    have hsound := hs c.kind (poolAt c st) st.robin c.hash (c.rands st.selects)
    rw [hsel] at hsound
    simp only [sound] at hsound
    have := any_avail_of_availAt hsound
    rw [h.nobody] at this
    cases this
  | none =>
    simp only
    rcases keepRetrying_cases c { st with robin := (upstreamSelect c.kind (poolAt c st) st.robin c.hash (c.rands st.selects)).2, selects := st.selects + 1 } acc with hk | ⟨hlt, hk⟩
    · left; exact hk
    · right
      refine ⟨_, hk, ?_, ?_, ?_⟩
      · exact h.late
      · simp only at hlt ⊢; omega
      · have hnow := h.now
        simp only at hlt
        refine (congrArg (fun p => List.any p Host.avail) (poolAt_congr c st _ ?_ ?_)).trans h.nobody
        · rfl
        intro i
        have e1 : failsAt st i = lenT st i :=
          failsAt_of_unexpired st i (fun e he => by have := h.late i e he; omega)
        rw [e1]
        refine (failsAt_of_unexpired _ i ?_).trans rfl
        intro e he
        have := h.late i e he
        show e > st.now + c.interval
        omega

theorem loop_stuck (hs : SelSound) (c : Cfg) :
    ∀ (fuel : Nat) (st : St) (acc : List Attempt), Stuck c st →
      (loop c fuel st acc).1 ≠ .success ∧ (loop c fuel st acc).2 = acc.reverse := by
  intro fuel
  induction fuel with
  | zero => intro st acc _; exact ⟨by simp [loop], rfl⟩
  | succ fuel ih =>
    intro st acc h
    unfold loop
    rcases step_stuck hs c st acc h with hd | ⟨st', hn, h'⟩
    · rw [hd]; exact ⟨by simp, rfl⟩
    · rw [hn]; exact ih st' acc h'

/-- Whatever state the backends arrive in and however it changes between the attempts: the run
ends with an answer, or with no backend that always answers left in rotation. -/
theorem loop_late (hs : SelSound) (hc : SelComplete) (c : Cfg) (he : Enabled c)
    (hL : c.failTimeout ≥ c.tryDuration + c.interval) :
    ∀ (fuel : Nat) (st : St) (acc : List Attempt), Inv c st acc → slack c st < fuel →
      (loop c fuel st acc).1 = .success ∨
        (List.range c.hosts.length).any (goodAfter c (loop c fuel st acc).2.length) = false := by
  intro fuel
  induction fuel with
  | zero => intro st acc _ h; omega
  | succ fuel ih =>
    intro st acc hinv hlt
    cases hany : (poolAt c st).any Host.avail with
    | true =>
      unfold loop
      rcases step_retry hs hc c he st acc hinv hany with ⟨acc', h⟩ | ⟨st', acc', h, hinv', hsl⟩
      · rw [h]; left; rfl
      · rw [h]
        exact ih st' acc' hinv' (by omega)
    | false =>
      right
      have hstuck : Stuck c st := by
        refine ⟨?_, ?_, hany⟩
        · intro i e he'
          have := hinv.unexpired i e he'
          omega
        · have := hinv.budget
          omega
      rw [(loop_stuck hs c (fuel + 1) st acc hstuck).2, List.length_reverse, hinv.len]
      cases hg : (List.range c.hosts.length).any (goodAfter c st.attempts) with
      | false => rfl
      | true =>
        obtain ⟨g, _, hgg⟩ := List.any_eq_true.mp hg
        have := any_avail_of_availAt (avail_of_goodAfter c st acc hinv he.outlives g hgg)
        rw [hany] at this
        cases this

theorem serve_late (hs : SelSound) (hc : SelComplete) (c : Cfg) (robin : Nat)
    (hm : mustSucceedAfter c (serve c robin).2.length = true) : (serve c robin).1 = .success := by
  simp only [mustSucceedAfter, retriesEnabled, budgetLate, Bool.and_eq_true, decide_eq_true_eq] at hm
  obtain ⟨⟨⟨⟨⟨_, hFpos⟩, hof⟩, ⟨⟨⟨hI, hM⟩, hB⟩, hL⟩⟩, hsz⟩, hg⟩ := hm
  have he : Enabled c := ⟨hFpos, hof, hM, by omega, hsz⟩
  have := loop_late hs hc c he hL (fuelFor c) { St.init with robin := robin } [] (inv_init c robin hB) (fuel_enough c robin hI hB)
  rcases this with h | h
  · exact h
  · unfold serve at hg
    rw [h] at hg
    cases hg

/-! ### bodies -/

def BodyOK (c : Cfg) (a : Attempt) : Bool := !c.hasBody || a.body == .full || a.body == .unread

/-- the body every attempt can read is complete when it is buffered, or when the reader is still untouched -/
theorem bodySeen_ok (c : Cfg) (st : St) (o : Outcome) (h : buffered c = true ∨ st.bodyUnread = true) (i : Nat) :
    BodyOK c { host := i, body := bodySeen c st o } = true := by
  unfold BodyOK bodySeen
  cases hb : c.hasBody <;> cases hr : readsBody o <;> rcases h with h | h <;> simp [h]

/-- what one iteration does to the attempt list: nothing, or one new attempt with a complete body;
and it only continues inside the retry window -/
theorem step_bodies (c : Cfg) (st : St) (acc : List Attempt) (h : buffered c = true ∨ st.bodyUnread = true) :
    (∃ r acc', step c st acc = .done r acc' ∧ (acc' = acc ∨ ∃ a, acc' = a :: acc ∧ BodyOK c a = true)) ∨
    (∃ st' acc', step c st acc = .next st' acc' ∧ st.now < c.tryDuration ∧
      (acc' = acc ∧ st'.bodyUnread = st.bodyUnread ∨ ∃ a, acc' = a :: acc ∧ BodyOK c a = true)) := by
  unfold step
  simp only
  cases hsel : (upstreamSelect c.kind (poolAt c st) st.robin c.hash (c.rands st.selects)).1 with
  | none =>
    simp only
    rcases keepRetrying_cases c { st with robin := (upstreamSelect c.kind (poolAt c st) st.robin c.hash (c.rands st.selects)).2, selects := st.selects + 1 } acc with hk | ⟨hlt, hk⟩
    · left; exact ⟨_, _, hk, Or.inl rfl⟩
    · right; exact ⟨_, _, hk, hlt, Or.inl ⟨rfl, rfl⟩⟩
  | some i =>
    simp only
    have hbo := bodySeen_ok c { st with robin := (upstreamSelect c.kind (poolAt c st) st.robin c.hash (c.rands st.selects)).2, selects := st.selects + 1 }
      (outcomeOf c { st with robin := (upstreamSelect c.kind (poolAt c st) st.robin c.hash (c.rands st.selects)).2, selects := st.selects + 1 } i) h i
    cases ho : outcomeOf c { st with robin := (upstreamSelect c.kind (poolAt c st) st.robin c.hash (c.rands st.selects)).2, selects := st.selects + 1 } i with
    | ok => left; rw [ho] at hbo; exact ⟨_, _, rfl, Or.inr ⟨_, rfl, hbo⟩⟩
    | cancel => left; rw [ho] at hbo; exact ⟨_, _, rfl, Or.inr ⟨_, rfl, hbo⟩⟩
    | tooLarge => left; rw [ho] at hbo; exact ⟨_, _, rfl, Or.inr ⟨_, rfl, hbo⟩⟩
    | fail r =>
      rw [ho] at hbo
      simp only
      by_cases hF : c.failTimeout > 0
      · simp only [hF, if_true]
        rcases keepRetrying_cases c _ _ with hk | ⟨hlt, hk⟩
        · left; exact ⟨_, _, hk, Or.inr ⟨_, rfl, hbo⟩⟩
        · right; exact ⟨_, _, hk, hlt, Or.inr ⟨_, rfl, hbo⟩⟩
      · simp only [hF, if_false]
        rcases keepRetrying_cases c _ _ with hk | ⟨hlt, hk⟩
        · left; exact ⟨_, _, hk, Or.inr ⟨_, rfl, hbo⟩⟩
        · right; exact ⟨_, _, hk, hlt, Or.inr ⟨_, rfl, hbo⟩⟩

/-- Buffered body: every attempt of the whole run reads the complete body. -/
theorem loop_bodies_buffered (c : Cfg) (hb : buffered c = true) :
    ∀ (fuel : Nat) (st : St) (acc : List Attempt), (∀ a ∈ acc, BodyOK c a = true) →
      ∀ a ∈ (loop c fuel st acc).2, BodyOK c a = true := by
  intro fuel
  induction fuel with
  | zero => intro st acc hacc a ha; simp only [loop, List.mem_reverse] at ha; exact hacc a ha
  | succ fuel ih =>
    intro st acc hacc
    unfold loop
    rcases step_bodies c st acc (Or.inl hb) with ⟨r, acc', h, hacc'⟩ | ⟨st', acc', h, _, hacc'⟩
    · rw [h]
      intro a ha
      simp only [List.mem_reverse] at ha
      rcases hacc' with rfl | ⟨x, rfl, hx⟩
      · exact hacc a ha
      · rcases List.mem_cons.mp ha with rfl | ha
        · exact hx
        · exact hacc a ha
    · rw [h]
      apply ih
      rcases hacc' with ⟨rfl, _⟩ | ⟨x, rfl, hx⟩
      · exact hacc
      · intro a ha
        rcases List.mem_cons.mp ha with rfl | ha
        · exact hx
        · exact hacc a ha

/-- No retries (try_duration 0): the loop runs once, on the untouched body. -/
theorem loop_bodies_single (c : Cfg) (hd : c.tryDuration = 0) (fuel : Nat) (st : St) (acc : List Attempt)
    (hu : st.bodyUnread = true) (hacc : ∀ a ∈ acc, BodyOK c a = true) :
    ∀ a ∈ (loop c fuel st acc).2, BodyOK c a = true := by
  cases fuel with
  | zero => intro a ha; simp only [loop, List.mem_reverse] at ha; exact hacc a ha
  | succ fuel =>
    unfold loop
    rcases step_bodies c st acc (Or.inr hu) with ⟨r, acc', h, hacc'⟩ | ⟨st', acc', h, hlt, _⟩
    · rw [h]
      intro a ha
      simp only [List.mem_reverse] at ha
      rcases hacc' with rfl | ⟨x, rfl, hx⟩
      · exact hacc a ha
      · rcases List.mem_cons.mp ha with rfl | ha
        · exact hx
        · exact hacc a ha
    · omega

/-! ### giving up -/

/-- nobody in rotation on arrival and no event so far: `Select` finds nobody -/
theorem step_none_available (hs : SelSound) (c : Cfg) (hn : neverAvailable c = true) (st : St) (acc : List Attempt)
    (hov : ∀ i, st.over i = none) :
    step c st acc = keepRetrying c { st with
      robin := (upstreamSelect c.kind (poolAt c st) st.robin c.hash (c.rands st.selects)).2,
      selects := st.selects + 1 } acc := by
  unfold step
  simp only
  cases hsel : (upstreamSelect c.kind (poolAt c st) st.robin c.hash (c.rands st.selects)).1 with
  | none => rfl
  | some i =>
    have hsound := hs c.kind (poolAt c st) st.robin c.hash (c.rands st.selects)
    rw [hsel] at hsound
    simp only [sound] at hsound
    rw [availAt_poolAt] at hsound
    cases hhi : c.hosts[i]? with
    | none => simp [hostState, hhi] at hsound
    | some h =>
      have hup := (List.all_eq_true.mp hn) h (List.mem_of_getElem? hhi)
      simp only [hostState, hhi, hov i, Option.getD_none, HostCfg.state, Bool.and_eq_true, Bool.not_eq_true',
        Bool.or_eq_false_iff, decide_eq_false_iff_not] at hsound
      have hfull : (decide (c.maxConns > 0) && decide (h.conns ≥ c.maxConns)) = false := hsound.2
      have hnf : ¬ (h.fails + failsAt st i ≥ c.maxFails) := hsound.1.2
      have hlt : h.fails < c.maxFails := by omega
      simp only [upS, fullS, HostCfg.state, hsound.1.1, hfull, hlt, decide_true, Bool.not_false, Bool.and_self,
        Bool.not_true, Bool.false_eq_true] at hup

theorem loop_gives_up (hs : SelSound) (c : Cfg) (hn : neverAvailable c = true) (hI : c.interval ≥ 1) :
    ∀ (fuel : Nat) (st : St), (∀ i, st.over i = none) → fuel ≥ 1 → fuel + st.now ≥ c.tryDuration + 1 →
      loop c fuel st [] = (.badGateway, []) := by
  intro fuel
  induction fuel with
  | zero => intro st _ h; omega
  | succ fuel ih =>
    intro st hov _ hsum
    unfold loop
    rw [step_none_available hs c hn st [] hov]
    rcases keepRetrying_cases c { st with
      robin := (upstreamSelect c.kind (poolAt c st) st.robin c.hash (c.rands st.selects)).2,
      selects := st.selects + 1 } [] with hk | ⟨hlt, hk⟩
    · rw [hk]; rfl
    · rw [hk]
      simp only at hlt
      apply ih
      · exact hov
      · omega
      · simp only; omega

theorem serve_gives_up (hs : SelSound) (c : Cfg) (robin : Nat) (hn : neverAvailable c = true) (hI : c.interval ≥ 1) :
    serve c robin = (.badGateway, []) := by
  unfold serve
  apply loop_gives_up hs c hn hI
  · intro i; rfl
  · unfold fuelFor; omega
  · unfold fuelFor; simp [St.init]

end Casket.Retry
