import Casket.Spec.Retry
import Casket.Spec.Policy
/-
Helper lemmas for the retry theorems at the end of Props/C05.lean.  Soundness and completeness
of selection are taken as hypotheses here (`SelSound`, `SelComplete`) and discharged in
Props/C05.lean by `C05_sound` / `C05_complete`.
-/
namespace Casket.Retry
open Casket.Policy Casket.PolicySpec Casket.RetrySpec

def SelSound : Prop :=
  ∀ (k : Kind) (p : Pool) (robin h : Nat) (rs : List Nat), sound p (upstreamSelect k p robin h rs).1 = true

def SelComplete : Prop :=
  ∀ (k : Kind) (p : Pool) (robin h : Nat) (rs : List Nat),
    (p.length ≤ 2147483648 ∧ ∀ x ∈ p, x.conns ≤ maxInt64) → p.any Host.avail = true →
    (upstreamSelect k p robin h rs).1.isSome = true

/-! ### the pool seen by Select -/

theorem poolAt_length (c : Cfg) (st : St) : (poolAt c st).length = c.hosts.length := by
  simp [poolAt]

theorem availAt_poolAt (c : Cfg) (st : St) (i : Nat) :
    availAt (poolAt c st) i =
      match hostState c st.over i with
      | some s => !(s.unhealthy || decide (s.fails + failsAt st i ≥ c.maxFails)) && !fullS c s
      | none => false := by
  unfold availAt poolAt
  rw [List.getElem?_map]
  by_cases hi : i < c.hosts.length
  · rw [List.getElem?_range hi]
    simp only [Option.map_some]
    have : ∃ s, hostState c st.over i = some s := by
      simp [hostState, List.getElem?_eq_getElem hi]
    obtain ⟨s, hs⟩ := this
    simp [hs, Host.avail, Host.full, fullS]
  · have h1 : c.hosts[i]? = none := List.getElem?_eq_none (by omega)
    have h2 : (List.range c.hosts.length)[i]? = none := List.getElem?_eq_none (by simp; omega)
    simp [hostState, h1, h2]

/-! ### events -/

/-- what the events of one attempt leave of the state of host j: what it was, or the state of an event on j -/
theorem applyEvents_cases (evs : List Event) (n : Nat) (over : Nat → Option HostState) (j : Nat) :
    applyEvents evs n over j = over j ∨ ∃ e ∈ evs, e.host = j ∧ applyEvents evs n over j = some e.state := by
  induction evs generalizing over with
  | nil => left; rfl
  | cons e es ih =>
    unfold applyEvents
    simp only [List.foldl_cons]
    rcases ih (if e.attempt = n then (fun j => if j = e.host then some e.state else over j) else over) with h | ⟨e', he', hj, h⟩
    · unfold applyEvents at h
      rw [h]
      by_cases hn : e.attempt = n
      · simp only [hn, if_true]
        by_cases hj : j = e.host
        · right; exact ⟨e, by simp, hj.symm, by simp [hj]⟩
        · left; simp [hj]
      · left; simp [hn]
    · right; exact ⟨e', by simp [he'], hj, h⟩

/-- every state an event has given a host is the state of an event on that host -/
def OverOK (c : Cfg) (over : Nat → Option HostState) : Prop :=
  ∀ i s, over i = some s → ∃ e ∈ c.events, e.host = i ∧ e.state = s

theorem overOK_init (c : Cfg) : OverOK c (fun _ => none) := by
  intro i s h; cases h

theorem overOK_apply (c : Cfg) (n : Nat) (over : Nat → Option HostState) (h : OverOK c over) :
    OverOK c (applyEvents c.events n over) := by
  intro i s hs
  rcases applyEvents_cases c.events n over i with h1 | ⟨e, he, hi, h1⟩
  · rw [h1] at hs; exact h i s hs
  · rw [h1] at hs; cases hs; exact ⟨e, he, hi, rfl⟩

theorem over_untouched (c : Cfg) (over : Nat → Option HostState) (h : OverOK c over) (i : Nat)
    (hu : untouched c i = true) : over i = none := by
  cases ho : over i with
  | none => rfl
  | some s =>
    obtain ⟨e, he, hi, _⟩ := h i s ho
    have := (List.all_eq_true.mp hu) e he
    simp [hi] at this

theorem poolAt_sized (c : Cfg) (st : St) (hs : sized c = true) (hov : OverOK c st.over) :
    (poolAt c st).length ≤ 2147483648 ∧ ∀ x ∈ poolAt c st, x.conns ≤ maxInt64 := by
  simp only [sized, Bool.and_eq_true, decide_eq_true_eq, List.all_eq_true] at hs
  refine ⟨by rw [poolAt_length]; exact hs.1.1, ?_⟩
  intro x hx
  simp only [poolAt, List.mem_map, List.mem_range] at hx
  obtain ⟨i, hi, rfl⟩ := hx
  simp only [hostState, List.getElem?_eq_getElem hi]
  cases ho : st.over i with
  | none => exact hs.1.2 _ (List.getElem_mem hi)
  | some s =>
    obtain ⟨e, he, _, hes⟩ := hov i s ho
    have := hs.2 e he
    simpa [hes] using this

theorem any_avail_of_availAt {p : Pool} {i : Nat} (h : availAt p i = true) : p.any Host.avail = true := by
  unfold availAt at h
  cases hp : p[i]? with
  | none => simp [hp] at h
  | some x =>
    simp only [hp] at h
    exact List.any_eq_true.mpr ⟨x, List.mem_of_getElem? hp, h⟩

/-! ### scripts -/

theorem outcomeAt_mem (script : List Outcome) (n : Nat) (hne : script ≠ []) : outcomeAt script n ∈ script := by
  induction script generalizing n with
  | nil => exact absurd rfl hne
  | cons o rest ih =>
    unfold outcomeAt
    by_cases h : (n = 0 || rest.isEmpty) = true
    · simp [h]
    · simp only [h, Bool.false_eq_true, if_false]
      have hr : rest ≠ [] := by
        intro hr; subst hr; simp at h
      exact List.mem_cons_of_mem _ (ih (n - 1) hr)

theorem outcomeAt_alwaysOk (h : HostCfg) (n : Nat) (hok : alwaysOk h = true) : outcomeAt h.script n = .ok := by
  by_cases hne : h.script = []
  · rw [hne]; rfl
  · have := outcomeAt_mem h.script n hne
    simp only [alwaysOk, List.all_eq_true, beq_iff_eq] at hok
    exact hok _ this

theorem outcomeAt_okOrFail (script : List Outcome) (n : Nat) (h : script.all okOrFail = true) :
    okOrFail (outcomeAt script n) = true := by
  by_cases hne : script = []
  · rw [hne]; rfl
  · exact (List.all_eq_true.mp h) _ (outcomeAt_mem script n hne)

/-! ### the potential: failures the bad backends can still produce before they are all down -/

def slackL (c : Cfg) (len : Nat → Nat) : List HostCfg → Nat → Nat
  | [], _ => 0
  | h :: hs, k => (if !good c h then c.maxFails - len k else 0) + slackL c len hs (k + 1)

def lenT (st : St) (i : Nat) : Nat := (st.timers i).length

def slack (c : Cfg) (st : St) : Nat := slackL c (lenT st) c.hosts 0

theorem slackL_zero (c : Cfg) (hs : List HostCfg) (k : Nat) :
    slackL c (fun _ => 0) hs k = c.maxFails * (hs.filter fun h => !good c h).length := by
  induction hs generalizing k with
  | nil => simp [slackL]
  | cons h hs ih =>
    simp only [slackL, ih, List.filter_cons]
    cases hg : good c h
    · simp [Nat.mul_add, Nat.add_comm]
    · simp

theorem slackL_congr (c : Cfg) (len len' : Nat → Nat) (hs : List HostCfg) (k : Nat)
    (h : ∀ j, k ≤ j → len' j = len j) : slackL c len' hs k = slackL c len hs k := by
  induction hs generalizing k with
  | nil => rfl
  | cons x xs ih =>
    simp only [slackL]
    rw [h k (Nat.le_refl k), ih (k + 1) (fun j hj => h j (by omega))]

theorem slackL_bump (c : Cfg) (len : Nat → Nat) (i0 : Nat) (h0 : HostCfg) (hbad : good c h0 = false)
    (hlt : len i0 < c.maxFails) (hs : List HostCfg) (k : Nat) (hk : k ≤ i0) (hget : hs[i0 - k]? = some h0) :
    slackL c (fun j => if j = i0 then len j + 1 else len j) hs k + 1 = slackL c len hs k := by
  induction hs generalizing k with
  | nil => simp at hget
  | cons x xs ih =>
    simp only [slackL]
    by_cases hki : k = i0
    · subst hki
      simp only [Nat.sub_self, List.getElem?_cons_zero, Option.some.injEq] at hget
      subst hget
      rw [slackL_congr c len _ xs (k + 1) (fun j hj => by
        have : j ≠ k := by omega
        simp [this])]
      simp only [hbad, Bool.not_false, if_true]
      omega
    · have hlt' : k < i0 := by omega
      have hget' : xs[i0 - (k + 1)]? = some h0 := by
        have : i0 - k = (i0 - (k + 1)) + 1 := by omega
        rw [this, List.getElem?_cons_succ] at hget
        exact hget
      have := ih (k + 1) (by omega) hget'
      simp only [hki, if_false]
      omega

/-! ### the invariant of the successful run -/

structure Inv (c : Cfg) (st : St) : Prop where
  unexpired : ∀ i e, e ∈ st.timers i → e ≥ c.failTimeout
  goodClean : ∀ i h, c.hosts[i]? = some h → good c h = true → st.timers i = []
  budget : st.now + slack c st * c.interval < c.tryDuration
  overOK : OverOK c st.over

theorem failsAt_eq_lenT (c : Cfg) (st : St) (hinv : Inv c st) (hF : c.failTimeout ≥ c.tryDuration) (i : Nat) :
    failsAt st i = lenT st i := by
  unfold failsAt lenT
  congr 1
  rw [List.filter_eq_self]
  intro e he
  have := hinv.unexpired i e he
  have := hinv.budget
  simp only [decide_eq_true_eq]
  omega

theorem mem_getElem? {α} {l : List α} {x : α} (h : x ∈ l) : ∃ i : Nat, l[i]? = some x := by
  obtain ⟨i, hi, hx⟩ := List.mem_iff_getElem.mp h
  exact ⟨i, by rw [List.getElem?_eq_getElem hi, hx]⟩

/-- recording one more failure of a bad backend lowers the potential by one -/
theorem slack_bump (c : Cfg) (st st' : St) (i : Nat) (h : HostCfg) (hhi : c.hosts[i]? = some h)
    (hbad : good c h = false) (hlt : lenT st i < c.maxFails)
    (ht : st'.timers = fun j => if j = i then (st.now + c.failTimeout) :: st.timers j else st.timers j) :
    slack c st' + 1 = slack c st := by
  unfold slack
  have : lenT st' = fun j => if j = i then lenT st j + 1 else lenT st j := by
    funext j
    simp only [lenT, ht]
    by_cases hj : j = i <;> simp [hj]
  rw [this]
  exact slackL_bump c (lenT st) i h hbad hlt c.hosts 0 (Nat.zero_le _) (by simpa using hhi)

/-- One iteration from a state satisfying the invariant either succeeds or records one more
failure of a bad backend, keeps the invariant and lowers the potential by one. -/
theorem step_inv (hs : SelSound) (hc : SelComplete) (c : Cfg) (hm : mustSucceed c = true)
    (st : St) (acc : List Attempt) (hinv : Inv c st) :
    (∃ acc', step c st acc = .done .success acc') ∨
    (∃ st' acc', step c st acc = .next st' acc' ∧ Inv c st' ∧ slack c st' + 1 = slack c st) := by
  simp only [mustSucceed, retriesEnabled, budget, Bool.and_eq_true, decide_eq_true_eq] at hm
  obtain ⟨⟨⟨⟨⟨_, hFpos⟩, hgood⟩, hof⟩, ⟨⟨⟨hI, hM⟩, _⟩, hF⟩⟩, hsz⟩ := hm
  -- a healthy backend is available: no event touches it, it has no failures
  obtain ⟨g, _, hgs⟩ := List.any_eq_true.mp hgood
  have hfa : ∀ i, failsAt st i = lenT st i := failsAt_eq_lenT c st hinv hF
  have havg : availAt (poolAt c st) g = true := by
    rw [availAt_poolAt]
    unfold stableGood at hgs
    cases hgi : c.hosts[g]? with
    | none => rw [hgi] at hgs; cases hgs
    | some hg =>
      rw [hgi] at hgs
      simp only [Bool.and_eq_true] at hgs
      obtain ⟨hgg, hgu⟩ := hgs
      have hnone : st.over g = none := over_untouched c st.over hinv.overOK g hgu
      have h0 : failsAt st g = 0 := by rw [hfa, lenT, hinv.goodClean g hg hgi hgg]; rfl
      simp only [good, isFull, Bool.and_eq_true, Bool.not_eq_true', decide_eq_true_eq] at hgg
      have hnf : ¬ (hg.fails ≥ c.maxFails) := by omega
      simp [hostState, hgi, hnone, HostCfg.state, h0, hgg.1.1.1, hnf, fullS, hgg.1.1.2]
  have hany := any_avail_of_availAt havg
  have hsome := hc c.kind (poolAt c st) st.robin c.hash (c.rands st.selects) (poolAt_sized c st hsz hinv.overOK) hany
  have hsound := hs c.kind (poolAt c st) st.robin c.hash (c.rands st.selects)
  cases hsel : (upstreamSelect c.kind (poolAt c st) st.robin c.hash (c.rands st.selects)).1 with
  | none => rw [hsel] at hsome; simp at hsome
  | some i =>
    rw [hsel] at hsound
    simp only [sound] at hsound
    rw [availAt_poolAt] at hsound
    cases hhi : c.hosts[i]? with
    | none => simp [hostState, hhi] at hsound
    | some h =>
      simp only [hostState, hhi, Bool.and_eq_true, Bool.not_eq_true', Bool.or_eq_false_iff, decide_eq_false_iff_not] at hsound
      have hlt : lenT st i < c.maxFails := by have := hfa i; omega
      have hoc : okOrFail (outcomeAt h.script (st.calls i)) = true :=
        outcomeAt_okOrFail _ _ ((List.all_eq_true.mp hof) h (List.mem_of_getElem? hhi))
      unfold step
      simp only [hsel, outcomeOf, hhi]
      cases ho : outcomeAt h.script (st.calls i) with
      | ok => left; exact ⟨_, rfl⟩
      | cancel => rw [ho] at hoc; simp [okOrFail] at hoc
      | tooLarge => rw [ho] at hoc; simp [okOrFail] at hoc
      | fail r =>
        right
        have hbad : good c h = false := by
          cases hgd : good c h with
          | false => rfl
          | true =>
            simp only [good, Bool.and_eq_true] at hgd
            rw [outcomeAt_alwaysOk h _ hgd.2] at ho
            cases ho
        have hnow : ¬ (st.now ≥ c.tryDuration) := by have := hinv.budget; omega
        have hFp : c.failTimeout > 0 := hFpos
        simp only [hFp, if_true, keepRetrying, hnow, if_false]
        refine ⟨_, _, rfl, ?_⟩
        have hsl := slack_bump c st (i := i) (h := h) (hhi := hhi) (hbad := hbad) (hlt := hlt)
          (st' := { st with
            now := st.now + c.interval, robin := (upstreamSelect c.kind (poolAt c st) st.robin c.hash (c.rands st.selects)).2,
            selects := st.selects + 1,
            calls := fun j => if j = i then st.calls j + 1 else st.calls j,
            bodyUnread := st.bodyUnread && !readsBody (.fail r),
            attempts := st.attempts + 1,
            over := applyEvents c.events st.attempts st.over,
            timers := fun j => if j = i then (st.now + c.failTimeout) :: st.timers j else st.timers j }) rfl
        refine ⟨⟨?_, ?_, ?_, ?_⟩, hsl⟩
        · intro j e he
          simp only at he
          by_cases hj : j = i
          · simp only [hj, if_true, List.mem_cons] at he
            rcases he with rfl | he
            · omega
            · exact hinv.unexpired i e he
          · simp only [hj, if_false] at he
            exact hinv.unexpired j e he
        · intro j hj hjget hjgood
          have hji : j ≠ i := by
            intro heq; subst heq
            rw [hhi] at hjget
            cases hjget
            rw [hbad] at hjgood; cases hjgood
          simp only [hji, if_false]
          exact hinv.goodClean j hj hjget hjgood
        · have hb := hinv.budget
          rw [← hsl, Nat.add_mul] at hb
          simp only [Nat.one_mul] at hb
          show st.now + c.interval + _ * c.interval < c.tryDuration
          omega
        · exact overOK_apply c _ _ hinv.overOK

theorem loop_success (hs : SelSound) (hc : SelComplete) (c : Cfg) (hm : mustSucceed c = true) :
    ∀ (fuel : Nat) (st : St) (acc : List Attempt), Inv c st → slack c st < fuel → (loop c fuel st acc).1 = .success := by
  intro fuel
  induction fuel with
  | zero => intro st acc _ h; omega
  | succ fuel ih =>
    intro st acc hinv hlt
    unfold loop
    rcases step_inv hs hc c hm st acc hinv with ⟨acc', h⟩ | ⟨st', acc', h, hinv', hsl⟩
    · rw [h]
    · rw [h]
      exact ih st' acc' hinv' (by omega)

theorem slack_init (c : Cfg) (robin : Nat) :
    slack c { St.init with robin := robin } = c.maxFails * badCount c := by
  unfold slack badCount
  have : lenT { St.init with robin := robin } = fun _ => 0 := by funext j; rfl
  rw [this, slackL_zero]

theorem inv_init (c : Cfg) (robin : Nat) (hm : mustSucceed c = true) : Inv c { St.init with robin := robin } := by
  simp only [mustSucceed, budget, Bool.and_eq_true, decide_eq_true_eq] at hm
  refine ⟨?_, ?_, ?_, ?_⟩
  · intro i e he; simp [St.init] at he
  · intro i h _ _; rfl
  · rw [slack_init]; simpa [St.init] using hm.1.2.1.2
  · exact overOK_init c

theorem serve_success (hs : SelSound) (hc : SelComplete) (c : Cfg) (robin : Nat) (hm : mustSucceed c = true) :
    (serve c robin).1 = .success := by
  unfold serve
  apply loop_success hs hc c hm _ _ _ (inv_init c robin hm)
  rw [slack_init]
  simp only [mustSucceed, budget, Bool.and_eq_true, decide_eq_true_eq] at hm
  have h1 := hm.1.2.1.2
  have hI := hm.1.2.1.1.1
  have : c.maxFails * badCount c ≤ c.maxFails * badCount c * c.interval := Nat.le_mul_of_pos_right _ hI
  unfold fuelFor
  omega

/-! ### bodies -/

def BodyOK (c : Cfg) (a : Attempt) : Bool := !c.hasBody || a.body == .full || a.body == .unread

/-- the body every attempt can read is complete when it is buffered, or when the reader is still untouched -/
theorem bodySeen_ok (c : Cfg) (st : St) (o : Outcome) (h : buffered c = true ∨ st.bodyUnread = true) (i : Nat) :
    BodyOK c { host := i, body := bodySeen c st o } = true := by
  unfold BodyOK bodySeen
  cases hb : c.hasBody <;> cases hr : readsBody o <;> rcases h with h | h <;> simp [h]

theorem keepRetrying_cases (c : Cfg) (st : St) (acc : List Attempt) :
    keepRetrying c st acc = .done .badGateway acc ∨
      (st.now < c.tryDuration ∧ keepRetrying c st acc = .next { st with now := st.now + c.interval } acc) := by
  unfold keepRetrying
  by_cases h : st.now ≥ c.tryDuration
  · left; simp [h]
  · right; exact ⟨by omega, by simp [h]⟩

/-- what one iteration does to the attempt list: nothing, or one new attempt with a complete body;
and it only continues inside the retry window -/
theorem step_bodies (c : Cfg) (st : St) (acc : List Attempt) (h : buffered c = true ∨ st.bodyUnread = true) :
    (∃ r acc', step c st acc = .done r acc' ∧ (acc' = acc ∨ ∃ a, acc' = a :: acc ∧ BodyOK c a = true)) ∨
    (∃ st' acc', step c st acc = .next st' acc' ∧ st.now < c.tryDuration ∧
      (acc' = acc ∧ st'.bodyUnread = st.bodyUnread ∨ ∃ a, acc' = a :: acc ∧ BodyOK c a = true)) := by
  unfold step
  simp only
  cases hsel : (upstreamSelect c.kind (poolAt c st) st.robin c.hash (c.rands st.selects)).1 with
  | none =>
    simp only
    rcases keepRetrying_cases c { st with robin := (upstreamSelect c.kind (poolAt c st) st.robin c.hash (c.rands st.selects)).2, selects := st.selects + 1 } acc with hk | ⟨hlt, hk⟩
    · left; exact ⟨_, _, hk, Or.inl rfl⟩
    · right; exact ⟨_, _, hk, hlt, Or.inl ⟨rfl, rfl⟩⟩
  | some i =>
    simp only
    have hbo := bodySeen_ok c { st with robin := (upstreamSelect c.kind (poolAt c st) st.robin c.hash (c.rands st.selects)).2, selects := st.selects + 1 }
      (outcomeOf c { st with robin := (upstreamSelect c.kind (poolAt c st) st.robin c.hash (c.rands st.selects)).2, selects := st.selects + 1 } i) h i
    cases ho : outcomeOf c { st with robin := (upstreamSelect c.kind (poolAt c st) st.robin c.hash (c.rands st.selects)).2, selects := st.selects + 1 } i with
    | ok => left; rw [ho] at hbo; exact ⟨_, _, rfl, Or.inr ⟨_, rfl, hbo⟩⟩
    | cancel => left; rw [ho] at hbo; exact ⟨_, _, rfl, Or.inr ⟨_, rfl, hbo⟩⟩
    | tooLarge => left; rw [ho] at hbo; exact ⟨_, _, rfl, Or.inr ⟨_, rfl, hbo⟩⟩
    | fail r =>
      rw [ho] at hbo
      simp only
      by_cases hF : c.failTimeout > 0
      · simp only [hF, if_true]
        rcases keepRetrying_cases c _ _ with hk | ⟨hlt, hk⟩
        · left; exact ⟨_, _, hk, Or.inr ⟨_, rfl, hbo⟩⟩
        · right; exact ⟨_, _, hk, hlt, Or.inr ⟨_, rfl, hbo⟩⟩
      · simp only [hF, if_false]
        rcases keepRetrying_cases c _ _ with hk | ⟨hlt, hk⟩
        · left; exact ⟨_, _, hk, Or.inr ⟨_, rfl, hbo⟩⟩
        · right; exact ⟨_, _, hk, hlt, Or.inr ⟨_, rfl, hbo⟩⟩

/-- Buffered body: every attempt of the whole run reads the complete body. -/
theorem loop_bodies_buffered (c : Cfg) (hb : buffered c = true) :
    ∀ (fuel : Nat) (st : St) (acc : List Attempt), (∀ a ∈ acc, BodyOK c a = true) →
      ∀ a ∈ (loop c fuel st acc).2, BodyOK c a = true := by
  intro fuel
  induction fuel with
  | zero => intro st acc hacc a ha; simp only [loop, List.mem_reverse] at ha; exact hacc a ha
  | succ fuel ih =>
    intro st acc hacc
    unfold loop
    rcases step_bodies c st acc (Or.inl hb) with ⟨r, acc', h, hacc'⟩ | ⟨st', acc', h, _, hacc'⟩
    · rw [h]
      intro a ha
      simp only [List.mem_reverse] at ha
      rcases hacc' with rfl | ⟨x, rfl, hx⟩
      · exact hacc a ha
      · rcases List.mem_cons.mp ha with rfl | ha
        · exact hx
        · exact hacc a ha
    · rw [h]
      apply ih
      rcases hacc' with ⟨rfl, _⟩ | ⟨x, rfl, hx⟩
      · exact hacc
      · intro a ha
        rcases List.mem_cons.mp ha with rfl | ha
        · exact hx
        · exact hacc a ha

/-- No retries (try_duration 0): the loop runs once, on the untouched body. -/
theorem loop_bodies_single (c : Cfg) (hd : c.tryDuration = 0) (fuel : Nat) (st : St) (acc : List Attempt)
    (hu : st.bodyUnread = true) (hacc : ∀ a ∈ acc, BodyOK c a = true) :
    ∀ a ∈ (loop c fuel st acc).2, BodyOK c a = true := by
  cases fuel with
  | zero => intro a ha; simp only [loop, List.mem_reverse] at ha; exact hacc a ha
  | succ fuel =>
    unfold loop
    rcases step_bodies c st acc (Or.inr hu) with ⟨r, acc', h, hacc'⟩ | ⟨st', acc', h, hlt, _⟩
    · rw [h]
      intro a ha
      simp only [List.mem_reverse] at ha
      rcases hacc' with rfl | ⟨x, rfl, hx⟩
      · exact hacc a ha
      · rcases List.mem_cons.mp ha with rfl | ha
        · exact hx
        · exact hacc a ha
    · omega

/-! ### giving up -/

/-- nobody in rotation on arrival and no event so far: `Select` finds nobody -/
theorem step_none_available (hs : SelSound) (c : Cfg) (hn : neverAvailable c = true) (st : St) (acc : List Attempt)
    (hov : ∀ i, st.over i = none) :
    step c st acc = keepRetrying c { st with
      robin := (upstreamSelect c.kind (poolAt c st) st.robin c.hash (c.rands st.selects)).2,
      selects := st.selects + 1 } acc := by
  unfold step
  simp only
  cases hsel : (upstreamSelect c.kind (poolAt c st) st.robin c.hash (c.rands st.selects)).1 with
  | none => rfl
  | some i =>
    have hsound := hs c.kind (poolAt c st) st.robin c.hash (c.rands st.selects)
    rw [hsel] at hsound
    simp only [sound] at hsound
    rw [availAt_poolAt] at hsound
    cases hhi : c.hosts[i]? with
    | none => simp [hostState, hhi] at hsound
    | some h =>
      have hup := (List.all_eq_true.mp hn) h (List.mem_of_getElem? hhi)
      simp only [hostState, hhi, hov i, Option.getD_none, HostCfg.state, Bool.and_eq_true, Bool.not_eq_true',
        Bool.or_eq_false_iff, decide_eq_false_iff_not] at hsound
      have hfull : (decide (c.maxConns > 0) && decide (h.conns ≥ c.maxConns)) = false := hsound.2
      have hnf : ¬ (h.fails + failsAt st i ≥ c.maxFails) := hsound.1.2
      have hlt : h.fails < c.maxFails := by omega
      simp only [upS, fullS, HostCfg.state, hsound.1.1, hfull, hlt, decide_true, Bool.not_false, Bool.and_self,
        Bool.not_true, Bool.false_eq_true] at hup

theorem loop_gives_up (hs : SelSound) (c : Cfg) (hn : neverAvailable c = true) (hI : c.interval ≥ 1) :
    ∀ (fuel : Nat) (st : St), (∀ i, st.over i = none) → fuel ≥ 1 → fuel + st.now ≥ c.tryDuration + 1 →
      loop c fuel st [] = (.badGateway, []) := by
  intro fuel
  induction fuel with
  | zero => intro st _ h; omega
  | succ fuel ih =>
    intro st hov _ hsum
    unfold loop
    rw [step_none_available hs c hn st [] hov]
    rcases keepRetrying_cases c { st with
      robin := (upstreamSelect c.kind (poolAt c st) st.robin c.hash (c.rands st.selects)).2,
      selects := st.selects + 1 } [] with hk | ⟨hlt, hk⟩
    · rw [hk]; rfl
    · rw [hk]
      simp only at hlt
      apply ih
      · exact hov
      · omega
      · simp only; omega

theorem serve_gives_up (hs : SelSound) (c : Cfg) (robin : Nat) (hn : neverAvailable c = true) (hI : c.interval ≥ 1) :
    serve c robin = (.badGateway, []) := by
  unfold serve
  apply loop_gives_up hs c hn hI
  · intro i; rfl
  · unfold fuelFor; omega
  · unfold fuelFor; simp [St.init]

end Casket.Retry
