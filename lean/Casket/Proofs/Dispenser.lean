import Casket.Spec.Dispenser
/-
Lemmas about the dispenser model (C11, and the cursor facts C10 needs).
-/
namespace Casket.Dispenser
open Casket.Lexer Casket.DispenserSpec

theorem tokAt_some {ts : List Token} {i : Int} {t : Token} (h : tokAt ts i = some t) :
    0 ≤ i ∧ i < (ts.length : Int) := by
  unfold tokAt at h
  by_cases h0 : 0 ≤ i
  · simp only [h0, if_true] at h
    have := (List.getElem?_eq_some_iff.mp h).1
    omega
  · simp [h0] at h

theorem tokAt_none_of_neg {ts : List Token} {i : Int} (h : i < 0) : tokAt ts i = none := by
  unfold tokAt; simp; omega

theorem tokAt_isSome {ts : List Token} {i : Int} (h0 : 0 ≤ i) (h1 : i < (ts.length : Int)) :
    ∃ t, tokAt ts i = some t := by
  unfold tokAt
  simp only [h0, if_true]
  have : i.toNat < ts.length := by omega
  exact ⟨ts[i.toNat], List.getElem?_eq_getElem this⟩

namespace Disp

/-- what every cursor-moving method guarantees: tokens and file name untouched, cursor inside [-1, len] -/
structure Step (d d' : Disp) : Prop where
  tokens : d'.tokens = d.tokens
  filename : d'.filename = d.filename
  ok : cursorOk d'

theorem Step.refl {d : Disp} (h : cursorOk d) : Step d d := ⟨rfl, rfl, h⟩

theorem Step.trans {a b c : Disp} (h1 : Step a b) (h2 : Step b c) : Step a c :=
  ⟨h2.tokens.trans h1.tokens, h2.filename.trans h1.filename, h2.ok⟩

theorem len_eq_of_tokens {d d' : Disp} (h : d'.tokens = d.tokens) : d'.len = d.len := by
  unfold len; rw [h]

@[simp] theorem setCursor_tokens (d : Disp) (c : Int) : (d.setCursor c).tokens = d.tokens := rfl
@[simp] theorem setCursor_filename (d : Disp) (c : Int) : (d.setCursor c).filename = d.filename := rfl
@[simp] theorem setCursor_cursor (d : Disp) (c : Int) : (d.setCursor c).cursor = c := rfl
@[simp] theorem setCursor_nesting (d : Disp) (c : Int) : (d.setCursor c).nesting = d.nesting := rfl
@[simp] theorem setCursor_len (d : Disp) (c : Int) : (d.setCursor c).len = d.len := rfl

theorem len_nonneg (d : Disp) : 0 ≤ d.len := by unfold len; omega

/-- moving the cursor to `c` with `-1 ≤ c ≤ len` is a legal step -/
theorem step_setCursor (d : Disp) (c : Int) (h1 : -1 ≤ c) (h2 : c ≤ d.len) : Step d (d.setCursor c) :=
  ⟨rfl, rfl, ⟨by simpa using h1, by simpa using h2⟩⟩

/-- what `Next`, `NextArg`, `NextLine`, `nextOnSameLine` promise about their result `r` -/
def StepSpec (d : Disp) (r : Bool × Disp) : Prop :=
  Step d r.2 ∧ r.2.nesting = d.nesting ∧
  (r.1 = true → r.2.cursor = d.cursor + 1 ∧ r.2.cursor < max d.len 1) ∧
  (r.1 = false → r.2 = d)

theorem stepSpec_true (d : Disp) (h : cursorOk d) (hb : d.cursor + 1 < max d.len 1) :
    StepSpec d (true, d.setCursor (d.cursor + 1)) := by
  have hl := len_nonneg d
  unfold cursorOk at h
  exact ⟨step_setCursor d _ (by omega) (by omega), rfl, fun _ => ⟨rfl, by simpa using hb⟩, fun hf => by simp at hf⟩

theorem stepSpec_false (d : Disp) (h : cursorOk d) : StepSpec d (false, d) :=
  ⟨Step.refl h, rfl, fun hf => by simp at hf, fun _ => rfl⟩

theorem next_spec (d : Disp) (h : cursorOk d) : StepSpec d d.next ∧ (d.next.1 = true → d.next.2.cursor < d.len) := by
  have hl := len_nonneg d
  by_cases hc : d.cursor < d.len - 1
  · have hn : d.next = (true, d.setCursor (d.cursor + 1)) := by simp [next, hc]
    rw [hn]
    exact ⟨stepSpec_true d h (by omega), fun _ => by simp; omega⟩
  · have hn : d.next = (false, d) := by simp [next, hc]
    rw [hn]
    exact ⟨stepSpec_false d h, fun hf => by simp at hf⟩

/-- shared shape of NextArg / nextOnSameLine / NextLine: at a negative cursor step to 0; otherwise step
only if the current and the next token exist (and some test on them passes) -/
theorem pairStep_spec (d : Disp) (h : cursorOk d) (test : Token → Token → Bool) :
    StepSpec d (if d.cursor < 0 then (true, d.setCursor (d.cursor + 1))
      else match d.tok? d.cursor, d.tok? (d.cursor + 1) with
        | some a, some b => if test a b then (true, d.setCursor (d.cursor + 1)) else (false, d)
        | _, _ => (false, d)) := by
  have hl := len_nonneg d
  have hh := h
  unfold cursorOk at hh
  split
  · exact stepSpec_true d h (by omega)
  · split
    · rename_i a b ha hb
      have hlt := (tokAt_some hb).2
      split
      · exact stepSpec_true d h (by simp only [len]; omega)
      · exact stepSpec_false d h
    · exact stepSpec_false d h

theorem nextOnSameLine_spec (d : Disp) (h : cursorOk d) : StepSpec d d.nextOnSameLine :=
  pairStep_spec d h (fun a b => !tokNewLine a b)

theorem nextLine_spec (d : Disp) (h : cursorOk d) : StepSpec d d.nextLine :=
  pairStep_spec d h (fun a b => tokNewLine a b)

theorem nextArg_eq (d : Disp) : d.nextArg =
    (if d.cursor < 0 then (true, d.setCursor (d.cursor + 1))
      else match d.tok? d.cursor, d.tok? (d.cursor + 1) with
        | some a, some b =>
          if (a.file == b.file && a.line + numLineBreaks a.text == b.line) then (true, d.setCursor (d.cursor + 1)) else (false, d)
        | _, _ => (false, d)) := by
  unfold nextArg
  by_cases h0 : d.cursor < 0
  · rw [if_pos h0, if_pos h0]
  · rw [if_neg h0, if_neg h0]
    by_cases h1 : d.cursor ≥ d.len
    · rw [if_pos h1]
      have : d.tok? d.cursor = none := by
        unfold tok? tokAt
        rw [if_pos (by omega)]
        exact List.getElem?_eq_none (by simp only [len] at h1; omega)
      rw [this]
    · rw [if_neg h1]
      cases d.tok? d.cursor <;> cases d.tok? (d.cursor + 1) <;> rfl

theorem nextArg_spec (d : Disp) (h : cursorOk d) : StepSpec d d.nextArg := by
  rw [nextArg_eq]
  exact pairStep_spec d h (fun a b => a.file == b.file && a.line + numLineBreaks a.text == b.line)

/-- a method call as seen from outside: same tokens, cursor still legal and not moved backwards -/
structure Mono (d d' : Disp) : Prop where
  step : Step d d'
  fwd : d.cursor ≤ d'.cursor

theorem Mono.refl {d : Disp} (h : cursorOk d) : Mono d d := ⟨Step.refl h, Int.le_refl _⟩

theorem Mono.trans {a b c : Disp} (h1 : Mono a b) (h2 : Mono b c) : Mono a c :=
  ⟨h1.step.trans h2.step, Int.le_trans h1.fwd h2.fwd⟩

theorem Mono.len {d d' : Disp} (h : Mono d d') : d'.len = d.len := len_eq_of_tokens h.step.tokens

theorem StepSpec.mono {d : Disp} {r : Bool × Disp} (h : StepSpec d r) : Mono d r.2 := by
  refine ⟨h.1, ?_⟩
  cases hr : r.1 with
  | true => have := (h.2.2.1 hr).1; omega
  | false => rw [h.2.2.2 hr]; exact Int.le_refl _

theorem Mono.withNesting {d d' : Disp} (h : Mono d d') (n : Int) : Mono d { d' with nesting := n } :=
  ⟨⟨h.step.tokens, h.step.filename, h.step.ok⟩, h.fwd⟩

/-- what `NextBlockNesting` promises: never backwards, and a `true` answer has consumed a token -/
def BlockSpec (d : Disp) (r : Bool × Disp) : Prop :=
  Mono d r.2 ∧ (r.1 = true → d.cursor < r.2.cursor ∧ r.2.cursor < max d.len 1)

theorem StepSpec.bound {d : Disp} {r : Bool × Disp} (h : StepSpec d r) (hd : d.cursor < max d.len 1) :
    r.2.cursor < max d.len 1 := by
  cases hr : r.1 with
  | true => exact (h.2.2.1 hr).2
  | false => rw [h.2.2.2 hr]; exact hd

theorem valIsAndNotSameLine_spec (d : Disp) (h : cursorOk d) (v : Bytes) (hd : d.cursor < max d.len 1) :
    Mono d (d.valIsAndNotSameLine v).2 ∧ (d.valIsAndNotSameLine v).2.cursor < max d.len 1 := by
  unfold valIsAndNotSameLine
  split
  · exact ⟨(nextOnSameLine_spec d h).mono, (nextOnSameLine_spec d h).bound hd⟩
  · exact ⟨Mono.refl h, hd⟩

theorem adjustNesting_spec (d : Disp) (h : cursorOk d) (hd : d.cursor < max d.len 1) :
    Mono d d.adjustNesting ∧ d.adjustNesting.cursor < max d.len 1 := by
  obtain ⟨m1, b1⟩ := valIsAndNotSameLine_spec d h rbrace hd
  have hl1 := m1.len
  obtain ⟨m2, b2⟩ := valIsAndNotSameLine_spec _ m1.step.ok lbrace (by rw [hl1]; exact b1)
  unfold adjustNesting
  simp only
  split
  · exact ⟨m1.withNesting _, b1⟩
  · split
    · exact ⟨(m1.trans m2).withNesting _, by rw [hl1] at b2; exact b2⟩
    · exact ⟨m1.trans m2, by rw [hl1] at b2; exact b2⟩

theorem nextBlockNesting_spec (d : Disp) (h : cursorOk d) (initial : Int) :
    BlockSpec d (d.nextBlockNesting initial) := by
  have hl := len_nonneg d
  unfold nextBlockNesting
  simp only
  split
  · -- already inside a block
    obtain ⟨hs, hlt⟩ := next_spec d h
    cases hok : d.next.1 with
    | false => simp only [Bool.not_false, if_true]; exact ⟨hs.mono, fun hf => by simp at hf⟩
    | true =>
      simp only [Bool.not_true, Bool.false_eq_true, if_false]
      have m1 : Mono d d.next.2 := hs.mono
      have hc1 := (hs.2.2.1 hok).1
      have hb1 := hlt hok
      have hl1 := m1.len
      obtain ⟨m2, b2⟩ := adjustNesting_spec _ m1.step.ok (by rw [hl1]; omega)
      refine ⟨m1.trans m2, fun _ => ⟨?_, by rw [hl1] at b2; exact b2⟩⟩
      have := m2.fwd
      simp only; omega
  · -- looking for the opening brace on the same line
    have hs := nextOnSameLine_spec d h
    cases hok : d.nextOnSameLine.1 with
    | false => simp only [Bool.not_false, if_true]; exact ⟨hs.mono, fun hf => by simp at hf⟩
    | true =>
      simp only [Bool.not_true, Bool.false_eq_true, if_false]
      have m1 : Mono d d.nextOnSameLine.2 := hs.mono
      obtain ⟨hc1, hb1⟩ := hs.2.2.1 hok
      have hl1 := m1.len
      have hh := h; unfold cursorOk at hh
      split
      · refine ⟨⟨⟨by simp [m1.step.tokens], by simp [m1.step.filename], ?_⟩, ?_⟩, fun hf => by simp at hf⟩
        · unfold cursorOk; simp only [setCursor_cursor, setCursor_len]; omega
        · simp only [setCursor_cursor]; omega
      · obtain ⟨hs2, _⟩ := next_spec _ m1.step.ok
        have m2 : Mono d.nextOnSameLine.2 d.nextOnSameLine.2.next.2 := hs2.mono
        have b2 := hs2.bound (by rw [hl1]; exact hb1)
        split
        · exact ⟨m1.trans m2, fun hf => by simp at hf⟩
        · refine ⟨(m1.trans m2).withNesting _, fun _ => ⟨?_, by rw [hl1] at b2; exact b2⟩⟩
          have := m2.fwd
          simp only; omega

theorem nextBlock_spec (d : Disp) (h : cursorOk d) : BlockSpec d d.nextBlock := nextBlockNesting_spec d h 0

/-- `RemainingArgs` for any fuel: legal, never backwards -/
theorem remainingArgsGo_spec (fuel : Nat) (d : Disp) (h : cursorOk d) (acc : List Bytes) :
    Mono d (remainingArgsGo fuel d acc).2 := by
  induction fuel generalizing d acc with
  | zero => exact Mono.refl h
  | succ n ih =>
    have hs := nextArg_spec d h
    unfold remainingArgsGo
    simp only
    cases hok : d.nextArg.1 with
    | false => simp only [Bool.not_false, if_true]; exact hs.mono
    | true =>
      simp only [Bool.not_true, Bool.false_eq_true, if_false]
      have m1 : Mono d d.nextArg.2 := hs.mono
      obtain ⟨hc1, hb1⟩ := hs.2.2.1 hok
      have hh := h; unfold cursorOk at hh
      have hl := len_nonneg d
      split
      · refine ⟨⟨by simp [m1.step.tokens], by simp [m1.step.filename], ?_⟩, ?_⟩
        · unfold cursorOk; simp only [setCursor_cursor, setCursor_len, m1.len]; omega
        · simp only [setCursor_cursor]; omega
      · exact m1.trans (ih _ m1.step.ok _)

theorem remainingArgs_spec (d : Disp) (h : cursorOk d) : Mono d d.remainingArgs.2 :=
  remainingArgsGo_spec _ d h []

/-- the fuel `len + 2` of `remainingArgs` is never exhausted: more fuel gives the same answer -/
theorem remainingArgsGo_fuel (fuel : Nat) (d : Disp) (h : cursorOk d) (acc : List Bytes)
    (hf : (max d.len 1 - d.cursor).toNat < fuel) (k : Nat) :
    remainingArgsGo (fuel + k) d acc = remainingArgsGo fuel d acc := by
  induction fuel generalizing d acc with
  | zero => omega
  | succ n ih =>
    have hs := nextArg_spec d h
    rw [show n + 1 + k = (n + k) + 1 by omega]
    unfold remainingArgsGo
    simp only
    cases hok : d.nextArg.1 with
    | false => simp only [Bool.not_false, if_true]
    | true =>
      simp only [Bool.not_true, Bool.false_eq_true, if_false]
      split
      · rfl
      · obtain ⟨hc1, hb1⟩ := hs.2.2.1 hok
        have hl1 := hs.mono.len
        exact ih _ hs.mono.step.ok _ (by rw [hl1]; omega)

theorem args_spec (n : Nat) (d : Disp) (h : cursorOk d) (acc : List Bytes) : Mono d (args n d acc).2.2 := by
  induction n generalizing d acc with
  | zero => exact Mono.refl h
  | succ n ih =>
    have hs := nextArg_spec d h
    unfold args
    simp only
    cases hok : d.nextArg.1 with
    | false => simp only [Bool.not_false, if_true]; exact hs.mono
    | true =>
      simp only [Bool.not_true, Bool.false_eq_true, if_false]
      exact hs.mono.trans (ih _ hs.mono.step.ok _)

theorem apply_spec (d : Disp) (h : cursorOk d) (op : Op) : Mono d (d.apply op) := by
  cases op with
  | next => exact (next_spec d h).1.mono
  | nextArg => exact (nextArg_spec d h).mono
  | nextLine => exact (nextLine_spec d h).mono
  | nextBlock => exact (nextBlock_spec d h).1
  | nextBlockNesting i => exact (nextBlockNesting_spec d h i).1
  | remainingArgs => exact remainingArgs_spec d h
  | args n => exact args_spec n d h []

theorem new_ok (f : String) (ts : List Token) : cursorOk (Disp.new f ts) := by
  unfold cursorOk Disp.new len; simp only; omega

/-- a `for c.NextBlock() { body }` loop ends: every `true` of `NextBlock` has consumed a token -/
theorem blockLoop_terminates (body : Disp → Disp) (hbody : ∀ d, cursorOk d → Mono d (body d))
    (fuel : Nat) (d : Disp) (h : cursorOk d) (hf : (max d.len 1 - d.cursor).toNat < fuel) :
    (blockLoop body fuel d).isSome = true := by
  induction fuel generalizing d with
  | zero => omega
  | succ n ih =>
    obtain ⟨m, hb⟩ := nextBlock_spec d h
    unfold blockLoop
    simp only
    cases hok : d.nextBlock.1 with
    | false => simp
    | true =>
      simp only [if_true]
      obtain ⟨h1, h2⟩ := hb hok
      have mb := hbody _ m.step.ok
      have hl : (body d.nextBlock.2).len = d.len := (m.trans mb).len
      have hm := mb.fwd
      exact ih _ mb.step.ok (by rw [hl]; omega)

end Disp
end Casket.Dispenser
