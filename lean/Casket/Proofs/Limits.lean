import Casket.Model.Limits
import Casket.Spec.Limits
/-
Helper lemmas for C17.
-/
namespace Casket.Limits
open Casket.LimitsSpec

/-! ### the underlying reader -/

theorem chunk_le (s : List Nat) (k : Nat) : chunk s k ≤ k := by
  unfold chunk; split <;> omega

theorem Under.read_spec (u : Under) (k : Nat) :
    (u.read k).1 ++ (u.read k).2.2.data = u.data ∧
    (u.read k).2.2.endErr = u.endErr ∧
    (u.read k).2.2.errWithLast = u.errWithLast ∧
    (u.read k).1.length ≤ k ∧
    (∀ e, (u.read k).2.1 = some e → e = u.endErr ∧ (u.read k).2.2.data = []) := by
  unfold Under.read
  by_cases hd : u.data.isEmpty = true
  · simp only [hd, if_true]
    have : u.data = [] := List.isEmpty_iff.mp hd
    simp [this]
  · rw [if_neg hd]
    have hm := chunk_le u.script k
    generalize chunk u.script k = m at hm
    have hk : (List.take m u.data).length ≤ k := by rw [List.length_take]; omega
    simp only []
    by_cases hr : ((List.drop m u.data).isEmpty && u.errWithLast) = true
    · simp only [hr, if_true]
      refine ⟨List.take_append_drop _ _, trivial, trivial, hk, ?_⟩
      intro e he
      simp at he
      simp only [Bool.and_eq_true] at hr
      exact ⟨he.symm, List.isEmpty_iff.mp hr.1⟩
    · simp only [hr]
      refine ⟨List.take_append_drop _ _, rfl, rfl, hk, ?_⟩
      intro e he; simp at he

/-! ### maxBytesReader -/

/-- the error a complete drain of `u` under a limit of `n` must end with -/
def wantErr (n : Nat) (u : Under) : RErr := if u.data.length > n then .tooLarge else u.endErr

theorem MBR.read_err (l : MBR) (e : RErr) (h : l.err = some e) (plen : Nat) :
    l.read plen = ([], some e, l) := by
  unfold MBR.read; simp [h]

theorem MBR.read_spec (l : MBR) (h : l.err = none) (plen : Nat) :
    ((l.read plen).2.1 = none →
      (l.read plen).2.2.err = none ∧ (l.read plen).1 ++ (l.read plen).2.2.under.data = l.under.data ∧
      (l.read plen).2.2.n + (l.read plen).1.length = l.n ∧
      (l.read plen).2.2.under.endErr = l.under.endErr) ∧
    (∀ e, (l.read plen).2.1 = some e →
      (l.read plen).2.2.err = some e ∧ (l.read plen).1 = l.under.data.take l.n ∧ e = wantErr l.n l.under) := by
  unfold MBR.read
  simp only [h]
  by_cases hp : plen = 0
  · simp [hp, h]
  · simp only [hp, if_false]
    generalize hk : (if plen > l.n + 1 then l.n + 1 else plen) = k
    have hkle : k ≤ l.n + 1 := by
      rw [← hk]; split <;> omega
    obtain ⟨happ, hend, _, hlen, herr⟩ := Under.read_spec l.under k
    generalize hr : l.under.read k = r at happ hend hlen herr
    obtain ⟨out, e, u'⟩ := r
    simp only at happ hend hlen herr ⊢
    by_cases hle : out.length ≤ l.n
    · simp only [hle, if_true]
      refine ⟨fun he => ⟨he, happ, by omega, hend⟩, ?_⟩
      intro x hx
      obtain ⟨hx1, hx2⟩ := herr x hx
      rw [hx2, List.append_nil] at happ
      refine ⟨hx, ?_, ?_⟩
      · rw [← happ, List.take_of_length_le hle]
      · unfold wantErr
        rw [← happ]
        have : ¬ out.length > l.n := by omega
        simp [this, hx1]
    · simp only [hle, if_false]
      refine ⟨fun he => by simp at he, ?_⟩
      intro x hx
      simp at hx
      have hlen2 : out.length = l.n + 1 := by omega
      refine ⟨by simp [hx], ?_, ?_⟩
      · rw [← happ, List.take_append_of_le_length (by omega)]
      · unfold wantErr
        have : l.under.data.length > l.n := by rw [← happ, List.length_append]; omega
        simp [this, hx]

theorem delivered_cons (x : Bytes × Option RErr) (t : Trace) : delivered (x :: t) = x.1 ++ delivered t := by
  simp [delivered]

theorem MBR.run_stuck (bufs : List Nat) (l : MBR) (e : RErr) (h : l.err = some e) :
    allSame e (l.run bufs) = true ∧ delivered (l.run bufs) = [] := by
  induction bufs with
  | nil => simp [MBR.run, allSame, delivered]
  | cons b bs ih =>
    unfold MBR.run
    rw [MBR.read_err l e h]
    simp only [delivered_cons, List.nil_append]
    refine ⟨?_, ih.2⟩
    have := ih.1
    simp only [allSame, List.all_cons] at this ⊢
    simp [this]

theorem MBR.run_spec (bufs : List Nat) (l : MBR) (h : l.err = none) :
    delivered (l.run bufs) <+: l.under.data.take l.n ∧
    stickyOK (l.run bufs) = true ∧
    (∀ e, firstErr (l.run bufs) = some e →
      delivered (l.run bufs) = l.under.data.take l.n ∧ e = wantErr l.n l.under) := by
  induction bufs generalizing l with
  | nil => simp [MBR.run, delivered, stickyOK, firstErr]
  | cons b bs ih =>
    unfold MBR.run
    obtain ⟨hnone, hsome⟩ := MBR.read_spec l h b
    generalize hr : l.read b = r at hnone hsome
    obtain ⟨out, e, l'⟩ := r
    simp only at hnone hsome ⊢
    rw [delivered_cons]
    cases e with
    | some x =>
      obtain ⟨herr, hout, hx⟩ := hsome x rfl
      obtain ⟨hsame, hdel⟩ := MBR.run_stuck bs l' x herr
      simp only [hdel, List.append_nil, stickyOK, firstErr]
      refine ⟨by rw [hout]; exact List.prefix_refl _, hsame, ?_⟩
      intro e he
      cases he
      exact ⟨hout, hx⟩
    | none =>
      obtain ⟨herr, happ, hn, hend⟩ := hnone rfl
      obtain ⟨ihp, ihs, ihe⟩ := ih l' herr
      have htake : l.under.data.take l.n = out ++ l'.under.data.take l'.n := by
        rw [← happ, List.take_append]
        have h1 : List.take l.n out = out := List.take_of_length_le (by omega)
        have h2 : l.n - out.length = l'.n := by omega
        rw [h1, h2]
      simp only [stickyOK, firstErr]
      refine ⟨?_, ihs, ?_⟩
      · rw [htake]; exact (List.prefix_append_right_inj out).mpr ihp
      · intro e he
        obtain ⟨h1, h2⟩ := ihe e he
        refine ⟨by rw [h1, htake], ?_⟩
        rw [h2]
        unfold wantErr
        have : (l.under.data.length > l.n) ↔ (l'.under.data.length > l'.n) := by
          rw [← happ, List.length_append]; omega
        simp only [this, hend]

theorem Under.run_spec (bufs : List Nat) (u : Under) :
    delivered (u.run bufs) <+: u.data ∧
    (∀ e, firstErr (u.run bufs) = some e → delivered (u.run bufs) = u.data ∧ e = u.endErr) := by
  induction bufs generalizing u with
  | nil => simp [Under.run, delivered, firstErr]
  | cons b bs ih =>
    unfold Under.run
    by_cases hb : b = 0
    · simp only [hb, if_true, delivered_cons, List.nil_append, firstErr]
      exact ih u
    · simp only [hb, if_false]
      obtain ⟨happ, hend, _, _, herr⟩ := Under.read_spec u b
      generalize hr : u.read b = r at happ hend herr
      obtain ⟨out, e, u'⟩ := r
      simp only at happ hend herr ⊢
      rw [delivered_cons]
      obtain ⟨ihp, ihe⟩ := ih u'
      cases e with
      | some x =>
        obtain ⟨hx, hnil⟩ := herr x rfl
        rw [hnil] at ihp
        have hd : delivered (u'.run bs) = [] := List.prefix_nil.mp ihp
        rw [hnil, List.append_nil] at happ
        simp only [hd, List.append_nil, firstErr, happ]
        refine ⟨List.prefix_refl _, ?_⟩
        intro e he; cases he; exact ⟨trivial, hx⟩
      | none =>
        simp only [firstErr]
        refine ⟨by rw [← happ]; exact (List.prefix_append_right_inj out).mpr ihp, ?_⟩
        intro e he
        obtain ⟨h1, h2⟩ := ihe e he
        exact ⟨by rw [h1, happ], by rw [h2, hend]⟩

/-- The reader part of the property holds for every limit, every scripted body and every
sequence of caller buffer sizes. -/
theorem readerVerdict_limited (limit : Nat) (u : Under) (bufs : List Nat) :
    readerVerdict (some limit) u.data u.endErr (MBR.run { n := limit, err := none, under := u } bufs) = "ok" := by
  obtain ⟨hp, hs, he⟩ := MBR.run_spec bufs { n := limit, err := none, under := u } rfl
  simp only at hp he
  generalize MBR.run { n := limit, err := none, under := u } bufs = t at hp hs he
  have hpre : (delivered t).isPrefixOf u.data = true :=
    List.isPrefixOf_iff_prefix.mpr (List.IsPrefix.trans hp (List.take_prefix _ _))
  have hlen : ¬ (delivered t).length > limit := by
    have := List.IsPrefix.length_le hp
    rw [List.length_take] at this
    omega
  unfold readerVerdict
  simp only [hpre, hlen, hs, Bool.not_true, Bool.false_eq_true, if_false, Bool.and_false]
  cases hf : firstErr t with
  | none => rfl
  | some e =>
    obtain ⟨h1, h2⟩ := he e hf
    simp only [h1, bne_self_eq_false, Bool.false_eq_true, if_false]
    unfold wantErr at h2
    by_cases hgt : u.data.length > limit
    · simp only [hgt, if_true] at h2 ⊢
      simp [h2]
    · simp only [hgt, if_false] at h2 ⊢
      simp [h2]

theorem readerVerdict_unlimited (u : Under) (bufs : List Nat) :
    readerVerdict none u.data u.endErr (u.run bufs) = "ok" := by
  obtain ⟨hp, he⟩ := Under.run_spec bufs u
  generalize u.run bufs = t at hp he
  have hpre : (delivered t).isPrefixOf u.data = true := List.isPrefixOf_iff_prefix.mpr hp
  have hlen : ¬ (delivered t).length > u.data.length := by
    have := List.IsPrefix.length_le hp; omega
  unfold readerVerdict
  simp only [hpre, hlen, Bool.not_true, Bool.false_eq_true, if_false, Option.isSome_none, Bool.false_and]
  cases hf : firstErr t with
  | none => rfl
  | some e =>
    obtain ⟨h1, h2⟩ := he e hf
    simp [h1, h2]

/-! ### liveness: a drain with non-empty buffers over a progressing reader reaches the end -/

theorem Under.read_progress (u : Under) (k : Nat) (hk : 1 ≤ k) (hs : ∀ c ∈ u.script, 1 ≤ c) :
    ((u.read k).2.1 = none → 1 ≤ (u.read k).1.length) ∧ (∀ c ∈ (u.read k).2.2.script, 1 ≤ c) := by
  unfold Under.read
  by_cases hd : u.data.isEmpty = true
  · simp only [hd, if_true]
    exact ⟨fun h => by simp at h, hs⟩
  · rw [if_neg hd]
    have hne : 1 ≤ u.data.length := by
      cases hdd : u.data with
      | nil => simp [hdd] at hd
      | cons a as => simp
    have htail : ∀ c ∈ u.script.tail, 1 ≤ c := fun c hc => hs c (List.mem_of_mem_tail hc)
    have hm : 1 ≤ chunk u.script k := by
      unfold chunk
      cases hsc : u.script with
      | nil => exact hk
      | cons c cs =>
        have hc : 1 ≤ c := hs c (by rw [hsc]; exact List.mem_cons_self)
        simp only []; omega
    generalize chunk u.script k = m at hm
    have hlen : 1 ≤ (List.take m u.data).length := by rw [List.length_take]; omega
    simp only []
    split
    · exact ⟨fun _ => hlen, htail⟩
    · exact ⟨fun _ => hlen, htail⟩

theorem MBR.read_progress (l : MBR) (h : l.err = none) (plen : Nat) (hp : 1 ≤ plen)
    (hs : ∀ c ∈ l.under.script, 1 ≤ c) :
    (l.read plen).2.1 = none →
      (l.read plen).2.2.err = none ∧ (l.read plen).2.2.under.data.length < l.under.data.length ∧
      (∀ c ∈ (l.read plen).2.2.under.script, 1 ≤ c) := by
  unfold MBR.read
  simp only [h]
  have hp0 : ¬ plen = 0 := by omega
  simp only [hp0, if_false]
  generalize hk : (if plen > l.n + 1 then l.n + 1 else plen) = k
  have hk1 : 1 ≤ k := by rw [← hk]; split <;> omega
  obtain ⟨happ, _, _, _, _⟩ := Under.read_spec l.under k
  obtain ⟨hprog, hscr⟩ := Under.read_progress l.under k hk1 hs
  generalize hr : l.under.read k = r at happ hprog hscr
  obtain ⟨out, e, u'⟩ := r
  simp only at happ hprog hscr ⊢
  by_cases hle : out.length ≤ l.n
  · simp only [hle, if_true]
    intro he
    refine ⟨he, ?_, hscr⟩
    have := hprog he
    rw [← happ, List.length_append]; omega
  · simp only [hle, if_false]
    intro he; simp at he

theorem MBR.run_reaches_end (bufs : List Nat) (l : MBR) (h : l.err = none)
    (hb : ∀ b ∈ bufs, 1 ≤ b) (hs : ∀ c ∈ l.under.script, 1 ≤ c)
    (hn : l.under.data.length + 1 ≤ bufs.length) : (firstErr (l.run bufs)).isSome = true := by
  induction bufs generalizing l with
  | nil => simp at hn
  | cons b bs ih =>
    unfold MBR.run
    have hprog := MBR.read_progress l h b (hb b List.mem_cons_self) hs
    generalize hr : l.read b = r at hprog
    obtain ⟨out, e, l'⟩ := r
    simp only at hprog ⊢
    cases e with
    | some x => simp [firstErr]
    | none =>
      obtain ⟨herr, hlt, hscr⟩ := hprog rfl
      simp only [firstErr]
      apply ih l' herr (fun b hb' => hb b (List.mem_cons_of_mem _ hb')) hscr
      simp only [List.length_cons] at hn
      omega

/-! ### path scopes: parse, sort, first match -/

def geLen (a b : PathLimit) : Prop := a.path.length ≥ b.path.length

theorem insertDesc_mem (e x : PathLimit) (t : Table) : x ∈ insertDesc e t ↔ x = e ∨ x ∈ t := by
  induction t with
  | nil => simp [insertDesc]
  | cons y ys ih =>
    unfold insertDesc
    split
    · simp only [List.mem_cons, ih]
      constructor
      · rintro (h | h | h)
        · exact Or.inr (Or.inl h)
        · exact Or.inl h
        · exact Or.inr (Or.inr h)
      · rintro (h | h | h)
        · exact Or.inr (Or.inl h)
        · exact Or.inl h
        · exact Or.inr (Or.inr h)
    · simp [List.mem_cons]

theorem insertDesc_sorted (e : PathLimit) (t : Table) (h : t.Pairwise geLen) :
    (insertDesc e t).Pairwise geLen := by
  induction t with
  | nil => simp [insertDesc]
  | cons y ys ih =>
    unfold insertDesc
    rw [List.pairwise_cons] at h
    split
    · rename_i hge
      rw [List.pairwise_cons]
      refine ⟨?_, ih h.2⟩
      intro z hz
      rcases (insertDesc_mem e z ys).mp hz with rfl | hz
      · exact hge
      · exact h.1 z hz
    · rename_i hlt
      rw [List.pairwise_cons]
      refine ⟨?_, List.pairwise_cons.mpr h⟩
      intro z hz
      have hey : e.path.length ≥ y.path.length := by unfold GE.ge at hlt; omega
      rcases List.mem_cons.mp hz with rfl | hz
      · exact hey
      · have := h.1 z hz
        unfold geLen at this ⊢; omega

theorem sortDesc_go (t acc : Table) (h : acc.Pairwise geLen) :
    (t.foldl (fun acc e => insertDesc e acc) acc).Pairwise geLen ∧
    ∀ x, x ∈ t.foldl (fun acc e => insertDesc e acc) acc ↔ x ∈ acc ∨ x ∈ t := by
  induction t generalizing acc with
  | nil => simp [h]
  | cons y ys ih =>
    simp only [List.foldl_cons]
    obtain ⟨h1, h2⟩ := ih (insertDesc y acc) (insertDesc_sorted y acc h)
    refine ⟨h1, ?_⟩
    intro x
    rw [h2 x, insertDesc_mem, List.mem_cons]
    constructor
    · rintro ((h | h) | h)
      · exact Or.inr (Or.inl h)
      · exact Or.inl h
      · exact Or.inr (Or.inr h)
    · rintro (h | h | h)
      · exact Or.inl (Or.inr h)
      · exact Or.inl (Or.inl h)
      · exact Or.inr h

theorem sortDesc_sorted (t : Table) : (sortDesc t).Pairwise geLen :=
  (sortDesc_go t [] List.Pairwise.nil).1

theorem sortDesc_mem (t : Table) (x : PathLimit) : x ∈ sortDesc t ↔ x ∈ t := by
  have := (sortDesc_go t [] List.Pairwise.nil).2 x
  simpa [sortDesc] using this

/-- first match in a list sorted longest-first is a longest match -/
theorem find_sorted_longest (pred : PathLimit → Bool) (t : Table) (h : t.Pairwise geLen) (e : PathLimit)
    (hf : t.find? pred = some e) :
    pred e = true ∧ e ∈ t ∧ ∀ x ∈ t, pred x = true → x.path.length ≤ e.path.length := by
  induction t with
  | nil => simp at hf
  | cons y ys ih =>
    rw [List.pairwise_cons] at h
    rw [List.find?_cons] at hf
    by_cases hy : pred y = true
    · simp only [hy] at hf
      cases hf
      refine ⟨hy, List.mem_cons_self, ?_⟩
      intro x hx _
      rcases List.mem_cons.mp hx with rfl | hx
      · exact Nat.le_refl _
      · exact h.1 x hx
    · simp only [hy] at hf
      obtain ⟨h1, h2, h3⟩ := ih h.2 hf
      refine ⟨h1, List.mem_cons_of_mem _ h2, ?_⟩
      intro x hx hpx
      rcases List.mem_cons.mp hx with rfl | hx
      · exact absurd hpx hy
      · exact h3 x hx hpx

theorem lastLimit_snoc (done : List (Bytes × Nat)) (p : Bytes) (l : Nat) (q : Bytes) :
    lastLimit (done ++ [(p, l)]) q = if normPath p = q then some l else lastLimit done q := by
  unfold lastLimit normRaw
  rw [List.map_append, List.reverse_append]
  simp only [List.map_cons, List.map_nil, List.reverse_cons, List.reverse_nil, List.nil_append,
    List.cons_append, List.find?_cons]
  by_cases h : normPath p = q
  · simp [h]
  · simp [h]

/-- what `parseArguments` maintains: every table entry carries the last limit configured for
its path, and every configured path has an entry -/
def TableInv (t : Table) (done : List (Bytes × Nat)) : Prop :=
  (∀ e ∈ t, lastLimit done e.path = some e.limit) ∧ (∀ r ∈ done, ∃ e ∈ t, e.path = normPath r.1)

theorem addPathLimit_inv (t : Table) (done : List (Bytes × Nat)) (p : Bytes) (l : Nat)
    (h : TableInv t done) : TableInv (addPathLimit t p l) (done ++ [(p, l)]) := by
  obtain ⟨h1, h2⟩ := h
  unfold addPathLimit updateOrAppend
  by_cases hany : (t.any (fun e => decide (e.path = normPath p))) = true
  · simp only [hany, if_true]
    constructor
    · intro e' he'
      obtain ⟨e, he, rfl⟩ := List.mem_map.mp he'
      rw [lastLimit_snoc]
      by_cases hq : e.path = normPath p
      · simp [hq]
      · have hq' : ¬ normPath p = e.path := fun h => hq h.symm
        simp only [hq, if_false, hq']
        exact h1 e he
    · intro r hr
      rcases List.mem_append.mp hr with hr | hr
      · obtain ⟨e, he, hp⟩ := h2 r hr
        refine ⟨_, List.mem_map.mpr ⟨e, he, rfl⟩, ?_⟩
        by_cases hq : e.path = normPath p
        · simp [hq, ← hp]
        · simp only [hq, if_false]; exact hp
      · simp only [List.mem_singleton] at hr
        subst hr
        obtain ⟨e, he, hq⟩ := List.any_eq_true.mp hany
        have hq : e.path = normPath p := by simpa using hq
        refine ⟨_, List.mem_map.mpr ⟨e, he, rfl⟩, ?_⟩
        simp [hq]
  · simp only [hany]
    have hnone : ∀ e ∈ t, e.path ≠ normPath p := by
      intro e he hq
      apply hany
      exact List.any_eq_true.mpr ⟨e, he, by simp [hq]⟩
    constructor
    · intro e he
      rw [lastLimit_snoc]
      rcases List.mem_append.mp he with he | he
      · have : ¬ normPath p = e.path := fun h => hnone e he h.symm
        simp only [this, if_false]
        exact h1 e he
      · simp only [List.mem_singleton] at he
        subst he
        simp
    · intro r hr
      rcases List.mem_append.mp hr with hr | hr
      · obtain ⟨e, he, hp⟩ := h2 r hr
        exact ⟨e, List.mem_append_left _ he, hp⟩
      · simp only [List.mem_singleton] at hr
        subst hr
        exact ⟨_, List.mem_append_right _ (List.mem_singleton.mpr rfl), rfl⟩

theorem parseArguments_go (rest done : List (Bytes × Nat)) (t : Table) (h : TableInv t done) :
    TableInv (rest.foldl (fun t pl => addPathLimit t pl.1 pl.2) t) (done ++ rest) := by
  induction rest generalizing t done with
  | nil => simpa using h
  | cons r rs ih =>
    simp only [List.foldl_cons]
    have := ih (done ++ [(r.1, r.2)]) (addPathLimit t r.1 r.2) (addPathLimit_inv t done r.1 r.2 h)
    simpa using this

theorem parseArguments_inv (raw : List (Bytes × Nat)) : TableInv (parseArguments raw) raw := by
  have := parseArguments_go raw [] [] ⟨by simp, by simp⟩
  simpa [parseArguments] using this

theorem lastLimit_some_mem {raw : List (Bytes × Nat)} {q : Bytes} {l : Nat} (h : lastLimit raw q = some l) :
    ∃ x ∈ normRaw raw, x.1 = q := by
  unfold lastLimit at h
  cases hf : (normRaw raw).reverse.find? (fun e => decide (e.1 = q)) with
  | none => simp [hf] at h
  | some x =>
    have h1 := List.find?_some hf
    have h2 := List.mem_of_find?_eq_some hf
    exact ⟨x, by simpa using h2, by simpa using h1⟩

theorem mem_normRaw {raw : List (Bytes × Nat)} {x : Bytes × Nat} (h : x ∈ normRaw raw) :
    ∃ r ∈ raw, normPath r.1 = x.1 := by
  unfold normRaw at h
  obtain ⟨r, hr, rfl⟩ := List.mem_map.mp h
  exact ⟨r, hr, rfl⟩

/-- The limit `Limit.ServeHTTP` applies is one the property allows: none when no configured
path matches, else the last configured limit of a longest matching path. -/
theorem select_allowed (cs : Bool) (raw : List (Bytes × Nat)) (p : Bytes) :
    (selectLimit cs (buildTable raw) p).map (·.limit) ∈ allowed cs raw p := by
  obtain ⟨hI1, hI2⟩ := parseArguments_inv raw
  have hsorted := sortDesc_sorted (parseArguments raw)
  have hmem := sortDesc_mem (parseArguments raw)
  unfold selectLimit buildTable allowed
  -- every matching configured path has a matching table entry
  have hcover : ∀ x ∈ matching cs raw p, ∃ t ∈ sortDesc (parseArguments raw),
      t.path = x.1 ∧ pathMatches cs p t.path = true := by
    intro x hx
    unfold matching at hx
    obtain ⟨hx1, hx2⟩ := List.mem_filter.mp hx
    obtain ⟨r, hr, hrp⟩ := mem_normRaw hx1
    obtain ⟨t, ht, htp⟩ := hI2 r hr
    refine ⟨t, (hmem t).mpr ht, by rw [htp, hrp], ?_⟩
    rw [htp, hrp]; exact hx2
  cases hf : (sortDesc (parseArguments raw)).find? (fun e => pathMatches cs p e.path) with
  | none =>
    have hnone := List.find?_eq_none.mp hf
    have hempty : (matching cs raw p).isEmpty = true := by
      rw [List.isEmpty_iff]
      apply List.eq_nil_iff_forall_not_mem.mpr
      intro x hx
      obtain ⟨t, ht, _, htm⟩ := hcover x hx
      exact hnone t ht htm
    simp [hempty]
  | some e =>
    obtain ⟨hpe, hes, hmax⟩ := find_sorted_longest _ _ hsorted e hf
    have het : e ∈ parseArguments raw := (hmem e).mp hes
    have hlast := hI1 e het
    obtain ⟨x, hx, hxq⟩ := lastLimit_some_mem hlast
    have hxm : x ∈ matching cs raw p := by
      unfold matching
      exact List.mem_filter.mpr ⟨hx, by rw [hxq]; exact hpe⟩
    have hne : (matching cs raw p).isEmpty = false := by
      cases hm : matching cs raw p with
      | nil => rw [hm] at hxm; simp at hxm
      | cons a as => rfl
    simp only [hne, Bool.false_eq_true, if_false, Option.map_some]
    apply List.mem_map.mpr
    refine ⟨x, List.mem_filter.mpr ⟨hxm, ?_⟩, by rw [hxq]; exact hlast⟩
    rw [List.all_eq_true]
    intro y hy
    obtain ⟨t, ht, htp, htm⟩ := hcover y hy
    have := hmax t ht htm
    rw [htp, ← hxq] at this
    simpa using this

theorem handlerVerdict_ok (cs : Bool) (raw : List (Bytes × Nat)) (p : Bytes) (u : Under) (bufs : List Nat) :
    handlerVerdict cs raw p u.data u.endErr (serveBody cs (buildTable raw) p u bufs) = "ok" := by
  have hsel := select_allowed cs raw p
  unfold handlerVerdict serveBody
  have key : (allowed cs raw p).any (fun lim => readerVerdict lim u.data u.endErr
      (match selectLimit cs (buildTable raw) p with
        | some e => MBR.run { n := e.limit, err := none, under := u } bufs
        | none => Under.run u bufs) == "ok") = true := by
    rw [List.any_eq_true]
    refine ⟨_, hsel, ?_⟩
    cases hs : selectLimit cs (buildTable raw) p with
    | none => simp [readerVerdict_unlimited]
    | some e => simp [readerVerdict_limited]
  exact if_pos key

/-! ### listener-wide settings -/

def TInv (acc : TSetting) (done : List TSetting) : Prop :=
  (acc = none → ∀ v ∈ done, v = none) ∧
  (∀ m, acc = some m → some m ∈ done ∧ ∀ d, some d ∈ done → d ≠ 0 → m ≠ 0 ∧ m ≤ d)

theorem mergeStep_inv (acc v : TSetting) (done : List TSetting) (h : TInv acc done) :
    TInv (mergeStep acc v) (done ++ [v]) := by
  obtain ⟨h1, h2⟩ := h
  cases v with
  | none =>
    have : mergeStep acc none = acc := by unfold mergeStep; rfl
    rw [this]
    constructor
    · intro ha x hx
      rcases List.mem_append.mp hx with hx | hx
      · exact h1 ha x hx
      · simpa using hx
    · intro m hm
      obtain ⟨hm1, hm2⟩ := h2 m hm
      refine ⟨List.mem_append_left _ hm1, ?_⟩
      intro d hd hd0
      rcases List.mem_append.mp hd with hd | hd
      · exact hm2 d hd hd0
      · simp at hd
  | some d =>
    cases acc with
    | none =>
      have : mergeStep none (some d) = some d := by unfold mergeStep; rfl
      rw [this]
      constructor
      · intro ha; cases ha
      · intro m hm
        cases hm
        refine ⟨by simp, ?_⟩
        intro d' hd' hd0
        rcases List.mem_append.mp hd' with hd' | hd'
        · have := h1 rfl _ hd'; cases this
        · simp only [List.mem_singleton] at hd'
          cases hd'
          exact ⟨hd0, Nat.le_refl _⟩
    | some m =>
      obtain ⟨hm1, hm2⟩ := h2 m rfl
      by_cases hs : stricter d m = true
      · have : mergeStep (some m) (some d) = some d := by unfold mergeStep; simp [hs]
        rw [this]
        unfold stricter at hs
        simp only [Bool.and_eq_true, Bool.or_eq_true, decide_eq_true_eq] at hs
        constructor
        · intro ha; cases ha
        · intro x hx
          cases hx
          refine ⟨by simp, ?_⟩
          intro d' hd' hd0
          rcases List.mem_append.mp hd' with hd' | hd'
          · have := hm2 d' hd' hd0
            rcases hs.2 with hz | hlt
            · exact absurd hz this.1
            · exact ⟨hs.1, by omega⟩
          · simp only [List.mem_singleton] at hd'
            cases hd'
            exact ⟨hd0, Nat.le_refl _⟩
      · have : mergeStep (some m) (some d) = some m := by unfold mergeStep; simp [hs]
        rw [this]
        unfold stricter at hs
        simp only [Bool.and_eq_true, Bool.or_eq_true, decide_eq_true_eq, not_and, not_or] at hs
        constructor
        · intro ha; cases ha
        · intro x hx
          cases hx
          refine ⟨List.mem_append_left _ hm1, ?_⟩
          intro d' hd' hd0
          rcases List.mem_append.mp hd' with hd' | hd'
          · exact hm2 d' hd' hd0
          · simp only [List.mem_singleton] at hd'
            cases hd'
            have := hs hd0
            exact ⟨this.1, by omega⟩

theorem mergeFold_inv (rest done : List TSetting) (acc : TSetting) (h : TInv acc done) :
    TInv (rest.foldl mergeStep acc) (done ++ rest) := by
  induction rest generalizing acc done with
  | nil => simpa using h
  | cons v vs ih =>
    simp only [List.foldl_cons]
    have := ih (done ++ [v]) (mergeStep acc v) (mergeStep_inv acc v done h)
    simpa using this

theorem mem_filterMap_id {vals : List TSetting} {x : Nat} : x ∈ vals.filterMap id ↔ some x ∈ vals := by
  simp [List.mem_filterMap]

/-- `makeHTTPServerWithTimeouts` computes, for each field, the strictest configured value. -/
theorem mergeTimeout_strictest (vals : List TSetting) (dflt : Nat) :
    strictestOK vals dflt (mergeTimeout vals dflt) = true := by
  have hinv := mergeFold_inv vals [] none ⟨by simp, by intro m hm; cases hm⟩
  simp only [List.nil_append] at hinv
  obtain ⟨h1, h2⟩ := hinv
  unfold mergeTimeout strictestOK
  cases hacc : vals.foldl mergeStep none with
  | none =>
    have hall := h1 hacc
    have : vals.filterMap id = [] := by
      apply List.eq_nil_iff_forall_not_mem.mpr
      intro x hx
      have := hall _ (mem_filterMap_id.mp hx)
      cases this
    simp [this]
  | some m =>
    obtain ⟨hm1, hm2⟩ := h2 m hacc
    have hmset : m ∈ vals.filterMap id := mem_filterMap_id.mpr hm1
    have hne : (vals.filterMap id).isEmpty = false := by
      cases hs : vals.filterMap id with
      | nil => rw [hs] at hmset; simp at hmset
      | cons a as => rfl
    simp only [hne, Bool.false_eq_true, if_false, Option.getD_some]
    by_cases hfin : ((vals.filterMap id).filter (fun x => decide (x ≠ 0))).isEmpty = true
    · simp only [hfin, if_true]
      have hnil := List.isEmpty_iff.mp hfin
      by_cases hm0 : m = 0
      · simp [hm0]
      · have : m ∈ (vals.filterMap id).filter (fun x => decide (x ≠ 0)) :=
          List.mem_filter.mpr ⟨hmset, by simp [hm0]⟩
        rw [hnil] at this; simp at this
    · simp only [hfin]
      have hex : ∃ d, d ∈ (vals.filterMap id).filter (fun x => decide (x ≠ 0)) := by
        cases hs : (vals.filterMap id).filter (fun x => decide (x ≠ 0)) with
        | nil => rw [hs] at hfin; simp at hfin
        | cons a as => exact ⟨a, List.mem_cons_self⟩
      obtain ⟨d, hd⟩ := hex
      obtain ⟨hd1, hd2⟩ := List.mem_filter.mp hd
      have hd0 : d ≠ 0 := by simpa using hd2
      have hm0 := (hm2 d (mem_filterMap_id.mp hd1) hd0).1
      have hmfin : m ∈ (vals.filterMap id).filter (fun x => decide (x ≠ 0)) :=
        List.mem_filter.mpr ⟨hmset, by simp [hm0]⟩
      simp only [Bool.false_eq_true, if_false, Bool.and_eq_true, List.contains_iff_mem, List.all_eq_true,
        decide_eq_true_eq]
      refine ⟨hmfin, ?_⟩
      intro x hx
      obtain ⟨hx1, hx2⟩ := List.mem_filter.mp hx
      exact (hm2 x (mem_filterMap_id.mp hx1) (by simpa using hx2)).2

def HInv (min : Nat) (done : List Nat) : Prop :=
  (min = 0 → ∀ v ∈ done, v = 0) ∧ (min ≠ 0 → min ∈ done ∧ ∀ v ∈ done, v ≠ 0 → min ≤ v)

theorem headerStep_inv (min limit : Nat) (done : List Nat) (h : HInv min done) :
    HInv (headerStep min limit) (done ++ [limit]) := by
  obtain ⟨h1, h2⟩ := h
  unfold headerStep
  by_cases hl : limit = 0
  · simp only [hl, if_true]
    constructor
    · intro hm v hv
      rcases List.mem_append.mp hv with hv | hv
      · exact h1 hm v hv
      · simpa using hv
    · intro hm
      obtain ⟨a, b⟩ := h2 hm
      refine ⟨List.mem_append_left _ a, ?_⟩
      intro v hv hv0
      rcases List.mem_append.mp hv with hv | hv
      · exact b v hv hv0
      · simp at hv; exact absurd hv hv0
  · simp only [hl, if_false]
    by_cases hm : min = 0
    · simp only [hm, if_true, Nat.lt_irrefl, if_false]
      constructor
      · intro h; exact absurd h hl
      · intro _
        refine ⟨by simp, ?_⟩
        intro v hv hv0
        rcases List.mem_append.mp hv with hv | hv
        · exact absurd (h1 hm v hv) hv0
        · simp at hv; omega
    · simp only [hm, if_false]
      obtain ⟨a, b⟩ := h2 hm
      by_cases hlt : limit < min
      · simp only [hlt, if_true]
        constructor
        · intro h; exact absurd h hl
        · intro _
          refine ⟨by simp, ?_⟩
          intro v hv hv0
          rcases List.mem_append.mp hv with hv | hv
          · have := b v hv hv0; omega
          · simp at hv; omega
      · simp only [hlt, if_false]
        constructor
        · intro h; exact absurd h hm
        · intro _
          refine ⟨List.mem_append_left _ a, ?_⟩
          intro v hv hv0
          rcases List.mem_append.mp hv with hv | hv
          · exact b v hv hv0
          · simp at hv; omega

theorem headerFold_inv (rest done : List Nat) (min : Nat) (h : HInv min done) :
    HInv (rest.foldl headerStep min) (done ++ rest) := by
  induction rest generalizing min done with
  | nil => simpa using h
  | cons v vs ih =>
    simp only [List.foldl_cons]
    have := ih (done ++ [v]) (headerStep min v) (headerStep_inv min v done h)
    simpa using this

theorem makeHeaderLimit_min (group : List Nat) : headerOK group (makeHeaderLimit group) = true := by
  have hinv := headerFold_inv group [] 0 ⟨by simp, by simp⟩
  simp only [List.nil_append] at hinv
  obtain ⟨h1, h2⟩ := hinv
  unfold headerOK makeHeaderLimit
  by_cases hr : group.foldl headerStep 0 = 0
  · have hall := h1 hr
    have : group.filter (fun x => decide (x ≠ 0)) = [] := by
      apply List.eq_nil_iff_forall_not_mem.mpr
      intro x hx
      obtain ⟨a, b⟩ := List.mem_filter.mp hx
      have := hall x a
      simp [this] at b
    simp only [this, hr]
    rfl
  · obtain ⟨a, b⟩ := h2 hr
    have hmem : group.foldl headerStep 0 ∈ group.filter (fun x => decide (x ≠ 0)) :=
      List.mem_filter.mpr ⟨a, by simp [hr]⟩
    have hne : (group.filter (fun x => decide (x ≠ 0))).isEmpty = false := by
      cases hs : group.filter (fun x => decide (x ≠ 0)) with
      | nil => rw [hs] at hmem; simp at hmem
      | cons x xs => rfl
    simp only [hne, Bool.false_eq_true, if_false, Bool.and_eq_true, List.contains_iff_mem, List.all_eq_true,
      decide_eq_true_eq]
    refine ⟨hmem, ?_⟩
    intro x hx
    obtain ⟨hx1, hx2⟩ := List.mem_filter.mp hx
    exact b x hx1 (by simpa using hx2)

/-! ### the wire spelling of the request path -/

theorem forall_uint8 (p : UInt8 → Bool) (h : ∀ n : Fin 256, p (UInt8.ofNat n.val) = true) (b : UInt8) : p b = true := by
  have := h ⟨b.toNat, b.toNat_lt⟩
  simpa using this

set_option maxRecDepth 100000 in
theorem spell_triplet (up : Bool) (c : UInt8) :
    isHexDigit (hexDigit up (c.toNat / 16)) = true ∧ isHexDigit (hexDigit up (c.toNat % 16)) = true ∧
    UInt8.ofNat (hexVal (hexDigit up (c.toNat / 16)) * 16 + hexVal (hexDigit up (c.toNat % 16))) = c := by
  have := forall_uint8 (fun c => [true, false].all fun up =>
    isHexDigit (hexDigit up (c.toNat / 16)) && isHexDigit (hexDigit up (c.toNat % 16)) &&
    (UInt8.ofNat (hexVal (hexDigit up (c.toNat / 16)) * 16 + hexVal (hexDigit up (c.toNat % 16))) == c)) (by decide) c
  simp only [List.all_cons, List.all_nil, Bool.and_true, Bool.and_eq_true, beq_iff_eq] at this
  cases up
  · exact ⟨this.2.1.1, this.2.1.2, this.2.2⟩
  · exact ⟨this.1.1.1, this.1.1.2, this.1.2⟩

theorem unescapePath_cons_ne (c : UInt8) (t : Bytes) (h : c ≠ 37) :
    unescapePath (c :: t) = (unescapePath t).map (c :: ·) := by
  conv => lhs; unfold unescapePath
  split
  · next heq => cases heq
  · next heq => simp at heq; exact absurd heq.1 h
  · next heq => simp at heq; exact absurd heq.1 h
  · next heq => simp at heq; obtain ⟨rfl, rfl⟩ := heq; rfl

theorem unescapePath_triplet (up : Bool) (c : UInt8) (t : Bytes) :
    unescapePath (37 :: hexDigit up (c.toNat / 16) :: hexDigit up (c.toNat % 16) :: t) = (unescapePath t).map (c :: ·) := by
  obtain ⟨h1, h2, h3⟩ := spell_triplet up c
  conv => lhs; unfold unescapePath
  simp only [h1, h2, Bool.and_self, if_true, h3]

/-- every spelling of a path decodes to that path -/
theorem unescape_spell (ch : List (Option Bool)) (p : Bytes) : unescapePath (spell ch p) = some p := by
  induction p generalizing ch with
  | nil => simp [spell, unescapePath]
  | cons c t ih =>
    unfold spell
    simp only []
    split
    · next up _ => rw [unescapePath_triplet, ih]; rfl
    · next heq =>
      have hc : c ≠ 37 := by
        intro h; simp [h] at heq
      rw [unescapePath_cons_ne c _ hc, ih]; rfl

/-- a spelling without `%` is the path itself -/
theorem unescape_plain (p : Bytes) (h : ∀ c ∈ p, c ≠ 37) : unescapePath p = some p := by
  induction p with
  | nil => simp [unescapePath]
  | cons c t ih =>
    rw [unescapePath_cons_ne c t (h c (by simp)), ih (fun x hx => h x (by simp [hx]))]; rfl

theorem targetVerdict_ok (cs : Bool) (raw : List (Bytes × Nat)) (target : Bytes) (u : Under) (bufs : List Nat) :
    targetVerdict cs raw target u.data u.endErr (serveTarget cs (buildTable raw) target u bufs) = "ok" := by
  unfold targetVerdict serveTarget
  cases h : unescapePath target with
  | none => simp
  | some p => simpa using handlerVerdict_ok cs raw p u bufs

end Casket.Limits
