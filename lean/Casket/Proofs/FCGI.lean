import Casket.Model.FCGI
import Casket.Spec.FCGI
import Casket.Proofs.PeerBytes
/-
Helper lemmas about the FastCGI wire model (C13, C19).
-/
namespace Casket.FCGI
open Casket.Fault

/-! ### totality (C19) -/

theorem readBody_ok (typ id clen plen : Nat) (rest : Bytes) :
    ∃ r rest', readBody typ id clen plen rest = .ok (r, rest') ∧
      (∀ rec, r = .ok rec → rest'.length ≤ rest.length) := by
  unfold readBody
  simp only
  split
  · exact ⟨_, _, rfl, by intro rec h; cases h⟩
  · rename_i hn
    rw [slice_ok (Nat.zero_le _) (by omega), sliceFrom_ok (by omega)]
    simp only
    rw [slice_ok (Nat.zero_le _) (by rw [List.length_drop, List.length_take]; omega)]
    exact ⟨_, _, rfl, by intro rec _; simp⟩

theorem headerFields_ok (h : Bytes) (hl : h.length = 8) : IsOk (headerFields h) := by
  unfold headerFields
  rw [idx_ok (by omega : 0 < h.length), idx_ok (by omega : 1 < h.length),
      be16_ok (by omega : 2 + 1 < h.length), be16_ok (by omega : 4 + 1 < h.length),
      idx_ok (by omega : 6 < h.length)]
  exact isOk_ok _

/-- `record.read` never faults, and a record it returns leaves strictly less input. -/
theorem readRecord_ok (inp : Bytes) :
    ∃ r rest, readRecord inp = .ok (r, rest) ∧ (∀ rec, r = .ok rec → rest.length < inp.length) := by
  unfold readRecord
  by_cases h0 : inp.length = 0
  · simp only [h0, if_true]; exact ⟨_, _, rfl, by intro rec h; cases h⟩
  · simp only [h0, if_false]
    by_cases h8 : inp.length < 8
    · simp only [h8, if_true]; exact ⟨_, _, rfl, by intro rec h; cases h⟩
    · simp only [h8, if_false]
      have h8' : 8 ≤ inp.length := by omega
      rw [slice_ok (Nat.zero_le _) h8', sliceFrom_ok h8']
      simp only
      obtain ⟨⟨ver, typ, id, clen, plen⟩, hf⟩ := headerFields_ok ((inp.take 8).drop 0) (by simp; omega)
      rw [hf]
      simp only
      split
      · exact ⟨_, _, rfl, by intro rec h; cases h⟩
      · split
        · exact ⟨_, _, rfl, by intro rec h; cases h⟩
        · obtain ⟨r, rest', hr, hle⟩ := readBody_ok typ id clen plen (inp.drop 8)
          refine ⟨r, rest', hr, ?_⟩
          intro rec hrec
          have := hle rec hrec
          simp only [List.length_drop] at this
          omega

theorem demuxFuel_ok : ∀ (fuel : Nat) (inp : Bytes), inp.length < fuel → IsOk (demuxFuel fuel inp) := by
  intro fuel
  induction fuel with
  | zero => intro inp h; omega
  | succ fuel ih =>
    intro inp h
    obtain ⟨r, rest, hr, hlt⟩ := readRecord_ok inp
    unfold demuxFuel
    rw [hr]
    cases r with
    | error e => exact isOk_ok _
    | ok rec =>
      simp only
      have := hlt rec rfl
      obtain ⟨d, hd⟩ := ih rest (by omega)
      rw [hd]
      simp only
      split <;> exact isOk_ok _

theorem demux_ok (inp : Bytes) : IsOk (demux inp) := demuxFuel_ok _ _ (Nat.lt_succ_self _)

theorem pairStep_ok (typ id : Nat) (st : BufW × Nat) (kv : Pair) : IsOk (pairStep typ id st kv) := by
  obtain ⟨w, nn⟩ := st
  obtain ⟨k, v⟩ := kv
  unfold pairStep
  simp only
  by_cases hm : 8 + k.length + v.length > maxWrite
  · simp only [hm, if_true]
    by_cases hvl : (maxWrite : Int) - 8 - (k.length : Int) < 0
    · simp only [hvl, if_true]; exact isOk_ok _
    · simp only [hvl, if_false]
      have hs : sliceInt v 0 ((maxWrite : Int) - 8 - (k.length : Int)) =
          .ok ((v.take ((maxWrite : Int) - 8 - (k.length : Int)).toNat).drop (0 : Int).toNat) := by
        unfold sliceInt
        have : (0 : Int) ≤ 0 ∧ (0 : Int) ≤ (maxWrite : Int) - 8 - (k.length : Int) ∧
            (maxWrite : Int) - 8 - (k.length : Int) ≤ (v.length : Int) := by
          refine ⟨Int.le_refl _, by omega, ?_⟩
          have : (8 + k.length + v.length : Nat) > maxWrite := hm
          omega
        simp only [this, and_self, if_true]
      rw [hs]
      exact isOk_ok _
  · simp only [hm, if_false]; exact isOk_ok _

theorem pairsLoop_ok (typ id : Nat) : ∀ (ps : List Pair) (st : BufW × Nat), IsOk (pairsLoop typ id ps st) := by
  intro ps
  induction ps with
  | nil => intro st; exact isOk_ok _
  | cons kv rest ih =>
    intro st
    obtain ⟨st', h⟩ := pairStep_ok typ id st kv
    unfold pairsLoop
    rw [h]
    exact ih st'

theorem writePairs_ok (typ id : Nat) (ps : List Pair) : IsOk (writePairs typ id ps) := by
  obtain ⟨⟨w, n⟩, h⟩ := pairsLoop_ok typ id ps ({}, 0)
  unfold writePairs
  rw [h]
  exact isOk_ok _

end Casket.FCGI

/-! ### round trips (C13) -/
namespace Casket.FCGISpec
open Casket.Fault Casket.FCGI

theorem b8_toNat (n : Nat) : (b8 n).toNat = n % 256 := by
  simp [b8]

theorem padLen_lt (n : Nat) : padLen n < 8 := by
  unfold padLen; omega

theorem padLen_mod8 (n : Nat) : (n + padLen n) % 8 = 0 := by
  unfold padLen; omega

/-- §3.4: a length below 2^31 survives `encodeSize` -/
theorem decodeSize_encodeSize (n : Nat) (rest : Bytes) (h : n < 2147483648) :
    decodeSize (encodeSize n ++ rest) = some (n, rest) := by
  unfold encodeSize
  by_cases hn : n > 127
  · simp only [hn, if_true, List.cons_append, List.nil_append, decodeSize, b8_toNat]
    have h1 : ¬ ((n % 2147483648 + 2147483648) / 16777216 % 256 < 128) := by omega
    simp only [h1, if_false]
    congr 2
    omega
  · simp only [hn, if_false, List.cons_append, List.nil_append, decodeSize, b8_toNat]
    have h1 : n % 256 < 128 := by omega
    simp only [h1, if_true]
    congr 2
    omega

theorem encodeSize_length (n : Nat) : (encodeSize n).length = 1 ∨ (encodeSize n).length = 4 := by
  unfold encodeSize; split <;> simp

theorem be16_join (n : Nat) (h : n < 65536) : n / 256 % 256 * 256 + n % 256 = n := by omega

theorem be16_join' (n : Nat) (h : n < 65536) : n % 65536 / 256 % 256 * 256 + n % 256 = n := by omega

/-- §3.3: what `writeRecord` puts on the wire is one record with that type, id and content -/
theorem decodeRecord_writeRecord (t rid : Nat) (c rest : Bytes)
    (ht : t < 256) (hid : rid < 65536) (hc : c.length < 65536) :
    decodeRecord (writeRecord t rid c ++ rest) = some ({ typ := t, id := rid, content := c }, rest) := by
  unfold writeRecord headerBytes
  simp only [List.cons_append, List.nil_append, List.append_assoc, decodeRecord, b8_toNat]
  have hv : ¬ ((1 : UInt8) ≠ 1) := by decide
  have hcl : c.length % 65536 / 256 % 256 * 256 + c.length % 256 = c.length := be16_join' _ hc
  have hlen : ¬ ((c ++ (List.replicate (padLen c.length) 0 ++ rest)).length <
      c.length % 65536 / 256 % 256 * 256 + c.length % 256 + padLen c.length % 256) := by
    have := padLen_lt c.length
    simp only [List.length_append, List.length_replicate]
    omega
  simp only [hv, hlen, if_false]
  have hp : padLen c.length % 256 = padLen c.length := by have := padLen_lt c.length; omega
  rw [hcl, hp]
  have e1 : t % 256 = t := by omega
  have e2 : rid / 256 % 256 * 256 + rid % 256 = rid := be16_join _ hid
  simp only [e1, e2]
  congr 2
  · simp
  · rw [← List.append_assoc]
    rw [List.drop_append_of_le_length (by simp)]
    simp

/-- the wire image of a list of record contents -/
def recordsOf (t rid : Nat) (chunks : List Bytes) : Bytes := chunks.flatMap (writeRecord t rid)

theorem recordsOf_cons (t rid : Nat) (c : Bytes) (cs : List Bytes) :
    recordsOf t rid (c :: cs) = writeRecord t rid c ++ recordsOf t rid cs := by
  simp [recordsOf]

theorem recordsOf_append (t rid : Nat) (a b : List Bytes) :
    recordsOf t rid (a ++ b) = recordsOf t rid a ++ recordsOf t rid b := by
  simp [recordsOf]

theorem writeRecord_length_pos (t rid : Nat) (c : Bytes) : 0 < (writeRecord t rid c).length := by
  simp [writeRecord, headerBytes]

theorem recordsOf_length (t rid : Nat) : ∀ chunks : List Bytes, chunks.length ≤ (recordsOf t rid chunks).length := by
  intro chunks
  induction chunks with
  | nil => simp [recordsOf]
  | cons c cs ih =>
    rw [recordsOf_cons, List.length_append, List.length_cons]
    have := writeRecord_length_pos t rid c
    omega

/-- a stream written as records of non-empty chunks and closed by the empty record is read back -/
theorem readStream_recordsOf (t rid : Nat) (ht : t < 256) (hid : rid < 65536) :
    ∀ (chunks : List Bytes) (fuel : Nat) (rest : Bytes),
      (∀ c ∈ chunks, c ≠ [] ∧ c.length < 65536) → chunks.length < fuel →
      readStream t rid fuel (recordsOf t rid chunks ++ streamClose t rid ++ rest)
        = some (chunks.flatten, rest) := by
  intro chunks
  induction chunks with
  | nil =>
    intro fuel rest _ hf
    cases fuel with
    | zero => omega
    | succ f =>
      simp only [recordsOf, List.flatMap_nil, List.nil_append, streamClose, readStream]
      rw [decodeRecord_writeRecord t rid [] rest ht hid (by simp)]
      simp
  | cons c cs ih =>
    intro fuel rest hall hf
    cases fuel with
    | zero => omega
    | succ f =>
      have hc := hall c (List.mem_cons_self ..)
      rw [recordsOf_cons, List.append_assoc, List.append_assoc]
      simp only [readStream]
      rw [decodeRecord_writeRecord t rid c _ ht hid hc.2]
      have hne : c.isEmpty = false := by
        cases c with
        | nil => exact absurd rfl hc.1
        | cons _ _ => rfl
      simp only [ne_eq, not_true_eq_false, or_self, if_false, hne, Bool.false_eq_true]
      rw [← List.append_assoc, ih f rest (fun x hx => hall x (List.mem_cons_of_mem _ hx)) (by simp at hf; omega)]
      simp

/-- the contents of the records `streamWriter.Write` produces -/
def chunkFuel : Nat → Bytes → List Bytes
  | 0, _ => []
  | f + 1, p =>
    if p.length = 0 then [] else
    let n := if p.length > maxWrite then maxWrite else p.length
    p.take n :: chunkFuel f (p.drop n)

theorem streamWriteFuel_eq (t rid : Nat) : ∀ (f : Nat) (p : Bytes),
    streamWriteFuel t rid f p = recordsOf t rid (chunkFuel f p) := by
  intro f
  induction f with
  | zero => intro p; simp [streamWriteFuel, chunkFuel, recordsOf]
  | succ f ih =>
    intro p
    unfold streamWriteFuel chunkFuel
    by_cases h : p.length = 0
    · simp [h, recordsOf]
    · simp only [h, if_false]
      rw [recordsOf_cons, ih]

theorem chunkFuel_spec : ∀ (f : Nat) (p : Bytes), p.length < f →
    (chunkFuel f p).flatten = p ∧ ∀ c ∈ chunkFuel f p, c ≠ [] ∧ c.length ≤ maxWrite := by
  intro f
  induction f with
  | zero => intro p h; omega
  | succ f ih =>
    intro p hf
    unfold chunkFuel
    by_cases h : p.length = 0
    · simp only [h, if_true]
      have : p = [] := List.length_eq_zero_iff.mp h
      subst this
      simp
    · simp only [h, if_false]
      have hmw : maxWrite = 65500 := rfl
      have hn : 0 < (if p.length > maxWrite then maxWrite else p.length) := by split <;> omega
      have hn2 : (if p.length > maxWrite then maxWrite else p.length) ≤ p.length := by split <;> omega
      have hn3 : (if p.length > maxWrite then maxWrite else p.length) ≤ maxWrite := by split <;> omega
      obtain ⟨ih1, ih2⟩ := ih (p.drop (if p.length > maxWrite then maxWrite else p.length))
        (by rw [List.length_drop]; omega)
      constructor
      · rw [List.flatten_cons, ih1, List.take_append_drop]
      · intro c hc
        rcases List.mem_cons.mp hc with rfl | hc
        · constructor
          · intro he
            have : (p.take (if p.length > maxWrite then maxWrite else p.length)).length = 0 := by rw [he]; rfl
            rw [List.length_take] at this
            omega
          · rw [List.length_take]; omega
        · exact ih2 c hc

/-- the body stream (`stdinRecords`) is read back exactly, for every body length -/
theorem readStream_stdin (rid : Nat) (hid : rid < 65536) (body rest : Bytes) (fuel : Nat)
    (hf : body.length + 1 < fuel) :
    readStream typeStdin rid fuel (stdinRecords rid body ++ rest) = some (body, rest) := by
  unfold stdinRecords streamWrite
  rw [streamWriteFuel_eq]
  obtain ⟨h1, h2⟩ := chunkFuel_spec (body.length + 1) body (Nat.lt_succ_self _)
  have hlen : (chunkFuel (body.length + 1) body).length ≤ body.length := by
    have : ((chunkFuel (body.length + 1) body).flatten).length = body.length := by rw [h1]
    rw [List.length_flatten] at this
    have hge : (chunkFuel (body.length + 1) body).length ≤ ((chunkFuel (body.length + 1) body).map List.length).sum := by
      generalize chunkFuel (body.length + 1) body = l at h2
      induction l with
      | nil => simp
      | cons c cs ih =>
        have hc := (h2 c (List.mem_cons_self ..)).1
        have : 0 < c.length := List.length_pos_iff.mpr hc
        have := ih (fun x hx => h2 x (List.mem_cons_of_mem _ hx))
        simp only [List.map_cons, List.sum_cons, List.length_cons]
        omega
    omega
  have := readStream_recordsOf typeStdin rid (by decide) hid (chunkFuel (body.length + 1) body) fuel rest
    (fun c hc => ⟨(h2 c hc).1, by have := (h2 c hc).2; have : maxWrite = 65500 := rfl; omega⟩) (by omega)
  rw [h1] at this
  exact this

/-! #### `writePairs` -/

/-- §3.4 encoding of one pair -/
def encodePair (kv : Pair) : Bytes :=
  encodeSize kv.1.length ++ encodeSize kv.2.length ++ kv.1 ++ kv.2

/-- what `writePairs` sends for a pair: itself when it fits (`8+len(k)+len(v) ≤ maxWrite`), the
value cut to what fits, or nothing when the name alone is too long -/
def effective (kv : Pair) : Option Pair :=
  if 8 + kv.1.length + kv.2.length ≤ maxWrite then some kv
  else if kv.1.length > maxWrite - 8 then none
  else some (kv.1, kv.2.take (maxWrite - 8 - kv.1.length))

theorem effective_fits {kv : Pair} (h : fits kv = true) : effective kv = some kv := by
  simp only [fits, decide_eq_true_eq] at h
  simp [effective, h]

theorem effective_small {kv kv' : Pair} (h : effective kv = some kv') :
    8 + kv'.1.length + kv'.2.length ≤ maxWrite := by
  unfold effective at h
  have hmw : maxWrite = 65500 := rfl
  split at h
  · cases h; assumption
  · split at h
    · cases h
    · cases h
      simp only [List.length_take]
      omega

theorem encodePair_length_le {kv : Pair} (h : 8 + kv.1.length + kv.2.length ≤ maxWrite) :
    (encodePair kv).length ≤ maxWrite ∧ 2 ≤ (encodePair kv).length := by
  unfold encodePair
  have h1 := encodeSize_length kv.1.length
  have h2 := encodeSize_length kv.2.length
  simp only [List.length_append]
  omega

theorem writeFuel_fits (t rid : Nat) (isS : Bool) (f : Nat) (w : BufW) (p : Bytes)
    (h : p.length ≤ w.avail) : BufW.writeFuel t rid isS (f + 1) w p = { w with buf := w.buf ++ p } := by
  unfold BufW.writeFuel
  have : ¬ (p.length > w.avail) := by omega
  simp only [this, if_false]

theorem streamWrite_single (t rid : Nat) (p : Bytes) (h0 : p ≠ []) (h : p.length ≤ maxWrite) :
    streamWrite t rid p = writeRecord t rid p := by
  unfold streamWrite
  rw [streamWriteFuel_eq]
  have hpos : 0 < p.length := List.length_pos_iff.mpr h0
  unfold chunkFuel
  have e1 : ¬ (p.length = 0) := by omega
  have e2 : ¬ (p.length > maxWrite) := by omega
  simp only [e1, e2, if_false, List.take_length, List.drop_length]
  have : chunkFuel p.length [] = [] := by
    cases p.length <;> simp [chunkFuel]
  rw [this]
  simp [recordsOf]

/-- invariant of the `writePairs` loop: the wire holds whole records of non-empty chunks, the
bufio buffer holds `nn ≤ maxWrite` bytes, and chunks followed by buffer are the encoding so far -/
def Inv (t rid : Nat) (w : BufW) (nn : Nat) (enc : Bytes) : Prop :=
  ∃ chunks : List Bytes, w.wire = recordsOf t rid chunks ∧
    (∀ c ∈ chunks, c ≠ [] ∧ c.length ≤ maxWrite) ∧
    w.buf.length = nn ∧ nn ≤ maxWrite ∧ chunks.flatten ++ w.buf = enc

theorem flush_inv (t rid : Nat) (w : BufW) (nn : Nat) (enc : Bytes) (h : Inv t rid w nn enc) :
    Inv t rid (BufW.flush t rid w) 0 enc := by
  obtain ⟨chunks, hw, hall, hb, hnn, henc⟩ := h
  unfold BufW.flush
  by_cases h0 : w.buf.length = 0
  · simp only [h0, if_true]
    exact ⟨chunks, hw, hall, h0, Nat.zero_le _, henc⟩
  · simp only [h0, if_false]
    have hne : w.buf ≠ [] := fun he => h0 (by rw [he]; rfl)
    refine ⟨chunks ++ [w.buf], ?_, ?_, rfl, Nat.zero_le _, ?_⟩
    · rw [hw, recordsOf_append, streamWrite_single t rid w.buf hne (by omega)]
      simp [recordsOf]
    · intro c hc
      rcases List.mem_append.mp hc with hc | hc
      · exact hall c hc
      · have : c = w.buf := by simpa using hc
        subst this
        exact ⟨hne, by omega⟩
    · simp only [List.flatten_append, List.flatten_cons, List.flatten_nil, List.append_nil]
      exact henc

theorem sliceInt_take (v : Bytes) (n : Nat) (h : n ≤ v.length) :
    sliceInt v 0 (n : Int) = .ok (v.take n) := by
  unfold sliceInt
  have : (0 : Int) ≤ 0 ∧ (0 : Int) ≤ (n : Int) ∧ (n : Int) ≤ (v.length : Int) := by omega
  simp only [this, and_self, if_true]
  simp

theorem pairStep_inv (t rid : Nat) (w : BufW) (nn : Nat) (enc : Bytes) (kv : Pair)
    (h : Inv t rid w nn enc) :
    ∃ w' nn', pairStep t rid (w, nn) kv = .ok (w', nn') ∧
      Inv t rid w' nn' (enc ++ (match effective kv with | some kv' => encodePair kv' | none => [])) := by
  obtain ⟨k, v⟩ := kv
  have hmw : maxWrite = 65500 := rfl
  -- the value actually sent
  have key : ∀ v' : Bytes, 8 + k.length + v'.length ≤ maxWrite →
      ∃ w' nn',
        (let sizes := encodeSize k.length ++ encodeSize v'.length
         let m := sizes.length + k.length + v'.length
         let st : BufW × Nat := if nn + m > maxWrite then (BufW.flush t rid w, 0) else (w, nn)
         let w1 := BufW.write t rid st.1 sizes
         let w2 := BufW.writeString t rid w1 k
         let w3 := BufW.writeString t rid w2 v'
         (w3, st.2 + m)) = (w', nn') ∧ Inv t rid w' nn' (enc ++ encodePair (k, v')) := by
    intro v' hfit
    obtain ⟨hlen, _⟩ := encodePair_length_le (kv := (k, v')) hfit
    simp only [encodePair, List.length_append] at hlen
    have hs : (encodeSize k.length ++ encodeSize v'.length).length =
        (encodeSize k.length).length + (encodeSize v'.length).length := List.length_append
    refine ⟨_, _, rfl, ?_⟩
    -- the state after the optional flush
    have hst : Inv t rid
        (if nn + ((encodeSize k.length ++ encodeSize v'.length).length + k.length + v'.length) > maxWrite
          then (BufW.flush t rid w, 0) else (w, nn)).1
        (if nn + ((encodeSize k.length ++ encodeSize v'.length).length + k.length + v'.length) > maxWrite
          then (BufW.flush t rid w, 0) else (w, nn)).2 enc ∧
        (if nn + ((encodeSize k.length ++ encodeSize v'.length).length + k.length + v'.length) > maxWrite
          then (BufW.flush t rid w, 0) else (w, nn)).2 +
          ((encodeSize k.length ++ encodeSize v'.length).length + k.length + v'.length) ≤ maxWrite := by
      split
      · exact ⟨flush_inv t rid w nn enc h, by simp only; omega⟩
      · exact ⟨h, by simp only; omega⟩
    generalize (if nn + ((encodeSize k.length ++ encodeSize v'.length).length + k.length + v'.length) > maxWrite
          then (BufW.flush t rid w, 0) else (w, nn)) = st at hst
    obtain ⟨w0, n0⟩ := st
    obtain ⟨⟨chunks, hw, hall, hb, hnn, henc⟩, hroom⟩ := hst
    simp only at hw hb hnn henc hroom ⊢
    have a1 : (encodeSize k.length ++ encodeSize v'.length).length ≤ w0.avail := by
      unfold BufW.avail; omega
    have e1 : BufW.write t rid w0 (encodeSize k.length ++ encodeSize v'.length) =
        { w0 with buf := w0.buf ++ (encodeSize k.length ++ encodeSize v'.length) } := by
      unfold BufW.write; exact writeFuel_fits _ _ _ _ _ _ a1
    rw [e1]
    have a2 : k.length ≤ ({ w0 with buf := w0.buf ++ (encodeSize k.length ++ encodeSize v'.length) } : BufW).avail := by
      unfold BufW.avail; simp only [List.length_append]; omega
    have e2 := writeFuel_fits t rid true (k.length + 1)
      { w0 with buf := w0.buf ++ (encodeSize k.length ++ encodeSize v'.length) } k a2
    unfold BufW.writeString
    rw [e2]
    have a3 : v'.length ≤ ({ w0 with buf := w0.buf ++ (encodeSize k.length ++ encodeSize v'.length) ++ k } : BufW).avail := by
      unfold BufW.avail; simp only [List.length_append]; omega
    have e3 := writeFuel_fits t rid true (v'.length + 1)
      { w0 with buf := w0.buf ++ (encodeSize k.length ++ encodeSize v'.length) ++ k } v' a3
    simp only at e3 ⊢
    rw [e3]
    refine ⟨chunks, hw, hall, ?_, ?_, ?_⟩
    · simp only [List.length_append]; omega
    · omega
    · simp only [encodePair]
      rw [← henc]
      simp [List.append_assoc]
  unfold pairStep
  simp only
  by_cases hm : 8 + k.length + v.length > maxWrite
  · simp only [hm, if_true]
    by_cases hvl : (maxWrite : Int) - 8 - (k.length : Int) < 0
    · simp only [hvl, if_true]
      have heff : effective (k, v) = none := by
        unfold effective
        have h1 : ¬ (8 + k.length + v.length ≤ maxWrite) := by omega
        have h2 : k.length > maxWrite - 8 := by omega
        simp [h1, h2]
      rw [heff]
      exact ⟨w, nn, rfl, by simpa using h⟩
    · simp only [hvl, if_false]
      have hnat : (maxWrite : Int) - 8 - (k.length : Int) = ((maxWrite - 8 - k.length : Nat) : Int) := by omega
      rw [hnat, sliceInt_take v (maxWrite - 8 - k.length) (by omega)]
      have heff : effective (k, v) = some (k, v.take (maxWrite - 8 - k.length)) := by
        unfold effective
        have h1 : ¬ (8 + k.length + v.length ≤ maxWrite) := by omega
        have h2 : ¬ (k.length > maxWrite - 8) := by omega
        simp [h1, h2]
      rw [heff]
      simp only
      obtain ⟨w', nn', he, hinv⟩ := key (v.take (maxWrite - 8 - k.length)) (by rw [List.length_take]; omega)
      exact ⟨w', nn', by simp only at he; rw [← he], hinv⟩
  · simp only [hm, if_false]
    have heff : effective (k, v) = some (k, v) := by
      unfold effective
      have h1 : 8 + k.length + v.length ≤ maxWrite := by omega
      simp [h1]
    rw [heff]
    simp only
    obtain ⟨w', nn', he, hinv⟩ := key v (by omega)
    exact ⟨w', nn', by simp only at he; rw [← he], hinv⟩

/-- everything `writePairs` has encoded after the pairs `ps` -/
def encodedPairs (ps : List Pair) : Bytes := (ps.filterMap effective).flatMap encodePair

theorem encodedPairs_cons (kv : Pair) (ps : List Pair) :
    encodedPairs (kv :: ps) =
      (match effective kv with | some kv' => encodePair kv' | none => []) ++ encodedPairs ps := by
  unfold encodedPairs
  cases h : effective kv <;> simp [h]

theorem pairsLoop_inv (t rid : Nat) : ∀ (ps : List Pair) (w : BufW) (nn : Nat) (enc : Bytes),
    Inv t rid w nn enc →
    ∃ w' nn', pairsLoop t rid ps (w, nn) = .ok (w', nn') ∧ Inv t rid w' nn' (enc ++ encodedPairs ps) := by
  intro ps
  induction ps with
  | nil => intro w nn enc h; exact ⟨w, nn, rfl, by simpa [encodedPairs] using h⟩
  | cons kv rest ih =>
    intro w nn enc h
    obtain ⟨w1, n1, h1, hinv1⟩ := pairStep_inv t rid w nn enc kv h
    obtain ⟨w2, n2, h2, hinv2⟩ := ih w1 n1 _ hinv1
    refine ⟨w2, n2, ?_, ?_⟩
    · unfold pairsLoop; rw [h1]; exact h2
    · rw [encodedPairs_cons, ← List.append_assoc]; exact hinv2

/-- The Params stream `writePairs` puts on the wire: whole records, each holding between 1 and
maxWrite bytes, followed by exactly one empty record; the record contents concatenated are the
§3.4 encodings of the pairs (values cut / over-long names dropped as `effective` says). -/
theorem writePairs_wire (t rid : Nat) (ps : List Pair) :
    ∃ chunks : List Bytes,
      writePairs t rid ps = .ok (recordsOf t rid chunks ++ streamClose t rid) ∧
      (∀ c ∈ chunks, c ≠ [] ∧ c.length ≤ maxWrite) ∧ chunks.flatten = encodedPairs ps := by
  have h0 : Inv t rid {} 0 [] := ⟨[], by simp [recordsOf], by simp, rfl, Nat.zero_le _, by simp⟩
  obtain ⟨w, nn, hl, hinv⟩ := pairsLoop_inv t rid ps {} 0 [] h0
  obtain ⟨chunks, hw, hall, hb, _, henc⟩ := flush_inv t rid w nn _ hinv
  refine ⟨chunks, ?_, hall, ?_⟩
  · unfold writePairs BufW.close
    rw [hl]
    simp only
    rw [hw]
  · have : (BufW.flush t rid w).buf = [] := List.length_eq_zero_iff.mp hb
    rw [this] at henc
    simpa using henc

/-- §3.4: the encodings of pairs with lengths below 2^31 decode to the pairs -/
theorem decodePairs_encode : ∀ (ps : List Pair) (fuel : Nat),
    (∀ kv ∈ ps, kv.1.length < 2147483648 ∧ kv.2.length < 2147483648) → ps.length < fuel →
    decodePairs fuel (ps.flatMap encodePair) = some ps := by
  intro ps
  induction ps with
  | nil =>
    intro fuel _ hf
    cases fuel with
    | zero => omega
    | succ f => simp [decodePairs]
  | cons kv rest ih =>
    intro fuel hall hf
    cases fuel with
    | zero => omega
    | succ f =>
      obtain ⟨k, v⟩ := kv
      have hkv := hall (k, v) (List.mem_cons_self ..)
      simp only [List.flatMap_cons, encodePair, List.append_assoc]
      unfold decodePairs
      have hne : (encodeSize k.length ++ (encodeSize v.length ++ (k ++ (v ++ List.flatMap encodePair rest)))).isEmpty = false := by
        rcases encodeSize_length k.length with h | h <;>
          (cases hh : encodeSize k.length with
           | nil => rw [hh] at h; simp at h
           | cons _ _ => rfl)
      simp only [hne, Bool.false_eq_true, if_false]
      rw [decodeSize_encodeSize _ _ hkv.1]
      simp only
      rw [decodeSize_encodeSize _ _ hkv.2]
      simp only
      have hlen : ¬ ((k ++ (v ++ List.flatMap encodePair rest)).length < k.length + v.length) := by
        simp only [List.length_append]; omega
      simp only [hlen, if_false]
      have hdrop : List.drop (k.length + v.length) (k ++ (v ++ List.flatMap encodePair rest)) =
          List.flatMap encodePair rest := by
        rw [← List.append_assoc, List.drop_append_of_le_length (by simp)]
        simp
      rw [hdrop, ih f (fun x hx => hall x (List.mem_cons_of_mem _ hx)) (by simp at hf; omega)]
      simp only
      congr 2
      · have : List.take k.length (k ++ (v ++ List.flatMap encodePair rest)) = k := by simp
        have h2 : List.take v.length (List.drop k.length (k ++ (v ++ List.flatMap encodePair rest))) = v := by simp
        rw [this, h2]

theorem effective_bounds {kv kv' : Pair} (h : kv' ∈ [kv].filterMap effective) :
    kv'.1.length < 2147483648 ∧ kv'.2.length < 2147483648 := by
  simp only [List.filterMap_cons, List.filterMap_nil] at h
  cases he : effective kv with
  | none => simp [he] at h
  | some x =>
    simp only [he, List.mem_singleton] at h
    subst h
    have := effective_small he
    have : maxWrite = 65500 := rfl
    omega

theorem filterMap_effective_bounds (ps : List Pair) :
    ∀ kv ∈ ps.filterMap effective, kv.1.length < 2147483648 ∧ kv.2.length < 2147483648 := by
  intro kv hkv
  obtain ⟨a, _, ha⟩ := List.mem_filterMap.mp hkv
  exact effective_bounds (kv := a) (by simp [ha])

theorem flatMap_encodePair_length (l : List Pair) : l.length ≤ (l.flatMap encodePair).length := by
  induction l with
  | nil => simp
  | cons x xs ih =>
    have : 1 ≤ (encodePair x).length := by
      unfold encodePair
      rcases encodeSize_length x.1.length with h | h <;> simp only [List.length_append] <;> omega
    simp only [List.flatMap_cons, List.length_append, List.length_cons]
    omega

theorem flatten_le_recordsOf (t rid : Nat) : ∀ l : List Bytes, l.flatten.length ≤ (recordsOf t rid l).length := by
  intro l
  induction l with
  | nil => simp
  | cons c cs ih =>
    rw [recordsOf_cons]
    simp only [List.flatten_cons, List.length_append]
    have : c.length ≤ (writeRecord t rid c).length := by
      simp [writeRecord]; omega
    omega

theorem stdinRecords_length (rid : Nat) (body : Bytes) : body.length + 8 ≤ (stdinRecords rid body).length := by
  unfold stdinRecords streamWrite
  rw [streamWriteFuel_eq]
  obtain ⟨h1, _⟩ := chunkFuel_spec (body.length + 1) body (Nat.lt_succ_self _)
  have := flatten_le_recordsOf typeStdin rid (chunkFuel (body.length + 1) body)
  rw [h1] at this
  have h8 : 8 ≤ (streamClose typeStdin rid).length := by simp [streamClose, writeRecord, headerBytes]
  simp only [List.length_append]
  omega

/-- the whole request direction: what a conforming responder decodes from `Do`'s output -/
theorem received_clientWire (rid : Nat) (hid : rid < 65536) (ps : List Pair) (body : Bytes) :
    ∃ wire, clientWire rid ps body = .ok wire ∧
      received wire = some { id := rid, role := roleResponder, flags := 0,
                             params := ps.filterMap effective, stdin := body } := by
  obtain ⟨chunks, hw, hall, hflat⟩ := writePairs_wire typeParams rid ps
  refine ⟨_, by unfold clientWire; rw [hw], ?_⟩
  unfold received beginRequest
  simp only [List.append_assoc]
  rw [decodeRecord_writeRecord typeBeginRequest rid _ _ (by decide) hid (by simp)]
  simp only [ne_eq, not_true_eq_false, if_false]
  have hF1 : chunks.length < (writeRecord typeBeginRequest rid
      [b8 (roleResponder / 256), b8 roleResponder, b8 0, 0, 0, 0, 0, 0] ++
      (recordsOf typeParams rid chunks ++ (streamClose typeParams rid ++ stdinRecords rid body))).length + 1 := by
    have := recordsOf_length typeParams rid chunks
    simp only [List.length_append]
    omega
  have hF2 : body.length + 1 < (writeRecord typeBeginRequest rid
      [b8 (roleResponder / 256), b8 roleResponder, b8 0, 0, 0, 0, 0, 0] ++
      (recordsOf typeParams rid chunks ++ (streamClose typeParams rid ++ stdinRecords rid body))).length + 1 := by
    have := stdinRecords_length rid body
    simp only [List.length_append]
    omega
  generalize (writeRecord typeBeginRequest rid
      [b8 (roleResponder / 256), b8 roleResponder, b8 0, 0, 0, 0, 0, 0] ++
      (recordsOf typeParams rid chunks ++ (streamClose typeParams rid ++ stdinRecords rid body))).length + 1 = F at hF1 hF2 ⊢
  have hps := readStream_recordsOf typeParams rid (by decide) hid chunks F (stdinRecords rid body)
    (fun c hc => ⟨(hall c hc).1, by have := (hall c hc).2; have : maxWrite = 65500 := rfl; omega⟩) hF1
  rw [List.append_assoc] at hps
  rw [hps]
  simp only
  rw [hflat]
  unfold encodedPairs
  rw [decodePairs_encode _ _ (filterMap_effective_bounds ps) (by
    have := flatMap_encodePair_length (ps.filterMap effective); omega)]
  simp only
  have hbody := readStream_stdin rid hid body [] F hF2
  rw [List.append_nil] at hbody
  rw [hbody]
  simp [b8_toNat, roleResponder]

/-! #### the response direction: every framing is demultiplexed -/

/-- one record as a responder writes it: any padding up to 255 -/
def respRecord (typ rid : Nat) (content : Bytes) (pad : Nat) : Bytes :=
  [1, b8 typ, b8 (rid / 256), b8 rid, b8 (content.length / 256), b8 content.length, b8 pad, 0] ++
    content ++ List.replicate pad 0

/-- a piece of responder output: stdout or stderr bytes (possibly none: the stream terminators)
with the padding the responder chose -/
structure Piece where
  isErr   : Bool
  content : Bytes
  pad     : Nat
deriving Repr

def pieceBytes (rid : Nat) (p : Piece) : Bytes :=
  respRecord (if p.isErr then typeStderr else typeStdout) rid p.content p.pad

/-- a responder's whole output: the pieces in any order, EndRequest, and whatever follows -/
def framing (rid : Nat) (ps : List Piece) (tail : Bytes) : Bytes :=
  ps.flatMap (pieceBytes rid) ++ (respRecord typeEndRequest rid [0, 0, 0, 0, 0, 0, 0, 0] 0 ++ tail)

def outsOf (ps : List Piece) : List Bytes := (ps.filter (fun p => !p.isErr)).map (·.content)
def errsOf (ps : List Piece) : Bytes := (ps.filter (·.isErr)).flatMap (·.content)

def WellSized (ps : List Piece) : Prop := ∀ p ∈ ps, p.content.length < 65536 ∧ p.pad < 256

theorem readRecord_respRecord (typ rid : Nat) (c : Bytes) (pad : Nat) (rest : Bytes)
    (ht : typ < 256) (hne : typ ≠ typeEndRequest) (hid : rid < 65536) (hc : c.length < 65536) (hp : pad < 256) :
    readRecord (respRecord typ rid c pad ++ rest) = .ok (.ok { typ := typ, id := rid, content := c }, rest) := by
  unfold readRecord respRecord
  simp only [List.cons_append, List.nil_append, List.append_assoc, List.length_cons]
  have h0 : ¬ ((c ++ (List.replicate pad 0 ++ rest)).length + 1 + 1 + 1 + 1 + 1 + 1 + 1 + 1 = 0) := by omega
  have h8 : ¬ ((c ++ (List.replicate pad 0 ++ rest)).length + 1 + 1 + 1 + 1 + 1 + 1 + 1 + 1 < 8) := by omega
  simp only [h0, h8, if_false]
  simp only [slice, sliceFrom, List.length_cons, Nat.zero_le, true_and, List.take_succ_cons, List.take_zero,
    List.drop_zero, List.drop_succ_cons]
  have e1 : 8 ≤ (c ++ (List.replicate pad 0 ++ rest)).length + 1 + 1 + 1 + 1 + 1 + 1 + 1 + 1 := by omega
  simp only [e1, if_true]
  simp only [headerFields, idx, be16, List.getElem?_cons_zero, List.getElem?_cons_succ, b8_toNat]
  have e2 : ¬ ((1 : UInt8).toNat ≠ 1) := by decide
  have e3 : typ % 256 = typ := by omega
  have e4 : rid / 256 % 256 * 256 + rid % 256 = rid := be16_join _ hid
  have e5 : c.length / 256 % 256 * 256 + c.length % 256 = c.length := be16_join _ hc
  have e6 : pad % 256 = pad := by omega
  simp only [e2, e3, e4, e5, e6, hne, if_false]
  unfold readBody
  have e7 : ¬ ((c ++ (List.replicate pad 0 ++ rest)).length < c.length + pad) := by
    simp only [List.length_append, List.length_replicate]; omega
  simp only [e7, if_false, slice, sliceFrom, Nat.zero_le, true_and, List.drop_zero]
  have e8 : c.length + pad ≤ (c ++ (List.replicate pad 0 ++ rest)).length := by
    simp only [List.length_append, List.length_replicate]; omega
  have e9 : c.length ≤ (List.take (c.length + pad) (c ++ (List.replicate pad 0 ++ rest))).length := by
    rw [List.length_take]; omega
  simp only [e8, e9, if_true]
  congr 2
  · congr 1
    rw [List.take_take, Nat.min_eq_left (by omega)]
    simp
  · rw [← List.append_assoc, List.drop_append_of_le_length (by simp)]
    simp

theorem readRecord_endRequest (rid : Nat) (tail : Bytes) (hid : rid < 65536) :
    ∃ rest, readRecord (respRecord typeEndRequest rid [0, 0, 0, 0, 0, 0, 0, 0] 0 ++ tail) = .ok (.error .eof, rest) := by
  unfold readRecord respRecord
  simp only [List.cons_append, List.nil_append, List.append_assoc, List.length_cons]
  have h0 : ¬ ((List.replicate 0 (0 : UInt8) ++ tail).length + 1 + 1 + 1 + 1 + 1 + 1 + 1 + 1 + 1 + 1 + 1 + 1 + 1 + 1 + 1 + 1 = 0) := by omega
  have h8 : ¬ ((List.replicate 0 (0 : UInt8) ++ tail).length + 1 + 1 + 1 + 1 + 1 + 1 + 1 + 1 + 1 + 1 + 1 + 1 + 1 + 1 + 1 + 1 < 8) := by omega
  simp only [h0, h8, if_false]
  simp only [slice, sliceFrom, List.length_cons, Nat.zero_le, true_and, List.take_succ_cons, List.take_zero,
    List.drop_zero, List.drop_succ_cons]
  have e1 : 8 ≤ (List.replicate 0 (0 : UInt8) ++ tail).length + 1 + 1 + 1 + 1 + 1 + 1 + 1 + 1 + 1 + 1 + 1 + 1 + 1 + 1 + 1 + 1 := by omega
  simp only [e1, if_true]
  simp only [headerFields, idx, be16, List.getElem?_cons_zero, List.getElem?_cons_succ, b8_toNat]
  have e2 : ¬ ((1 : UInt8).toNat ≠ 1) := by decide
  have e3 : typeEndRequest % 256 = typeEndRequest := by decide
  simp only [e2, e3, if_false, if_true]
  exact ⟨_, rfl⟩

/-- every framing of (stdout, stderr) is demultiplexed into exactly those two streams -/
theorem demuxFuel_framing (rid : Nat) (hid : rid < 65536) (tail : Bytes) :
    ∀ (ps : List Piece) (fuel : Nat), WellSized ps → ps.length < fuel →
      demuxFuel fuel (framing rid ps tail) = .ok { out := outsOf ps, err := errsOf ps, fin := .eof } := by
  intro ps
  induction ps with
  | nil =>
    intro fuel _ hf
    cases fuel with
    | zero => omega
    | succ f =>
      obtain ⟨rest, hr⟩ := readRecord_endRequest rid tail hid
      simp only [framing, List.flatMap_nil, List.nil_append, demuxFuel, hr, outsOf, errsOf,
        List.filter_nil, List.map_nil]
  | cons p ps ih =>
    intro fuel hws hf
    cases fuel with
    | zero => omega
    | succ f =>
      have hp := hws p (List.mem_cons_self ..)
      have hrec : framing rid (p :: ps) tail = pieceBytes rid p ++ framing rid ps tail := by
        simp [framing]
      rw [hrec]
      unfold demuxFuel pieceBytes
      rw [readRecord_respRecord _ rid p.content p.pad _ (by split <;> decide) (by split <;> decide) hid hp.1 hp.2]
      simp only
      rw [ih f (fun x hx => hws x (List.mem_cons_of_mem _ hx)) (by simp at hf; omega)]
      simp only
      cases hpe : p.isErr with
      | true =>
        simp [outsOf, errsOf, hpe]
      | false =>
        have : ¬ (typeStdout = typeStderr) := by decide
        simp [outsOf, errsOf, hpe, this]

theorem framing_length (rid : Nat) (ps : List Piece) (tail : Bytes) : ps.length < (framing rid ps tail).length + 1 := by
  have : ∀ l : List Piece, l.length ≤ (l.flatMap (pieceBytes rid)).length := by
    intro l
    induction l with
    | nil => simp
    | cons x xs ih =>
      have : 1 ≤ (pieceBytes rid x).length := by simp [pieceBytes, respRecord]
      simp only [List.flatMap_cons, List.length_append, List.length_cons]
      omega
  have := this ps
  simp only [framing, List.length_append]
  omega

theorem demux_framing (rid : Nat) (hid : rid < 65536) (ps : List Piece) (tail : Bytes) (h : WellSized ps) :
    demux (framing rid ps tail) = .ok { out := outsOf ps, err := errsOf ps, fin := .eof } :=
  demuxFuel_framing rid hid tail ps _ h (framing_length rid ps tail)

/-! #### stdin through `io.Copy`: the record boundaries do not depend on the reader -/

theorem chunkFuel_nil (f : Nat) : chunkFuel f [] = [] := by
  cases f <;> simp [chunkFuel]

theorem chunkFuel_single (f : Nat) (p : Bytes) (h0 : p ≠ []) (h : p.length ≤ maxWrite) :
    chunkFuel (f + 1) p = [p] := by
  have hpos : 0 < p.length := List.length_pos_iff.mpr h0
  unfold chunkFuel
  have e1 : ¬ (p.length = 0) := by omega
  have e2 : ¬ (p.length > maxWrite) := by omega
  simp only [e1, e2, if_false, List.take_length, List.drop_length, chunkFuel_nil]

theorem chunkFuel_succ (f : Nat) (p : Bytes) : chunkFuel (f + 1) p =
    if p.length = 0 then [] else
      p.take (if p.length > maxWrite then maxWrite else p.length) ::
        chunkFuel f (p.drop (if p.length > maxWrite then maxWrite else p.length)) := by
  rw [chunkFuel]

theorem readCount_bounds (wants : List Nat) (remLen avail : Nat) (h1 : 0 < remLen) (h2 : 0 < avail) :
    0 < readCount wants remLen avail ∧ readCount wants remLen avail ≤ avail ∧
    readCount wants remLen avail ≤ remLen := by
  cases wants with
  | nil => simp only [readCount]; omega
  | cons x t =>
    simp only [readCount]
    split <;> omega

/-- chunks that are all exactly maxWrite long -/
def Fulls (l : List Bytes) : Prop := ∀ c ∈ l, c.length = maxWrite

theorem chunkFuel_fulls : ∀ (fulls : List Bytes) (B : Bytes) (f : Nat), Fulls fulls →
    (fulls.flatten ++ B).length < f →
    chunkFuel f (fulls.flatten ++ B) = fulls ++ chunkFuel (f - fulls.length) B := by
  intro fulls
  induction fulls with
  | nil => intro B f _ _; simp
  | cons c rest ih =>
    intro B f hfull hf
    have hmw : maxWrite = 65500 := rfl
    have hc : c.length = maxWrite := hfull c (List.mem_cons_self ..)
    cases f with
    | zero => omega
    | succ f' =>
      simp only [List.flatten_cons, List.append_assoc]
      rw [chunkFuel_succ]
      have e1 : ¬ ((c ++ (rest.flatten ++ B)).length = 0) := by
        simp only [List.length_append]; omega
      have en : (if (c ++ (rest.flatten ++ B)).length > maxWrite then maxWrite
          else (c ++ (rest.flatten ++ B)).length) = c.length := by
        split
        · exact hc.symm
        · rename_i h
          simp only [List.length_append] at h ⊢
          omega
      simp only [e1, if_false, en, List.take_left', List.drop_left']
      rw [ih B f' (fun x hx => hfull x (List.mem_cons_of_mem _ hx)) (by
        simp only [List.flatten_cons, List.append_assoc, List.length_append] at hf ⊢; omega)]
      have hsub : f' + 1 - (c :: rest).length = f' - rest.length := by simp
      rw [hsub]
      rfl

/-- invariant of `ReadFrom`: the wire holds full records, the buffer at most maxWrite bytes, and
together with what is still to be read they are the body -/
def J (t rid : Nat) (body : Bytes) (w : BufW) (rem : Bytes) : Prop :=
  ∃ fulls : List Bytes, Fulls fulls ∧ w.wire = recordsOf t rid fulls ∧ w.buf.length ≤ maxWrite ∧
    fulls.flatten ++ w.buf ++ rem = body

theorem flush_J {t rid : Nat} {body : Bytes} {w : BufW} {rem : Bytes} (h : J t rid body w rem)
    (hfull : w.avail = 0) : J t rid body (BufW.flush t rid w) rem ∧ (BufW.flush t rid w).buf = [] := by
  obtain ⟨fulls, hf, hw, hb, hbody⟩ := h
  have hmw : maxWrite = 65500 := rfl
  have hlen : w.buf.length = maxWrite := by unfold BufW.avail at hfull; omega
  have hne : w.buf ≠ [] := by intro he; rw [he] at hlen; simp at hlen; omega
  have hfl : BufW.flush t rid w = { wire := w.wire ++ streamWrite t rid w.buf, buf := [] } := by
    unfold BufW.flush
    have e : ¬ (w.buf.length = 0) := by omega
    simp only [e, if_false]
  rw [hfl]
  refine ⟨⟨fulls ++ [w.buf], ?_, ?_, ?_, ?_⟩, rfl⟩
  · intro c hc
    rcases List.mem_append.mp hc with hc | hc
    · exact hf c hc
    · have : c = w.buf := by simpa using hc
      rw [this]; exact hlen
  · show w.wire ++ streamWrite t rid w.buf = _
    rw [hw, recordsOf_append, streamWrite_single t rid w.buf hne (by omega)]
    simp [recordsOf]
  · show ([] : Bytes).length ≤ maxWrite
    simp
  · show (fulls ++ [w.buf]).flatten ++ [] ++ rem = body
    simpa using hbody

theorem readFrom_J (t rid : Nat) (e : Bool) (body : Bytes) : ∀ (f : Nat) (w : BufW) (rem : Bytes) (wants : List Nat),
    J t rid body w rem → rem.length < f → J t rid body (BufW.readFromFuel t rid e f w rem wants) [] := by
  intro f
  induction f with
  | zero => intro w rem wants _ h; omega
  | succ f ih =>
    intro w rem wants hJ hf
    have hmw : maxWrite = 65500 := rfl
    unfold BufW.readFromFuel
    -- the state after the flush at the top of the loop
    have h1 : J t rid body (if w.avail = 0 then BufW.flush t rid w else w) rem ∧
        0 < (if w.avail = 0 then BufW.flush t rid w else w).avail := by
      by_cases ha : w.avail = 0
      · simp only [ha, if_true]
        obtain ⟨hj, hb⟩ := flush_J hJ ha
        refine ⟨hj, ?_⟩
        unfold BufW.avail; rw [hb]; simp; omega
      · simp only [ha, if_false]
        exact ⟨hJ, by omega⟩
    generalize (if w.avail = 0 then BufW.flush t rid w else w) = w1 at h1
    obtain ⟨hJ1, hav⟩ := h1
    by_cases hr : rem.length = 0
    · rw [if_pos hr]
      have : rem = [] := List.length_eq_zero_iff.mp hr
      subst this
      exact hJ1
    · rw [if_neg hr]
      simp only
      obtain ⟨hm1, hm2, hm3⟩ := readCount_bounds wants rem.length w1.avail (by omega) hav
      generalize readCount wants rem.length w1.avail = m at hm1 hm2 hm3
      obtain ⟨fulls, hfu, hw, hb, hbody⟩ := hJ1
      have hJ2 : J t rid body { w1 with buf := w1.buf ++ rem.take m } (rem.drop m) := by
        refine ⟨fulls, hfu, hw, ?_, ?_⟩
        · simp only [List.length_append, List.length_take]
          unfold BufW.avail at hm2
          omega
        · simp only [List.append_assoc, List.take_append_drop]
          simpa [List.append_assoc] using hbody
      by_cases hlast : (rem.drop m).length = 0 ∧ e = true
      · rw [if_pos hlast]
        have hnil : rem.drop m = [] := List.length_eq_zero_iff.mp hlast.1
        rw [hnil] at hJ2
        by_cases ha2 : ({ w1 with buf := w1.buf ++ rem.take m } : BufW).avail = 0
        · rw [if_pos ha2]
          exact (flush_J hJ2 ha2).1
        · rw [if_neg ha2]
          exact hJ2
      · rw [if_neg hlast]
        exact ih _ _ _ hJ2 (by rw [List.length_drop]; omega)

theorem close_J (rid : Nat) (body : Bytes) (w : BufW) (h : J typeStdin rid body w []) :
    BufW.close typeStdin rid w = stdinRecords rid body := by
  obtain ⟨fulls, hfu, hw, hb, hbody⟩ := h
  rw [List.append_nil] at hbody
  unfold BufW.close stdinRecords streamWrite BufW.flush
  rw [streamWriteFuel_eq]
  have hlen : body.length = fulls.flatten.length + w.buf.length := by rw [← hbody]; simp
  have hfl : fulls.length ≤ fulls.flatten.length := by
    have hmw : maxWrite = 65500 := rfl
    clear hw hbody hlen
    induction fulls with
    | nil => simp
    | cons c cs ih =>
      have := hfu c (List.mem_cons_self ..)
      have := ih (fun x hx => hfu x (List.mem_cons_of_mem _ hx))
      simp only [List.length_cons, List.flatten_cons, List.length_append]
      omega
  have hch := chunkFuel_fulls fulls w.buf (body.length + 1) hfu (by rw [hbody]; omega)
  rw [hbody] at hch
  rw [hch, recordsOf_append]
  by_cases h0 : w.buf.length = 0
  · have : w.buf = [] := List.length_eq_zero_iff.mp h0
    simp [hw, this, chunkFuel_nil, recordsOf]
  · simp only [h0, if_false]
    have hne : w.buf ≠ [] := fun he => h0 (by rw [he]; rfl)
    have hg : body.length + 1 - fulls.length = (body.length - fulls.length) + 1 := by omega
    rw [hg, chunkFuel_single _ w.buf hne hb, hw, streamWrite_single typeStdin rid w.buf hne hb]
    simp [recordsOf]

/-- Whatever kind of reader the request body is — none (empty body), one with `WriteTo`, or a
plain reader returning any positive numbers of bytes per call, with or without data on EOF — the
stdin records on the wire are the same: full records of maxWrite bytes, the remainder, the empty
record. -/
theorem stdinWire_eq (rid : Nat) (body : Bytes) (rk : BodyReader) (hnone : rk = .none → body = []) :
    stdinWire rid body rk = stdinRecords rid body := by
  have hJ0 : J typeStdin rid body {} body := ⟨[], by simp [Fulls], by simp [recordsOf], by simp, by simp⟩
  cases rk with
  | none =>
    have := hnone rfl
    subst this
    exact close_J rid [] {} ⟨[], by simp [Fulls], by simp [recordsOf], by simp, by simp⟩
  | plain wants e =>
    exact close_J rid body _ (readFrom_J typeStdin rid e body _ {} body wants hJ0 (by omega))
  | writerTo =>
    unfold stdinWire BufW.write BufW.writeFuel
    have hmw : maxWrite = 65500 := rfl
    by_cases hbig : body.length > ({} : BufW).avail
    · have hbig' : body.length > maxWrite := by simpa [BufW.avail] using hbig
      simp only [hbig, if_true]
      have : (({} : BufW).buf.length = 0 ∧ (!false) = true) := by simp
      simp only [this, and_self, if_true]
      unfold BufW.close BufW.flush stdinRecords
      simp
    · simp only [hbig, if_false]
      have hsm : body.length ≤ maxWrite := by simpa [BufW.avail] using hbig
      exact close_J rid body _ ⟨[], by simp [Fulls], by simp [recordsOf], by simpa using hsm, by simp⟩

/-! #### `streamReader.Read` call by call: progress -/

/-- the loop over records ends, without error, only on a record that is not stderr; that record
becomes `w.buf` and is the last one consumed; everything consumed before it is stderr -/
theorem fill_spec : ∀ (f : Nat) (s : SR) (acc : List Rec) (s' : SR) (c : List Rec),
    SR.fill f s acc = .ok (s', none, c) →
    ∃ pre rec, c = acc ++ pre ++ [rec] ∧ (∀ r ∈ pre, r.typ = typeStderr) ∧
      rec.typ ≠ typeStderr ∧ s'.buf = rec.content := by
  intro f
  induction f with
  | zero => intro s acc s' c h; simp [SR.fill] at h
  | succ f ih =>
    intro s acc s' c h
    unfold SR.fill at h
    cases hr : readRecord s.inp with
    | error e => rw [hr] at h; cases h
    | ok v =>
      obtain ⟨r, rest⟩ := v
      rw [hr] at h
      cases r with
      | error e => simp at h
      | ok rec =>
        simp only at h
        by_cases ht : rec.typ = typeStderr
        · simp only [ht, if_true] at h
          obtain ⟨pre, rec', hc, hpre, hne, hb⟩ := ih _ _ _ _ h
          refine ⟨rec :: pre, rec', by simp [hc], ?_, hne, hb⟩
          intro r hr'
          rcases List.mem_cons.mp hr' with rfl | hm
          · exact ht
          · exact hpre r hm
        · simp only [ht, if_false] at h
          simp only [Except.ok.injEq, Prod.mk.injEq] at h
          obtain ⟨hs, _, hc⟩ := h
          exact ⟨[], rec, by simp [hc], by simp, ht, by rw [← hs]⟩

/-- a call with a non-empty buffer that reports no error and delivers no bytes has just taken an
empty data record off the connection -/
theorem read_progress (s s' : SR) (plen : Nat) (o : ReadOut) (hp : 0 < plen)
    (h : s.read plen = .ok (s', o)) :
    o.err.isSome = true ∨ o.data ≠ [] ∨
      ∃ rec, o.consumed.getLast? = some rec ∧ isEmptyData rec = true := by
  unfold SR.read at h
  have hp0 : ¬ (plen = 0) := by omega
  simp only [hp0, if_false] at h
  by_cases hb : s.buf.length ≠ 0
  · rw [if_pos hb] at h
    simp only [SR.deliver, Except.ok.injEq, Prod.mk.injEq] at h
    right; left
    rw [← h.2]
    simp only
    intro he
    have := congrArg List.length he
    simp only [List.length_take, List.length_nil] at this
    omega
  · rw [if_neg hb] at h
    cases hf : SR.fill (s.inp.length + 1) s [] with
    | error e => rw [hf] at h; cases h
    | ok v =>
      obtain ⟨s1, e, c⟩ := v
      rw [hf] at h
      cases e with
      | some e =>
        simp only [Except.ok.injEq, Prod.mk.injEq] at h
        left; rw [← h.2]; rfl
      | none =>
        simp only [SR.deliver, Except.ok.injEq, Prod.mk.injEq] at h
        obtain ⟨pre, rec, hc, _, hne, hbuf⟩ := fill_spec _ _ _ _ _ hf
        by_cases hemp : rec.content = []
        · right; right
          refine ⟨rec, ?_, ?_⟩
          · rw [← h.2]; simp [hc]
          · simp [isEmptyData, hne, hemp]
        · right; left
          rw [← h.2]
          simp only
          intro he
          have := congrArg List.length he
          rw [hbuf] at this
          simp only [List.length_take, List.length_nil] at this
          have : 0 < rec.content.length := List.length_pos_iff.mpr hemp
          omega

/-- over a whole sequence of reads: calls without progress ≤ empty data records consumed -/
theorem readAll_zero_le (plen : Nat) (hp : 0 < plen) : ∀ (f : Nat) (s : SR) (t t' : Trace),
    SR.readAll plen f s t = .ok t' → t.zero ≤ t.empties → t'.zero ≤ t'.empties := by
  intro f
  induction f with
  | zero => intro s t t' h; simp [SR.readAll] at h
  | succ f ih =>
    intro s t t' h hle
    unfold SR.readAll at h
    cases hr : s.read plen with
    | error e => rw [hr] at h; cases h
    | ok v =>
      obtain ⟨s1, o⟩ := v
      rw [hr] at h
      simp only at h
      cases he : o.err with
      | some e =>
        rw [he] at h
        simp only [Except.ok.injEq] at h
        rw [← h]; simp only; omega
      | none =>
        rw [he] at h
        simp only at h
        refine ih _ _ _ h ?_
        simp only
        by_cases hd : o.data.isEmpty = true
        · simp only [hd, if_true]
          have hprog := read_progress s s1 plen o hp hr
          rw [he] at hprog
          have hd' : o.data = [] := by simpa using hd
          rcases hprog with h1 | h1 | ⟨rec, hl, hr2⟩
          · simp at h1
          · exact absurd hd' h1
          · have : 1 ≤ (o.consumed.filter isEmptyData).length := by
              have hm : rec ∈ o.consumed.filter isEmptyData :=
                List.mem_filter.mpr ⟨List.mem_of_getLast? hl, hr2⟩
              exact List.length_pos_of_mem hm
            omega
        · have hd' : o.data.isEmpty = false := by simpa using hd
          simp only [hd', Bool.false_eq_true, if_false]; omega

/-! #### the exact number of reads without progress, for every framing -/

def emptyOuts (ps : List Piece) : Nat := ((outsOf ps).filter (·.isEmpty)).length

def AllErr (ps : List Piece) : Prop := ∀ p ∈ ps, p.isErr = true

theorem pieces_split (ps : List Piece) :
    AllErr ps ∨ ∃ pre q qs, ps = pre ++ q :: qs ∧ AllErr pre ∧ q.isErr = false := by
  induction ps with
  | nil => left; simp [AllErr]
  | cons p rest ih =>
    cases hp : p.isErr with
    | false => right; exact ⟨[], p, rest, rfl, by simp [AllErr], hp⟩
    | true =>
      rcases ih with h | ⟨pre, q, qs, he, hpre, hq⟩
      · left
        intro x hx
        rcases List.mem_cons.mp hx with rfl | hm
        · exact hp
        · exact h x hm
      · right
        refine ⟨p :: pre, q, qs, by simp [he], ?_, hq⟩
        intro x hx
        rcases List.mem_cons.mp hx with rfl | hm
        · exact hp
        · exact hpre x hm

theorem outsOf_allErr {ps : List Piece} (h : AllErr ps) : outsOf ps = [] := by
  unfold outsOf
  have : ps.filter (fun p => !p.isErr) = [] := by
    rw [List.filter_eq_nil_iff]
    intro p hp
    simp [h p hp]
  rw [this]; rfl

theorem outsOf_split {pre qs : List Piece} {q : Piece} (h : AllErr pre) (hq : q.isErr = false) :
    outsOf (pre ++ q :: qs) = q.content :: outsOf qs := by
  have h0 : (pre.filter (fun p => !p.isErr)) = [] := by
    rw [List.filter_eq_nil_iff]
    intro p hp
    simp [h p hp]
  simp [outsOf, List.filter_append, h0, List.filter_cons, hq]

theorem errsOf_split {pre qs : List Piece} {q : Piece} (hq : q.isErr = false) :
    errsOf (pre ++ q :: qs) = errsOf pre ++ errsOf qs := by
  simp [errsOf, List.filter_append, List.filter_cons, hq]

theorem framing_cons (rid : Nat) (p : Piece) (ps : List Piece) (tail : Bytes) :
    framing rid (p :: ps) tail = pieceBytes rid p ++ framing rid ps tail := by
  simp [framing]

theorem isEmptyData_stderr {r : Rec} (h : r.typ = typeStderr) : isEmptyData r = false := by
  simp [isEmptyData, h]

/-- the record loop over a framing that holds only stderr pieces: all diverted, then EndRequest -/
theorem fill_allErr (rid : Nat) (hid : rid < 65536) (tail : Bytes) :
    ∀ (ps : List Piece) (f : Nat) (e : Bytes) (acc : List Rec), WellSized ps → AllErr ps → ps.length < f →
    ∃ rest c, SR.fill f { inp := framing rid ps tail, buf := [], stderr := e } acc
        = .ok ({ inp := rest, buf := [], stderr := e ++ errsOf ps }, some .eof, c) ∧
      (c.filter isEmptyData).length = (acc.filter isEmptyData).length := by
  intro ps
  induction ps with
  | nil =>
    intro f e acc _ _ hf
    cases f with
    | zero => omega
    | succ f =>
      obtain ⟨rest, hr⟩ := readRecord_endRequest rid tail hid
      refine ⟨rest, acc, ?_, rfl⟩
      simp [SR.fill, framing, hr, errsOf]
  | cons p ps ih =>
    intro f e acc hws hall hf
    cases f with
    | zero => omega
    | succ f =>
      have hp := hws p (List.mem_cons_self ..)
      have hpe := hall p (List.mem_cons_self ..)
      obtain ⟨rest, c, hfill, hcount⟩ := ih f (e ++ p.content)
        (acc ++ [{ typ := typeStderr, id := rid, content := p.content }])
        (fun x hx => hws x (List.mem_cons_of_mem _ hx)) (fun x hx => hall x (List.mem_cons_of_mem _ hx))
        (by simp at hf; omega)
      refine ⟨rest, c, ?_, ?_⟩
      · unfold SR.fill
        simp only [framing_cons, pieceBytes, hpe, if_true]
        rw [readRecord_respRecord typeStderr rid p.content p.pad _ (by decide) (by decide) hid hp.1 hp.2]
        simp only [if_true]
        rw [hfill]
        simp [errsOf, List.filter_cons, hpe]
      · rw [hcount]
        simp [List.filter_append, isEmptyData]

/-- the record loop over a framing whose first stdout piece is `q`: the stderr pieces before it
are diverted, `q` becomes the buffer -/
theorem fill_split (rid : Nat) (hid : rid < 65536) (tail : Bytes) (q : Piece) (qs : List Piece)
    (hq : q.isErr = false) :
    ∀ (pre : List Piece) (f : Nat) (e : Bytes) (acc : List Rec), WellSized (pre ++ q :: qs) → AllErr pre →
      pre.length < f →
    ∃ c, SR.fill f { inp := framing rid (pre ++ q :: qs) tail, buf := [], stderr := e } acc
        = .ok ({ inp := framing rid qs tail, buf := q.content, stderr := e ++ errsOf pre }, none, c) ∧
      (c.filter isEmptyData).length =
        (acc.filter isEmptyData).length + (if q.content.isEmpty then 1 else 0) := by
  intro pre
  induction pre with
  | nil =>
    intro f e acc hws _ hf
    cases f with
    | zero => omega
    | succ f =>
      have hp := hws q (by simp)
      refine ⟨acc ++ [{ typ := typeStdout, id := rid, content := q.content }], ?_, ?_⟩
      · unfold SR.fill
        simp only [List.nil_append, framing_cons, pieceBytes, hq, Bool.false_eq_true, if_false]
        rw [readRecord_respRecord typeStdout rid q.content q.pad _ (by decide) (by decide) hid hp.1 hp.2]
        have : ¬ (typeStdout = typeStderr) := by decide
        simp [this, errsOf]
      · have : ¬ (typeStdout = typeStderr) := by decide
        simp [List.filter_append, isEmptyData, List.filter_cons, this]
        split <;> simp_all
  | cons p pre ih =>
    intro f e acc hws hall hf
    cases f with
    | zero => omega
    | succ f =>
      have hp := hws p (by simp)
      have hpe := hall p (List.mem_cons_self ..)
      obtain ⟨c, hfill, hcount⟩ := ih f (e ++ p.content)
        (acc ++ [{ typ := typeStderr, id := rid, content := p.content }])
        (fun x hx => hws x (by simp at hx ⊢; right; exact hx)) (fun x hx => hall x (List.mem_cons_of_mem _ hx))
        (by simp at hf; omega)
      refine ⟨c, ?_, ?_⟩
      · unfold SR.fill
        simp only [List.cons_append, framing_cons, pieceBytes, hpe, if_true]
        rw [readRecord_respRecord typeStderr rid p.content p.pad _ (by decide) (by decide) hid hp.1 hp.2]
        simp only [if_true]
        rw [hfill]
        simp [errsOf, List.filter_cons, hpe]
      · rw [hcount]
        simp [List.filter_append, isEmptyData]

/-- an upper bound on the number of `Read` calls still needed -/
def callBound (ps : List Piece) (b : Bytes) : Nat :=
  b.length + (ps.map (fun p => p.content.length + 1)).sum + 1

theorem emptyOuts_allErr {ps : List Piece} (h : AllErr ps) : emptyOuts ps = 0 := by
  simp [emptyOuts, outsOf_allErr h]

theorem emptyOuts_split {pre qs : List Piece} {q : Piece} (h : AllErr pre) (hq : q.isErr = false) :
    emptyOuts (pre ++ q :: qs) = (if q.content.isEmpty then 1 else 0) + emptyOuts qs := by
  unfold emptyOuts
  rw [outsOf_split h hq, List.filter_cons]
  split <;> simp <;> omega

theorem errsOf_allErr_nil : errsOf [] = [] := rfl

/-- THE call-level theorem for framings: reading any framing of (stdout, stderr) through `Read`
calls with any buffer size `plen > 0`, from any buffered state, delivers exactly the stdout
bytes, diverts exactly the stderr bytes, ends cleanly, and the number of calls that return (0, nil)
is exactly the number of empty stdout records — stderr records, however many in a row, never
produce one. -/
theorem readAll_framing (rid : Nat) (hid : rid < 65536) (tail : Bytes) (plen : Nat) (hp : 0 < plen) :
    ∀ (f : Nat) (ps : List Piece) (b e : Bytes) (t : Trace), WellSized ps → callBound ps b ≤ f →
      SR.readAll plen f { inp := framing rid ps tail, buf := b, stderr := e } t =
        .ok { zero := t.zero + emptyOuts ps, empties := t.empties + emptyOuts ps,
              out := t.out ++ b ++ (outsOf ps).flatten, stderr := e ++ errsOf ps, fin := .eof } := by
  intro f
  induction f with
  | zero => intro ps b e t _ hb; unfold callBound at hb; omega
  | succ f ih =>
    intro ps b e t hws hbound
    unfold SR.readAll SR.read
    have hp0 : ¬ (plen = 0) := by omega
    simp only [hp0, if_false]
    by_cases hb : b.length ≠ 0
    · -- bytes left in w.buf: deliver some of them
      rw [if_pos (show ({ inp := framing rid ps tail, buf := b, stderr := e } : SR).buf.length ≠ 0 from hb)]
      simp only [SR.deliver]
      have hn : 0 < min plen b.length := by omega
      have hdata : (List.take (min plen b.length) b).isEmpty = false := by
        cases hh : List.take (min plen b.length) b with
        | nil =>
          have := congrArg List.length hh
          simp only [List.length_take, List.length_nil] at this
          omega
        | cons _ _ => rfl
      simp only [List.filter_nil, List.length_nil, Nat.add_zero, hdata, Bool.false_eq_true, if_false]
      rw [ih ps (List.drop (min plen b.length) b) e _ hws (by
        unfold callBound at hbound ⊢
        simp only [List.length_drop]
        omega)]
      simp only [List.append_assoc, List.take_append_drop]
    · -- w.buf is empty: the record loop
      have hb0 : b = [] := by
        have : b.length = 0 := by omega
        exact List.length_eq_zero_iff.mp this
      subst hb0
      rw [if_neg (show ¬ (({ inp := framing rid ps tail, buf := [], stderr := e } : SR).buf.length ≠ 0) from hb)]
      have hfuel : ∀ qs : List Piece, qs.length < (framing rid qs tail).length + 1 := fun qs => framing_length rid qs tail
      rcases pieces_split ps with hall | ⟨pre, q, qs, hps, hpre, hq⟩
      · obtain ⟨rest, c, hfill, hcount⟩ := fill_allErr rid hid tail ps _ e [] hws hall (hfuel ps)
        rw [hfill]
        simp only [hcount, List.filter_nil, List.length_nil, Nat.add_zero]
        simp [emptyOuts_allErr hall, outsOf_allErr hall]
      · subst hps
        have hlen : pre.length < (framing rid (pre ++ q :: qs) tail).length + 1 := by
          have := hfuel (pre ++ q :: qs)
          simp only [List.length_append, List.length_cons] at this
          omega
        obtain ⟨c, hfill, hcount⟩ := fill_split rid hid tail q qs hq pre _ e [] hws hpre hlen
        rw [hfill]
        simp only [SR.deliver, hcount, List.filter_nil, List.length_nil, Nat.zero_add]
        have hwsq : WellSized qs := fun x hx => hws x (by simp; right; right; exact hx)
        rw [ih qs (List.drop (min plen q.content.length) q.content) (e ++ errsOf pre) _ hwsq (by
          unfold callBound at hbound ⊢
          simp only [List.length_drop, List.map_append, List.map_cons, List.sum_append, List.sum_cons,
            List.length_nil] at hbound ⊢
          omega)]
        rw [emptyOuts_split hpre hq, outsOf_split hpre hq, errsOf_split hq]
        have hempty : (List.take (min plen q.content.length) q.content).isEmpty = q.content.isEmpty := by
          cases hc : q.content with
          | nil => simp
          | cons x xs =>
            have : 0 < min plen (x :: xs).length := by simp; omega
            cases hh : List.take (min plen (x :: xs).length) (x :: xs) with
            | nil =>
              have := congrArg List.length hh
              simp only [List.length_take, List.length_nil] at this
              omega
            | cons _ _ => rfl
        simp only [hempty, List.flatten_cons, List.append_nil, List.append_assoc, List.take_append_drop]
        congr 1
        cases q.content.isEmpty <;> simp <;> omega

theorem callBound_le (rid : Nat) (ps : List Piece) (tail : Bytes) :
    callBound ps [] ≤ 2 * (framing rid ps tail).length + 2 := by
  have : ∀ l : List Piece, (l.map (fun p => p.content.length + 1)).sum ≤ (l.flatMap (pieceBytes rid)).length := by
    intro l
    induction l with
    | nil => simp
    | cons x xs ih =>
      have : x.content.length + 1 ≤ (pieceBytes rid x).length := by
        simp [pieceBytes, respRecord]; omega
      simp only [List.map_cons, List.sum_cons, List.flatMap_cons, List.length_append]
      omega
  have := this ps
  unfold callBound
  simp only [framing, List.length_append, List.length_nil]
  omega

/-- `readAll_framing` for a fresh reader and the fuel `readTrace` uses -/
theorem readTrace_framing (rid : Nat) (hid : rid < 65536) (ps : List Piece) (tail : Bytes)
    (h : WellSized ps) (plen : Nat) (hp : 0 < plen) :
    readTrace (framing rid ps tail) plen =
      .ok { zero := emptyOuts ps, empties := emptyOuts ps, out := (outsOf ps).flatten,
            stderr := errsOf ps, fin := .eof } := by
  unfold readTrace
  rw [readAll_framing rid hid tail plen hp _ ps [] [] {} h (callBound_le rid ps tail)]
  simp

/-! #### the reference decoder's count of empty data records, for framings -/

theorem decodeRecord_respRecord (typ rid : Nat) (c : Bytes) (pad : Nat) (rest : Bytes)
    (ht : typ < 256) (hid : rid < 65536) (hc : c.length < 65536) (hp : pad < 256) :
    decodeRecord (respRecord typ rid c pad ++ rest) = some ({ typ := typ, id := rid, content := c }, rest) := by
  unfold respRecord
  simp only [List.cons_append, List.nil_append, List.append_assoc, decodeRecord, b8_toNat]
  have hv : ¬ ((1 : UInt8) ≠ 1) := by decide
  have hcl : c.length / 256 % 256 * 256 + c.length % 256 = c.length := be16_join _ hc
  have hpp : pad % 256 = pad := by omega
  have hlen : ¬ ((c ++ (List.replicate pad 0 ++ rest)).length <
      c.length / 256 % 256 * 256 + c.length % 256 + pad % 256) := by
    simp only [List.length_append, List.length_replicate]
    omega
  simp only [hv, hlen, if_false]
  rw [hcl, hpp]
  have e1 : typ % 256 = typ := by omega
  have e2 : rid / 256 % 256 * 256 + rid % 256 = rid := be16_join _ hid
  simp only [e1, e2]
  congr 2
  · simp
  · rw [← List.append_assoc]
    rw [List.drop_append_of_le_length (by simp)]
    simp

theorem emptyOuts_cons (p : Piece) (ps : List Piece) :
    emptyOuts (p :: ps) = (if !p.isErr && p.content.isEmpty then 1 else 0) + emptyOuts ps := by
  unfold emptyOuts outsOf
  cases hp : p.isErr <;> simp [List.filter_cons, hp]
  split <;> simp <;> omega

theorem emptyDataRecords_framing (rid : Nat) (hid : rid < 65536) (tail : Bytes) :
    ∀ (ps : List Piece) (f : Nat), WellSized ps → ps.length < f →
      emptyDataRecords f (framing rid ps tail) = emptyOuts ps := by
  intro ps
  induction ps with
  | nil =>
    intro f _ hf
    cases f with
    | zero => omega
    | succ f =>
      simp only [framing, List.flatMap_nil, List.nil_append, emptyDataRecords]
      rw [decodeRecord_respRecord typeEndRequest rid _ 0 tail (by decide) hid (by simp) (by omega)]
      simp [emptyOuts, outsOf]
  | cons p ps ih =>
    intro f hws hf
    cases f with
    | zero => omega
    | succ f =>
      have hp := hws p (List.mem_cons_self ..)
      rw [framing_cons, emptyOuts_cons]
      unfold emptyDataRecords pieceBytes
      rw [decodeRecord_respRecord _ rid p.content p.pad _ (by split <;> decide) hid hp.1 hp.2]
      simp only
      rw [ih f (fun x hx => hws x (List.mem_cons_of_mem _ hx)) (by simp at hf; omega)]
      cases hpe : p.isErr with
      | true => simp [typeStderr, typeEndRequest]
      | false =>
        have h1 : ¬ (typeStdout = typeEndRequest) := by decide
        have h2 : (typeStdout != typeStderr) = true := by decide
        simp [h1, h2]

/-! #### the contract of the `bufio.Writer` model the request side relies on

`Holds t rid w s`: what has been handed to the writer so far is the byte string `s`; it sits on the
wire as whole records of 1..maxWrite content bytes, followed by the buffered tail.  Every operation
of the model keeps this, whatever the sizes involved and wherever the flushes fall: `Write` and
`WriteString` accept all of `p` (the Go calls return `len(p)`), and flush boundaries never change
the concatenated bytes. -/

def Holds (t rid : Nat) (w : BufW) (s : Bytes) : Prop :=
  ∃ chunks : List Bytes, w.wire = recordsOf t rid chunks ∧
    (∀ c ∈ chunks, c ≠ [] ∧ c.length ≤ maxWrite) ∧ w.buf.length ≤ maxWrite ∧ chunks.flatten ++ w.buf = s

theorem holds_empty (t rid : Nat) : Holds t rid {} [] :=
  ⟨[], by simp [recordsOf], by simp, by simp, by simp⟩

theorem flush_holds {t rid : Nat} {w : BufW} {s : Bytes} (h : Holds t rid w s) :
    Holds t rid (BufW.flush t rid w) s ∧ (BufW.flush t rid w).buf = [] := by
  obtain ⟨chunks, hw, hall, hb, hs⟩ := h
  by_cases h0 : w.buf.length = 0
  · have hfl : BufW.flush t rid w = w := by unfold BufW.flush; simp only [h0, if_true]
    rw [hfl]
    exact ⟨⟨chunks, hw, hall, hb, hs⟩, List.length_eq_zero_iff.mp h0⟩
  · have hfl : BufW.flush t rid w = { wire := w.wire ++ streamWrite t rid w.buf, buf := [] } := by
      unfold BufW.flush; simp only [h0, if_false]
    rw [hfl]
    have hne : w.buf ≠ [] := fun he => h0 (by rw [he]; rfl)
    refine ⟨⟨chunks ++ [w.buf], ?_, ?_, ?_, ?_⟩, rfl⟩
    · show w.wire ++ streamWrite t rid w.buf = _
      rw [hw, recordsOf_append, streamWrite_single t rid w.buf hne hb]
      simp [recordsOf]
    · intro c hc
      rcases List.mem_append.mp hc with hc | hc
      · exact hall c hc
      · have : c = w.buf := by simpa using hc
        subst this
        exact ⟨hne, hb⟩
    · show ([] : Bytes).length ≤ maxWrite
      simp
    · show (chunks ++ [w.buf]).flatten ++ [] = s
      simpa using hs

/-- a direct `streamWriter.Write(p)` of any size appends whole records whose contents are `p` -/
theorem streamWrite_holds {t rid : Nat} {w : BufW} {s : Bytes} (p : Bytes) (h : Holds t rid w s)
    (hb : w.buf = []) : Holds t rid { w with wire := w.wire ++ streamWrite t rid p } (s ++ p) := by
  obtain ⟨chunks, hw, hall, _, hs⟩ := h
  obtain ⟨h1, h2⟩ := chunkFuel_spec (p.length + 1) p (Nat.lt_succ_self _)
  refine ⟨chunks ++ chunkFuel (p.length + 1) p, ?_, ?_, by rw [hb]; simp, ?_⟩
  · show w.wire ++ streamWrite t rid p = _
    rw [hw, recordsOf_append]
    unfold streamWrite
    rw [streamWriteFuel_eq]
  · intro c hc
    rcases List.mem_append.mp hc with hc | hc
    · exact hall c hc
    · exact h2 c hc
  · show (chunks ++ chunkFuel (p.length + 1) p).flatten ++ w.buf = s ++ p
    rw [hb] at hs ⊢
    simp only [List.append_nil] at hs ⊢
    rw [List.flatten_append, h1, hs]

theorem writeFuel_holds (t rid : Nat) (isS : Bool) : ∀ (f : Nat) (w : BufW) (p s : Bytes),
    Holds t rid w s → p.length + (if w.avail = 0 then 1 else 0) + 1 ≤ f →
    Holds t rid (BufW.writeFuel t rid isS f w p) (s ++ p) := by
  intro f
  induction f with
  | zero => intro w p s _ h; omega
  | succ f ih =>
    intro w p s hH hf
    have hmw : maxWrite = 65500 := rfl
    unfold BufW.writeFuel
    by_cases hbig : p.length > w.avail
    · simp only [hbig, if_true]
      by_cases hdirect : w.buf.length = 0 ∧ (!isS) = true
      · simp only [hdirect, and_self, if_true]
        exact streamWrite_holds p hH (List.length_eq_zero_iff.mp hdirect.1)
      · simp only [hdirect, if_false]
        obtain ⟨chunks, hw, hall, hb, hs⟩ := hH
        have havail : w.avail ≤ p.length := by omega
        have hfill : Holds t rid { w with buf := w.buf ++ p.take w.avail } (s ++ p.take w.avail) := by
          refine ⟨chunks, hw, hall, ?_, ?_⟩
          · simp only [List.length_append, List.length_take]
            unfold BufW.avail at havail ⊢
            omega
          · show chunks.flatten ++ (w.buf ++ p.take w.avail) = s ++ p.take w.avail
            rw [← List.append_assoc, hs]
        obtain ⟨hfl, hbuf⟩ := flush_holds hfill
        have := ih (BufW.flush t rid { w with buf := w.buf ++ p.take w.avail }) (p.drop w.avail)
          (s ++ p.take w.avail) hfl (by
            have ha : (BufW.flush t rid { w with buf := w.buf ++ p.take w.avail }).avail ≠ 0 := by
              have e : (BufW.flush t rid { w with buf := w.buf ++ p.take w.avail }).avail =
                  maxWrite - (BufW.flush t rid { w with buf := w.buf ++ p.take w.avail }).buf.length := rfl
              rw [e, hbuf]; simp; omega
            simp only [ha, if_false, List.length_drop]
            by_cases h0 : w.avail = 0
            · simp only [h0, if_true] at hf; omega
            · simp only [h0, if_false] at hf; omega)
        rw [List.append_assoc, List.take_append_drop] at this
        exact this
    · simp only [hbig, if_false]
      obtain ⟨chunks, hw, hall, hb, hs⟩ := hH
      refine ⟨chunks, hw, hall, ?_, ?_⟩
      · simp only [List.length_append]
        unfold BufW.avail at hbig
        omega
      · show chunks.flatten ++ (w.buf ++ p) = s ++ p
        rw [← List.append_assoc, hs]

/-- `Write(p)` accepts all of `p`, for every `p` and every state -/
theorem write_holds {t rid : Nat} {w : BufW} {s : Bytes} (p : Bytes) (h : Holds t rid w s) :
    Holds t rid (BufW.write t rid w p) (s ++ p) :=
  writeFuel_holds t rid false _ w p s h (by split <;> omega)

/-- `WriteString(p)` accepts all of `p`, for every `p` and every state -/
theorem writeString_holds {t rid : Nat} {w : BufW} {s : Bytes} (p : Bytes) (h : Holds t rid w s) :
    Holds t rid (BufW.writeString t rid w p) (s ++ p) :=
  writeFuel_holds t rid true _ w p s h (by split <;> omega)

/-- closing: the wire is whole records carrying exactly `s`, then exactly one empty record -/
theorem close_holds {t rid : Nat} {w : BufW} {s : Bytes} (h : Holds t rid w s) :
    ∃ chunks : List Bytes, BufW.close t rid w = recordsOf t rid chunks ++ streamClose t rid ∧
      (∀ c ∈ chunks, c ≠ [] ∧ c.length ≤ maxWrite) ∧ chunks.flatten = s := by
  obtain ⟨⟨chunks, hw, hall, _, hs⟩, hb⟩ := flush_holds h
  refine ⟨chunks, by unfold BufW.close; rw [hw], hall, ?_⟩
  rw [hb] at hs
  simpa using hs

end Casket.FCGISpec
