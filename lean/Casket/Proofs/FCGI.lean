import Casket.Model.FCGI
import Casket.Proofs.PeerBytes
/-
Helper lemmas about the FastCGI wire model (C13, C19).
-/
namespace Casket.FCGI
open Casket.Fault

/-! ### totality (C19) -/

theorem readBody_ok (typ id clen plen : Nat) (rest : Bytes) :
    ∃ r rest', readBody typ id clen plen rest = .ok (r, rest') ∧
      (∀ rec, r = .ok rec → rest'.length ≤ rest.length) := by
  unfold readBody
  simp only
  split
  · exact ⟨_, _, rfl, by intro rec h; cases h⟩
  · rename_i hn
    rw [slice_ok (Nat.zero_le _) (by omega), sliceFrom_ok (by omega)]
    simp only
    rw [slice_ok (Nat.zero_le _) (by rw [List.length_drop, List.length_take]; omega)]
    exact ⟨_, _, rfl, by intro rec _; simp⟩

theorem headerFields_ok (h : Bytes) (hl : h.length = 8) : IsOk (headerFields h) := by
  unfold headerFields
  rw [idx_ok (by omega : 0 < h.length), idx_ok (by omega : 1 < h.length),
      be16_ok (by omega : 2 + 1 < h.length), be16_ok (by omega : 4 + 1 < h.length),
      idx_ok (by omega : 6 < h.length)]
  exact isOk_ok _

/-- `record.read` never faults, and a record it returns leaves strictly less input. -/
theorem readRecord_ok (inp : Bytes) :
    ∃ r rest, readRecord inp = .ok (r, rest) ∧ (∀ rec, r = .ok rec → rest.length < inp.length) := by
  unfold readRecord
  by_cases h0 : inp.length = 0
  · simp only [h0, if_true]; exact ⟨_, _, rfl, by intro rec h; cases h⟩
  · simp only [h0, if_false]
    by_cases h8 : inp.length < 8
    · simp only [h8, if_true]; exact ⟨_, _, rfl, by intro rec h; cases h⟩
    · simp only [h8, if_false]
      have h8' : 8 ≤ inp.length := by omega
      rw [slice_ok (Nat.zero_le _) h8', sliceFrom_ok h8']
      simp only
      obtain ⟨⟨ver, typ, id, clen, plen⟩, hf⟩ := headerFields_ok ((inp.take 8).drop 0) (by simp; omega)
      rw [hf]
      simp only
      split
      · exact ⟨_, _, rfl, by intro rec h; cases h⟩
      · split
        · exact ⟨_, _, rfl, by intro rec h; cases h⟩
        · obtain ⟨r, rest', hr, hle⟩ := readBody_ok typ id clen plen (inp.drop 8)
          refine ⟨r, rest', hr, ?_⟩
          intro rec hrec
          have := hle rec hrec
          simp only [List.length_drop] at this
          omega

theorem demuxFuel_ok : ∀ (fuel : Nat) (inp : Bytes), inp.length < fuel → IsOk (demuxFuel fuel inp) := by
  intro fuel
  induction fuel with
  | zero => intro inp h; omega
  | succ fuel ih =>
    intro inp h
    obtain ⟨r, rest, hr, hlt⟩ := readRecord_ok inp
    unfold demuxFuel
    rw [hr]
    cases r with
    | error e => exact isOk_ok _
    | ok rec =>
      simp only
      have := hlt rec rfl
      obtain ⟨d, hd⟩ := ih rest (by omega)
      rw [hd]
      simp only
      split <;> exact isOk_ok _

theorem demux_ok (inp : Bytes) : IsOk (demux inp) := demuxFuel_ok _ _ (Nat.lt_succ_self _)

theorem pairStep_ok (typ id : Nat) (st : BufW × Nat) (kv : Pair) : IsOk (pairStep typ id st kv) := by
  obtain ⟨w, nn⟩ := st
  obtain ⟨k, v⟩ := kv
  unfold pairStep
  simp only
  by_cases hm : 8 + k.length + v.length > maxWrite
  · simp only [hm, if_true]
    by_cases hvl : (maxWrite : Int) - 8 - (k.length : Int) < 0
    · simp only [hvl, if_true]; exact isOk_ok _
    · simp only [hvl, if_false]
      have hs : sliceInt v 0 ((maxWrite : Int) - 8 - (k.length : Int)) =
          .ok ((v.take ((maxWrite : Int) - 8 - (k.length : Int)).toNat).drop (0 : Int).toNat) := by
        unfold sliceInt
        have : (0 : Int) ≤ 0 ∧ (0 : Int) ≤ (maxWrite : Int) - 8 - (k.length : Int) ∧
            (maxWrite : Int) - 8 - (k.length : Int) ≤ (v.length : Int) := by
          refine ⟨Int.le_refl _, by omega, ?_⟩
          have : (8 + k.length + v.length : Nat) > maxWrite := hm
          omega
        simp only [this, and_self, if_true]
      rw [hs]
      exact isOk_ok _
  · simp only [hm, if_false]; exact isOk_ok _

theorem pairsLoop_ok (typ id : Nat) : ∀ (ps : List Pair) (st : BufW × Nat), IsOk (pairsLoop typ id ps st) := by
  intro ps
  induction ps with
  | nil => intro st; exact isOk_ok _
  | cons kv rest ih =>
    intro st
    obtain ⟨st', h⟩ := pairStep_ok typ id st kv
    unfold pairsLoop
    rw [h]
    exact ih st'

theorem writePairs_ok (typ id : Nat) (ps : List Pair) : IsOk (writePairs typ id ps) := by
  obtain ⟨⟨w, n⟩, h⟩ := pairsLoop_ok typ id ps ({}, 0)
  unfold writePairs
  rw [h]
  exact isOk_ok _

end Casket.FCGI
