import Casket.Model.Parser
/-
Environment placeholders are replaced by their values (C10): `{$NAME}` inside a token whose other bytes,
name and value are free of `{`.
-/
namespace Casket.Parser
open Casket.Lexer

theorem isPrefixOf_cons_ne {c b : UInt8} {pt t : Bytes} (h : b ≠ c) : (c :: pt).isPrefixOf (b :: t) = false := by
  simp only [List.isPrefixOf, Bool.and_eq_false_imp, beq_iff_eq]
  intro hcb; exact absurd hcb.symm h

/-- the first byte of the pattern does not occur: no match -/
theorem indexOfGo_none (c : UInt8) (pt s : Bytes) (i : Nat) (h : c ∉ s) : indexOfGo (c :: pt) s i = none := by
  induction s generalizing i with
  | nil => simp [indexOfGo]
  | cons b t ih =>
    have hb : b ≠ c := fun e => h (by simp [e])
    unfold indexOfGo
    rw [isPrefixOf_cons_ne hb]
    simp only [Bool.false_eq_true, if_false]
    exact ih _ (fun hm => h (List.mem_cons_of_mem _ hm))

/-- a prefix without the pattern's first byte is skipped -/
theorem indexOfGo_skip (c : UInt8) (pt pre rest : Bytes) (i : Nat) (h : c ∉ pre) :
    indexOfGo (c :: pt) (pre ++ rest) i = indexOfGo (c :: pt) rest (i + pre.length) := by
  induction pre generalizing i with
  | nil => simp
  | cons b t ih =>
    have hb : b ≠ c := fun e => h (by simp [e])
    simp only [List.cons_append]
    conv => lhs; unfold indexOfGo
    rw [isPrefixOf_cons_ne hb]
    simp only [Bool.false_eq_true, if_false]
    rw [ih _ (fun hm => h (List.mem_cons_of_mem _ hm))]
    simp only [List.length_cons]
    congr 1; omega

theorem indexOfGo_hit (pat rest : Bytes) (i : Nat) (hne : rest ≠ []) (h : pat.isPrefixOf rest = true) :
    indexOfGo pat rest i = some i := by
  cases rest with
  | nil => exact absurd rfl hne
  | cons b t => unfold indexOfGo; simp [h]

/-- `strings.Replace` leaves a prefix without the first byte of `old` alone -/
theorem replaceAllGo_pre (c : UInt8) (ot new pre rest : Bytes) (h : c ∉ pre) :
    replaceAllGo (c :: ot) new (pre ++ rest) 0 = pre ++ replaceAllGo (c :: ot) new rest 0 := by
  induction pre with
  | nil => simp
  | cons b t ih =>
    have hb : b ≠ c := fun e => h (by simp [e])
    simp only [List.cons_append]
    conv => lhs; unfold replaceAllGo
    rw [isPrefixOf_cons_ne hb]
    simp only [Nat.lt_irrefl, if_false, Bool.false_eq_true]
    rw [ih (fun hm => h (List.mem_cons_of_mem _ hm))]

theorem replaceAllGo_skip (old new x rest : Bytes) : replaceAllGo old new (x ++ rest) x.length = replaceAllGo old new rest 0 := by
  induction x with
  | nil => simp
  | cons b t ih =>
    simp only [List.cons_append, List.length_cons]
    conv => lhs; unfold replaceAllGo
    simp only [Nat.zero_lt_succ, if_true, Nat.add_sub_cancel]
    exact ih

theorem replaceAllGo_none (c : UInt8) (ot new s : Bytes) (h : c ∉ s) : replaceAllGo (c :: ot) new s 0 = s := by
  have := replaceAllGo_pre c ot new s [] h
  simpa [replaceAllGo] using this

/-- exactly one occurrence of `old = c :: ot`, between two stretches without `c` -/
theorem replaceAll_once (c : UInt8) (ot new pre post : Bytes) (h1 : c ∉ pre) (h2 : c ∉ post) :
    replaceAll (pre ++ (c :: ot) ++ post) (c :: ot) new = pre ++ new ++ post := by
  unfold replaceAll
  rw [List.append_assoc, replaceAllGo_pre c ot new pre _ h1]
  simp only [List.cons_append]
  conv => lhs; rhs; unfold replaceAllGo
  have hp : (c :: ot).isPrefixOf (c :: (ot ++ post)) = true := by simp [List.isPrefixOf]
  simp only [Nat.lt_irrefl, if_false, hp, if_true, List.length_cons, Nat.add_sub_cancel]
  rw [replaceAllGo_skip, replaceAllGo_none c ot new post h2]
  simp


/-- the text `pre{$name}post` -/
def dollarRef (pre name post : Bytes) : Bytes := pre ++ (0x7B :: 0x24 :: (name ++ 0x7D :: post))

theorem take_append_len (a b : Bytes) : (a ++ b).take a.length = a := by simp

/-- one `{$NAME}` in a token whose other bytes, name and value are free of `{` is replaced by the value -/
theorem replaceEnvVars_dollar (env : Env) (pre name post : Bytes) (fuel : Nat) (hfuel : 2 ≤ fuel)
    (h1 : (0x7B : UInt8) ∉ pre) (h2 : (0x7B : UInt8) ∉ name) (h3 : (0x7B : UInt8) ∉ post)
    (h4 : (0x7B : UInt8) ∉ getenv env name) (h5 : (0x7D : UInt8) ∉ name) (h6 : name ≠ []) :
    replaceEnvVars env fuel (dollarRef pre name post) = some (pre ++ getenv env name ++ post) := by
  obtain ⟨k, rfl⟩ : ∃ k, fuel = k + 2 := ⟨fuel - 2, by omega⟩
  have hrest7B : (0x7B : UInt8) ∉ (0x24 : UInt8) :: (name ++ 0x7D :: post) := by
    simp only [List.mem_cons, List.mem_append, not_or]
    exact ⟨by decide, h2, by decide, h3⟩
  -- the {% … %} pass finds nothing
  have hpct : indexOf (dollarRef pre name post) pctOpen = none := by
    unfold indexOf dollarRef pctOpen
    rw [indexOfGo_skip _ _ _ _ _ h1]
    unfold indexOfGo
    have : List.isPrefixOf [(0x7B : UInt8), 0x25] (0x7B :: 0x24 :: (name ++ 0x7D :: post)) = false := by
      simp [List.isPrefixOf]
    rw [this]
    simp only [Bool.false_eq_true, if_false]
    exact indexOfGo_none _ _ _ _ hrest7B
  -- the {$ … } pass
  have hidx : indexOf (dollarRef pre name post) dolOpen = some pre.length := by
    unfold indexOf dollarRef dolOpen
    rw [indexOfGo_skip _ _ _ _ _ h1]
    rw [indexOfGo_hit _ _ _ (by simp) (by simp [List.isPrefixOf])]
    simp
  have hdrop : (dollarRef pre name post).drop pre.length = 0x7B :: 0x24 :: (name ++ 0x7D :: post) := by
    unfold dollarRef; simp
  have hend : indexOf (0x7B :: 0x24 :: (name ++ 0x7D :: post)) dolClose = some (2 + name.length) := by
    unfold indexOf dolClose
    have hx : (0x7D : UInt8) ∉ (0x7B : UInt8) :: 0x24 :: name := by
      simp only [List.mem_cons, not_or]; exact ⟨by decide, by decide, h5⟩
    have e : (0x7B : UInt8) :: 0x24 :: (name ++ 0x7D :: post) = ((0x7B : UInt8) :: 0x24 :: name) ++ (0x7D :: post) := by simp
    rw [e, indexOfGo_skip _ _ _ _ _ hx, indexOfGo_hit _ _ _ (by simp) (by simp [List.isPrefixOf])]
    simp only [List.length_cons]; congr 1; omega
  have hnl : 0 < name.length := List.length_pos_iff.mpr h6
  have hgt : 2 + name.length > dolOpen.length := by unfold dolOpen; simp only [List.length_cons, List.length_nil]; omega
  have href : (0x7B :: 0x24 :: (name ++ 0x7D :: post) : Bytes).take (2 + name.length + dolClose.length) =
      0x7B :: 0x24 :: (name ++ [0x7D]) := by
    unfold dolClose
    have e : (0x7B : UInt8) :: 0x24 :: (name ++ 0x7D :: post) = ((0x7B : UInt8) :: 0x24 :: (name ++ [0x7D])) ++ post := by simp
    have l : 2 + name.length + [(0x7D : UInt8)].length = ((0x7B : UInt8) :: 0x24 :: (name ++ [0x7D])).length := by simp; omega
    rw [e, l, take_append_len]
  have hname : ((0x7B :: 0x24 :: (name ++ [0x7D]) : Bytes).drop dolOpen.length).take
      ((0x7B :: 0x24 :: (name ++ [0x7D]) : Bytes).length - dolOpen.length - dolClose.length) = name := by
    unfold dolOpen dolClose
    simp only [List.length_cons, List.length_nil, List.length_append, List.drop_succ_cons, List.drop_zero]
    have : name.length + (0 + 1) + 1 + 1 - (0 + 1 + 1) - (0 + 1) = name.length := by omega
    rw [this, take_append_len]
  have hrepl : replaceAll (dollarRef pre name post) (0x7B :: 0x24 :: (name ++ [0x7D])) (getenv env name) =
      pre ++ getenv env name ++ post := by
    have e : dollarRef pre name post = pre ++ (0x7B :: (0x24 :: (name ++ [0x7D]))) ++ post := by unfold dollarRef; simp
    rw [e]
    exact replaceAll_once 0x7B _ _ pre post h1 h3
  have hnone : indexOf (pre ++ getenv env name ++ post) dolOpen = none := by
    unfold indexOf dolOpen
    apply indexOfGo_none
    simp only [List.mem_append, not_or]
    exact ⟨⟨h1, h4⟩, h3⟩
  unfold replaceEnvVars
  have hp1 : replaceEnvRefs env pctOpen pctClose (k + 2) (dollarRef pre name post) = some (dollarRef pre name post) := by
    rw [replaceEnvRefs, hpct]
  rw [hp1]
  simp only
  rw [replaceEnvRefs, hidx]
  simp only [hdrop, hend, hgt, if_true, href, hname, hrepl]
  rw [replaceEnvRefs, hnone]


theorem indexOfGo_step (pat : Bytes) (b : UInt8) (t : Bytes) (i : Nat) (h : pat.isPrefixOf (b :: t) = false) :
    indexOfGo pat (b :: t) i = indexOfGo pat t (i + 1) := by
  conv => lhs; unfold indexOfGo
  simp only [h, Bool.false_eq_true, if_false]

/-- the text `pre{%name%}post` -/
def percentRef (pre name post : Bytes) : Bytes := pre ++ (0x7B :: 0x25 :: (name ++ 0x25 :: 0x7D :: post))

/-- one `{%NAME%}` in a token whose other bytes, name and value are free of `{` (and the name of `%` and `}`) is replaced by the value -/
theorem replaceEnvVars_percent (env : Env) (pre name post : Bytes) (fuel : Nat) (hfuel : 2 ≤ fuel)
    (h1 : (0x7B : UInt8) ∉ pre) (h2 : (0x7B : UInt8) ∉ name) (h3 : (0x7B : UInt8) ∉ post)
    (h4 : (0x7B : UInt8) ∉ getenv env name) (h5 : (0x7D : UInt8) ∉ name) (h5' : (0x25 : UInt8) ∉ name) (h6 : name ≠ []) :
    replaceEnvVars env fuel (percentRef pre name post) = some (pre ++ getenv env name ++ post) := by
  obtain ⟨k, rfl⟩ : ∃ k, fuel = k + 2 := ⟨fuel - 2, by omega⟩
  obtain ⟨n0, ns, rfl⟩ : ∃ n0 ns, name = n0 :: ns := by
    cases name with
    | nil => exact absurd rfl h6
    | cons a t => exact ⟨a, t, rfl⟩
  have hn0 : n0 ≠ 0x7D := fun e => h5 (by simp [e])
  have hidx : indexOf (percentRef pre (n0 :: ns) post) pctOpen = some pre.length := by
    unfold indexOf percentRef pctOpen
    rw [indexOfGo_skip _ _ _ _ _ h1]
    rw [indexOfGo_hit _ _ _ (by simp) (by simp [List.isPrefixOf])]
    simp
  have hdrop : (percentRef pre (n0 :: ns) post).drop pre.length = 0x7B :: 0x25 :: ((n0 :: ns) ++ 0x25 :: 0x7D :: post) := by
    unfold percentRef; simp
  have hend : indexOf (0x7B :: 0x25 :: ((n0 :: ns) ++ 0x25 :: 0x7D :: post)) pctClose = some (2 + (n0 :: ns).length) := by
    unfold indexOf pctClose
    rw [indexOfGo_step _ _ _ _ (by simp [List.isPrefixOf])]
    rw [indexOfGo_step _ _ _ _ (by simp [List.isPrefixOf]; exact fun e => hn0 e.symm)]
    rw [indexOfGo_skip _ _ _ _ _ h5']
    rw [indexOfGo_hit _ _ _ (by simp) (by simp [List.isPrefixOf])]
  have hgt : 2 + (n0 :: ns).length > pctOpen.length := by unfold pctOpen; simp only [List.length_cons, List.length_nil]; omega
  have href : (0x7B :: 0x25 :: ((n0 :: ns) ++ 0x25 :: 0x7D :: post) : Bytes).take (2 + (n0 :: ns).length + pctClose.length) =
      0x7B :: 0x25 :: ((n0 :: ns) ++ [0x25, 0x7D]) := by
    unfold pctClose
    have e : (0x7B : UInt8) :: 0x25 :: ((n0 :: ns) ++ 0x25 :: 0x7D :: post) = ((0x7B : UInt8) :: 0x25 :: ((n0 :: ns) ++ [0x25, 0x7D])) ++ post := by simp
    have l : 2 + (n0 :: ns).length + [(0x25 : UInt8), 0x7D].length = ((0x7B : UInt8) :: 0x25 :: ((n0 :: ns) ++ [0x25, 0x7D])).length := by
      simp; omega
    rw [e, l, take_append_len]
  have hname : ((0x7B :: 0x25 :: ((n0 :: ns) ++ [0x25, 0x7D]) : Bytes).drop pctOpen.length).take
      ((0x7B :: 0x25 :: ((n0 :: ns) ++ [0x25, 0x7D]) : Bytes).length - pctOpen.length - pctClose.length) = n0 :: ns := by
    unfold pctOpen pctClose
    simp only [List.length_cons, List.length_nil, List.length_append, List.drop_succ_cons, List.drop_zero]
    have : ns.length + 1 + (0 + 1 + 1) + 1 + 1 - (0 + 1 + 1) - (0 + 1 + 1) = (n0 :: ns).length := by simp
    rw [this, take_append_len]
  have hrepl : replaceAll (percentRef pre (n0 :: ns) post) (0x7B :: 0x25 :: ((n0 :: ns) ++ [0x25, 0x7D])) (getenv env (n0 :: ns)) =
      pre ++ getenv env (n0 :: ns) ++ post := by
    have e : percentRef pre (n0 :: ns) post = pre ++ (0x7B :: (0x25 :: ((n0 :: ns) ++ [0x25, 0x7D]))) ++ post := by
      unfold percentRef; simp
    rw [e]
    exact replaceAll_once 0x7B _ _ pre post h1 h3
  have hno7B : (0x7B : UInt8) ∉ pre ++ getenv env (n0 :: ns) ++ post := by
    simp only [List.mem_append, not_or]; exact ⟨⟨h1, h4⟩, h3⟩
  have hnone1 : indexOf (pre ++ getenv env (n0 :: ns) ++ post) pctOpen = none := by
    unfold indexOf pctOpen; exact indexOfGo_none _ _ _ _ hno7B
  have hnone2 : indexOf (pre ++ getenv env (n0 :: ns) ++ post) dolOpen = none := by
    unfold indexOf dolOpen; exact indexOfGo_none _ _ _ _ hno7B
  unfold replaceEnvVars
  have hp1 : replaceEnvRefs env pctOpen pctClose (k + 2) (percentRef pre (n0 :: ns) post) =
      some (pre ++ getenv env (n0 :: ns) ++ post) := by
    rw [replaceEnvRefs, hidx]
    simp only [hdrop, hend, hgt, if_true, href, hname, hrepl]
    rw [replaceEnvRefs, hnone1]
  rw [hp1]
  simp only
  rw [replaceEnvRefs, hnone2]

end Casket.Parser
