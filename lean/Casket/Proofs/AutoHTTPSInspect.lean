import Casket.Proofs.AutoHTTPSAddr
/-
Helper lemmas for Props/C15.lean, part: the duplicate bookkeeping of InspectServerBlocks ("duplicate site key",
"duplicate site address").  Core Lean only.
-/
set_option linter.unusedSimpArgs false
namespace Casket.AutoHTTPS
open Casket.Generated Casket.AutoHTTPSSpec

/-! ## the duplicate bookkeeping of InspectServerBlocks -/

/-- one step of inspectGo, in terms of `normalizedAddr`, `Address.key`, `Address.siteString` -/
theorem inspectGo_cons (k : Bytes) (rest keys strs : List Bytes) (acc : List Address) :
    inspectGo (k :: rest) keys strs acc =
      match standardizeAddress k with
      | .error e => .error e
      | .ok a0 =>
        if a0.normalize.key ∈ keys then .error .dupKey
        else if a0.normalize.siteString ∈ strs then .error .dupAddr
        else inspectGo rest (a0.normalize.key :: keys) (a0.normalize.siteString :: strs) (a0.normalize :: acc) := by
  conv => lhs; unfold inspectGo
  cases standardizeAddress k with
  | error e => rfl
  | ok a => simp [Address.siteString, Address.filled]

/-- ACCEPTED ⇒ the accepted addresses are the normalised addresses of the keys, in order; no key and no site string occurs
twice, nor was booked before. -/
theorem inspectGo_ok : ∀ (ks keys strs : List Bytes) (acc r : List Address),
    inspectGo ks keys strs acc = .ok r →
    ∃ as : List Address, r = acc.reverse ++ as ∧ ks.map normalizedAddr = as.map some ∧
      (as.map Address.key).Nodup ∧ (∀ a ∈ as, a.key ∉ keys) ∧
      (as.map Address.siteString).Nodup ∧ (∀ a ∈ as, a.siteString ∉ strs) := by
  intro ks
  induction ks with
  | nil =>
    intro keys strs acc r h
    simp only [inspectGo, Except.ok.injEq] at h
    exact ⟨[], by simp [h], rfl, by simp, by simp, by simp, by simp⟩
  | cons k rest ih =>
    intro keys strs acc r h
    rw [inspectGo_cons] at h
    cases hs : standardizeAddress k with
    | error e => simp [hs] at h
    | ok a0 =>
      simp only [hs] at h
      by_cases hk : a0.normalize.key ∈ keys
      · simp [hk] at h
      · simp only [hk, if_false] at h
        by_cases hst : a0.normalize.siteString ∈ strs
        · simp [hst] at h
        · simp only [hst, if_false] at h
          obtain ⟨as, hr, hmap, hkn, hkk, hsn, hss⟩ := ih _ _ _ _ h
          refine ⟨a0.normalize :: as, ?_, ?_, ?_, ?_, ?_, ?_⟩
          · rw [hr]; simp
          · simp [normalizedAddr, hs, hmap]
          · simp only [List.map_cons, List.nodup_cons]
            refine ⟨?_, hkn⟩
            intro hm
            obtain ⟨a, ha, hak⟩ := List.mem_map.mp hm
            exact hkk a ha (by rw [hak]; simp)
          · intro a ha
            rcases List.mem_cons.mp ha with rfl | ha
            · exact hk
            · intro hm; exact hkk a ha (by simp [hm])
          · simp only [List.map_cons, List.nodup_cons]
            refine ⟨?_, hsn⟩
            intro hm
            obtain ⟨a, ha, hak⟩ := List.mem_map.mp hm
            exact hss a ha (by rw [hak]; simp)
          · intro a ha
            rcases List.mem_cons.mp ha with rfl | ha
            · exact hst
            · intro hm; exact hss a ha (by simp [hm])

/-- …and conversely: keys that all standardise, with pairwise different normalised keys and site strings (none booked
before), are accepted. -/
theorem inspectGo_accepts : ∀ (ks keys strs : List Bytes) (acc as : List Address),
    ks.map normalizedAddr = as.map some →
    (as.map Address.key).Nodup → (∀ a ∈ as, a.key ∉ keys) →
    (as.map Address.siteString).Nodup → (∀ a ∈ as, a.siteString ∉ strs) →
    inspectGo ks keys strs acc = .ok (acc.reverse ++ as) := by
  intro ks
  induction ks with
  | nil =>
    intro keys strs acc as hmap _ _ _ _
    have : as = [] := by cases as <;> simp_all
    simp [inspectGo, this]
  | cons k rest ih =>
    intro keys strs acc as hmap hkn hkk hsn hss
    cases as with
    | nil => simp at hmap
    | cons a as' =>
      simp only [List.map_cons, List.cons.injEq] at hmap
      obtain ⟨hk0, hrest⟩ := hmap
      unfold normalizedAddr at hk0
      cases hs : standardizeAddress k with
      | error e => simp [hs] at hk0
      | ok a0 =>
        simp only [hs, Option.some.injEq] at hk0
        rw [inspectGo_cons]
        simp only [hs, hk0]
        have h1 : a.key ∉ keys := hkk a (by simp)
        have h2 : a.siteString ∉ strs := hss a (by simp)
        simp only [h1, h2, if_false]
        simp only [List.map_cons, List.nodup_cons] at hkn hsn
        have := ih (a.key :: keys) (a.siteString :: strs) (a :: acc) as' hrest hkn.2
          (by intro b hb hm
              rcases List.mem_cons.mp hm with h | h
              · exact hkn.1 (List.mem_map.mpr ⟨b, hb, h⟩)
              · exact hkk b (by simp [hb]) h)
          hsn.2
          (by intro b hb hm
              rcases List.mem_cons.mp hm with h | h
              · exact hsn.1 (List.mem_map.mpr ⟨b, hb, h⟩)
              · exact hss b (by simp [hb]) h)
        rw [this]; simp

theorem map_some_inj : ∀ (a b : List Address), a.map some = b.map some → a = b := by
  intro a
  induction a with
  | nil => intro b h; cases b <;> simp_all
  | cons x t ih =>
    intro b h
    cases b with
    | nil => simp at h
    | cons y t' =>
      simp only [List.map_cons, List.cons.injEq, Option.some.injEq] at h
      rw [h.1, ih t' h.2]

/-- the normalised addresses of the keys that standardise -/
def normalizedAddrs (ks : List Bytes) : List Address := ks.filterMap normalizedAddr

theorem map_normalized_of_all (ks : List Bytes) (hall : ∀ k ∈ ks, (normalizedAddr k).isSome = true) :
    ks.map normalizedAddr = (normalizedAddrs ks).map some := by
  induction ks with
  | nil => rfl
  | cons k rest ih =>
    have hk := hall k (by simp)
    cases hn : normalizedAddr k with
    | none => simp [hn] at hk
    | some a =>
      simp only [normalizedAddrs, List.map_cons, hn, List.filterMap_cons, List.cons.injEq, true_and]
      exact ih (fun k' hk' => hall k' (by simp [hk']))

/-- REJECTED ⇒ the reported reason is real: a `duplicate site key` error means two keys (or a key and an earlier booking)
coincide, a `duplicate site address` error means two site strings coincide. -/
theorem inspectGo_error : ∀ (ks keys strs : List Bytes) (acc : List Address) (e : AddrErr),
    (∀ k ∈ ks, (normalizedAddr k).isSome = true) → inspectGo ks keys strs acc = .error e →
    (e = .dupKey ∧ ¬ (((normalizedAddrs ks).map Address.key).Nodup ∧ ∀ a ∈ normalizedAddrs ks, a.key ∉ keys)) ∨
    (e = .dupAddr ∧ ¬ (((normalizedAddrs ks).map Address.siteString).Nodup ∧ ∀ a ∈ normalizedAddrs ks, a.siteString ∉ strs)) := by
  intro ks
  induction ks with
  | nil => intro keys strs acc e _ h; simp [inspectGo] at h
  | cons k rest ih =>
    intro keys strs acc e hall h
    rw [inspectGo_cons] at h
    have hk := hall k (by simp)
    unfold normalizedAddr at hk
    cases hs : standardizeAddress k with
    | error e' => simp [hs] at hk
    | ok a0 =>
      have hn : normalizedAddr k = some a0.normalize := by simp [normalizedAddr, hs]
      have hnas : normalizedAddrs (k :: rest) = a0.normalize :: normalizedAddrs rest := by
        simp [normalizedAddrs, hn]
      simp only [hs] at h
      rw [hnas]
      by_cases hkk : a0.normalize.key ∈ keys
      · simp only [hkk, if_true, Except.error.injEq] at h
        left; refine ⟨h.symm, ?_⟩
        intro ⟨_, hno⟩; exact hno _ (by simp) hkk
      · simp only [hkk, if_false] at h
        by_cases hst : a0.normalize.siteString ∈ strs
        · simp only [hst, if_true, Except.error.injEq] at h
          right; refine ⟨h.symm, ?_⟩
          intro ⟨_, hno⟩; exact hno _ (by simp) hst
        · simp only [hst, if_false] at h
          rcases ih _ _ _ e (fun k' hk' => hall k' (by simp [hk'])) h with ⟨he, hbad⟩ | ⟨he, hbad⟩
          · left; refine ⟨he, ?_⟩
            intro ⟨hnd, hno⟩
            simp only [List.map_cons, List.nodup_cons] at hnd
            apply hbad
            refine ⟨hnd.2, ?_⟩
            intro a ha hm
            rcases List.mem_cons.mp hm with h1 | h1
            · exact hnd.1 (List.mem_map.mpr ⟨a, ha, h1⟩)
            · exact hno a (by simp [ha]) h1
          · right; refine ⟨he, ?_⟩
            intro ⟨hnd, hno⟩
            simp only [List.map_cons, List.nodup_cons] at hnd
            apply hbad
            refine ⟨hnd.2, ?_⟩
            intro a ha hm
            rcases List.mem_cons.mp hm with h1 | h1
            · exact hnd.1 (List.mem_map.mpr ⟨a, ha, h1⟩)
            · exact hno a (by simp [ha]) h1

/-- InspectServerBlocks ACCEPTS a list of site addresses exactly when each standardises and no two of them have the same
normalised key or the same site string; the accepted configs are the normalised addresses in order. -/
theorem inspect_ok_iff (ks : List Bytes) (as : List Address) :
    inspect ks = .ok as ↔
      ks.map normalizedAddr = as.map some ∧ (as.map Address.key).Nodup ∧ (as.map Address.siteString).Nodup := by
  unfold inspect
  constructor
  · intro h
    obtain ⟨as', hr, hmap, hk, _, hs, _⟩ := inspectGo_ok ks [] [] [] as h
    simp only [List.reverse_nil, List.nil_append] at hr
    subst hr
    exact ⟨hmap, hk, hs⟩
  · intro ⟨hmap, hk, hs⟩
    have := inspectGo_accepts ks [] [] [] as hmap hk (by simp) hs (by simp)
    simpa using this

/-- For addresses that all standardise: REJECTED AS DUPLICATES ⇔ two normalised keys or two site strings are equal;
and the error names the kind of clash that exists. -/
theorem inspect_duplicates_iff (ks : List Bytes) (hall : ∀ k ∈ ks, (normalizedAddr k).isSome = true) :
    ((∃ as, inspect ks = .ok as) ↔
      ((normalizedAddrs ks).map Address.key).Nodup ∧ ((normalizedAddrs ks).map Address.siteString).Nodup) ∧
    (∀ e, inspect ks = .error e →
      (e = .dupKey ∧ ¬ ((normalizedAddrs ks).map Address.key).Nodup) ∨
      (e = .dupAddr ∧ ¬ ((normalizedAddrs ks).map Address.siteString).Nodup)) := by
  have hmap := map_normalized_of_all ks hall
  refine ⟨⟨?_, ?_⟩, ?_⟩
  · rintro ⟨as, h⟩
    obtain ⟨hm, hk, hs⟩ := (inspect_ok_iff ks as).mp h
    have : as = normalizedAddrs ks := by
      have h2 := hm.symm.trans hmap
      exact map_some_inj _ _ h2
    subst this; exact ⟨hk, hs⟩
  · intro ⟨hk, hs⟩
    exact ⟨_, (inspect_ok_iff ks _).mpr ⟨hmap, hk, hs⟩⟩
  · intro e he
    unfold inspect at he
    rcases inspectGo_error ks [] [] [] e hall he with ⟨h1, h2⟩ | ⟨h1, h2⟩
    · left; exact ⟨h1, fun hn => h2 ⟨hn, by simp⟩⟩
    · right; exact ⟨h1, fun hn => h2 ⟨hn, by simp⟩⟩

end Casket.AutoHTTPS
