import Casket.Model.Lifecycle
import Casket.Spec.Lifecycle
set_option linter.unusedSimpArgs false
/-
Helper lemmas for C16: closed forms of the loops of the lifecycle model, order and
counting facts about the event lists they produce.
-/
namespace Casket.Lifecycle
open Casket.LifecycleSpec

/-! ### order of events -/

def Ord (E : List Event) : Prop := E.Pairwise fun a b => phase a ≤ phase b
def Le (E : List Event) (p : Nat) : Prop := ∀ e ∈ E, phase e ≤ p
def Ge (E : List Event) (p : Nat) : Prop := ∀ e ∈ E, p ≤ phase e

theorem ord_append {A B : List Event} {p : Nat} (ha : Ord A) (hb : Ord B) (hl : Le A p) (hg : Ge B p) :
    Ord (A ++ B) :=
  List.pairwise_append.mpr ⟨ha, hb, fun a haA b hbB => Nat.le_trans (hl a haA) (hg b hbB)⟩

theorem le_append {A B : List Event} {p : Nat} (ha : Le A p) (hb : Le B p) : Le (A ++ B) p := by
  intro e he
  rcases List.mem_append.mp he with h | h
  · exact ha e h
  · exact hb e h

theorem ge_append {A B : List Event} {p : Nat} (ha : Ge A p) (hb : Ge B p) : Ge (A ++ B) p := by
  intro e he
  rcases List.mem_append.mp he with h | h
  · exact ha e h
  · exact hb e h

theorem le_mono {A : List Event} {p q : Nat} (h : Le A p) (hpq : p ≤ q) : Le A q :=
  fun e he => Nat.le_trans (h e he) hpq

theorem ge_mono {A : List Event} {p q : Nat} (h : Ge A q) (hpq : p ≤ q) : Ge A p :=
  fun e he => Nat.le_trans hpq (h e he)

theorem ord_const {E : List Event} {p : Nat} (h : ∀ e ∈ E, phase e = p) : Ord E := by
  induction E with
  | nil => exact List.Pairwise.nil
  | cons a l ih =>
    refine List.pairwise_cons.mpr ⟨?_, ih (fun e he => h e (List.mem_cons_of_mem _ he))⟩
    intro b hb
    rw [h a List.mem_cons_self, h b (List.mem_cons_of_mem _ hb)]
    exact Nat.le_refl _

theorem le_const {E : List Event} {p : Nat} (h : ∀ e ∈ E, phase e = p) : Le E p :=
  fun e he => Nat.le_of_eq (h e he)
theorem ge_const {E : List Event} {p : Nat} (h : ∀ e ∈ E, phase e = p) : Ge E p :=
  fun e he => Nat.le_of_eq (h e he).symm

theorem ord_nil : Ord [] := List.Pairwise.nil
theorem le_nil (p : Nat) : Le [] p := fun _ h => nomatch h
theorem ge_nil (p : Nat) : Ge [] p := fun _ h => nomatch h

/-! ### the callback lists -/

theorem ord_cbs (k : CB) (g : Nat) : Ord (cbs k g) := by
  cases k <;> simp [Ord, cbs, phase, rank, sub]

theorem le_cbs (k : CB) (g : Nat) : Le (cbs k g) (2 * rank (.cb k g 0) + 1) := by
  intro e he
  simp only [cbs, List.mem_cons, List.not_mem_nil, or_false] at he
  rcases he with rfl | rfl <;> cases k <;> simp [phase, rank, sub]

theorem ge_cbs (k : CB) (g : Nat) : Ge (cbs k g) (2 * rank (.cb k g 0)) := by
  intro e he
  simp only [cbs, List.mem_cons, List.not_mem_nil, or_false] at he
  rcases he with rfl | rfl <;> cases k <;> simp [phase, rank, sub]

theorem ord_runCbs (k : CB) (g : Nat) (err : Bool) : Ord (runCbs k g err).1 := by
  cases err
  · exact ord_cbs k g
  · simp [runCbs, Ord]

theorem le_runCbs (k : CB) (g : Nat) (err : Bool) : Le (runCbs k g err).1 (2 * rank (.cb k g 0) + 1) := by
  cases err
  · exact le_cbs k g
  · intro e he
    simp only [runCbs, if_true, List.mem_cons, List.not_mem_nil, or_false] at he
    subst he; cases k <;> simp [phase, rank, sub]

theorem ge_runCbs (k : CB) (g : Nat) (err : Bool) : Ge (runCbs k g err).1 (2 * rank (.cb k g 0)) := by
  cases err
  · exact ge_cbs k g
  · intro e he
    simp only [runCbs, if_true, List.mem_cons, List.not_mem_nil, or_false] at he
    subst he; cases k <;> simp [phase, rank, sub]

theorem runCbs_ok {k : CB} {g : Nat} {err : Bool} (h : (runCbs k g err).2 = true) :
    err = false ∧ (runCbs k g err).1 = cbs k g := by
  cases err <;> simp_all [runCbs]

/-! ### the listen loop -/

theorem listenLoop_mem {g : Nat} {fds : List Nat} {e : Event} :
    ∀ {l : List Srv} {k : Nat}, e ∈ (listenLoop g fds k l).1 →
      ∃ j, k ≤ j ∧ j < k + l.length ∧ (e = .listen g j ∨ e = .inherit g j) := by
  intro l
  induction l with
  | nil => intro k h; simp [listenLoop] at h
  | cons s rest ih =>
    intro k h
    unfold listenLoop at h
    split at h
    · rcases List.mem_cons.mp h with h | h
      · exact ⟨k, Nat.le_refl _, by simp, Or.inr h⟩
      · obtain ⟨j, h1, h2, h3⟩ := ih h
        exact ⟨j, by omega, by simp only [List.length_cons]; omega, h3⟩
    · split at h
      · simp at h
      · rcases List.mem_cons.mp h with h | h
        · exact ⟨k, Nat.le_refl _, by simp, Or.inl h⟩
        · obtain ⟨j, h1, h2, h3⟩ := ih h
          exact ⟨j, by omega, by simp only [List.length_cons]; omega, h3⟩

theorem phase_listenLoop {g : Nat} {fds : List Nat} {l : List Srv} {k : Nat} {e : Event}
    (h : e ∈ (listenLoop g fds k l).1) : phase e = 6 := by
  obtain ⟨j, _, _, rfl | rfl⟩ := listenLoop_mem h <;> rfl

theorem listenLoop_nodup {g : Nat} {fds : List Nat} :
    ∀ {l : List Srv} {k : Nat}, (listenLoop g fds k l).1.Nodup := by
  intro l
  induction l with
  | nil => intro k; simp [listenLoop]
  | cons s rest ih =>
    intro k
    unfold listenLoop
    split
    · refine List.nodup_cons.mpr ⟨?_, ih⟩
      intro h
      obtain ⟨j, h1, _, h3⟩ := listenLoop_mem h
      rcases h3 with h3 | h3 <;> injection h3 <;> omega
    · split
      · simp
      · refine List.nodup_cons.mpr ⟨?_, ih⟩
        intro h
        obtain ⟨j, h1, _, h3⟩ := listenLoop_mem h
        rcases h3 with h3 | h3 <;> injection h3 <;> omega

/-- when no `Listen` fails, every server listens or inherits, in order -/
theorem listenLoop_ok {g : Nat} {fds : List Nat} :
    ∀ {l : List Srv} {k : Nat}, (listenLoop g fds k l).2 = true →
      (listenLoop g fds k l).1.map norm = (List.range' k l.length).map (.listen g) := by
  intro l
  induction l with
  | nil => intro k _; simp [listenLoop]
  | cons s rest ih =>
    intro k h
    unfold listenLoop at h ⊢
    split
    · rename_i hc
      simp only [hc, if_true] at h
      simp only [List.map_cons, List.length_cons, List.range'_succ, norm]
      rw [ih h]
    · rename_i hc
      simp only [hc] at h
      split
      · rename_i hf; simp [hf] at h
      · rename_i hf
        simp only [hf] at h
        simp only [List.map_cons, List.length_cons, List.range'_succ, norm]
        rw [ih (by simpa using h)]

theorem serves_eq (g n : Nat) : serves g n = servesOf g n := rfl

theorem phase_serves {g n : Nat} {e : Event} (h : e ∈ serves g n) : phase e = 8 := by
  simp only [serves, List.mem_map] at h
  obtain ⟨k, _, rfl⟩ := h; rfl

/-! ### the stop loop -/

theorem stopLoop_eq (g : Nat) : ∀ (l : List Srv) (k : Nat),
    stopLoop g k l = ((l.zipIdx k).filter fun p => p.1.graceful).map fun p => .stop g p.2 := by
  intro l
  induction l with
  | nil => intro k; rfl
  | cons s rest ih =>
    intro k
    simp only [stopLoop, List.zipIdx_cons, List.filter_cons]
    cases hs : s.graceful <;> simp [ih]

theorem stopEvents_eq (i : Inst) : stopEvents i = stopsOf i := by
  simp [stopEvents, stopsOf, stopLoop_eq]

theorem phase_stopLoop {g : Nat} {e : Event} : ∀ {l : List Srv} {k : Nat}, e ∈ stopLoop g k l → phase e = 10 := by
  intro l k h
  rw [stopLoop_eq] at h
  simp only [List.mem_map] at h
  obtain ⟨p, _, rfl⟩ := h; rfl

theorem stopLoop_length (g : Nat) : ∀ (l : List Srv) (k : Nat),
    (stopLoop g k l).length = (l.filter Srv.graceful).length := by
  intro l
  induction l with
  | nil => intro k; rfl
  | cons s rest ih =>
    intro k
    simp only [stopLoop, List.filter_cons]
    cases hs : s.graceful <;> simp [ih]

/-! ### blocks: ordered, duplicate-free, one generation, phases within bounds -/

structure Blk (g lo hi : Nat) (E : List Event) : Prop where
  ord : Ord E
  nodup : E.Nodup
  ge : Ge E lo
  le : Le E hi
  gen : ∀ e ∈ E, genOf e = g

theorem blk_nil (g lo hi : Nat) : Blk g lo hi [] :=
  ⟨ord_nil, List.nodup_nil, ge_nil _, le_nil _, fun _ h => nomatch h⟩

theorem blk_append {g lo hi a2 b1 : Nat} {A B : List Event} (ha : Blk g lo a2 A) (hb : Blk g b1 hi B)
    (h : a2 < b1) (h1 : lo ≤ b1) (h2 : a2 ≤ hi) : Blk g lo hi (A ++ B) := by
  refine ⟨ord_append ha.ord hb.ord ha.le (ge_mono hb.ge (Nat.le_of_lt h)), ?_, ge_append ha.ge (ge_mono hb.ge h1),
    le_append (le_mono ha.le h2) hb.le, ?_⟩
  · refine List.nodup_append.mpr ⟨ha.nodup, hb.nodup, ?_⟩
    intro a haA b hbB hab
    have := ha.le a haA
    have := hb.ge b hbB
    subst hab; omega
  · intro e he
    rcases List.mem_append.mp he with h | h
    · exact ha.gen e h
    · exact hb.gen e h

theorem blk_cbs (k : CB) (g : Nat) : Blk g (2 * rank (.cb k g 0)) (2 * rank (.cb k g 0) + 1) (cbs k g) := by
  refine ⟨ord_cbs k g, ?_, ge_cbs k g, le_cbs k g, ?_⟩
  · simp [cbs]
  · intro e he
    simp only [cbs, List.mem_cons, List.not_mem_nil, or_false] at he
    rcases he with rfl | rfl <;> rfl

theorem blk_runCbs (k : CB) (g : Nat) (err : Bool) :
    Blk g (2 * rank (.cb k g 0)) (2 * rank (.cb k g 0) + 1) (runCbs k g err).1 := by
  cases err
  · exact blk_cbs k g
  · refine ⟨ord_runCbs k g true, by simp [runCbs], ge_runCbs k g true, le_runCbs k g true, ?_⟩
    intro e he
    simp only [runCbs, if_true, List.mem_cons, List.not_mem_nil, or_false] at he
    subst he; rfl

theorem blk_listenLoop (g : Nat) (fds : List Nat) (k : Nat) (l : List Srv) : Blk g 6 6 (listenLoop g fds k l).1 := by
  refine ⟨ord_const (fun e he => phase_listenLoop he), listenLoop_nodup, ge_const (fun e he => phase_listenLoop he),
    le_const (fun e he => phase_listenLoop he), ?_⟩
  intro e he
  obtain ⟨j, _, _, rfl | rfl⟩ := listenLoop_mem he <;> rfl

theorem blk_serves (g n : Nat) : Blk g 8 8 (serves g n) := by
  refine ⟨ord_const (fun e he => phase_serves he), ?_, ge_const (fun e he => phase_serves he),
    le_const (fun e he => phase_serves he), ?_⟩
  · unfold serves
    refine List.pairwise_map.mpr (List.Pairwise.imp ?_ List.nodup_range)
    intro a b hab h; injection h with _ h; exact hab h
  · intro e he
    simp only [serves, List.mem_map] at he
    obtain ⟨k, _, rfl⟩ := he; rfl

theorem andThen_blk {g lo hi a2 b1 : Nat} {a b : List Event × Bool} (ha : Blk g lo a2 a.1) (hb : Blk g b1 hi b.1)
    (h : a2 < b1) (h1 : lo ≤ b1) (h2 : a2 ≤ hi) : Blk g lo hi (andThen a b).1 := by
  by_cases h3 : a.2 = true
  · simp only [andThen, h3, if_true]
    exact blk_append ha hb h h1 h2
  · simp only [andThen, h3, if_false]
    exact ⟨ha.ord, ha.nodup, ha.ge, le_mono ha.le h2, ha.gen⟩

theorem andThen_ok {a b : List Event × Bool} (h : (andThen a b).2 = true) :
    a.2 = true ∧ b.2 = true ∧ (andThen a b).1 = a.1 ++ b.1 := by
  by_cases ha : a.2 = true
  · have e : andThen a b = (a.1 ++ b.1, b.2) := by simp [andThen, ha]
    rw [e] at h ⊢
    exact ⟨ha, h, rfl⟩
  · simp only [andThen, ha, if_false] at h
    exact absurd h ha

theorem andThen_fail {P : Event → Prop} {a b : List Event × Bool} (ha : ∀ e ∈ a.1, P e)
    (hb : b.2 = false → ∀ e ∈ b.1, P e) (h : (andThen a b).2 = false) : ∀ e ∈ (andThen a b).1, P e := by
  by_cases h2 : a.2 = true
  · simp only [andThen, h2, if_true] at h ⊢
    intro e he
    rcases List.mem_append.mp he with h' | h'
    · exact ha e h'
    · exact hb h e h'
  · simp only [andThen, h2, if_false]
    exact ha

theorem load_blk (g : Nat) (c : Cfg) (r : Bool) (fds : List Nat) :
    Blk g (if r then 4 else 0) 8 (load g c r fds).1 := by
  by_cases hc : c.fail = .parse ∨ c.fail = .setup ∨ c.fail = .make
  · simp only [load, hc, if_true]
    exact blk_nil _ _ _
  · simp only [load, hc, if_false]
    have h3 : Blk g 6 8 (andThen (listenLoop g fds 0 c.servers) (serves g c.servers.length, true)).1 :=
      andThen_blk (blk_listenLoop g fds 0 c.servers) (blk_serves g _) (by omega) (by omega) (by omega)
    have h2 : Blk g 4 8 (andThen (runCbs .su g (c.fail == .startup))
        (andThen (listenLoop g fds 0 c.servers) (serves g c.servers.length, true))).1 :=
      andThen_blk (blk_runCbs .su g _) h3 (by simp [rank]) (by simp [rank]) (by simp [rank])
    cases r
    · simp only [Bool.false_eq_true, if_false]
      exact andThen_blk (blk_runCbs .fs g _) h2 (by simp [rank]) (by simp [rank]) (by simp [rank])
    · simp only [if_true]
      exact andThen_blk (a := ([], true)) (blk_nil g 4 3) h2 (by omega) (by omega) (by omega)

theorem load_ok {g : Nat} {c : Cfg} {r : Bool} {fds : List Nat} (h : (load g c r fds).2 = true) :
    (listenLoop g fds 0 c.servers).2 = true ∧
    (load g c r fds).1 = (if r then [] else cbs .fs g) ++ cbs .su g ++ (listenLoop g fds 0 c.servers).1
                          ++ serves g c.servers.length := by
  by_cases hc : c.fail = .parse ∨ c.fail = .setup ∨ c.fail = .make
  · simp [load, hc] at h
  · simp only [load, hc, if_false] at h ⊢
    obtain ⟨h1, h2, e1⟩ := andThen_ok h
    obtain ⟨h3, h4, e2⟩ := andThen_ok h2
    obtain ⟨h5, _, e3⟩ := andThen_ok h4
    refine ⟨h5, ?_⟩
    rw [e1, e2, e3, (runCbs_ok h3).2]
    cases r
    · simp only [Bool.false_eq_true, if_false] at h1 ⊢
      rw [(runCbs_ok h1).2]; simp [List.append_assoc]
    · simp [List.append_assoc]

/-- a load that fails emits only first-startup/startup/listen events of the new instance: it never serves -/
theorem load_fail_allowed {g : Nat} {c : Cfg} {r : Bool} {fds : List Nat} (h : (load g c r fds).2 = false) :
    ∀ e ∈ (load g c r fds).1, allowedLoading g c.servers.length r e = true := by
  by_cases hc : c.fail = .parse ∨ c.fail = .setup ∨ c.fail = .make
  · intro e he; simp [load, hc] at he
  · simp only [load, hc, if_false] at h ⊢
    refine andThen_fail ?_ (fun h2 => andThen_fail ?_ (fun h3 => andThen_fail ?_ ?_ h3) h2) h
    · intro e he
      cases r
      · simp only [Bool.false_eq_true, if_false] at he
        have := (blk_runCbs .fs g (c.fail == .first)).gen e he
        cases hx : (c.fail == Stage.first) <;> simp [hx, runCbs, cbs] at he <;>
          (try rcases he with rfl | rfl) <;> (try subst he) <;> simp [allowedLoading]
      · simp at he
    · intro e he
      cases hx : (c.fail == Stage.startup) <;> simp [hx, runCbs, cbs] at he <;>
        (try rcases he with rfl | rfl) <;> (try subst he) <;> simp [allowedLoading]
    · intro e he
      obtain ⟨j, _, hj, rfl | rfl⟩ := listenLoop_mem he <;> simp [allowedLoading] <;> omega
    · intro h; simp at h


/-! ### blocks of several generations -/

structure PBlk (lo hi : Nat) (E : List Event) : Prop where
  ord : Ord E
  nodup : E.Nodup
  ge : Ge E lo
  le : Le E hi

theorem Blk.p {g lo hi : Nat} {E : List Event} (h : Blk g lo hi E) : PBlk lo hi E := ⟨h.ord, h.nodup, h.ge, h.le⟩

theorem pblk_append {lo hi a2 b1 : Nat} {A B : List Event} (ha : PBlk lo a2 A) (hb : PBlk b1 hi B)
    (h : a2 < b1) (h1 : lo ≤ b1) (h2 : a2 ≤ hi) : PBlk lo hi (A ++ B) := by
  refine ⟨ord_append ha.ord hb.ord ha.le (ge_mono hb.ge (Nat.le_of_lt h)), ?_, ge_append ha.ge (ge_mono hb.ge h1),
    le_append (le_mono ha.le h2) hb.le⟩
  refine List.nodup_append.mpr ⟨ha.nodup, hb.nodup, ?_⟩
  intro a haA b hbB hab
  have := ha.le a haA
  have := hb.ge b hbB
  subst hab; omega

theorem stopLoop_mem {g : Nat} {e : Event} : ∀ {l : List Srv} {k : Nat}, e ∈ stopLoop g k l →
    ∃ j, k ≤ j ∧ j < k + l.length ∧ e = .stop g j := by
  intro l
  induction l with
  | nil => intro k h; simp [stopLoop] at h
  | cons s rest ih =>
    intro k h
    unfold stopLoop at h
    split at h
    · rcases List.mem_cons.mp h with h | h
      · exact ⟨k, Nat.le_refl _, by simp, h⟩
      · obtain ⟨j, h1, h2, h3⟩ := ih h
        exact ⟨j, by omega, by simp only [List.length_cons]; omega, h3⟩
    · obtain ⟨j, h1, h2, h3⟩ := ih h
      exact ⟨j, by omega, by simp only [List.length_cons]; omega, h3⟩

theorem stopLoop_nodup (g : Nat) : ∀ (l : List Srv) (k : Nat), (stopLoop g k l).Nodup := by
  intro l
  induction l with
  | nil => intro k; simp [stopLoop]
  | cons s rest ih =>
    intro k
    unfold stopLoop
    split
    · refine List.nodup_cons.mpr ⟨?_, ih _⟩
      intro h
      obtain ⟨j, h1, _, h3⟩ := stopLoop_mem h
      injection h3; omega
    · exact ih _

theorem pblk_stopEvents (o : Inst) : PBlk 10 10 (stopEvents o) :=
  ⟨ord_const (fun _ he => phase_stopLoop he), stopLoop_nodup _ _ _, ge_const (fun _ he => phase_stopLoop he),
   le_const (fun _ he => phase_stopLoop he)⟩

theorem gen_stopEvents {o : Inst} {e : Event} (h : e ∈ stopEvents o) : genOf e = o.gen := by
  obtain ⟨j, _, _, rfl⟩ := stopLoop_mem h; rfl

/-! ### `norm` on the model's event lists -/

theorem map_norm_cbs (k : CB) (g : Nat) : (cbs k g).map norm = cbs k g := rfl

theorem map_norm_serves (g n : Nat) : (serves g n).map norm = servesOf g n := by
  simp [serves, servesOf, List.map_map, Function.comp_def, norm]

theorem map_norm_stopEvents (o : Inst) : (stopEvents o).map norm = stopsOf o := by
  rw [stopEvents_eq]
  simp [stopsOf, List.map_map, Function.comp_def, norm]

theorem map_norm_listen {g : Nat} {fds : List Nat} {l : List Srv} (h : (listenLoop g fds 0 l).2 = true) :
    (listenLoop g fds 0 l).1.map norm = listens g l.length := by
  rw [listenLoop_ok h, listens, List.range_eq_range']

theorem ordered_iff (E : List Event) : ordered E = true ↔ Ord E := by
  simp [ordered, Ord]

/-! ### the segment laws hold for every step of the model -/

theorem startOk_load {g : Nat} {c : Cfg} (h : (load g c false []).2 = true) :
    startOk g c (load g c false []).1 = true := by
  obtain ⟨hl, he⟩ := load_ok h
  simp only [startOk, Bool.and_eq_true, ordered_iff]
  refine ⟨(load_blk g c false []).ord, ?_⟩
  rw [he]
  simp only [Bool.false_eq_true, if_false, List.map_append, map_norm_cbs, map_norm_serves, map_norm_listen hl]
  exact List.isPerm_iff.mpr (List.Perm.refl _)

theorem startErr_load {g : Nat} {c : Cfg} (h : (load g c false []).2 = false) :
    startErr g c (load g c false []).1 = true := by
  simp only [startErr, Bool.and_eq_true, ordered_iff, decide_eq_true_eq, List.all_eq_true]
  exact ⟨⟨(load_blk g c false []).ord, (load_blk g c false []).nodup⟩, load_fail_allowed h⟩


theorem restartOk_step {o : Inst} {g : Nat} {c : Cfg} (h : (load g c true (restartFds o)).2 = true) :
    restartOk o g c (cbs .rs o.gen ++ (load g c true (restartFds o)).1 ++ stopEvents o ++ cbs .sd o.gen) = true := by
  obtain ⟨hl, he⟩ := load_ok h
  simp only [restartOk, Bool.and_eq_true, ordered_iff]
  constructor
  · have h1 : PBlk 2 8 (cbs .rs o.gen ++ (load g c true (restartFds o)).1) :=
      pblk_append (blk_cbs .rs o.gen).p (load_blk g c true _).p (by simp [rank]) (by simp [rank]) (by simp [rank])
    have h2 : PBlk 2 10 (cbs .rs o.gen ++ (load g c true (restartFds o)).1 ++ stopEvents o) :=
      pblk_append h1 (pblk_stopEvents o) (by omega) (by omega) (by omega)
    exact (pblk_append h2 (blk_cbs .sd o.gen).p (by simp [rank]) (by simp [rank]) (by simp [rank])).ord
  · rw [he]
    simp only [if_true, List.map_append, map_norm_cbs, map_norm_serves, map_norm_listen hl, map_norm_stopEvents,
      List.nil_append, List.append_assoc]
    exact List.isPerm_iff.mpr (List.Perm.refl _)

theorem filter_gen_self {E : List Event} {g : Nat} (h : ∀ e ∈ E, genOf e = g) :
    E.filter (fun e => genOf e == g) = E := by
  apply List.filter_eq_self.mpr
  intro e he; simp [h e he]

theorem filter_gen_nil {E : List Event} {g g' : Nat} (h : ∀ e ∈ E, genOf e = g') (hne : g' ≠ g) :
    E.filter (fun e => genOf e == g) = [] := by
  apply List.filter_eq_nil_iff.mpr
  intro e he; simp [h e he, hne]

theorem filter_ngen_self {E : List Event} {g g' : Nat} (h : ∀ e ∈ E, genOf e = g') (hne : g' ≠ g) :
    E.filter (fun e => genOf e != g) = E := by
  apply List.filter_eq_self.mpr
  intro e he; simp [h e he, hne]

theorem filter_ngen_nil {E : List Event} {g : Nat} (h : ∀ e ∈ E, genOf e = g) :
    E.filter (fun e => genOf e != g) = [] := by
  apply List.filter_eq_nil_iff.mpr
  intro e he; simp [h e he]

theorem restartErr_early (o : Inst) (g : Nat) (c : Cfg) :
    restartErr o g c (.cb .rs o.gen 0 :: cbs .rf o.gen) = true := by
  simp [restartErr, ordered, cbs, genOf, phase, rank, sub]

theorem restartErr_load {o : Inst} {g : Nat} {c : Cfg} (hne : g ≠ o.gen)
    (h : (load g c true (restartFds o)).2 = false) :
    restartErr o g c (cbs .rs o.gen ++ (load g c true (restartFds o)).1 ++ cbs .rf o.gen) = true := by
  have hb := load_blk g c true (restartFds o)
  simp only [restartErr, Bool.and_eq_true, ordered_iff, decide_eq_true_eq, List.all_eq_true, Bool.or_eq_true,
    beq_iff_eq]
  have h1 : PBlk 2 8 (cbs .rs o.gen ++ (load g c true (restartFds o)).1) :=
    pblk_append (blk_cbs .rs o.gen).p hb.p (by simp [rank]) (by simp [rank]) (by simp [rank])
  have h2 := pblk_append h1 (blk_cbs .rf o.gen).p (by simp [rank]) (by simp [rank]) (by simp [rank])
  refine ⟨⟨⟨h2.ord, h2.nodup⟩, Or.inr ?_⟩, ?_⟩
  · simp only [List.filter_append, filter_gen_self (blk_cbs .rs o.gen).gen, filter_gen_self (blk_cbs .rf o.gen).gen,
      filter_gen_nil hb.gen hne, List.append_nil]
  · simp only [List.filter_append, filter_ngen_nil (blk_cbs .rs o.gen).gen, filter_ngen_nil (blk_cbs .rf o.gen).gen,
      filter_ngen_self hb.gen hne, List.append_nil, List.nil_append]
    exact load_fail_allowed h

theorem stopAllOk_step (insts : List Inst) : stopAllOk insts (insts.flatMap stopEvents) = true := by
  have : stopEvents = stopsOf := funext stopEvents_eq
  rw [this]
  exact List.isPerm_iff.mpr (List.Perm.refl _)

theorem gen_shutdownOf {i : Inst} {e : Event} (h : e ∈ shutdownOf i) : genOf e = i.gen := by
  simp only [shutdownOf, cbs, List.mem_append, List.mem_cons, List.not_mem_nil, or_false] at h
  rcases h with (rfl | rfl) | (rfl | rfl) <;> rfl

theorem signalOk_step {insts : List Inst} (hs : insts.Pairwise fun a b => a.gen < b.gen) :
    signalOk insts false (shutdownEvents insts) = true := by
  simp only [signalOk, Bool.false_eq_true, if_false, Bool.and_eq_true, orderedPerGen, decide_eq_true_eq]
  refine ⟨?_, List.isPerm_iff.mpr (List.Perm.refl _)⟩
  show (insts.flatMap shutdownOf).Pairwise _
  refine List.pairwise_flatMap.mpr ⟨?_, ?_⟩
  · intro i _
    simp [shutdownOf, cbs, genOf, phase, rank, sub]
  · refine List.Pairwise.imp ?_ hs
    intro a b hab x hx y hy hg
    rw [gen_shutdownOf hx, gen_shutdownOf hy] at hg
    omega


/-! ### counting Serve starts and stops -/

theorem servedDelta_append (lin : Nat → Nat) (A B : List Event) (l : Nat) :
    servedDelta lin (A ++ B) l = servedDelta lin A l + servedDelta lin B l := by
  simp [servedDelta, List.filter_append]

theorem stoppedDelta_append (lin : Nat → Nat) (A B : List Event) (l : Nat) :
    stoppedDelta lin (A ++ B) l = stoppedDelta lin A l + stoppedDelta lin B l := by
  simp [stoppedDelta, List.filter_append]

theorem servedDelta_zero {lin : Nat → Nat} {E : List Event} {l : Nat} (h : ∀ e ∈ E, phase e ≠ 8) :
    servedDelta lin E l = 0 := by
  unfold servedDelta
  rw [List.length_eq_zero_iff, List.filter_eq_nil_iff]
  intro e he
  have := h e he
  cases e <;> simp_all [phase, rank, sub]

theorem stoppedDelta_zero {lin : Nat → Nat} {E : List Event} {l : Nat} (h : ∀ e ∈ E, phase e ≠ 10) :
    stoppedDelta lin E l = 0 := by
  unfold stoppedDelta
  rw [List.length_eq_zero_iff, List.filter_eq_nil_iff]
  intro e he
  have := h e he
  cases e <;> simp_all [phase, rank, sub]

theorem servedDelta_serves (lin : Nat → Nat) (g n l : Nat) :
    servedDelta lin (serves g n) l = if lin g = l then n else 0 := by
  unfold servedDelta serves
  by_cases h : lin g = l
  · rw [List.filter_eq_self.mpr]
    · simp [h]
    · intro e he
      simp only [List.mem_map] at he
      obtain ⟨k, _, rfl⟩ := he
      simp [h]
  · rw [List.filter_eq_nil_iff.mpr]
    · simp [h]
    · intro e he
      simp only [List.mem_map] at he
      obtain ⟨k, _, rfl⟩ := he
      simp [h]

theorem stoppedDelta_stopEvents (lin : Nat → Nat) (o : Inst) (l : Nat) :
    stoppedDelta lin (stopEvents o) l = if lin o.gen = l then gracefulCount o else 0 := by
  unfold stoppedDelta
  by_cases h : lin o.gen = l
  · rw [List.filter_eq_self.mpr]
    · simp [h, stopEvents, stopLoop_length, gracefulCount]
    · intro e he
      obtain ⟨j, _, _, rfl⟩ := stopLoop_mem he
      simp [h]
  · rw [List.filter_eq_nil_iff.mpr]
    · simp [h]
    · intro e he
      obtain ⟨j, _, _, rfl⟩ := stopLoop_mem he
      simp [h]

theorem le_ne8 {E : List Event} (h : Le E 7) : ∀ e ∈ E, phase e ≠ 8 := fun e he => by have := h e he; omega
theorem ge_ne8 {E : List Event} (h : Ge E 9) : ∀ e ∈ E, phase e ≠ 8 := fun e he => by have := h e he; omega
theorem le_ne10 {E : List Event} (h : Le E 9) : ∀ e ∈ E, phase e ≠ 10 := fun e he => by have := h e he; omega
theorem ge_ne10 {E : List Event} (h : Ge E 11) : ∀ e ∈ E, phase e ≠ 10 := fun e he => by have := h e he; omega

theorem allowedLoading_phase {g n : Nat} {r : Bool} {e : Event} (h : allowedLoading g n r e = true) : phase e ≤ 6 := by
  cases e with
  | cb k g' i => cases k <;> simp [allowedLoading] at h <;> simp [phase, rank, sub] <;> split <;> omega
  | listen => simp [phase, rank, sub]
  | inherit => simp [phase, rank, sub]
  | serve => simp [allowedLoading] at h
  | stop => simp [allowedLoading] at h

theorem servedDelta_load_ok {g : Nat} {c : Cfg} {r : Bool} {fds : List Nat} (lin : Nat → Nat) (l : Nat)
    (h : (load g c r fds).2 = true) :
    servedDelta lin (load g c r fds).1 l = if lin g = l then c.servers.length else 0 := by
  obtain ⟨_, he⟩ := load_ok h
  rw [he]
  simp only [servedDelta_append, servedDelta_serves]
  have h1 : servedDelta lin (if r = true then [] else cbs CB.fs g) l = 0 := by
    apply servedDelta_zero
    cases r
    · exact le_ne8 (le_mono (le_cbs .fs g) (by simp [rank]))
    · intro e he; simp at he
  have h2 : servedDelta lin (cbs CB.su g) l = 0 := servedDelta_zero (le_ne8 (le_mono (le_cbs .su g) (by simp [rank])))
  have h3 : servedDelta lin (listenLoop g fds 0 c.servers).1 l = 0 :=
    servedDelta_zero (le_ne8 (le_mono (blk_listenLoop g fds 0 c.servers).le (by omega)))
  omega

theorem servedDelta_load_fail {g : Nat} {c : Cfg} {r : Bool} {fds : List Nat} (lin : Nat → Nat) (l : Nat)
    (h : (load g c r fds).2 = false) : servedDelta lin (load g c r fds).1 l = 0 := by
  apply servedDelta_zero
  intro e he
  have := allowedLoading_phase (load_fail_allowed h e he)
  omega

theorem stoppedDelta_load {g : Nat} {c : Cfg} {r : Bool} {fds : List Nat} (lin : Nat → Nat) (l : Nat) :
    stoppedDelta lin (load g c r fds).1 l = 0 :=
  stoppedDelta_zero (le_ne10 (le_mono (load_blk g c r fds).le (by omega)))

theorem find_gen {insts : List Inst} (hs : insts.Pairwise fun a b => a.gen < b.gen) {i : Inst} (hi : i ∈ insts) :
    insts.find? (fun x => x.gen == i.gen) = some i := by
  induction insts with
  | nil => simp at hi
  | cons a rest ih =>
    rw [List.pairwise_cons] at hs
    rcases List.mem_cons.mp hi with rfl | h
    · simp [List.find?_cons]
    · have := hs.1 i h
      have hne : (a.gen == i.gen) = false := by simp; omega
      rw [List.find?_cons, hne]
      exact ih hs.2 h

theorem stopAll_wg {lin : Nat → Nat} (l : Nat) : ∀ (insts : List Inst) (wg : Nat → Int),
    (∀ i ∈ insts, lin i.gen = i.lineage) →
    (stopAllWg wg insts) l + (stoppedDelta lin (insts.flatMap stopEvents) l : Int) = wg l := by
  intro insts
  induction insts with
  | nil => intro wg _; simp [stopAllWg, stoppedDelta]
  | cons i rest ih =>
    intro wg h
    have hi := h i List.mem_cons_self
    have ih' := ih (wgSub wg i.lineage (gracefulCount i)) (fun j hj => h j (List.mem_cons_of_mem _ hj))
    simp only [stopAllWg, List.flatMap_cons, stoppedDelta_append, stoppedDelta_stopEvents, hi]
    simp only [wgSub] at ih'
    by_cases hl : i.lineage = l
    · subst hl
      simp only [if_true] at ih' ⊢
      omega
    · have hl' : ¬ l = i.lineage := fun h => hl h.symm
      simp only [hl, hl', if_false] at ih' ⊢
      omega

theorem servedDelta_stops {lin : Nat → Nat} (l : Nat) (insts : List Inst) :
    servedDelta lin (insts.flatMap stopEvents) l = 0 := by
  apply servedDelta_zero
  intro e he
  obtain ⟨i, _, hi⟩ := List.mem_flatMap.mp he
  rw [phase_stopLoop hi]; omega


/-- the judge's ledger agrees with the model's state; the wait-group counter of every lineage equals the number
of Serve calls started minus the number stopped -/
structure Rel (s : State) (led : Ledger) : Prop where
  next : led.next = s.next
  live : led.live = s.insts
  once : led.once = s.once
  lineages : led.lineages = s.lineages
  wg : ∀ l, s.wg l + (led.stopped l : Int) = (led.served l : Int)
  sorted : s.insts.Pairwise (fun a b => a.gen < b.gen)
  lt : ∀ i ∈ s.insts, i.gen < s.next

theorem rel_init : Rel State.init Ledger.init :=
  ⟨rfl, rfl, rfl, rfl, fun _ => rfl, List.Pairwise.nil, fun _ h => nomatch h⟩

theorem segLaw_step {s : State} {led : Ledger} (h : Rel s led) (op : Op) : segLaw led op (step s op).2 = none := by
  cases op with
  | start c =>
    by_cases hl : (load s.next c false []).2 = true
    · simp [step, hl, segLaw, h.next, startOk_load hl]
    · have hl' : (load s.next c false []).2 = false := by simpa using hl
      simp [step, hl', segLaw, h.next, startErr_load hl']
  | restart c =>
    cases hi : s.insts with
    | nil => simp [step, hi, segLaw, h.live]
    | cons o rest =>
      have hlt : o.gen < s.next := h.lt o (by simp [hi])
      cases hr : o.cfg.restartErr
      · by_cases hl : (load s.next c true (restartFds o)).2 = true
        · have := restartOk_step (o := o) hl
          simp only [List.append_assoc] at this
          simp [step, hi, segLaw, h.live, h.next, runCbs, hr, hl, this]
        · have hl' : (load s.next c true (restartFds o)).2 = false := by simpa using hl
          have := restartErr_load (o := o) (g := s.next) (c := c) (by omega) hl'
          simp only [List.append_assoc] at this
          simp [step, hi, segLaw, h.live, h.next, runCbs, hr, hl', this]
      · have := restartErr_early o s.next c
        simp [step, hi, segLaw, h.live, h.next, runCbs, hr, this]
  | stopAll => simp [step, segLaw, h.live, stopAllOk_step]
  | signal n =>
    cases ho : s.once
    · simp [step, segLaw, h.live, h.once, ho, signalOk_step h.sorted]
    · simp [step, segLaw, h.live, h.once, ho, signalOk]


theorem sorted_snoc {insts : List Inst} {n : Nat} (hs : insts.Pairwise fun a b => a.gen < b.gen)
    (hlt : ∀ i ∈ insts, i.gen < n) (x : Inst) (hx : x.gen = n) :
    (insts ++ [x]).Pairwise fun a b => a.gen < b.gen := by
  refine List.pairwise_append.mpr ⟨hs, List.pairwise_singleton _ _, ?_⟩
  intro a ha b hb
  simp only [List.mem_singleton] at hb
  subst hb; rw [hx]; exact hlt a ha

theorem lt_snoc {insts : List Inst} {n : Nat} (hlt : ∀ i ∈ insts, i.gen < n) (x : Inst) (hx : x.gen = n) :
    ∀ i ∈ insts ++ [x], i.gen < n + 1 := by
  intro i hi
  rcases List.mem_append.mp hi with h | h
  · have := hlt i h; omega
  · simp only [List.mem_singleton] at h
    subst h; omega

theorem rel_step_start {s : State} {led : Ledger} (h : Rel s led) (c : Cfg) :
    Rel (step s (.start c)).1 (advance led (.start c) (step s (.start c)).2) := by
  by_cases hl : (load s.next c false []).2 = true
  · have e : step s (.start c) = (({ s with next := s.next + 1, lineages := s.lineages ++ [s.next], insts := s.insts ++ [⟨s.next, s.next, c⟩], wg := wgAdd s.wg s.next c.servers.length } : State), (⟨.ok, (load s.next c false []).1⟩ : Seg)) := by simp [step, hl]
    rw [e]
    refine ⟨by simp [advance, h.next], by simp [advance, h.next, h.live, Ledger.count],
      by simp [advance, h.once, Ledger.count], by simp [advance, h.lineages, h.next, Ledger.count], ?_,
      sorted_snoc h.sorted h.lt _ rfl, lt_snoc h.lt _ rfl⟩
    intro l
    have := h.wg l
    simp only [advance, Ledger.count, h.next, wgAdd, servedDelta_load_ok _ _ hl, stoppedDelta_load, linOf, if_true]
    split <;> rename_i h1 <;> split <;> rename_i h2 <;> first | omega | (exfalso; omega)
  · have hl' : (load s.next c false []).2 = false := by simpa using hl
    have e : step s (.start c) = (({ s with next := s.next + 1, lineages := s.lineages ++ [s.next] } : State), (⟨.err, (load s.next c false []).1⟩ : Seg)) := by simp [step, hl']
    rw [e]
    refine ⟨by simp [advance, h.next], by simp [advance, h.next, h.live, Ledger.count],
      by simp [advance, h.once, Ledger.count], by simp [advance, h.lineages, h.next, Ledger.count], ?_,
      h.sorted, fun i hi => Nat.lt_succ_of_lt (h.lt i hi)⟩
    intro l
    have := h.wg l
    simp only [advance, Ledger.count, h.next, servedDelta_load_fail _ _ hl', stoppedDelta_load]
    omega


theorem delta_cbs (lin : Nat → Nat) (k : CB) (g l : Nat) :
    servedDelta lin (cbs k g) l = 0 ∧ stoppedDelta lin (cbs k g) l = 0 := by
  constructor
  · apply servedDelta_zero; intro e he
    simp only [cbs, List.mem_cons, List.not_mem_nil, or_false] at he
    rcases he with rfl | rfl <;> cases k <;> simp [phase, rank, sub]
  · apply stoppedDelta_zero; intro e he
    simp only [cbs, List.mem_cons, List.not_mem_nil, or_false] at he
    rcases he with rfl | rfl <;> cases k <;> simp [phase, rank, sub]

theorem rel_step_restart {s : State} {led : Ledger} (h : Rel s led) (c : Cfg) :
    Rel (step s (.restart c)).1 (advance led (.restart c) (step s (.restart c)).2) := by
  cases hi : s.insts with
  | nil =>
    have e : step s (.restart c) = (({ s with next := s.next + 1 } : State), (⟨.noinst, []⟩ : Seg)) := by simp [step, hi]
    rw [e]
    exact ⟨by simp [advance, h.next, h.live, hi], by simp [advance, h.live, hi], by simp [advance, h.live, hi, h.once],
      by simp [advance, h.live, hi, h.lineages], by simpa [advance, h.live, hi] using h.wg, by simp [hi],
      by simp [hi]⟩
  | cons o rest =>
    have hlt : o.gen < s.next := h.lt o (by simp [hi])
    have hsorted := h.sorted
    have hltall := h.lt
    rw [hi] at hsorted hltall
    have hne : ¬ o.gen = s.next := by omega
    cases hr : o.cfg.restartErr
    · by_cases hl : (load s.next c true (restartFds o)).2 = true
      · have e : step s (.restart c) = (({ s with next := s.next + 1, insts := rest ++ [⟨s.next, o.lineage, c⟩], wg := wgSub (wgAdd s.wg o.lineage c.servers.length) o.lineage (gracefulCount o) } : State), (⟨.ok, cbs .rs o.gen ++ (load s.next c true (restartFds o)).1 ++ stopEvents o ++ cbs .sd o.gen⟩ : Seg)) := by
          simp [step, hi, runCbs, hr, hl]
        rw [e]
        have hs2 := (List.pairwise_cons.mp hsorted).2
        have hlt2 : ∀ i ∈ rest, i.gen < s.next := fun i hi' => hltall i (List.mem_cons_of_mem _ hi')
        refine ⟨by simp [advance, h.next, h.live, hi], by simp [advance, h.next, h.live, hi, Ledger.count],
          by simp [advance, h.live, hi, h.once, Ledger.count], by simp [advance, h.live, hi, h.lineages, Ledger.count], ?_,
          sorted_snoc hs2 hlt2 _ rfl, lt_snoc hlt2 _ rfl⟩
        intro l
        have := h.wg l
        simp only [advance, h.live, hi, Ledger.count, h.next, servedDelta_append, stoppedDelta_append,
          (delta_cbs _ _ _ _).1, (delta_cbs _ _ _ _).2, servedDelta_load_ok _ _ hl, stoppedDelta_load,
          stoppedDelta_stopEvents, servedDelta_zero (fun e he => by rw [phase_stopLoop he]; omega : ∀ e ∈ stopEvents o, phase e ≠ 8),
          linOf, if_true, hne, if_false, List.find?_cons, beq_self_eq_true, Option.map_some, Option.getD_some,
          wgSub, wgAdd]
        by_cases hL : o.lineage = l
        · subst hL; simp only [if_true]; omega
        · have hL' : ¬ l = o.lineage := fun h => hL h.symm
          simp only [hL, hL', if_false]; omega
      · have hl' : (load s.next c true (restartFds o)).2 = false := by simpa using hl
        have e : step s (.restart c) = (({ s with next := s.next + 1 } : State), (⟨.err, cbs .rs o.gen ++ (load s.next c true (restartFds o)).1 ++ cbs .rf o.gen⟩ : Seg)) := by
          simp [step, hi, runCbs, hr, hl']
        rw [e]
        refine ⟨by simp [advance, h.next, h.live, hi], by simp [advance, h.next, h.live, hi, Ledger.count],
          by simp [advance, h.live, hi, h.once, Ledger.count], by simp [advance, h.live, hi, h.lineages, Ledger.count], ?_,
          h.sorted, fun i hi' => Nat.lt_succ_of_lt (h.lt i hi')⟩
        intro l
        have := h.wg l
        simp only [advance, h.live, hi, Ledger.count, servedDelta_append, stoppedDelta_append,
          (delta_cbs _ _ _ _).1, (delta_cbs _ _ _ _).2, servedDelta_load_fail _ _ hl', stoppedDelta_load]
        omega
    · have e : step s (.restart c) = (({ s with next := s.next + 1 } : State), (⟨.err, .cb .rs o.gen 0 :: cbs .rf o.gen⟩ : Seg)) := by
        simp [step, hi, runCbs, hr]
      rw [e]
      refine ⟨by simp [advance, h.next, h.live, hi], by simp [advance, h.next, h.live, hi, Ledger.count],
        by simp [advance, h.live, hi, h.once, Ledger.count], by simp [advance, h.live, hi, h.lineages, Ledger.count], ?_,
        h.sorted, fun i hi' => Nat.lt_succ_of_lt (h.lt i hi')⟩
      intro l
      have := h.wg l
      have h1 : servedDelta (linOf (o :: rest) led.next o.lineage) (.cb .rs o.gen 0 :: cbs .rf o.gen) l = 0 := by
        apply servedDelta_zero; intro e he
        simp only [cbs, List.mem_cons, List.not_mem_nil, or_false] at he
        rcases he with rfl | rfl | rfl <;> simp [phase, rank, sub]
      have h2 : stoppedDelta (linOf (o :: rest) led.next o.lineage) (.cb .rs o.gen 0 :: cbs .rf o.gen) l = 0 := by
        apply stoppedDelta_zero; intro e he
        simp only [cbs, List.mem_cons, List.not_mem_nil, or_false] at he
        rcases he with rfl | rfl | rfl <;> simp [phase, rank, sub]
      simp only [advance, h.live, hi, Ledger.count, h1, h2]
      omega

theorem rel_step_stopAll {s : State} {led : Ledger} (h : Rel s led) :
    Rel (step s .stopAll).1 (advance led .stopAll (step s .stopAll).2) := by
  have e : step s .stopAll = (({ s with next := s.next + 1, insts := [], wg := stopAllWg s.wg s.insts } : State), (⟨.ok, s.insts.flatMap stopEvents⟩ : Seg)) := by
    simp [step]
  rw [e]
  refine ⟨by simp [advance, h.next], by simp [advance], by simp [advance, h.once, Ledger.count],
    by simp [advance, h.lineages, Ledger.count], ?_, List.Pairwise.nil, fun _ hi => nomatch hi⟩
  intro l
  have := h.wg l
  have hlin : ∀ i ∈ s.insts, linOf led.live led.next led.next i.gen = i.lineage := by
    intro i hi
    have := h.lt i hi
    have hne : ¬ i.gen = led.next := by rw [h.next]; omega
    simp [linOf, hne, h.live, find_gen h.sorted hi]
  have h1 := stopAll_wg l s.insts s.wg hlin
  simp only [advance, Ledger.count, servedDelta_stops]
  omega

theorem rel_step_signal {s : State} {led : Ledger} (h : Rel s led) (n : Nat) :
    Rel (step s (.signal n)).1 (advance led (.signal n) (step s (.signal n)).2) := by
  cases ho : s.once
  · have e : step s (.signal n) = (({ s with next := s.next + 1, once := true } : State), (⟨.ok, shutdownEvents s.insts⟩ : Seg)) := by
      simp [step, ho]
    rw [e]
    exact ⟨by simp [advance, h.next], by simp [advance, h.live], by simp [advance], by simp [advance, h.lineages],
      by simpa [advance] using h.wg, h.sorted, fun i hi => Nat.lt_succ_of_lt (h.lt i hi)⟩
  · have e : step s (.signal n) = (({ s with next := s.next + 1 } : State), (⟨.ok, []⟩ : Seg)) := by
      simp [step, ho]
    rw [e]
    exact ⟨by simp [advance, h.next], by simp [advance, h.live], by simp [advance, ho], by simp [advance, h.lineages],
      by simpa [advance] using h.wg, h.sorted, fun i hi => Nat.lt_succ_of_lt (h.lt i hi)⟩

theorem rel_step {s : State} {led : Ledger} (h : Rel s led) (op : Op) :
    Rel (step s op).1 (advance led op (step s op).2) := by
  cases op with
  | start c => exact rel_step_start h c
  | restart c => exact rel_step_restart h c
  | stopAll => exact rel_step_stopAll h
  | signal n => exact rel_step_signal h n


theorem zip_map_all {α : Type} (f : α → Bool) (P : α × Bool → Bool) :
    ∀ (l : List α), (∀ x ∈ l, P (x, f x) = true) → (l.zip (l.map f)).all P = true := by
  intro l
  induction l with
  | nil => intro _; rfl
  | cons a rest ih =>
    intro h
    simp only [List.map_cons, List.zip_cons_cons, List.all_cons, Bool.and_eq_true]
    exact ⟨h a List.mem_cons_self, ih (fun x hx => h x (List.mem_cons_of_mem _ hx))⟩

theorem waitOk_rel {s : State} {led : Ledger} (h : Rel s led) : waitOk led (waitBits s) = true := by
  simp only [waitOk, waitBits, Bool.and_eq_true, List.length_map, h.lineages, beq_self_eq_true, true_and]
  apply zip_map_all
  intro l _
  have := h.wg l
  by_cases hz : s.wg l = 0
  · simp [hz]; omega
  · simp [hz]

theorem check_runFrom : ∀ (ops : List Op) (s : State) (led : Ledger), Rel s led →
    check led ops (runFrom s ops) = none := by
  intro ops
  induction ops with
  | nil => intro s led _; rfl
  | cons op rest ih =>
    intro s led h
    simp only [runFrom, check, segLaw_step h op, waitOk_rel (rel_step h op), if_true]
    exact ih _ _ (rel_step h op)


/-- the judge's ledger after the model's trace of a history -/
def ledgerAfter (s : State) (led : Ledger) : List Op → Ledger
  | [] => led
  | op :: rest => ledgerAfter (step s op).1 (advance led op (step s op).2) rest

theorem rel_after : ∀ (ops : List Op) {s : State} {led : Ledger}, Rel s led →
    Rel (stateAfter s ops) (ledgerAfter s led ops) := by
  intro ops
  induction ops with
  | nil => intro s led h; exact h
  | cons op rest ih => intro s led h; exact ih (rel_step h op)

/-- every state reachable from the initial one is related to the ledger of its trace -/
theorem rel_reach (ops : List Op) : Rel (stateAfter State.init ops) (ledgerAfter State.init Ledger.init ops) :=
  rel_after ops rel_init

theorem failed_restart {s : State} {led : Ledger} (hrel : Rel s led) (c : Cfg)
    (h : (step s (.restart c)).2.res = .err) :
    (step s (.restart c)).1 = { s with next := s.next + 1 } ∧
    ∃ o rest, s.insts = o :: rest ∧
      ((step s (.restart c)).2.events.filter (fun e => genOf e == o.gen) = .cb .rs o.gen 0 :: cbs .rf o.gen ∨
       (step s (.restart c)).2.events.filter (fun e => genOf e == o.gen) = cbs .rs o.gen ++ cbs .rf o.gen) := by
  have hlaw := segLaw_step hrel (.restart c)
  cases hi : s.insts with
  | nil => simp [step, hi] at h
  | cons o rest =>
    cases hr : o.cfg.restartErr
    · by_cases hl : (load s.next c true (restartFds o)).2 = true
      · simp [step, hi, runCbs, hr, hl] at h
      · have hl' : (load s.next c true (restartFds o)).2 = false := by simpa using hl
        refine ⟨by simp [step, hi, runCbs, hr, hl'], o, rest, rfl, ?_⟩
        simp only [segLaw, hrel.live, hi, h] at hlaw
        split at hlaw
        · rename_i hlaw'
          simp only [restartErr, Bool.and_eq_true, Bool.or_eq_true, beq_iff_eq] at hlaw'
          exact hlaw'.1.2
        · simp at hlaw
    · refine ⟨by simp [step, hi, runCbs, hr], o, rest, rfl, ?_⟩
      simp only [segLaw, hrel.live, hi, h] at hlaw
      split at hlaw
      · rename_i hlaw'
        simp only [restartErr, Bool.and_eq_true, Bool.or_eq_true, beq_iff_eq] at hlaw'
        exact hlaw'.1.2
      · simp at hlaw


/-! ### which events an operation can emit -/

theorem load_gen {g : Nat} {c : Cfg} {r : Bool} {fds : List Nat} {e : Event} (h : e ∈ (load g c r fds).1) : genOf e = g :=
  (load_blk g c r fds).gen e h

theorem mem_cbs {k : CB} {g : Nat} {e : Event} : e ∈ cbs k g ↔ e = .cb k g 0 ∨ e = .cb k g 1 := by
  simp [cbs]

theorem restart_events {s : State} {c : Cfg} {o : Inst} {rest : List Inst} (hi : s.insts = o :: rest) :
    (step s (.restart c)).2.events =
      if o.cfg.restartErr then .cb .rs o.gen 0 :: cbs .rf o.gen
      else if (load s.next c true (restartFds o)).2 then
        cbs .rs o.gen ++ (load s.next c true (restartFds o)).1 ++ stopEvents o ++ cbs .sd o.gen
      else cbs .rs o.gen ++ (load s.next c true (restartFds o)).1 ++ cbs .rf o.gen := by
  cases hr : o.cfg.restartErr
  · by_cases hl : (load s.next c true (restartFds o)).2 = true
    · simp [step, hi, runCbs, hr, hl]
    · have hl' : (load s.next c true (restartFds o)).2 = false := by simpa using hl
      simp [step, hi, runCbs, hr, hl']
  · simp [step, hi, runCbs, hr]

/-- where an event of a segment comes from -/
theorem step_events_cases {s : State} {op : Op} {e : Event} (he : e ∈ (step s op).2.events) :
    (∃ c, op = .start c ∧ e ∈ (load s.next c false []).1) ∨
    (∃ c o rest, op = .restart c ∧ s.insts = o :: rest ∧
        (e ∈ (load s.next c true (restartFds o)).1 ∨ e ∈ cbs .rs o.gen ∨ e ∈ cbs .rf o.gen ∨ e ∈ cbs .sd o.gen ∨
         e ∈ stopEvents o)) ∨
    (op = .stopAll ∧ ∃ i ∈ s.insts, e ∈ stopEvents i) ∨
    (∃ n, op = .signal n ∧ s.once = false ∧ ∃ i ∈ s.insts, e ∈ cbs .sd i.gen ∨ e ∈ cbs .fd i.gen) := by
  cases op with
  | start c =>
    left
    refine ⟨c, rfl, ?_⟩
    by_cases hl : (load s.next c false []).2 = true
    · simpa [step, hl] using he
    · have hl' : (load s.next c false []).2 = false := by simpa using hl
      simpa [step, hl'] using he
  | restart c =>
    right; left
    cases hi : s.insts with
    | nil => simp [step, hi] at he
    | cons o rest =>
      refine ⟨c, o, rest, rfl, rfl, ?_⟩
      rw [restart_events hi] at he
      split at he
      · rcases List.mem_cons.mp he with h | h
        · right; left; rw [mem_cbs]; exact Or.inl h
        · right; right; left; exact h
      · split at he
        · simp only [List.mem_append] at he
          rcases he with ((h | h) | h) | h
          · exact Or.inr (Or.inl h)
          · exact Or.inl h
          · exact Or.inr (Or.inr (Or.inr (Or.inr h)))
          · exact Or.inr (Or.inr (Or.inr (Or.inl h)))
        · simp only [List.mem_append] at he
          rcases he with (h | h) | h
          · exact Or.inr (Or.inl h)
          · exact Or.inl h
          · exact Or.inr (Or.inr (Or.inl h))
  | stopAll =>
    right; right; left
    simp only [step] at he
    exact ⟨rfl, List.mem_flatMap.mp he⟩
  | signal n =>
    right; right; right
    by_cases ho : s.once = true
    · simp [step, ho] at he
    · have ho' : s.once = false := by simpa using ho
      simp only [step, ho', Bool.false_eq_true, if_false, shutdownEvents] at he
      obtain ⟨i, hi, h⟩ := List.mem_flatMap.mp he
      exact ⟨n, rfl, ho', i, hi, List.mem_append.mp h⟩

theorem not_mem_cbs_kind {k k' : CB} {g g' i : Nat} (hk : k ≠ k') : Event.cb k g i ∉ cbs k' g' := by
  intro h
  rcases mem_cbs.mp h with e | e <;> injection e with e1 <;> exact hk e1

theorem not_stop_cb {k : CB} {g i : Nat} {o : Inst} : Event.cb k g i ∉ stopEvents o := by
  intro h
  obtain ⟨j, _, _, e⟩ := stopLoop_mem h
  cases e

/-- first-startup callbacks are emitted only by a Start, for the instance it creates -/
theorem step_fs {s : State} {op : Op} {g i : Nat} (h : Event.cb .fs g i ∈ (step s op).2.events) :
    (∃ c, op = .start c) ∧ g = s.next := by
  rcases step_events_cases h with ⟨c, rfl, hl⟩ | ⟨c, o, rest, rfl, _, hl | hl | hl | hl | hl⟩ | ⟨rfl, i', _, hl⟩ |
    ⟨n, rfl, _, i', _, hl | hl⟩
  · exact ⟨⟨c, rfl⟩, load_gen hl⟩
  · have := (load_blk s.next c true (restartFds o)).ge _ hl
    simp [phase, rank, sub] at this; split at this <;> omega
  · exact absurd hl (not_mem_cbs_kind (by decide))
  · exact absurd hl (not_mem_cbs_kind (by decide))
  · exact absurd hl (not_mem_cbs_kind (by decide))
  · exact absurd hl not_stop_cb
  · exact absurd hl not_stop_cb
  · exact absurd hl (not_mem_cbs_kind (by decide))
  · exact absurd hl (not_mem_cbs_kind (by decide))

/-- final-shutdown callbacks are emitted only by a shutdown signal -/
theorem step_fd {s : State} {op : Op} {g i : Nat} (h : Event.cb .fd g i ∈ (step s op).2.events) :
    ∃ n, op = .signal n := by
  rcases step_events_cases h with ⟨c, rfl, hl⟩ | ⟨c, o, rest, rfl, _, hl | hl | hl | hl | hl⟩ | ⟨rfl, i', _, hl⟩ |
    ⟨n, rfl, _, i', _, _⟩
  · have := (load_blk s.next c false []).le _ hl
    simp [phase, rank, sub] at this; split at this <;> omega
  · have := (load_blk s.next c true (restartFds o)).le _ hl
    simp [phase, rank, sub] at this; split at this <;> omega
  · exact absurd hl (not_mem_cbs_kind (by decide))
  · exact absurd hl (not_mem_cbs_kind (by decide))
  · exact absurd hl (not_mem_cbs_kind (by decide))
  · exact absurd hl not_stop_cb
  · exact absurd hl not_stop_cb
  · exact ⟨n, rfl⟩

/-- startup callbacks and Serve calls of generation g are emitted only by the operation that creates generation g -/
theorem step_su_sv {s : State} {op : Op} {e : Event} (h : e ∈ (step s op).2.events)
    (hk : (∃ g i, e = .cb .su g i) ∨ (∃ g k, e = .serve g k)) : genOf e = s.next := by
  rcases step_events_cases h with ⟨c, rfl, hl⟩ | ⟨c, o, rest, rfl, _, hl | hl | hl | hl | hl⟩ | ⟨rfl, i', _, hl⟩ |
    ⟨n, rfl, _, i', _, hl | hl⟩
  · exact load_gen hl
  · exact load_gen hl
  all_goals
    exfalso
    rcases hk with ⟨g, i, rfl⟩ | ⟨g, k, rfl⟩
    · first
        | exact absurd hl (not_mem_cbs_kind (by decide))
        | exact absurd hl not_stop_cb
    · first
        | (rcases mem_cbs.mp hl with e | e <;> cases e)
        | (obtain ⟨j, _, _, e⟩ := stopLoop_mem hl; cases e)


/-- the events of a Start or Restart segment come in the prescribed order and none twice -/
theorem start_pblk (s : State) (c : Cfg) : PBlk 0 8 (step s (.start c)).2.events := by
  have hb := (load_blk s.next c false []).p
  by_cases hl : (load s.next c false []).2 = true
  · simpa [step, hl] using hb
  · have hl' : (load s.next c false []).2 = false := by simpa using hl
    simpa [step, hl'] using hb

theorem restart_pblk (s : State) (c : Cfg) : PBlk 0 17 (step s (.restart c)).2.events := by
  cases hi : s.insts with
  | nil => simp [step, hi]; exact ⟨ord_nil, List.nodup_nil, ge_nil _, le_nil _⟩
  | cons o rest =>
    rw [restart_events hi]
    have hb := (load_blk s.next c true (restartFds o)).p
    simp only [if_true] at hb
    have h1 : PBlk 2 8 (cbs .rs o.gen ++ (load s.next c true (restartFds o)).1) :=
      pblk_append (blk_cbs .rs o.gen).p hb (by simp [rank]) (by simp [rank]) (by simp [rank])
    split
    · refine ⟨by simp [Ord, cbs, phase, rank, sub], by simp [cbs], ?_, ?_⟩
      · intro e _; omega
      · intro e he
        simp only [cbs, List.mem_cons, List.not_mem_nil, or_false] at he
        rcases he with rfl | rfl | rfl <;> simp [phase, rank, sub]
    · split
      · have h2 := pblk_append h1 (pblk_stopEvents o) (by omega) (by omega) (by omega : 8 ≤ 10)
        have h3 := pblk_append h2 (blk_cbs .sd o.gen).p (by simp [rank]) (by simp [rank]) (by simp [rank])
        exact ⟨h3.ord, h3.nodup, fun e _ => by omega, le_mono h3.le (by simp [rank])⟩
      · have h2 := pblk_append h1 (blk_cbs .rf o.gen).p (by simp [rank]) (by simp [rank]) (by simp [rank])
        exact ⟨h2.ord, h2.nodup, fun e _ => by omega, le_mono h2.le (by simp [rank])⟩

/-- in an ordered list, an element of smaller phase lies before -/
theorem ord_before {E pre post : List Event} {x y : Event} (ho : Ord E) (he : E = pre ++ x :: post)
    (hy : y ∈ E) (hlt : phase y < phase x) : y ∈ pre := by
  subst he
  rcases List.mem_append.mp hy with h | h
  · exact h
  · exfalso
    rcases List.mem_cons.mp h with h | h
    · subst h; omega
    · have := (List.pairwise_append.mp ho).2.1
      have := (List.pairwise_cons.mp this).1 y h
      omega

/-- a segment that contains a Serve call of generation g contains both OnStartup callbacks of g -/
theorem serve_has_startup {s : State} {op : Op} {g k : Nat} (h : Event.serve g k ∈ (step s op).2.events) :
    ((∃ c, op = .start c) ∨ (∃ c, op = .restart c)) ∧ cbs .su g ⊆ (step s op).2.events := by
  have hg : g = s.next := step_su_sv h (Or.inr ⟨g, k, rfl⟩)
  rcases step_events_cases h with ⟨c, rfl, hl⟩ | ⟨c, o, rest, rfl, hi, hl | hl | hl | hl | hl⟩ | ⟨rfl, i', _, hl⟩ |
    ⟨n, rfl, _, i', _, hl | hl⟩
  · refine ⟨Or.inl ⟨c, rfl⟩, ?_⟩
    by_cases hok : (load s.next c false []).2 = true
    · have he := (load_ok hok).2
      intro e he'
      simp only [step, hok, if_true]
      rw [he]; rw [hg] at he'; simp [he']
    · have hok' : (load s.next c false []).2 = false := by simpa using hok
      have := load_fail_allowed hok' _ hl
      simp [allowedLoading] at this
  · refine ⟨Or.inr ⟨c, rfl⟩, ?_⟩
    by_cases hok : (load s.next c true (restartFds o)).2 = true
    · have he := (load_ok hok).2
      intro e he'
      rw [restart_events hi]
      have hsub : e ∈ (load s.next c true (restartFds o)).1 := by rw [he]; rw [hg] at he'; simp [he']
      split
      · rename_i hr
        -- the old instance's OnRestart callback failed: no load took place, but then there is no Serve either
        exfalso
        rw [restart_events hi, if_pos hr] at h
        simp [cbs] at h
      · simp [hok, hsub]
    · have hok' : (load s.next c true (restartFds o)).2 = false := by simpa using hok
      have := load_fail_allowed hok' _ hl
      simp [allowedLoading] at this
  all_goals
    exfalso
    first
      | (rcases mem_cbs.mp hl with e | e <;> cases e)
      | (obtain ⟨j, _, _, e⟩ := stopLoop_mem hl; cases e)

theorem startup_before_serve {s : State} {op : Op} {g k : Nat} {pre post : List Event}
    (h : (step s op).2.events = pre ++ .serve g k :: post) : .cb .su g 0 ∈ pre ∧ .cb .su g 1 ∈ pre := by
  have hmem : Event.serve g k ∈ (step s op).2.events := by rw [h]; simp
  obtain ⟨hop, hsub⟩ := serve_has_startup hmem
  have hord : Ord (step s op).2.events := by
    rcases hop with ⟨c, rfl⟩ | ⟨c, rfl⟩
    · exact (start_pblk s c).ord
    · exact (restart_pblk s c).ord
  constructor
  · exact ord_before hord h (hsub (by simp [cbs])) (by simp [phase, rank, sub])
  · exact ord_before hord h (hsub (by simp [cbs])) (by simp [phase, rank, sub])


/-- all events of a history, in order -/
def trace (s : State) (ops : List Op) : List Event := (runFrom s ops).flatMap fun x => x.1.events

theorem trace_cons (s : State) (op : Op) (rest : List Op) :
    trace s (op :: rest) = (step s op).2.events ++ trace (step s op).1 rest := by
  simp [trace, runFrom]

theorem step_next (s : State) (op : Op) : (step s op).1.next = s.next + 1 := by
  cases op with
  | start c => by_cases hl : (load s.next c false []).2 = true <;> simp [step, hl]
  | restart c =>
    cases hi : s.insts with
    | nil => simp [step, hi]
    | cons o rest =>
      cases hr : o.cfg.restartErr
      · by_cases hl : (load s.next c true (restartFds o)).2 = true <;> simp [step, hi, runCbs, hr, hl]
      · simp [step, hi, runCbs, hr]
  | stopAll => simp [step]
  | signal n => by_cases ho : s.once = true <;> simp [step, ho]

/-- an event that only the creating operation of its generation emits does not occur once that generation is past -/
theorem count_later {e : Event} (hown : ∀ (s : State) (op : Op), e ∈ (step s op).2.events → genOf e = s.next) :
    ∀ (ops : List Op) (s : State), genOf e < s.next → (trace s ops).count e = 0 := by
  intro ops
  induction ops with
  | nil => intro s _; simp [trace, runFrom]
  | cons op rest ih =>
    intro s hlt
    rw [trace_cons, List.count_append, ih (step s op).1 (by rw [step_next]; omega)]
    have : e ∉ (step s op).2.events := fun h => by have := hown s op h; omega
    simp [List.count_eq_zero_of_not_mem this]

/-- … and occurs at most once in the whole trace if it occurs at most once in a segment -/
theorem count_once {e : Event} (hown : ∀ (s : State) (op : Op), e ∈ (step s op).2.events → genOf e = s.next)
    (hseg : ∀ (s : State) (op : Op), (step s op).2.events.count e ≤ 1) :
    ∀ (ops : List Op) (s : State), (trace s ops).count e ≤ 1 := by
  intro ops
  induction ops with
  | nil => intro s; simp [trace, runFrom]
  | cons op rest ih =>
    intro s
    rw [trace_cons, List.count_append]
    by_cases hg : genOf e = s.next
    · rw [count_later hown rest (step s op).1 (by rw [step_next]; omega)]
      exact hseg s op
    · have : e ∉ (step s op).2.events := fun h => hg (hown s op h)
      rw [List.count_eq_zero_of_not_mem this]
      simpa using ih (step s op).1

theorem nodup_count_le {l : List Event} (h : l.Nodup) (e : Event) : l.count e ≤ 1 :=
  List.nodup_iff_count.mp h e

theorem seg_count_own {s : State} {op : Op} {e : Event}
    (hown : ∀ (s : State) (op : Op), e ∈ (step s op).2.events → (∃ c, op = .start c) ∨ (∃ c, op = .restart c)) :
    (step s op).2.events.count e ≤ 1 := by
  by_cases h : e ∈ (step s op).2.events
  · rcases hown s op h with ⟨c, rfl⟩ | ⟨c, rfl⟩
    · exact nodup_count_le (start_pblk s c).nodup e
    · exact nodup_count_le (restart_pblk s c).nodup e
  · simp [List.count_eq_zero_of_not_mem h]


/-- the events emitted by the shutdown signals of a history -/
def signalTrace (s : State) : List Op → List Event
  | [] => []
  | op :: rest =>
    (match op with
     | .signal _ => (step s op).2.events
     | _ => []) ++ signalTrace (step s op).1 rest

theorem once_sticky {s : State} (h : s.once = true) (op : Op) : (step s op).1.once = true := by
  cases op with
  | start c => by_cases hl : (load s.next c false []).2 = true <;> simp [step, hl, h]
  | restart c =>
    cases hi : s.insts with
    | nil => simp [step, hi, h]
    | cons o rest =>
      cases hr : o.cfg.restartErr
      · by_cases hl : (load s.next c true (restartFds o)).2 = true <;> simp [step, hi, runCbs, hr, hl, h]
      · simp [step, hi, runCbs, hr, h]
  | stopAll => simp [step, h]
  | signal n => simp [step, h]

theorem signalTrace_once : ∀ (ops : List Op) (s : State), s.once = true → signalTrace s ops = [] := by
  intro ops
  induction ops with
  | nil => intro s _; rfl
  | cons op rest ih =>
    intro s h
    simp only [signalTrace, ih _ (once_sticky h op), List.append_nil]
    cases op <;> simp [step, h]

theorem shutdownEvents_nodup {insts : List Inst} (hs : insts.Pairwise fun a b => a.gen < b.gen) :
    (shutdownEvents insts).Nodup := by
  unfold shutdownEvents
  refine List.pairwise_flatMap.mpr ⟨?_, ?_⟩
  · intro i _; simp [cbs]
  · refine List.Pairwise.imp ?_ hs
    intro a b hab x hx y hy hxy
    have h1 : genOf x = a.gen := gen_shutdownOf (by simpa [shutdownOf] using hx)
    have h2 : genOf y = b.gen := gen_shutdownOf (by simpa [shutdownOf] using hy)
    subst hxy; omega

theorem signal_sets_once (s : State) (n : Nat) : (step s (.signal n)).1.once = true := by
  by_cases ho : s.once = true <;> simp [step, ho]

/-- whatever the history and however many signals it contains, no shutdown or final-shutdown callback runs twice -/
theorem signalTrace_count : ∀ (ops : List Op) (s : State) (led : Ledger), Rel s led → ∀ e, (signalTrace s ops).count e ≤ 1 := by
  intro ops
  induction ops with
  | nil => intro s led _ e; simp [signalTrace]
  | cons op rest ih =>
    intro s led h e
    cases op with
    | signal n =>
      simp only [signalTrace]
      rw [signalTrace_once rest _ (signal_sets_once s n), List.append_nil]
      by_cases ho : s.once = true
      · simp [step, ho]
      · have ho' : s.once = false := by simpa using ho
        simp only [step, ho', Bool.false_eq_true, if_false]
        exact List.nodup_iff_count.mp (shutdownEvents_nodup h.sorted) e
    | start c => simpa [signalTrace] using ih _ _ (rel_step h (.start c)) e
    | restart c => simpa [signalTrace] using ih _ _ (rel_step h (.restart c)) e
    | stopAll => simpa [signalTrace] using ih _ _ (rel_step h .stopAll) e

/-- the first signal runs the shutdown and final-shutdown callbacks of every live instance -/
theorem first_signal_runs_all {s : State} (ho : s.once = false) (n : Nat) {i : Inst} (hi : i ∈ s.insts) :
    cbs .sd i.gen ++ cbs .fd i.gen ⊆ (step s (.signal n)).2.events := by
  intro e he
  simp only [step, ho, Bool.false_eq_true, if_false, shutdownEvents]
  exact List.mem_flatMap.mpr ⟨i, hi, he⟩

/-! ### the wait-group counter never goes negative -/

/-- Serve calls of live instances that `Stop` will end, per lineage -/
def liveG (insts : List Inst) (l : Nat) : Int :=
  match insts with
  | [] => 0
  | i :: rest => (if i.lineage = l then (gracefulCount i : Int) else 0) + liveG rest l

theorem liveG_nonneg : ∀ (insts : List Inst) (l : Nat), 0 ≤ liveG insts l := by
  intro insts l
  induction insts with
  | nil => simp [liveG]
  | cons i rest ih => simp only [liveG]; split <;> omega

theorem liveG_append (a b : List Inst) (l : Nat) : liveG (a ++ b) l = liveG a l + liveG b l := by
  induction a with
  | nil => simp [liveG]
  | cons i rest ih => simp only [List.cons_append, liveG, ih]; omega

theorem stopAllWg_eq (l : Nat) : ∀ (insts : List Inst) (wg : Nat → Int), stopAllWg wg insts l = wg l - liveG insts l := by
  intro insts
  induction insts with
  | nil => intro wg; simp [stopAllWg, liveG]
  | cons i rest ih =>
    intro wg
    simp only [stopAllWg, ih, wgSub, liveG]
    by_cases h : i.lineage = l
    · subst h; simp
      omega
    · have h' : ¬ l = i.lineage := fun e => h e.symm
      simp [h, h']

theorem gracefulCount_le (i : Inst) : gracefulCount i ≤ i.cfg.servers.length := by
  unfold gracefulCount; exact List.length_filter_le _ _

/-- every Serve call that a live instance's `Stop` will end is counted in the wait group of its lineage -/
def WgCovers (s : State) : Prop := ∀ l, liveG s.insts l ≤ s.wg l

theorem wgCovers_step {s : State} (h : WgCovers s) (op : Op) : WgCovers (step s op).1 := by
  intro l
  have hl := h l
  cases op with
  | start c =>
    by_cases hok : (load s.next c false []).2 = true
    · simp only [step, hok, if_true, liveG_append, liveG, wgAdd]
      have := gracefulCount_le ⟨s.next, s.next, c⟩
      simp only at this
      by_cases e : s.next = l
      · subst e; simp; omega
      · have e' : ¬ l = s.next := fun x => e x.symm
        simp [e, e']; omega
    · have hok' : (load s.next c false []).2 = false := by simpa using hok
      simpa [step, hok'] using hl
  | restart c =>
    cases hi : s.insts with
    | nil => simpa [step, hi] using hl
    | cons o rest =>
      rw [hi] at hl
      simp only [liveG] at hl
      cases hr : o.cfg.restartErr
      · by_cases hok : (load s.next c true (restartFds o)).2 = true
        · simp only [step, hi, runCbs, hr, hok, Bool.false_eq_true, if_false, Bool.not_true, liveG_append, liveG,
            wgAdd, wgSub]
          have := gracefulCount_le ⟨s.next, o.lineage, c⟩
          simp only at this
          by_cases e : o.lineage = l
          · subst e; simp at hl ⊢; omega
          · have e' : ¬ l = o.lineage := fun x => e x.symm
            simp [e, e'] at hl ⊢; omega
        · have hok' : (load s.next c true (restartFds o)).2 = false := by simpa using hok
          simp only [step, hi, runCbs, hr, hok', Bool.false_eq_true, if_false, Bool.not_false, if_true, liveG]
          exact hl
      · simp only [step, hi, runCbs, hr, if_true, Bool.not_false, liveG]
        exact hl
  | stopAll =>
    simp only [step, liveG, stopAllWg_eq]
    omega
  | signal n => by_cases ho : s.once = true <;> simpa [step, ho] using hl

theorem wgCovers_after : ∀ (ops : List Op) (s : State), WgCovers s → WgCovers (stateAfter s ops) := by
  intro ops
  induction ops with
  | nil => intro s h; exact h
  | cons op rest ih => intro s h; exact ih _ (wgCovers_step h op)

theorem wgCovers_init : WgCovers State.init := fun _ => by simp [State.init, liveG]


theorem takeWhile_append_all {α : Type} (p : α → Bool) : ∀ (A B : List α), (∀ a ∈ A, p a = true) → (∀ b ∈ B, p b = false) →
    (A ++ B).takeWhile p = A ∧ (A ++ B).dropWhile p = B := by
  intro A
  induction A with
  | nil =>
    intro B _ hB
    cases B with
    | nil => simp
    | cons b rest => simp [List.takeWhile, List.dropWhile, hB b List.mem_cons_self]
  | cons a rest ih =>
    intro B hA hB
    have ha := hA a List.mem_cons_self
    obtain ⟨i1, i2⟩ := ih B (fun x hx => hA x (List.mem_cons_of_mem _ hx)) hB
    simp [List.takeWhile, List.dropWhile, ha, i1, i2]

theorem shutdownEvents_isCb {insts : List Inst} : ∀ e ∈ shutdownEvents insts, isCb e = true := by
  intro e he
  simp only [shutdownEvents, List.mem_flatMap] at he
  obtain ⟨i, _, h⟩ := he
  rcases List.mem_append.mp h with h | h <;> rcases mem_cbs.mp h with rfl | rfl <;> rfl

theorem stopEvents_isStop {insts : List Inst} : ∀ e ∈ insts.flatMap stopEvents, isStop e = true ∧ isCb e = false := by
  intro e he
  obtain ⟨i, _, h⟩ := List.mem_flatMap.mp he
  obtain ⟨j, _, _, rfl⟩ := stopLoop_mem h
  exact ⟨rfl, rfl⟩

theorem deciding_ne_hup (sigs : List Sig) : deciding sigs ≠ some .hup := by
  induction sigs with
  | nil => simp [deciding]
  | cons s rest ih => cases s <;> simp [deciding, ih]

/-- what the signal handlers do satisfies the law of the signal path -/
theorem sigRun_law {s : State} {led : Ledger} (h : Rel s led) (ho : s.once = false) (sigs : List Sig) :
    signalPathLaw s.insts sigs (sigRun s sigs).1 (sigRun s sigs).2.isSome = none := by
  have hsig : (step s (.signal 1)).2.events = shutdownEvents s.insts := by simp [step, ho]
  have hst : (step (step s (.signal 1)).1 .stopAll).2.events = s.insts.flatMap stopEvents := by simp [step, ho]
  unfold signalPathLaw sigRun
  cases hd : deciding sigs with
  | none => simp
  | some sg =>
    cases sg with
    | hup => exact absurd hd (deciding_ne_hup sigs)
    | quit => simp
    | int => simp [hsig, signalOk_step h.sorted]
    | term =>
      obtain ⟨t1, t2⟩ := takeWhile_append_all isCb (shutdownEvents s.insts) (s.insts.flatMap stopEvents)
        shutdownEvents_isCb (fun b hb => (stopEvents_isStop b hb).2)
      simp only [hsig, hst, Option.isSome_some, Bool.not_true, Bool.false_eq_true, if_false, t1, t2,
        signalOk_step h.sorted, stopAllOk_step]
      have : (s.insts.flatMap stopEvents).all isStop = true := by
        rw [List.all_eq_true]; exact fun e he => (stopEvents_isStop e he).1
      simp [this]


theorem once_false_step {s : State} (h : s.once = false) {op : Op} (hop : ∀ n, op ≠ .signal n) : (step s op).1.once = false := by
  cases op with
  | start c => by_cases hl : (load s.next c false []).2 = true <;> simp [step, hl, h]
  | restart c =>
    cases hi : s.insts with
    | nil => simp [step, hi, h]
    | cons o rest =>
      cases hr : o.cfg.restartErr
      · by_cases hl : (load s.next c true (restartFds o)).2 = true <;> simp [step, hi, runCbs, hr, hl, h]
      · simp [step, hi, runCbs, hr, h]
  | stopAll => simp [step, h]
  | signal n => exact absurd rfl (hop n)

theorem once_false_after : ∀ (ops : List Op) (s : State), s.once = false → (∀ op ∈ ops, ∀ n, op ≠ .signal n) →
    (stateAfter s ops).once = false := by
  intro ops
  induction ops with
  | nil => intro s h _; exact h
  | cons op rest ih =>
    intro s h hall
    exact ih _ (once_false_step h (hall op List.mem_cons_self)) (fun o ho => hall o (List.mem_cons_of_mem _ ho))


/-- visits in a schedule -/
def visits : List PassAct → Nat
  | [] => 0
  | .visit :: rest => visits rest + 1
  | _ :: rest => visits rest

/-- a running pass over `todo`, interleaved in any way with changes of the instance list by others and with further
`begin`s: what it has run plus what it still has to run is invariant; after as many visits as instances remain it has run the
callbacks of all of them -/
theorem pass_invariant : ∀ (acts : List PassAct) (p : Pass) (todo : List Inst), p.remaining = some todo →
    ∃ todo', (passRun p acts).remaining = some todo' ∧
      (passRun p acts).out ++ shutdownEvents todo' = p.out ++ shutdownEvents todo ∧
      todo'.length = todo.length - visits acts := by
  intro acts
  induction acts with
  | nil => intro p todo h; exact ⟨todo, h, rfl, by simp [visits]⟩
  | cons a rest ih =>
    intro p todo h
    cases a with
    | begin =>
      have e : passStep p .begin = p := by simp [passStep, h]
      simp only [passRun, e, visits]
      exact ih p todo h
    | mutate f =>
      obtain ⟨t', h1, h2, h3⟩ := ih (passStep p (.mutate f)) todo (by simp [passStep, h])
      exact ⟨t', h1, h2, by simpa [visits] using h3⟩
    | visit =>
      cases todo with
      | nil =>
        have e : passStep p .visit = p := by simp [passStep, h]
        simp only [passRun, e]
        obtain ⟨t', h1, h2, h3⟩ := ih p [] h
        exact ⟨t', h1, h2, by simp at h3 ⊢; exact h3⟩
      | cons i r =>
        obtain ⟨t', h1, h2, h3⟩ := ih (passStep p .visit) r (by simp [passStep, h])
        refine ⟨t', h1, ?_, by simp [visits] at h3 ⊢; omega⟩
        simp only [passRun]
        rw [h2]
        simp [passStep, h, shutdownEvents, List.append_assoc]


end Casket.Lifecycle
