import Casket.Proofs.ImportMeasure
import Casket.Proofs.ParserTerm
import Casket.Proofs.ParserMono
/-
Termination of the parser model WITH imports and snippets (C10): the cycle check bounds the expansion.

Between two snippet definitions the snippet table `sn` is constant (a snippet is defined only by `begin`, which
`parseAll` calls directly), and the total weight `Phi` of the tokens ahead — computed for THAT table — goes down with
every `Next` and every import (`doImport_tm` … `blockContents_tm`, `addresses_tm`: explicit fuel `Phi + 1`).  A snippet
definition changes the table, so the weights are recomputed (more sources, a longer longest source), but a name can
be defined only once and is one of finitely many candidates (`candNames`): `parseAll_total` is a lexicographic
induction over (candidate names not yet defined, Phi); it needs the fuel monotonicity of Proofs/ParserMono.lean.
-/
namespace Casket.Parser
open Casket.Lexer Casket.Dispenser Casket.Dispenser.Disp Casket.DispenserSpec

abbrev Snips := List (Bytes × List Token)

/-- `importFiles` is a map -/
def importOne (p : String × Bytes) : String × List Token := (p.1, (lex p.2).map fun t => { t with file := p.1 })

theorem importFiles_eq_map (l : List (String × Bytes)) : importFiles l = l.map importOne := by
  induction l with
  | nil => rfl
  | cons p rest ih => obtain ⟨n, b⟩ := p; simp only [importFiles, List.map_cons, ih]; rfl

/-- all tokens that can ever be in the token list: those of the input and those of every file -/
def srcToks (cfg : Cfg) (o : List Token) : List Token := o ++ (importFiles cfg.fs.files).flatMap (·.2)
/-- the most tokens one FILE import directive can splice in -/
def Lmax (cfg : Cfg) : Nat := ((importFiles cfg.fs.files).map (·.2.length)).sum
def fileNames (cfg : Cfg) : List ImpName := cfg.fs.files.map fun f => ImpName.file f.1
/-- the most tokens one import directive can splice in while the snippets `sn` are defined -/
def LmaxS (cfg : Cfg) (sn : Snips) : Nat := Lmax cfg + (sn.map (·.2.length)).sum
/-- everything an import directive can name while the snippets `sn` are defined -/
def srcNames (cfg : Cfg) (sn : Snips) : List ImpName := fileNames cfg ++ sn.map fun p => ImpName.snippet p.1

/-- hypotheses on the configuration: the repaired parser; environment replacement of every source token ends, and in
something that does not start with `(` (so no snippet is ever defined) -/
def Hyp (cfg : Cfg) (o : List Token) : Prop :=
  cfg.cycleCheck = true ∧ 0 < cfg.envFuel ∧
  ∀ t ∈ srcToks cfg o, ∃ r, envR cfg t.text = .ok r ∧ r.head? ≠ some lparen

/-- … without the restriction on snippets: the repaired parser; environment replacement of every source token ends -/
def HypS (cfg : Cfg) (o : List Token) : Prop :=
  cfg.cycleCheck = true ∧ 0 < cfg.envFuel ∧ ∀ t ∈ srcToks cfg o, ∃ r, envR cfg t.text = .ok r

theorem Hyp.toS {cfg : Cfg} {o : List Token} (h : Hyp cfg o) : HypS cfg o :=
  ⟨h.1, h.2.1, fun t ht => by obtain ⟨r, hr, _⟩ := h.2.2 t ht; exact ⟨r, hr⟩⟩

/-- a key is the expansion of a source token, possibly without its trailing comma -/
def KeyOK (cfg : Cfg) (o : List Token) (k : Bytes) : Prop :=
  ∃ t ∈ srcToks cfg o, ∃ r, envR cfg t.text = .ok r ∧ (k = r ∨ k = r.dropLast)

/-- every name a snippet definition can ever have -/
def candNames (cfg : Cfg) (o : List Token) : List Bytes :=
  (srcToks cfg o).flatMap fun t =>
    match envR cfg t.text with
    | .ok r => (isSnippet [r]).toList ++ (isSnippet [r.dropLast]).toList
    | _ => []

theorem candNames_mem {cfg : Cfg} {o : List Token} {k n : Bytes} (hk : KeyOK cfg o k) (hn : isSnippet [k] = some n) :
    n ∈ candNames cfg o := by
  obtain ⟨t, ht, r, hr, hkr⟩ := hk
  unfold candNames
  rw [List.mem_flatMap]
  refine ⟨t, ht, ?_⟩
  rw [hr]
  simp only [List.mem_append, Option.mem_toList]
  rcases hkr with rfl | rfl
  · exact Or.inl hn
  · exact Or.inr hn

structure TInv (cfg : Cfg) (o : List Token) (sn : Snips) (s : PState) : Prop where
  ok : cursorOk s.d
  snip : s.snippets = sn
  body : ∀ p ∈ sn, ∀ t ∈ p.2, t ∈ srcToks cfg o
  fok : FOK s.frames
  names : ∀ f ∈ s.frames, ∀ e ∈ f, e.name ∈ srcNames cfg sn
  after : ∀ i : Nat, s.d.cursor < (i : Int) → ∀ t, s.d.tokens[i]? = some t → t ∈ srcToks cfg o
  keys : ∀ k ∈ s.keys, KeyOK cfg o k

/-- … and the token under the cursor, if there is one, is a source token too -/
def TFresh (cfg : Cfg) (o : List Token) (sn : Snips) (s : PState) : Prop :=
  TInv cfg o sn s ∧ 0 ≤ s.d.cursor ∧ ∀ t, s.d.tok? s.d.cursor = some t → t ∈ srcToks cfg o

/-- number of tokens strictly after the cursor -/
def K (s : PState) : Nat := (s.d.len - s.d.cursor - 1).toNat

def wt (cfg : Cfg) (sn : Snips) (fs : List (List Active)) (r : Nat) : Nat :=
  wgt (LmaxS cfg sn + 2) (srcNames cfg sn).length (dep fs r)

/-- the measure: total weight of the tokens still ahead -/
def Phi (cfg : Cfg) (sn : Snips) (s : PState) : Nat := phiK (wt cfg sn s.frames) (K s)

theorem wt_pos (cfg : Cfg) (sn : Snips) (fs : List (List Active)) (r : Nat) : 0 < wt cfg sn fs r :=
  wgt_pos _ _ _ (by omega)

theorem le_phiK {w : Nat → Nat} (h : ∀ r, 0 < w r) (k : Nat) : k ≤ phiK w k := by
  induction k with
  | zero => exact Nat.le_refl _
  | succ n ih => simp only [phiK]; have := h (n + 1); omega

theorem K_le_Phi (cfg : Cfg) (sn : Snips) (s : PState) : K s ≤ Phi cfg sn s := le_phiK (wt_pos cfg sn s.frames) _

/-- no fuel problem, and an `ok` state satisfies `P` -/
def Tm {α : Type} (P : α → Prop) : Res α → Prop
  | .ok a => P a
  | .timeout => False
  | _ => True

theorem Tm.bind {α β : Type} {P : α → Prop} {Q : β → Prop} {r : Res α} {f : α → Res β}
    (hr : Tm P r) (hf : ∀ a, P a → Tm Q (f a)) : Tm Q (r.bind f) := by
  cases r with
  | ok a => exact hf a hr
  | err c fl l => exact trivial
  | panic m => exact trivial
  | timeout => exact hr.elim

theorem Tm.mono {α : Type} {P Q : α → Prop} {r : Res α} (hr : Tm P r) (h : ∀ a, P a → Q a) : Tm Q r := by
  cases r with
  | ok a => exact h a hr
  | err c fl l => exact trivial
  | panic m => exact trivial
  | timeout => exact hr.elim

theorem Tm.ne_timeout {α : Type} {P : α → Prop} {r : Res α} (hr : Tm P r) : r ≠ .timeout := by
  intro h; rw [h] at hr; exact hr

theorem sum_le_of_sublist {l1 l2 : List Nat} (h : l1.Sublist l2) : l1.sum ≤ l2.sum := by
  induction h with
  | slnil => exact Nat.le_refl _
  | cons a _ ih => simp only [List.sum_cons]; omega
  | cons_cons a _ ih => simp only [List.sum_cons]; omega

theorem mem_le_sum {l : List Nat} {x : Nat} (h : x ∈ l) : x ≤ l.sum := by
  induction l with
  | nil => cases h
  | cons a t ih =>
    simp only [List.sum_cons]
    rcases List.mem_cons.mp h with rfl | h
    · omega
    · have := ih h; omega

/-- what a matched set of files contributes -/
theorem imported_spec (cfg : Cfg) (o : List Token) (ms : List (String × Bytes)) (hsub : ms.Sublist cfg.fs.files) :
    ((importFiles ms).flatMap (·.2)).length ≤ Lmax cfg ∧
    (∀ t ∈ (importFiles ms).flatMap (·.2), t ∈ srcToks cfg o) ∧
    ((importFiles ms).map (·.2.length)).sum = ((importFiles ms).flatMap (·.2)).length := by
  have hlen : ((importFiles ms).map (·.2.length)).sum = ((importFiles ms).flatMap (·.2)).length := by
    generalize importFiles ms = l
    induction l with
    | nil => rfl
    | cons p rest ih => simp only [List.map_cons, List.sum_cons, List.flatMap_cons, List.length_append, ih]
  refine ⟨?_, ?_, hlen⟩
  · rw [← hlen]
    unfold Lmax
    apply sum_le_of_sublist
    rw [importFiles_eq_map, importFiles_eq_map]
    exact (hsub.map importOne).map _
  · intro t ht
    unfold srcToks
    apply List.mem_append_right
    rw [importFiles_eq_map] at ht ⊢
    simp only [List.mem_flatMap, List.mem_map] at ht ⊢
    obtain ⟨p, ⟨f, hf, rfl⟩, htp⟩ := ht
    exact ⟨importOne f, ⟨f, hsub.subset hf, rfl⟩, htp⟩


theorem resolve_sublist {fs : FS} {pat : Bytes} {ms : List (String × Bytes)} (h : resolve fs pat = .files ms) :
    ms.Sublist fs.files := by
  unfold resolve at h
  split at h
  · cases h
  · split at h
    · cases h
    · simp only at h
      split at h
      · cases h
      · cases h; exact List.filter_sublist

theorem scanFiles_none {fr : List (List Active)} {ms : List (String × Bytes)} (h : scanFiles true fr ms = none) :
    ∀ f ∈ ms, importing fr (.file f.1) = false := by
  induction ms with
  | nil => intro f hf; cases hf
  | cons x xs ih =>
    unfold scanFiles at h
    simp only [Bool.true_and] at h
    split at h
    · cases h
    · rename_i hx
      split at h
      · cases h
      · intro f hf
        rcases List.mem_cons.mp hf with rfl | hf
        · simpa using hx
        · exact ih h f hf

theorem heads_mem {fs : List (List Active)} {n : ImpName} (h : n ∈ heads fs) : ∃ f ∈ fs, ∃ e ∈ f, e.name = n :=
  importing_mem ((importing_iff fs n).mpr h)

/-- `popFrames` only drops entries and frames -/
theorem popFrames_mem (A : Nat) (l : List (List Active)) : ∀ g ∈ popFrames A l, ∀ x ∈ g, ∃ g' ∈ l, x ∈ g' := by
  induction l with
  | nil => intro g hg; simp [popFrames] at hg
  | cons g0 rest ih =>
    intro g hg x hx
    rcases dropFinished_spec A g0 with ⟨hd, _⟩ | ⟨pre, hpre, hdne, _⟩
    · rw [popFrames_cons_nil hd] at hg
      obtain ⟨g', hg', hx'⟩ := ih g hg x hx
      exact ⟨g', List.mem_cons_of_mem _ hg', hx'⟩
    · rw [popFrames_cons_ne hdne] at hg
      rcases List.mem_cons.mp hg with rfl | hg
      · exact ⟨g0, List.mem_cons_self, by rw [hpre]; exact List.mem_append_right _ hx⟩
      · exact ⟨g, List.mem_cons_of_mem _ hg, hx⟩

/-- the stack an import directive followed by `A` tokens starts from -/
theorem pop_measure (cfg : Cfg) (sn : Snips) (fs : List (List Active)) (A : Nat)
    (hf : FOK fs) (hn : ∀ f ∈ fs, ∀ e ∈ f, e.name ∈ srcNames cfg sn) :
    (∀ f ∈ popFrames A fs, ∀ e ∈ f, e.name ∈ srcNames cfg sn) ∧
    phiK (wt cfg sn (popFrames A fs)) A = phiK (wt cfg sn fs) A ∧
    wt cfg sn fs (A + 1) = wgt (LmaxS cfg sn + 2) (srcNames cfg sn).length (popFrames A fs).length := by
  obtain ⟨hp1, hp2, hp3, hp4⟩ := popFrames_spec A fs hf
  have hall : ∀ f ∈ popFrames A fs, lastAfter f ≤ A := lastAfter_le_of_FOK hp1 A hp2
  refine ⟨?_, ?_, ?_⟩
  · intro f hfm e he
    obtain ⟨g', hg', hx'⟩ := popFrames_mem A fs f hfm e he
    exact hn g' hg' e hx'
  · exact phiK_congr A (fun r hr => by unfold wt; rw [hp3 r (by omega)])
  · unfold wt; rw [← hp3 (A + 1) (Nat.le_refl _), dep_all hall (by omega)]

/-- an import that splices nothing (an empty glob): the two tokens of the directive are gone -/
theorem empty_measure (cfg : Cfg) (sn : Snips) (fs : List (List Active)) (A : Nat)
    (hf : FOK fs) (hn : ∀ f ∈ fs, ∀ e ∈ f, e.name ∈ srcNames cfg sn) :
    phiK (wt cfg sn (popFrames A fs)) A + 1 ≤ phiK (wt cfg sn fs) (A + 1) := by
  obtain ⟨_, hbase, _⟩ := pop_measure cfg sn fs A hf hn
  have hphi : phiK (wt cfg sn fs) (A + 1) = phiK (wt cfg sn fs) A + wt cfg sn fs (A + 1) := rfl
  rw [hbase, hphi]
  have := wt_pos cfg sn fs (A + 1)
  omega

/-- the stack and the measure after one import directive that is followed by `A` tokens and pushes the sources `fnew`,
`m` tokens in all -/
theorem push_measure (cfg : Cfg) (sn : Snips) (fs : List (List Active)) (A m : Nat) (fnew : List Active)
    (hf : FOK fs) (hn : ∀ f ∈ fs, ∀ e ∈ f, e.name ∈ srcNames cfg sn)
    (hne : fnew ≠ []) (hs : fnew.Pairwise (fun x y => y.after ≤ x.after)) (hla : lastAfter fnew = A)
    (hgood : ∀ e ∈ fnew, importing (popFrames A fs) e.name = false)
    (hnew : ∀ e ∈ fnew, e.name ∈ srcNames cfg sn) (hm : m ≤ LmaxS cfg sn) :
    FOK (fnew :: popFrames A fs) ∧ (∀ f ∈ fnew :: popFrames A fs, ∀ e ∈ f, e.name ∈ srcNames cfg sn) ∧
    phiK (wt cfg sn (fnew :: popFrames A fs)) (A + m) + 1 ≤ phiK (wt cfg sn fs) (A + 1) := by
  obtain ⟨hp1, hp2, hp3, hp4⟩ := popFrames_spec A fs hf
  obtain ⟨hpn, hbase, hw1⟩ := pop_measure cfg sn fs A hf hn
  have hphi : phiK (wt cfg sn fs) (A + 1) = phiK (wt cfg sn fs) A + wt cfg sn fs (A + 1) := rfl
  obtain ⟨hq1, hq2, hq3⟩ := push_spec (fnew := fnew) hp1 hp2 hne hs hla hgood
  have hnfr : ∀ f ∈ fnew :: popFrames A fs, ∀ e ∈ f, e.name ∈ srcNames cfg sn := by
    intro f hfm e he
    rcases List.mem_cons.mp hfm with rfl | hfm
    · exact hnew e he
    · exact hpn f hfm e he
  refine ⟨hq1, hnfr, ?_⟩
  -- depth bound from the distinctness of the sources being expanded
  obtain ⟨hnd, hhl⟩ := heads_nodup hq1
  have hdepth : (popFrames A fs).length + 1 ≤ (srcNames cfg sn).length := by
    have := nodup_length_le (heads (fnew :: popFrames A fs)) (srcNames cfg sn) hnd (fun n hnm => by
      obtain ⟨f, hfm, e, he, rfl⟩ := heads_mem hnm
      exact hnfr f hfm e he)
    rw [hhl] at this
    simpa using this
  have hconst : phiK (wt cfg sn (fnew :: popFrames A fs)) (A + m) =
      phiK (wt cfg sn (fnew :: popFrames A fs)) A + m * wgt (LmaxS cfg sn + 2) (srcNames cfg sn).length ((popFrames A fs).length + 1) :=
    phiK_const A m _ (fun r h1 _ => by unfold wt; rw [hq3 r h1])
  have hlow : phiK (wt cfg sn (fnew :: popFrames A fs)) A = phiK (wt cfg sn fs) A := by
    rw [← hbase]
    exact phiK_congr A (fun r hr => by unfold wt; rw [hq2 r hr])
  rw [hconst, hlow, hphi, hw1]
  have := wgt_step (LmaxS cfg sn) (srcNames cfg sn).length (popFrames A fs).length m (by omega) hm
  omega

theorem lookupSnippet_some {sn : Snips} {k : Bytes} {body : List Token} (h : lookupSnippet sn k = some body) :
    (k, body) ∈ sn := by
  unfold lookupSnippet at h
  cases hf : sn.find? (fun p => p.1 == k) with
  | none => rw [hf] at h; cases h
  | some p =>
    rw [hf] at h
    simp only [Option.map_some, Option.some.injEq] at h
    have h1 := List.find?_some hf
    have h2 := List.mem_of_find?_eq_some hf
    simp only [beq_iff_eq] at h1
    obtain ⟨a, b⟩ := p
    simp only at h1 h
    subst h1; subst h; exact h2

theorem lookupSnippet_none {sn : Snips} {k : Bytes} (h : lookupSnippet sn k = none) : k ∉ sn.map (·.1) := by
  unfold lookupSnippet at h
  simp only [Option.map_eq_none_iff, List.find?_eq_none, beq_iff_eq] at h
  intro hm
  obtain ⟨p, hp, hpk⟩ := List.mem_map.mp hm
  exact h p hp hpk

/-- what one import directive splices in, and the import stack afterwards -/
def ImpPost (cfg : Cfg) (o : List Token) (sn : Snips) (fs : List (List Active)) (A : Nat)
    (imp : List Token × List (List Active)) : Prop :=
  (∀ t ∈ imp.1, t ∈ srcToks cfg o) ∧ FOK imp.2 ∧ (∀ f ∈ imp.2, ∀ e ∈ f, e.name ∈ srcNames cfg sn) ∧
  phiK (wt cfg sn imp.2) (A + imp.1.length) + 1 ≤ phiK (wt cfg sn fs) (A + 1)

/-- `resolveImport` with the cycle check on: needs no fuel; files and snippets alike push one frame of fresh sources
whose tokens weigh less than the directive did -/
theorem resolveImport_tm (cfg : Cfg) (o : List Token) (sn : Snips) (hcc : cfg.cycleCheck = true) (s : PState)
    (h : TInv cfg o sn s) (d1 : Disp) (pat : Bytes) (A : Nat) :
    Tm (ImpPost cfg o sn s.frames A) (resolveImport cfg s d1 pat A) := by
  unfold resolveImport
  simp only [hcc, if_true, Bool.true_and]
  rw [h.snip]
  cases hl : lookupSnippet sn pat with
  | some body =>
    simp only
    split
    · exact trivial
    · rename_i hnimp
      have hmem := lookupSnippet_some hl
      have hgood : ∀ e ∈ [(⟨.snippet pat, A⟩ : Active)], importing (popFrames A s.frames) e.name = false := by
        intro e he
        simp only [List.mem_singleton] at he
        subst he
        simpa using hnimp
      have hnew : ∀ e ∈ [(⟨.snippet pat, A⟩ : Active)], e.name ∈ srcNames cfg sn := by
        intro e he
        simp only [List.mem_singleton] at he
        subst he
        exact List.mem_append_right _ (List.mem_map.mpr ⟨(pat, body), hmem, rfl⟩)
      have hm : body.length ≤ LmaxS cfg sn := by
        have : body.length ≤ (sn.map (·.2.length)).sum := mem_le_sum (List.mem_map.mpr ⟨(pat, body), hmem, rfl⟩)
        unfold LmaxS; omega
      obtain ⟨hF1, hF2, hF3⟩ := push_measure cfg sn s.frames A body.length [⟨.snippet pat, A⟩] h.fok h.names
        (by simp) (List.pairwise_singleton _ _) rfl hgood hnew hm
      exact ⟨h.body (pat, body) hmem, hF1, hF2, hF3⟩
  | none =>
    simp only
    split
    · exact trivial
    · rename_i ms hres
      split
      · exact trivial
      · rename_i hscan
        have hsub := resolve_sublist hres
        have hsc := scanFiles_none hscan
        obtain ⟨hlen, hm2, hsum⟩ := imported_spec cfg o ms hsub
        have hlenS : ((importFiles ms).flatMap (·.2)).length ≤ LmaxS cfg sn := by unfold LmaxS; omega
        obtain ⟨ha1, ha2, ha3, _⟩ := activesOf_spec (importFiles ms) A
        show ImpPost cfg o sn s.frames A (_, _)
        cases hact : activesOf (importFiles ms) A with
        | nil =>
          have him : importFiles ms = [] := by
            by_cases himp : importFiles ms = []
            · exact himp
            · exact absurd hact (ha3 himp).1
          obtain ⟨hpn, _, _⟩ := pop_measure cfg sn s.frames A h.fok h.names
          refine ⟨hm2, (popFrames_spec A s.frames h.fok).1, hpn, ?_⟩
          simp only [him, List.flatMap_nil, List.length_nil, Nat.add_zero]
          exact empty_measure cfg sn s.frames A h.fok h.names
        | cons x xs =>
          have hne : importFiles ms ≠ [] := by intro he; rw [he] at hact; simp [activesOf] at hact
          have hgood : ∀ e ∈ x :: xs, importing (popFrames A s.frames) e.name = false := by
            intro e he
            obtain ⟨_, p, hp, hname⟩ := ha2 e (by rw [hact]; exact he)
            rw [importFiles_eq_map] at hp
            obtain ⟨f, hfm, rfl⟩ := List.mem_map.mp hp
            rw [hname]; exact hsc f hfm
          have hnew : ∀ e ∈ x :: xs, e.name ∈ srcNames cfg sn := by
            intro e he
            obtain ⟨_, p, hp, hname⟩ := ha2 e (by rw [hact]; exact he)
            rw [importFiles_eq_map] at hp
            obtain ⟨f, hfm, rfl⟩ := List.mem_map.mp hp
            rw [hname]
            exact List.mem_append_left _ (List.mem_map.mpr ⟨f, hsub.subset hfm, rfl⟩)
          obtain ⟨hF1, hF2, hF3⟩ := push_measure cfg sn s.frames A ((importFiles ms).flatMap (·.2)).length (x :: xs)
            h.fok h.names (by simp) (hact ▸ ha1) (hact ▸ (ha3 hne).2) hgood hnew hlenS
          exact ⟨hm2, hF1, hF2, hF3⟩

theorem K_back {s : PState} (h : cursorOk s.d) : K (back s) = (s.d.len - s.d.cursor).toNat := by
  unfold K back
  simp only [setCursor_cursor, setCursor_len]
  congr 1; omega

/-- `doImport`: no fuel needed; afterwards the measure is strictly smaller, even after stepping back one token -/
theorem doImport_tm (cfg : Cfg) (o : List Token) (sn : Snips) (hyp : HypS cfg o) (s : PState) (h : TInv cfg o sn s)
    (h0 : 0 ≤ s.d.cursor) :
    Tm (fun s2 => TFresh cfg o sn s2 ∧ s2.d.cursor = s.d.cursor ∧ s2.keys = s.keys ∧ s2.eof = s.eof ∧
      Phi cfg sn (back s2) + 1 ≤ Phi cfg sn s ∧ Phi cfg sn s2 ≤ Phi cfg sn (back s2)) (doImport cfg s) := by
  obtain ⟨hcc, hfuel, henv⟩ := hyp
  have hs := nextArg_spec s.d h.ok
  unfold doImport
  simp only
  cases hr1 : s.d.nextArg.1 with
  | false => simp only [Bool.not_false, if_true]; exact trivial
  | true =>
    simp only [Bool.not_true, Bool.false_eq_true, if_false]
    obtain ⟨hc, hb⟩ := hs.2.2.1 hr1
    have hl : s.d.nextArg.2.len = s.d.len := hs.mono.len
    have htoks : s.d.nextArg.2.tokens = s.d.tokens := hs.1.tokens
    have hlen := len_nonneg s.d
    have hcur := h.ok; unfold cursorOk at hcur
    -- the argument token is a source token, so its environment replacement ends
    have hcl : s.d.nextArg.2.cursor < s.d.len := by
      have : max s.d.len 1 = s.d.len ∨ s.d.len = 0 := by omega
      omega
    obtain ⟨ta, hta⟩ := tokAt_isSome (ts := s.d.tokens) (i := s.d.nextArg.2.cursor) (by omega) (by simpa [Disp.len] using hcl)
    have htam : ta ∈ srcToks cfg o := by
      have hidx : s.d.tokens[s.d.nextArg.2.cursor.toNat]? = some ta := by
        unfold tokAt at hta; rw [if_pos (by omega)] at hta; exact hta
      exact h.after _ (by omega) ta hidx
    have hval : s.d.nextArg.2.val = ta.text := by
      unfold Disp.val Disp.tok?; rw [htoks, hta]
    obtain ⟨pat, hpat⟩ := henv ta htam
    rw [hval, hpat]
    simp only [Res.bind]
    split
    · exact trivial
    · split
      · exact trivial
      · have hnp : ¬ (s.d.nextArg.2.cursor - 1 < 0 ∨ s.d.nextArg.2.cursor + 1 > s.d.nextArg.2.len) := by
          rw [hl, hc]; omega
        rw [if_neg hnp]
        -- shorthand: i = position of the import token, A = tokens after the directive
        obtain ⟨i, hi⟩ : ∃ i : Nat, s.d.cursor = (i : Int) := ⟨s.d.cursor.toNat, by omega⟩
        have hlenN : i + 2 ≤ s.d.tokens.length := by simp only [Disp.len] at hcl; omega
        have e1 : (s.d.nextArg.2.cursor - 1).toNat = i := by omega
        have e2 : (s.d.nextArg.2.cursor + 1).toNat = i + 2 := by omega
        have e3 : s.d.nextArg.2.cursor - 1 = (i : Int) := by omega
        have hA : (List.drop (i + 2) s.d.tokens).length = s.d.tokens.length - (i + 2) := List.length_drop
        rw [htoks, e1, e2, e3, hA]
        generalize hAdef : s.d.tokens.length - (i + 2) = A
        refine Tm.bind (resolveImport_tm cfg o sn hcc s h _ pat A) fun imp himp => ?_
        obtain ⟨hm2, hF1, hF2, hF3⟩ := himp
        have hnewlen : (List.take i s.d.tokens ++ imp.1 ++ List.drop (i + 2) s.d.tokens).length = i + imp.1.length + A := by
          simp only [List.length_append, List.length_take, List.length_drop]; omega
        have hmem : ∀ j : Nat, i ≤ j → ∀ t, (List.take i s.d.tokens ++ imp.1 ++ List.drop (i + 2) s.d.tokens)[j]? = some t →
            t ∈ srcToks cfg o := by
          intro j hj t ht
          rw [List.append_assoc, List.getElem?_append_right (by simp only [List.length_take]; omega)] at ht
          have hmm := List.mem_of_getElem? ht
          rcases List.mem_append.mp hmm with hm | hm
          · exact hm2 t hm
          · obtain ⟨k, hk⟩ := List.getElem?_of_mem hm
            rw [List.getElem?_drop] at hk
            exact h.after (i + 2 + k) (by omega) t hk
        refine ⟨⟨⟨⟨?_, ?_⟩, h.snip, h.body, hF1, hF2, ?_, h.keys⟩, ?_, ?_⟩, ?_, rfl, rfl, ?_, ?_⟩
        · simp only; omega
        · simp only [Disp.len, hnewlen]; omega
        · intro j hj t ht
          exact hmem j (by have : (i : Int) < (j : Int) := hj; omega) t ht
        · simp only; omega
        · intro t ht
          simp only [Disp.tok?] at ht
          unfold tokAt at ht
          rw [if_pos (Int.natCast_nonneg i)] at ht
          simp only [Int.toNat_natCast] at ht
          exact hmem i (Nat.le_refl _) t ht
        · simp only; omega
        · -- the measure
          have hKs : K s = A + 1 := by
            unfold K; simp only [Disp.len]; omega
          unfold Phi
          rw [hKs]
          have hKb : ∀ s' : PState, s'.d.len = ((i + imp.1.length + A : Nat) : Int) → s'.d.cursor = (i : Int) →
              K (back s') = A + imp.1.length := by
            intro s' h1 h2
            unfold K back
            simp only [setCursor_cursor, setCursor_len, h1, h2]
            omega
          rw [hKb _ (by simp only [Disp.len, hnewlen]) rfl]
          simp only [back]
          exact hF3
        · unfold Phi
          apply phiK_mono
          unfold K back
          simp only [setCursor_cursor, setCursor_len]
          omega


/-! ### the measure along the parser's small steps -/

theorem Phi_congr {cfg : Cfg} {sn : Snips} {s s' : PState} (hf : s'.frames = s.frames) (hl : s'.d.len = s.d.len)
    (hc : s'.d.cursor = s.d.cursor) : Phi cfg sn s' = Phi cfg sn s := by
  unfold Phi K; rw [hf, hl, hc]

theorem Phi_le_back (cfg : Cfg) (sn : Snips) (s : PState) : Phi cfg sn s ≤ Phi cfg sn (back s) := by
  unfold Phi
  apply phiK_mono
  unfold K back
  simp only [setCursor_cursor, setCursor_len]
  omega

theorem tinv_of_d {cfg : Cfg} {o : List Token} {sn : Snips} {s s' : PState} (h : TInv cfg o sn s) (hd : s'.d = s.d)
    (hs : s'.snippets = s.snippets) (hf : s'.frames = s.frames) (hk : ∀ k ∈ s'.keys, KeyOK cfg o k) : TInv cfg o sn s' :=
  ⟨by rw [hd]; exact h.ok, by rw [hs]; exact h.snip, h.body, by rw [hf]; exact h.fok, by rw [hf]; exact h.names,
   by rw [hd]; exact h.after, hk⟩

/-- a successful `Next`: on a source token, measure strictly down; stepping back restores it -/
theorem tnext {cfg : Cfg} {o : List Token} {sn : Snips} {s : PState} (h : TInv cfg o sn s) (ht : s.d.next.1 = true) :
    TFresh cfg o sn { s with d := s.d.next.2 } ∧ Phi cfg sn { s with d := s.d.next.2 } + 1 ≤ Phi cfg sn s ∧
    Phi cfg sn (back { s with d := s.d.next.2 }) = Phi cfg sn s ∧ (∃ t, s.d.next.2.tok? s.d.next.2.cursor = some t) := by
  obtain ⟨hs, hlt⟩ := next_spec s.d h.ok
  obtain ⟨hc, _⟩ := hs.2.2.1 ht
  have hb := hlt ht
  have hl := hs.mono.len
  obtain ⟨hok1, h01, t, htok⟩ := next_true_tok h.ok ht
  have hcur := h.ok
  unfold cursorOk at hcur
  have hafter : ∀ i : Nat, s.d.cursor < (i : Int) → ∀ t, s.d.next.2.tokens[i]? = some t → t ∈ srcToks cfg o := by
    intro i hi t ht; rw [hs.1.tokens] at ht; exact h.after i hi t ht
  refine ⟨⟨⟨hok1, h.snip, h.body, h.fok, h.names, fun i hi => hafter i (by simp only at hi; omega), h.keys⟩, h01, ?_⟩, ?_, ?_, ⟨t, htok⟩⟩
  · intro t' ht'
    simp only [Disp.tok?] at ht'
    unfold tokAt at ht'
    rw [if_pos h01] at ht'
    exact hafter _ (by omega) t' ht'
  · -- K goes down by one
    have hK : K s = K { s with d := s.d.next.2 } + 1 := by
      unfold K; simp only [hl, hc]; omega
    unfold Phi
    rw [hK]
    simp only [phiK]
    have := wt_pos cfg sn s.frames (K { s with d := s.d.next.2 } + 1)
    omega
  · refine Phi_congr (s := s) (s' := back { s with d := s.d.next.2 }) rfl ?_ ?_
    · simp only [back, setCursor_len, hl]
    · simp only [back, setCursor_cursor, hc]; omega

theorem tback {cfg : Cfg} {o : List Token} {sn : Snips} {s : PState} (h : TFresh cfg o sn s) : TInv cfg o sn (back s) := by
  obtain ⟨hi, h0, hf⟩ := h
  refine ⟨ok_back ⟨hi.ok, h0⟩, hi.snip, hi.body, hi.fok, hi.names, ?_, hi.keys⟩
  intro i hlt t ht
  simp only [back, setCursor_cursor, setCursor_tokens] at hlt ht
  by_cases hic : s.d.cursor < (i : Int)
  · exact hi.after i hic t ht
  · have : (i : Int) = s.d.cursor := by omega
    apply hf t
    unfold Disp.tok? tokAt
    rw [if_pos h0, ← this]
    simpa using ht

/-- the value under the cursor expands; the expansion is empty or that of a source token -/
theorem tfresh_val {cfg : Cfg} {o : List Token} {sn : Snips} {s : PState} (h : TFresh cfg o sn s) (hyp : HypS cfg o) :
    ∃ r, envR cfg s.d.val = .ok r ∧ (r = [] ∨ ∃ t ∈ srcToks cfg o, envR cfg t.text = .ok r) := by
  unfold Disp.val
  cases ht : s.d.tok? s.d.cursor with
  | none => exact ⟨[], envR_nil cfg hyp.2.1, Or.inl rfl⟩
  | some t =>
    obtain ⟨r, hr⟩ := hyp.2.2 t (h.2.2 t ht)
    exact ⟨r, hr, Or.inr ⟨t, h.2.2 t ht, hr⟩⟩

theorem appendCur_tm (cfg : Cfg) (dir : Bytes) {o : List Token} {sn : Snips} (hyp : HypS cfg o) {s : PState}
    (h : TFresh cfg o sn s) (ht : ∃ t, s.d.tok? s.d.cursor = some t) :
    Tm (fun s' => TInv cfg o sn s' ∧ s'.frames = s.frames ∧ s'.d.len = s.d.len ∧ s'.d.cursor = s.d.cursor ∧ 0 ≤ s'.d.cursor)
      (appendCur cfg dir s) := by
  obtain ⟨t, ht⟩ := ht
  obtain ⟨r, hr⟩ := hyp.2.2 t (h.2.2 t ht)
  unfold appendCur
  rw [ht]
  simp only [hr, Res.bind]
  obtain ⟨hi, h0, _⟩ := h
  refine ⟨⟨?_, hi.snip, hi.body, hi.fok, hi.names, ?_, hi.keys⟩, rfl, ?_, rfl, h0⟩
  · have := hi.ok
    unfold cursorOk at this ⊢
    simp only [Disp.len, List.length_set] at this ⊢
    exact this
  · intro i hlt t' ht'
    simp only at hlt ht'
    rw [List.getElem?_set] at ht'
    have : s.d.cursor.toNat ≠ i := by omega
    simp only [this, if_false] at ht'
    exact hi.after i hlt t' ht'
  · simp only [Disp.len, List.length_set]

theorem directiveLoop_tm (cfg : Cfg) (dir : Bytes) {o : List Token} {sn : Snips} (hyp : HypS cfg o) (fuel : Nat) (s : PState)
    (n : Nat) (h : TInv cfg o sn s) (hf : Phi cfg sn s < fuel) :
    Tm (fun s' => TInv cfg o sn s' ∧ Phi cfg sn s' ≤ Phi cfg sn s) (directiveLoop cfg dir fuel s n) := by
  induction fuel generalizing s n with
  | zero => omega
  | succ k ih =>
    unfold directiveLoop
    simp only
    cases hn : s.d.next.1 with
    | false =>
      simp only [Bool.not_false, if_true]
      split
      · exact trivial
      · exact ⟨h, Nat.le_refl _⟩
    | true =>
      simp only [Bool.not_true, Bool.false_eq_true, if_false]
      obtain ⟨hfr, hphi, hback, htok⟩ := tnext h hn
      have happ : ∀ m, Tm (fun s' => TInv cfg o sn s' ∧ Phi cfg sn s' ≤ Phi cfg sn s)
          ((appendCur cfg dir { s with d := s.d.next.2 }).bind fun s2 => directiveLoop cfg dir k s2 m) := by
        intro m
        refine Tm.bind (appendCur_tm cfg dir hyp hfr htok) fun s2 h2 => ?_
        obtain ⟨hi2, hf2, hl2, hc2, _⟩ := h2
        have he : Phi cfg sn s2 = Phi cfg sn { s with d := s.d.next.2 } := Phi_congr hf2 hl2 hc2
        exact (ih s2 m hi2 (by omega)).mono fun s' hs' => ⟨hs'.1, by omega⟩
      split
      · exact happ _
      · split
        · exact ⟨tback hfr, by omega⟩
        · split
          · exact happ _
          · split
            · exact trivial
            · split
              · refine Tm.bind (doImport_tm cfg o sn hyp _ hfr.1 hfr.2.1) fun s2 h2 => ?_
                obtain ⟨hfr2, _, _, _, hb2, _⟩ := h2
                exact (ih _ _ (tback hfr2) (by omega)).mono fun s' hs' => ⟨hs'.1, by omega⟩
              · exact happ _

theorem directive_tm (cfg : Cfg) {o : List Token} {sn : Snips} (hyp : HypS cfg o) (fuel : Nat) (s : PState)
    (h : TFresh cfg o sn s) (ht : ∃ t, s.d.tok? s.d.cursor = some t) (hf : Phi cfg sn s < fuel) :
    Tm (fun s' => TInv cfg o sn s' ∧ Phi cfg sn s' ≤ Phi cfg sn s) (directive cfg fuel s) := by
  obtain ⟨t, ht⟩ := ht
  obtain ⟨r, hr, _⟩ := tfresh_val h hyp
  unfold directive
  simp only [hr, Res.bind]
  split
  · exact trivial
  · rw [ht]
    exact directiveLoop_tm cfg r hyp fuel _ 0 (tinv_of_d h.1 rfl rfl rfl h.1.keys) hf

theorem directives_tm (cfg : Cfg) {o : List Token} {sn : Snips} (hyp : HypS cfg o) (fuel : Nat) (s : PState)
    (h : TInv cfg o sn s) (hf : Phi cfg sn s < fuel) :
    Tm (fun s' => TInv cfg o sn s' ∧ Phi cfg sn s' ≤ Phi cfg sn s ∧
      (s.d.next.1 = true → Phi cfg sn s' ≤ Phi cfg sn { s with d := s.d.next.2 })) (directives cfg fuel s) := by
  induction fuel generalizing s with
  | zero => omega
  | succ k ih =>
    unfold directives
    simp only
    cases hn : s.d.next.1 with
    | false =>
      simp only [Bool.not_false, if_true]
      exact ⟨h, Nat.le_refl _, fun hh => by cases hh⟩
    | true =>
      simp only [Bool.not_true, Bool.false_eq_true, if_false]
      obtain ⟨hfr, hphi, hback, htok⟩ := tnext h hn
      split
      · exact ⟨hfr.1, by omega, fun _ => Nat.le_refl _⟩
      · split
        · refine Tm.bind (doImport_tm cfg o sn hyp _ hfr.1 hfr.2.1) fun s2 h2 => ?_
          obtain ⟨hfr2, _, _, _, hb2, _⟩ := h2
          exact (ih _ (tback hfr2) (by omega)).mono fun s' hs' => ⟨hs'.1, by have := hs'.2.1; omega, fun _ => by have := hs'.2.1; omega⟩
        · refine Tm.bind (directive_tm cfg hyp (k + 1) _ hfr htok (by omega)) fun s2 h2 => ?_
          obtain ⟨hi2, hp2⟩ := h2
          exact (ih s2 hi2 (by omega)).mono fun s' hs' => ⟨hs'.1, by have := hs'.2.1; omega, fun _ => by have := hs'.2.1; omega⟩


theorem head_dropLast_ne {l : Bytes} (h : l.head? ≠ some lparen) : l.dropLast.head? ≠ some lparen := by
  cases l with
  | nil => simp
  | cons a t =>
    cases t with
    | nil => simp
    | cons b u => simpa [List.dropLast] using h

theorem addKey_keys {cfg : Cfg} {o : List Token} {keys : List Bytes} {e : Bool} {tkn : Bytes} (hk : ∀ k ∈ keys, KeyOK cfg o k)
    (ht : tkn = [] ∨ ∃ t ∈ srcToks cfg o, envR cfg t.text = .ok tkn) : ∀ k ∈ (addKey keys e tkn).1, KeyOK cfg o k := by
  unfold addKey
  split
  · exact hk
  · rename_i hne
    rcases ht with rfl | ⟨t, htm, hr⟩
    · exact absurd rfl hne
    · split
      · intro k hkm
        rcases List.mem_append.mp hkm with h1 | h1
        · exact hk k h1
        · simp only [List.mem_singleton] at h1; exact ⟨t, htm, tkn, hr, Or.inr h1⟩
      · intro k hkm
        rcases List.mem_append.mp hkm with h1 | h1
        · exact hk k h1
        · simp only [List.mem_singleton] at h1; exact ⟨t, htm, tkn, hr, Or.inl h1⟩

theorem isSnippet_none_of_head {k : Bytes} (hk : k.head? ≠ some lparen) : isSnippet [k] = none := by
  unfold isSnippet
  have hb : (k.head? == some lparen) = false := by simpa using hk
  simp [hb]

theorem isSnippet_some {keys : List Bytes} {n : Bytes} (h : isSnippet keys = some n) : ∃ k, keys = [k] := by
  unfold isSnippet at h
  split at h
  · rename_i k; exact ⟨k, rfl⟩
  · cases h

theorem tfresh_keys {cfg : Cfg} {o : List Token} {sn : Snips} {s : PState} (h : TFresh cfg o sn s) (ks : List Bytes)
    (hk : ∀ k ∈ ks, KeyOK cfg o k) : TFresh cfg o sn { s with keys := ks } :=
  ⟨tinv_of_d h.1 rfl rfl rfl hk, h.2.1, h.2.2⟩

/-- where `addresses` stops, and what it did to the measure (with and without the token under the cursor) -/
def AddrPostT (cfg : Cfg) (o : List Token) (sn : Snips) (s s' : PState) : Prop :=
  TInv cfg o sn s' ∧ Phi cfg sn s' ≤ Phi cfg sn s ∧ Phi cfg sn (back s') ≤ Phi cfg sn (back s) ∧
  (s'.eof = true ∨ (TFresh cfg o sn s' ∧ ∃ t, s'.d.tok? s'.d.cursor = some t))

theorem addresses_tm (cfg : Cfg) {o : List Token} {sn : Snips} (hyp : HypS cfg o) (fuel : Nat) (s : PState) (e : Bool)
    (h : TFresh cfg o sn s) (hf : Phi cfg sn s < fuel) : Tm (AddrPostT cfg o sn s) (addresses cfg fuel s e) := by
  induction fuel generalizing s e with
  | zero => omega
  | succ k ih =>
    obtain ⟨r, hr, hrh⟩ := tfresh_val h hyp
    unfold addresses
    simp only [hr, Res.bind]
    split
    · -- import
      refine Tm.bind (doImport_tm cfg o sn hyp s h.1 h.2.1) fun s2 h2 => ?_
      obtain ⟨hfr2, _, _, _, hb2, hle2⟩ := h2
      refine (ih s2 e hfr2 (by omega)).mono fun s' hs' => ?_
      obtain ⟨p1, p2, p3, p4⟩ := hs'
      have := Phi_le_back cfg sn s
      exact ⟨p1, by omega, by omega, p4⟩
    · split
      · rename_i hlb
        split
        · exact trivial
        · refine ⟨h.1, Nat.le_refl _, Nat.le_refl _, Or.inr ⟨h, ?_⟩⟩
          cases ht : s.d.tok? s.d.cursor with
          | some t => exact ⟨t, rfl⟩
          | none =>
            have hv : s.d.val = [] := by unfold Disp.val; rw [ht]
            rw [hv, envR_nil cfg hyp.2.1] at hr
            cases hr
            exact absurd hlb (by decide)
      · have hkeys := addKey_keys (e := e) h.1.keys hrh
        cases hn : s.d.next.1 with
        | false =>
          have hd : s.d.next.2 = s.d := next_false_eq h.1.ok hn
          simp only [Bool.not_false, Bool.and_true]
          split
          · exact trivial
          · simp only [if_true]
            have hti : TInv cfg o sn { s with d := s.d.next.2, keys := (addKey s.keys e r).1, eof := true } :=
              tinv_of_d h.1 hd rfl rfl hkeys
            refine ⟨hti, ?_, ?_, Or.inl rfl⟩
            · exact Nat.le_of_eq (Phi_congr rfl (by simp only [hd]) (by simp only [hd]))
            · exact Nat.le_of_eq (Phi_congr (s := back s) rfl (by simp only [back, setCursor_len, hd]) (by simp only [back, setCursor_cursor, hd]))
        | true =>
          obtain ⟨hfr, hphi, hback, htok⟩ := tnext h.1 hn
          simp only [Bool.not_true, Bool.and_false, Bool.false_eq_true, if_false]
          have hfr' : TFresh cfg o sn { s with d := s.d.next.2, keys := (addKey s.keys e r).1 } := tfresh_keys hfr _ hkeys
          have hp1 : Phi cfg sn { s with d := s.d.next.2, keys := (addKey s.keys e r).1 } = Phi cfg sn { s with d := s.d.next.2 } :=
            Phi_congr rfl rfl rfl
          have hp2 : Phi cfg sn (back { s with d := s.d.next.2, keys := (addKey s.keys e r).1 }) = Phi cfg sn s := by
            rw [← hback]; exact Phi_congr rfl rfl rfl
          have hlb := Phi_le_back cfg sn s
          split
          · exact ⟨hfr'.1, by omega, by omega, Or.inr ⟨hfr', htok⟩⟩
          · refine (ih _ _ hfr' (by omega)).mono fun s' hs' => ?_
            obtain ⟨p1, p2, p3, p4⟩ := hs'
            exact ⟨p1, by omega, by omega, p4⟩

theorem blockContents_tm (cfg : Cfg) {o : List Token} {sn : Snips} (hyp : HypS cfg o) (fuel : Nat) (s : PState)
    (h : TFresh cfg o sn s) (ht : ∃ t, s.d.tok? s.d.cursor = some t) (hf : Phi cfg sn (back s) < fuel) :
    Tm (fun s' => TInv cfg o sn s' ∧ Phi cfg sn s' ≤ Phi cfg sn s) (blockContents cfg fuel s) := by
  obtain ⟨t, ht⟩ := ht
  have hlt : s.d.cursor < s.d.len := by
    have := (tokAt_some (show tokAt s.d.tokens s.d.cursor = some t from ht)).2
    simp only [Disp.len]; exact this
  have hlb := Phi_le_back cfg sn s
  unfold blockContents
  simp only
  by_cases hno : (s.d.val != lbrace) = true
  · simp only [hno, if_true]
    have hb := tback h
    have hnx : (back s).d.next.1 = true := by
      unfold Disp.next back
      simp only [setCursor_cursor, setCursor_len]
      have : s.d.cursor - 1 < s.d.len - 1 := by omega
      simp [this]
    have hnx2 : (back s).d.next.2 = (back s).d.setCursor ((back s).d.cursor + 1) := by
      unfold Disp.next
      have : (back s).d.cursor < (back s).d.len - 1 := by
        simp only [back, setCursor_cursor, setCursor_len]; omega
      simp [this]
    refine Tm.bind (directives_tm cfg hyp fuel _ hb hf) fun s1 h1 => ?_
    obtain ⟨hi1, _, hstep⟩ := h1
    have h2 := hstep hnx
    have he : Phi cfg sn { back s with d := (back s).d.next.2 } = Phi cfg sn s := by
      refine Phi_congr (s := s) (s' := { back s with d := (back s).d.next.2 }) rfl ?_ ?_
      · show (back s).d.next.2.len = s.d.len
        rw [hnx2]; simp only [back, setCursor_len]
      · show (back s).d.next.2.cursor = s.d.cursor
        rw [hnx2]; simp only [back, setCursor_cursor]; omega
    simp only [Bool.not_true, Bool.false_and, Bool.false_eq_true, if_false]
    exact ⟨hi1, by rw [he] at h2; exact h2⟩
  · simp only [hno, Bool.false_eq_true, if_false]
    refine Tm.bind (directives_tm cfg hyp fuel _ h.1 (by omega)) fun s1 h1 => ?_
    split
    · exact trivial
    · exact ⟨h1.1, h1.2.1⟩

/-- the collecting loop of a snippet definition only reads on: a fuel of (tokens ahead + 1) is enough, and what it
collects are tokens that were ahead of the cursor -/
theorem snippetLoop_tm (fuel : Nat) (s : PState) (c : Nat) (acc : List Token) (hok : cursorOk s.d) (hf : K s < fuel) :
    Tm (fun r => r.1 = { s with d := r.1.d } ∧ r.1.d.tokens = s.d.tokens ∧ s.d.cursor ≤ r.1.d.cursor ∧ cursorOk r.1.d ∧
      ∀ t ∈ r.2, t ∈ acc ∨ ∃ i : Nat, s.d.cursor < (i : Int) ∧ s.d.tokens[i]? = some t) (snippetLoop fuel s c acc) := by
  induction fuel generalizing s c acc with
  | zero => omega
  | succ k ih =>
    unfold snippetLoop
    simp only
    cases hn : s.d.next.1 with
    | false =>
      simp only [Bool.not_false, if_true]
      split
      · exact trivial
      · exact ⟨rfl, rfl, Int.le_refl _, hok, fun t ht => Or.inl ht⟩
    | true =>
      simp only [Bool.not_true, Bool.false_eq_true, if_false]
      obtain ⟨hs, hlt⟩ := next_spec s.d hok
      obtain ⟨hc, _⟩ := hs.2.2.1 hn
      have hl := hs.mono.len
      have htk : s.d.next.2.tokens = s.d.tokens := hs.1.tokens
      obtain ⟨hok1, h01, t, htok⟩ := next_true_tok hok hn
      rw [htok]
      have hcur := hok; unfold cursorOk at hcur
      have hK : K { s with d := s.d.next.2 } + 1 = K s := by
        have := hlt hn
        unfold K; simp only [hl, hc]; omega
      have htidx : s.d.tokens[s.d.next.2.cursor.toNat]? = some t := by
        simp only [Disp.tok?] at htok
        unfold tokAt at htok
        rw [if_pos h01, htk] at htok
        exact htok
      have hrec : ∀ c', Tm (fun r => r.1 = { s with d := r.1.d } ∧ r.1.d.tokens = s.d.tokens ∧ s.d.cursor ≤ r.1.d.cursor ∧
          cursorOk r.1.d ∧ ∀ t ∈ r.2, t ∈ acc ∨ ∃ i : Nat, s.d.cursor < (i : Int) ∧ s.d.tokens[i]? = some t)
          (snippetLoop k { s with d := s.d.next.2 } c' (acc ++ [t])) := by
        intro c'
        refine (ih { s with d := s.d.next.2 } c' (acc ++ [t]) hok1 (by omega)).mono fun r hr => ?_
        obtain ⟨r1, r2, r3, r4, r5⟩ := hr
        simp only at r1 r2 r3 r5
        refine ⟨r1, by rw [r2, htk], by omega, r4, fun t' ht' => ?_⟩
        rcases r5 t' ht' with hm | ⟨i, hi, hti⟩
        · rcases List.mem_append.mp hm with hm | hm
          · exact Or.inl hm
          · simp only [List.mem_singleton] at hm
            subst hm
            exact Or.inr ⟨s.d.next.2.cursor.toNat, by omega, htidx⟩
        · exact Or.inr ⟨i, by omega, by rw [← htk]; exact hti⟩
      by_cases hv : (s.d.next.2.val == rbrace) = true
      · simp only [hv, if_true, Bool.true_and]
        split
        · exact ⟨rfl, htk, by simp only; omega, hok1, fun t ht => Or.inl ht⟩
        · exact hrec _
      · simp only [hv, Bool.false_and, Bool.false_eq_true, if_false]
        exact hrec _

theorem srcNames_append (cfg : Cfg) (sn : Snips) (p : Bytes × List Token) {n : ImpName} (h : n ∈ srcNames cfg sn) :
    n ∈ srcNames cfg (sn ++ [p]) := by
  unfold srcNames at h ⊢
  rcases List.mem_append.mp h with h | h
  · exact List.mem_append_left _ h
  · exact List.mem_append_right _ (by rw [List.map_append]; exact List.mem_append_left _ h)

/-- what `begin` leaves: the same snippet table and no more weight ahead — or ONE new snippet, under a name that was not
defined and is one of the candidates -/
def BeginPost (cfg : Cfg) (o : List Token) (sn : Snips) (s s' : PState) : Prop :=
  (TInv cfg o sn s' ∧ Phi cfg sn s' ≤ Phi cfg sn s) ∨
  (∃ name body, name ∉ sn.map (·.1) ∧ name ∈ candNames cfg o ∧ TInv cfg o (sn ++ [(name, body)]) s')

theorem begin_tm (cfg : Cfg) {o : List Token} {sn : Snips} (hyp : HypS cfg o) (fuel : Nat) (s : PState)
    (h : TFresh cfg o sn s) (hf : Phi cfg sn (back s) < fuel) :
    Tm (BeginPost cfg o sn s) (begin cfg fuel s) := by
  have hlb := Phi_le_back cfg sn s
  unfold begin
  split
  · exact Or.inl ⟨h.1, Nat.le_refl _⟩
  · refine Tm.bind (addresses_tm cfg hyp fuel s false h (by omega)) fun s1 h1 => ?_
    obtain ⟨hi1, hp1, hpb1, hcase⟩ := h1
    split
    · exact Or.inl ⟨hi1, hp1⟩
    · rename_i hneof
      cases hcase with
      | inl he => exact absurd he hneof
      | inr hfr =>
        obtain ⟨hfr1, htok1⟩ := hfr
        split
        · rename_i name hname
          split
          · exact trivial
          · rename_i hnew
            have hnone : lookupSnippet sn name = none := by
              rw [hi1.snip] at hnew
              cases hl : lookupSnippet sn name with
              | none => rfl
              | some b => rw [hl] at hnew; simp at hnew
            unfold snippetTokens
            split
            · exact trivial
            · have hK := K_le_Phi cfg sn s1
              refine Tm.bind (snippetLoop_tm fuel s1 1 [] hi1.ok (by omega)) fun st hst => ?_
              obtain ⟨q1, q2, q3, q4, q5⟩ := hst
              obtain ⟨k, hk⟩ := isSnippet_some hname
              have hcand : name ∈ candNames cfg o :=
                candNames_mem (hi1.keys k (by rw [hk]; exact List.mem_cons_self)) (by rw [← hk]; exact hname)
              have hsn : st.1.snippets = sn := by rw [q1]; exact hi1.snip
              have hfrm : st.1.frames = s1.frames := by rw [q1]
              have hbody : ∀ t ∈ st.2, t ∈ srcToks cfg o := by
                intro t ht
                rcases q5 t ht with hm | ⟨i, hi, hti⟩
                · cases hm
                · exact hi1.after i hi t hti
              refine Or.inr ⟨name, st.2, lookupSnippet_none hnone, hcand, ⟨q4, ?_, ?_, ?_, ?_, ?_, ?_⟩⟩
              · show st.1.snippets ++ [(name, st.2)] = sn ++ [(name, st.2)]
                rw [hsn]
              · intro p hp t ht
                rcases List.mem_append.mp hp with hp | hp
                · exact hi1.body p hp t ht
                · simp only [List.mem_singleton] at hp
                  subst hp
                  exact hbody t ht
              · show FOK st.1.frames
                rw [hfrm]; exact hi1.fok
              · intro f hfm e he
                have hfm' : f ∈ s1.frames := by rw [← hfrm]; exact hfm
                exact srcNames_append cfg sn _ (hi1.names f hfm' e he)
              · intro i hi t ht
                simp only at hi ht
                rw [q2] at ht
                exact hi1.after i (by omega) t ht
              · intro k hk; cases hk
        · exact (blockContents_tm cfg hyp fuel s1 hfr1 htok1 (by omega)).mono fun s' hs' =>
            Or.inl ⟨hs'.1, by have := hs'.2; omega⟩

/-! ### the top-level loop -/

theorem parseAll_done (cfg : Cfg) (s : PState) (bs : List ServerBlock) (hn : s.d.next.1 = false) (fuel : Nat) (hf : 1 ≤ fuel) :
    Tm (fun _ => True) (parseAll cfg fuel s bs) := by
  obtain ⟨k, rfl⟩ : ∃ k, fuel = k + 1 := ⟨fuel - 1, by omega⟩
  unfold parseAll
  simp only [hn, Bool.not_false, if_true]
  exact trivial

/-- while no snippet is defined the loop runs on weight; a definition hands over to `hB` -/
theorem parseAll_total_aux (cfg : Cfg) {o : List Token} (hyp : HypS cfg o) (sn : Snips)
    (hB : ∀ name body s' bs', name ∉ sn.map (·.1) → name ∈ candNames cfg o → TInv cfg o (sn ++ [(name, body)]) s' →
      ∃ f0, ∀ fuel, f0 ≤ fuel → Tm (fun _ => True) (parseAll cfg fuel s' bs')) :
    ∀ (p : Nat) (s : PState) (bs : List ServerBlock), TInv cfg o sn s → Phi cfg sn s ≤ p →
      ∃ f0, ∀ fuel, f0 ≤ fuel → Tm (fun _ => True) (parseAll cfg fuel s bs) := by
  intro p
  induction p with
  | zero =>
    intro s bs h hp
    cases hn : s.d.next.1 with
    | false => exact ⟨1, fun fuel hf => parseAll_done cfg s bs hn fuel hf⟩
    | true => have := (tnext h hn).2.1; omega
  | succ p' ih =>
    intro s bs h hp
    cases hn : s.d.next.1 with
    | false => exact ⟨1, fun fuel hf => parseAll_done cfg s bs hn fuel hf⟩
    | true =>
      obtain ⟨hfr, hphi, hback, _⟩ := tnext h hn
      have hfr' : TFresh cfg o sn { s with d := s.d.next.2, keys := [], btoks := [] } :=
        ⟨tinv_of_d hfr.1 rfl rfl rfl (fun k hk => by cases hk), hfr.2.1, hfr.2.2⟩
      have hp1 : Phi cfg sn { s with d := s.d.next.2, keys := [], btoks := [] } = Phi cfg sn { s with d := s.d.next.2 } :=
        Phi_congr rfl rfl rfl
      have hp2 : Phi cfg sn (back { s with d := s.d.next.2, keys := [], btoks := [] }) = Phi cfg sn s := by
        rw [← hback]; exact Phi_congr rfl rfl rfl
      have hb := begin_tm cfg hyp (Phi cfg sn s + 1) _ hfr' (by omega)
      have hstep : ∀ k, Phi cfg sn s + 1 ≤ k + 1 →
          begin cfg (k + 1) { s with d := s.d.next.2, keys := [], btoks := [] } =
          begin cfg (Phi cfg sn s + 1) { s with d := s.d.next.2, keys := [], btoks := [] } :=
        fun k hk => Res.le_eq (begin_mono cfg _ _ hk _) hb.ne_timeout
      cases hr : begin cfg (Phi cfg sn s + 1) { s with d := s.d.next.2, keys := [], btoks := [] } with
      | timeout => rw [hr] at hb; exact hb.elim
      | err c fl l =>
        refine ⟨Phi cfg sn s + 1, fun fuel hf => ?_⟩
        obtain ⟨k, rfl⟩ : ∃ k, fuel = k + 1 := ⟨fuel - 1, by omega⟩
        unfold parseAll
        simp only [hn, Bool.not_true, Bool.false_eq_true, if_false]
        rw [hstep k hf, hr]
        exact trivial
      | panic m =>
        refine ⟨Phi cfg sn s + 1, fun fuel hf => ?_⟩
        obtain ⟨k, rfl⟩ : ∃ k, fuel = k + 1 := ⟨fuel - 1, by omega⟩
        unfold parseAll
        simp only [hn, Bool.not_true, Bool.false_eq_true, if_false]
        rw [hstep k hf, hr]
        exact trivial
      | ok s1 =>
        rw [hr] at hb
        have hrest : ∃ f1, ∀ fuel, f1 ≤ fuel → Tm (fun _ => True)
            (parseAll cfg fuel s1 (if s1.keys.isEmpty then bs else bs ++ [⟨s1.keys, s1.btoks⟩])) := by
          rcases hb with ⟨hi1, hle⟩ | ⟨name, body, h1, h2, h3⟩
          · exact ih s1 _ hi1 (by omega)
          · exact hB name body s1 _ h1 h2 h3
        obtain ⟨f1, hf1⟩ := hrest
        refine ⟨max (Phi cfg sn s + 1) (f1 + 1), fun fuel hf => ?_⟩
        obtain ⟨k, rfl⟩ : ∃ k, fuel = k + 1 := ⟨fuel - 1, by omega⟩
        unfold parseAll
        simp only [hn, Bool.not_true, Bool.false_eq_true, if_false]
        rw [hstep k (by omega), hr]
        exact hf1 k (by omega)

/-- the snippet table: distinct names, all of them candidates -/
def SnOK (cfg : Cfg) (o : List Token) (sn : Snips) : Prop :=
  (sn.map (·.1)).Nodup ∧ ∀ n ∈ sn.map (·.1), n ∈ candNames cfg o

theorem snOK_length {cfg : Cfg} {o : List Token} {sn : Snips} (h : SnOK cfg o sn) : sn.length ≤ (candNames cfg o).length := by
  have := nodup_length_le (sn.map (·.1)) (candNames cfg o) h.1 h.2
  simpa using this

theorem snOK_append {cfg : Cfg} {o : List Token} {sn : Snips} (h : SnOK cfg o sn) {name : Bytes} (body : List Token)
    (h1 : name ∉ sn.map (·.1)) (h2 : name ∈ candNames cfg o) : SnOK cfg o (sn ++ [(name, body)]) := by
  refine ⟨?_, ?_⟩
  · rw [List.map_append]
    refine List.nodup_append.mpr ⟨h.1, by simp, ?_⟩
    intro a ha b hb
    simp only [List.map_cons, List.map_nil, List.mem_singleton] at hb
    subst hb
    intro hab; subst hab; exact h1 ha
  · intro n hn
    rw [List.map_append] at hn
    rcases List.mem_append.mp hn with hn | hn
    · exact h.2 n hn
    · simp only [List.map_cons, List.map_nil, List.mem_singleton] at hn
      subst hn; exact h2

/-- the loop of `parseAll` ends, snippet definitions included: lexicographic induction over (candidate names not yet
defined, weight ahead) -/
theorem parseAll_total (cfg : Cfg) {o : List Token} (hyp : HypS cfg o) (u : Nat) :
    ∀ (sn : Snips), SnOK cfg o sn → (candNames cfg o).length - sn.length ≤ u →
      ∀ (s : PState) (bs : List ServerBlock), TInv cfg o sn s →
        ∃ f0, ∀ fuel, f0 ≤ fuel → Tm (fun _ => True) (parseAll cfg fuel s bs) := by
  induction u with
  | zero =>
    intro sn hsn hu s bs h
    refine parseAll_total_aux cfg hyp sn (fun name body s' bs' h1 h2 _ => ?_) _ s bs h (Nat.le_refl _)
    have := snOK_length (snOK_append hsn body h1 h2)
    simp only [List.length_append, List.length_cons, List.length_nil] at this
    omega
  | succ u' ih =>
    intro sn hsn hu s bs h
    refine parseAll_total_aux cfg hyp sn (fun name body s' bs' h1 h2 h3 => ?_) _ s bs h (Nat.le_refl _)
    have hsn' := snOK_append hsn body h1 h2
    have := snOK_length hsn'
    simp only [List.length_append, List.length_cons, List.length_nil] at this
    exact ih _ hsn' (by simp only [List.length_append, List.length_cons, List.length_nil]; omega) s' bs' h3

theorem tinv_new (cfg : Cfg) (fn : String) (o : List Token) : TInv cfg o [] { d := Disp.new fn o } := by
  refine ⟨new_ok fn _, rfl, (fun p hp => by cases hp), trivial, ?_, ?_, ?_⟩
  · intro f hf; cases hf
  · intro i _ t ht; exact List.mem_append_left _ (List.mem_of_getElem? ht)
  · intro k hk; cases hk

/-- `Parse` ends — imports of files, globs and snippets nested to any depth, cycles of any shape, any number of snippet
definitions: there is a fuel from which on the answer is not `timeout` -/
theorem parse_total (cfg : Cfg) (fn : String) (input : Bytes) (hyp : HypS cfg (lex input)) :
    ∃ f0, ∀ fuel, f0 ≤ fuel → Tm (fun _ => True) (parse cfg fuel fn input) := by
  unfold parse parseTokens
  exact parseAll_total cfg hyp _ [] ⟨List.nodup_nil, fun n hn => by cases hn⟩ (Nat.le_refl _) _ [] (tinv_new cfg fn _)

/-! ### the explicit bound when no snippet is ever defined -/

theorem candNames_nil {cfg : Cfg} {o : List Token} (hyp : Hyp cfg o) : candNames cfg o = [] := by
  unfold candNames
  rw [List.flatMap_eq_nil_iff]
  intro t ht
  obtain ⟨r, hr, hh⟩ := hyp.2.2 t ht
  rw [hr]
  simp only [isSnippet_none_of_head hh, isSnippet_none_of_head (head_dropLast_ne hh), Option.toList_none, List.append_nil]

theorem parseAll_tm (cfg : Cfg) {o : List Token} (hyp : Hyp cfg o) (fuel : Nat) (s : PState) (bs : List ServerBlock)
    (h : TInv cfg o [] s) (hf : Phi cfg [] s < fuel) : Tm (fun _ => True) (parseAll cfg fuel s bs) := by
  induction fuel generalizing s bs with
  | zero => omega
  | succ k ih =>
    unfold parseAll
    simp only
    cases hn : s.d.next.1 with
    | false => simp only [Bool.not_false, if_true]; exact trivial
    | true =>
      simp only [Bool.not_true, Bool.false_eq_true, if_false]
      obtain ⟨hfr, hphi, hback, _⟩ := tnext h hn
      have hfr' : TFresh cfg o [] { s with d := s.d.next.2, keys := [], btoks := [] } :=
        ⟨tinv_of_d hfr.1 rfl rfl rfl (fun k hk => by cases hk), hfr.2.1, hfr.2.2⟩
      have hp1 : Phi cfg [] { s with d := s.d.next.2, keys := [], btoks := [] } = Phi cfg [] { s with d := s.d.next.2 } :=
        Phi_congr rfl rfl rfl
      have hp2 : Phi cfg [] (back { s with d := s.d.next.2, keys := [], btoks := [] }) = Phi cfg [] s := by
        rw [← hback]; exact Phi_congr rfl rfl rfl
      refine Tm.bind (begin_tm cfg hyp.toS (k + 1) _ hfr' (by omega)) fun s1 h1 => ?_
      rcases h1 with ⟨hi1, hle⟩ | ⟨name, body, _, h2, _⟩
      · exact ih s1 _ hi1 (by omega)
      · rw [candNames_nil hyp] at h2; cases h2

/-- `Parse` with file imports ends: the total weight of the input is a sufficient fuel -/
theorem parse_tm (cfg : Cfg) (fuel : Nat) (fn : String) (input : Bytes) (hyp : Hyp cfg (lex input))
    (hf : (lex input).length * (Lmax cfg + 2) ^ cfg.fs.files.length < fuel) :
    Tm (fun _ => True) (parse cfg fuel fn input) := by
  unfold parse parseTokens
  refine parseAll_tm cfg hyp fuel _ [] (tinv_new cfg fn _) ?_
  have hK : K { d := Disp.new fn (lex input) } = (lex input).length := by
    unfold K Disp.new Disp.len; simp only; omega
  unfold Phi
  rw [hK]
  have := phiK_const (wt := wt cfg [] ([] : List (List Active))) 0 (lex input).length ((Lmax cfg + 2) ^ cfg.fs.files.length)
    (fun r _ _ => by unfold wt wgt dep LmaxS srcNames fileNames; simp)
  simp only [Nat.zero_add, phiK] at this
  rw [this]
  omega


/-- a decidable sufficient condition for `Hyp`: no source token contains `{%` / `{$` or starts with `(` -/
theorem hyp_of_noRef (cfg : Cfg) (o : List Token) (hc : cfg.cycleCheck = true) (hf : 0 < cfg.envFuel)
    (hall : ((srcToks cfg o).all fun t => noRef t.text && (t.text.head? != some lparen)) = true) : Hyp cfg o := by
  refine ⟨hc, hf, fun t ht => ?_⟩
  have := List.all_eq_true.mp hall t ht
  simp only [Bool.and_eq_true, bne_iff_ne, ne_eq] at this
  exact ⟨t.text, envR_noRef cfg hf _ this.1, this.2⟩

/-- a decidable sufficient condition for `HypS`: no source token contains `{%` / `{$` -/
theorem hypS_of_noRef (cfg : Cfg) (o : List Token) (hc : cfg.cycleCheck = true) (hf : 0 < cfg.envFuel)
    (hall : ((srcToks cfg o).all fun t => noRef t.text) = true) : HypS cfg o := by
  refine ⟨hc, hf, fun t ht => ?_⟩
  have := List.all_eq_true.mp hall t ht
  exact ⟨t.text, envR_noRef cfg hf _ this⟩

end Casket.Parser
