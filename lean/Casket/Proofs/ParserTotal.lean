import Casket.Proofs.ImportMeasure
import Casket.Proofs.ParserTerm
/-
Termination of the parser model WITH file imports (C10): the cycle check bounds the expansion.
Scope: configurations that define no snippets (no address token expands to something starting with `(`);
see `Hyp`.  Everything else — any bytes, any files, globs, import cycles of any shape — is covered.
-/
namespace Casket.Parser
open Casket.Lexer Casket.Dispenser Casket.Dispenser.Disp Casket.DispenserSpec

/-- `importFiles` is a map -/
def importOne (p : String × Bytes) : String × List Token := (p.1, (lex p.2).map fun t => { t with file := p.1 })

theorem importFiles_eq_map (l : List (String × Bytes)) : importFiles l = l.map importOne := by
  induction l with
  | nil => rfl
  | cons p rest ih => obtain ⟨n, b⟩ := p; simp only [importFiles, List.map_cons, ih]; rfl

/-- all tokens that can ever be in the token list: those of the input and those of every file -/
def srcToks (cfg : Cfg) (o : List Token) : List Token := o ++ (importFiles cfg.fs.files).flatMap (·.2)
/-- the most tokens one import directive can splice in -/
def Lmax (cfg : Cfg) : Nat := ((importFiles cfg.fs.files).map (·.2.length)).sum
def fileNames (cfg : Cfg) : List ImpName := cfg.fs.files.map fun f => ImpName.file f.1

/-- hypotheses on the configuration: the repaired parser; environment replacement of every source token ends, and in
something that does not start with `(` (so no snippet is ever defined) -/
def Hyp (cfg : Cfg) (o : List Token) : Prop :=
  cfg.cycleCheck = true ∧ 0 < cfg.envFuel ∧
  ∀ t ∈ srcToks cfg o, ∃ r, envR cfg t.text = .ok r ∧ r.head? ≠ some lparen

structure TInv (cfg : Cfg) (o : List Token) (s : PState) : Prop where
  ok : cursorOk s.d
  snip : s.snippets = []
  fok : FOK s.frames
  names : ∀ f ∈ s.frames, ∀ e ∈ f, e.name ∈ fileNames cfg
  after : ∀ i : Nat, s.d.cursor < (i : Int) → ∀ t, s.d.tokens[i]? = some t → t ∈ srcToks cfg o
  keys : ∀ k ∈ s.keys, k.head? ≠ some lparen

/-- … and the token under the cursor, if there is one, is a source token too -/
def TFresh (cfg : Cfg) (o : List Token) (s : PState) : Prop :=
  TInv cfg o s ∧ 0 ≤ s.d.cursor ∧ ∀ t, s.d.tok? s.d.cursor = some t → t ∈ srcToks cfg o

/-- number of tokens strictly after the cursor -/
def K (s : PState) : Nat := (s.d.len - s.d.cursor - 1).toNat

def wt (cfg : Cfg) (fs : List (List Active)) (r : Nat) : Nat := wgt (Lmax cfg + 2) cfg.fs.files.length (dep fs r)

/-- the measure: total weight of the tokens still ahead -/
def Phi (cfg : Cfg) (s : PState) : Nat := phiK (wt cfg s.frames) (K s)

theorem wt_pos (cfg : Cfg) (fs : List (List Active)) (r : Nat) : 0 < wt cfg fs r := wgt_pos _ _ _ (by omega)

/-- no fuel problem, and an `ok` state satisfies `P` -/
def Tm {α : Type} (P : α → Prop) : Res α → Prop
  | .ok a => P a
  | .timeout => False
  | _ => True

theorem Tm.bind {α β : Type} {P : α → Prop} {Q : β → Prop} {r : Res α} {f : α → Res β}
    (hr : Tm P r) (hf : ∀ a, P a → Tm Q (f a)) : Tm Q (r.bind f) := by
  cases r with
  | ok a => exact hf a hr
  | err c fl l => exact trivial
  | panic m => exact trivial
  | timeout => exact hr.elim

theorem Tm.mono {α : Type} {P Q : α → Prop} {r : Res α} (hr : Tm P r) (h : ∀ a, P a → Q a) : Tm Q r := by
  cases r with
  | ok a => exact h a hr
  | err c fl l => exact trivial
  | panic m => exact trivial
  | timeout => exact hr.elim

theorem sum_le_of_sublist {l1 l2 : List Nat} (h : l1.Sublist l2) : l1.sum ≤ l2.sum := by
  induction h with
  | slnil => exact Nat.le_refl _
  | cons a _ ih => simp only [List.sum_cons]; omega
  | cons_cons a _ ih => simp only [List.sum_cons]; omega

/-- what a matched set of files contributes -/
theorem imported_spec (cfg : Cfg) (o : List Token) (ms : List (String × Bytes)) (hsub : ms.Sublist cfg.fs.files) :
    ((importFiles ms).flatMap (·.2)).length ≤ Lmax cfg ∧
    (∀ t ∈ (importFiles ms).flatMap (·.2), t ∈ srcToks cfg o) ∧
    ((importFiles ms).map (·.2.length)).sum = ((importFiles ms).flatMap (·.2)).length := by
  have hlen : ((importFiles ms).map (·.2.length)).sum = ((importFiles ms).flatMap (·.2)).length := by
    generalize importFiles ms = l
    induction l with
    | nil => rfl
    | cons p rest ih => simp only [List.map_cons, List.sum_cons, List.flatMap_cons, List.length_append, ih]
  refine ⟨?_, ?_, hlen⟩
  · rw [← hlen]
    unfold Lmax
    apply sum_le_of_sublist
    rw [importFiles_eq_map, importFiles_eq_map]
    exact (hsub.map importOne).map _
  · intro t ht
    unfold srcToks
    apply List.mem_append_right
    rw [importFiles_eq_map] at ht ⊢
    simp only [List.mem_flatMap, List.mem_map] at ht ⊢
    obtain ⟨p, ⟨f, hf, rfl⟩, htp⟩ := ht
    exact ⟨importOne f, ⟨f, hsub.subset hf, rfl⟩, htp⟩


theorem resolve_sublist {fs : FS} {pat : Bytes} {ms : List (String × Bytes)} (h : resolve fs pat = .files ms) :
    ms.Sublist fs.files := by
  unfold resolve at h
  split at h
  · cases h
  · split at h
    · cases h
    · simp only at h
      split at h
      · cases h
      · cases h; exact List.filter_sublist

theorem scanFiles_none {fr : List (List Active)} {ms : List (String × Bytes)} (h : scanFiles true fr ms = none) :
    ∀ f ∈ ms, importing fr (.file f.1) = false := by
  induction ms with
  | nil => intro f hf; cases hf
  | cons x xs ih =>
    unfold scanFiles at h
    simp only [Bool.true_and] at h
    split at h
    · cases h
    · rename_i hx
      split at h
      · cases h
      · intro f hf
        rcases List.mem_cons.mp hf with rfl | hf
        · simpa using hx
        · exact ih h f hf

theorem heads_mem {fs : List (List Active)} {n : ImpName} (h : n ∈ heads fs) : ∃ f ∈ fs, ∃ e ∈ f, e.name = n :=
  importing_mem ((importing_iff fs n).mpr h)

/-- the stack and the measure after one import directive that is followed by `A` tokens and splices in the files `ms` -/
theorem import_measure (cfg : Cfg) (o : List Token) (fs : List (List Active)) (A : Nat) (ms : List (String × Bytes))
    (hf : FOK fs) (hn : ∀ f ∈ fs, ∀ e ∈ f, e.name ∈ fileNames cfg) (hsub : ms.Sublist cfg.fs.files)
    (hscan : ∀ f ∈ ms, importing (popFrames A fs) (.file f.1) = false) (fr : List (List Active))
    (hfr : fr = (match activesOf (importFiles ms) A with | [] => popFrames A fs | f => f :: popFrames A fs)) :
    FOK fr ∧ (∀ f ∈ fr, ∀ e ∈ f, e.name ∈ fileNames cfg) ∧
    phiK (wt cfg fr) (A + ((importFiles ms).flatMap (·.2)).length) + 1 ≤ phiK (wt cfg fs) (A + 1) := by
  obtain ⟨hp1, hp2, hp3, hp4⟩ := popFrames_spec A fs hf
  obtain ⟨hlen, _, hsum⟩ := imported_spec cfg o ms hsub
  have hpn : ∀ f ∈ popFrames A fs, ∀ e ∈ f, e.name ∈ fileNames cfg := by
    intro f hfm e he
    have him : importing (popFrames A fs) e.name = true ∨ True := Or.inr trivial
    -- every entry of a popped frame is an entry of an original frame: use the suffix structure via FOK-free argument
    clear him
    -- popFrames only drops entries and frames
    have : ∀ (l : List (List Active)), (∀ g ∈ l, ∀ x ∈ g, x.name ∈ fileNames cfg) →
        ∀ g ∈ popFrames A l, ∀ x ∈ g, x.name ∈ fileNames cfg := by
      intro l
      induction l with
      | nil => intro _ g hg; simp [popFrames] at hg
      | cons g0 rest ih =>
        intro hl g hg x hx
        rcases dropFinished_spec A g0 with ⟨hd, _⟩ | ⟨pre, hpre, hdne, _⟩
        · rw [popFrames_cons_nil hd] at hg
          exact ih (fun g' hg' => hl g' (List.mem_cons_of_mem _ hg')) g hg x hx
        · rw [popFrames_cons_ne hdne] at hg
          rcases List.mem_cons.mp hg with rfl | hg
          · exact hl g0 List.mem_cons_self x (by rw [hpre]; exact List.mem_append_right _ hx)
          · exact hl g (List.mem_cons_of_mem _ hg) x hx
    exact this fs hn f hfm e he
  have hall : ∀ f ∈ popFrames A fs, lastAfter f ≤ A := lastAfter_le_of_FOK hp1 A hp2
  have hbase : phiK (wt cfg (popFrames A fs)) A = phiK (wt cfg fs) A :=
    phiK_congr A (fun r hr => by unfold wt; rw [hp3 r (by omega)])
  have hw1 : wt cfg fs (A + 1) = wgt (Lmax cfg + 2) cfg.fs.files.length (popFrames A fs).length := by
    unfold wt; rw [← hp3 (A + 1) (Nat.le_refl _), dep_all hall (by omega)]
  have hphi : phiK (wt cfg fs) (A + 1) = phiK (wt cfg fs) A + wt cfg fs (A + 1) := rfl
  obtain ⟨ha1, ha2, ha3, _⟩ := activesOf_spec (importFiles ms) A
  cases hact : activesOf (importFiles ms) A with
  | nil =>
    rw [hact] at hfr
    simp only at hfr
    subst hfr
    have him : importFiles ms = [] := by
      by_cases himp : importFiles ms = []
      · exact himp
      · exact absurd hact (ha3 himp).1
    refine ⟨hp1, hpn, ?_⟩
    rw [him]
    simp only [List.flatMap_nil, List.length_nil, Nat.add_zero]
    rw [hbase, hphi]
    have := wt_pos cfg fs (A + 1)
    omega
  | cons x xs =>
    rw [hact] at hfr
    simp only at hfr
    subst hfr
    have hne : importFiles ms ≠ [] := by intro he; rw [he] at hact; simp [activesOf] at hact
    have hgood : ∀ e ∈ x :: xs, importing (popFrames A fs) e.name = false := by
      intro e he
      obtain ⟨_, p, hp, hname⟩ := ha2 e (by rw [hact]; exact he)
      rw [importFiles_eq_map] at hp
      obtain ⟨f, hfm, rfl⟩ := List.mem_map.mp hp
      rw [hname]; exact hscan f hfm
    have hnamesNew : ∀ e ∈ x :: xs, e.name ∈ fileNames cfg := by
      intro e he
      obtain ⟨_, p, hp, hname⟩ := ha2 e (by rw [hact]; exact he)
      rw [importFiles_eq_map] at hp
      obtain ⟨f, hfm, rfl⟩ := List.mem_map.mp hp
      rw [hname]
      exact List.mem_map.mpr ⟨f, hsub.subset hfm, rfl⟩
    obtain ⟨hq1, hq2, hq3⟩ := push_spec (fnew := x :: xs) hp1 hp2 (by simp) (hact ▸ ha1) (hact ▸ (ha3 hne).2) hgood
    have hnfr : ∀ f ∈ (x :: xs) :: popFrames A fs, ∀ e ∈ f, e.name ∈ fileNames cfg := by
      intro f hfm e he
      rcases List.mem_cons.mp hfm with rfl | hfm
      · exact hnamesNew e he
      · exact hpn f hfm e he
    refine ⟨hq1, hnfr, ?_⟩
    -- depth bound from the distinctness of the sources being expanded
    obtain ⟨hnd, hhl⟩ := heads_nodup hq1
    have hdepth : (popFrames A fs).length + 1 ≤ cfg.fs.files.length := by
      have := nodup_length_le (heads ((x :: xs) :: popFrames A fs)) (fileNames cfg) hnd (fun n hnm => by
        obtain ⟨f, hfm, e, he, rfl⟩ := heads_mem hnm
        exact hnfr f hfm e he)
      rw [hhl] at this
      simpa [fileNames] using this
    generalize ((importFiles ms).flatMap (·.2)).length = m at hlen ⊢
    have hconst : phiK (wt cfg ((x :: xs) :: popFrames A fs)) (A + m) =
        phiK (wt cfg ((x :: xs) :: popFrames A fs)) A + m * wgt (Lmax cfg + 2) cfg.fs.files.length ((popFrames A fs).length + 1) :=
      phiK_const A m _ (fun r h1 _ => by unfold wt; rw [hq3 r h1])
    have hlow : phiK (wt cfg ((x :: xs) :: popFrames A fs)) A = phiK (wt cfg fs) A := by
      rw [← hbase]
      exact phiK_congr A (fun r hr => by unfold wt; rw [hq2 r hr])
    rw [hconst, hlow, hphi, hw1]
    have := wgt_step (Lmax cfg) cfg.fs.files.length (popFrames A fs).length m (by omega) hlen
    omega


/-- `resolveImport` when no snippet is defined and the cycle check is on -/
theorem resolveImport_ok_spec {cfg : Cfg} {s : PState} {d1 : Disp} {pat : Bytes} {A : Nat}
    {imp : List Token × List (List Active)} (hc : cfg.cycleCheck = true) (hs : s.snippets = [])
    (h : resolveImport cfg s d1 pat A = .ok imp) :
    ∃ ms : List (String × Bytes), ms.Sublist cfg.fs.files ∧ imp.1 = (importFiles ms).flatMap (·.2) ∧
      imp.2 = (match activesOf (importFiles ms) A with | [] => popFrames A s.frames | f => f :: popFrames A s.frames) ∧
      ∀ f ∈ ms, importing (popFrames A s.frames) (.file f.1) = false := by
  unfold resolveImport at h
  simp only [hc, hs, if_true, lookupSnippet, List.find?_nil, Option.map_none, Bool.true_and] at h
  split at h
  · cases h
  · rename_i ms hres
    split at h
    · cases h
    · rename_i hscan
      cases h
      exact ⟨ms, resolve_sublist hres, rfl, rfl, scanFiles_none hscan⟩

theorem K_back {s : PState} (h : cursorOk s.d) : K (back s) = (s.d.len - s.d.cursor).toNat := by
  unfold K back
  simp only [setCursor_cursor, setCursor_len]
  congr 1; omega

/-- `doImport`: no fuel needed; afterwards the measure is strictly smaller, even after stepping back one token -/
theorem doImport_tm (cfg : Cfg) (o : List Token) (hyp : Hyp cfg o) (s : PState) (h : TInv cfg o s) (h0 : 0 ≤ s.d.cursor) :
    Tm (fun s2 => TFresh cfg o s2 ∧ s2.d.cursor = s.d.cursor ∧ s2.keys = s.keys ∧ s2.eof = s.eof ∧
      Phi cfg (back s2) + 1 ≤ Phi cfg s ∧ Phi cfg s2 ≤ Phi cfg (back s2)) (doImport cfg s) := by
  obtain ⟨hcc, hfuel, henv⟩ := hyp
  have hs := nextArg_spec s.d h.ok
  unfold doImport
  simp only
  cases hr1 : s.d.nextArg.1 with
  | false => simp only [Bool.not_false, if_true]; exact trivial
  | true =>
    simp only [Bool.not_true, Bool.false_eq_true, if_false]
    obtain ⟨hc, hb⟩ := hs.2.2.1 hr1
    have hl : s.d.nextArg.2.len = s.d.len := hs.mono.len
    have htoks : s.d.nextArg.2.tokens = s.d.tokens := hs.1.tokens
    have hlen := len_nonneg s.d
    have hcur := h.ok; unfold cursorOk at hcur
    -- the argument token is a source token, so its environment replacement ends
    have hcl : s.d.nextArg.2.cursor < s.d.len := by
      have : max s.d.len 1 = s.d.len ∨ s.d.len = 0 := by omega
      omega
    obtain ⟨ta, hta⟩ := tokAt_isSome (ts := s.d.tokens) (i := s.d.nextArg.2.cursor) (by omega) (by simpa [Disp.len] using hcl)
    have htam : ta ∈ srcToks cfg o := by
      have hidx : s.d.tokens[s.d.nextArg.2.cursor.toNat]? = some ta := by
        unfold tokAt at hta; rw [if_pos (by omega)] at hta; exact hta
      exact h.after _ (by omega) ta hidx
    have hval : s.d.nextArg.2.val = ta.text := by
      unfold Disp.val Disp.tok?; rw [htoks, hta]
    obtain ⟨pat, hpat, _⟩ := henv ta htam
    rw [hval, hpat]
    simp only [Res.bind]
    split
    · exact trivial
    · split
      · exact trivial
      · have hnp : ¬ (s.d.nextArg.2.cursor - 1 < 0 ∨ s.d.nextArg.2.cursor + 1 > s.d.nextArg.2.len) := by
          rw [hl, hc]; omega
        rw [if_neg hnp]
        -- shorthand: i = position of the import token, A = tokens after the directive
        obtain ⟨i, hi⟩ : ∃ i : Nat, s.d.cursor = (i : Int) := ⟨s.d.cursor.toNat, by omega⟩
        have hlenN : i + 2 ≤ s.d.tokens.length := by simp only [Disp.len] at hcl; omega
        have e1 : (s.d.nextArg.2.cursor - 1).toNat = i := by omega
        have e2 : (s.d.nextArg.2.cursor + 1).toNat = i + 2 := by omega
        have e3 : s.d.nextArg.2.cursor - 1 = (i : Int) := by omega
        have hA : (List.drop (i + 2) s.d.tokens).length = s.d.tokens.length - (i + 2) := List.length_drop
        rw [htoks, e1, e2, e3, hA]
        generalize hAdef : s.d.tokens.length - (i + 2) = A
        cases hres : resolveImport cfg s s.d.nextArg.2 pat A with
        | err c fl l => exact trivial
        | panic m => exact trivial
        | timeout =>
          exfalso
          unfold resolveImport at hres
          simp only [hcc, h.snip, if_true, lookupSnippet, List.find?_nil, Option.map_none, Bool.true_and] at hres
          split at hres
          · cases hres
          · split at hres <;> cases hres
        | ok imp =>
          obtain ⟨ms, hsub, himp1, himp2, hscan⟩ := resolveImport_ok_spec hcc h.snip hres
          simp only [Res.bind]
          obtain ⟨hm1, hm2, _⟩ := imported_spec cfg o ms hsub
          obtain ⟨hF1, hF2, hF3⟩ := import_measure cfg o s.frames A ms h.fok h.names hsub hscan imp.2 himp2
          have hnewlen : (List.take i s.d.tokens ++ imp.1 ++ List.drop (i + 2) s.d.tokens).length = i + imp.1.length + A := by
            simp only [List.length_append, List.length_take, List.length_drop]; omega
          have hmem : ∀ j : Nat, i ≤ j → ∀ t, (List.take i s.d.tokens ++ imp.1 ++ List.drop (i + 2) s.d.tokens)[j]? = some t →
              t ∈ srcToks cfg o := by
            intro j hj t ht
            rw [List.append_assoc, List.getElem?_append_right (by simp only [List.length_take]; omega)] at ht
            have hmm := List.mem_of_getElem? ht
            rcases List.mem_append.mp hmm with hm | hm
            · rw [himp1] at hm; exact hm2 t hm
            · obtain ⟨k, hk⟩ := List.getElem?_of_mem hm
              rw [List.getElem?_drop] at hk
              exact h.after (i + 2 + k) (by omega) t hk
          refine ⟨⟨⟨⟨?_, ?_⟩, h.snip, hF1, hF2, ?_, h.keys⟩, ?_, ?_⟩, ?_, rfl, rfl, ?_, ?_⟩
          · simp only; omega
          · simp only [Disp.len, hnewlen]; omega
          · intro j hj t ht
            exact hmem j (by have : (i : Int) < (j : Int) := hj; omega) t ht
          · simp only; omega
          · intro t ht
            simp only [Disp.tok?] at ht
            unfold tokAt at ht
            rw [if_pos (Int.natCast_nonneg i)] at ht
            simp only [Int.toNat_natCast] at ht
            exact hmem i (Nat.le_refl _) t ht
          · simp only; omega
          · -- the measure
            have hKs : K s = A + 1 := by
              unfold K; simp only [Disp.len]; omega
            unfold Phi
            rw [hKs]
            have hKb : ∀ s' : PState, s'.d.len = ((i + imp.1.length + A : Nat) : Int) → s'.d.cursor = (i : Int) →
                K (back s') = A + imp.1.length := by
              intro s' h1 h2
              unfold K back
              simp only [setCursor_cursor, setCursor_len, h1, h2]
              omega
            rw [hKb _ (by simp only [Disp.len, hnewlen]) rfl]
            simp only [back]
            rw [himp1]
            exact hF3
          · unfold Phi
            apply phiK_mono
            unfold K back
            simp only [setCursor_cursor, setCursor_len]
            omega


/-! ### the measure along the parser's small steps -/

theorem Phi_congr {cfg : Cfg} {s s' : PState} (hf : s'.frames = s.frames) (hl : s'.d.len = s.d.len)
    (hc : s'.d.cursor = s.d.cursor) : Phi cfg s' = Phi cfg s := by
  unfold Phi K; rw [hf, hl, hc]

theorem Phi_le_back (cfg : Cfg) (s : PState) : Phi cfg s ≤ Phi cfg (back s) := by
  unfold Phi
  apply phiK_mono
  unfold K back
  simp only [setCursor_cursor, setCursor_len]
  omega

theorem tinv_of_d {cfg : Cfg} {o : List Token} {s s' : PState} (h : TInv cfg o s) (hd : s'.d = s.d)
    (hs : s'.snippets = s.snippets) (hf : s'.frames = s.frames) (hk : ∀ k ∈ s'.keys, k.head? ≠ some lparen) : TInv cfg o s' :=
  ⟨by rw [hd]; exact h.ok, by rw [hs]; exact h.snip, by rw [hf]; exact h.fok, by rw [hf]; exact h.names,
   by rw [hd]; exact h.after, hk⟩

/-- a successful `Next`: on a source token, measure strictly down; stepping back restores it -/
theorem tnext {cfg : Cfg} {o : List Token} {s : PState} (h : TInv cfg o s) (ht : s.d.next.1 = true) :
    TFresh cfg o { s with d := s.d.next.2 } ∧ Phi cfg { s with d := s.d.next.2 } + 1 ≤ Phi cfg s ∧
    Phi cfg (back { s with d := s.d.next.2 }) = Phi cfg s ∧ (∃ t, s.d.next.2.tok? s.d.next.2.cursor = some t) := by
  obtain ⟨hs, hlt⟩ := next_spec s.d h.ok
  obtain ⟨hc, _⟩ := hs.2.2.1 ht
  have hb := hlt ht
  have hl := hs.mono.len
  obtain ⟨hok1, h01, t, htok⟩ := next_true_tok h.ok ht
  have hcur := h.ok
  unfold cursorOk at hcur
  have hafter : ∀ i : Nat, s.d.cursor < (i : Int) → ∀ t, s.d.next.2.tokens[i]? = some t → t ∈ srcToks cfg o := by
    intro i hi t ht; rw [hs.1.tokens] at ht; exact h.after i hi t ht
  refine ⟨⟨⟨hok1, h.snip, h.fok, h.names, fun i hi => hafter i (by simp only at hi; omega), h.keys⟩, h01, ?_⟩, ?_, ?_, ⟨t, htok⟩⟩
  · intro t' ht'
    simp only [Disp.tok?] at ht'
    unfold tokAt at ht'
    rw [if_pos h01] at ht'
    exact hafter _ (by omega) t' ht'
  · -- K goes down by one
    have hK : K s = K { s with d := s.d.next.2 } + 1 := by
      unfold K; simp only [hl, hc]; omega
    unfold Phi
    rw [hK]
    simp only [phiK]
    have := wt_pos cfg s.frames (K { s with d := s.d.next.2 } + 1)
    omega
  · refine Phi_congr (s := s) (s' := back { s with d := s.d.next.2 }) rfl ?_ ?_
    · simp only [back, setCursor_len, hl]
    · simp only [back, setCursor_cursor, hc]; omega

theorem tback {cfg : Cfg} {o : List Token} {s : PState} (h : TFresh cfg o s) : TInv cfg o (back s) := by
  obtain ⟨hi, h0, hf⟩ := h
  refine ⟨ok_back ⟨hi.ok, h0⟩, hi.snip, hi.fok, hi.names, ?_, hi.keys⟩
  intro i hlt t ht
  simp only [back, setCursor_cursor, setCursor_tokens] at hlt ht
  by_cases hic : s.d.cursor < (i : Int)
  · exact hi.after i hic t ht
  · have : (i : Int) = s.d.cursor := by omega
    apply hf t
    unfold Disp.tok? tokAt
    rw [if_pos h0, ← this]
    simpa using ht

theorem tfresh_val {cfg : Cfg} {o : List Token} {s : PState} (h : TFresh cfg o s) (hyp : Hyp cfg o) :
    ∃ r, envR cfg s.d.val = .ok r ∧ r.head? ≠ some lparen := by
  unfold Disp.val
  cases ht : s.d.tok? s.d.cursor with
  | none => exact ⟨[], envR_nil cfg hyp.2.1, by simp⟩
  | some t => exact hyp.2.2 t (h.2.2 t ht)

theorem appendCur_tm (cfg : Cfg) (dir : Bytes) {o : List Token} (hyp : Hyp cfg o) {s : PState} (h : TFresh cfg o s)
    (ht : ∃ t, s.d.tok? s.d.cursor = some t) :
    Tm (fun s' => TInv cfg o s' ∧ s'.frames = s.frames ∧ s'.d.len = s.d.len ∧ s'.d.cursor = s.d.cursor ∧ 0 ≤ s'.d.cursor)
      (appendCur cfg dir s) := by
  obtain ⟨t, ht⟩ := ht
  obtain ⟨r, hr, _⟩ := hyp.2.2 t (h.2.2 t ht)
  unfold appendCur
  rw [ht]
  simp only [hr, Res.bind]
  obtain ⟨hi, h0, _⟩ := h
  refine ⟨⟨?_, hi.snip, hi.fok, hi.names, ?_, hi.keys⟩, rfl, ?_, rfl, h0⟩
  · have := hi.ok
    unfold cursorOk at this ⊢
    simp only [Disp.len, List.length_set] at this ⊢
    exact this
  · intro i hlt t' ht'
    simp only at hlt ht'
    rw [List.getElem?_set] at ht'
    have : s.d.cursor.toNat ≠ i := by omega
    simp only [this, if_false] at ht'
    exact hi.after i hlt t' ht'
  · simp only [Disp.len, List.length_set]

theorem directiveLoop_tm (cfg : Cfg) (dir : Bytes) {o : List Token} (hyp : Hyp cfg o) (fuel : Nat) (s : PState) (n : Nat)
    (h : TInv cfg o s) (hf : Phi cfg s < fuel) :
    Tm (fun s' => TInv cfg o s' ∧ Phi cfg s' ≤ Phi cfg s) (directiveLoop cfg dir fuel s n) := by
  induction fuel generalizing s n with
  | zero => omega
  | succ k ih =>
    unfold directiveLoop
    simp only
    cases hn : s.d.next.1 with
    | false =>
      simp only [Bool.not_false, if_true]
      split
      · exact trivial
      · exact ⟨h, Nat.le_refl _⟩
    | true =>
      simp only [Bool.not_true, Bool.false_eq_true, if_false]
      obtain ⟨hfr, hphi, hback, htok⟩ := tnext h hn
      have happ : ∀ m, Tm (fun s' => TInv cfg o s' ∧ Phi cfg s' ≤ Phi cfg s)
          ((appendCur cfg dir { s with d := s.d.next.2 }).bind fun s2 => directiveLoop cfg dir k s2 m) := by
        intro m
        refine Tm.bind (appendCur_tm cfg dir hyp hfr htok) fun s2 h2 => ?_
        obtain ⟨hi2, hf2, hl2, hc2, _⟩ := h2
        have he : Phi cfg s2 = Phi cfg { s with d := s.d.next.2 } := Phi_congr hf2 hl2 hc2
        exact (ih s2 m hi2 (by omega)).mono fun s' hs' => ⟨hs'.1, by omega⟩
      split
      · exact happ _
      · split
        · exact ⟨tback hfr, by omega⟩
        · split
          · exact happ _
          · split
            · exact trivial
            · split
              · refine Tm.bind (doImport_tm cfg o hyp _ hfr.1 hfr.2.1) fun s2 h2 => ?_
                obtain ⟨hfr2, _, _, _, hb2, _⟩ := h2
                exact (ih _ _ (tback hfr2) (by omega)).mono fun s' hs' => ⟨hs'.1, by omega⟩
              · exact happ _

theorem directive_tm (cfg : Cfg) {o : List Token} (hyp : Hyp cfg o) (fuel : Nat) (s : PState)
    (h : TFresh cfg o s) (ht : ∃ t, s.d.tok? s.d.cursor = some t) (hf : Phi cfg s < fuel) :
    Tm (fun s' => TInv cfg o s' ∧ Phi cfg s' ≤ Phi cfg s) (directive cfg fuel s) := by
  obtain ⟨t, ht⟩ := ht
  obtain ⟨r, hr, _⟩ := tfresh_val h hyp
  unfold directive
  simp only [hr, Res.bind]
  split
  · exact trivial
  · rw [ht]
    exact directiveLoop_tm cfg r hyp fuel _ 0 (tinv_of_d h.1 rfl rfl rfl h.1.keys) hf

theorem directives_tm (cfg : Cfg) {o : List Token} (hyp : Hyp cfg o) (fuel : Nat) (s : PState)
    (h : TInv cfg o s) (hf : Phi cfg s < fuel) :
    Tm (fun s' => TInv cfg o s' ∧ Phi cfg s' ≤ Phi cfg s ∧
      (s.d.next.1 = true → Phi cfg s' ≤ Phi cfg { s with d := s.d.next.2 })) (directives cfg fuel s) := by
  induction fuel generalizing s with
  | zero => omega
  | succ k ih =>
    unfold directives
    simp only
    cases hn : s.d.next.1 with
    | false =>
      simp only [Bool.not_false, if_true]
      exact ⟨h, Nat.le_refl _, fun hh => by cases hh⟩
    | true =>
      simp only [Bool.not_true, Bool.false_eq_true, if_false]
      obtain ⟨hfr, hphi, hback, htok⟩ := tnext h hn
      split
      · exact ⟨hfr.1, by omega, fun _ => Nat.le_refl _⟩
      · split
        · refine Tm.bind (doImport_tm cfg o hyp _ hfr.1 hfr.2.1) fun s2 h2 => ?_
          obtain ⟨hfr2, _, _, _, hb2, _⟩ := h2
          exact (ih _ (tback hfr2) (by omega)).mono fun s' hs' => ⟨hs'.1, by have := hs'.2.1; omega, fun _ => by have := hs'.2.1; omega⟩
        · refine Tm.bind (directive_tm cfg hyp (k + 1) _ hfr htok (by omega)) fun s2 h2 => ?_
          obtain ⟨hi2, hp2⟩ := h2
          exact (ih s2 hi2 (by omega)).mono fun s' hs' => ⟨hs'.1, by have := hs'.2.1; omega, fun _ => by have := hs'.2.1; omega⟩


theorem head_dropLast_ne {l : Bytes} (h : l.head? ≠ some lparen) : l.dropLast.head? ≠ some lparen := by
  cases l with
  | nil => simp
  | cons a t =>
    cases t with
    | nil => simp
    | cons b u => simpa [List.dropLast] using h

theorem addKey_keys {keys : List Bytes} {e : Bool} {tkn : Bytes} (hk : ∀ k ∈ keys, k.head? ≠ some lparen)
    (ht : tkn.head? ≠ some lparen) : ∀ k ∈ (addKey keys e tkn).1, k.head? ≠ some lparen := by
  unfold addKey
  split
  · exact hk
  · split
    · intro k hkm
      rcases List.mem_append.mp hkm with h1 | h1
      · exact hk k h1
      · simp only [List.mem_singleton] at h1; rw [h1]; exact head_dropLast_ne ht
    · intro k hkm
      rcases List.mem_append.mp hkm with h1 | h1
      · exact hk k h1
      · simp only [List.mem_singleton] at h1; rw [h1]; exact ht

theorem isSnippet_none {keys : List Bytes} (hk : ∀ k ∈ keys, k.head? ≠ some lparen) : isSnippet keys = none := by
  unfold isSnippet
  split
  · rename_i k
    have := hk k List.mem_cons_self
    have hb : (k.head? == some lparen) = false := by simpa using this
    simp [hb]
  · rfl

theorem tfresh_keys {cfg : Cfg} {o : List Token} {s : PState} (h : TFresh cfg o s) (ks : List Bytes)
    (hk : ∀ k ∈ ks, k.head? ≠ some lparen) : TFresh cfg o { s with keys := ks } :=
  ⟨tinv_of_d h.1 rfl rfl rfl hk, h.2.1, h.2.2⟩

/-- where `addresses` stops, and what it did to the measure (with and without the token under the cursor) -/
def AddrPostT (cfg : Cfg) (o : List Token) (s s' : PState) : Prop :=
  TInv cfg o s' ∧ Phi cfg s' ≤ Phi cfg s ∧ Phi cfg (back s') ≤ Phi cfg (back s) ∧
  (s'.eof = true ∨ (TFresh cfg o s' ∧ ∃ t, s'.d.tok? s'.d.cursor = some t))

theorem addresses_tm (cfg : Cfg) {o : List Token} (hyp : Hyp cfg o) (fuel : Nat) (s : PState) (e : Bool)
    (h : TFresh cfg o s) (hf : Phi cfg s < fuel) : Tm (AddrPostT cfg o s) (addresses cfg fuel s e) := by
  induction fuel generalizing s e with
  | zero => omega
  | succ k ih =>
    obtain ⟨r, hr, hrh⟩ := tfresh_val h hyp
    unfold addresses
    simp only [hr, Res.bind]
    split
    · -- import
      refine Tm.bind (doImport_tm cfg o hyp s h.1 h.2.1) fun s2 h2 => ?_
      obtain ⟨hfr2, _, _, _, hb2, hle2⟩ := h2
      refine (ih s2 e hfr2 (by omega)).mono fun s' hs' => ?_
      obtain ⟨p1, p2, p3, p4⟩ := hs'
      have := Phi_le_back cfg s
      exact ⟨p1, by omega, by omega, p4⟩
    · split
      · rename_i hlb
        split
        · exact trivial
        · refine ⟨h.1, Nat.le_refl _, Nat.le_refl _, Or.inr ⟨h, ?_⟩⟩
          cases ht : s.d.tok? s.d.cursor with
          | some t => exact ⟨t, rfl⟩
          | none =>
            have hv : s.d.val = [] := by unfold Disp.val; rw [ht]
            rw [hv, envR_nil cfg hyp.2.1] at hr
            cases hr
            exact absurd hlb (by decide)
      · have hkeys := addKey_keys (e := e) h.1.keys hrh
        cases hn : s.d.next.1 with
        | false =>
          have hd : s.d.next.2 = s.d := next_false_eq h.1.ok hn
          simp only [Bool.not_false, Bool.and_true]
          split
          · exact trivial
          · simp only [if_true]
            have hti : TInv cfg o { s with d := s.d.next.2, keys := (addKey s.keys e r).1, eof := true } :=
              tinv_of_d h.1 hd rfl rfl hkeys
            refine ⟨hti, ?_, ?_, Or.inl rfl⟩
            · exact Nat.le_of_eq (Phi_congr rfl (by simp only [hd]) (by simp only [hd]))
            · exact Nat.le_of_eq (Phi_congr (s := back s) rfl (by simp only [back, setCursor_len, hd]) (by simp only [back, setCursor_cursor, hd]))
        | true =>
          obtain ⟨hfr, hphi, hback, htok⟩ := tnext h.1 hn
          simp only [Bool.not_true, Bool.and_false, Bool.false_eq_true, if_false]
          have hfr' : TFresh cfg o { s with d := s.d.next.2, keys := (addKey s.keys e r).1 } := tfresh_keys hfr _ hkeys
          have hp1 : Phi cfg { s with d := s.d.next.2, keys := (addKey s.keys e r).1 } = Phi cfg { s with d := s.d.next.2 } :=
            Phi_congr rfl rfl rfl
          have hp2 : Phi cfg (back { s with d := s.d.next.2, keys := (addKey s.keys e r).1 }) = Phi cfg s := by
            rw [← hback]; exact Phi_congr rfl rfl rfl
          have hlb := Phi_le_back cfg s
          split
          · exact ⟨hfr'.1, by omega, by omega, Or.inr ⟨hfr', htok⟩⟩
          · refine (ih _ _ hfr' (by omega)).mono fun s' hs' => ?_
            obtain ⟨p1, p2, p3, p4⟩ := hs'
            exact ⟨p1, by omega, by omega, p4⟩

theorem blockContents_tm (cfg : Cfg) {o : List Token} (hyp : Hyp cfg o) (fuel : Nat) (s : PState)
    (h : TFresh cfg o s) (ht : ∃ t, s.d.tok? s.d.cursor = some t) (hf : Phi cfg (back s) < fuel) :
    Tm (fun s' => TInv cfg o s' ∧ Phi cfg s' ≤ Phi cfg s) (blockContents cfg fuel s) := by
  obtain ⟨t, ht⟩ := ht
  have hlt : s.d.cursor < s.d.len := by
    have := (tokAt_some (show tokAt s.d.tokens s.d.cursor = some t from ht)).2
    simp only [Disp.len]; exact this
  have hlb := Phi_le_back cfg s
  unfold blockContents
  simp only
  by_cases hno : (s.d.val != lbrace) = true
  · simp only [hno, if_true]
    have hb := tback h
    have hnx : (back s).d.next.1 = true := by
      unfold Disp.next back
      simp only [setCursor_cursor, setCursor_len]
      have : s.d.cursor - 1 < s.d.len - 1 := by omega
      simp [this]
    have hnx2 : (back s).d.next.2 = (back s).d.setCursor ((back s).d.cursor + 1) := by
      unfold Disp.next
      have : (back s).d.cursor < (back s).d.len - 1 := by
        simp only [back, setCursor_cursor, setCursor_len]; omega
      simp [this]
    refine Tm.bind (directives_tm cfg hyp fuel _ hb hf) fun s1 h1 => ?_
    obtain ⟨hi1, _, hstep⟩ := h1
    have h2 := hstep hnx
    have he : Phi cfg { back s with d := (back s).d.next.2 } = Phi cfg s := by
      refine Phi_congr (s := s) (s' := { back s with d := (back s).d.next.2 }) rfl ?_ ?_
      · show (back s).d.next.2.len = s.d.len
        rw [hnx2]; simp only [back, setCursor_len]
      · show (back s).d.next.2.cursor = s.d.cursor
        rw [hnx2]; simp only [back, setCursor_cursor]; omega
    simp only [Bool.not_true, Bool.false_and, Bool.false_eq_true, if_false]
    exact ⟨hi1, by rw [he] at h2; exact h2⟩
  · simp only [hno, Bool.false_eq_true, if_false]
    refine Tm.bind (directives_tm cfg hyp fuel _ h.1 (by omega)) fun s1 h1 => ?_
    split
    · exact trivial
    · exact ⟨h1.1, h1.2.1⟩

theorem begin_tm (cfg : Cfg) {o : List Token} (hyp : Hyp cfg o) (fuel : Nat) (s : PState)
    (h : TFresh cfg o s) (hf : Phi cfg (back s) < fuel) :
    Tm (fun s' => TInv cfg o s' ∧ Phi cfg s' ≤ Phi cfg s) (begin cfg fuel s) := by
  have hlb := Phi_le_back cfg s
  unfold begin
  split
  · exact ⟨h.1, Nat.le_refl _⟩
  · refine Tm.bind (addresses_tm cfg hyp fuel s false h (by omega)) fun s1 h1 => ?_
    obtain ⟨hi1, hp1, hpb1, hcase⟩ := h1
    split
    · exact ⟨hi1, hp1⟩
    · rename_i hneof
      cases hcase with
      | inl he => exact absurd he hneof
      | inr hfr =>
        obtain ⟨hfr1, htok1⟩ := hfr
        rw [isSnippet_none hi1.keys]
        simp only
        exact (blockContents_tm cfg hyp fuel s1 hfr1 htok1 (by omega)).mono fun s' hs' => ⟨hs'.1, by have := hs'.2; omega⟩

theorem parseAll_tm (cfg : Cfg) {o : List Token} (hyp : Hyp cfg o) (fuel : Nat) (s : PState) (bs : List ServerBlock)
    (h : TInv cfg o s) (hf : Phi cfg s < fuel) : Tm (fun _ => True) (parseAll cfg fuel s bs) := by
  induction fuel generalizing s bs with
  | zero => omega
  | succ k ih =>
    unfold parseAll
    simp only
    cases hn : s.d.next.1 with
    | false => simp only [Bool.not_false, if_true]; exact trivial
    | true =>
      simp only [Bool.not_true, Bool.false_eq_true, if_false]
      obtain ⟨hfr, hphi, hback, _⟩ := tnext h hn
      have hfr' : TFresh cfg o { s with d := s.d.next.2, keys := [], btoks := [] } :=
        ⟨tinv_of_d hfr.1 rfl rfl rfl (fun k hk => by cases hk), hfr.2.1, hfr.2.2⟩
      have hp1 : Phi cfg { s with d := s.d.next.2, keys := [], btoks := [] } = Phi cfg { s with d := s.d.next.2 } :=
        Phi_congr rfl rfl rfl
      have hp2 : Phi cfg (back { s with d := s.d.next.2, keys := [], btoks := [] }) = Phi cfg s := by
        rw [← hback]; exact Phi_congr rfl rfl rfl
      refine Tm.bind (begin_tm cfg hyp (k + 1) _ hfr' (by omega)) fun s1 h1 => ?_
      exact ih s1 _ h1.1 (by have := h1.2; omega)

/-- `Parse` with file imports ends: the total weight of the input is a sufficient fuel -/
theorem parse_tm (cfg : Cfg) (fuel : Nat) (fn : String) (input : Bytes) (hyp : Hyp cfg (lex input))
    (hf : (lex input).length * (Lmax cfg + 2) ^ cfg.fs.files.length < fuel) :
    Tm (fun _ => True) (parse cfg fuel fn input) := by
  unfold parse parseTokens
  have hinv : TInv cfg (lex input) { d := Disp.new fn (lex input) } := by
    refine ⟨new_ok fn _, rfl, trivial, ?_, ?_, ?_⟩
    · intro f hf; cases hf
    · intro i _ t ht; exact List.mem_append_left _ (List.mem_of_getElem? ht)
    · intro k hk; cases hk
  refine parseAll_tm cfg hyp fuel _ [] hinv ?_
  have hK : K { d := Disp.new fn (lex input) } = (lex input).length := by
    unfold K Disp.new Disp.len; simp only; omega
  unfold Phi
  rw [hK]
  have := phiK_const (wt := wt cfg ([] : List (List Active))) 0 (lex input).length ((Lmax cfg + 2) ^ cfg.fs.files.length)
    (fun r _ _ => by unfold wt wgt dep; simp)
  simp only [Nat.zero_add, phiK] at this
  rw [this]
  omega


/-- a decidable sufficient condition for `Hyp`: no source token contains `{%` / `{$` or starts with `(` -/
theorem hyp_of_noRef (cfg : Cfg) (o : List Token) (hc : cfg.cycleCheck = true) (hf : 0 < cfg.envFuel)
    (hall : ((srcToks cfg o).all fun t => noRef t.text && (t.text.head? != some lparen)) = true) : Hyp cfg o := by
  refine ⟨hc, hf, fun t ht => ?_⟩
  have := List.all_eq_true.mp hall t ht
  simp only [Bool.and_eq_true, bne_iff_ne, ne_eq] at this
  exact ⟨t.text, envR_noRef cfg hf _ this.1, this.2⟩

end Casket.Parser
