import Casket.Proofs.AutoHTTPSSites
/-
Helper lemmas for Props/C15.lean, part: several `tls` directives in one site block (`applyTLSs`, the loop of setupTLS)
against the spec's order-free reading `readTLS`.  Core Lean only.
-/
set_option linter.unusedSimpArgs false
namespace Casket.AutoHTTPS
open Casket.Generated Casket.AutoHTTPSSpec

theorem base_beq (a b : TLSBase) : (a == b) = decide (a = b) := by cases a <;> cases b <;> rfl

/-- one directive keeps a set Manual / SelfSigned / NoRedirect / on-demand flag set -/
theorem applyTLS_keeps (v : TLSVariant) (c : Site) :
    (c.manual = true → (applyTLS v c).manual = true) ∧ (c.selfSigned = true → (applyTLS v c).selfSigned = true) ∧
    (c.noRedirect = true → (applyTLS v c).noRedirect = true) ∧ (c.onDemand = true → (applyTLS v c).onDemand = true) := by
  unfold applyTLS
  refine ⟨?_, ?_, ?_, ?_⟩ <;> intro h <;> cases hb : v.base <;> simp [h]

/-- …so does the whole loop -/
theorem applyTLSs_keeps (vs : List TLSVariant) (c : Site) :
    (c.manual = true → (applyTLSs vs c).manual = true) ∧ (c.selfSigned = true → (applyTLSs vs c).selfSigned = true) ∧
    (c.noRedirect = true → (applyTLSs vs c).noRedirect = true) ∧ (c.onDemand = true → (applyTLSs vs c).onDemand = true) := by
  induction vs generalizing c with
  | nil => simp [applyTLSs]
  | cons v vs ih =>
    unfold applyTLSs
    have h1 := applyTLS_keeps v c
    have h2 := ih (applyTLS v c)
    split
    · exact h1
    · exact ⟨fun h => h2.1 (h1.1 h), fun h => h2.2.1 (h1.2.1 h), fun h => h2.2.2.1 (h1.2.2.1 h), fun h => h2.2.2.2 (h1.2.2.2 h)⟩

/-- the loop of setupTLS computes the spec's order-free reading of the directive list -/
theorem applyTLSs_eq_readTLS (vs : List TLSVariant) (c : Site) : applyTLSs vs c = readTLS vs c := by
  induction vs generalizing c with
  | nil => cases c; simp [applyTLSs, readTLS, tlsRead]
  | cons v vs ih =>
    unfold applyTLSs
    cases hb : v.base
    case off =>
      cases c
      simp [applyTLS, hb, readTLS, tlsRead, tlsIsOff, tlsActive, tlsNamesCertificate, tlsSelfSigned, tlsEmailArg]
    all_goals
      rw [if_neg (by simp), ih]
      cases c
      simp (config := { decide := true }) [applyTLS, hb, readTLS, tlsRead, tlsIsOff, tlsActive, tlsNamesCertificate, tlsSelfSigned, tlsEmailArg,
        List.any_cons, List.foldl_cons, Bool.or_assoc, base_beq, bne]

theorem applyTLS_fresh (v : TLSVariant) (c : Site) (hf : Fresh c) : Fresh (applyTLS v c) := by
  obtain ⟨h1, h2, h3, h4⟩ := hf
  unfold applyTLS Fresh
  cases hb : v.base <;> simp [h1, h2, h3]
  all_goals first | exact h4 | (intro _; decide)

theorem applyTLSs_fresh (vs : List TLSVariant) (c : Site) (hf : Fresh c) : Fresh (applyTLSs vs c) := by
  induction vs generalizing c with
  | nil => exact hf
  | cons v vs ih =>
    unfold applyTLSs
    split
    · exact applyTLS_fresh v c hf
    · exact ih _ (applyTLS_fresh v c hf)

end Casket.AutoHTTPS
