import Casket.Spec.ProxyMsg
/-
Helper lemmas for Props/C04.lean: the header map operations observed through `vals`/`has`,
hop-by-hop stripping, rule application under non-interference, the director's joins.
-/
namespace Casket.ProxyMsg
open Casket.ProxyMsgSpec

/-! ### exhaustive checks over all 256 bytes -/

def allBelow (p : Nat → Bool) : Nat → Bool
  | 0 => true
  | n + 1 => p n && allBelow p n

theorem allBelow_spec (p : Nat → Bool) : ∀ n, allBelow p n = true → ∀ m < n, p m = true := by
  intro n
  induction n with
  | zero => intro _ m hm; omega
  | succ n ih =>
    intro h m hm
    simp [allBelow] at h
    by_cases hmn : m = n
    · subst hmn; exact h.1
    · exact ih h.2 m (by omega)

theorem all_u8 (p : UInt8 → Bool) (h : allBelow (fun n => p (UInt8.ofNat n)) 256 = true) :
    ∀ c, p c = true := by
  intro c
  have := allBelow_spec _ 256 h c.toNat c.toNat_lt
  simpa using this

/-! ### vals / has under the raw map operations -/

namespace Hdr

theorem vals_nil (k : Str) : vals [] k = [] := rfl

theorem vals_cons (e : Str × List Str) (h : Hdr) (k : Str) :
    vals (e :: h) k = if e.1 = k then e.2 else vals h k := by
  unfold vals
  by_cases hk : e.1 = k
  · simp [List.find?, hk]
  · have : (e.1 == k) = false := by simp [hk]
    simp [List.find?, this, hk]

theorem has_cons (e : Str × List Str) (h : Hdr) (k : Str) :
    has (e :: h) k = (decide (e.1 = k) || has h k) := by
  by_cases hk : e.1 = k <;> simp [has, hk]

theorem vals_delRaw (h : Hdr) (k k' : Str) :
    vals (delRaw h k) k' = if k' = k then [] else vals h k' := by
  induction h with
  | nil => simp [delRaw, vals_nil]
  | cons e h ih =>
    unfold delRaw at ih ⊢
    by_cases he : e.1 = k
    · simp only [List.filter, he, bne_self_eq_false]
      rw [ih, vals_cons]
      by_cases hk : k' = k
      · simp [hk]
      · have : ¬ e.1 = k' := by rw [he]; exact fun h => hk h.symm
        simp [hk, this]
    · have hne : (e.1 != k) = true := by simp [he]
      simp only [List.filter, hne]
      rw [vals_cons, vals_cons, ih]
      by_cases hk : e.1 = k'
      · have : ¬ k' = k := by rw [← hk]; exact he
        simp [hk, this]
      · simp [hk]

theorem has_delRaw (h : Hdr) (k k' : Str) :
    has (delRaw h k) k' = (decide (k' ≠ k) && has h k') := by
  induction h with
  | nil => simp [delRaw, has]
  | cons e h ih =>
    unfold delRaw at ih ⊢
    by_cases he : e.1 = k
    · simp only [List.filter, he, bne_self_eq_false]
      rw [ih, has_cons]
      by_cases hk : k' = k
      · simp [hk]
      · have : ¬ e.1 = k' := by rw [he]; exact fun h => hk h.symm
        simp [hk, this]
    · have hne : (e.1 != k) = true := by simp [he]
      simp only [List.filter, hne]
      rw [has_cons, has_cons, ih]
      by_cases hk : e.1 = k'
      · have : ¬ k' = k := by rw [← hk]; exact he
        simp [hk, this]
      · simp [hk]

theorem vals_setRaw (h : Hdr) (k : Str) (vv : List Str) (k' : Str) :
    vals (setRaw h k vv) k' = if k' = k then vv else vals h k' := by
  unfold setRaw
  rw [vals_cons, vals_delRaw]
  by_cases hk : k' = k
  · simp [hk]
  · have : ¬ k = k' := fun h => hk h.symm
    simp [hk, this]

theorem has_setRaw (h : Hdr) (k : Str) (vv : List Str) (k' : Str) :
    has (setRaw h k vv) k' = (decide (k' = k) || has h k') := by
  unfold setRaw
  rw [has_cons, has_delRaw]
  by_cases hk : k' = k
  · simp [hk]
  · have : ¬ k = k' := fun h => hk h.symm
    simp [hk, this]

theorem vals_del (h : Hdr) (name k' : Str) :
    vals (del h name) k' = if k' = canon name then [] else vals h k' := vals_delRaw h _ k'

theorem vals_set (h : Hdr) (name v k' : Str) :
    vals (set h name v) k' = if k' = canon name then [v] else vals h k' := vals_setRaw h _ _ k'

theorem vals_add (h : Hdr) (name v k' : Str) :
    vals (add h name v) k' = if k' = canon name then vals h (canon name) ++ [v] else vals h k' :=
  vals_setRaw h _ _ k'

theorem has_del (h : Hdr) (name k' : Str) :
    has (del h name) k' = (decide (k' ≠ canon name) && has h k') := has_delRaw h _ k'

/-- every key of the map carries at least one value (what net/http produces) -/
def NoEmpty (h : Hdr) : Prop := ∀ e ∈ h, e.2 ≠ []

theorem has_iff_vals (h : Hdr) (hne : NoEmpty h) (k : Str) : has h k = (vals h k != []) := by
  induction h with
  | nil => simp [has, vals_nil]
  | cons e h ih =>
    have hne' : NoEmpty h := fun x hx => hne x (List.mem_cons_of_mem _ hx)
    rw [has_cons, vals_cons, ih hne']
    by_cases hk : e.1 = k
    · have := hne e (List.mem_cons_self ..)
      simp [hk, this]
    · simp [hk]

theorem NoEmpty_delRaw (h : Hdr) (hne : NoEmpty h) (k : Str) : NoEmpty (delRaw h k) := by
  intro e he
  unfold delRaw at he
  exact hne e (List.mem_filter.mp he).1

end Hdr

/-! ### deleting a list of names -/

theorem vals_foldl_del (names : List Str) (h : Hdr) (k : Str) :
    (names.foldl Hdr.del h).vals k = if (names.map canon).contains k then [] else h.vals k := by
  induction names generalizing h with
  | nil => simp
  | cons n ns ih =>
    simp only [List.foldl_cons, List.map_cons]
    rw [ih, Hdr.vals_del]
    by_cases hk : k = canon n
    · simp [hk]
    · have : (k == canon n) = false := by simp [hk]
      simp only [List.contains_cons, this, Bool.false_or, hk, if_false]

theorem NoEmpty_foldl_del (names : List Str) (h : Hdr) (hne : Hdr.NoEmpty h) :
    Hdr.NoEmpty (names.foldl Hdr.del h) := by
  induction names generalizing h with
  | nil => exact hne
  | cons n ns ih => exact ih _ (Hdr.NoEmpty_delRaw h hne _)

/-- the hop-by-hop list holds canonical names -/
def CanonicalNames (l : List Str) : Prop := ∀ x ∈ l, canon x = x

theorem map_canon_of_canonical (l : List Str) (hc : CanonicalNames l) : l.map canon = l := by
  induction l with
  | nil => rfl
  | cons x xs ih =>
    simp only [List.map_cons]
    rw [hc x (List.mem_cons_self ..), ih (fun y hy => hc y (List.mem_cons_of_mem _ hy))]

theorem vals_stripHop (hop : List Str) (hc : CanonicalNames hop) (h : Hdr) (k : Str) :
    (stripHop hop h).vals k = if isHop hop h k then [] else h.vals k := by
  unfold stripHop isHop
  rw [vals_foldl_del, vals_foldl_del, map_canon_of_canonical hop hc]
  cases h1 : hop.contains k <;> cases h2 : ((connListed h).map canon).contains k <;> simp

theorem NoEmpty_stripHop (hop : List Str) (h : Hdr) (hne : Hdr.NoEmpty h) : Hdr.NoEmpty (stripHop hop h) :=
  NoEmpty_foldl_del _ _ (NoEmpty_foldl_del _ _ hne)

/-! ### header rules -/

theorem vals_foldl_add (repl : Str → Str) (rest : Str) (vs : List Str) (h : Hdr) (k : Str) :
    (vs.foldl (fun h v => if repl v != [] then h.add rest (repl v) else h) h).vals k =
      if k = canon rest then h.vals k ++ (vs.map repl).filter (fun v => v != []) else h.vals k := by
  induction vs generalizing h with
  | nil => simp
  | cons v vs ih =>
    simp only [List.foldl_cons, List.map_cons]
    rw [ih]
    by_cases hv : repl v = []
    · simp [hv]
    · have hv' : (repl v != []) = true := by simp [hv]
      simp only [hv', if_true, List.filter_cons]
      rw [Hdr.vals_add]
      by_cases hk : k = canon rest
      · subst hk; simp
      · simp [hk]

theorem vals_applyRule (repl : Str → Str) (h : Hdr) (r : Str × List Str) (k : Str) :
    (applyRule repl h r).vals k = if ruleTarget r.1 = k then ruleOn repl r (h.vals k) else h.vals k := by
  obtain ⟨field, vs⟩ := r
  have hset : ∀ name : Str,
      (match vs.getLast? with
        | some v => if repl v != [] then h.set name (repl v) else h
        | none => h).vals k =
      if canon name = k then
        (match vs.getLast? with
          | some v => if repl v != [] then [repl v] else h.vals k
          | none => h.vals k)
      else h.vals k := by
    intro name
    cases vs.getLast? with
    | none => simp
    | some v =>
      by_cases hv : repl v = []
      · simp [hv]
      · have hv' : (repl v != []) = true := by simp [hv]
        simp only [hv', if_true]
        rw [Hdr.vals_set]
        by_cases hk : k = canon name
        · subst hk; simp
        · have : ¬ canon name = k := fun h => hk h.symm
          simp [hk, this]
  cases field with
  | nil =>
    simp only [applyRule, ruleTarget, ruleOn]
    exact hset []
  | cons c rest =>
    by_cases hp : c = plus
    · subst hp
      simp only [applyRule, ruleTarget, ruleOn, beq_self_eq_true, if_true, Bool.true_or]
      rw [vals_foldl_add]
      by_cases hk : k = canon rest
      · subst hk; simp
      · have : ¬ canon rest = k := fun h => hk h.symm
        simp [hk, this]
    · have hp' : (c == plus) = false := by simp [hp]
      by_cases hm : c = minus
      · subst hm
        simp only [applyRule, ruleTarget, ruleOn, hp', beq_self_eq_true, if_true, Bool.or_true]
        simp only [Bool.false_eq_true, if_false]
        rw [Hdr.vals_del]
        by_cases hk : k = canon rest
        · subst hk; simp
        · have : ¬ canon rest = k := fun h => hk h.symm
          simp [hk, this]
      · have hm' : (c == minus) = false := by simp [hm]
        simp only [applyRule, ruleTarget, ruleOn, hp', hm', Bool.or_self, Bool.false_eq_true, if_false]
        exact hset (c :: rest)

theorem ruleEffect_none (repl : Str → Str) (rules : Rules) (k : Str) (old : List Str)
    (hno : (rules.map fun r => ruleTarget r.1).contains k = false) : ruleEffect repl rules k old = old := by
  unfold ruleEffect
  have : rules.find? (fun r => ruleTarget r.1 == k) = none := by
    rw [List.find?_eq_none]
    intro r hr
    simp only [List.contains_eq_mem, List.mem_map, decide_eq_false_iff_not, not_exists, not_and] at hno
    have := hno r hr
    simpa using this
  rw [this]

theorem vals_applyRules (repl : Str → Str) (rules : Rules) (h : Hdr) (k : Str)
    (hni : nonInterfering rules = true) :
    (applyRules repl h rules).vals k = ruleEffect repl rules k (h.vals k) := by
  induction rules generalizing h with
  | nil => rfl
  | cons r rs ih =>
    have hni' : (!(rs.map fun r => ruleTarget r.1).contains (ruleTarget r.1) && nonInterfering rs) = true := hni
    simp only [Bool.and_eq_true, Bool.not_eq_true'] at hni'
    show (applyRules repl (applyRule repl h r) rs).vals k = _
    rw [ih _ hni'.2, vals_applyRule]
    by_cases ht : ruleTarget r.1 = k
    · subst ht
      rw [ruleEffect_none _ _ _ _ hni'.1]
      simp [ruleEffect, List.find?]
    · have : (ruleTarget r.1 == k) = false := by simp [ht]
      simp only [ht, if_false]
      simp [ruleEffect, List.find?, this]

/-! ### the director -/

theorem endsWithSlash_eq (a : Str) (h : endsWithSlash a = true) : a.dropLast ++ [slash] = a := by
  unfold endsWithSlash at h
  have : a.getLast? = some slash := by simpa using h
  obtain ⟨ys, hys⟩ := List.getLast?_eq_some_iff.mp this
  subst hys
  simp

theorem singleJoiningSlash_eq (a b : Str) : singleJoiningSlash a b = joinOneSlash a b := by
  unfold singleJoiningSlash joinOneSlash dropTrailingSlash dropLeadingSlash
  cases b with
  | nil => simp [startsWithSlash]
  | cons c bs =>
    have hb : ((c :: bs) == ([] : Str)) = false := by simp
    have hb' : ((c :: bs) != ([] : Str)) = true := by simp
    simp only [hb, Bool.false_eq_true, if_false]
    by_cases hc : c = slash
    · have hs : startsWithSlash (c :: bs) = true := by simp [startsWithSlash, hc]
      by_cases ha : endsWithSlash a = true
      · simp only [hs, ha, Bool.and_self, if_true, List.drop_succ_cons, List.drop_zero]
        have := endsWithSlash_eq a ha
        conv => lhs; rw [← this]
      · have ha' : endsWithSlash a = false := by simpa using ha
        subst hc
        simp [hs, ha']
    · have hs : startsWithSlash (c :: bs) = false := by simp [startsWithSlash, hc]
      by_cases ha : endsWithSlash a = true
      · simp only [hs, ha, Bool.and_false, Bool.false_eq_true, if_false, Bool.not_true, Bool.false_and, if_true]
        have := endsWithSlash_eq a ha
        conv => lhs; rw [← this]
      · have ha' : endsWithSlash a = false := by simpa using ha
        simp [hs, ha', hb']

theorem trimPrefix_nil (s : Str) : trimPrefix s [] = s := by simp [trimPrefix]

theorem director_path (t : URL) (w : Str) (u : URL) :
    (director t w u).path = expectPath t w u.path := by
  unfold director expectPath
  simp only
  rw [singleJoiningSlash_eq]
  by_cases hw : w = []
  · subst hw; simp [trimPrefix_nil]
  · have : (w != []) = true := by simp [hw]
    simp [this]

theorem director_rawPath (t : URL) (w : Str) (u : URL) :
    (director t w u).rawPath = expectRawPath t w u := by
  unfold director expectRawPath
  simp only
  by_cases hw : w = []
  · subst hw
    by_cases hr : u.rawPath = []
    · by_cases ht : t.rawPath = []
      · simp [hr, ht]
      · simp [hr, ht, singleJoiningSlash_eq, trimPrefix_nil]
    · simp [hr, singleJoiningSlash_eq, trimPrefix_nil]
  · have hw' : (w != []) = true := by simp [hw]
    by_cases hr : u.rawPath = []
    · by_cases ht : t.rawPath = []
      · simp [hr, ht, hw']
      · simp [hr, ht, hw', singleJoiningSlash_eq]
    · have hr' : (u.rawPath != []) = true := by simp [hr]
      simp only [hw', hr', Bool.and_self, if_true]
      by_cases h1 : trimPrefix u.rawPath w = []
      · by_cases ht : t.rawPath = []
        · simp [h1, ht]
        · simp [h1, ht, singleJoiningSlash_eq]
      · simp [h1, singleJoiningSlash_eq]

theorem director_query (t : URL) (w : Str) (u : URL) :
    (director t w u).rawQuery = expectQuery t u.rawQuery := by
  unfold director expectQuery
  simp only
  by_cases h1 : t.rawQuery = []
  · simp [h1]
  · by_cases h2 : u.rawQuery = []
    · simp [h1, h2]
    · simp [h1, h2]

/-! ### the request side as a whole -/

theorem canon_sXFF : canon sXFF = sXFF := by decide

theorem vals_createUpstreamRequest (hop : List Str) (hc : CanonicalNames hop) (r : Request)
    (hne : Hdr.NoEmpty r.header) (k : Str) :
    (createUpstreamRequest hop r).header.vals k =
      (let s1 := if isHop hop r.header k then [] else r.header.vals k
       if k == sXFF then
         match splitHostPort r.remoteAddr with
         | some (ip, _) => [if s1 != [] then joinCommaSpace s1 ++ commaSpace ++ ip else ip]
         | none => s1
       else s1) := by
  unfold createUpstreamRequest
  simp only
  cases hs : splitHostPort r.remoteAddr with
  | none =>
    simp only [vals_stripHop hop hc]
    by_cases hk : k = sXFF <;> simp [hk]
  | some p =>
    obtain ⟨ip, port⟩ := p
    simp only
    rw [Hdr.vals_set, canon_sXFF, Hdr.has_iff_vals _ (NoEmpty_stripHop hop r.header hne), vals_stripHop hop hc]
    by_cases hk : k = sXFF
    · subst hk; simp
    · have : (k == sXFF) = false := by simp [hk]
      simp [hk, this, vals_stripHop hop hc]

theorem vals_forward (hop : List Str) (hc : CanonicalNames hop) (repl : Str → Str) (u : Upstream) (r : Request)
    (hne : Hdr.NoEmpty r.header) (hni : nonInterfering u.upRules = true) (k : Str) :
    (forward hop repl u r).header.vals k = expectReqVals hop repl u r k := by
  unfold forward attempt expectReqVals
  simp only
  rw [vals_applyRules _ _ _ _ hni, vals_createUpstreamRequest hop hc r hne]
  rfl

theorem forward_method (hop : List Str) (repl : Str → Str) (u : Upstream) (r : Request) :
    (forward hop repl u r).method = r.method := rfl

theorem forward_contentLength (hop : List Str) (repl : Str → Str) (u : Upstream) (r : Request) :
    (forward hop repl u r).contentLength = r.contentLength := rfl

theorem forward_body (hop : List Str) (repl : Str → Str) (u : Upstream) (r : Request) :
    (forward hop repl u r).body = if r.contentLength == 0 then none else r.body := rfl

theorem forward_url (hop : List Str) (repl : Str → Str) (u : Upstream) (r : Request) :
    (forward hop repl u r).url = director u.target u.without r.url := rfl

end Casket.ProxyMsg
