import Casket.Spec.ProxyMsg
/-
Helper lemmas for Props/C04.lean: the header map operations observed through `vals`/`has`,
hop-by-hop stripping, rule application under non-interference, the director's joins.
-/
namespace Casket.ProxyMsg
open Casket.ProxyMsgSpec

/-! ### exhaustive checks over all 256 bytes -/

def allBelow (p : Nat → Bool) : Nat → Bool
  | 0 => true
  | n + 1 => p n && allBelow p n

theorem allBelow_spec (p : Nat → Bool) : ∀ n, allBelow p n = true → ∀ m < n, p m = true := by
  intro n
  induction n with
  | zero => intro _ m hm; omega
  | succ n ih =>
    intro h m hm
    simp [allBelow] at h
    by_cases hmn : m = n
    · subst hmn; exact h.1
    · exact ih h.2 m (by omega)

theorem all_u8 (p : UInt8 → Bool) (h : allBelow (fun n => p (UInt8.ofNat n)) 256 = true) :
    ∀ c, p c = true := by
  intro c
  have := allBelow_spec _ 256 h c.toNat c.toNat_lt
  simpa using this

/-! ### vals / has under the raw map operations -/

namespace Hdr

theorem vals_nil (k : Str) : vals [] k = [] := rfl

theorem vals_cons (e : Str × List Str) (h : Hdr) (k : Str) :
    vals (e :: h) k = if e.1 = k then e.2 else vals h k := by
  unfold vals
  by_cases hk : e.1 = k
  · simp [List.find?, hk]
  · have : (e.1 == k) = false := by simp [hk]
    simp [List.find?, this, hk]

theorem has_cons (e : Str × List Str) (h : Hdr) (k : Str) :
    has (e :: h) k = (decide (e.1 = k) || has h k) := by
  by_cases hk : e.1 = k <;> simp [has, hk]

theorem vals_delRaw (h : Hdr) (k k' : Str) :
    vals (delRaw h k) k' = if k' = k then [] else vals h k' := by
  induction h with
  | nil => simp [delRaw, vals_nil]
  | cons e h ih =>
    unfold delRaw at ih ⊢
    by_cases he : e.1 = k
    · simp only [List.filter, he, bne_self_eq_false]
      rw [ih, vals_cons]
      by_cases hk : k' = k
      · simp [hk]
      · have : ¬ e.1 = k' := by rw [he]; exact fun h => hk h.symm
        simp [hk, this]
    · have hne : (e.1 != k) = true := by simp [he]
      simp only [List.filter, hne]
      rw [vals_cons, vals_cons, ih]
      by_cases hk : e.1 = k'
      · have : ¬ k' = k := by rw [← hk]; exact he
        simp [hk, this]
      · simp [hk]

theorem has_delRaw (h : Hdr) (k k' : Str) :
    has (delRaw h k) k' = (decide (k' ≠ k) && has h k') := by
  induction h with
  | nil => simp [delRaw, has]
  | cons e h ih =>
    unfold delRaw at ih ⊢
    by_cases he : e.1 = k
    · simp only [List.filter, he, bne_self_eq_false]
      rw [ih, has_cons]
      by_cases hk : k' = k
      · simp [hk]
      · have : ¬ e.1 = k' := by rw [he]; exact fun h => hk h.symm
        simp [hk, this]
    · have hne : (e.1 != k) = true := by simp [he]
      simp only [List.filter, hne]
      rw [has_cons, has_cons, ih]
      by_cases hk : e.1 = k'
      · have : ¬ k' = k := by rw [← hk]; exact he
        simp [hk, this]
      · simp [hk]

theorem vals_setRaw (h : Hdr) (k : Str) (vv : List Str) (k' : Str) :
    vals (setRaw h k vv) k' = if k' = k then vv else vals h k' := by
  unfold setRaw
  rw [vals_cons, vals_delRaw]
  by_cases hk : k' = k
  · simp [hk]
  · have : ¬ k = k' := fun h => hk h.symm
    simp [hk, this]

theorem has_setRaw (h : Hdr) (k : Str) (vv : List Str) (k' : Str) :
    has (setRaw h k vv) k' = (decide (k' = k) || has h k') := by
  unfold setRaw
  rw [has_cons, has_delRaw]
  by_cases hk : k' = k
  · simp [hk]
  · have : ¬ k = k' := fun h => hk h.symm
    simp [hk, this]

theorem vals_del (h : Hdr) (name k' : Str) :
    vals (del h name) k' = if k' = canon name then [] else vals h k' := vals_delRaw h _ k'

theorem vals_set (h : Hdr) (name v k' : Str) :
    vals (set h name v) k' = if k' = canon name then [v] else vals h k' := vals_setRaw h _ _ k'

theorem vals_add (h : Hdr) (name v k' : Str) :
    vals (add h name v) k' = if k' = canon name then vals h (canon name) ++ [v] else vals h k' :=
  vals_setRaw h _ _ k'

theorem has_del (h : Hdr) (name k' : Str) :
    has (del h name) k' = (decide (k' ≠ canon name) && has h k') := has_delRaw h _ k'

/-- every key of the map carries at least one value (what net/http produces) -/
def NoEmpty (h : Hdr) : Prop := ∀ e ∈ h, e.2 ≠ []

theorem has_iff_vals (h : Hdr) (hne : NoEmpty h) (k : Str) : has h k = (vals h k != []) := by
  induction h with
  | nil => simp [has, vals_nil]
  | cons e h ih =>
    have hne' : NoEmpty h := fun x hx => hne x (List.mem_cons_of_mem _ hx)
    rw [has_cons, vals_cons, ih hne']
    by_cases hk : e.1 = k
    · have := hne e (List.mem_cons_self ..)
      simp [hk, this]
    · simp [hk]

theorem NoEmpty_delRaw (h : Hdr) (hne : NoEmpty h) (k : Str) : NoEmpty (delRaw h k) := by
  intro e he
  unfold delRaw at he
  exact hne e (List.mem_filter.mp he).1

end Hdr

/-! ### deleting a list of names -/

theorem vals_foldl_del (names : List Str) (h : Hdr) (k : Str) :
    (names.foldl Hdr.del h).vals k = if (names.map canon).contains k then [] else h.vals k := by
  induction names generalizing h with
  | nil => simp
  | cons n ns ih =>
    simp only [List.foldl_cons, List.map_cons]
    rw [ih, Hdr.vals_del]
    by_cases hk : k = canon n
    · simp [hk]
    · have : (k == canon n) = false := by simp [hk]
      simp only [List.contains_cons, this, Bool.false_or, hk, if_false]

theorem NoEmpty_foldl_del (names : List Str) (h : Hdr) (hne : Hdr.NoEmpty h) :
    Hdr.NoEmpty (names.foldl Hdr.del h) := by
  induction names generalizing h with
  | nil => exact hne
  | cons n ns ih => exact ih _ (Hdr.NoEmpty_delRaw h hne _)

/-- the hop-by-hop list holds canonical names -/
def CanonicalNames (l : List Str) : Prop := ∀ x ∈ l, canon x = x

theorem map_canon_of_canonical (l : List Str) (hc : CanonicalNames l) : l.map canon = l := by
  induction l with
  | nil => rfl
  | cons x xs ih =>
    simp only [List.map_cons]
    rw [hc x (List.mem_cons_self ..), ih (fun y hy => hc y (List.mem_cons_of_mem _ hy))]

theorem vals_stripHop (hop : List Str) (hc : CanonicalNames hop) (h : Hdr) (k : Str) :
    (stripHop hop h).vals k = if isHop hop h k then [] else h.vals k := by
  unfold stripHop isHop
  rw [vals_foldl_del, vals_foldl_del, map_canon_of_canonical hop hc]
  cases h1 : hop.contains k <;> cases h2 : ((connListed h).map canon).contains k <;> simp

theorem NoEmpty_stripHop (hop : List Str) (h : Hdr) (hne : Hdr.NoEmpty h) : Hdr.NoEmpty (stripHop hop h) :=
  NoEmpty_foldl_del _ _ (NoEmpty_foldl_del _ _ hne)

/-! ### header rules -/

theorem vals_foldl_add (repl : Str → Str) (rest : Str) (vs : List Str) (h : Hdr) (k : Str) :
    (vs.foldl (fun h v => if repl v != [] then h.add rest (repl v) else h) h).vals k =
      if k = canon rest then h.vals k ++ (vs.map repl).filter (fun v => v != []) else h.vals k := by
  induction vs generalizing h with
  | nil => simp
  | cons v vs ih =>
    simp only [List.foldl_cons, List.map_cons]
    rw [ih]
    by_cases hv : repl v = []
    · simp [hv]
    · have hv' : (repl v != []) = true := by simp [hv]
      simp only [hv', if_true, List.filter_cons]
      rw [Hdr.vals_add]
      by_cases hk : k = canon rest
      · subst hk; simp
      · simp [hk]

theorem vals_applyRule (repl : Str → Str) (h : Hdr) (r : Str × List Str) (k : Str) :
    (applyRule repl h r).vals k = if ruleTarget r.1 = k then ruleOn repl r (h.vals k) else h.vals k := by
  obtain ⟨field, vs⟩ := r
  have hset : ∀ name : Str,
      (match vs.getLast? with
        | some v => if repl v != [] then h.set name (repl v) else h
        | none => h).vals k =
      if canon name = k then
        (match vs.getLast? with
          | some v => if repl v != [] then [repl v] else h.vals k
          | none => h.vals k)
      else h.vals k := by
    intro name
    cases vs.getLast? with
    | none => simp
    | some v =>
      by_cases hv : repl v = []
      · simp [hv]
      · have hv' : (repl v != []) = true := by simp [hv]
        simp only [hv', if_true]
        rw [Hdr.vals_set]
        by_cases hk : k = canon name
        · subst hk; simp
        · have : ¬ canon name = k := fun h => hk h.symm
          simp [hk, this]
  cases field with
  | nil =>
    simp only [applyRule, ruleTarget, ruleOn]
    exact hset []
  | cons c rest =>
    by_cases hp : c = plus
    · subst hp
      simp only [applyRule, ruleTarget, ruleOn, beq_self_eq_true, if_true, Bool.true_or]
      rw [vals_foldl_add]
      by_cases hk : k = canon rest
      · subst hk; simp
      · have : ¬ canon rest = k := fun h => hk h.symm
        simp [hk, this]
    · have hp' : (c == plus) = false := by simp [hp]
      by_cases hm : c = minus
      · subst hm
        simp only [applyRule, ruleTarget, ruleOn, hp', beq_self_eq_true, if_true, Bool.or_true]
        simp only [Bool.false_eq_true, if_false]
        rw [Hdr.vals_del]
        by_cases hk : k = canon rest
        · subst hk; simp
        · have : ¬ canon rest = k := fun h => hk h.symm
          simp [hk, this]
      · have hm' : (c == minus) = false := by simp [hm]
        simp only [applyRule, ruleTarget, ruleOn, hp', hm', Bool.or_self, Bool.false_eq_true, if_false]
        exact hset (c :: rest)

theorem ruleEffect_none (repl : Str → Str) (rules : Rules) (k : Str) (old : List Str)
    (hno : (rules.map fun r => ruleTarget r.1).contains k = false) : ruleEffect repl rules k old = old := by
  unfold ruleEffect
  have : rules.find? (fun r => ruleTarget r.1 == k) = none := by
    rw [List.find?_eq_none]
    intro r hr
    simp only [List.contains_eq_mem, List.mem_map, decide_eq_false_iff_not, not_exists, not_and] at hno
    have := hno r hr
    simpa using this
  rw [this]

theorem vals_applyRules (repl : Str → Str) (rules : Rules) (h : Hdr) (k : Str)
    (hni : nonInterfering rules = true) :
    (applyRules repl h rules).vals k = ruleEffect repl rules k (h.vals k) := by
  induction rules generalizing h with
  | nil => rfl
  | cons r rs ih =>
    have hni' : (!(rs.map fun r => ruleTarget r.1).contains (ruleTarget r.1) && nonInterfering rs) = true := hni
    simp only [Bool.and_eq_true, Bool.not_eq_true'] at hni'
    show (applyRules repl (applyRule repl h r) rs).vals k = _
    rw [ih _ hni'.2, vals_applyRule]
    by_cases ht : ruleTarget r.1 = k
    · subst ht
      rw [ruleEffect_none _ _ _ _ hni'.1]
      simp [ruleEffect, List.find?]
    · have : (ruleTarget r.1 == k) = false := by simp [ht]
      simp only [ht, if_false]
      simp [ruleEffect, List.find?, this]

/-! ### the director -/

theorem endsWithSlash_eq (a : Str) (h : endsWithSlash a = true) : a.dropLast ++ [slash] = a := by
  unfold endsWithSlash at h
  have : a.getLast? = some slash := by simpa using h
  obtain ⟨ys, hys⟩ := List.getLast?_eq_some_iff.mp this
  subst hys
  simp

theorem singleJoiningSlash_eq (a b : Str) : singleJoiningSlash a b = joinOneSlash a b := by
  unfold singleJoiningSlash joinOneSlash dropTrailingSlash dropLeadingSlash
  cases b with
  | nil => simp [startsWithSlash]
  | cons c bs =>
    have hb : ((c :: bs) == ([] : Str)) = false := by simp
    have hb' : ((c :: bs) != ([] : Str)) = true := by simp
    simp only [hb, Bool.false_eq_true, if_false]
    by_cases hc : c = slash
    · have hs : startsWithSlash (c :: bs) = true := by simp [startsWithSlash, hc]
      by_cases ha : endsWithSlash a = true
      · simp only [hs, ha, Bool.and_self, if_true, List.drop_succ_cons, List.drop_zero]
        have := endsWithSlash_eq a ha
        conv => lhs; rw [← this]
      · have ha' : endsWithSlash a = false := by simpa using ha
        subst hc
        simp [hs, ha']
    · have hs : startsWithSlash (c :: bs) = false := by simp [startsWithSlash, hc]
      by_cases ha : endsWithSlash a = true
      · simp only [hs, ha, Bool.and_false, Bool.false_eq_true, if_false, Bool.not_true, Bool.false_and, if_true]
        have := endsWithSlash_eq a ha
        conv => lhs; rw [← this]
      · have ha' : endsWithSlash a = false := by simpa using ha
        simp [hs, ha', hb']

theorem trimPrefix_nil (s : Str) : trimPrefix s [] = s := by simp [trimPrefix]

theorem director_path (t : URL) (w : Str) (u : URL) :
    (director t w u).path = expectPath t w u.path := by
  unfold director expectPath
  simp only
  rw [singleJoiningSlash_eq]
  by_cases hw : w = []
  · subst hw; simp [trimPrefix_nil]
  · have : (w != []) = true := by simp [hw]
    simp [this]

theorem director_rawPath (t : URL) (w : Str) (u : URL) :
    (director t w u).rawPath = expectRawPath t w u := by
  unfold director expectRawPath
  simp only
  by_cases hw : w = []
  · subst hw
    by_cases hr : u.rawPath = []
    · by_cases ht : t.rawPath = []
      · simp [hr, ht]
      · simp [hr, ht, singleJoiningSlash_eq, trimPrefix_nil]
    · simp [hr, singleJoiningSlash_eq, trimPrefix_nil]
  · have hw' : (w != []) = true := by simp [hw]
    by_cases hr : u.rawPath = []
    · by_cases ht : t.rawPath = []
      · simp [hr, ht, hw']
      · simp [hr, ht, hw', singleJoiningSlash_eq]
    · have hr' : (u.rawPath != []) = true := by simp [hr]
      simp only [hw', hr', Bool.and_self, if_true]
      by_cases h1 : trimPrefix u.rawPath w = []
      · by_cases ht : t.rawPath = []
        · simp [h1, ht]
        · simp [h1, ht, singleJoiningSlash_eq]
      · simp [h1, singleJoiningSlash_eq]

theorem director_query (t : URL) (w : Str) (u : URL) :
    (director t w u).rawQuery = expectQuery t u.rawQuery := by
  unfold director expectQuery
  simp only
  by_cases h1 : t.rawQuery = []
  · simp [h1]
  · by_cases h2 : u.rawQuery = []
    · simp [h1, h2]
    · simp [h1, h2]

/-! ### the request side as a whole -/

theorem canon_sXFF : canon sXFF = sXFF := by decide

theorem vals_createUpstreamRequest (hop : List Str) (hc : CanonicalNames hop) (r : Request)
    (hne : Hdr.NoEmpty r.header) (k : Str) :
    (createUpstreamRequest hop r).header.vals k =
      (let s1 := if isHop hop r.header k then [] else r.header.vals k
       if k == sXFF then
         match splitHostPort r.remoteAddr with
         | some (ip, _) => [if s1 != [] then joinCommaSpace s1 ++ commaSpace ++ ip else ip]
         | none => s1
       else s1) := by
  unfold createUpstreamRequest
  simp only
  cases hs : splitHostPort r.remoteAddr with
  | none =>
    simp only [vals_stripHop hop hc]
    by_cases hk : k = sXFF <;> simp [hk]
  | some p =>
    obtain ⟨ip, port⟩ := p
    simp only
    rw [Hdr.vals_set, canon_sXFF, Hdr.has_iff_vals _ (NoEmpty_stripHop hop r.header hne), vals_stripHop hop hc]
    by_cases hk : k = sXFF
    · subst hk; simp
    · have : (k == sXFF) = false := by simp [hk]
      simp [hk, this, vals_stripHop hop hc]

theorem canon_sAuthorization : canon sAuthorization = sAuthorization := by decide

theorem vals_applyCred (cred : Option Str) (h : Hdr) (k : Str) :
    (applyCred cred h).vals k = credEffect cred k (h.vals k) := by
  unfold applyCred credEffect
  cases cred with
  | none => rfl
  | some c =>
    simp only [Hdr.get, canon_sAuthorization]
    by_cases hk : k = sAuthorization
    · subst hk
      generalize (h.vals sAuthorization).headD [] = x
      cases hb : (x == ([] : Str))
      · simp
      · simp only [if_true, beq_self_eq_true, Bool.true_and]
        rw [Hdr.vals_set, canon_sAuthorization]; simp
    · have hk' : (k == sAuthorization) = false := by simp [hk]
      simp only [hk', Bool.false_and, Bool.false_eq_true, if_false]
      generalize (h.vals sAuthorization).headD [] = x
      cases hb : (x == ([] : Str))
      · simp
      · simp only [if_true]
        rw [Hdr.vals_set, canon_sAuthorization]; simp [hk]

theorem vals_applyRepl (repl : Str → Str) (fr : Str × List (Str × Str)) (h : Hdr) (k : Str) :
    (applyRepl repl h fr).vals k = if k = canon fr.1 then fr.2.foldl (replOn repl) (h.vals k) else h.vals k := by
  obtain ⟨field, pts⟩ := fr
  unfold applyRepl
  simp only
  induction pts generalizing h with
  | nil => simp
  | cons pt pts ih =>
    simp only [List.foldl_cons]
    rw [ih]
    by_cases hk : k = canon field
    · subst hk
      simp only [if_true]
      congr 1
      unfold replOn Hdr.get
      by_cases hc : (repl pt.2 != [] && (h.vals (canon field)).headD [] != []) = true
      · simp only [hc, if_true]; rw [Hdr.vals_set]; simp
      · simp only [hc, Bool.false_eq_true, if_false]
    · simp only [hk, if_false]
      by_cases hc : (repl pt.2 != [] && h.get field != []) = true
      · simp only [hc, if_true]; rw [Hdr.vals_set]; simp [hk]
      · simp only [hc, Bool.false_eq_true, if_false]

theorem replEffect_none (repl : Str → Str) (repls : Repls) (k : Str) (old : List Str)
    (hno : (replTargets repls).contains k = false) : replEffect repl repls k old = old := by
  unfold replEffect
  have : repls.find? (fun fr => canon fr.1 == k) = none := by
    rw [List.find?_eq_none]
    intro fr hfr
    simp only [replTargets, List.contains_eq_mem, List.mem_map, decide_eq_false_iff_not, not_exists, not_and] at hno
    have := hno fr hfr
    simpa using this
  rw [this]

theorem vals_applyRepls (repl : Str → Str) (repls : Repls) (h : Hdr) (k : Str)
    (hd : replsDistinct repls = true) :
    (applyRepls repl h repls).vals k = replEffect repl repls k (h.vals k) := by
  induction repls generalizing h with
  | nil => rfl
  | cons fr rs ih =>
    have hd' : (!(replTargets rs).contains (canon fr.1) && replsDistinct rs) = true := hd
    simp only [Bool.and_eq_true, Bool.not_eq_true'] at hd'
    show (applyRepls repl (applyRepl repl h fr) rs).vals k = _
    rw [ih _ hd'.2, vals_applyRepl]
    by_cases ht : k = canon fr.1
    · subst ht
      rw [replEffect_none _ _ _ _ hd'.1]
      simp [replEffect, List.find?]
    · have : (canon fr.1 == k) = false := by
        simp only [beq_eq_false_iff_ne, ne_eq]; exact fun h => ht h.symm
      simp only [ht, if_false]
      simp [replEffect, List.find?, this]

theorem vals_forward (hop : List Str) (hc : CanonicalNames hop) (repl : Str → Str) (u : Upstream) (r : Request)
    (hne : Hdr.NoEmpty r.header) (hni : nonInterfering u.upRules = true) (hrd : replsDistinct u.upRepls = true)
    (k : Str) :
    (forward hop repl u r).header.vals k = expectReqVals hop repl u r k := by
  unfold forward attempt expectReqVals
  simp only
  rw [vals_applyRepls _ _ _ _ hrd, vals_applyRules _ _ _ _ hni, vals_applyCred,
    vals_createUpstreamRequest hop hc r hne]
  rfl

theorem forward_host (hop : List Str) (hc : CanonicalNames hop) (repl : Str → Str) (u : Upstream) (r : Request)
    (hne : Hdr.NoEmpty r.header) (hni : nonInterfering u.upRules = true) (hrd : replsDistinct u.upRepls = true) :
    (forward hop repl u r).host = expectHost hop repl u r := by
  have := vals_forward hop hc repl u r hne hni hrd sHost
  unfold expectHost
  rw [← this]
  rfl

theorem forward_method (hop : List Str) (repl : Str → Str) (u : Upstream) (r : Request) :
    (forward hop repl u r).method = r.method := rfl

theorem forward_contentLength (hop : List Str) (repl : Str → Str) (u : Upstream) (r : Request) :
    (forward hop repl u r).contentLength = r.contentLength := rfl

theorem forward_body (hop : List Str) (repl : Str → Str) (u : Upstream) (r : Request) :
    (forward hop repl u r).body = if r.contentLength == 0 then none else r.body := rfl

theorem forward_url (hop : List Str) (repl : Str → Str) (u : Upstream) (r : Request) :
    (forward hop repl u r).url = director u.target u.without r.url := rfl

/-! ### canonical keys -/

def caseStep (u : Bool) (c : UInt8) : UInt8 :=
  if u && isLower c then c - 32 else if !u && isUpper c then c + 32 else c

theorem canonGo_cons (u : Bool) (c : UInt8) (cs : Str) :
    canonGo u (c :: cs) = caseStep u c :: canonGo (caseStep u c == 45) cs := rfl

set_option maxRecDepth 8000 in
theorem caseStep_idem_true : ∀ c : UInt8, (caseStep true (caseStep true c) == caseStep true c) = true :=
  all_u8 _ (by decide)

set_option maxRecDepth 8000 in
theorem caseStep_idem_false : ∀ c : UInt8, (caseStep false (caseStep false c) == caseStep false c) = true :=
  all_u8 _ (by decide)

set_option maxRecDepth 8000 in
theorem caseStep_valid_true : ∀ c : UInt8, (!validFieldByte c || validFieldByte (caseStep true c)) = true :=
  all_u8 _ (by decide)

set_option maxRecDepth 8000 in
theorem caseStep_valid_false : ∀ c : UInt8, (!validFieldByte c || validFieldByte (caseStep false c)) = true :=
  all_u8 _ (by decide)

theorem caseStep_idem (u : Bool) (c : UInt8) : caseStep u (caseStep u c) = caseStep u c := by
  cases u
  · simpa using caseStep_idem_false c
  · simpa using caseStep_idem_true c

theorem caseStep_valid (u : Bool) (c : UInt8) (h : validFieldByte c = true) : validFieldByte (caseStep u c) = true := by
  cases u
  · have := caseStep_valid_false c; simpa [h] using this
  · have := caseStep_valid_true c; simpa [h] using this

theorem canonGo_idem (u : Bool) (s : Str) : canonGo u (canonGo u s) = canonGo u s := by
  induction s generalizing u with
  | nil => rfl
  | cons c cs ih => rw [canonGo_cons, canonGo_cons, caseStep_idem, ih]

theorem canonGo_valid (u : Bool) (s : Str) (h : s.all validFieldByte = true) :
    (canonGo u s).all validFieldByte = true := by
  induction s generalizing u with
  | nil => rfl
  | cons c cs ih =>
    simp only [List.all_cons, Bool.and_eq_true] at h
    rw [canonGo_cons]
    simp only [List.all_cons, Bool.and_eq_true]
    exact ⟨caseStep_valid u c h.1, ih _ h.2⟩

/-- `CanonicalMIMEHeaderKey` is idempotent -/
theorem canon_idem (s : Str) : canon (canon s) = canon s := by
  unfold canon
  by_cases h : s.all validFieldByte = true
  · simp only [h, if_true, canonGo_valid true s h, canonGo_idem]
  · simp [h]

/-- all keys of the map are in canonical form (what net/http produces) -/
def CanonicalKeys (h : Hdr) : Prop := ∀ e ∈ h, canon e.1 = e.1

theorem CanonicalKeys_delRaw (h : Hdr) (hc : CanonicalKeys h) (k : Str) : CanonicalKeys (h.delRaw k) := by
  intro e he
  exact hc e (List.mem_filter.mp he).1

theorem CanonicalKeys_setRaw (h : Hdr) (hc : CanonicalKeys h) (k : Str) (vv : List Str) (hk : canon k = k) :
    CanonicalKeys (h.setRaw k vv) := by
  intro e he
  rcases List.mem_cons.mp he with rfl | he
  · exact hk
  · exact CanonicalKeys_delRaw h hc k e he

theorem NoEmpty_setRaw (h : Hdr) (hne : Hdr.NoEmpty h) (k : Str) (vv : List Str) (hv : vv ≠ []) :
    Hdr.NoEmpty (h.setRaw k vv) := by
  intro e he
  rcases List.mem_cons.mp he with rfl | he
  · exact hv
  · exact Hdr.NoEmpty_delRaw h hne k e he

/-- invariant kept by every header operation of the proxy -/
def Good (h : Hdr) : Prop := CanonicalKeys h ∧ Hdr.NoEmpty h

theorem Good_del (h : Hdr) (hg : Good h) (name : Str) : Good (h.del name) :=
  ⟨CanonicalKeys_delRaw h hg.1 _, Hdr.NoEmpty_delRaw h hg.2 _⟩

theorem Good_set (h : Hdr) (hg : Good h) (name v : Str) : Good (h.set name v) :=
  ⟨CanonicalKeys_setRaw h hg.1 _ _ (canon_idem name), NoEmpty_setRaw h hg.2 _ _ (by simp)⟩

theorem Good_add (h : Hdr) (hg : Good h) (name v : Str) : Good (h.add name v) :=
  ⟨CanonicalKeys_setRaw h hg.1 _ _ (canon_idem name), NoEmpty_setRaw h hg.2 _ _ (by simp)⟩

theorem Good_foldl_del (names : List Str) (h : Hdr) (hg : Good h) : Good (names.foldl Hdr.del h) := by
  induction names generalizing h with
  | nil => exact hg
  | cons n ns ih => exact ih _ (Good_del h hg n)

theorem Good_stripHop (hop : List Str) (h : Hdr) (hg : Good h) : Good (stripHop hop h) :=
  Good_foldl_del _ _ (Good_foldl_del _ _ hg)

theorem Good_applyRule (repl : Str → Str) (h : Hdr) (hg : Good h) (r : Str × List Str) : Good (applyRule repl h r) := by
  obtain ⟨field, vs⟩ := r
  have hset : ∀ name : Str, Good (match vs.getLast? with
      | some v => if repl v != [] then h.set name (repl v) else h
      | none => h) := by
    intro name
    cases vs.getLast? with
    | none => exact hg
    | some v =>
      by_cases hv : (repl v != []) = true
      · simp only [hv, if_true]; exact Good_set h hg _ _
      · simp only [hv, Bool.false_eq_true, if_false]; exact hg
  have hadd : ∀ (rest : Str) (vs : List Str) (h : Hdr), Good h →
      Good (vs.foldl (fun h v => if repl v != [] then h.add rest (repl v) else h) h) := by
    intro rest vs
    induction vs with
    | nil => intro h hg; exact hg
    | cons v vs ih =>
      intro h hg
      simp only [List.foldl_cons]
      apply ih
      by_cases hv : (repl v != []) = true
      · simp only [hv, if_true]; exact Good_add h hg _ _
      · simp only [hv, Bool.false_eq_true, if_false]; exact hg
  cases field with
  | nil => simp only [applyRule]; exact hset []
  | cons c rest =>
    simp only [applyRule]
    by_cases hp : (c == plus) = true
    · simp only [hp, if_true]; exact hadd rest vs h hg
    · simp only [hp, Bool.false_eq_true, if_false]
      by_cases hm : (c == minus) = true
      · simp only [hm, if_true]; exact Good_del h hg rest
      · simp only [hm, Bool.false_eq_true, if_false]; exact hset (c :: rest)

theorem Good_applyRules (repl : Str → Str) (rules : Rules) (h : Hdr) (hg : Good h) : Good (applyRules repl h rules) := by
  unfold applyRules
  induction rules generalizing h with
  | nil => exact hg
  | cons r rs ih => exact ih _ (Good_applyRule repl h hg r)

/-! ### copyHeader -/

theorem mem_dedup (l : List Str) (k : Str) : k ∈ dedup l ↔ k ∈ l := by
  induction l with
  | nil => simp [dedup]
  | cons x xs ih =>
    simp only [dedup, List.mem_cons, List.mem_filter, ih]
    constructor
    · rintro (h | ⟨h, _⟩)
      · exact Or.inl h
      · exact Or.inr h
    · rintro (h | h)
      · exact Or.inl h
      · by_cases hk : k = x
        · exact Or.inl hk
        · exact Or.inr ⟨h, by simp [hk]⟩

theorem nodup_dedup (l : List Str) : (dedup l).Nodup := by
  induction l with
  | nil => simp [dedup]
  | cons x xs ih =>
    simp only [dedup, List.nodup_cons, List.mem_filter]
    refine ⟨?_, ?_⟩
    · rintro ⟨_, h⟩; simp at h
    · exact List.Nodup.sublist List.filter_sublist ih

theorem mem_keys (h : Hdr) (k : Str) : k ∈ h.keys ↔ h.has k = true := by
  unfold Hdr.keys Hdr.has
  rw [mem_dedup, List.any_eq_true]
  constructor
  · intro hk
    obtain ⟨e, he, rfl⟩ := List.mem_map.mp hk
    exact ⟨e, he, by simp⟩
  · rintro ⟨e, he, hek⟩
    exact List.mem_map.mpr ⟨e, he, by simpa using hek⟩

theorem vals_of_not_has (h : Hdr) (k : Str) (hn : h.has k = false) : h.vals k = [] := by
  induction h with
  | nil => rfl
  | cons e h ih =>
    rw [Hdr.has_cons] at hn
    simp only [Bool.or_eq_false_iff, decide_eq_false_iff_not] at hn
    rw [Hdr.vals_cons]
    simp [hn.1, ih hn.2]

theorem has_add (h : Hdr) (name v k' : Str) :
    (h.add name v).has k' = (decide (k' = canon name) || h.has k') := Hdr.has_setRaw h _ _ k'

theorem foldl_add (k : Str) (hk : canon k = k) (vs : List Str) (d : Hdr) (k' : Str) :
    ((vs.foldl (fun d v => d.add k v) d).vals k' = if k' = k then d.vals k ++ vs else d.vals k') ∧
    ((vs.foldl (fun d v => d.add k v) d).has k' = if k' = k then (d.has k || vs != []) else d.has k') := by
  induction vs generalizing d with
  | nil => by_cases h : k' = k <;> simp [h]
  | cons v vs ih =>
    simp only [List.foldl_cons]
    obtain ⟨i1, i2⟩ := ih (d.add k v)
    rw [i1, i2, Hdr.vals_add, Hdr.vals_add, has_add, has_add, hk]
    by_cases h : k' = k
    · subst h; simp
    · simp [h]

def copyKey (skip : List Str) (src : Hdr) (d : Hdr) (k : Str) : Hdr :=
  if d.has k && skip.contains k then d
  else
    let d := if d.has k && k != sServer then d.del k else d
    (src.vals k).foldl (fun d v => d.add k v) d

theorem copyHeader_eq (skip : List Str) (dst src : Hdr) :
    copyHeader skip dst src = src.keys.foldl (copyKey skip src) dst := rfl

/-- what `copyHeader` makes of one name that the source carries -/
def mergeVals (skip : List Str) (k : Str) (dHas : Bool) (dVals sVals : List Str) : List Str :=
  if dHas && skip.contains k then dVals
  else if dHas && k != sServer then sVals
  else dVals ++ sVals

theorem copyKey_spec (skip : List Str) (src d : Hdr) (k : Str) (hk : canon k = k) (hv : src.vals k ≠ []) (k' : Str) :
    ((copyKey skip src d k).vals k' = if k' = k then mergeVals skip k (d.has k) (d.vals k) (src.vals k) else d.vals k') ∧
    ((copyKey skip src d k).has k' = if k' = k then true else d.has k') := by
  unfold copyKey mergeVals
  by_cases h1 : (d.has k && skip.contains k) = true
  · simp only [h1, if_true]
    have : d.has k = true := by simp only [Bool.and_eq_true] at h1; exact h1.1
    by_cases h : k' = k
    · subst h; simp [this]
    · simp [h]
  · simp only [h1, Bool.false_eq_true, if_false]
    by_cases h2 : (d.has k && k != sServer) = true
    · simp only [h2, if_true]
      obtain ⟨i1, i2⟩ := foldl_add k hk (src.vals k) (d.del k) k'
      rw [i1, i2, Hdr.vals_del, Hdr.vals_del, Hdr.has_del, Hdr.has_del, hk]
      by_cases h : k' = k
      · subst h; simp [hv]
      · simp [h]
    · simp only [h2, Bool.false_eq_true, if_false]
      obtain ⟨i1, i2⟩ := foldl_add k hk (src.vals k) d k'
      rw [i1, i2]
      by_cases h : k' = k
      · subst h; simp [hv]
      · simp [h]

theorem foldl_copyKey (skip : List Str) (src : Hdr) (ks : List Str) (hnd : ks.Nodup) (hc : ∀ k ∈ ks, canon k = k)
    (hv : ∀ k ∈ ks, src.vals k ≠ []) (d : Hdr) (k' : Str) :
    ((ks.foldl (copyKey skip src) d).vals k' =
      if k' ∈ ks then mergeVals skip k' (d.has k') (d.vals k') (src.vals k') else d.vals k') ∧
    ((ks.foldl (copyKey skip src) d).has k' = if k' ∈ ks then true else d.has k') := by
  induction ks generalizing d with
  | nil => simp
  | cons k ks ih =>
    simp only [List.foldl_cons]
    have hnd' := (List.nodup_cons.mp hnd)
    obtain ⟨i1, i2⟩ := ih hnd'.2 (fun x hx => hc x (List.mem_cons_of_mem _ hx))
      (fun x hx => hv x (List.mem_cons_of_mem _ hx)) (copyKey skip src d k)
    obtain ⟨c1, c2⟩ := copyKey_spec skip src d k (hc k (List.mem_cons_self ..)) (hv k (List.mem_cons_self ..)) k'
    rw [i1, i2, c1, c2]
    by_cases hk : k' = k
    · subst hk
      simp [hnd'.1]
    · by_cases hm : k' ∈ ks
      · simp [hk, hm]
      · simp [hk, hm]

theorem vals_copyHeader (skip : List Str) (dst src : Hdr) (hg : Good src) (k : Str) :
    (copyHeader skip dst src).vals k =
      if src.has k then mergeVals skip k (dst.has k) (dst.vals k) (src.vals k) else dst.vals k := by
  rw [copyHeader_eq]
  have hc : ∀ x ∈ src.keys, canon x = x := by
    intro x hx
    rw [mem_keys, Hdr.has, List.any_eq_true] at hx
    obtain ⟨e, he, hek⟩ := hx
    have := hg.1 e he
    have hx' : e.1 = x := by simpa using hek
    rw [← hx']; exact this
  have hv : ∀ x ∈ src.keys, src.vals x ≠ [] := by
    intro x hx
    rw [mem_keys, Hdr.has_iff_vals src hg.2] at hx
    simpa using hx
  rw [(foldl_copyKey skip src src.keys (nodup_dedup _) hc hv dst k).1]
  by_cases hh : src.has k = true
  · have : k ∈ src.keys := (mem_keys src k).mpr hh
    simp [hh, this]
  · have : ¬ k ∈ src.keys := fun hm => hh ((mem_keys src k).mp hm)
    simp [hh, this]

/-! ### the response side as a whole -/

theorem Good_applyRepls (repl : Str → Str) (repls : Repls) (h : Hdr) (hg : Good h) : Good (applyRepls repl h repls) := by
  unfold applyRepls
  induction repls generalizing h with
  | nil => exact hg
  | cons fr rs ih =>
    apply ih
    obtain ⟨field, pts⟩ := fr
    unfold applyRepl
    simp only
    induction pts generalizing h with
    | nil => exact hg
    | cons pt pts ih2 =>
      simp only [List.foldl_cons]
      apply ih2
      by_cases hc : (repl pt.2 != [] && h.get field != []) = true
      · simp only [hc, if_true]; exact Good_set h hg _ _
      · simp only [hc, Bool.false_eq_true, if_false]; exact hg

theorem vals_merged (hop skip : List Str) (hc : CanonicalNames hop) (repl : Str → Str) (down : Rules) (dr : Repls) (pre : Hdr)
    (res : Response) (hg : Good res.header) (hni : nonInterfering down = true) (hrd : replsDistinct dr = true) (k : Str) :
    (copyHeader skip pre (applyRepls repl (applyRules repl (stripHop hop res.header) down) dr)).vals k =
      expectRespVals hop skip repl down dr pre res k := by
  have hg3 : Good (applyRepls repl (applyRules repl (stripHop hop res.header) down) dr) :=
    Good_applyRepls repl dr _ (Good_applyRules repl down _ (Good_stripHop hop _ hg))
  have hv : (applyRepls repl (applyRules repl (stripHop hop res.header) down) dr).vals k =
      replEffect repl dr k (ruleEffect repl down k (if isHop hop res.header k then [] else res.header.vals k)) := by
    rw [vals_applyRepls _ _ _ _ hrd, vals_applyRules _ _ _ _ hni, vals_stripHop hop hc]
  rw [vals_copyHeader skip pre _ hg3 k, Hdr.has_iff_vals _ hg3.2, hv]
  unfold expectRespVals mergeVals
  simp only
  generalize replEffect repl dr k (ruleEffect repl down k (if isHop hop res.header k then [] else res.header.vals k)) = s2
  cases hp : pre.has k
  · have := vals_of_not_has pre k hp
    by_cases h2 : s2 = [] <;> simp [h2, this]
  · by_cases h2 : s2 = []
    · simp [h2]
    · cases hs : skip.contains k
      · by_cases hsv : k = sServer
        · simp [h2, hsv]
        · have : (k == sServer) = false := by simp [hsv]
          simp [h2, hsv, this]
      · simp [h2, hs]

theorem vals_respond (hop skip : List Str) (hc : CanonicalNames hop) (repl : Str → Str) (down : Rules) (dr : Repls) (pre : Hdr)
    (res : Response) (hg : Good res.header) (hni : nonInterfering down = true) (hrd : replsDistinct dr = true) (k : Str) :
    (respond hop skip repl down dr pre res).header.vals k =
      if res.announced.length > 0 ∧ k = sTrailer then res.announced
      else expectRespVals hop skip repl down dr pre res k := by
  unfold respond
  simp only
  by_cases ha : res.announced.length > 0
  · simp only [ha, if_true, true_and]
    rw [Hdr.vals_setRaw]
    by_cases hk : k = sTrailer
    · simp [hk]
    · simp only [hk, if_false]
      exact vals_merged hop skip hc repl down dr pre res hg hni hrd k
  · simp only [ha, if_false, false_and]
    exact vals_merged hop skip hc repl down dr pre res hg hni hrd k

theorem respond_status (hop skip : List Str) (repl : Str → Str) (down : Rules) (dr : Repls) (pre : Hdr) (res : Response) :
    (respond hop skip repl down dr pre res).status = res.status := rfl

/-! ### trailers -/

/-- setting distinct raw keys one after the other: each key gets its own value list -/
theorem foldl_setRaw (f : Str → Str) (g : Str → List Str) (ks : List Str) (hnd : ks.Nodup)
    (hinj : ∀ a ∈ ks, ∀ b ∈ ks, f a = f b → a = b) (d : Hdr) (k' : Str) :
    ((ks.foldl (fun d k => d.setRaw (f k) (g k)) d).vals k' =
      match ks.find? (fun k => f k == k') with
      | some k => g k
      | none => d.vals k') ∧
    ((ks.foldl (fun d k => d.setRaw (f k) (g k)) d).has k' =
      ((ks.find? (fun k => f k == k')).isSome || d.has k')) := by
  induction ks generalizing d with
  | nil => simp
  | cons k ks ih =>
    have hnd' := List.nodup_cons.mp hnd
    have hinj' : ∀ a ∈ ks, ∀ b ∈ ks, f a = f b → a = b :=
      fun a ha b hb => hinj a (List.mem_cons_of_mem _ ha) b (List.mem_cons_of_mem _ hb)
    obtain ⟨i1, i2⟩ := ih hnd'.2 hinj' (d.setRaw (f k) (g k))
    simp only [List.foldl_cons]
    rw [i1, i2, Hdr.vals_setRaw, Hdr.has_setRaw]
    by_cases hk : f k = k'
    · -- no later key maps to k'
      have hnone : ks.find? (fun x => f x == k') = none := by
        rw [List.find?_eq_none]
        intro x hx hfx
        have : f x = k' := by simpa using hfx
        have := hinj x (List.mem_cons_of_mem _ hx) k (List.mem_cons_self ..) (by rw [this, hk])
        subst this
        exact hnd'.1 hx
      simp [List.find?, hk, hnone]
    · have hk' : (f k == k') = false := by simp [hk]
      have hk2 : ¬ k' = f k := fun h => hk h.symm
      simp [List.find?, hk', hk2]

/-- adding the value lists of distinct keys: each target key gets its list appended -/
theorem foldl_addAll (key : Str → Str) (val : Str → List Str) (ks : List Str) (hnd : ks.Nodup)
    (hinj : ∀ a ∈ ks, ∀ b ∈ ks, key a = key b → a = b) (hc : ∀ a ∈ ks, canon (key a) = key a) (t : Hdr) (k' : Str) :
    (ks.foldl (fun t k => (val k).foldl (fun t x => t.add (key k) x) t) t).vals k' =
      t.vals k' ++ (match ks.find? (fun k => key k == k') with
        | some k => val k
        | none => []) := by
  induction ks generalizing t with
  | nil => simp
  | cons k ks ih =>
    have hnd' := List.nodup_cons.mp hnd
    have hinj' : ∀ a ∈ ks, ∀ b ∈ ks, key a = key b → a = b :=
      fun a ha b hb => hinj a (List.mem_cons_of_mem _ ha) b (List.mem_cons_of_mem _ hb)
    simp only [List.foldl_cons]
    rw [ih hnd'.2 hinj' (fun a ha => hc a (List.mem_cons_of_mem _ ha)),
      (foldl_add (key k) (hc k (List.mem_cons_self ..)) (val k) t k').1]
    by_cases hk : key k = k'
    · have hnone : ks.find? (fun x => key x == k') = none := by
        rw [List.find?_eq_none]
        intro x hx hfx
        have : key x = k' := by simpa using hfx
        have := hinj x (List.mem_cons_of_mem _ hx) k (List.mem_cons_self ..) (by rw [this, hk])
        subst this
        exact hnd'.1 hx
      subst hk
      simp [List.find?, hnone]
    · have hk' : (key k == k') = false := by simp [hk]
      have hk2 : ¬ k' = key k := fun h => hk h.symm
      simp [List.find?, hk', hk2]

theorem foldl_addAll_hit (key : Str → Str) (val : Str → List Str) (ks : List Str) (hnd : ks.Nodup)
    (hinj : ∀ a ∈ ks, ∀ b ∈ ks, key a = key b → a = b) (hc : ∀ a ∈ ks, canon (key a) = key a) (t : Hdr)
    (k : Str) (hk : k ∈ ks) :
    (ks.foldl (fun t k => (val k).foldl (fun t x => t.add (key k) x) t) t).vals (key k) = t.vals (key k) ++ val k := by
  rw [foldl_addAll key val ks hnd hinj hc t (key k)]
  cases hf : ks.find? (fun x => key x == key k) with
  | none =>
    rw [List.find?_eq_none] at hf
    exact absurd (by simp) (hf k hk)
  | some a =>
    have ha := List.mem_of_find?_eq_some hf
    have hka : key a = key k := by simpa using List.find?_some hf
    rw [hinj a ha k hk hka]

theorem foldl_addAll_miss (key : Str → Str) (val : Str → List Str) (ks : List Str) (hnd : ks.Nodup)
    (hinj : ∀ a ∈ ks, ∀ b ∈ ks, key a = key b → a = b) (hc : ∀ a ∈ ks, canon (key a) = key a) (t : Hdr)
    (k' : Str) (hk : ∀ a ∈ ks, key a ≠ k') :
    (ks.foldl (fun t k => (val k).foldl (fun t x => t.add (key k) x) t) t).vals k' = t.vals k' := by
  rw [foldl_addAll key val ks hnd hinj hc t k']
  have : ks.find? (fun x => key x == k') = none := by
    rw [List.find?_eq_none]
    intro a ha h
    exact hk a ha (by simpa using h)
  rw [this]; simp

theorem foldl_setRaw_hit (f : Str → Str) (g : Str → List Str) (ks : List Str) (hnd : ks.Nodup)
    (hinj : ∀ a ∈ ks, ∀ b ∈ ks, f a = f b → a = b) (d : Hdr) (k : Str) (hk : k ∈ ks) :
    (ks.foldl (fun d k => d.setRaw (f k) (g k)) d).vals (f k) = g k ∧
    (ks.foldl (fun d k => d.setRaw (f k) (g k)) d).has (f k) = true := by
  obtain ⟨i1, i2⟩ := foldl_setRaw f g ks hnd hinj d (f k)
  rw [i1, i2]
  cases hf : ks.find? (fun x => f x == f k) with
  | none =>
    rw [List.find?_eq_none] at hf
    exact absurd (by simp) (hf k hk)
  | some a =>
    have ha := List.mem_of_find?_eq_some hf
    have hka : f a = f k := by simpa using List.find?_some hf
    rw [hinj a ha k hk hka]
    simp

theorem foldl_setRaw_miss (f : Str → Str) (g : Str → List Str) (ks : List Str) (hnd : ks.Nodup)
    (hinj : ∀ a ∈ ks, ∀ b ∈ ks, f a = f b → a = b) (d : Hdr) (k' : Str) (hk : ∀ a ∈ ks, f a ≠ k') :
    (ks.foldl (fun d k => d.setRaw (f k) (g k)) d).vals k' = d.vals k' ∧
    (ks.foldl (fun d k => d.setRaw (f k) (g k)) d).has k' = d.has k' := by
  obtain ⟨i1, i2⟩ := foldl_setRaw f g ks hnd hinj d k'
  have : ks.find? (fun x => f x == k') = none := by
    rw [List.find?_eq_none]
    intro a ha h
    exact hk a ha (by simpa using h)
  rw [i1, i2, this]
  simp

theorem vals_map_pair (l : List Str) (h : Str → List Str) (k' : Str) :
    Hdr.vals (l.map fun k => (k, h k)) k' = if k' ∈ l then h k' else [] := by
  induction l with
  | nil => simp [Hdr.vals_nil]
  | cons x xs ih =>
    simp only [List.map_cons]
    rw [Hdr.vals_cons, ih]
    by_cases hx : x = k'
    · subst hx; simp
    · have : ¬ k' = x := fun h => hx h.symm
      simp [hx, this]

theorem hasPrefix_append (p k : Str) : hasPrefix (p ++ k) p = true := by
  unfold hasPrefix
  exact List.isPrefixOf_iff_prefix.mpr (List.prefix_append p k)

theorem drop_prefix (p k : Str) : (p ++ k).drop p.length = k := by simp

theorem of_hasPrefix (k p : Str) (h : hasPrefix k p = true) : p ++ k.drop p.length = k := by
  unfold hasPrefix at h
  obtain ⟨t, ht⟩ := List.isPrefixOf_iff_prefix.mp h
  subst ht; simp

/-- the response header map of `respond` before the `Trailer` announcement is written -/
def mergedHeader (hop skip : List Str) (repl : Str → Str) (down : Rules) (dr : Repls) (pre : Hdr) (res : Response) : Hdr :=
  copyHeader skip pre (applyRepls repl (applyRules repl (stripHop hop res.header) down) dr)

/-- Side conditions of the trailer theorem: what net/http guarantees about `res.Trailer`, and that
trailer names and header names do not collide. -/
structure TrailerSide (merged : Hdr) (res : Response) : Prop where
  /-- trailer keys are canonical and carry at least one value -/
  tgood : Good res.trailer
  /-- no trailer is itself called `Trailer` or `Trailer:…` -/
  tplain : ∀ k ∈ res.trailer.keys, hasPrefix k sTrailerPrefix = false ∧ k ≠ sTrailer
  /-- announced keys are keys of the final trailer map (net/http only adds keys) … -/
  annKeys : ∀ k ∈ res.announced, k ∈ res.trailer.keys
  /-- … so equally many keys means the same keys -/
  annAll : res.trailer.keys.length = res.announced.length → ∀ k ∈ res.trailer.keys, k ∈ res.announced
  /-- no response header has a `Trailer:`-prefixed name or the name of a trailer; without announced
  trailers there is no stray `Trailer` header (from the ResponseWriter or a rule) either -/
  hdrPlain : ∀ k, merged.has k = true → hasPrefix k sTrailerPrefix = false
  hdrNoTrailerName : ∀ k ∈ res.trailer.keys, merged.has k = false
  noStray : res.announced = [] → merged.vals sTrailer = []

theorem prefix_inj (a b : Str) (h : sTrailerPrefix ++ a = sTrailerPrefix ++ b) : a = b :=
  List.append_cancel_left h

theorem sTrailer_not_prefixed : hasPrefix sTrailer sTrailerPrefix = false := by decide

theorem clientTrailers_respond (hop skip : List Str) (repl : Str → Str) (down : Rules) (dr : Repls) (pre : Hdr) (res : Response)
    (hs : TrailerSide (mergedHeader hop skip repl down dr pre res) res) (k' : Str) :
    (clientTrailers (respond hop skip repl down dr pre res)).vals k' = res.trailer.vals k' := by
  have hK : res.trailer.keys.Nodup := nodup_dedup _
  have hcanonK : ∀ a ∈ res.trailer.keys, canon a = a := by
    intro a ha
    rw [mem_keys, Hdr.has, List.any_eq_true] at ha
    obtain ⟨e, he, hea⟩ := ha
    have hx : e.1 = a := by simpa using hea
    rw [← hx]; exact hs.tgood.1 e he
  have hTnot : ∀ k, k ∉ res.trailer.keys → res.trailer.vals k = [] := by
    intro k hk
    apply vals_of_not_has
    cases hh : res.trailer.has k with
    | false => rfl
    | true => exact absurd ((mem_keys _ _).mpr hh) hk
  unfold clientTrailers respond
  simp only
  generalize hm : copyHeader skip pre (applyRepls repl (applyRules repl (stripHop hop res.header) down) dr) = merged
  have hs' : TrailerSide merged res := by rw [← hm]; exact hs
  -- the header map at WriteHeader
  generalize hsnap : (if res.announced.length > 0 then merged.setRaw sTrailer res.announced else merged) = snap
  have snapHas : ∀ k, snap.has k = true → hasPrefix k sTrailerPrefix = false := by
    intro k hk
    rw [← hsnap] at hk
    by_cases ha : res.announced.length > 0
    · simp only [ha, if_true] at hk
      rw [Hdr.has_setRaw] at hk
      by_cases hkt : k = sTrailer
      · rw [hkt]; exact sTrailer_not_prefixed
      · simp only [hkt, decide_false, Bool.false_or] at hk
        exact hs'.hdrPlain k hk
    · simp only [ha, if_false] at hk
      exact hs'.hdrPlain k hk
  have snapNoT : ∀ k ∈ res.trailer.keys, snap.has k = false := by
    intro k hk
    rw [← hsnap]
    by_cases ha : res.announced.length > 0
    · simp only [ha, if_true]
      rw [Hdr.has_setRaw]
      have := (hs'.tplain k hk).2
      simp [this, hs'.hdrNoTrailerName k hk]
    · simp only [ha, if_false]
      exact hs'.hdrNoTrailerName k hk
  have snapTrailer : snap.vals sTrailer = res.announced := by
    rw [← hsnap]
    by_cases ha : res.announced.length > 0
    · simp only [ha, if_true]; rw [Hdr.vals_setRaw]; simp
    · simp only [ha, if_false]
      have : res.announced = [] := by
        cases hl : res.announced with
        | nil => rfl
        | cons x xs => rw [hl] at ha; simp at ha
      rw [this]; exact hs'.noStray this
  rw [snapTrailer]
  by_cases hforce : (res.trailer.keys.length != res.announced.length) = true
  · -- unannounced trailers: every key is sent with the prefix
    simp only [hforce, shallowCopyTrailers, if_true]
    have hinj : ∀ a ∈ res.trailer.keys, ∀ b ∈ res.trailer.keys,
        sTrailerPrefix ++ a = sTrailerPrefix ++ b → a = b := fun a _ b _ h => prefix_inj a b h
    generalize hfin : res.trailer.keys.foldl (fun d k => d.setRaw (sTrailerPrefix ++ k) (res.trailer.vals k)) snap = final
    have finHit : ∀ k ∈ res.trailer.keys, final.vals (sTrailerPrefix ++ k) = res.trailer.vals k ∧
        final.has (sTrailerPrefix ++ k) = true := by
      intro k hk
      rw [← hfin]
      exact foldl_setRaw_hit (fun k => sTrailerPrefix ++ k) res.trailer.vals _ hK hinj snap k hk
    have finMiss : ∀ k, (∀ a ∈ res.trailer.keys, sTrailerPrefix ++ a ≠ k) → final.has k = snap.has k := by
      intro k hk
      rw [← hfin]
      exact (foldl_setRaw_miss (fun k => sTrailerPrefix ++ k) res.trailer.vals _ hK hinj snap k hk).2
    -- nothing is delivered through the announced names
    have hann : (res.announced.filter fun k => final.has k) = [] := by
      rw [List.filter_eq_nil_iff]
      intro k hk
      have hkK := hs'.annKeys k hk
      have hnp := (hs'.tplain k hkK).1
      rw [finMiss k (by
        intro a _ h
        rw [← h, hasPrefix_append] at hnp
        cases hnp)]
      simp [snapNoT k hkK]
    rw [hann]
    simp only [List.map_nil]
    -- the prefixed keys of the final map are exactly the prefixed trailer names
    have hP : ∀ a ∈ final.keys.filter (fun k => hasPrefix k sTrailerPrefix),
        ∃ k0 ∈ res.trailer.keys, a = sTrailerPrefix ++ k0 := by
      intro a ha
      rw [List.mem_filter, mem_keys] at ha
      obtain ⟨hhas, hpre⟩ := ha
      by_cases hex : ∃ k0 ∈ res.trailer.keys, sTrailerPrefix ++ k0 = a
      · obtain ⟨k0, hk0, rfl⟩ := hex
        exact ⟨k0, hk0, rfl⟩
      · have : final.has a = snap.has a := finMiss a (by
          intro x hx h
          exact hex ⟨x, hx, h⟩)
        rw [this] at hhas
        rw [snapHas a hhas] at hpre
        cases hpre
    have hPnd : (final.keys.filter (fun k => hasPrefix k sTrailerPrefix)).Nodup :=
      List.Nodup.sublist List.filter_sublist (nodup_dedup _)
    have hPinj : ∀ a ∈ final.keys.filter (fun k => hasPrefix k sTrailerPrefix),
        ∀ b ∈ final.keys.filter (fun k => hasPrefix k sTrailerPrefix),
        a.drop sTrailerPrefix.length = b.drop sTrailerPrefix.length → a = b := by
      intro a ha b hb h
      obtain ⟨a0, _, rfl⟩ := hP a ha
      obtain ⟨b0, _, rfl⟩ := hP b hb
      rw [drop_prefix, drop_prefix] at h
      rw [h]
    have hPc : ∀ a ∈ final.keys.filter (fun k => hasPrefix k sTrailerPrefix),
        canon (a.drop sTrailerPrefix.length) = a.drop sTrailerPrefix.length := by
      intro a ha
      obtain ⟨a0, ha0, rfl⟩ := hP a ha
      rw [drop_prefix]; exact hcanonK a0 ha0
    by_cases hk : k' ∈ res.trailer.keys
    · have hmem : sTrailerPrefix ++ k' ∈ final.keys.filter (fun k => hasPrefix k sTrailerPrefix) := by
        rw [List.mem_filter, mem_keys]
        exact ⟨(finHit k' hk).2, hasPrefix_append _ _⟩
      have := foldl_addAll_hit (fun k => k.drop sTrailerPrefix.length) final.vals _ hPnd hPinj hPc [] _ hmem
      simp only [drop_prefix] at this
      rw [this, (finHit k' hk).1]
      simp [Hdr.vals_nil]
    · rw [foldl_addAll_miss (fun k => k.drop sTrailerPrefix.length) final.vals _ hPnd hPinj hPc [] k' (by
        intro a ha h
        obtain ⟨a0, ha0, rfl⟩ := hP a ha
        rw [drop_prefix] at h
        exact hk (h ▸ ha0))]
      rw [hTnot k' hk]; rfl
  · -- all trailers were announced: they are delivered under their own names
    have hlen : res.trailer.keys.length = res.announced.length := by simpa using hforce
    simp only [hforce, shallowCopyTrailers, Bool.false_eq_true, if_false]
    have hinj : ∀ a ∈ res.trailer.keys, ∀ b ∈ res.trailer.keys, a = b → a = b := fun _ _ _ _ h => h
    generalize hfin : res.trailer.keys.foldl (fun d k => d.setRaw k (res.trailer.vals k)) snap = final
    have finHit : ∀ k ∈ res.trailer.keys, final.vals k = res.trailer.vals k ∧ final.has k = true := by
      intro k hk
      rw [← hfin]
      exact foldl_setRaw_hit (fun k => k) res.trailer.vals _ hK hinj snap k hk
    have finMiss : ∀ k, k ∉ res.trailer.keys → final.has k = snap.has k := by
      intro k hk
      rw [← hfin]
      exact (foldl_setRaw_miss (fun k => k) res.trailer.vals _ hK hinj snap k (by
        intro a ha h; exact hk (h ▸ ha))).2
    have hann : (res.announced.filter fun k => final.has k) = res.announced := by
      rw [List.filter_eq_self]
      intro k hk
      exact (finHit k (hs'.annKeys k hk)).2
    rw [hann]
    -- no prefixed key exists
    have hPnil : final.keys.filter (fun k => hasPrefix k sTrailerPrefix) = [] := by
      rw [List.filter_eq_nil_iff]
      intro a ha
      rw [mem_keys] at ha
      by_cases hk : a ∈ res.trailer.keys
      · simp [(hs'.tplain a hk).1]
      · rw [finMiss a hk] at ha
        simp [snapHas a ha]
    rw [hPnil]
    simp only [List.foldl_nil]
    rw [vals_map_pair]
    by_cases hk : k' ∈ res.trailer.keys
    · have := hs'.annAll hlen k' hk
      simp [this, (finHit k' hk).1]
    · have : k' ∉ res.announced := fun h => hk (hs'.annKeys k' h)
      simp [this, hTnot k' hk]

end Casket.ProxyMsg
