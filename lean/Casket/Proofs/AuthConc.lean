import Casket.Spec.AuthConc
/-
The credential decision of a call is a function of (rule, presented credentials) only, for
every interleaving of the calls in flight: the hash slot a call compares belongs to that call, so
the invariant "a stored slot holds the hash of ITS call's password" survives every step of every
other call.
-/
namespace Casket.AuthConcProofs
open Casket.Path Casket.Chain Casket.AuthConc Casket.AuthConcSpec

/-- a stored slot holds the hash of the password its own call presented (and that call passed
the user-name test) -/
def Inv (hash : Bytes → Bytes) (rule : AuthRule) (calls : List Call) (slots : List Slot) : Prop :=
  ∀ (i : Nat) (h : Bytes), slots[i]? = some (Slot.stored h) → ∃ c : Call, calls[i]? = some c ∧ c.user = rule.user ∧ h = hash c.pw

theorem inv_idle (hash : Bytes → Bytes) (rule : AuthRule) (calls : List Call) : Inv hash rule calls (idleSlots calls) := by
  intro i h hs
  simp [idleSlots] at hs

theorem inv_set_done {hash : Bytes → Bytes} {rule : AuthRule} {calls : List Call} {slots : List Slot} (i : Nat)
    (hinv : Inv hash rule calls slots) : Inv hash rule calls (slots.set i .done) := by
  intro j h hs
  rw [List.getElem?_set] at hs
  by_cases hij : i = j
  · rw [if_pos hij] at hs
    by_cases hl : i < slots.length
    · rw [if_pos hl] at hs; cases hs
    · rw [if_neg hl] at hs; cases hs
  · rw [if_neg hij] at hs; exact hinv j h hs

theorem step_inv {hash : Bytes → Bytes} {rule : AuthRule} {calls : List Call} {slots : List Slot} (i : Nat)
    (hinv : Inv hash rule calls slots) : Inv hash rule calls (stepCall hash rule calls slots i).1 := by
  unfold stepCall
  cases hc : calls[i]? with
  | none => exact hinv
  | some c =>
    cases hs : slots[i]? with
    | none => exact hinv
    | some s =>
      cases s with
      | idle =>
        dsimp only
        by_cases hu : c.user ≠ rule.user
        · rw [if_pos hu]; exact inv_set_done i hinv
        · rw [if_neg hu]
          intro j h hj
          rw [List.getElem?_set] at hj
          by_cases hij : i = j
          · rw [if_pos hij] at hj
            by_cases hl : i < slots.length
            · rw [if_pos hl] at hj
              cases hj
              exact ⟨c, hij ▸ hc, by simpa using hu, rfl⟩
            · rw [if_neg hl] at hj; cases hj
          · rw [if_neg hij] at hj; exact hinv j h hj
      | stored h => exact inv_set_done i hinv
      | done => exact hinv

theorem step_decision {hash : Bytes → Bytes} {rule : AuthRule} {calls : List Call} {slots : List Slot} {i j : Nat} {d : Bool}
    (hinj : ∀ a b, hash a = hash b → a = b) (hinv : Inv hash rule calls slots)
    (h : (stepCall hash rule calls slots i).2 = some (j, d)) :
    ∃ c, calls[j]? = some c ∧ d = valid rule c := by
  unfold stepCall at h
  cases hc : calls[i]? with
  | none => simp [hc] at h
  | some c =>
    cases hs : slots[i]? with
    | none => simp [hc, hs] at h
    | some s =>
      cases s with
      | idle =>
        by_cases hu : c.user ≠ rule.user
        · simp only [hc, hs] at h
          rw [if_pos hu] at h
          simp only [Option.some.injEq, Prod.mk.injEq] at h
          obtain ⟨rfl, rfl⟩ := h
          exact ⟨c, hc, by simp [valid, ruleAccepts, hu]⟩
        · simp only [hc, hs] at h
          rw [if_neg hu] at h
          cases h
      | stored hh =>
        simp only [hc, hs, Option.some.injEq, Prod.mk.injEq] at h
        obtain ⟨rfl, rfl⟩ := h
        obtain ⟨c', hc', hu, hh'⟩ := hinv i hh hs
        rw [hc] at hc'; cases hc'
        refine ⟨c, hc, ?_⟩
        subst hh'
        by_cases hp : c.pw = rule.pass
        · simp [valid, ruleAccepts, hu, hp]
        · have : hash c.pw ≠ hash rule.pass := fun he => hp (hinj _ _ he)
          simp [valid, ruleAccepts, hu, hp, this]
      | done => simp [hc, hs] at h

/-- every decision any schedule produces is the pure function of the call's own credentials -/
theorem runSched_pure {hash : Bytes → Bytes} {rule : AuthRule} {calls : List Call}
    (hinj : ∀ a b, hash a = hash b → a = b) (sched : List Nat) (slots : List Slot) (hinv : Inv hash rule calls slots) :
    ∀ jd ∈ runSched hash rule calls slots sched, ∃ c, calls[jd.1]? = some c ∧ jd.2 = valid rule c := by
  induction sched generalizing slots with
  | nil => intro jd h; simp [runSched] at h
  | cons i rest ih =>
    intro jd h
    unfold runSched at h
    have hinv' := step_inv (hash := hash) (rule := rule) (calls := calls) i hinv
    cases hd : (stepCall hash rule calls slots i).2 with
    | none =>
      simp only [hd] at h
      exact ih _ hinv' jd h
    | some d =>
      simp only [hd, List.mem_cons] at h
      rcases h with rfl | h
      · exact step_decision hinj hinv hd
      · exact ih _ hinv' jd h

theorem tally_of_pure (rule : AuthRule) (calls : List Call) (ds : List (Nat × Bool))
    (h : ∀ jd ∈ ds, ∃ c, calls[jd.1]? = some c ∧ jd.2 = valid rule c) :
    tally rule calls ds = { wrongServed := 0, validRefused := 0 } := by
  have h1 : ds.filter (wrongServedP rule calls) = [] := by
    rw [List.filter_eq_nil_iff]
    intro jd hjd
    obtain ⟨c, hc, hv⟩ := h jd hjd
    simp [wrongServedP, hc, hv]
  have h2 : ds.filter (validRefusedP rule calls) = [] := by
    rw [List.filter_eq_nil_iff]
    intro jd hjd
    obtain ⟨c, hc, hv⟩ := h jd hjd
    simp [validRefusedP, hc, hv]
  simp only [tally, h1, h2, List.length_nil]

end Casket.AuthConcProofs
