import Casket.Spec.HtCacheLock
/-
Lemmas about the model of the htpasswd cache and its mutex (Props/C11.lean states the theorems).
-/
namespace Casket.HtCacheLock

/-- every stamp in the cache or on disk is older than the clock, and a cached table whose stamp is the file's stamp is
the file's table -/
structure Coh (s : St) : Prop where
  cacheOld : ∀ f e, s.cache f = some e → e.stamp < s.clock
  diskOld : ∀ f st c, s.disk f = .file st c → st < s.clock
  coherent : ∀ f e st c, s.cache f = some e → s.disk f = .file st c → st = e.stamp → c = .users e.us

/-- what holds between calls: the mutex is free and the cache is coherent -/
structure Inv (s : St) : Prop where
  free : s.locked = false
  coh : Coh s

theorem inv_init : Inv init :=
  ⟨rfl, fun _ _ h => by simp [init] at h, fun _ _ _ h => by simp [init] at h, fun _ _ _ _ h => by simp [init] at h⟩

theorem upd_same {α : Type} (m : Nat → α) (k : Nat) (v : α) : upd m k v k = v := by simp [upd]

theorem upd_other {α : Type} (m : Nat → α) (k i : Nat) (v : α) (h : i ≠ k) : upd m k v i = m i := by simp [upd, h]

theorem lookup_ne_hang (us : List Nat) (u : Nat) : lookup us u ≠ .hang := by
  unfold lookup
  split <;> simp

theorem fresh_ne_hang (d : Disk) (u : Nat) : fresh d u ≠ .hang := by
  unfold fresh
  cases d with
  | absent => simp
  | dir => simp
  | file st c =>
    cases c with
    | malformed => simp
    | users us => exact lookup_ne_hang us u

/-- forgetting a table keeps the cache coherent -/
theorem coh_forget (s : St) (f : Nat) (h : Coh s) : Coh { s with cache := upd s.cache f none } := by
  refine ⟨?_, h.diskOld, ?_⟩
  · intro f' e he
    by_cases hf : f' = f
    · subst hf; simp [upd_same] at he
    · simp only [upd_other _ _ _ _ hf] at he; exact h.cacheOld _ _ he
  · intro f' e st c he
    by_cases hf : f' = f
    · subst hf; simp [upd_same] at he
    · simp only [upd_other _ _ _ _ hf] at he; exact h.coherent _ _ _ _ he

/-- remembering the table of the file as it is keeps the cache coherent -/
theorem coh_remember (s : St) (f st : Nat) (us : List Nat) (hd : s.disk f = .file st (.users us)) (h : Coh s) :
    Coh { s with cache := upd s.cache f (some ⟨us, st⟩) } := by
  refine ⟨?_, h.diskOld, ?_⟩
  · intro f' e he
    by_cases hf : f' = f
    · subst hf
      simp only [upd_same, Option.some.injEq] at he
      subst he
      exact h.diskOld _ _ _ hd
    · simp only [upd_other _ _ _ _ hf] at he; exact h.cacheOld _ _ he
  · intro f' e st' c' he hd' hst
    by_cases hf : f' = f
    · subst hf
      simp only [upd_same, Option.some.injEq] at he
      subst he
      simp only [hd, Disk.file.injEq] at hd'
      exact hd'.2.symm
    · simp only [upd_other _ _ _ _ hf] at he; exact h.coherent _ _ _ _ he hd' hst

theorem dropStale_spec (f : Nat) (s : St) (h : Coh s) :
    (dropStale f s).disk = s.disk ∧ (dropStale f s).clock = s.clock ∧ (dropStale f s).locked = s.locked ∧ Coh (dropStale f s) ∧
    (∀ e, (dropStale f s).cache f = some e → s.disk f = .file e.stamp (.users e.us)) := by
  cases hc : s.cache f with
  | none =>
    have hds : dropStale f s = s := by simp [dropStale, hc]
    rw [hds]
    exact ⟨rfl, rfl, rfl, h, fun e he => by simp [hc] at he⟩
  | some e =>
    by_cases hs : stale (s.disk f) e = true
    · have hds : dropStale f s = { s with cache := upd s.cache f none } := by simp [dropStale, hc, hs]
      rw [hds]
      exact ⟨rfl, rfl, rfl, coh_forget s f h, fun e' he => by simp [upd_same] at he⟩
    · have hds : dropStale f s = s := by simp [dropStale, hc, hs]
      rw [hds]
      refine ⟨rfl, rfl, rfl, h, ?_⟩
      intro e' he
      rw [hc] at he
      simp only [Option.some.injEq] at he
      subst he
      cases hd : s.disk f with
      | absent => simp [stale, hd] at hs
      | dir => simp [stale, hd] at hs
      | file st c =>
        have hst : st = e.stamp := by
          simp only [stale, hd, bne_iff_ne, ne_eq, Decidable.not_not] at hs
          exact hs
        have hcc := h.coherent f e st c hc hd hst
        rw [hst, hcc]

theorem readFile_spec (f u : Nat) (s : St) (h : Coh s) :
    (readFile f u s).1 = fresh (s.disk f) u ∧ (readFile f u s).2.disk = s.disk ∧ (readFile f u s).2.clock = s.clock ∧
    (readFile f u s).2.locked = s.locked ∧ Coh (readFile f u s).2 := by
  unfold readFile
  cases hd : s.disk f with
  | absent => exact ⟨by simp [fresh], rfl, rfl, rfl, h⟩
  | dir => exact ⟨by simp [fresh], rfl, rfl, rfl, h⟩
  | file st c =>
    cases c with
    | malformed => exact ⟨by simp [fresh], rfl, rfl, rfl, h⟩
    | users us => exact ⟨by simp [fresh], rfl, rfl, rfl, coh_remember s f st us hd h⟩

/-- one call: it answers what a fresh process answers, leaves the disk and the clock alone, and keeps the invariant —
in particular it returns with the mutex free -/
theorem get_spec (f u : Nat) (s : St) (h : Inv s) :
    (get f u s).1 = fresh (s.disk f) u ∧ (get f u s).2.disk = s.disk ∧ (get f u s).2.clock = s.clock ∧ Inv (get f u s).2 := by
  obtain ⟨hfree, hcoh⟩ := h
  have hcoh1 : Coh { s with locked := true } := ⟨hcoh.cacheOld, hcoh.diskOld, hcoh.coherent⟩
  obtain ⟨d1, d2, _, d4, d5⟩ := dropStale_spec f { s with locked := true } hcoh1
  unfold get
  simp only [hfree, Bool.false_eq_true, if_false]
  generalize dropStale f { s with locked := true } = s1 at d1 d2 d4 d5
  have d1' : s1.disk = s.disk := d1
  have d2' : s1.clock = s.clock := d2
  cases hc : s1.cache f with
  | some e =>
    have hd := d5 e hc
    refine ⟨?_, d1', d2', ⟨rfl, ⟨d4.cacheOld, d4.diskOld, d4.coherent⟩⟩⟩
    have hd' : s.disk f = .file e.stamp (.users e.us) := hd
    simp [hd', fresh]
  | none =>
    obtain ⟨r1, r2, r3, _, r5⟩ := readFile_spec f u s1 d4
    refine ⟨?_, ?_, ?_, ⟨rfl, ⟨r5.cacheOld, r5.diskOld, r5.coherent⟩⟩⟩
    · show (readFile f u s1).1 = _
      rw [r1, d1']
    · show (readFile f u s1).2.disk = _
      rw [r2, d1']
    · show (readFile f u s1).2.clock = _
      rw [r3, d2']

theorem mutate_inv (op : Op) (s : St) (h : Inv s) : Inv (mutate op s) := by
  obtain ⟨hfree, hco, hdo, hcoh⟩ := h
  have writeInv : ∀ f c, Inv { s with disk := upd s.disk f (.file s.clock c), clock := s.clock + 1 } := by
    intro f c
    refine ⟨hfree, fun f' e he => Nat.lt_succ_of_lt (hco _ _ he), ?_, ?_⟩
    · intro f' st c' hd
      by_cases hf : f' = f
      · subst hf
        simp only [upd_same, Disk.file.injEq] at hd
        show st < s.clock + 1
        omega
      · simp only [upd_other _ _ _ _ hf] at hd
        exact Nat.lt_succ_of_lt (hdo _ _ _ hd)
    · intro f' e st c' he hd hst
      by_cases hf : f' = f
      · subst hf
        simp only [upd_same, Disk.file.injEq] at hd
        have := hco _ _ he
        exfalso
        omega
      · simp only [upd_other _ _ _ _ hf] at hd
        exact hcoh _ _ _ _ he hd hst
  have clearInv : ∀ f d, (∀ st c, d ≠ .file st c) → Inv { s with disk := upd s.disk f d } := by
    intro f d hd
    refine ⟨hfree, hco, ?_, ?_⟩
    · intro f' st c' h'
      by_cases hf : f' = f
      · subst hf
        simp only [upd_same] at h'
        exact absurd h' (hd _ _)
      · simp only [upd_other _ _ _ _ hf] at h'
        exact hdo _ _ _ h'
    · intro f' e st c' he h' hst
      by_cases hf : f' = f
      · subst hf
        simp only [upd_same] at h'
        exact absurd h' (hd _ _)
      · simp only [upd_other _ _ _ _ hf] at h'
        exact hcoh _ _ _ _ he h' hst
  cases op with
  | get f u => exact ⟨hfree, hco, hdo, hcoh⟩
  | write f c => exact writeInv f c
  | remove f => exact clearInv f .absent (fun _ _ h => by cases h)
  | mkdir f => exact clearInv f .dir (fun _ _ h => by cases h)
  | touch f =>
    cases hd : s.disk f with
    | absent =>
      have : mutate (.touch f) s = s := by simp [mutate, hd]
      rw [this]; exact ⟨hfree, hco, hdo, hcoh⟩
    | dir =>
      have : mutate (.touch f) s = s := by simp [mutate, hd]
      rw [this]; exact ⟨hfree, hco, hdo, hcoh⟩
    | file st c =>
      have : mutate (.touch f) s = { s with disk := upd s.disk f (.file s.clock c), clock := s.clock + 1 } := by simp [mutate, hd]
      rw [this]; exact writeInv f c

/-- with the invariant, the cache cannot be observed: a history gets the answers fresh processes would give -/
theorem run_eq_runFresh (ops : List Op) (s : St) (h : Inv s) : run ops s = runFresh ops s := by
  induction ops generalizing s with
  | nil => rfl
  | cons op rest ih =>
    cases op with
    | get f u =>
      obtain ⟨h1, h2, h3, h4⟩ := get_spec f u s h
      simp only [run, runFresh, h1]
      congr 1
      rw [ih _ h4]
      -- runFresh only reads the disk and the clock
      have : ∀ (ops : List Op) (a b : St), a.disk = b.disk → a.clock = b.clock → runFresh ops a = runFresh ops b := by
        intro ops
        induction ops with
        | nil => intros; rfl
        | cons op rest ih' =>
          intro a b hd hc
          cases op with
          | get f u => simp only [runFresh, hd]; congr 1; exact ih' _ _ hd hc
          | write f c => simp only [runFresh, mutate]; exact ih' _ _ (by simp [hd, hc]) (by simp [hc])
          | remove f => simp only [runFresh, mutate]; exact ih' _ _ (by simp [hd]) hc
          | mkdir f => simp only [runFresh, mutate]; exact ih' _ _ (by simp [hd]) hc
          | touch f =>
            simp only [runFresh, mutate, hd]
            cases b.disk f with
            | absent => exact ih' _ _ hd hc
            | dir => exact ih' _ _ hd hc
            | file st c => exact ih' _ _ (by simp [hc]) (by simp [hc])
      exact this rest _ _ h2 h3
    | write f c => simp only [run, runFresh]; exact ih _ (mutate_inv _ _ h)
    | remove f => simp only [run, runFresh]; exact ih _ (mutate_inv _ _ h)
    | mkdir f => simp only [run, runFresh]; exact ih _ (mutate_inv _ _ h)
    | touch f => simp only [run, runFresh]; exact ih _ (mutate_inv _ _ h)

theorem runFresh_no_hang (ops : List Op) (s : St) : Res.hang ∉ runFresh ops s := by
  induction ops generalizing s with
  | nil => simp [runFresh]
  | cons op rest ih =>
    cases op with
    | get f u =>
      simp only [runFresh, List.mem_cons, not_or]
      exact ⟨fun h => fresh_ne_hang _ _ h.symm, ih _⟩
    | write f c => simp only [runFresh]; exact ih _
    | remove f => simp only [runFresh]; exact ih _
    | mkdir f => simp only [runFresh]; exact ih _
    | touch f => simp only [runFresh]; exact ih _

/-- the memo of the judge is right about the disk as it is now -/
def MemoOk (m : Memo) (s : St) : Prop := ∀ f u r, ((f, u), r) ∈ m → r = fresh (s.disk f) u

theorem memo_find_ok (m : Memo) (s : St) (h : MemoOk m s) (f u : Nat) (r : Res) (hf : m.find f u = some r) :
    r = fresh (s.disk f) u := by
  unfold Memo.find at hf
  cases hx : m.find? (fun e => e.1 == (f, u)) with
  | none => simp [hx] at hf
  | some e =>
    simp only [hx, Option.map_some, Option.some.injEq] at hf
    have hmem := List.mem_of_find?_eq_some hx
    have hk := List.find?_some hx
    simp only [beq_iff_eq] at hk
    obtain ⟨⟨f', u'⟩, r'⟩ := e
    simp only [Prod.mk.injEq] at hk
    obtain ⟨rfl, rfl⟩ := hk
    subst hf
    exact h _ _ _ hmem

theorem memo_forget_ok (m : Memo) (s s' : St) (f : Nat) (h : MemoOk m s) (hd : ∀ g, g ≠ f → s'.disk g = s.disk g) :
    MemoOk (m.forget f) s' := by
  intro g u r hm
  unfold Memo.forget at hm
  simp only [List.mem_filter, bne_iff_ne, ne_eq] at hm
  rw [hd g hm.2]
  exact h _ _ _ hm.1

theorem mutate_disk_other (op : Op) (s : St) (f : Nat) (ht : op.target = some f) (g : Nat) (hg : g ≠ f) :
    (mutate op s).disk g = s.disk g := by
  cases op with
  | get f' u => simp [Op.target] at ht
  | write f' c => simp only [Op.target, Option.some.injEq] at ht; subst ht; simp [mutate, upd_other _ _ _ _ hg]
  | remove f' => simp only [Op.target, Option.some.injEq] at ht; subst ht; simp [mutate, upd_other _ _ _ _ hg]
  | mkdir f' => simp only [Op.target, Option.some.injEq] at ht; subst ht; simp [mutate, upd_other _ _ _ _ hg]
  | touch f' =>
    simp only [Op.target, Option.some.injEq] at ht; subst ht
    cases hd : s.disk f' with
    | absent => simp [mutate, hd]
    | dir => simp [mutate, hd]
    | file st c => simp [mutate, hd, upd_other _ _ _ _ hg]

theorem agrees_runFresh (ops : List Op) (s : St) (m : Memo) (h : MemoOk m s) : agrees ops (runFresh ops s) m = true := by
  induction ops generalizing s m with
  | nil => simp [agrees, runFresh]
  | cons op rest ih =>
    cases op with
    | get f u =>
      simp only [runFresh, agrees, Bool.and_eq_true, bne_iff_ne, ne_eq]
      refine ⟨⟨fresh_ne_hang _ _, ?_⟩, ?_⟩
      · cases hf : m.find f u with
        | none => rfl
        | some r' => simp [memo_find_ok m s h f u r' hf]
      · apply ih
        intro g v r hm
        simp only [List.mem_cons, Prod.mk.injEq] at hm
        rcases hm with ⟨⟨rfl, rfl⟩, rfl⟩ | hm
        · rfl
        · exact h _ _ _ hm
    | write f c =>
      simp only [runFresh, agrees]
      exact ih _ _ (memo_forget_ok m s _ f h (mutate_disk_other _ s f rfl))
    | remove f =>
      simp only [runFresh, agrees]
      exact ih _ _ (memo_forget_ok m s _ f h (mutate_disk_other _ s f rfl))
    | mkdir f =>
      simp only [runFresh, agrees]
      exact ih _ _ (memo_forget_ok m s _ f h (mutate_disk_other _ s f rfl))
    | touch f =>
      simp only [runFresh, agrees]
      exact ih _ _ (memo_forget_ok m s _ f h (mutate_disk_other _ s f rfl))

end Casket.HtCacheLock
