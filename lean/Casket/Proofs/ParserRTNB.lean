import Casket.Proofs.ParserSplice
/-
The brace-less single-block form in the round trip (C10): keys on the first line(s), then directives to the end of
the input, no `{ … }` around them.  `addresses()` stops on the first token of a new line, `blockContents()` steps back
one token and `directives()` runs to the end of the input.
-/
namespace Casket.ParserRT
open Casket.Lexer Casket.Dispenser Casket.Dispenser.Disp Casket.Parser

/-- the directives of a brace-less block: as `dirsOK`, but nothing follows the last one -/
def dirsOKE : List WDir → Bool
  | [] => true
  | d :: ds =>
    noRef d.name.text && d.name.text != rbrace && d.name.text != lbrace && d.name.text != sImport &&
    restOK d.name 0 d.rest &&
    (match ds with | [] => true | d' :: _ => tokNewLine (lastTok d) d'.name) &&
    dirsOKE ds

/-- a server block written without braces -/
structure WBlockE where
  keys : List Token
  dirs : List WDir

def WBlockE.toks (b : WBlockE) : List Token := b.keys ++ dirToks b.dirs

/-- keys as in the braced form; at least one directive, the first one on a new line after the last key -/
def blockEOK (b : WBlockE) : Bool :=
  keysOK b.keys && (isSnippet (b.keys.map keyOf)).isNone &&
  (match b.keys.getLast?, b.dirs with
   | some kl, d :: _ => tokNewLine kl d.name
   | _, _ => false) &&
  dirsOKE b.dirs

/-- the server block the parser must return (= `expectedBlock` of the braced form, whatever the braces) -/
def expectedE (b : WBlockE) : ServerBlock := ⟨b.keys.map keyOf, foldDirs [] b.dirs⟩

theorem expectedE_eq (b : WBlockE) (o c : Token) : expectedE b = expectedBlock ⟨b.keys, o, b.dirs, c⟩ := rfl

/-- `directives()` over written directives that run to the end of the input -/
theorem directives_eof (cfg : Cfg) (hf : 0 < cfg.envFuel) (hv : cfg.valid = none) (ts : List Token) (ds : List WDir) :
    ∀ (p : Nat) (s : PState) (fuel : Nat), At ts p s → ts.drop (p + 1) = dirToks ds →
      dirsOKE ds = true → ts.length ≤ fuel →
      directives cfg (fuel + ds.length + 1) s =
        .ok { moveTo s (p + (dirToks ds).length) with btoks := foldDirs s.btoks ds } := by
  induction ds with
  | nil =>
    intro p s fuel hat hseg _ _
    have hnone : ts[p + 1]? = none := by
      have := getElem?_of_drop hseg 0
      simpa [dirToks] using this
    simp only [List.length_nil, Nat.add_zero, dirToks, List.flatMap_nil, foldDirs, List.foldl_nil, moveTo_self hat]
    unfold directives
    rw [next_none hat hnone]
    simp
  | cons d ds' ih =>
    intro p s fuel hat hseg hok hfuel
    simp only [dirsOKE, Bool.and_eq_true, bne_iff_ne, ne_eq] at hok
    obtain ⟨⟨⟨⟨⟨⟨hnr, hnrb⟩, hnlb⟩, hnimp⟩, hrest⟩, hnl⟩, hds⟩ := hok
    have hseg1 : ts.drop (p + 1) = (d.name :: d.rest) ++ dirToks ds' := by
      rw [hseg]; simp [dirToks, WDir.toks, List.flatMap_cons]
    have hname : ts[p + 1]? = some d.name := by have := getElem?_of_drop hseg1 0; simpa using this
    have hrestseg : ∀ i, i < d.rest.length → ts[p + 1 + 1 + i]? = d.rest[i]? := by
      intro i hi
      have := getElem?_of_drop hseg1 (1 + i)
      have e : p + 1 + (1 + i) = p + 1 + 1 + i := by omega
      rw [e] at this
      rw [this]
      simp only [List.cons_append, Nat.add_comm 1 i, List.getElem?_cons_succ]
      exact List.getElem?_append_left hi
    have hseg2 : ts.drop (p + 1 + 1 + d.rest.length) = dirToks ds' := by
      have := drop_drop' hseg1
      simp only [List.length_cons] at this
      have e : p + 1 + (d.rest.length + 1) = p + 1 + 1 + d.rest.length := by omega
      rw [e] at this; exact this
    have hlen : p + 1 + ((d.name :: d.rest) ++ dirToks ds').length = ts.length :=
      length_of_drop hseg1 (by simp)
    simp only [List.length_append, List.length_cons] at hlen
    have hend : EndsAt ts (p + 1 + 1 + d.rest.length) (lastOf d.name d.rest) := by
      unfold EndsAt
      have h0 := getElem?_of_drop hseg2 0
      simp only [Nat.add_zero] at h0
      rw [h0, lastOf_eq]
      cases ds' with
      | nil => simp [dirToks]
      | cons d' ds'' =>
        simp only [dirToks, List.flatMap_cons, WDir.toks, List.cons_append, List.getElem?_cons_zero]
        simp only [dirsOKE, Bool.and_eq_true, bne_iff_ne, ne_eq] at hds
        exact ⟨hds.1.1.1.1.2, hnl⟩
    have hat1 : At ts (p + 1) (moveTo s (p + 1)) := at_moveTo hat _
    have hvl : (s.d.setCursor ((p + 1 : Nat) : Int)).val = d.name.text := at_val hat1 hname
    have hrb : (d.name.text == rbrace) = false := by simpa using hnrb
    have himp : (d.name.text == sImport) = false := by simpa using hnimp
    rw [show fuel + (d :: ds').length + 1 = (fuel + ds'.length + 1) + 1 by simp; omega]
    conv => lhs; unfold directives
    rw [next_some hat hname]
    simp only [Bool.not_true, Bool.false_eq_true, if_false, hvl, hrb, himp]
    have hdir := directive_rt cfg hf hv ts d (p + 1) (moveTo s (p + 1)) (fuel + ds'.length + 1 + 1) hat1 hname hrestseg hnr hrest hend (by omega)
    have hdir' : directive cfg (fuel + ds'.length + 1 + 1) { s with d := s.d.setCursor ((p + 1 : Nat) : Int) } = _ := hdir
    rw [hdir']
    simp only [Res.bind]
    have hat2 : At ts (p + 1 + d.rest.length)
        { moveTo (moveTo s (p + 1)) (p + 1 + d.rest.length) with
          btoks := d.rest.foldl (fun m t => addTok m d.name.text t) (addTok (moveTo s (p + 1)).btoks d.name.text d.name) } :=
      ⟨hat.1, rfl⟩
    have hseg2' : ts.drop (p + 1 + d.rest.length + 1) = dirToks ds' := by
      have e : p + 1 + d.rest.length + 1 = p + 1 + 1 + d.rest.length := by omega
      rw [e]; exact hseg2
    rw [ih (p + 1 + d.rest.length) _ fuel hat2 hseg2' hds hfuel]
    congr 1
    simp only [dirToks, List.flatMap_cons, WDir.toks, List.length_append, List.length_cons, foldDirs, List.foldl_cons]
    unfold moveTo Disp.setCursor
    simp only
    congr 2
    omega

/-- `addresses()` on the written keys of a brace-less block: every key recorded, stops on the first token of the next line -/
theorem addresses_rt_nl (cfg : Cfg) (hf : 0 < cfg.envFuel) (ts : List Token) (nx : Token)
    (post : List Token) (more : List Token) :
    ∀ (k : Token) (p : Nat) (s : PState) (fuel : Nat) (e : Bool), At ts p s →
      ts.drop p = (k :: more) ++ nx :: post → keysOK (k :: more) = true →
      (∀ kl, (k :: more).getLast? = some kl → tokNewLine kl nx = true) → (k :: more).length + 1 < fuel →
      addresses cfg fuel s e =
        .ok { moveTo s (p + (k :: more).length) with keys := s.keys ++ (k :: more).map keyOf } := by
  induction more with
  | nil =>
    intro k p s fuel e hat hseg hok hnl hfuel
    obtain ⟨j, rfl⟩ : ∃ j, fuel = j + 1 := ⟨fuel - 1, by omega⟩
    simp only [keysOK, Bool.and_eq_true, Bool.not_eq_true', bne_iff_ne, ne_eq] at hok
    obtain ⟨⟨⟨⟨hnr, hne⟩, hnlb⟩, hnimp⟩, hnc⟩ := hok
    have hk : ts[p]? = some k := by have := getElem?_of_drop hseg 0; simpa using this
    have ho : ts[p + 1]? = some nx := by have := getElem?_of_drop hseg 1; simpa using this
    have hlb : (k.text == lbrace) = false := by simpa using hnlb
    have himp : (k.text == sImport) = false := by simpa using hnimp
    have hat1 : At ts (p + 1) (moveTo s (p + 1)) := at_moveTo hat _
    unfold addresses
    rw [at_val hat hk, envR_noRef' cfg hf _ hnr]
    simp only [Res.bind, himp, Bool.false_and, Bool.false_eq_true, if_false, hlb, addKey_key _ _ _ hne, hnc]
    rw [next_some hat ho]
    simp only [Bool.not_true, Bool.and_false, Bool.false_eq_true, if_false, Bool.not_false, Bool.true_and]
    have hnl' : (s.d.setCursor ((p + 1 : Nat) : Int)).isNewLine = true :=
      (isNewLine_at hat1 hk ho).trans (hnl k rfl)
    simp only [hnl', if_true, List.length_cons, List.length_nil, List.map_cons, List.map_nil]
    rfl
  | cons k' more' ih =>
    intro k p s fuel e hat hseg hok hnl hfuel
    obtain ⟨j, rfl⟩ : ∃ j, fuel = j + 1 := ⟨fuel - 1, by omega⟩
    simp only [keysOK, Bool.and_eq_true, Bool.not_eq_true', bne_iff_ne, ne_eq, Bool.or_eq_true] at hok
    obtain ⟨⟨⟨⟨⟨hnr, hne⟩, hnlb⟩, hnimp⟩, hline⟩, hrest⟩ := hok
    have hk : ts[p]? = some k := by have := getElem?_of_drop hseg 0; simpa using this
    have hk' : ts[p + 1]? = some k' := by have := getElem?_of_drop hseg 1; simpa using this
    have hlb : (k.text == lbrace) = false := by simpa using hnlb
    have himp : (k.text == sImport) = false := by simpa using hnimp
    have hat1 : At ts (p + 1) { s with d := s.d.setCursor ((p + 1 : Nat) : Int), keys := s.keys ++ [keyOf k] } :=
      ⟨hat.1, rfl⟩
    have hseg' : ts.drop (p + 1) = (k' :: more') ++ nx :: post := by
      have := drop_drop' (a := [k]) (b := (k' :: more') ++ nx :: post) (by simpa using hseg)
      simpa using this
    have hnl1 : (s.d.setCursor ((p + 1 : Nat) : Int)).isNewLine = tokNewLine k k' :=
      isNewLine_at (at_moveTo hat _) hk hk'
    unfold addresses
    rw [at_val hat hk, envR_noRef' cfg hf _ hnr]
    simp only [Res.bind, himp, Bool.false_and, Bool.false_eq_true, if_false, hlb, addKey_key _ _ _ hne]
    rw [next_some hat hk']
    simp only [Bool.not_true, Bool.and_false, Bool.false_eq_true, if_false]
    have hcont : (!endsWithComma k && (s.d.setCursor ((p + 1 : Nat) : Int)).isNewLine) = false := by
      rw [hnl1]
      cases hline with
      | inl hc => simp [hc]
      | inr hs => simp [hs]
    simp only [hcont, Bool.false_eq_true, if_false]
    rw [ih k' (p + 1) _ j (endsWithComma k) hat1 hseg' hrest
      (fun kl hkl => hnl kl (by rw [List.getLast?_cons_cons]; exact hkl)) (by simp at hfuel ⊢; omega)]
    congr 1
    simp only [List.length_cons, List.map_cons, List.append_assoc, List.singleton_append]
    unfold moveTo Disp.setCursor
    simp only
    congr 2
    omega

/-- `Parse` over a configuration written as ONE brace-less block returns that block -/
theorem parseTokens_nb (cfg : Cfg) (hf : 0 < cfg.envFuel) (hv : cfg.valid = none) (fn : String) (b : WBlockE)
    (hok : blockEOK b = true) (fuel : Nat) (hfuel : 2 * b.toks.length + 4 ≤ fuel) :
    parseTokens cfg fuel fn b.toks = .ok [expectedE b] := by
  simp only [blockEOK, Bool.and_eq_true, Option.isNone_iff_eq_none] at hok
  obtain ⟨⟨⟨hk, hsn⟩, hfirst⟩, hdirs⟩ := hok
  obtain ⟨k, more, hkm⟩ := keysOK_ne hk
  cases hds : b.dirs with
  | nil => rw [hds] at hfirst; cases h : b.keys.getLast? <;> simp [h] at hfirst
  | cons d ds' =>
    obtain ⟨ts, hts⟩ : ∃ ts, ts = b.toks := ⟨_, rfl⟩
    rw [← hts] at hfuel ⊢
    have hnl : ∀ kl, (k :: more).getLast? = some kl → tokNewLine kl d.name = true := by
      intro kl hkl
      rw [hds, hkm, hkl] at hfirst
      exact hfirst
    have hdl := dirs_length_le b.dirs
    have hseg0 : ts.drop 0 = (k :: more) ++ d.name :: (d.rest ++ dirToks ds') := by
      rw [hts, WBlockE.toks, hkm, hds]; simp [dirToks, WDir.toks]
    have hlen0 : ts.length = b.keys.length + (dirToks b.dirs).length := by rw [hts, WBlockE.toks]; simp
    have hk0 : ts[0]? = some k := by have := getElem?_of_drop hseg0 0; simpa using this
    have hne0 : ts.isEmpty = false := by
      cases hh : ts with
      | nil => rw [hh] at hk0; simp at hk0
      | cons _ _ => rfl
    have hmk : b.keys.length = more.length + 1 := by rw [hkm]; rfl
    obtain ⟨f, rfl⟩ : ∃ f, fuel = f + 1 := ⟨fuel - 1, by omega⟩
    unfold parseTokens parseAll
    have hnx : (Disp.new fn ts).next = (true, (Disp.new fn ts).setCursor ((0 : Nat) : Int)) :=
      next_pred (s := { d := Disp.new fn ts }) rfl (by simp [Disp.new]) hk0
    simp only [hnx, Bool.not_true, Bool.false_eq_true, if_false]
    obtain ⟨s0, hs0⟩ : ∃ s0 : PState, s0 = { d := (Disp.new fn ts).setCursor ((0 : Nat) : Int), keys := [], btoks := [] } := ⟨_, rfl⟩
    rw [← hs0]
    have hat0 : At ts 0 s0 := by rw [hs0]; exact ⟨rfl, rfl⟩
    -- addresses
    obtain ⟨s1, hs1⟩ : ∃ s1 : PState, s1 = { moveTo s0 (0 + (k :: more).length) with keys := s0.keys ++ (k :: more).map keyOf } := ⟨_, rfl⟩
    have haddr : addresses cfg (f + 1) s0 false = .ok s1 := by
      rw [hs1]
      exact addresses_rt_nl cfg hf ts d.name _ more k 0 s0 (f + 1) false hat0 hseg0 (hkm ▸ hk) hnl
        (by simp only [List.length_cons]; omega)
    have hs1at : At ts b.keys.length s1 := by rw [hs1, hkm]; exact ⟨hat0.1, by simp [moveTo]⟩
    have hs1e : s1.eof = false := by rw [hs1, hs0]; rfl
    have hs1k : s1.keys = b.keys.map keyOf := by rw [hs1, hs0, hkm]; rfl
    have hs1b : s1.btoks = [] := by rw [hs1, hs0]; rfl
    clear hs1
    have hsegd : ts.drop b.keys.length = dirToks b.dirs := by
      have := drop_drop' hseg0
      rw [hkm, hds]; simpa [dirToks, WDir.toks] using this
    have hd0 : ts[b.keys.length]? = some d.name := by
      have := getElem?_of_drop hsegd 0
      rw [hds] at this; simpa [dirToks, WDir.toks] using this
    have hnlb : (d.name.text != lbrace) = true := by
      rw [hds] at hdirs
      simp only [dirsOKE, Bool.and_eq_true] at hdirs
      exact hdirs.1.1.1.1.2
    -- blockContents steps back and runs the directives to the end of the input
    obtain ⟨q, hq⟩ : ∃ q, b.keys.length = q + 1 := ⟨more.length, hmk⟩
    have hbat : At ts q (back s1) := by
      refine ⟨hs1at.1, ?_⟩
      simp only [back, setCursor_cursor, hs1at.2, hq]; omega
    have hdirsE := directives_eof cfg hf hv ts b.dirs q (back s1) (f - b.dirs.length) hbat (by rw [← hq]; exact hsegd) hdirs (by omega)
    rw [show f - b.dirs.length + b.dirs.length + 1 = f + 1 by omega] at hdirsE
    obtain ⟨S2, hS2⟩ : ∃ S2 : PState, S2 = { moveTo (back s1) (q + (dirToks b.dirs).length) with btoks := foldDirs (back s1).btoks b.dirs } := ⟨_, rfl⟩
    rw [← hS2] at hdirsE
    have hS2k : S2.keys = b.keys.map keyOf := by rw [hS2]; exact hs1k
    have hS2b : S2.btoks = foldDirs [] b.dirs := by rw [hS2]; show foldDirs s1.btoks b.dirs = _; rw [hs1b]
    have hS2n : S2.d.next = (false, S2.d) := by
      have hat2 : At ts (q + (dirToks b.dirs).length) S2 := by rw [hS2]; exact ⟨hs1at.1, rfl⟩
      exact next_none hat2 (List.getElem?_eq_none_iff.mpr (by omega))
    have hbegin : begin cfg (f + 1) s0 = .ok S2 := by
      unfold begin
      rw [hat0.1, hne0]
      simp only [Bool.false_eq_true, if_false, haddr, Res.bind, hs1e, hs1k, hsn]
      unfold blockContents
      rw [at_val hs1at hd0]
      simp only [hnlb, if_true, hdirsE, Res.bind, Bool.not_true, Bool.false_and, Bool.false_eq_true, if_false]
    rw [hbegin]
    simp only [Res.bind]
    have hkne : S2.keys.isEmpty = false := by rw [hS2k, hkm]; rfl
    simp only [hkne, Bool.false_eq_true, if_false, List.nil_append]
    obtain ⟨f', rfl⟩ : ∃ f', f = f' + 1 := ⟨f - 1, by omega⟩
    unfold parseAll
    simp only [hS2n, Bool.not_false, if_true, hS2k, hS2b]
    rfl

end Casket.ParserRT
