import Casket.Spec.Parser
/-
Helpers for the witness of finding F8 (a file that imports itself) and for the round-trip judge.
-/
namespace Casket.ParserCycle
open Casket.Lexer Casket.Dispenser Casket.Parser Casket.ParserSpec

def sImportF0 : Bytes := sImport ++ [0x20, 0x66, 0x30, 0x0A]      -- "import f0\n"
/-- a directory whose file `f0` imports itself -/
def selfFS : FS := ⟨[("f0", sImportF0)]⟩
def unfixed : Cfg := { fs := selfFS, cycleCheck := false, envFuel := 3 }

/-- the state the unrepaired parser keeps coming back to -/
def loopState : PState := { d := ⟨"Casketfile", [⟨"f0", 1, sImport⟩, ⟨"f0", 1, [0x66, 0x30]⟩], 0, 0⟩ }

theorem loopState_step : doImport unfixed loopState = .ok loopState := by decide

theorem addresses_loops (fuel : Nat) : addresses unfixed fuel loopState false = .timeout := by
  induction fuel with
  | zero => rfl
  | succ n ih =>
    have h1 : envR unfixed loopState.d.val = .ok sImport := by decide
    have h2 : (sImport == sImport && loopState.d.isNewLine) = true := by decide
    unfold addresses
    rw [h1]
    simp only [Res.bind, h2, if_true, loopState_step, ih]

theorem sameBlock_refl (a : ServerBlock) : sameBlock a a = true := by
  unfold sameBlock
  simp only [beq_self_eq_true, Bool.true_and, List.all_eq_true, List.any_eq_true, Bool.and_eq_true]
  intro p hp
  exact ⟨p, hp, by simp, by simp⟩

theorem sameBlocks_refl (l : List ServerBlock) : sameBlocks l l = true := by
  induction l with
  | nil => rfl
  | cons a as ih => simp [sameBlocks, sameBlock_refl, ih]


end Casket.ParserCycle
