import Casket.Spec.Hello
import Casket.Proofs.PeerBytes
/-
The model of `parseRawClientHello` (index arithmetic of the Go code) computes the reference
reading `HelloSpec.specRead` (field readers) for every byte string.
-/
namespace Casket.HelloSpec
open Casket.Fault Casket.Hello

theorem rdU16_cons (a b : UInt8) (r : Bytes) : rdU16 (a :: b :: r) = some (a.toNat * 256 + b.toNat, r) := rfl

theorem rdN_eq (n : Nat) (s : Bytes) :
    rdN n s = if s.length < n then none else some (s.take n, s.drop n) := rfl

/-- a vector with an odd number of bytes is not a vector of 16-bit values -/
theorem u16s_odd : ∀ (k : Nat) (s : Bytes), s.length = 2 * k + 1 → u16s s = none := by
  intro k
  induction k with
  | zero =>
    intro s h
    match s, h with
    | [_], _ => rfl
  | succ k ih =>
    intro s h
    match s, h with
    | a :: b :: r, h =>
      have : r.length = 2 * k + 1 := by simp at h; omega
      simp [u16s, ih r this]

/-- the curve loop of the Go code and the reference vector reader agree -/
theorem readCurves_u16s : ∀ (n : Nat) (d : Bytes), 2 * n ≤ d.length →
    ∃ l, readCurves d n = .ok l ∧ u16s (d.take (2 * n)) = some l := by
  intro n
  induction n with
  | zero => intro d _; exact ⟨[], rfl, by simp [u16s]⟩
  | succ n ih =>
    intro d h
    match d, h with
    | a :: b :: r, h =>
      obtain ⟨l, h1, h2⟩ := ih r (by simp at h; omega)
      refine ⟨(a.toNat * 256 + b.toNat) :: l, ?_, ?_⟩
      · simp [readCurves, be16, idx, sliceFrom, h1]
      · have : 2 * (n + 1) = (2 * n) + 1 + 1 := by omega
        rw [this, List.take_succ_cons, List.take_succ_cons]
        simp only [u16s, h2]

/-- the cipher loop (absolute offsets) and the reference vector reader agree -/
theorem readU16s_u16s (data : Bytes) : ∀ (n off : Nat), off + 2 * n ≤ data.length →
    ∃ l, readU16s data off n = .ok l ∧ u16s ((data.drop off).take (2 * n)) = some l := by
  intro n
  induction n with
  | zero => intro off _; exact ⟨[], rfl, by simp [u16s]⟩
  | succ n ih =>
    intro off h
    obtain ⟨l, h1, h2⟩ := ih (off + 2) (by omega)
    have hb : off + 1 < data.length := by omega
    have hd : data.drop off = data[off] :: data[off + 1] :: data.drop (off + 2) := by
      rw [List.drop_eq_getElem_cons (by omega : off < data.length),
          List.drop_eq_getElem_cons (by omega : off + 1 < data.length)]
    refine ⟨(data[off].toNat * 256 + data[off + 1].toNat) :: l, ?_, ?_⟩
    · simp [readU16s, be16_ok hb, h1]
    · have : 2 * (n + 1) = (2 * n) + 1 + 1 := by omega
      rw [this, hd, List.take_succ_cons, List.take_succ_cons]
      simp only [u16s, h2]

theorem rdU16_short (s : Bytes) (h : s.length < 2) : rdU16 s = none := by
  match s, h with
  | [], _ => rfl
  | [_], _ => rfl

theorem extBody_curves (length : Nat) (data : Bytes) (info : Info) (h : length ≤ data.length) :
    extBody 10 length data info =
      .ok (match rdExtBody 10 (data.take length) info with
           | some i => (i, true)
           | none => (info, false)) := by
  unfold extBody rdExtBody
  simp only [extensionSupportedCurves, if_true]
  by_cases h2 : length < 2
  · simp only [h2, if_true]
    rw [rdU16_short _ (by rw [List.length_take]; omega)]
  · simp only [h2, if_false]
    match data, h with
    | [], h => simp at h; omega
    | [_], h => simp at h; omega
    | a :: b :: r, h =>
      have hr : length - 2 ≤ r.length := by simp at h; omega
      have htake : (a :: b :: r).take length = a :: b :: r.take (length - 2) := by
        have hlen : length = (length - 2) + 1 + 1 := by omega
        rw [hlen, List.take_succ_cons, List.take_succ_cons]; simp
      have hbe : be16 (a :: b :: r) 0 = .ok (a.toNat * 256 + b.toNat) := by simp [be16, idx]
      have htl : (r.take (length - 2)).length = length - 2 := by rw [List.length_take]; omega
      rw [htake, rdU16_cons, hbe]
      simp only [htl]
      by_cases he : a.toNat * 256 + b.toNat = length - 2
      · have hne : ¬ (a.toNat * 256 + b.toNat ≠ length - 2) := by omega
        rw [if_neg hne]
        by_cases hodd : (length - 2) % 2 = 1
        · have hbad : (a.toNat * 256 + b.toNat) % 2 = 1 ∨ length ≠ a.toNat * 256 + b.toNat + 2 := by
            left; rw [he]; exact hodd
          obtain ⟨k, hk⟩ : ∃ k, length - 2 = 2 * k + 1 := ⟨(length - 2) / 2, by omega⟩
          rw [if_pos hbad, u16s_odd k (r.take (length - 2)) (by rw [htl]; exact hk)]
        · have hbad : ¬ ((a.toNat * 256 + b.toNat) % 2 = 1 ∨ length ≠ a.toNat * 256 + b.toNat + 2) := by
            omega
          obtain ⟨l, hl1, hl2⟩ := readCurves_u16s ((length - 2) / 2) r (by omega)
          have h2k : 2 * ((length - 2) / 2) = length - 2 := by omega
          rw [h2k] at hl2
          have hsl : sliceFrom (a :: b :: r) 2 = .ok r := by simp [sliceFrom]
          rw [if_neg hbad, hsl]
          simp only
          rw [he, hl1, hl2]
      · have hbad : (a.toNat * 256 + b.toNat) % 2 = 1 ∨ length ≠ a.toNat * 256 + b.toNat + 2 := by
          right; omega
        rw [if_pos hbad, if_pos he]

theorem extBody_points (length : Nat) (data : Bytes) (info : Info) (h : length ≤ data.length) :
    extBody 11 length data info =
      .ok (match rdExtBody 11 (data.take length) info with
           | some i => (i, true)
           | none => (info, false)) := by
  unfold extBody rdExtBody
  have e10 : ¬ ((11 : Nat) = extensionSupportedCurves) := by decide
  have e10' : ¬ ((11 : Nat) = 10) := by decide
  rw [if_neg e10, if_neg e10']
  simp only [extensionSupportedPoints, if_true]
  by_cases h1 : length < 1
  · rw [if_pos h1]
    have : data.take length = [] := by
      have : length = 0 := by omega
      rw [this]; rfl
    rw [this]; rfl
  · rw [if_neg h1]
    match data, h with
    | [], h => simp at h; omega
    | a :: r, h =>
      have hr : length - 1 ≤ r.length := by simp at h; omega
      have htake : (a :: r).take length = a :: r.take (length - 1) := by
        have hlen : length = (length - 1) + 1 := by omega
        rw [hlen, List.take_succ_cons]; simp
      have hidx : idx (a :: r) 0 = .ok a := by simp [idx]
      have htl : (r.take (length - 1)).length = length - 1 := by rw [List.length_take]; omega
      rw [htake, hidx]
      simp only [rdU8, htl]
      by_cases he : a.toNat = length - 1
      · have hbad : ¬ (length ≠ a.toNat + 1) := by omega
        have hne : ¬ (a.toNat ≠ length - 1) := by omega
        have hsl : sliceFrom (a :: r) 1 = .ok r := by simp [sliceFrom]
        rw [if_neg hbad, if_neg hne, hsl]
        simp only
        have hz : a.toNat - r.length = 0 := by omega
        rw [hz, he]
        simp
      · have hbad : length ≠ a.toNat + 1 := by omega
        rw [if_pos hbad, if_pos he]

/-- the `switch extension` body of the Go code on the remaining bytes `data` and the reference
reader on exactly the announced body `data.take length` decide and record the same -/
theorem extBody_spec (ext length : Nat) (data : Bytes) (info : Info) (h : length ≤ data.length) :
    extBody ext length data info =
      .ok (match rdExtBody ext (data.take length) info with
           | some i => (i, true)
           | none => (info, false)) := by
  by_cases h10 : ext = 10
  · subst h10; exact extBody_curves length data info h
  · by_cases h11 : ext = 11
    · subst h11; exact extBody_points length data info h
    · unfold extBody rdExtBody
      have a1 : ¬ (ext = extensionSupportedCurves) := h10
      have a2 : ¬ (ext = extensionSupportedPoints) := h11
      rw [if_neg a1, if_neg a2, if_neg h10, if_neg h11]

/-- the extension loop -/
theorem parseExts_spec : ∀ (f : Nat) (data : Bytes) (info : Info), data.length < f →
    parseExts f data info = .ok (rdExts f data info) := by
  intro f
  induction f with
  | zero => intro data info h; omega
  | succ f ih =>
    intro data info hf
    match data, hf with
    | [], _ => simp [parseExts, rdExts]
    | [_], _ => simp [parseExts, rdExts, rdU16]
    | [_, _], _ => simp [parseExts, rdExts, rdU16]
    | [_, _, _], _ => simp [parseExts, rdExts, rdU16]
    | a :: b :: c :: d :: rest, hf =>
      unfold parseExts rdExts
      have h0 : ¬ ((a :: b :: c :: d :: rest).length = 0) := by simp
      have h4 : ¬ ((a :: b :: c :: d :: rest).length < 4) := by simp
      have hb0 : be16 (a :: b :: c :: d :: rest) 0 = .ok (a.toNat * 256 + b.toNat) := by simp [be16, idx]
      have hb2 : be16 (a :: b :: c :: d :: rest) 2 = .ok (c.toNat * 256 + d.toNat) := by simp [be16, idx]
      have hsl : sliceFrom (a :: b :: c :: d :: rest) 4 = .ok rest := by simp [sliceFrom]
      have hemp : (a :: b :: c :: d :: rest).isEmpty = false := rfl
      rw [if_neg h0, if_neg h4, hb0, hb2, hsl, hemp]
      simp only [Bool.false_eq_true, if_false, rdU16_cons, rdN_eq]
      by_cases hshort : rest.length < c.toNat * 256 + d.toNat
      · rw [if_pos hshort, if_pos hshort]
      · rw [if_neg hshort, if_neg hshort]
        simp only
        rw [extBody_spec _ _ rest _ (by omega)]
        cases hb : rdExtBody (a.toNat * 256 + b.toNat) (rest.take (c.toNat * 256 + d.toNat))
            { info with extensions := info.extensions ++ [a.toNat * 256 + b.toNat] } with
        | none => rfl
        | some i'' =>
          simp only
          have hsl2 : sliceFrom rest (c.toNat * 256 + d.toNat) = .ok (rest.drop (c.toNat * 256 + d.toNat)) := by
            simp [sliceFrom]; omega
          rw [hsl2]
          exact ih _ _ (by simp at hf; rw [List.length_drop]; omega)

theorem parseTail_spec (data : Bytes) (info : Info) : parseTail data info = .ok (rdTail data info) := by
  match data with
  | [] => simp [parseTail, rdTail, rdU16]
  | [_] => simp [parseTail, rdTail, rdU16]
  | a :: b :: r =>
    unfold parseTail rdTail
    have h2 : ¬ ((a :: b :: r).length < 2) := by simp
    have hb0 : be16 (a :: b :: r) 0 = .ok (a.toNat * 256 + b.toNat) := by simp [be16, idx]
    have hsl : sliceFrom (a :: b :: r) 2 = .ok r := by simp [sliceFrom]
    rw [if_neg h2, hb0, hsl, rdU16_cons]
    simp only
    by_cases hne : a.toNat * 256 + b.toNat ≠ r.length
    · rw [if_pos hne, if_pos hne]
    · rw [if_neg hne, if_neg hne]
      exact parseExts_spec _ _ _ (Nat.lt_succ_self _)

theorem parseCompression_spec (data : Bytes) (info : Info) :
    parseCompression data info = .ok (rdCompression data info) := by
  match data with
  | [] => simp [parseCompression, rdCompression, rdU8]
  | a :: r =>
    unfold parseCompression rdCompression
    have h1 : ¬ ((a :: r).length < 1) := by simp
    have hidx : idx (a :: r) 0 = .ok a := by simp [idx]
    rw [if_neg h1, hidx]
    simp only [rdU8, rdN_eq]
    by_cases hs : r.length < a.toNat
    · have hs' : (a :: r).length < 1 + a.toNat := by simp; omega
      rw [if_pos hs', if_pos hs]
    · have hs' : ¬ ((a :: r).length < 1 + a.toNat) := by simp; omega
      rw [if_neg hs', if_neg hs]
      have hsl : slice (a :: r) 1 (1 + a.toNat) = .ok (r.take a.toNat) := by
        have e : 1 ≤ 1 + a.toNat ∧ 1 + a.toNat ≤ (a :: r).length := by simp; omega
        simp only [slice, e, and_self, if_true]
        rw [Nat.add_comm, List.take_succ_cons]; simp
      have hsf : sliceFrom (a :: r) (1 + a.toNat) = .ok (r.drop a.toNat) := by
        have e : 1 + a.toNat ≤ (a :: r).length := by simp; omega
        simp only [sliceFrom, e, if_true]
        rw [Nat.add_comm, List.drop_succ_cons]
      rw [hsl, hsf]
      exact parseTail_spec _ _

theorem parseCiphers_spec (data : Bytes) (info : Info) :
    parseCiphers data info = .ok (rdCiphers data info) := by
  match data with
  | [] => simp [parseCiphers, rdCiphers, rdU16]
  | [_] => simp [parseCiphers, rdCiphers, rdU16]
  | a :: b :: r =>
    unfold parseCiphers rdCiphers
    have h2 : ¬ ((a :: b :: r).length < 2) := by simp
    have hb0 : be16 (a :: b :: r) 0 = .ok (a.toNat * 256 + b.toNat) := by simp [be16, idx]
    rw [if_neg h2, hb0, rdU16_cons]
    simp only [rdN_eq]
    by_cases hshort : r.length < a.toNat * 256 + b.toNat
    · have hbad : (a.toNat * 256 + b.toNat) % 2 = 1 ∨ (a :: b :: r).length < 2 + (a.toNat * 256 + b.toNat) := by
        right; simp; omega
      rw [if_pos hbad, if_pos hshort]
    · rw [if_neg hshort]
      simp only
      have htl : (r.take (a.toNat * 256 + b.toNat)).length = a.toNat * 256 + b.toNat := by
        rw [List.length_take]; omega
      by_cases hodd : (a.toNat * 256 + b.toNat) % 2 = 1
      · have hbad : (a.toNat * 256 + b.toNat) % 2 = 1 ∨ (a :: b :: r).length < 2 + (a.toNat * 256 + b.toNat) := Or.inl hodd
        obtain ⟨k, hk⟩ : ∃ k, a.toNat * 256 + b.toNat = 2 * k + 1 := ⟨(a.toNat * 256 + b.toNat) / 2, by omega⟩
        rw [if_pos hbad, u16s_odd k _ (by rw [htl]; exact hk)]
      · have hbad : ¬ ((a.toNat * 256 + b.toNat) % 2 = 1 ∨ (a :: b :: r).length < 2 + (a.toNat * 256 + b.toNat)) := by
          simp; omega
        obtain ⟨l, hl1, hl2⟩ := readU16s_u16s (a :: b :: r) ((a.toNat * 256 + b.toNat) / 2) 2
          (by simp only [List.length_cons]; omega)
        have h2k : 2 * ((a.toNat * 256 + b.toNat) / 2) = a.toNat * 256 + b.toNat := by omega
        rw [h2k] at hl2
        simp only [List.drop_succ_cons, List.drop_zero] at hl2
        have hsf : sliceFrom (a :: b :: r) (2 + (a.toNat * 256 + b.toNat)) = .ok (r.drop (a.toNat * 256 + b.toNat)) := by
          have e : 2 + (a.toNat * 256 + b.toNat) ≤ (a :: b :: r).length := by simp; omega
          simp only [sliceFrom, e, if_true]
          have : 2 + (a.toNat * 256 + b.toNat) = (a.toNat * 256 + b.toNat) + 1 + 1 := by omega
          rw [this, List.drop_succ_cons, List.drop_succ_cons]
        rw [if_neg hbad, hl1, hl2, hsf]
        exact parseCompression_spec _ _

theorem drop_cons2 (d : Bytes) (k : Nat) (h : k + 1 < d.length) :
    d.drop k = d[k] :: d[k + 1] :: d.drop (k + 2) := by
  rw [List.drop_eq_getElem_cons (by omega : k < d.length),
      List.drop_eq_getElem_cons (by omega : k + 1 < d.length)]

/-- THE link: for every byte string the model of the Go parser computes the reference reading -/
theorem parse_eq_spec (d : Bytes) : parseRawClientHello d = .ok (specRead d) := by
  unfold parseRawClientHello specRead
  by_cases h42 : d.length < 42
  · rw [if_pos h42, if_pos h42]
  · rw [if_neg h42, if_neg h42]
    have hb : be16 d 4 = .ok (d[4].toNat * 256 + d[5].toNat) := be16_ok (by omega)
    have hi : idx d 38 = .ok d[38] := idx_ok (by omega)
    rw [hb, hi]
    simp only
    unfold rdBody
    have hd4 : d.drop 4 = d[4] :: d[5] :: d.drop 6 := drop_cons2 d 4 (by omega)
    rw [hd4, rdU16_cons]
    simp only [rdN_eq]
    have hl6 : ¬ ((d.drop 6).length < 32) := by rw [List.length_drop]; omega
    rw [if_neg hl6]
    simp only [List.drop_drop]
    have hd38 : d.drop (6 + 32) = d[38] :: d.drop 39 := by
      rw [List.drop_eq_getElem_cons (by omega : 6 + 32 < d.length)]
    rw [hd38]
    simp only [rdU8]
    by_cases hsid : d[38].toNat > 32
    · have hbad : d[38].toNat > 32 ∨ d.length < 39 + d[38].toNat := Or.inl hsid
      rw [if_pos hbad, if_pos hsid]
    · rw [if_neg hsid]
      by_cases hshort : d.length < 39 + d[38].toNat
      · have hbad : d[38].toNat > 32 ∨ d.length < 39 + d[38].toNat := Or.inr hshort
        have hs' : (d.drop 39).length < d[38].toNat := by rw [List.length_drop]; omega
        rw [if_pos hbad, if_pos hs']
      · have hbad : ¬ (d[38].toNat > 32 ∨ d.length < 39 + d[38].toNat) := by omega
        have hs' : ¬ ((d.drop 39).length < d[38].toNat) := by rw [List.length_drop]; omega
        rw [if_neg hbad, if_neg hs', sliceFrom_ok (by omega)]
        simp only [List.drop_drop]
        have : 39 + d[38].toNat = d[38].toNat + 39 := by omega
        rw [this]
        exact parseCiphers_spec _ _

/-! ### the reference reading of the RFC encoding -/

theorem b8_toNat (n : Nat) : (b8 n).toNat = n % 256 := by simp [b8]

theorem rdU16_u16b (n : Nat) (r : Bytes) (h : n < 65536) : rdU16 (u16b n ++ r) = some (n, r) := by
  simp only [u16b, List.cons_append, List.nil_append, rdU16_cons, b8_toNat]
  congr 2
  omega

theorem rdU8_b8 (n : Nat) (r : Bytes) (h : n < 256) : rdU8 (b8 n :: r) = some (n, r) := by
  simp only [rdU8, b8_toNat]
  congr 2
  omega

theorem rdN_append (a r : Bytes) : rdN a.length (a ++ r) = some (a, r) := by
  simp [rdN_eq]

theorem u16s_flatMap : ∀ cs : List Nat, (∀ c ∈ cs, c < 65536) → u16s (cs.flatMap u16b) = some cs := by
  intro cs
  induction cs with
  | nil => intro _; rfl
  | cons c cs ih =>
    intro h
    have hc := h c (List.mem_cons_self ..)
    simp only [List.flatMap_cons, u16b, List.cons_append, List.nil_append, u16s, b8_toNat,
      ih (fun x hx => h x (List.mem_cons_of_mem _ hx))]
    congr 2
    omega

theorem flatMap_u16b_length (cs : List Nat) : (cs.flatMap u16b).length = 2 * cs.length := by
  induction cs with
  | nil => rfl
  | cons c cs ih => simp [List.flatMap_cons, u16b, ih]; omega

theorem rdExtBody_enc (e : Ext) (i : Info) (h : ExtWF e) :
    ∃ body, encExt e = u16b (extType e) ++ (u16b body.length ++ body) ∧ body.length < 65536 ∧ extType e < 65536 ∧
      rdExtBody (extType e) body { i with extensions := i.extensions ++ [extType e] } = some (applyExt i e) := by
  cases e with
  | curves cs =>
    obtain ⟨hcs, hn⟩ := h
    have hlen : (u16b (2 * cs.length) ++ cs.flatMap u16b).length = 2 * cs.length + 2 := by
      rw [List.length_append, flatMap_u16b_length]; simp [u16b]; omega
    refine ⟨u16b (2 * cs.length) ++ cs.flatMap u16b, ?_, ?_, ?_, ?_⟩
    · rw [hlen]; rfl
    · rw [hlen]; exact hn
    · show (10 : Nat) < 65536; decide
    · simp only [extType, rdExtBody, if_true]
      rw [rdU16_u16b _ _ (by omega)]
      simp only [flatMap_u16b_length, ne_eq, not_true_eq_false, if_false, u16s_flatMap cs hcs, applyExt]
  | points ps =>
    have hp : ps.length < 256 := h
    refine ⟨b8 ps.length :: ps, ?_, ?_, ?_, ?_⟩
    · simp [encExt, extType]
    · simp; omega
    · show (11 : Nat) < 65536; decide
    · have e1 : ¬ ((11 : Nat) = 10) := by decide
      simp only [extType, rdExtBody, e1, if_false, if_true]
      rw [rdU8_b8 _ _ hp]
      simp [applyExt]
  | other t body =>
    obtain ⟨ht, h10, h11, hb⟩ := h
    refine ⟨body, rfl, hb, ht, ?_⟩
    simp [extType, rdExtBody, h10, h11, applyExt]

theorem rdExts_enc : ∀ (es : List Ext) (f : Nat) (i : Info), (∀ e ∈ es, ExtWF e) → es.length < f →
    rdExts f (encExts es) i = es.foldl applyExt i := by
  intro es
  induction es with
  | nil =>
    intro f i _ hf
    cases f with
    | zero => omega
    | succ f => simp [encExts, rdExts]
  | cons e es ih =>
    intro f i hwf hf
    cases f with
    | zero => omega
    | succ f =>
      obtain ⟨body, henc, hbl, htl, hbody⟩ := rdExtBody_enc e i (hwf e (List.mem_cons_self ..))
      have hne : (encExts (e :: es)).isEmpty = false := by
        simp only [encExts, List.flatMap_cons, henc, u16b, List.cons_append]; rfl
      unfold rdExts
      rw [hne]
      simp only [Bool.false_eq_true, if_false]
      have hshape : encExts (e :: es) = u16b (extType e) ++ (u16b body.length ++ (body ++ encExts es)) := by
        simp only [encExts, List.flatMap_cons, henc, List.append_assoc]
      rw [hshape, rdU16_u16b _ _ htl]
      simp only
      rw [rdU16_u16b _ _ hbl]
      simp only
      rw [rdN_append]
      simp only
      rw [hbody]
      simp only [List.foldl_cons]
      exact ih f _ (fun x hx => hwf x (List.mem_cons_of_mem _ hx)) (by simp at hf; omega)

theorem encExts_length (es : List Ext) (h : ∀ e ∈ es, ExtWF e) : es.length ≤ (encExts es).length := by
  induction es with
  | nil => simp [encExts]
  | cons e es ih =>
    have : 1 ≤ (encExt e).length := by cases e <;> simp [encExt, u16b]
    have := ih (fun x hx => h x (List.mem_cons_of_mem _ hx))
    simp only [encExts, List.flatMap_cons, List.length_append, List.length_cons] at *
    omega

theorem rdN_len (n : Nat) (a r : Bytes) (h : a.length = n) : rdN n (a ++ r) = some (a, r) := by
  rw [← h]; exact rdN_append a r

theorem rdTail_enc (m : HelloMsg) (h : WF m) (i : Info) :
    rdTail (encTail m.exts) i = (m.exts.getD []).foldl applyExt i := by
  cases he : m.exts with
  | none => simp [encTail, rdTail, rdU16]
  | some es =>
    obtain ⟨hwf, hlen⟩ := h.exts es he
    simp only [encTail, rdTail, Option.getD_some]
    rw [rdU16_u16b _ _ hlen]
    simp only [ne_eq, not_true_eq_false, if_false]
    exact rdExts_enc es _ i hwf (by have := encExts_length es hwf; omega)

/-- the reference reading of the RFC encoding of a well-formed message is what the message says -/
theorem specRead_encode (m : HelloMsg) (h : WF m) : specRead (encode m) = infoOf m := by
  have hbody : 38 ≤ (encBody m).length := by
    simp only [encBody, u16b, List.length_append, List.length_cons, List.length_nil, h.random]
    omega
  unfold specRead encode
  have h42 : ¬ ((1 :: b8 ((encBody m).length / 65536) :: b8 ((encBody m).length / 256) ::
      b8 (encBody m).length :: encBody m).length < 42) := by
    simp only [List.length_cons]; omega
  rw [if_neg h42]
  simp only [List.drop_succ_cons, List.drop_zero]
  unfold rdBody encBody
  rw [rdU16_u16b _ _ h.version]
  simp only
  rw [rdN_len 32 m.random _ h.random]
  simp only
  rw [rdU8_b8 _ _ (by have := h.sid; omega)]
  simp only
  have hs : ¬ (m.sid.length > 32) := by have := h.sid; omega
  rw [if_neg hs, rdN_append]
  simp only
  unfold rdCiphers
  rw [rdU16_u16b _ _ h.nciphers]
  simp only
  rw [rdN_len _ _ _ (flatMap_u16b_length m.ciphers)]
  simp only
  rw [u16s_flatMap _ h.ciphers]
  simp only
  unfold rdCompression
  rw [rdU8_b8 _ _ h.compression]
  simp only
  rw [rdN_append]
  simp only
  rw [rdTail_enc m h]
  rfl

end Casket.HelloSpec
