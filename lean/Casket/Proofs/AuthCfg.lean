import Casket.Model.AuthCfg
/- helper lemmas for the C19 theorems about basicauth rules installed through the setup -/
namespace Casket.AuthCfg

theorem finish_some {m : Option Nat} {r : Option Nat} (h : finish m = some r) : r.isSome = true := by
  unfold finish at h
  split at h
  · cases h
  · cases h; cases m <;> simp_all

theorem getMatcher_some (d : Option Disk) (u : Nat) (c : Cache) {m : Option Nat} {c1 : Cache}
    (h : getMatcher d u c = (some m, c1)) : m.isSome = true := by
  unfold getMatcher at h
  split at h
  · exact finish_some (Prod.mk.inj h).1
  · split at h
    · exact absurd (Prod.mk.inj h).1 (by simp)
    · exact finish_some (Prod.mk.inj h).1

theorem setup_matchers_some (d : Option Disk) (us : List Nat) (c : Cache) {rs : List Rule} {c1 : Cache}
    (h : setup d us c = (some rs, c1)) : ∀ r ∈ rs, r.2.isSome = true := by
  induction us generalizing c rs c1 with
  | nil => simp [setup] at h; obtain ⟨rfl, _⟩ := h; simp
  | cons u us ih =>
    unfold setup at h
    split at h
    · cases h
    · rename_i m c' hg
      split at h
      · cases h
      · rename_i rs' c2 hs
        cases h
        intro r hr
        rcases List.mem_cons.mp hr with rfl | hr
        · exact getMatcher_some d u c hg
        · exact ih c' hs r hr

theorem serveGo_total (rs : List Rule) (auth : Option (Nat × Nat)) (ok : Bool)
    (h : ∀ r ∈ rs, r.2.isSome = true) : serveGo rs auth ok ≠ .panic := by
  induction rs generalizing ok with
  | nil => simp [serveGo]
  | cons r rs ih =>
    obtain ⟨u, m⟩ := r
    have hm : m.isSome = true := h (u, m) (by simp)
    have ht : ∀ r ∈ rs, r.2.isSome = true := fun r hr => h r (List.mem_cons_of_mem _ hr)
    unfold serveGo
    split
    · exact ih _ ht
    · split
      · exact ih _ ht
      · cases m with
        | none => simp at hm
        | some p => exact ih _ ht

theorem serve_total (rs : List Rule) (auth : Option (Nat × Nat))
    (h : ∀ r ∈ rs, r.2.isSome = true) : serve rs auth ≠ .panic := by
  unfold serve
  split
  · simp
  · exact serveGo_total _ auth false h

theorem run_never_panics (auth : Option (Nat × Nat)) (ls : List Load) (c : Cache) :
    some Outcome.panic ∉ run auth ls c := by
  induction ls generalizing c with
  | nil => simp [run]
  | cons l ls ih =>
    obtain ⟨d, us⟩ := l
    unfold run
    split
    · simp; exact ih _
    · rename_i rs c1 hs
      simp only [List.mem_cons, not_or]
      refine ⟨?_, ih _⟩
      intro hp
      exact serve_total rs auth (setup_matchers_some d us c hs) (Option.some.inj hp).symm

end Casket.AuthCfg
