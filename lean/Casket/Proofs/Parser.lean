import Casket.Proofs.Dispenser
import Casket.Spec.Parser
/-
Lemmas about the parser model (C10): the checked slice/index operations of `parse.go` never fail
(`Safe`), because the cursor stays inside [-1, len] and is non-negative wherever the code steps back.
-/
namespace Casket.Parser
open Casket.Lexer Casket.Dispenser Casket.Dispenser.Disp Casket.DispenserSpec

/-- a step answered without panicking, and an `ok` state satisfies `P` -/
def Safe {α : Type} (P : α → Prop) : Res α → Prop
  | .ok a => P a
  | .panic _ => False
  | _ => True

theorem Safe.bind {α β : Type} {P : α → Prop} {Q : β → Prop} {r : Res α} {f : α → Res β}
    (hr : Safe P r) (hf : ∀ a, P a → Safe Q (f a)) : Safe Q (r.bind f) := by
  cases r with
  | ok a => exact hf a hr
  | err c fl l => exact trivial
  | panic m => exact hr.elim
  | timeout => exact trivial

theorem Safe.mono {α : Type} {P Q : α → Prop} {r : Res α} (hr : Safe P r) (h : ∀ a, P a → Q a) : Safe Q r := by
  cases r with
  | ok a => exact h a hr
  | err c fl l => exact trivial
  | panic m => exact hr.elim
  | timeout => exact trivial

theorem safe_errAt {α : Type} (P : α → Prop) (c : String) (d : Disp) : Safe P (errAt c d : Res α) := trivial

theorem safe_envR (cfg : Cfg) (b : Bytes) : Safe (fun _ => True) (envR cfg b) := by
  unfold envR; split <;> trivial

/-- cursor legal -/
def Ok (s : PState) : Prop := cursorOk s.d
/-- cursor legal and on or after the first token -/
def Ok0 (s : PState) : Prop := cursorOk s.d ∧ 0 ≤ s.d.cursor

theorem ok_back {s : PState} (h : Ok0 s) : Ok (back s) := by
  obtain ⟨⟨h1, h2⟩, h0⟩ := h
  unfold Ok back cursorOk
  simp only [setCursor_cursor, setCursor_len]
  omega

theorem resolveImport_safe (cfg : Cfg) (s : PState) (d1 : Disp) (pat : Bytes) (n : Nat) :
    Safe (fun _ => True) (resolveImport cfg s d1 pat n) := by
  unfold resolveImport
  simp only
  repeat' (first | exact trivial | split)

/-- `doImport` neither panics nor moves the cursor: afterwards it is where the `import` token was -/
theorem doImport_safe (cfg : Cfg) (s : PState) (h : Ok0 s) :
    Safe (fun s' => Ok0 s' ∧ s'.d.cursor = s.d.cursor) (doImport cfg s) := by
  obtain ⟨hok, h0⟩ := h
  have hs := nextArg_spec s.d hok
  unfold doImport
  simp only
  cases hr1 : s.d.nextArg.1 with
  | false => simp only [Bool.not_false, if_true]; exact trivial
  | true =>
    simp only [Bool.not_true, Bool.false_eq_true, if_false]
    obtain ⟨hc, hb⟩ := hs.2.2.1 hr1
    have hl : s.d.nextArg.2.len = s.d.len := hs.mono.len
    refine Safe.bind (safe_envR cfg _) fun pat _ => ?_
    split
    · exact trivial
    · split
      · exact trivial
      · have hlen := len_nonneg s.d
        have hnp : ¬ (s.d.nextArg.2.cursor - 1 < 0 ∨ s.d.nextArg.2.cursor + 1 > s.d.nextArg.2.len) := by
          rw [hl, hc]; omega
        rw [if_neg hnp]
        refine Safe.bind (resolveImport_safe cfg s _ pat _) fun imp _ => ?_
        show Ok0 _ ∧ _
        refine ⟨⟨⟨?_, ?_⟩, ?_⟩, ?_⟩
        · simp only; omega
        · simp only [Disp.len, List.length_append, List.length_take, List.length_drop]
          have : s.d.nextArg.2.tokens.length = s.d.tokens.length := by rw [hs.1.tokens]
          simp only [Disp.len] at hb hlen
          omega
        · simp only; omega
        · simp only; omega

end Casket.Parser
