import Casket.Proofs.Dispenser
import Casket.Spec.Parser
/-
Lemmas about the parser model (C10): the checked slice/index operations of `parse.go` never fail
(`Safe`), because the cursor stays inside [-1, len] and is non-negative wherever the code steps back.
-/
namespace Casket.Parser
open Casket.Lexer Casket.Dispenser Casket.Dispenser.Disp Casket.DispenserSpec

/-- a step answered without panicking, and an `ok` state satisfies `P` -/
def Safe {α : Type} (P : α → Prop) : Res α → Prop
  | .ok a => P a
  | .panic _ => False
  | _ => True

theorem Safe.bind {α β : Type} {P : α → Prop} {Q : β → Prop} {r : Res α} {f : α → Res β}
    (hr : Safe P r) (hf : ∀ a, P a → Safe Q (f a)) : Safe Q (r.bind f) := by
  cases r with
  | ok a => exact hf a hr
  | err c fl l => exact trivial
  | panic m => exact hr.elim
  | timeout => exact trivial

theorem Safe.mono {α : Type} {P Q : α → Prop} {r : Res α} (hr : Safe P r) (h : ∀ a, P a → Q a) : Safe Q r := by
  cases r with
  | ok a => exact h a hr
  | err c fl l => exact trivial
  | panic m => exact hr.elim
  | timeout => exact trivial

theorem safe_errAt {α : Type} (P : α → Prop) (c : String) (d : Disp) : Safe P (errAt c d : Res α) := trivial

theorem safe_envR (cfg : Cfg) (b : Bytes) : Safe (fun _ => True) (envR cfg b) := by
  unfold envR; split <;> trivial

/-- cursor legal -/
def Ok (s : PState) : Prop := cursorOk s.d
/-- cursor legal and on or after the first token -/
def Ok0 (s : PState) : Prop := cursorOk s.d ∧ 0 ≤ s.d.cursor

theorem ok_back {s : PState} (h : Ok0 s) : Ok (back s) := by
  obtain ⟨⟨h1, h2⟩, h0⟩ := h
  unfold Ok back cursorOk
  simp only [setCursor_cursor, setCursor_len]
  omega

theorem resolveImport_safe (cfg : Cfg) (s : PState) (d1 : Disp) (pat : Bytes) (n : Nat) :
    Safe (fun _ => True) (resolveImport cfg s d1 pat n) := by
  unfold resolveImport
  simp only
  repeat' (first | exact trivial | split)

/-- `doImport` neither panics nor moves the cursor: afterwards it is where the `import` token was -/
theorem doImport_safe (cfg : Cfg) (s : PState) (h : Ok0 s) :
    Safe (fun s' => Ok0 s' ∧ s'.d.cursor = s.d.cursor) (doImport cfg s) := by
  obtain ⟨hok, h0⟩ := h
  have hs := nextArg_spec s.d hok
  unfold doImport
  simp only
  cases hr1 : s.d.nextArg.1 with
  | false => simp only [Bool.not_false, if_true]; exact trivial
  | true =>
    simp only [Bool.not_true, Bool.false_eq_true, if_false]
    obtain ⟨hc, hb⟩ := hs.2.2.1 hr1
    have hl : s.d.nextArg.2.len = s.d.len := hs.mono.len
    refine Safe.bind (safe_envR cfg _) fun pat _ => ?_
    split
    · exact trivial
    · split
      · exact trivial
      · have hlen := len_nonneg s.d
        have hnp : ¬ (s.d.nextArg.2.cursor - 1 < 0 ∨ s.d.nextArg.2.cursor + 1 > s.d.nextArg.2.len) := by
          rw [hl, hc]; omega
        rw [if_neg hnp]
        refine Safe.bind (resolveImport_safe cfg s _ pat _) fun imp _ => ?_
        show Ok0 _ ∧ _
        refine ⟨⟨⟨?_, ?_⟩, ?_⟩, ?_⟩
        · simp only; omega
        · simp only [Disp.len, List.length_append, List.length_take, List.length_drop]
          have : s.d.nextArg.2.tokens.length = s.d.tokens.length := by rw [hs.1.tokens]
          simp only [Disp.len] at hb hlen
          omega
        · simp only; omega
        · simp only; omega


theorem ok_of_ok0 {s : PState} (h : Ok0 s) : Ok s := h.1

/-- after a successful `Next` the cursor is on a token -/
theorem next_true_tok {d : Disp} (h : cursorOk d) (ht : d.next.1 = true) :
    cursorOk d.next.2 ∧ 0 ≤ d.next.2.cursor ∧ ∃ t, d.next.2.tok? d.next.2.cursor = some t := by
  obtain ⟨hs, hlt⟩ := next_spec d h
  obtain ⟨hc, _⟩ := hs.2.2.1 ht
  have hb := hlt ht
  have h0 : 0 ≤ d.next.2.cursor := by unfold cursorOk at h; omega
  refine ⟨hs.1.ok, h0, ?_⟩
  unfold Disp.tok?
  apply tokAt_isSome h0
  have : d.next.2.tokens.length = d.tokens.length := by rw [hs.1.tokens]
  simp only [Disp.len] at hb
  omega

theorem next_false_eq {d : Disp} (h : cursorOk d) (hf : d.next.1 = false) : d.next.2 = d :=
  (next_spec d h).1.2.2.2 hf

theorem appendCur_safe (cfg : Cfg) (dir : Bytes) (s : PState) (h : Ok0 s) (ht : ∃ t, s.d.tok? s.d.cursor = some t) :
    Safe Ok0 (appendCur cfg dir s) := by
  obtain ⟨t, ht⟩ := ht
  unfold appendCur
  rw [ht]
  refine Safe.bind (safe_envR cfg _) fun txt _ => ?_
  show Ok0 _
  obtain ⟨⟨h1, h2⟩, h0⟩ := h
  refine ⟨⟨?_, ?_⟩, ?_⟩
  · simp only; exact h1
  · simp only [Disp.len, List.length_set]; exact h2
  · simp only; exact h0

theorem directiveLoop_safe (cfg : Cfg) (dir : Bytes) (fuel : Nat) (s : PState) (n : Nat) (h : Ok s) :
    Safe Ok (directiveLoop cfg dir fuel s n) := by
  induction fuel generalizing s n with
  | zero => exact trivial
  | succ k ih =>
    unfold directiveLoop
    simp only
    cases hn : s.d.next.1 with
    | false =>
      simp only [Bool.not_false, if_true]
      split
      · exact trivial
      · exact h
    | true =>
      simp only [Bool.not_true, Bool.false_eq_true, if_false]
      obtain ⟨hok1, h01, htok⟩ := next_true_tok h hn
      have hs1 : Ok0 { s with d := s.d.next.2 } := ⟨hok1, h01⟩
      have happ : ∀ m, Safe Ok ((appendCur cfg dir { s with d := s.d.next.2 }).bind fun s2 => directiveLoop cfg dir k s2 m) :=
        fun m => Safe.bind (appendCur_safe cfg dir _ hs1 htok) fun s2 h2 => ih s2 m h2.1
      split
      · exact happ _
      · split
        · exact ok_back hs1
        · split
          · exact happ _
          · split
            · exact trivial
            · split
              · exact Safe.bind (doImport_safe cfg _ hs1) fun s2 h2 => ih _ _ (ok_back h2.1)
              · exact happ _

theorem directive_safe (cfg : Cfg) (fuel : Nat) (s : PState) (h : Ok s) (ht : ∃ t, s.d.tok? s.d.cursor = some t) :
    Safe Ok (directive cfg fuel s) := by
  obtain ⟨t, ht⟩ := ht
  unfold directive
  refine Safe.bind (safe_envR cfg _) fun dir _ => ?_
  split
  · exact trivial
  · rw [ht]
    exact directiveLoop_safe cfg dir fuel _ 0 h

theorem directives_safe (cfg : Cfg) (fuel : Nat) (s : PState) (h : Ok s) : Safe Ok (directives cfg fuel s) := by
  induction fuel generalizing s with
  | zero => exact trivial
  | succ k ih =>
    unfold directives
    simp only
    cases hn : s.d.next.1 with
    | false => simp only [Bool.not_false, if_true]; exact h
    | true =>
      simp only [Bool.not_true, Bool.false_eq_true, if_false]
      obtain ⟨hok1, h01, htok⟩ := next_true_tok h hn
      have hs1 : Ok0 { s with d := s.d.next.2 } := ⟨hok1, h01⟩
      split
      · exact hok1
      · split
        · exact Safe.bind (doImport_safe cfg _ hs1) fun s2 h2 => ih _ (ok_back h2.1)
        · exact Safe.bind (directive_safe cfg (k + 1) _ hok1 htok) fun s2 h2 => ih _ h2

theorem addresses_safe (cfg : Cfg) (fuel : Nat) (s : PState) (e : Bool) (h : Ok0 s) :
    Safe Ok0 (addresses cfg fuel s e) := by
  induction fuel generalizing s e with
  | zero => exact trivial
  | succ k ih =>
    unfold addresses
    refine Safe.bind (safe_envR cfg _) fun tkn _ => ?_
    split
    · exact Safe.bind (doImport_safe cfg _ h) fun s2 h2 => ih _ _ h2.1
    · split
      · split
        · exact trivial
        · exact h
      · simp only
        have hs := (next_spec s.d h.1).1
        have hm := hs.mono
        have hnext : Ok0 { s with d := s.d.next.2, keys := (addKey s.keys e tkn).1 } :=
          ⟨hm.step.ok, Int.le_trans h.2 hm.fwd⟩
        split
        · exact trivial
        · split
          · exact hnext
          · split
            · exact hnext
            · exact ih _ _ hnext

theorem snippetLoop_safe (fuel : Nat) (s : PState) (c : Nat) (acc : List Token) (h : Ok s) :
    Safe (fun r => Ok r.1) (snippetLoop fuel s c acc) := by
  induction fuel generalizing s c acc with
  | zero => exact trivial
  | succ k ih =>
    unfold snippetLoop
    simp only
    cases hn : s.d.next.1 with
    | false =>
      simp only [Bool.not_false, if_true]
      split
      · exact trivial
      · exact h
    | true =>
      simp only [Bool.not_true, Bool.false_eq_true, if_false]
      obtain ⟨hok1, h01, t, htok⟩ := next_true_tok h hn
      rw [htok]
      have hok1' : Ok { s with d := s.d.next.2 } := hok1
      by_cases hv : (s.d.next.2.val == rbrace) = true
      · simp only [hv, if_true, Bool.true_and]
        split
        · exact hok1'
        · exact ih _ _ _ hok1'
      · simp only [hv, Bool.false_and, Bool.false_eq_true, if_false]
        exact ih _ _ _ hok1'

theorem snippetTokens_safe (fuel : Nat) (s : PState) (h : Ok s) : Safe (fun r => Ok r.1) (snippetTokens fuel s) := by
  unfold snippetTokens
  split
  · exact trivial
  · exact snippetLoop_safe fuel s 1 [] h

theorem blockContents_safe (cfg : Cfg) (fuel : Nat) (s : PState) (h : Ok0 s) : Safe Ok (blockContents cfg fuel s) := by
  unfold blockContents
  simp only
  have h0 : Ok (if (s.d.val != lbrace) = true then back s else s) := by
    split
    · exact ok_back h
    · exact h.1
  refine Safe.bind (directives_safe cfg fuel _ h0) fun s1 h1 => ?_
  split
  · exact trivial
  · exact h1

theorem begin_safe (cfg : Cfg) (fuel : Nat) (s : PState) (h : Ok0 s) : Safe Ok (begin cfg fuel s) := by
  unfold begin
  split
  · exact h.1
  · refine Safe.bind (addresses_safe cfg fuel s false h) fun s1 h1 => ?_
    split
    · exact h1.1
    · split
      · split
        · exact trivial
        · exact Safe.bind (snippetTokens_safe fuel s1 h1.1) fun st hst => hst
      · exact blockContents_safe cfg fuel s1 h1

theorem parseAll_safe (cfg : Cfg) (fuel : Nat) (s : PState) (bs : List ServerBlock) (h : Ok s) :
    Safe (fun _ => True) (parseAll cfg fuel s bs) := by
  induction fuel generalizing s bs with
  | zero => exact trivial
  | succ k ih =>
    unfold parseAll
    simp only
    cases hn : s.d.next.1 with
    | false => simp only [Bool.not_false, if_true]; exact trivial
    | true =>
      simp only [Bool.not_true, Bool.false_eq_true, if_false]
      obtain ⟨hok1, h01, _⟩ := next_true_tok h hn
      exact Safe.bind (begin_safe cfg (k + 1) _ ⟨hok1, h01⟩) fun s1 h1 => ih _ _ h1

/-- `Parse` never reaches one of its slice / index panics, whatever the input, the files, the environment and the fuel -/
theorem parse_safe (cfg : Cfg) (fuel : Nat) (fn : String) (input : Bytes) :
    Safe (fun _ => True) (parse cfg fuel fn input) := by
  unfold parse parseTokens
  exact parseAll_safe cfg fuel _ [] (new_ok fn _)

end Casket.Parser
