import Casket.Model.ChainAddrs
namespace Casket.ChainAddrsProofs
open Casket.Path Casket.FS Casket.FileServe Casket.Chain Casket.ChainAddrs

theorem siteAt_configsOf (addrs : List Bytes) (cs : ChainSite) (host : Bytes) (h : host ∈ addrs) :
    siteAt (configsOf addrs cs) host = some cs := by
  induction addrs with
  | nil => cases h
  | cons a rest ih =>
    unfold siteAt configsOf
    rw [List.map_cons, List.find?_cons]
    by_cases ha : a = host
    · simp [ha]
    · have hr : host ∈ rest := by
        rcases List.mem_cons.mp h with h1 | h1
        · exact absurd h1.symm ha
        · exact h1
      simp only [ha, decide_false]
      exact ih hr

theorem chainServeAt_configsOf (fs : FS) (addrs : List Bytes) (cs : ChainSite) (host : Bytes) (r : CReq)
    (h : host ∈ addrs) : chainServeAt fs (configsOf addrs cs) host r = chainServe fs cs r := by
  unfold chainServeAt
  rw [siteAt_configsOf addrs cs host h]

end Casket.ChainAddrsProofs
