import Casket.Model.Parser
/-
The measure behind termination with imports (C10): every token still ahead of the cursor weighs
`B ^ (N - depth)`, where depth = how many import frames it lies in, N = number of importable sources and
B - 2 = the most tokens one import can splice in.  Reading a token lowers the total by its weight (≥ 1);
an import replaces two tokens of depth d by at most B - 2 tokens of depth d + 1, which weigh less than ONE
token of depth d — as long as d < N, which the cycle check guarantees (the sources being expanded are distinct).
-/
namespace Casket.Parser
open Casket.Lexer

/-- Σ_{r=1}^{k} wt r — `r` counts tokens from the END of the list (the last token is r = 1) -/
def phiK (wt : Nat → Nat) : Nat → Nat
  | 0 => 0
  | k + 1 => phiK wt k + wt (k + 1)

theorem phiK_congr {wt wt' : Nat → Nat} (k : Nat) (h : ∀ r, r ≤ k → wt' r = wt r) : phiK wt' k = phiK wt k := by
  induction k with
  | zero => rfl
  | succ n ih =>
    simp only [phiK]
    rw [ih (fun r hr => h r (by omega)), h (n + 1) (Nat.le_refl _)]

theorem phiK_const {wt : Nat → Nat} (a n c : Nat) (h : ∀ r, a < r → r ≤ a + n → wt r = c) :
    phiK wt (a + n) = phiK wt a + n * c := by
  induction n with
  | zero => simp
  | succ m ih =>
    rw [show a + (m + 1) = (a + m) + 1 by omega]
    simp only [phiK]
    rw [ih (fun r h1 h2 => h r h1 (by omega)), h (a + m + 1) (by omega) (by omega)]
    rw [Nat.succ_mul]; omega

theorem phiK_mono {wt : Nat → Nat} {a b : Nat} (h : a ≤ b) : phiK wt a ≤ phiK wt b := by
  induction h with
  | refl => exact Nat.le_refl _
  | step _ ih => simp only [phiK]; omega

/-- weight of a token at import depth `d` -/
def wgt (B N d : Nat) : Nat := B ^ (N - d)

theorem wgt_pos (B N d : Nat) (hB : 0 < B) : 0 < wgt B N d := Nat.pow_pos hB

/-- `m` tokens one level deeper weigh less than one token here -/
theorem wgt_step (L N d m : Nat) (hd : d < N) (hm : m ≤ L) : m * wgt (L + 2) N (d + 1) + 1 ≤ wgt (L + 2) N d := by
  unfold wgt
  have e : N - d = (N - (d + 1)) + 1 := by omega
  rw [e, Nat.pow_succ]
  have hp : 0 < (L + 2) ^ (N - (d + 1)) := Nat.pow_pos (by omega)
  generalize (L + 2) ^ (N - (d + 1)) = x at hp ⊢
  calc m * x + 1 ≤ L * x + x := by
        have := Nat.mul_le_mul_right x hm
        omega
    _ ≤ x * (L + 2) := by rw [Nat.mul_comm x (L + 2), Nat.add_mul]; omega

/-! ### the import stack -/

/-- where (counted from the end of the token list) the tokens spliced in by one directive stop -/
def lastAfter (f : List Active) : Nat := match f.getLast? with | some e => e.after | none => 0

/-- the import depth of the token `r` places from the end -/
def dep (fs : List (List Active)) (r : Nat) : Nat := (fs.filter fun f => decide (lastAfter f < r)).length

def headName (f : List Active) : Option ImpName := f.head?.map (·.name)

/-- the invariant of the import stack: every frame is non-empty, its sources end in order, it ends inside the first
pending source of the frame below, and none of its sources is one the cursor is inside of further down -/
def FOK : List (List Active) → Prop
  | [] => True
  | f :: fs =>
    f ≠ [] ∧ f.Pairwise (fun a b => b.after ≤ a.after) ∧
    (∀ g e, fs.head? = some g → g.head? = some e → e.after ≤ lastAfter f) ∧
    (∀ a ∈ f, importing fs a.name = false) ∧ FOK fs

theorem lastAfter_le_head {f : List Active} (hs : f.Pairwise (fun a b => b.after ≤ a.after)) {e : Active}
    (he : f.head? = some e) : lastAfter f ≤ e.after := by
  unfold lastAfter
  cases f with
  | nil => cases he
  | cons a t =>
    simp only [List.head?_cons, Option.some.injEq] at he
    subst he
    cases hl : (a :: t).getLast? with
    | none => exact Nat.zero_le _
    | some x =>
      have hx : x ∈ a :: t := List.mem_of_getLast? hl
      rcases List.mem_cons.mp hx with rfl | hx
      · exact Nat.le_refl _
      · exact (List.pairwise_cons.mp hs).1 x hx

/-- below an unfinished top frame every frame ends at or before `a` -/
theorem lastAfter_le_of_FOK {fs : List (List Active)} (h : FOK fs) (a : Nat)
    (htop : ∀ f e, fs.head? = some f → f.head? = some e → e.after ≤ a) : ∀ f ∈ fs, lastAfter f ≤ a := by
  induction fs generalizing a with
  | nil => intro f hf; cases hf
  | cons f rest ih =>
    obtain ⟨hne, hs, hnest, _, hrest⟩ := h
    obtain ⟨e, he⟩ : ∃ e, f.head? = some e := by
      cases f with
      | nil => exact absurd rfl hne
      | cons e _ => exact ⟨e, rfl⟩
    have h1 : lastAfter f ≤ a := Nat.le_trans (lastAfter_le_head hs he) (htop f e rfl he)
    intro g hg
    rcases List.mem_cons.mp hg with rfl | hg
    · exact h1
    · exact ih hrest a (fun g' e' hg' he' => Nat.le_trans (hnest g' e' hg' he') h1) g hg

theorem dep_all {fs : List (List Active)} {r a : Nat} (h : ∀ f ∈ fs, lastAfter f ≤ a) (hr : a < r) : dep fs r = fs.length := by
  unfold dep
  rw [List.filter_eq_self.mpr]
  intro f hf
  have := h f hf
  simp only [decide_eq_true_eq]; omega

theorem dep_le (fs : List (List Active)) (r : Nat) : dep fs r ≤ fs.length := List.length_filter_le _ _

/-- `dropFinished` keeps a suffix; an empty result means every source ended before the directive -/
theorem dropFinished_spec (a : Nat) (f : List Active) :
    (dropFinished a f = [] ∧ ∀ e ∈ f, a < e.after) ∨
    (∃ pre, f = pre ++ dropFinished a f ∧ dropFinished a f ≠ [] ∧
      ∀ e, (dropFinished a f).head? = some e → e.after ≤ a) := by
  induction f with
  | nil => exact Or.inl ⟨rfl, fun e he => by cases he⟩
  | cons x xs ih =>
    unfold dropFinished
    by_cases hx : a < x.after
    · simp only [hx, if_true]
      rcases ih with ⟨h1, h2⟩ | ⟨pre, h1, h2, h3⟩
      · exact Or.inl ⟨h1, fun e he => by rcases List.mem_cons.mp he with rfl | he; exact hx; exact h2 e he⟩
      · exact Or.inr ⟨x :: pre, by rw [List.cons_append, ← h1], h2, h3⟩
    · simp only [hx, if_false]
      exact Or.inr ⟨[], rfl, by simp, fun e he => by simp at he; subst he; omega⟩

theorem lastAfter_suffix {pre g : List Active} (hg : g ≠ []) : lastAfter (pre ++ g) = lastAfter g := by
  unfold lastAfter
  rw [List.getLast?_append]
  cases h : g.getLast? with
  | none => exact absurd (List.getLast?_eq_none_iff.mp h) hg
  | some e => rfl

theorem importing_cons (f : List Active) (fs : List (List Active)) (n : ImpName) :
    importing (f :: fs) n = ((match f with | x :: _ => x.name == n | [] => false) || importing fs n) := by
  unfold importing; rfl

theorem importing_mem {fs : List (List Active)} {n : ImpName} (h : importing fs n = true) :
    ∃ g ∈ fs, ∃ e ∈ g, e.name = n := by
  induction fs with
  | nil => simp [importing] at h
  | cons g gs ih =>
    rw [importing_cons] at h
    rcases Bool.or_eq_true_iff.mp h with h2 | h2
    · cases g with
      | nil => simp at h2
      | cons y ys => exact ⟨y :: ys, List.mem_cons_self, y, List.mem_cons_self, by simpa using h2⟩
    · obtain ⟨g', hg', e, he, hn'⟩ := ih h2
      exact ⟨g', List.mem_cons_of_mem _ hg', e, he, hn'⟩

theorem popFrames_cons_nil {a : Nat} {f : List Active} {rest : List (List Active)} (h : dropFinished a f = []) :
    popFrames a (f :: rest) = popFrames a rest := by
  rw [popFrames]
  split
  · rfl
  · rename_i h2; exact absurd h h2

theorem popFrames_cons_ne {a : Nat} {f : List Active} {rest : List (List Active)} (h : dropFinished a f ≠ []) :
    popFrames a (f :: rest) = dropFinished a f :: rest := by
  rw [popFrames]
  split
  · rename_i h2; exact absurd h2 h
  · rfl

/-- what `popFrames` leaves: a stack that still satisfies the invariant, whose top source is unfinished, and in which
every token at most `a + 1` places from the end has the depth it had -/
theorem popFrames_spec (a : Nat) (fs : List (List Active)) (h : FOK fs) :
    FOK (popFrames a fs) ∧
    (∀ f e, (popFrames a fs).head? = some f → f.head? = some e → e.after ≤ a) ∧
    (∀ r, r ≤ a + 1 → dep (popFrames a fs) r = dep fs r) ∧
    (∀ n, importing (popFrames a fs) n = true → ∃ f ∈ fs, ∃ e ∈ f, e.name = n) := by
  induction fs with
  | nil =>
    refine ⟨trivial, ?_, fun r _ => rfl, ?_⟩
    · intro f e hf; simp [popFrames] at hf
    · intro n hn; simp [popFrames, importing] at hn
  | cons f rest ih =>
    obtain ⟨hne, hs, hnest, hgood, hrest⟩ := h
    obtain ⟨ih1, ih2, ih3, ih4⟩ := ih hrest
    rcases dropFinished_spec a f with ⟨hd, hall⟩ | ⟨pre, hpre, hdne, hhead⟩
    · -- the whole frame is finished
      rw [popFrames_cons_nil hd]
      refine ⟨ih1, ih2, fun r hr => ?_, fun n hn => ?_⟩
      · rw [ih3 r hr]
        unfold dep
        rw [List.filter_cons]
        have hl : ¬ lastAfter f < r := by
          unfold lastAfter
          cases hg : f.getLast? with
          | none => exact absurd (List.getLast?_eq_none_iff.mp hg) hne
          | some e => have := hall e (List.mem_of_getLast? hg); simp only; omega
        simp [hl]
      · obtain ⟨g, hg, e, he, hn'⟩ := ih4 n hn
        exact ⟨g, List.mem_cons_of_mem _ hg, e, he, hn'⟩
    · -- the frame stays, possibly without its first sources
      rw [popFrames_cons_ne hdne]
      have hla : lastAfter (dropFinished a f) = lastAfter f := by
        conv => rhs; rw [hpre]
        exact (lastAfter_suffix hdne).symm
      have hsub : ∀ e ∈ dropFinished a f, e ∈ f := fun e he => by rw [hpre]; exact List.mem_append_right _ he
      refine ⟨⟨hdne, ?_, ?_, fun x hx => hgood x (hsub x hx), hrest⟩, ?_, fun r _ => ?_, fun n hn => ?_⟩
      · rw [hpre] at hs; exact (List.pairwise_append.mp hs).2.1
      · intro g e hg he; rw [hla]; exact hnest g e hg he
      · intro g e hg he
        simp only [List.head?_cons, Option.some.injEq] at hg
        subst hg
        exact hhead e he
      · unfold dep
        simp only [List.filter_cons, hla]
        split <;> simp
      · rw [importing_cons] at hn
        rcases Bool.or_eq_true_iff.mp hn with h1 | h1
        · cases hdf : dropFinished a f with
          | nil => exact absurd hdf hdne
          | cons x xs =>
            rw [hdf] at h1
            have hx : x ∈ f := hsub x (by rw [hdf]; exact List.mem_cons_self)
            exact ⟨f, List.mem_cons_self, x, hx, by simpa using h1⟩
        · obtain ⟨g, hg, e, he, hn'⟩ := importing_mem h1
          exact ⟨g, List.mem_cons_of_mem _ hg, e, he, hn'⟩


/-! ### the sources being expanded are distinct, so there are at most N of them -/

/-- the sources the cursor is inside of, innermost first -/
def heads : List (List Active) → List ImpName
  | [] => []
  | [] :: fs => heads fs
  | (x :: _) :: fs => x.name :: heads fs

theorem importing_iff (fs : List (List Active)) (n : ImpName) : importing fs n = true ↔ n ∈ heads fs := by
  induction fs with
  | nil => simp [importing, heads]
  | cons f rest ih =>
    rw [importing_cons]
    cases f with
    | nil => simp only [Bool.false_or, heads]; exact ih
    | cons x xs =>
      simp only [heads, Bool.or_eq_true, beq_iff_eq, List.mem_cons, ih]
      constructor
      · rintro (h | h)
        · exact Or.inl h.symm
        · exact Or.inr h
      · rintro (h | h)
        · exact Or.inl h.symm
        · exact Or.inr h

theorem heads_nodup {fs : List (List Active)} (h : FOK fs) : (heads fs).Nodup ∧ (heads fs).length = fs.length := by
  induction fs with
  | nil => exact ⟨List.nodup_nil, rfl⟩
  | cons f rest ih =>
    obtain ⟨hne, _, _, hgood, hrest⟩ := h
    obtain ⟨ih1, ih2⟩ := ih hrest
    cases f with
    | nil => exact absurd rfl hne
    | cons x xs =>
      simp only [heads, List.nodup_cons, List.length_cons, ih2, and_true]
      refine ⟨?_, ih1⟩
      intro hmem
      have := hgood x List.mem_cons_self
      rw [(importing_iff rest x.name).mpr hmem] at this
      cases this

theorem nodup_length_le {α : Type} [DecidableEq α] (l names : List α) (hn : l.Nodup) (hs : ∀ x ∈ l, x ∈ names) :
    l.length ≤ names.length := by
  induction l generalizing names with
  | nil => exact Nat.zero_le _
  | cons x t ih =>
    obtain ⟨hx, ht⟩ := List.nodup_cons.mp hn
    have hxn : x ∈ names := hs x List.mem_cons_self
    have := ih (names.erase x) ht (fun y hy => by
      have hne : y ≠ x := fun e => hx (e ▸ hy)
      exact (List.mem_erase_of_ne hne).mpr (hs y (List.mem_cons_of_mem _ hy)))
    rw [List.length_erase_of_mem hxn] at this
    have : 0 < names.length := List.length_pos_of_mem hxn
    simp only [List.length_cons]
    omega

/-! ### pushing the sources of one import directive -/

theorem activesOf_spec (imps : List (String × List Token)) (a : Nat) :
    (activesOf imps a).Pairwise (fun x y => y.after ≤ x.after) ∧
    (∀ e ∈ activesOf imps a, a ≤ e.after ∧ ∃ p ∈ imps, e.name = .file p.1) ∧
    (imps ≠ [] → activesOf imps a ≠ [] ∧ lastAfter (activesOf imps a) = a) ∧
    (∀ e ∈ activesOf imps a, e.after ≤ a + (imps.map (·.2.length)).sum) := by
  induction imps with
  | nil =>
    refine ⟨List.Pairwise.nil, ?_, fun h => absurd rfl h, ?_⟩
    · intro e he; simp [activesOf] at he
    · intro e he; simp [activesOf] at he
  | cons p rest ih =>
    obtain ⟨ih1, ih2, ih3, ih4⟩ := ih
    obtain ⟨n, ts⟩ := p
    simp only [activesOf]
    refine ⟨List.pairwise_cons.mpr ⟨fun e he => ?_, ih1⟩, fun e he => ?_, fun _ => ⟨by simp, ?_⟩, fun e he => ?_⟩
    · have := ih4 e he; simpa using this
    · rcases List.mem_cons.mp he with rfl | he
      · exact ⟨by simp, (n, ts), List.mem_cons_self, rfl⟩
      · obtain ⟨h1, q, hq, hn⟩ := ih2 e he
        exact ⟨h1, q, List.mem_cons_of_mem _ hq, hn⟩
    · cases rest with
      | nil => simp [activesOf, lastAfter]
      | cons q qs =>
        have := (ih3 (by simp)).2
        have hne := (ih3 (by simp)).1
        have e1 : lastAfter ({ name := ImpName.file n, after := a + (List.map (fun x => x.2.length) (q :: qs)).sum } :: activesOf (q :: qs) a) =
            lastAfter (activesOf (q :: qs) a) := by
          have := lastAfter_suffix (pre := [{ name := ImpName.file n, after := a + (List.map (fun x => x.2.length) (q :: qs)).sum }]) hne
          simpa using this
        rw [e1]; exact this
    · rcases List.mem_cons.mp he with rfl | he
      · simp only [List.map_cons, List.sum_cons]; omega
      · have := ih4 e he; simp only [List.map_cons, List.sum_cons]; omega

/-- the stack after an import directive pushed `fnew` on the popped stack -/
theorem push_spec {fs : List (List Active)} {fnew : List Active} {a : Nat} (h : FOK fs)
    (htop : ∀ f e, fs.head? = some f → f.head? = some e → e.after ≤ a)
    (hne : fnew ≠ []) (hs : fnew.Pairwise (fun x y => y.after ≤ x.after)) (hla : lastAfter fnew = a)
    (hgood : ∀ e ∈ fnew, importing fs e.name = false) :
    FOK (fnew :: fs) ∧ (∀ r, r ≤ a → dep (fnew :: fs) r = dep fs r) ∧ (∀ r, a < r → dep (fnew :: fs) r = fs.length + 1) := by
  refine ⟨⟨hne, hs, fun g e hg he => by rw [hla]; exact htop g e hg he, hgood, h⟩, fun r hr => ?_, fun r hr => ?_⟩
  · unfold dep
    rw [List.filter_cons]
    have : ¬ lastAfter fnew < r := by omega
    simp [this]
  · have hall : ∀ f ∈ fnew :: fs, lastAfter f ≤ a := by
      intro f hf
      rcases List.mem_cons.mp hf with rfl | hf
      · omega
      · exact lastAfter_le_of_FOK h a htop f hf
    rw [dep_all hall hr]; rfl

end Casket.Parser
