import Casket.Proofs.Reload
import Casket.Spec.Reload
set_option linter.unusedSimpArgs false
/-
The sequential schedules of the hand-over stream, executed symbolically: from a settled state a
reload with a configuration that is valid for the environment ends in the settled state of the new
generation, an invalid one ends in the state it started from; the observations then satisfy the
judge `ReloadSpec.stepLaw`.
-/
namespace Casket.Reload
open Casket.ReloadSpec

theorem run_append (m : M) (a b : List Act) : run m (a ++ b) = run (run m a) b := by
  induction a generalizing m with
  | nil => rfl
  | cons x rest ih => simp [run, ih]

theorem run_replicate_succ (m : M) (n : Nat) (a : Act) : run m (List.replicate (n + 1) a) = run (step m a) (List.replicate n a) := by
  simp [List.replicate_succ, run]

/-- the reload-internal actions do nothing when no reload is in progress -/
def internal : Act → Bool
  | .listen => true | .serve => true | .stopOld => true | .stop => true | .finish => true | .setup => true
  | _ => false

theorem step_idle_noop {m : M} (h : m.phase = .idle) {act : Act} (ha : internal act = true) : step m act = m := by
  cases act <;> simp [internal] at ha <;> simp [step, h]

theorem run_idle_noop {m : M} (h : m.phase = .idle) : ∀ (acts : List Act), (∀ a ∈ acts, internal a = true) → run m acts = m := by
  intro acts
  induction acts with
  | nil => intro _; rfl
  | cons a rest ih =>
    intro ha
    simp only [run, step_idle_noop h (ha a List.mem_cons_self)]
    exact ih (fun x hx => ha x (List.mem_cons_of_mem _ hx))

/-! ### socket identities: a socket is only ever re-created at an address nobody holds -/

theorem sock_step {m : M} (act : Act) (a : Nat) :
    (step m act).sock a = m.sock a ∨
      (m.cur.holds a = false ∧ m.new.holds a = false ∧ (step m act).sock a = m.nextSock ∧
        (step m act).nextSock = m.nextSock + 1) := by
  cases act with
  | listen =>
    cases hp : m.phase <;> simp only [step, hp] <;> try (first | exact Or.inl rfl | exact Or.inl trivial)
    rename_i todo
    cases todo with
    | nil => (first | exact Or.inl rfl | exact Or.inl trivial)
    | cons x todo =>
      simp only
      by_cases h1 : m.new.holds x = true
      · simp [h1]
      · have h1' : m.new.holds x = false := by simpa using h1
        simp only [h1', Bool.false_eq_true, if_false]
        by_cases h2 : m.cur.holds x = true
        · simp [h2]
        · have h2' : m.cur.holds x = false := by simpa using h2
          simp only [h2', Bool.false_eq_true, if_false]
          split
          · left; simp [closeHeld]
          · simp only [upd_app]
            by_cases hx : a = x
            · subst hx; right; simp [h1', h2']
            · left; simp [hx]
  | stop =>
    cases hp : m.phase <;> simp only [step, hp] <;> try (first | exact Or.inl rfl | exact Or.inl trivial)
    rename_i todo
    cases todo with
    | nil => (first | exact Or.inl rfl | exact Or.inl trivial)
    | cons x todo =>
      simp only
      split
      · left; unfold closeFd; split <;> rfl
      · (first | exact Or.inl rfl | exact Or.inl trivial)
  | «begin» g c => cases hp : m.phase <;> simp only [step, hp] <;> try (first | exact Or.inl rfl | exact Or.inl trivial)
                   split <;> (first | exact Or.inl rfl | exact Or.inl trivial)
  | setup => cases hp : m.phase <;> simp only [step, hp] <;> try (first | exact Or.inl rfl | exact Or.inl trivial)
             split <;> (first | exact Or.inl rfl | exact Or.inl trivial)
  | serve => cases hp : m.phase <;> simp only [step, hp] <;> (first | exact Or.inl rfl | exact Or.inl trivial)
  | stopOld => cases hp : m.phase <;> simp only [step, hp] <;> (first | exact Or.inl rfl | exact Or.inl trivial)
  | finish =>
    cases hp : m.phase <;> simp only [step, hp] <;> try (first | exact Or.inl rfl | exact Or.inl trivial)
    rename_i todo; cases todo <;> (first | exact Or.inl rfl | exact Or.inl trivial)
  | connect x => simp only [step]; split <;> (first | exact Or.inl rfl | exact Or.inl trivial)
  | accept g x => simp only [step]; split <;> try (first | exact Or.inl rfl | exact Or.inl trivial)
                  split <;> (first | exact Or.inl rfl | exact Or.inl trivial)
  | respond id => (first | exact Or.inl rfl | exact Or.inl trivial)

theorem nextSock_step {m : M} (act : Act) : m.nextSock ≤ (step m act).nextSock := by
  cases act with
  | listen =>
    cases hp : m.phase <;> simp only [step, hp] <;> try (first | exact Nat.le_refl _ | simp)
    rename_i todo
    cases todo with
    | nil => (first | exact Nat.le_refl _ | simp)
    | cons x todo =>
      simp only
      split
      · (first | exact Nat.le_refl _ | simp)
      · split
        · (first | exact Nat.le_refl _ | simp)
        · split
          · simp [closeHeld]
          · simp
  | stop =>
    cases hp : m.phase <;> simp only [step, hp] <;> try (first | exact Nat.le_refl _ | simp)
    rename_i todo
    cases todo with
    | nil => (first | exact Nat.le_refl _ | simp)
    | cons x todo =>
      simp only
      split
      · unfold closeFd; split <;> (first | exact Nat.le_refl _ | simp)
      · (first | exact Nat.le_refl _ | simp)
  | «begin» g c => cases hp : m.phase <;> simp only [step, hp] <;> try (first | exact Nat.le_refl _ | simp)
                   split <;> (first | exact Nat.le_refl _ | simp)
  | setup => cases hp : m.phase <;> simp only [step, hp] <;> try (first | exact Nat.le_refl _ | simp)
             split <;> (first | exact Nat.le_refl _ | simp)
  | serve => cases hp : m.phase <;> simp only [step, hp] <;> (first | exact Nat.le_refl _ | simp)
  | stopOld => cases hp : m.phase <;> simp only [step, hp] <;> (first | exact Nat.le_refl _ | simp)
  | finish =>
    cases hp : m.phase <;> simp only [step, hp] <;> try (first | exact Nat.le_refl _ | simp)
    rename_i todo; cases todo <;> (first | exact Nat.le_refl _ | simp)
  | connect x => simp only [step]; split <;> (first | exact Nat.le_refl _ | simp)
  | accept g x => simp only [step]; split <;> try (first | exact Nat.le_refl _ | simp)
                  split <;> (first | exact Nat.le_refl _ | simp)
  | respond id => (first | exact Nat.le_refl _ | simp)

/-- socket identities after a schedule: old ones or fresh ones -/
structure SockRel (m m' : M) : Prop where
  next : m.nextSock ≤ m'.nextSock
  fresh : ∀ a, m'.sock a = m.sock a ∨ (m.nextSock ≤ m'.sock a ∧ m'.sock a < m'.nextSock)

theorem sockRel_run : ∀ (acts : List Act) (m : M), SockRel m (run m acts) := by
  intro acts
  induction acts with
  | nil => intro m; exact ⟨Nat.le_refl _, fun _ => Or.inl rfl⟩
  | cons act rest ih =>
    intro m
    have h2 := ih (step m act)
    have hn := nextSock_step (m := m) act
    refine ⟨Nat.le_trans hn h2.next, fun a => ?_⟩
    rcases h2.fresh a with e | ⟨e1, e2⟩
    · rcases sock_step (m := m) act a with e' | ⟨_, _, e', e''⟩
      · exact Or.inl (e.trans e')
      · right
        simp only [run]
        rw [e, e']
        have := h2.next
        exact ⟨Nat.le_refl _, by omega⟩
    · exact Or.inr ⟨Nat.le_trans hn e1, e2⟩
open Casket.ReloadSpec

theorem keeps_held {a : Nat} {m : M} (k : Keeps a m) : m.cur.holds a = true ∨ m.new.holds a = true := by
  unfold Keeps at k
  cases hp : m.phase <;> simp only [hp] at k
  · exact Or.inl k
  · exact Or.inl k.1
  · exact Or.inl k.1
  · exact Or.inl k.1
  · exact Or.inl k.1
  · exact Or.inr k

/-- the socket of an address that is kept is never re-created -/
theorem keeps_sock_run {a : Nat} : ∀ (acts : List Act) {m : M}, Inv m → Keeps a m →
    (∀ act ∈ acts, keepsAct a act) → (run m acts).sock a = m.sock a := by
  intro acts
  induction acts with
  | nil => intro m _ _ _; rfl
  | cons act rest ih =>
    intro m h k hk
    have hs := keeps_step h k act (hk act List.mem_cons_self)
    simp only [run]
    rw [ih (inv_step h act) hs.1 (fun x hx => hk x (List.mem_cons_of_mem _ hx))]
    rcases sock_step (m := m) act a with e | ⟨e1, e2, _⟩
    · exact e
    · rcases keeps_held k with h1 | h1
      · rw [h1] at e1; exact Bool.noConfusion e1
      · rw [h1] at e2; exact Bool.noConfusion e2

/-- a settled state: no reload in progress, the current instance holds and accepts on exactly its addresses, nobody waits -/
structure Good (m : M) : Prop where
  inv : Inv m
  idle : m.phase = .idle
  holds : ∀ a, m.cur.holds a = m.cur.addrs.contains a
  accepts : ∀ a, m.cur.accepts a = m.cur.holds a
  queue : ∀ a, m.queue a = []
  notBusy : ∀ a, m.cur.holds a = true → m.busy.contains a = false
  connIds : ∀ c ∈ m.conns, c.id < m.nextConn

theorem good_init (busy addrs : List Nat) (h : ∀ a ∈ addrs, busy.contains a = false) : Good (M.init busy addrs) :=
  ⟨inv_init busy addrs, rfl, fun _ => rfl, fun _ => rfl, fun _ => rfl,
   fun a ha => h a (by simpa [M.init] using ha), fun c hc => by simp [M.init] at hc⟩

theorem good_fds {m : M} (h : Good m) (a : Nat) : m.fds a = b2n (m.cur.holds a) := by
  have := h.inv.acc a
  rw [(h.inv.inactive (by simp [h.idle, active])).1 a] at this
  simpa [b2n] using this

/-- what the steps of a reload leave alone -/
structure Frame (m m' : M) : Prop where
  busy : m'.busy = m.busy
  conns : m'.conns = m.conns
  nextConn : m'.nextConn = m.nextConn
  queue : ∀ a, m'.queue a = []

/-! ### the listen loop -/

theorem listen_ok_loop : ∀ (todo : List Nat) (m : M), Inv m → m.phase = .listening todo →
    (∀ a, m.queue a = []) → (∀ a ∈ todo, m.busy.contains a = false ∨ m.cur.holds a = true) →
    (run m (List.replicate todo.length .listen)).phase = .listening [] ∧
    Frame m (run m (List.replicate todo.length .listen)) ∧
    (run m (List.replicate todo.length .listen)).cur = m.cur ∧
    (run m (List.replicate todo.length .listen)).events = m.events ∧
    (run m (List.replicate todo.length .listen)).served = m.served ∧
    (run m (List.replicate todo.length .listen)).new.gen = m.new.gen ∧
    (run m (List.replicate todo.length .listen)).new.addrs = m.new.addrs ∧
    (∀ a, (run m (List.replicate todo.length .listen)).new.accepts a = m.new.accepts a) ∧
    (∀ a, (run m (List.replicate todo.length .listen)).new.holds a = (m.new.holds a || todo.contains a)) := by
  intro todo
  induction todo with
  | nil =>
    intro m _ hp hq _
    have e : run m (List.replicate ([] : List Nat).length .listen) = m := rfl
    rw [e]
    exact ⟨hp, ⟨rfl, rfl, rfl, hq⟩, rfl, rfl, rfl, rfl, rfl, fun _ => rfl, fun a => by simp⟩
  | cons x todo ih =>
    intro m hinv hp hq hok
    simp only [List.length_cons, run_replicate_succ]
    have hinv' := inv_step hinv .listen
    -- the step on x succeeds, whichever of the three ways
    have key : ∃ m2, step m .listen = m2 ∧ m2.phase = .listening todo ∧ m2.busy = m.busy ∧ m2.conns = m.conns ∧
        m2.nextConn = m.nextConn ∧ m2.queue = m.queue ∧ m2.cur = m.cur ∧ m2.events = m.events ∧ m2.served = m.served ∧
        m2.new.gen = m.new.gen ∧ m2.new.addrs = m.new.addrs ∧ m2.new.accepts = m.new.accepts ∧
        (∀ a, m2.new.holds a = (m.new.holds a || a == x)) := by
      by_cases h1 : m.new.holds x = true
      · refine ⟨{ m with phase := .listening todo }, by simp [step, hp, h1],
          rfl, rfl, rfl, rfl, rfl, rfl, rfl, rfl, rfl, rfl, rfl, fun a => ?_⟩
        show m.new.holds a = _
        by_cases e : a = x
        · subst e; simp [h1]
        · simp [e]
      · have h1' : m.new.holds x = false := by simpa using h1
        by_cases h2 : m.cur.holds x = true
        · refine ⟨{ m with fds := upd m.fds x (m.fds x + 1), new := { m.new with holds := set m.new.holds x true },
                            phase := .listening todo }, by simp [step, hp, h1', h2],
            rfl, rfl, rfl, rfl, rfl, rfl, rfl, rfl, rfl, rfl, rfl, fun a => ?_⟩
          show set m.new.holds x true a = _
          simp only [set_app]
          by_cases e : a = x
          · subst e; simp
          · simp [e]
        · have h2' : m.cur.holds x = false := by simpa using h2
          have hb : m.busy.contains x = false := by
            rcases hok x List.mem_cons_self with h | h
            · exact h
            · rw [h2'] at h; exact Bool.noConfusion h
          have hf : m.fds x = 0 := by
            have := hinv.acc x; simp [h1', h2', b2n] at this; exact this
          have hc : ¬ (m.busy.contains x || decide (m.fds x > 0)) = true := by rw [hb, hf]; simp
          refine ⟨{ m with fds := upd m.fds x 1, sock := upd m.sock x m.nextSock, nextSock := m.nextSock + 1,
                            new := { m.new with holds := set m.new.holds x true }, phase := .listening todo }, ?_,
            rfl, rfl, rfl, rfl, rfl, rfl, rfl, rfl, rfl, rfl, rfl, fun a => ?_⟩
          · simp only [step, hp, h1', h2', Bool.false_eq_true, if_false]
            rw [if_neg hc]
          show set m.new.holds x true a = _
          simp only [set_app]
          by_cases e : a = x
          · subst e; simp
          · simp [e]
    obtain ⟨m2, e2, hp2, hb2, hc2, hn2, hq2, hcur2, hev2, hsv2, hg2, ha2, hacc2, hh2⟩ := key
    rw [e2] at hinv' ⊢
    have hrec := ih m2 hinv' hp2 (fun a => by rw [hq2]; exact hq a)
      (fun a ha => by rw [hb2, hcur2]; exact hok a (List.mem_cons_of_mem _ ha))
    obtain ⟨r1, r2, r3, r4, r5, r6, r7, r8, r9⟩ := hrec
    refine ⟨r1, ⟨r2.busy.trans hb2, r2.conns.trans hc2, r2.nextConn.trans hn2, r2.queue⟩, r3.trans hcur2, r4.trans hev2,
      r5.trans hsv2, r6.trans hg2, r7.trans ha2, fun a => by rw [r8 a, hacc2], fun a => ?_⟩
    rw [r9 a, hh2 a]
    simp only [List.contains_cons]
    cases m.new.holds a <;> cases (a == x) <;> simp

open Casket.ReloadSpec

/-! ### the stop loop -/

theorem stop_loop : ∀ (todo : List Nat) (m : M), Inv m → m.phase = .stopping todo → (∀ a, m.queue a = []) →
    (run m (List.replicate todo.length .stop)).phase = .stopping [] ∧
    Frame m (run m (List.replicate todo.length .stop)) ∧
    (run m (List.replicate todo.length .stop)).new = m.new ∧
    (run m (List.replicate todo.length .stop)).events = m.events ∧
    (run m (List.replicate todo.length .stop)).served = m.served := by
  intro todo
  induction todo with
  | nil =>
    intro m _ hp hq
    have e : run m (List.replicate ([] : List Nat).length .stop) = m := rfl
    rw [e]
    exact ⟨hp, ⟨rfl, rfl, rfl, hq⟩, rfl, rfl, rfl⟩
  | cons x todo ih =>
    intro m hinv hp hq
    simp only [List.length_cons, run_replicate_succ]
    have hinv' := inv_step hinv .stop
    have key : (step m .stop).phase = .stopping todo ∧ (step m .stop).busy = m.busy ∧ (step m .stop).conns = m.conns ∧
        (step m .stop).nextConn = m.nextConn ∧ (∀ a, (step m .stop).queue a = []) ∧ (step m .stop).new = m.new ∧
        (step m .stop).events = m.events ∧ (step m .stop).served = m.served := by
      by_cases h1 : m.cur.holds x = true
      · have e : step m .stop = { closeFd m x with cur := { m.cur with holds := set m.cur.holds x false, accepts := set m.cur.accepts x false }, phase := .stopping todo } := by simp [step, hp, h1]
        rw [e]
        by_cases hf : m.fds x = 1
        · have e2 : closeFd m x = { m with fds := upd m.fds x 0, queue := upd m.queue x [], events := m.events ++ (m.queue x).map (Ev.dropped x) } := by simp [closeFd, hf]
          rw [e2]
          refine ⟨rfl, rfl, rfl, rfl, fun a => ?_, rfl, ?_, rfl⟩
          · show upd m.queue x [] a = []
            simp only [upd_app]; split <;> simp [hq]
          · show m.events ++ (m.queue x).map (Ev.dropped x) = m.events
            simp [hq x]
        · have e2 : closeFd m x = { m with fds := upd m.fds x (m.fds x - 1) } := by simp [closeFd, hf]
          rw [e2]
          exact ⟨rfl, rfl, rfl, rfl, hq, rfl, rfl, rfl⟩
      · have h1' : m.cur.holds x = false := by simpa using h1
        have e : step m .stop = { m with phase := .stopping todo } := by simp [step, hp, h1']
        rw [e]
        exact ⟨rfl, rfl, rfl, rfl, hq, rfl, rfl, rfl⟩
    obtain ⟨k1, k2, k3, k4, k5, k6, k7, k8⟩ := key
    obtain ⟨r1, r2, r3, r4, r5⟩ := ih (step m .stop) hinv' k1 k5
    exact ⟨r1, ⟨r2.busy.trans k2, r2.conns.trans k3, r2.nextConn.trans k4, r2.queue⟩, r3.trans k6, r4.trans k7, r5.trans k8⟩

/-! ### the listen loop when an address is in use -/

theorem listen_fail_loop : ∀ (todo : List Nat) (m : M) (k : Nat), Inv m → m.phase = .listening todo →
    (∀ a, m.queue a = []) → (∀ a, m.new.holds a = true → m.busy.contains a = false ∨ m.cur.holds a = true) →
    (∃ a ∈ todo, m.busy.contains a = true ∧ m.cur.holds a = false) → todo.length ≤ k →
    (run m (List.replicate k .listen)).phase = .idle ∧
    Frame m (run m (List.replicate k .listen)) ∧
    (run m (List.replicate k .listen)).cur = m.cur ∧
    (run m (List.replicate k .listen)).served = m.served := by
  intro todo
  induction todo with
  | nil => intro m k _ _ _ _ hbad _; obtain ⟨a, ha, _⟩ := hbad; simp at ha
  | cons x todo ih =>
    intro m k hinv hp hq hnew hbad hk
    obtain ⟨k', rfl⟩ : ∃ k', k = k' + 1 := ⟨k - 1, by simp at hk; omega⟩
    rw [run_replicate_succ]
    have hinv' := inv_step hinv .listen
    by_cases hx : m.busy.contains x = true ∧ m.cur.holds x = false
    · -- this listen fails
      have h1' : m.new.holds x = false := by
        cases h : m.new.holds x
        · rfl
        · rcases hnew x h with h' | h'
          · rw [hx.1] at h'; exact Bool.noConfusion h'
          · rw [hx.2] at h'; exact Bool.noConfusion h'
      have hc : (m.busy.contains x || decide (m.fds x > 0)) = true := by rw [hx.1]; rfl
      have e : step m .listen = { closeHeld m with new := Inst.none, phase := .idle, events := (closeHeld m).events ++ [Ev.reloadFailed] } := by
        simp only [step, hp, h1', hx.2, Bool.false_eq_true, if_false]
        rw [if_pos hc]
      have hidle : (step m .listen).phase = .idle := by rw [e]
      rw [run_idle_noop hidle _ (by intro a ha; simp [List.mem_replicate] at ha; rw [ha.2]; rfl)]
      rw [e]
      refine ⟨rfl, ⟨rfl, rfl, rfl, fun a => ?_⟩, rfl, rfl⟩
      simp only [closeHeld]; split <;> simp [hq]
    · -- this listen succeeds; the address in use comes later
      have hbad' : ∃ a ∈ todo, m.busy.contains a = true ∧ m.cur.holds a = false := by
        obtain ⟨a, ha, hb⟩ := hbad
        rcases List.mem_cons.mp ha with e | e
        · subst e; exact absurd hb hx
        · exact ⟨a, e, hb⟩
      have hxok : m.busy.contains x = false ∨ m.cur.holds x = true := by
        cases hb : m.busy.contains x
        · exact Or.inl rfl
        · cases hc : m.cur.holds x
          · exact absurd ⟨hb, hc⟩ hx
          · exact Or.inr rfl
      have key : (step m .listen).phase = .listening todo ∧ (step m .listen).busy = m.busy ∧
          (step m .listen).conns = m.conns ∧ (step m .listen).nextConn = m.nextConn ∧
          (step m .listen).queue = m.queue ∧ (step m .listen).cur = m.cur ∧ (step m .listen).served = m.served ∧
          (∀ a, (step m .listen).new.holds a = true → m.new.holds a = true ∨ a = x) := by
        by_cases h1 : m.new.holds x = true
        · have e : step m .listen = { m with phase := .listening todo } := by simp [step, hp, h1]
          rw [e]
          exact ⟨rfl, rfl, rfl, rfl, rfl, rfl, rfl, fun a ha => Or.inl ha⟩
        · have h1' : m.new.holds x = false := by simpa using h1
          by_cases h2 : m.cur.holds x = true
          · have e : step m .listen = { m with fds := upd m.fds x (m.fds x + 1), new := { m.new with holds := set m.new.holds x true }, phase := .listening todo } := by
              simp [step, hp, h1', h2]
            rw [e]
            refine ⟨rfl, rfl, rfl, rfl, rfl, rfl, rfl, fun a ha => ?_⟩
            change set m.new.holds x true a = true at ha
            simp only [set_app] at ha
            by_cases e : a = x
            · exact Or.inr e
            · simp only [e, if_false] at ha; exact Or.inl ha
          · have h2' : m.cur.holds x = false := by simpa using h2
            have hb : m.busy.contains x = false := by
              rcases hxok with h | h
              · exact h
              · rw [h2'] at h; exact Bool.noConfusion h
            have hf : m.fds x = 0 := by
              have := hinv.acc x; simp [h1', h2', b2n] at this; exact this
            have hc : ¬ (m.busy.contains x || decide (m.fds x > 0)) = true := by rw [hb, hf]; simp
            have e : step m .listen = { m with fds := upd m.fds x 1, sock := upd m.sock x m.nextSock, nextSock := m.nextSock + 1, new := { m.new with holds := set m.new.holds x true }, phase := .listening todo } := by
              simp only [step, hp, h1', h2', Bool.false_eq_true, if_false]
              rw [if_neg hc]
            rw [e]
            refine ⟨rfl, rfl, rfl, rfl, rfl, rfl, rfl, fun a ha => ?_⟩
            change set m.new.holds x true a = true at ha
            simp only [set_app] at ha
            by_cases e : a = x
            · exact Or.inr e
            · simp only [e, if_false] at ha; exact Or.inl ha
      obtain ⟨k1, k2, k3, k4, k5, k6, k7, k8⟩ := key
      have hrec := ih (step m .listen) k' hinv' k1 (fun a => by rw [k5]; exact hq a)
        (fun a ha => by
          rw [k2, k6]
          rcases k8 a ha with h | h
          · exact hnew a h
          · subst h; exact hxok)
        (by rw [k2, k6]; exact hbad') (by simp at hk; omega)
      obtain ⟨r1, r2, r3, r4⟩ := hrec
      exact ⟨r1, ⟨r2.busy.trans k2, r2.conns.trans k3, r2.nextConn.trans k4, r2.queue⟩, r3.trans k6, r4.trans k7⟩

open Casket.ReloadSpec

theorem reloadHead_split (g : Nat) (m : M) (c : Cfg) :
    run m (reloadHead g m c ++ [.finish]) =
      step (run (run (step (run (run m [.begin g c, .setup]) (List.replicate c.addrs.length .listen)) .listen)
        [.serve, .stopOld]) (List.replicate m.cur.addrs.length .stop)) .finish := by
  simp only [reloadHead, run_append, List.replicate_succ', run]

/-- the state after `begin` and a successful `setup` -/
theorem begin_setup_ok {m : M} {g : Nat} {c : Cfg} (hi : m.phase = .idle) (hgen : m.cur.gen < g) (hf : c.failSetup = false) :
    run m [.begin g c, .setup] = { m with phase := .listening c.addrs, new := { gen := g, addrs := c.addrs, holds := fun _ => false, accepts := fun _ => false } } := by
  simp [run, step, hi, hgen, hf]

theorem begin_setup_fail {m : M} {g : Nat} {c : Cfg} (hi : m.phase = .idle) (hgen : m.cur.gen < g) (hf : c.failSetup = true) :
    run m [.begin g c, .setup] = { m with phase := .idle, events := m.events ++ [Ev.reloadFailed] } := by
  simp [run, step, hi, hgen, hf]

theorem internal_tail (n k : Nat) : ∀ a ∈ List.replicate n Act.listen ++ [Act.listen] ++ [Act.serve, Act.stopOld] ++ List.replicate k Act.stop ++ [Act.finish], internal a = true := by
  intro a ha
  simp only [List.mem_append, List.mem_replicate, List.mem_cons, List.mem_singleton, List.not_mem_nil, or_false] at ha
  rcases ha with (((⟨_, rfl⟩ | rfl) | (rfl | rfl)) | ⟨_, rfl⟩) | rfl <;> rfl

/-- a reload with a configuration valid for the environment, run to completion from a settled state -/
theorem reload_valid {m : M} {g : Nat} {c : Cfg} (hg : Good m) (hgen : m.cur.gen < g) (hv : valid m.busy c = true) :
    Good (run m (reloadHead g m c ++ [.finish])) ∧
    (run m (reloadHead g m c ++ [.finish])).cur.gen = g ∧
    (run m (reloadHead g m c ++ [.finish])).cur.addrs = c.addrs ∧
    (run m (reloadHead g m c ++ [.finish])).busy = m.busy ∧
    (run m (reloadHead g m c ++ [.finish])).conns = m.conns ∧
    (run m (reloadHead g m c ++ [.finish])).nextConn = m.nextConn := by
  simp only [valid, Bool.and_eq_true, Bool.not_eq_true', List.all_eq_true] at hv
  obtain ⟨hf, hfree⟩ := hv
  rw [reloadHead_split]
  -- begin, setup
  have ea := begin_setup_ok (c := c) hg.idle hgen hf
  have hinva : Inv (run m [.begin g c, .setup]) := inv_run _ hg.inv
  rw [ea] at hinva ⊢
  generalize hma : ({ m with phase := Phase.listening c.addrs, new := { gen := g, addrs := c.addrs, holds := fun _ => false, accepts := fun _ => false } } : M) = ma at hinva ⊢
  have ha_phase : ma.phase = .listening c.addrs := by rw [← hma]
  have ha_cur : ma.cur = m.cur := by rw [← hma]
  have ha_busy : ma.busy = m.busy := by rw [← hma]
  have ha_conns : ma.conns = m.conns := by rw [← hma]
  have ha_next : ma.nextConn = m.nextConn := by rw [← hma]
  have ha_queue : ∀ a, ma.queue a = [] := by rw [← hma]; exact hg.queue
  have ha_newh : ∀ a, ma.new.holds a = false := by rw [← hma]; intro _; rfl
  have ha_newg : ma.new.gen = g := by rw [← hma]
  have ha_newa : ma.new.addrs = c.addrs := by rw [← hma]
  -- the listen loop
  obtain ⟨l1, l2, l3, _, _, l6, l7, l8, l9⟩ := listen_ok_loop c.addrs ma hinva ha_phase ha_queue
    (fun a ha => Or.inl (by rw [ha_busy]; simpa using hfree a ha))
  generalize hmb0 : run ma (List.replicate c.addrs.length .listen) = mb0 at l1 l2 l3 l6 l7 l8 l9 ⊢
  have eb : step mb0 .listen = { mb0 with phase := .listened } := by simp [step, l1]
  rw [eb]
  -- serve, stopOld
  have ec : run ({ mb0 with phase := Phase.listened } : M) [.serve, .stopOld] =
      { mb0 with new := { mb0.new with accepts := mb0.new.holds }, phase := .stopping mb0.cur.addrs, served := mb0.served ++ [mb0.new.gen] } := by
    simp [run, step]
  rw [ec]
  generalize hmc : ({ mb0 with new := { mb0.new with accepts := mb0.new.holds }, phase := Phase.stopping mb0.cur.addrs, served := mb0.served ++ [mb0.new.gen] } : M) = mc
  have hc_phase : mc.phase = .stopping m.cur.addrs := by rw [← hmc, l3, ha_cur]
  have hc_inv : Inv mc := by
    have : mc = run m ([.begin g c, .setup] ++ List.replicate c.addrs.length .listen ++ [.listen] ++ [.serve, .stopOld]) := by
      simp only [run_append, ea, hma, hmb0]
      rw [show run mb0 [Act.listen] = step mb0 .listen from rfl, eb, ec, hmc]
    rw [this]; exact inv_run _ hg.inv
  have hc_queue : ∀ a, mc.queue a = [] := by rw [← hmc]; exact l2.queue
  obtain ⟨s1, s2, s3, _, _⟩ := stop_loop m.cur.addrs mc hc_inv hc_phase hc_queue
  generalize hmd : run mc (List.replicate m.cur.addrs.length .stop) = md at s1 s2 s3 ⊢
  have ee : step md .finish = { md with cur := md.new, new := Inst.none, phase := .idle, events := md.events ++ [Ev.reloadOk md.new.gen] } := by
    simp [step, s1]
  have hd_inv : Inv md := by rw [← hmd]; exact inv_run _ hc_inv
  have hinvAll := inv_step hd_inv .finish
  rw [ee] at hinvAll ⊢
  have hnew : md.new = { mb0.new with accepts := mb0.new.holds } := by rw [s3, ← hmc]
  have hholds : ∀ a, md.new.holds a = c.addrs.contains a := by
    intro a; rw [hnew]; show mb0.new.holds a = _; rw [l9 a, ha_newh a]; simp
  refine ⟨⟨hinvAll, rfl, ?_, ?_, s2.queue, ?_, ?_⟩, ?_, ?_, ?_, ?_, ?_⟩
  · intro a; show md.new.holds a = md.new.addrs.contains a
    rw [hholds a, hnew]; show _ = mb0.new.addrs.contains a; rw [l7, ha_newa]
  · intro a; show md.new.accepts a = md.new.holds a
    rw [hnew]
  · intro a ha
    change md.new.holds a = true at ha
    rw [hholds a] at ha
    show md.busy.contains a = false
    rw [s2.busy, ← hmc]; show mb0.busy.contains a = false
    rw [l2.busy, ha_busy]
    exact by simpa using hfree a (by simpa using ha)
  · intro x hx
    change x ∈ md.conns at hx
    show x.id < md.nextConn
    rw [s2.conns, ← hmc] at hx
    rw [s2.nextConn, ← hmc]
    change x ∈ mb0.conns at hx
    show x.id < mb0.nextConn
    rw [l2.conns, ha_conns] at hx
    rw [l2.nextConn, ha_next]
    exact hg.connIds x hx
  · show md.new.gen = g; rw [hnew]; show mb0.new.gen = g; rw [l6, ha_newg]
  · show md.new.addrs = c.addrs; rw [hnew]; show mb0.new.addrs = c.addrs; rw [l7, ha_newa]
  · show md.busy = m.busy; rw [s2.busy, ← hmc]; show mb0.busy = m.busy; rw [l2.busy, ha_busy]
  · show md.conns = m.conns; rw [s2.conns, ← hmc]; show mb0.conns = m.conns; rw [l2.conns, ha_conns]
  · show md.nextConn = m.nextConn; rw [s2.nextConn, ← hmc]; show mb0.nextConn = m.nextConn; rw [l2.nextConn, ha_next]

open Casket.ReloadSpec

theorem listen_cur (m : M) : (step m .listen).cur = m.cur := by
  cases hp : m.phase <;> simp only [step, hp]
  rename_i todo
  cases todo with
  | nil => rfl
  | cons x todo =>
    simp only
    split
    · rfl
    · split
      · rfl
      · split
        · simp [closeHeld]
        · rfl

/-- the listen steps never re-create a socket the current instance holds -/
theorem listen_run_sock : ∀ (k : Nat) (m : M) (a : Nat), m.cur.holds a = true →
    (run m (List.replicate k .listen)).sock a = m.sock a := by
  intro k
  induction k with
  | zero => intro m a _; rfl
  | succ k ih =>
    intro m a ha
    rw [run_replicate_succ, ih (step m .listen) a (by rw [listen_cur]; exact ha)]
    rcases sock_step (m := m) .listen a with e | ⟨e1, _⟩
    · exact e
    · rw [ha] at e1; exact Bool.noConfusion e1

/-- a reload with a configuration that is not valid for the environment, run to completion from a settled state -/
theorem reload_invalid {m : M} {g : Nat} {c : Cfg} (hg : Good m) (hgen : m.cur.gen < g) (hv : valid m.busy c = false) :
    Good (run m (reloadHead g m c ++ [.finish])) ∧
    (run m (reloadHead g m c ++ [.finish])).cur = m.cur ∧
    (run m (reloadHead g m c ++ [.finish])).busy = m.busy ∧
    (run m (reloadHead g m c ++ [.finish])).conns = m.conns ∧
    (run m (reloadHead g m c ++ [.finish])).nextConn = m.nextConn ∧
    (∀ a, m.cur.holds a = true → (run m (reloadHead g m c ++ [.finish])).sock a = m.sock a) := by
  have hinvAll : Inv (run m (reloadHead g m c ++ [.finish])) := inv_run _ hg.inv
  have hsplit : run m (reloadHead g m c ++ [.finish]) =
      run (run (run m [.begin g c, .setup]) (List.replicate (c.addrs.length + 1) .listen))
        ([.serve, .stopOld] ++ List.replicate m.cur.addrs.length .stop ++ [.finish]) := by
    simp only [reloadHead, run_append, List.append_assoc]
  have htail : ∀ a ∈ [Act.serve, Act.stopOld] ++ List.replicate m.cur.addrs.length Act.stop ++ [Act.finish], internal a = true := by
    intro a ha
    simp only [List.mem_append, List.mem_replicate, List.mem_cons, List.mem_singleton, List.not_mem_nil, or_false] at ha
    rcases ha with ((rfl | rfl) | ⟨_, rfl⟩) | rfl <;> rfl
  have hlis : ∀ a ∈ List.replicate (c.addrs.length + 1) Act.listen, internal a = true := by
    intro a ha; simp only [List.mem_replicate] at ha; rw [ha.2]; rfl
  -- in both cases the run ends idle with the current instance untouched
  have key : ∃ mf, run m (reloadHead g m c ++ [.finish]) = mf ∧ mf.phase = .idle ∧ mf.cur = m.cur ∧ mf.busy = m.busy ∧
      mf.conns = m.conns ∧ mf.nextConn = m.nextConn ∧ (∀ a, mf.queue a = []) ∧
      (∀ a, m.cur.holds a = true → mf.sock a = m.sock a) := by
    rw [hsplit]
    cases hfs : c.failSetup
    · -- some address is in use
      have hbad : ∃ a ∈ c.addrs, m.busy.contains a = true ∧ m.cur.holds a = false := by
        simp only [valid, hfs, Bool.not_false, Bool.true_and] at hv
        rw [List.all_eq_false] at hv
        obtain ⟨a, ha, hb⟩ := hv
        have hb' : m.busy.contains a = true := by simpa using hb
        refine ⟨a, ha, hb', ?_⟩
        cases hc : m.cur.holds a
        · rfl
        · have := hg.notBusy a hc; rw [hb'] at this; exact Bool.noConfusion this
      have ea := begin_setup_ok (c := c) hg.idle hgen hfs
      have hinva : Inv (run m [.begin g c, .setup]) := inv_run _ hg.inv
      rw [ea] at hinva ⊢
      generalize hma : ({ m with phase := Phase.listening c.addrs, new := { gen := g, addrs := c.addrs, holds := fun _ => false, accepts := fun _ => false } } : M) = ma at hinva ⊢
      have ha_phase : ma.phase = .listening c.addrs := by rw [← hma]
      have ha_cur : ma.cur = m.cur := by rw [← hma]
      have ha_busy : ma.busy = m.busy := by rw [← hma]
      have ha_conns : ma.conns = m.conns := by rw [← hma]
      have ha_next : ma.nextConn = m.nextConn := by rw [← hma]
      have ha_sock : ma.sock = m.sock := by rw [← hma]
      have ha_queue : ∀ a, ma.queue a = [] := by rw [← hma]; exact hg.queue
      obtain ⟨f1, f2, f3, _⟩ := listen_fail_loop c.addrs ma (c.addrs.length + 1) hinva ha_phase ha_queue
        (fun a ha => by rw [← hma] at ha; exact Bool.noConfusion ha)
        (by rw [ha_busy, ha_cur]; exact hbad) (Nat.le_succ _)
      have hs := fun a (h : m.cur.holds a = true) => listen_run_sock (c.addrs.length + 1) ma a (by rw [ha_cur]; exact h)
      rw [run_idle_noop f1 _ htail]
      exact ⟨_, rfl, f1, f3.trans ha_cur, f2.busy.trans ha_busy, f2.conns.trans ha_conns, f2.nextConn.trans ha_next,
        f2.queue, fun a h => by rw [hs a h, ha_sock]⟩
    · rw [begin_setup_fail (c := c) hg.idle hgen hfs]
      rw [run_idle_noop (m := { m with phase := Phase.idle, events := m.events ++ [Ev.reloadFailed] }) rfl _ hlis]
      rw [run_idle_noop (m := { m with phase := Phase.idle, events := m.events ++ [Ev.reloadFailed] }) rfl _ htail]
      exact ⟨_, rfl, rfl, rfl, rfl, rfl, rfl, hg.queue, fun _ _ => rfl⟩
  obtain ⟨mf, e, h1, h2, h3, h4, h5, h6, h7⟩ := key
  rw [e] at hinvAll ⊢
  refine ⟨⟨hinvAll, h1, ?_, ?_, h6, ?_, ?_⟩, h2, h3, h4, h5, h7⟩
  · intro a; rw [h2]; exact hg.holds a
  · intro a; rw [h2]; exact hg.accepts a
  · intro a ha; rw [h2] at ha; rw [h3]; exact hg.notBusy a ha
  · intro x hx; rw [h4] at hx; rw [h5]; exact hg.connIds x hx

open Casket.ReloadSpec

/-! ### naming of sockets -/

theorem pos_append_some {l : List Nat} {x i : Nat} (l' : List Nat) (h : pos l x = some i) : pos (l ++ l') x = some i := by
  induction l generalizing i with
  | nil => simp [pos] at h
  | cons y ys ih =>
    simp only [List.cons_append, pos] at h ⊢
    split
    · rename_i e; simp [e] at h; exact congrArg some h
    · rename_i e
      simp only [e, if_false] at h
      cases hp : pos ys x with
      | none => simp [hp] at h
      | some j => simp [hp] at h; rw [ih hp]; simp [h]

theorem pos_append_none {l : List Nat} {x : Nat} (h : pos l x = none) : pos (l ++ [x]) x = some l.length := by
  induction l with
  | nil => simp [pos]
  | cons y ys ih =>
    simp only [List.cons_append, pos] at h ⊢
    split
    · rename_i e; simp [e] at h
    · rename_i e
      simp only [e, if_false] at h
      cases hp : pos ys x with
      | none => rw [ih hp]; simp
      | some j => simp [hp] at h

theorem pos_lt {l : List Nat} {x i : Nat} (h : pos l x = some i) : x ∈ l := by
  induction l generalizing i with
  | nil => simp [pos] at h
  | cons y ys ih =>
    simp only [pos] at h
    split at h
    · rename_i e; simp [e]
    · cases hp : pos ys x with
      | none => simp [hp] at h
      | some j => exact List.mem_cons_of_mem _ (ih hp)

/-- `k` is the name under which the socket of address `a` is known in `seen` (0 = the address has no socket) -/
def NamedIn (seen : List Nat) (m : M) (a k : Nat) : Prop :=
  (m.fds a = 0 ∧ k = 0) ∨ (m.fds a ≠ 0 ∧ ∃ i, pos seen (m.sock a) = some i ∧ k = i + 1)

theorem named_rename {seen : List Nat} {m : M} {a k : Nat} (h : NamedIn seen m a k) : rename seen m a = (seen, k) := by
  rcases h with ⟨h0, rfl⟩ | ⟨h0, i, hi, rfl⟩
  · simp [rename, h0]
  · simp [rename, h0, hi]

theorem rename_named (seen : List Nat) (m : M) (a : Nat) :
    NamedIn (rename seen m a).1 m a (rename seen m a).2 ∧ ∃ l, (rename seen m a).1 = seen ++ l ∧ ∀ x ∈ l, x = m.sock a := by
  by_cases h0 : m.fds a = 0
  · simp only [rename, h0, if_true]
    exact ⟨Or.inl ⟨h0, rfl⟩, [], by simp, by simp⟩
  · cases hp : pos seen (m.sock a) with
    | some i =>
      simp only [rename, h0, if_false, hp]
      exact ⟨Or.inr ⟨h0, i, hp, rfl⟩, [], by simp, by simp⟩
    | none =>
      simp only [rename, h0, if_false, hp]
      exact ⟨Or.inr ⟨h0, seen.length, pos_append_none hp, rfl⟩, [m.sock a], rfl, by simp⟩

theorem named_ext {seen : List Nat} {m : M} {a k : Nat} (l : List Nat) (h : NamedIn seen m a k) : NamedIn (seen ++ l) m a k := by
  rcases h with h | ⟨h0, i, hi, hk⟩
  · exact Or.inl h
  · exact Or.inr ⟨h0, i, pos_append_some l hi, hk⟩

theorem named_congr {seen : List Nat} {m m' : M} {a k : Nat} (hf : m'.fds a = m.fds a) (hs : m'.sock a = m.sock a)
    (h : NamedIn seen m a k) : NamedIn seen m' a k := by
  unfold NamedIn at h ⊢
  rw [hf, hs]; exact h

theorem named_ne_zero {seen : List Nat} {m : M} {a k : Nat} (h : NamedIn seen m a k) (hf : m.fds a ≠ 0) : k ≠ 0 := by
  rcases h with ⟨h0, _⟩ | ⟨_, i, _, rfl⟩
  · exact absurd h0 hf
  · omega

theorem named_zero {seen : List Nat} {m : M} {a k : Nat} (h : NamedIn seen m a k) (hf : m.fds a = 0) : k = 0 := by
  rcases h with ⟨_, hk⟩ | ⟨h0, _⟩
  · exact hk
  · exact absurd hf h0

open Casket.ReloadSpec

theorem setOwner_lt {cs : List Conn} {id g : Nat} (h : ∀ c ∈ cs, c.id < id) : setOwner cs id g = cs := by
  induction cs with
  | nil => rfl
  | cons c rest ih =>
    have hc := h c List.mem_cons_self
    have hne : ¬ c.id = id := by omega
    simp only [setOwner, List.map_cons, hne, if_false]
    exact congrArg _ (ih (fun x hx => h x (List.mem_cons_of_mem _ hx)))

theorem setAnswered_lt {cs : List Conn} {id : Nat} (h : ∀ c ∈ cs, c.id < id) : setAnswered cs id = cs := by
  induction cs with
  | nil => rfl
  | cons c rest ih =>
    have hc := h c List.mem_cons_self
    have hne : ¬ c.id = id := by omega
    simp only [setAnswered, List.map_cons, hne, if_false]
    exact congrArg _ (ih (fun x hx => h x (List.mem_cons_of_mem _ hx)))

/-- what a probe leaves alone -/
structure ProbeFrame (m m' : M) : Prop where
  busy : m'.busy = m.busy
  cur : m'.cur = m.cur
  fds : m'.fds = m.fds
  sock : m'.sock = m.sock
  nextSock : m'.nextSock = m.nextSock

theorem probeFrame_trans {a b c : M} (h1 : ProbeFrame a b) (h2 : ProbeFrame b c) : ProbeFrame a c :=
  ⟨h2.busy.trans h1.busy, h2.cur.trans h1.cur, h2.fds.trans h1.fds, h2.sock.trans h1.sock, h2.nextSock.trans h1.nextSock⟩

/-- a fresh connection to an address the settled current instance serves is answered by it -/
theorem probe_held {m : M} {a : Nat} (hg : Good m) (ha : m.cur.holds a = true) :
    (probe m a).2 = toString m.cur.gen ∧ Good (probe m a).1 ∧ ProbeFrame m (probe m a).1 := by
  have hna : m.new.accepts a = false := (hg.inv.inactive (by simp [hg.idle, active])).2 a
  have hf : m.fds a = 1 := by rw [good_fds hg a, ha]; rfl
  have hacc : m.cur.accepts a = true := by rw [hg.accepts a, ha]
  have hq := hg.queue a
  have e : (probe m a).1 = { m with queue := upd (upd m.queue a [m.nextConn]) a [], nextConn := m.nextConn + 1, conns := m.conns ++ [{ id := m.nextConn, addr := a, minGen := m.cur.gen, owner := some m.cur.gen, answered := some m.cur.gen }] } := by
    simp only [probe, hna, Bool.false_eq_true, if_false, run, step, hf, hq, List.nil_append, upd_app, if_true,
      hacc, Bool.and_true, decide_true, Bool.true_or, Nat.lt_irrefl, gt_iff_lt, Nat.zero_lt_one]
    simp only [setOwner, setAnswered, List.map_append, List.map_map, List.map_cons, List.map_nil, if_true]
    have h1 := setOwner_lt (g := m.cur.gen) hg.connIds
    have h2 := setAnswered_lt hg.connIds
    simp only [setOwner] at h1
    simp only [setAnswered] at h2
    rw [← List.map_map, h1, h2]
  have hinv : Inv (probe m a).1 := by simp only [probe]; exact inv_run _ hg.inv
  refine ⟨?_, ?_, ?_⟩
  · simp only [probe, connAnswer]
    have e' := e
    simp only [probe] at e'
    rw [e']
    simp
  · rw [e] at hinv ⊢
    refine ⟨hinv, hg.idle, hg.holds, hg.accepts, fun x => ?_, hg.notBusy, fun c hc => ?_⟩
    · show upd (upd m.queue a [m.nextConn]) a [] x = []
      simp only [upd_app]; split <;> simp [hg.queue]
    · show c.id < m.nextConn + 1
      rcases List.mem_append.mp hc with h | h
      · have := hg.connIds c h; omega
      · simp only [List.mem_singleton] at h; subst h; exact Nat.lt_succ_self _
  · rw [e]; exact ⟨rfl, rfl, rfl, rfl, rfl⟩

open Casket.ReloadSpec

/-- a fresh connection to an address nobody serves is refused -/
theorem probe_free {m : M} {a : Nat} (hg : Good m) (ha : m.cur.holds a = false) :
    (probe m a).2 = "-" ∧ Good (probe m a).1 ∧ ProbeFrame m (probe m a).1 := by
  have hna : m.new.accepts a = false := (hg.inv.inactive (by simp [hg.idle, active])).2 a
  have hf : m.fds a = 0 := by rw [good_fds hg a, ha]; rfl
  have hq := hg.queue a
  have e : (probe m a).1 = { m with events := m.events ++ [Ev.refused a] } := by
    simp only [probe, hna, Bool.false_eq_true, if_false, run, step, hf, hq, Nat.lt_irrefl, gt_iff_lt]
    rw [setAnswered_lt hg.connIds]
  have hinv : Inv (probe m a).1 := by simp only [probe]; exact inv_run _ hg.inv
  refine ⟨?_, ?_, ?_⟩
  · simp only [probe, connAnswer]
    have e' := e
    simp only [probe] at e'
    rw [e']
    simp
  · rw [e] at hinv ⊢
    exact ⟨hinv, hg.idle, hg.holds, hg.accepts, hg.queue, hg.notBusy, hg.connIds⟩
  · rw [e]; exact ⟨rfl, rfl, rfl, rfl, rfl⟩

/-- the answer a fresh connection gets from a settled state -/
def answerOf (m : M) (a : Nat) : String := if m.cur.holds a = true then toString m.cur.gen else "-"

theorem probe_good {m : M} (a : Nat) (hg : Good m) :
    (probe m a).2 = answerOf m a ∧ Good (probe m a).1 ∧ ProbeFrame m (probe m a).1 := by
  cases ha : m.cur.holds a
  · have := probe_free hg ha; simpa [answerOf, ha] using this
  · have := probe_held hg ha; simpa [answerOf, ha] using this

/-- the observation made in a settled state -/
theorem observe_good {m : M} (seen : List Nat) (res : String) (mid str : Option String) (hg : Good m) :
    (observe seen m res mid str).2.2 =
      { res := res, fd1 := m.fds 1, fd2 := m.fds 2, sk1 := (rename seen m 1).2, sk2 := (rename (rename seen m 1).1 m 2).2,
        p1 := answerOf m 1, p2 := answerOf m 2, ni := 1, mid := mid, str := str } ∧
    (observe seen m res mid str).2.1 = (rename (rename seen m 1).1 m 2).1 ∧
    Good (observe seen m res mid str).1 ∧ ProbeFrame m (observe seen m res mid str).1 := by
  obtain ⟨a1, g1, f1⟩ := probe_good 1 hg
  obtain ⟨a2, g2, f2⟩ := probe_good 2 g1
  have hans : answerOf (probe m 1).1 2 = answerOf m 2 := by simp [answerOf, f1.cur]
  refine ⟨?_, rfl, g2, probeFrame_trans f1 f2⟩
  have hni : instCount m = 1 := by simp [instCount, hg.idle]
  simp only [observe, a1, a2, hans, hni]

open Casket.ReloadSpec

theorem named_congr' {seen : List Nat} {m m' : M} {a k : Nat} (hf : m'.fds a = m.fds a)
    (hs : m.fds a ≠ 0 → m'.sock a = m.sock a) (h : NamedIn seen m a k) : NamedIn seen m' a k := by
  rcases h with ⟨h0, hk⟩ | ⟨h0, i, hi, hk⟩
  · exact Or.inl ⟨by rw [hf]; exact h0, hk⟩
  · exact Or.inr ⟨by rw [hf]; exact h0, i, by rw [hs h0]; exact hi, hk⟩

/-- the judge's ledger agrees with the settled state of the model -/
structure HRel (busy : List Nat) (m : M) (seen : List Nat) (g : Nat) (led : HLedger) : Prop where
  good : Good m
  busyEq : m.busy = busy
  gen : led.gen = m.cur.gen
  addrs : led.addrs = m.cur.addrs
  next : led.next = g
  lt : m.cur.gen < g
  fd1 : led.prev.fd1 = m.fds 1
  fd2 : led.prev.fd2 = m.fds 2
  p1 : led.prev.p1 = answerOf m 1
  p2 : led.prev.p2 = answerOf m 2
  sk1 : NamedIn seen m 1 led.prev.sk1
  sk2 : NamedIn seen m 2 led.prev.sk2
  seenLt : ∀ x ∈ seen, x < m.nextSock
  /-- the sockets of the two observed addresses have identities below the next fresh one -/
  sockLt : ∀ a, a = 1 ∨ a = 2 → m.sock a < m.nextSock

theorem sockLt_run {m : M} (acts : List Act) (a : Nat) (h : m.sock a < m.nextSock) :
    (run m acts).sock a < (run m acts).nextSock := by
  have hr := sockRel_run acts m
  rcases hr.fresh a with e | ⟨_, e⟩
  · rw [e]; exact Nat.lt_of_lt_of_le h hr.next
  · exact e

theorem keepsAct_reload {a g : Nat} {m : M} {c : Cfg} (ha : a ∈ c.addrs) :
    ∀ act ∈ reloadHead g m c ++ [Act.finish], keepsAct a act := by
  intro act h
  simp only [reloadHead, List.mem_append, List.mem_cons, List.mem_replicate, List.mem_singleton, List.not_mem_nil, or_false] at h
  rcases h with ((((rfl | rfl) | ⟨_, rfl⟩) | (rfl | rfl)) | ⟨_, rfl⟩) | rfl <;> simp [keepsAct, ha]

theorem b2n_contains_fd {m : M} (hg : Good m) (a : Nat) : m.fds a = if m.cur.addrs.contains a then 1 else 0 := by
  rw [good_fds hg a, hg.holds a]; cases m.cur.addrs.contains a <;> rfl

/-- the law of one address after a successful reload -/
theorem addrLaw_ok {busy : List Nat} {m m1 : M} {seen seen1 : List Nat} {g : Nat} {led : HLedger} {c : Cfg} {a prevSk : Nat}
    (hg1 : Good m1) (hgen : m1.cur.gen = g) (haddrs : m1.cur.addrs = c.addrs) (hladdrs : led.addrs = m.cur.addrs)
    (hgm : Good m) (hprev : NamedIn seen1 m a prevSk)
    (hsock : a ∈ c.addrs → m.cur.holds a = true → m1.sock a = m.sock a) :
    addrLaw led c g a (m1.fds a) (rename seen1 m1 a).2 prevSk (answerOf m1 a) = none := by
  have hfd := b2n_contains_fd hg1 a
  rw [haddrs] at hfd
  unfold addrLaw
  cases hc : c.addrs.contains a
  · -- the address is not served any more
    have hh : m1.cur.holds a = false := by rw [hg1.holds a, haddrs, hc]
    have hf0 : m1.fds a = 0 := by rw [hfd, hc]; rfl
    simp [answerOf, hh, hf0, rename]
  · have hh : m1.cur.holds a = true := by rw [hg1.holds a, haddrs, hc]
    have hf1 : m1.fds a = 1 := by rw [hfd, hc]; rfl
    have hne : (rename seen1 m1 a).2 ≠ 0 := named_ne_zero (rename_named seen1 m1 a).1 (by rw [hf1]; decide)
    simp only [answerOf, hh, if_true, hgen, bne_self_eq_false, Bool.false_eq_true, if_false, hf1]
    cases hl : led.addrs.contains a
    · simp [hne]
    · -- kept: the same socket
      have hmh : m.cur.holds a = true := by rw [hgm.holds a, ← hladdrs, hl]
      have hmf : m.fds a = 1 := by rw [good_fds hgm a, hmh]; rfl
      have hnamed : NamedIn seen1 m1 a prevSk :=
        named_congr (by rw [hf1, hmf]) (hsock (by simpa using hc) hmh) hprev
      rw [named_rename hnamed]
      have : prevSk ≠ 0 := named_ne_zero hprev (by rw [hmf]; decide)
      simp [this]

open Casket.ReloadSpec

/-- what the judge requires of the answer to the request in flight and to the fresh connection made during the reload -/
def inflightOK (led : HLedger) (op : HOp) (isValid : Bool) (g : Nat) (mid str : Option String) : Prop :=
  match op with
  | .reload _ => mid = none ∧ str = none
  | .straddle c => str = some (if led.addrs.contains 1 then toString led.gen else "-") ∧
      mid = some (if isValid then (if c.addrs.contains 1 then toString g else "-") else led.prev.p1)
  | .longflight _ => str = some (if led.addrs.contains 1 then toString led.gen else "-") ∧ mid = none

/-- the observation after an operation whose configuration is NOT valid for the environment, made in a settled state
that kept the current instance: it satisfies the judge, and the ledger stays in step -/
theorem judge_invalid {busy : List Nat} {m m1 : M} {seen : List Nat} {g : Nat} {led : HLedger}
    (h : HRel busy m seen g led) (op : HOp) (hv : valid busy op.cfg = false)
    (g1 : Good m1) (hcur : m1.cur = m.cur) (hbusy : m1.busy = m.busy)
    (hsock : ∀ a, m.cur.holds a = true → m1.sock a = m.sock a)
    (hsl : ∀ a, a = 1 ∨ a = 2 → m1.sock a < m1.nextSock) (hnext : m.nextSock ≤ m1.nextSock)
    (mid str : Option String) (hin : inflightOK led op false g mid str) :
    stepLaw busy led op (observe seen m1 "err" mid str).2.2 = none ∧
    HRel busy (observe seen m1 "err" mid str).1 (observe seen m1 "err" mid str).2.1 (g + 1)
      (advance busy led op (observe seen m1 "err" mid str).2.2) := by
  have hg := h.good
  have hfd : ∀ a, m1.fds a = m.fds a := by intro a; rw [good_fds g1 a, good_fds hg a, hcur]
  obtain ⟨o1, o2, o3, o4⟩ := observe_good seen "err" mid str g1
  have hn1 : NamedIn seen m1 1 led.prev.sk1 :=
    named_congr' (hfd 1) (fun hne => hsock 1 (by
      have := good_fds hg 1; cases hc : m.cur.holds 1
      · rw [hc] at this; exact absurd this hne
      · rfl)) h.sk1
  have hn2 : NamedIn seen m1 2 led.prev.sk2 :=
    named_congr' (hfd 2) (fun hne => hsock 2 (by
      have := good_fds hg 2; cases hc : m.cur.holds 2
      · rw [hc] at this; exact absurd this hne
      · rfl)) h.sk2
  have e1 := named_rename hn1
  have e2 := named_rename hn2
  have ha1 : answerOf m1 1 = answerOf m 1 := by simp [answerOf, hcur]
  have ha2 : answerOf m1 2 = answerOf m 2 := by simp [answerOf, hcur]
  have hobs : (observe seen m1 "err" mid str).2.2 =
      { res := "err", fd1 := m.fds 1, fd2 := m.fds 2, sk1 := led.prev.sk1, sk2 := led.prev.sk2,
        p1 := answerOf m 1, p2 := answerOf m 2, ni := 1, mid := mid, str := str } := by
    simp only [o1, hfd, e1, e2, ha1, ha2]
  have hseen : (observe seen m1 "err" mid str).2.1 = seen := by
    simp only [o2, e1, e2]
  rw [hobs, hseen]
  constructor
  · cases op with
    | reload c =>
      obtain ⟨rfl, rfl⟩ := hin
      simp only [HOp.cfg] at hv
      simp [stepLaw, HOp.cfg, hv, h.fd1, h.fd2, h.p1, h.p2]
    | straddle c =>
      obtain ⟨rfl, rfl⟩ := hin
      simp only [HOp.cfg] at hv
      simp [stepLaw, HOp.cfg, hv, h.fd1, h.fd2, h.p1, h.p2]
    | longflight c =>
      obtain ⟨rfl, rfl⟩ := hin
      simp only [HOp.cfg] at hv
      simp [stepLaw, HOp.cfg, hv, h.fd1, h.fd2, h.p1, h.p2]
  · have hadv : advance busy led op { res := "err", fd1 := m.fds 1, fd2 := m.fds 2, sk1 := led.prev.sk1, sk2 := led.prev.sk2, p1 := answerOf m 1, p2 := answerOf m 2, ni := 1, mid := mid, str := str }
        = { led with prev := { res := "err", fd1 := m.fds 1, fd2 := m.fds 2, sk1 := led.prev.sk1, sk2 := led.prev.sk2, p1 := answerOf m 1, p2 := answerOf m 2, ni := 1, mid := mid, str := str }, next := led.next + 1 } := by
      simp [advance, hv]
    rw [hadv]
    refine ⟨o3, by rw [o4.busy, hbusy]; exact h.busyEq, by rw [o4.cur, hcur]; exact h.gen,
      by rw [o4.cur, hcur]; exact h.addrs, by simp [h.next], by rw [o4.cur, hcur]; have := h.lt; omega,
      by rw [o4.fds]; exact (hfd 1).symm, by rw [o4.fds]; exact (hfd 2).symm,
      by simp [answerOf, o4.cur, hcur], by simp [answerOf, o4.cur, hcur],
      named_congr (by rw [o4.fds]) (by rw [o4.sock]) hn1, named_congr (by rw [o4.fds]) (by rw [o4.sock]) hn2,
      fun x hx => by rw [o4.nextSock]; exact Nat.lt_of_lt_of_le (h.seenLt x hx) hnext,
      fun a ha => by rw [o4.sock, o4.nextSock]; exact hsl a ha⟩

/-- the observation after an operation whose configuration is valid for the environment, made in the settled state of the
new generation -/
theorem judge_valid {busy : List Nat} {m m1 : M} {seen : List Nat} {g : Nat} {led : HLedger}
    (h : HRel busy m seen g led) (op : HOp) (hv : valid busy op.cfg = true)
    (g1 : Good m1) (hgen : m1.cur.gen = g) (haddrs : m1.cur.addrs = op.cfg.addrs) (hbusy : m1.busy = m.busy)
    (hks : ∀ a, a ∈ op.cfg.addrs → m.cur.holds a = true → m1.sock a = m.sock a)
    (hsl : ∀ a, a = 1 ∨ a = 2 → m1.sock a < m1.nextSock) (hnext : m.nextSock ≤ m1.nextSock)
    (mid str : Option String) (hin : inflightOK led op true g mid str) :
    stepLaw busy led op (observe seen m1 "ok" mid str).2.2 = none ∧
    HRel busy (observe seen m1 "ok" mid str).1 (observe seen m1 "ok" mid str).2.1 (g + 1)
      (advance busy led op (observe seen m1 "ok" mid str).2.2) := by
  have hg := h.good
  obtain ⟨o1, o2, o3, o4⟩ := observe_good seen "ok" mid str g1
  obtain ⟨n1, l1, hl1, hl1m⟩ := rename_named seen m1 1
  obtain ⟨n2, l2, hl2, hl2m⟩ := rename_named (rename seen m1 1).1 m1 2
  have law1 := addrLaw_ok (busy := busy) (seen := seen) (seen1 := seen) (led := led) (a := 1) (prevSk := led.prev.sk1)
    g1 hgen haddrs h.addrs hg h.sk1 (hks 1)
  have law2 := addrLaw_ok (busy := busy) (seen := seen) (seen1 := (rename seen m1 1).1) (led := led) (a := 2)
    (prevSk := led.prev.sk2) g1 hgen haddrs h.addrs hg (by rw [hl1]; exact named_ext l1 h.sk2) (hks 2)
  rw [o1, o2]
  constructor
  · cases op with
    | reload c =>
      obtain ⟨rfl, rfl⟩ := hin
      simp only [HOp.cfg] at hv law1 law2
      simp only [stepLaw, HOp.cfg, hv, h.next, law1, law2]
      simp
    | straddle c =>
      obtain ⟨rfl, rfl⟩ := hin
      simp only [HOp.cfg] at hv law1 law2
      simp only [stepLaw, HOp.cfg, hv, h.next, law1, law2, h.gen, h.addrs]
      simp
    | longflight c =>
      obtain ⟨rfl, rfl⟩ := hin
      simp only [HOp.cfg] at hv law1 law2
      simp only [stepLaw, HOp.cfg, hv, h.next, law1, law2, h.gen, h.addrs]
      simp
  · have hadv : advance busy led op { res := "ok", fd1 := m1.fds 1, fd2 := m1.fds 2, sk1 := (rename seen m1 1).2, sk2 := (rename (rename seen m1 1).1 m1 2).2, p1 := answerOf m1 1, p2 := answerOf m1 2, ni := 1, mid := mid, str := str }
        = { gen := led.next, addrs := op.cfg.addrs, prev := { res := "ok", fd1 := m1.fds 1, fd2 := m1.fds 2, sk1 := (rename seen m1 1).2, sk2 := (rename (rename seen m1 1).1 m1 2).2, p1 := answerOf m1 1, p2 := answerOf m1 2, ni := 1, mid := mid, str := str }, next := led.next + 1 } := by
      simp [advance, hv]
    rw [hadv]
    have n1' : NamedIn (rename (rename seen m1 1).1 m1 2).1 m1 1 (rename seen m1 1).2 := by
      rw [hl2]; exact named_ext l2 n1
    refine ⟨o3, by rw [o4.busy, hbusy]; exact h.busyEq, by rw [o4.cur, hgen]; exact h.next,
      by rw [o4.cur, haddrs], by simp [h.next], by rw [o4.cur, hgen]; omega,
      by rw [o4.fds], by rw [o4.fds],
      by simp [answerOf, o4.cur], by simp [answerOf, o4.cur],
      named_congr (m := m1) (by rw [o4.fds]) (by rw [o4.sock]) n1',
      named_congr (m := m1) (by rw [o4.fds]) (by rw [o4.sock]) n2, ?_,
      fun a ha => by rw [o4.sock, o4.nextSock]; exact hsl a ha⟩
    intro x hx
    rw [o4.nextSock]
    rw [hl2, hl1] at hx
    rcases List.mem_append.mp hx with hx | hx
    · rcases List.mem_append.mp hx with hx | hx
      · exact Nat.lt_of_lt_of_le (h.seenLt x hx) hnext
      · rw [hl1m x hx]; exact hsl 1 (Or.inl rfl)
    · rw [hl2m x hx]; exact hsl 2 (Or.inr rfl)

/-- one plain reload of the hand-over stream: the observation satisfies the judge and the ledger stays in step -/
theorem reload_op_ok {busy : List Nat} {m : M} {seen : List Nat} {g : Nat} {led : HLedger} (h : HRel busy m seen g led)
    (c : Cfg) :
    stepLaw busy led (.reload c) (runOp g seen m (.reload c)).2.2 = none ∧
    HRel busy (runOp g seen m (.reload c)).1 (runOp g seen m (.reload c)).2.1 (g + 1)
      (advance busy led (.reload c) (runOp g seen m (.reload c)).2.2) := by
  have hg := h.good
  generalize hm1 : run m (reloadHead g m c ++ [.finish]) = m1
  have hsl : ∀ a, a = 1 ∨ a = 2 → m1.sock a < m1.nextSock := by
    intro a ha; rw [← hm1]; exact sockLt_run _ a (h.sockLt a ha)
  have hsr : SockRel m m1 := by rw [← hm1]; exact sockRel_run _ m
  cases hv : valid busy c
  · obtain ⟨g1, hcur, hbusy, _, _, hsock⟩ := reload_invalid (g := g) hg h.lt (by rw [h.busyEq]; exact hv)
    rw [hm1] at g1 hcur hbusy hsock
    have hres : resOf m1 g = "err" := by
      have : ¬ m1.cur.gen = g := by rw [hcur]; have := h.lt; omega
      simp [resOf, this]
    have := judge_invalid h (.reload c) hv g1 hcur hbusy hsock hsl hsr.next none none ⟨rfl, rfl⟩
    simpa only [runOp, hm1, hres] using this
  · obtain ⟨g1, hgen, haddrs, hbusy, _, _⟩ := reload_valid (g := g) hg h.lt (by rw [h.busyEq]; exact hv)
    have hks : ∀ a, a ∈ c.addrs → m.cur.holds a = true → m1.sock a = m.sock a := by
      intro a hac hah
      rw [← hm1]
      exact keeps_sock_run _ hg.inv (by simp [Keeps, hg.idle, hah]) (keepsAct_reload hac)
    rw [hm1] at g1 hgen haddrs hbusy
    have hres : resOf m1 g = "ok" := by simp [resOf, hgen]
    have := judge_valid h (.reload c) hv g1 hgen haddrs hbusy hks hsl hsr.next none none ⟨rfl, rfl⟩
    simpa only [runOp, hm1, hres] using this


/-- the observation of a freshly started process and the ledger the judge starts from -/
theorem start_ok {busy : List Nat} {c0 : Cfg} (hfree : ∀ a ∈ c0.addrs, busy.contains a = false) :
    startLaw c0 (observe [] (M.init busy c0.addrs) "ok" none none).2.2 = none ∧
    HRel busy (observe [] (M.init busy c0.addrs) "ok" none none).1 (observe [] (M.init busy c0.addrs) "ok" none none).2.1 2
      { gen := 1, addrs := c0.addrs, prev := (observe [] (M.init busy c0.addrs) "ok" none none).2.2, next := 2 } := by
  generalize hm1 : M.init busy c0.addrs = m1
  have g1 : Good m1 := by rw [← hm1]; exact good_init busy c0.addrs hfree
  have hgen : m1.cur.gen = 1 := by rw [← hm1]; rfl
  have haddrs : m1.cur.addrs = c0.addrs := by rw [← hm1]; rfl
  have hbusy : m1.busy = busy := by rw [← hm1]; rfl
  have hsl : ∀ a, a = 1 ∨ a = 2 → m1.sock a < m1.nextSock := by
    rw [← hm1]; intro a ha
    rcases ha with rfl | rfl <;> simp [M.init]
  obtain ⟨o1, o2, o3, o4⟩ := observe_good [] "ok" none none g1
  obtain ⟨n1, l1, hl1, hl1m⟩ := rename_named [] m1 1
  obtain ⟨n2, l2, hl2, hl2m⟩ := rename_named (rename [] m1 1).1 m1 2
  -- the start law is the address law against an empty previous state
  have g0 : Good (M.init busy []) := good_init busy [] (fun a ha => by simp at ha)
  have named0 : ∀ (s : List Nat) (a : Nat), NamedIn s (M.init busy []) a 0 := fun s a => Or.inl ⟨by simp [M.init], rfl⟩
  have law1 := addrLaw_ok (busy := busy) (seen := []) (seen1 := []) (a := 1) (prevSk := 0)
    (led := { gen := 0, addrs := [], prev := (observe [] m1 "ok" none none).2.2, next := 1 })
    g1 hgen haddrs rfl g0 (named0 _ 1) (fun _ hh => by simp [M.init] at hh)
  have law2 := addrLaw_ok (busy := busy) (seen := []) (seen1 := (rename [] m1 1).1) (a := 2) (prevSk := 0)
    (led := { gen := 0, addrs := [], prev := (observe [] m1 "ok" none none).2.2, next := 1 })
    g1 hgen haddrs rfl g0 (named0 _ 2) (fun _ hh => by simp [M.init] at hh)
  constructor
  · simp only [startLaw, o1]
    simp only [o1] at law1 law2
    simp [law1, law2]
  · have n1' : NamedIn (rename (rename [] m1 1).1 m1 2).1 m1 1 (rename [] m1 1).2 := by
      rw [hl2]; exact named_ext l2 n1
    rw [o1, o2]
    refine ⟨o3, by rw [o4.busy, hbusy], by rw [o4.cur, hgen], by rw [o4.cur, haddrs], rfl, by rw [o4.cur, hgen]; omega,
      by rw [o4.fds], by rw [o4.fds], by simp [answerOf, o4.cur], by simp [answerOf, o4.cur],
      named_congr (m := m1) (by rw [o4.fds]) (by rw [o4.sock]) n1',
      named_congr (m := m1) (by rw [o4.fds]) (by rw [o4.sock]) n2, ?_,
      fun a ha => by rw [o4.sock, o4.nextSock]; exact hsl a ha⟩
    intro x hx
    rw [o4.nextSock]
    rw [hl2, hl1] at hx
    rcases List.mem_append.mp hx with hx | hx
    · rcases List.mem_append.mp hx with hx | hx
      · simp at hx
      · rw [hl1m x hx]; exact hsl 1 (Or.inl rfl)
    · rw [hl2m x hx]; exact hsl 2 (Or.inr rfl)

open Casket.ReloadSpec

theorem reloadHead_split_pre (g : Nat) (m : M) (c : Cfg) :
    run m (reloadHead g m c) =
      run (run (step (run (run m [.begin g c, .setup]) (List.replicate c.addrs.length .listen)) .listen)
        [.serve, .stopOld]) (List.replicate m.cur.addrs.length .stop) := by
  simp only [reloadHead, run_append, List.replicate_succ', run]

/-- the state just before a valid reload returns: the old instance holds nothing any more, the new one serves -/
structure PreFinish (m md : M) (g : Nat) (c : Cfg) : Prop where
  inv : Inv md
  phase : md.phase = .stopping []
  newGen : md.new.gen = g
  newAddrs : md.new.addrs = c.addrs
  newHolds : ∀ a, md.new.holds a = c.addrs.contains a
  newAccepts : ∀ a, md.new.accepts a = md.new.holds a
  curHolds : ∀ a, md.cur.holds a = false
  queue : ∀ a, md.queue a = []
  busy : md.busy = m.busy
  conns : md.conns = m.conns
  nextConn : md.nextConn = m.nextConn

theorem reload_valid_pre {m : M} {g : Nat} {c : Cfg} (hg : Good m) (hgen : m.cur.gen < g) (hv : valid m.busy c = true) :
    PreFinish m (run m (reloadHead g m c)) g c := by
  simp only [valid, Bool.and_eq_true, Bool.not_eq_true', List.all_eq_true] at hv
  obtain ⟨hf, hfree⟩ := hv
  rw [reloadHead_split_pre]
  -- begin, setup
  have ea := begin_setup_ok (c := c) hg.idle hgen hf
  have hinva : Inv (run m [.begin g c, .setup]) := inv_run _ hg.inv
  rw [ea] at hinva ⊢
  generalize hma : ({ m with phase := Phase.listening c.addrs, new := { gen := g, addrs := c.addrs, holds := fun _ => false, accepts := fun _ => false } } : M) = ma at hinva ⊢
  have ha_phase : ma.phase = .listening c.addrs := by rw [← hma]
  have ha_cur : ma.cur = m.cur := by rw [← hma]
  have ha_busy : ma.busy = m.busy := by rw [← hma]
  have ha_conns : ma.conns = m.conns := by rw [← hma]
  have ha_next : ma.nextConn = m.nextConn := by rw [← hma]
  have ha_queue : ∀ a, ma.queue a = [] := by rw [← hma]; exact hg.queue
  have ha_newh : ∀ a, ma.new.holds a = false := by rw [← hma]; intro _; rfl
  have ha_newg : ma.new.gen = g := by rw [← hma]
  have ha_newa : ma.new.addrs = c.addrs := by rw [← hma]
  -- the listen loop
  obtain ⟨l1, l2, l3, _, _, l6, l7, l8, l9⟩ := listen_ok_loop c.addrs ma hinva ha_phase ha_queue
    (fun a ha => Or.inl (by rw [ha_busy]; simpa using hfree a ha))
  generalize hmb0 : run ma (List.replicate c.addrs.length .listen) = mb0 at l1 l2 l3 l6 l7 l8 l9 ⊢
  have eb : step mb0 .listen = { mb0 with phase := .listened } := by simp [step, l1]
  rw [eb]
  -- serve, stopOld
  have ec : run ({ mb0 with phase := Phase.listened } : M) [.serve, .stopOld] =
      { mb0 with new := { mb0.new with accepts := mb0.new.holds }, phase := .stopping mb0.cur.addrs, served := mb0.served ++ [mb0.new.gen] } := by
    simp [run, step]
  rw [ec]
  generalize hmc : ({ mb0 with new := { mb0.new with accepts := mb0.new.holds }, phase := Phase.stopping mb0.cur.addrs, served := mb0.served ++ [mb0.new.gen] } : M) = mc
  have hc_phase : mc.phase = .stopping m.cur.addrs := by rw [← hmc, l3, ha_cur]
  have hc_inv : Inv mc := by
    have : mc = run m ([.begin g c, .setup] ++ List.replicate c.addrs.length .listen ++ [.listen] ++ [.serve, .stopOld]) := by
      simp only [run_append, ea, hma, hmb0]
      rw [show run mb0 [Act.listen] = step mb0 .listen from rfl, eb, ec, hmc]
    rw [this]; exact inv_run _ hg.inv
  have hc_queue : ∀ a, mc.queue a = [] := by rw [← hmc]; exact l2.queue
  obtain ⟨s1, s2, s3, _, _⟩ := stop_loop m.cur.addrs mc hc_inv hc_phase hc_queue
  generalize hmd : run mc (List.replicate m.cur.addrs.length .stop) = md at s1 s2 s3 ⊢
  have hd_inv : Inv md := by rw [← hmd]; exact inv_run _ hc_inv
  have hnew : md.new = { mb0.new with accepts := mb0.new.holds } := by rw [s3, ← hmc]
  have hholds : ∀ a, md.new.holds a = c.addrs.contains a := by
    intro a; rw [hnew]; show mb0.new.holds a = _; rw [l9 a, ha_newh a]; simp
  refine ⟨hd_inv, s1, ?_, ?_, hholds, ?_, ?_, s2.queue, ?_, ?_, ?_⟩
  · rw [hnew]; show mb0.new.gen = g; rw [l6, ha_newg]
  · rw [hnew]; show mb0.new.addrs = c.addrs; rw [l7, ha_newa]
  · intro a; rw [hnew]
  · intro a
    cases hc : md.cur.holds a
    · rfl
    · have := hd_inv.stopTodo [] s1 a hc; simp at this
  · rw [s2.busy, ← hmc]; show mb0.busy = m.busy; rw [l2.busy, ha_busy]
  · rw [s2.conns, ← hmc]; show mb0.conns = m.conns; rw [l2.conns, ha_conns]
  · rw [s2.nextConn, ← hmc]; show mb0.nextConn = m.nextConn; rw [l2.nextConn, ha_next]

open Casket.ReloadSpec

theorem reload_invalid_pre {m : M} {g : Nat} {c : Cfg} (hg : Good m) (hgen : m.cur.gen < g) (hv : valid m.busy c = false) :
    Good (run m (reloadHead g m c)) ∧
    (run m (reloadHead g m c)).cur = m.cur ∧
    (run m (reloadHead g m c)).busy = m.busy ∧
    (run m (reloadHead g m c)).conns = m.conns ∧
    (run m (reloadHead g m c)).nextConn = m.nextConn ∧
    (∀ a, m.cur.holds a = true → (run m (reloadHead g m c)).sock a = m.sock a) := by
  have hinvAll : Inv (run m (reloadHead g m c)) := inv_run _ hg.inv
  have hsplit : run m (reloadHead g m c) =
      run (run (run m [.begin g c, .setup]) (List.replicate (c.addrs.length + 1) .listen))
        ([.serve, .stopOld] ++ List.replicate m.cur.addrs.length .stop) := by
    simp only [reloadHead, run_append, List.append_assoc]
  have htail : ∀ a ∈ [Act.serve, Act.stopOld] ++ List.replicate m.cur.addrs.length Act.stop, internal a = true := by
    intro a ha
    simp only [List.mem_append, List.mem_replicate, List.mem_cons, List.mem_singleton, List.not_mem_nil, or_false] at ha
    rcases ha with (rfl | rfl) | ⟨_, rfl⟩ <;> rfl
  have hlis : ∀ a ∈ List.replicate (c.addrs.length + 1) Act.listen, internal a = true := by
    intro a ha; simp only [List.mem_replicate] at ha; rw [ha.2]; rfl
  -- in both cases the run ends idle with the current instance untouched
  have key : ∃ mf, run m (reloadHead g m c) = mf ∧ mf.phase = .idle ∧ mf.cur = m.cur ∧ mf.busy = m.busy ∧
      mf.conns = m.conns ∧ mf.nextConn = m.nextConn ∧ (∀ a, mf.queue a = []) ∧
      (∀ a, m.cur.holds a = true → mf.sock a = m.sock a) := by
    rw [hsplit]
    cases hfs : c.failSetup
    · -- some address is in use
      have hbad : ∃ a ∈ c.addrs, m.busy.contains a = true ∧ m.cur.holds a = false := by
        simp only [valid, hfs, Bool.not_false, Bool.true_and] at hv
        rw [List.all_eq_false] at hv
        obtain ⟨a, ha, hb⟩ := hv
        have hb' : m.busy.contains a = true := by simpa using hb
        refine ⟨a, ha, hb', ?_⟩
        cases hc : m.cur.holds a
        · rfl
        · have := hg.notBusy a hc; rw [hb'] at this; exact Bool.noConfusion this
      have ea := begin_setup_ok (c := c) hg.idle hgen hfs
      have hinva : Inv (run m [.begin g c, .setup]) := inv_run _ hg.inv
      rw [ea] at hinva ⊢
      generalize hma : ({ m with phase := Phase.listening c.addrs, new := { gen := g, addrs := c.addrs, holds := fun _ => false, accepts := fun _ => false } } : M) = ma at hinva ⊢
      have ha_phase : ma.phase = .listening c.addrs := by rw [← hma]
      have ha_cur : ma.cur = m.cur := by rw [← hma]
      have ha_busy : ma.busy = m.busy := by rw [← hma]
      have ha_conns : ma.conns = m.conns := by rw [← hma]
      have ha_next : ma.nextConn = m.nextConn := by rw [← hma]
      have ha_sock : ma.sock = m.sock := by rw [← hma]
      have ha_queue : ∀ a, ma.queue a = [] := by rw [← hma]; exact hg.queue
      obtain ⟨f1, f2, f3, _⟩ := listen_fail_loop c.addrs ma (c.addrs.length + 1) hinva ha_phase ha_queue
        (fun a ha => by rw [← hma] at ha; exact Bool.noConfusion ha)
        (by rw [ha_busy, ha_cur]; exact hbad) (Nat.le_succ _)
      have hs := fun a (h : m.cur.holds a = true) => listen_run_sock (c.addrs.length + 1) ma a (by rw [ha_cur]; exact h)
      rw [run_idle_noop f1 _ htail]
      exact ⟨_, rfl, f1, f3.trans ha_cur, f2.busy.trans ha_busy, f2.conns.trans ha_conns, f2.nextConn.trans ha_next,
        f2.queue, fun a h => by rw [hs a h, ha_sock]⟩
    · rw [begin_setup_fail (c := c) hg.idle hgen hfs]
      rw [run_idle_noop (m := { m with phase := Phase.idle, events := m.events ++ [Ev.reloadFailed] }) rfl _ hlis]
      rw [run_idle_noop (m := { m with phase := Phase.idle, events := m.events ++ [Ev.reloadFailed] }) rfl _ htail]
      exact ⟨_, rfl, rfl, rfl, rfl, rfl, rfl, hg.queue, fun _ _ => rfl⟩
  obtain ⟨mf, e, h1, h2, h3, h4, h5, h6, h7⟩ := key
  rw [e] at hinvAll ⊢
  refine ⟨⟨hinvAll, h1, ?_, ?_, h6, ?_, ?_⟩, h2, h3, h4, h5, h7⟩
  · intro a; rw [h2]; exact hg.holds a
  · intro a; rw [h2]; exact hg.accepts a
  · intro a ha; rw [h2] at ha; rw [h3]; exact hg.notBusy a ha
  · intro x hx; rw [h4] at hx; rw [h5]; exact hg.connIds x hx

open Casket.ReloadSpec

/-! ### the request in flight -/

/-- the first half of a request in flight: the connection is made and the current instance accepts it -/
theorem straddle_begin_held {m : M} (hg : Good m) (h1 : m.cur.holds 1 = true) :
    run m [.connect 1, .accept m.cur.gen 1] =
      { m with queue := upd (upd m.queue 1 [m.nextConn]) 1 [], nextConn := m.nextConn + 1, conns := m.conns ++ [{ id := m.nextConn, addr := 1, minGen := m.cur.gen, owner := some m.cur.gen, answered := none }] } := by
  have hf : m.fds 1 = 1 := by rw [good_fds hg 1, h1]; rfl
  have hacc : m.cur.accepts 1 = true := by rw [hg.accepts 1, h1]
  have hq := hg.queue 1
  simp only [run, step, hf, hq, List.nil_append, upd_app, if_true, hacc, Bool.and_true, decide_true, Bool.true_or,
    gt_iff_lt, Nat.zero_lt_one]
  have h1' := setOwner_lt (g := m.cur.gen) hg.connIds
  simp only [setOwner, List.map_append, List.map_cons, List.map_nil, if_true] at h1' ⊢
  rw [h1']

theorem straddle_begin_free {m : M} (hg : Good m) (h1 : m.cur.holds 1 = false) :
    run m [.connect 1, .accept m.cur.gen 1] = { m with events := m.events ++ [Ev.refused 1] } := by
  have hf : m.fds 1 = 0 := by rw [good_fds hg 1, h1]; rfl
  have hq := hg.queue 1
  simp only [run, step, hf, hq, Nat.lt_irrefl, gt_iff_lt, if_false]

theorem good_frame {m m' : M} (hg : Good m) (hinv : Inv m') (hphase : m'.phase = m.phase) (hcur : m'.cur = m.cur)
    (hbusy : m'.busy = m.busy) (hq : ∀ a, m'.queue a = []) (hids : ∀ c ∈ m'.conns, c.id < m'.nextConn) : Good m' :=
  ⟨hinv, by rw [hphase]; exact hg.idle, by rw [hcur]; exact hg.holds, by rw [hcur]; exact hg.accepts, hq,
   by rw [hcur, hbusy]; exact hg.notBusy, hids⟩

theorem mem_setAnswered_id {cs : List Conn} {id : Nat} {c : Conn} (h : c ∈ setAnswered cs id) : ∃ c0 ∈ cs, c.id = c0.id := by
  simp only [setAnswered, List.mem_map] at h
  obtain ⟨c0, hc0, e⟩ := h
  refine ⟨c0, hc0, ?_⟩
  split at e <;> subst e <;> rfl

/-- answering a connection keeps a settled state settled -/
theorem good_respond {m : M} (hg : Good m) (id : Nat) : Good (step m (.respond id)) ∧ ProbeFrame m (step m (.respond id)) := by
  refine ⟨good_frame hg (inv_step hg.inv _) rfl rfl rfl hg.queue ?_, ⟨rfl, rfl, rfl, rfl, rfl⟩⟩
  intro c hc
  obtain ⟨c0, hc0, e⟩ := mem_setAnswered_id (by simpa [step] using hc)
  show c.id < m.nextConn
  rw [e]; exact hg.connIds c0 hc0

/-- the connection in flight, at position `C.length` of the list, is answered by its owner -/
theorem straddler_answer (C P : List Conn) (s : Conn) (sid k : Nat) (hs : s.id = sid)
    (hown : s.owner = some k) :
    ((setAnswered (C ++ s :: P) sid)[C.length]?).map (·.answered) = some (some k) := by
  simp only [setAnswered, List.map_append, List.map_cons]
  rw [List.getElem?_append_right (by simp)]
  simp [hs, hown]

/-- explicit state after a probe of an address the settled current instance serves -/
theorem probe_held_state {m : M} {a : Nat} (hg : Good m) (ha : m.cur.holds a = true) :
    (probe m a).1 = { m with queue := upd (upd m.queue a [m.nextConn]) a [], nextConn := m.nextConn + 1, conns := m.conns ++ [{ id := m.nextConn, addr := a, minGen := m.cur.gen, owner := some m.cur.gen, answered := some m.cur.gen }] } := by
  have hna : m.new.accepts a = false := (hg.inv.inactive (by simp [hg.idle, active])).2 a
  have hf : m.fds a = 1 := by rw [good_fds hg a, ha]; rfl
  have hacc : m.cur.accepts a = true := by rw [hg.accepts a, ha]
  have hq := hg.queue a
  simp only [probe, hna, Bool.false_eq_true, if_false, run, step, hf, hq, List.nil_append, upd_app, if_true,
    hacc, Bool.and_true, decide_true, Bool.true_or, Nat.lt_irrefl, gt_iff_lt, Nat.zero_lt_one]
  simp only [setOwner, setAnswered, List.map_append, List.map_map, List.map_cons, List.map_nil, if_true]
  have h1 := setOwner_lt (g := m.cur.gen) hg.connIds
  have h2 := setAnswered_lt hg.connIds
  simp only [setOwner] at h1
  simp only [setAnswered] at h2
  rw [← List.map_map, h1, h2]

theorem probe_free_state {m : M} {a : Nat} (hg : Good m) (ha : m.cur.holds a = false) :
    (probe m a).1 = { m with events := m.events ++ [Ev.refused a] } := by
  have hna : m.new.accepts a = false := (hg.inv.inactive (by simp [hg.idle, active])).2 a
  have hf : m.fds a = 0 := by rw [good_fds hg a, ha]; rfl
  have hq := hg.queue a
  simp only [probe, hna, Bool.false_eq_true, if_false, run, step, hf, hq, Nat.lt_irrefl, gt_iff_lt]
  rw [setAnswered_lt hg.connIds]

/-- after a probe the connections made before are still there, unchanged, at the same positions -/
theorem probe_conns_prefix {m : M} (a : Nat) (hg : Good m) : ∃ P, (probe m a).1.conns = m.conns ++ P ∧ ∀ p ∈ P, p.id = m.nextConn := by
  cases ha : m.cur.holds a
  · exact ⟨[], by rw [probe_free_state hg ha]; simp, by simp⟩
  · exact ⟨[_], by rw [probe_held_state hg ha], by simp⟩

open Casket.ReloadSpec

theorem connAnswer_of {m : M} {idx k : Nat} (h : (m.conns[idx]?).map (·.answered) = some (some k)) :
    connAnswer m idx = toString k := by
  unfold connAnswer
  cases hc : m.conns[idx]? with
  | none => simp [hc] at h
  | some c => simp [hc] at h; simp [h]

theorem led_contains_one {busy : List Nat} {m : M} {seen : List Nat} {g : Nat} {led : HLedger} (h : HRel busy m seen g led) :
    led.addrs.contains 1 = m.cur.holds 1 := by rw [h.addrs, h.good.holds 1]

/-- a reload with a request in flight whose configuration is not valid for the environment -/
theorem straddle_invalid {busy : List Nat} {m : M} {seen : List Nat} {g : Nat} {led : HLedger} (h : HRel busy m seen g led)
    (c : Cfg) (hv : valid busy c = false) :
    stepLaw busy led (.straddle c) (runOp g seen m (.straddle c)).2.2 = none ∧
    HRel busy (runOp g seen m (.straddle c)).1 (runOp g seen m (.straddle c)).2.1 (g + 1)
      (advance busy led (.straddle c) (runOp g seen m (.straddle c)).2.2) := by
  have hg := h.good
  have hlc := led_contains_one h
  -- whatever the first half of the request in flight did, the state m0 is settled and differs from m in connections only
  have key0 : ∃ m0, run m [.connect 1, .accept m.cur.gen 1] = m0 ∧ Good m0 ∧ m0.cur = m.cur ∧ m0.busy = m.busy ∧
      m0.sock = m.sock ∧ m0.nextSock = m.nextSock ∧
      ((m.cur.holds 1 = false ∧ m0.conns = m.conns ∧ m0.nextConn = m.nextConn) ∨
       (m.cur.holds 1 = true ∧ m0.nextConn = m.nextConn + 1 ∧
        m0.conns = m.conns ++ [{ id := m.nextConn, addr := 1, minGen := m.cur.gen, owner := some m.cur.gen, answered := none }])) := by
    cases h1 : m.cur.holds 1
    · refine ⟨_, straddle_begin_free hg h1, ?_, rfl, rfl, rfl, rfl, Or.inl ⟨rfl, rfl, rfl⟩⟩
      have hinv : Inv (run m [.connect 1, .accept m.cur.gen 1]) := inv_run _ hg.inv
      rw [straddle_begin_free hg h1] at hinv
      exact good_frame hg hinv rfl rfl rfl hg.queue hg.connIds
    · refine ⟨_, straddle_begin_held hg h1, ?_, rfl, rfl, rfl, rfl, Or.inr ⟨rfl, rfl, rfl⟩⟩
      have hinv : Inv (run m [.connect 1, .accept m.cur.gen 1]) := inv_run _ hg.inv
      rw [straddle_begin_held hg h1] at hinv
      refine good_frame hg hinv rfl rfl rfl (fun x => ?_) (fun x hx => ?_)
      · show upd (upd m.queue 1 [m.nextConn]) 1 [] x = []
        simp only [upd_app]; split <;> simp [hg.queue]
      · show x.id < m.nextConn + 1
        rcases List.mem_append.mp hx with hx | hx
        · have := hg.connIds x hx; omega
        · simp only [List.mem_singleton] at hx; subst hx; exact Nat.lt_succ_self _
  obtain ⟨m0, e0, g0, hcur0, hbusy0, hsock0, hns0, hconn⟩ := key0
  have hlt0 : m0.cur.gen < g := by rw [hcur0]; exact h.lt
  obtain ⟨gd, hcurd, hbusyd, hconnsd, hnextd, hsockd⟩ := reload_invalid_pre (g := g) (c := c) g0 hlt0
    (by rw [hbusy0, h.busyEq]; exact hv)
  generalize hmd : run m0 (reloadHead g m0 c) = md at gd hcurd hbusyd hconnsd hnextd hsockd
  have hsrd : SockRel m0 md := by rw [← hmd]; exact sockRel_run _ m0
  have hsld : ∀ a, a = 1 ∨ a = 2 → md.sock a < md.nextSock := by
    intro a ha; rw [← hmd]; exact sockLt_run _ a (by rw [hsock0, hns0]; exact h.sockLt a ha)
  obtain ⟨qa, qg, qf⟩ := probe_good 1 gd
  obtain ⟨P, hP, hPid⟩ := probe_conns_prefix 1 gd
  have hmid : (probe md 1).2 = answerOf m 1 := by rw [qa]; simp [answerOf, hcurd, hcur0]
  -- the rest: answer the request in flight (if any), `finish` is a no-op
  have hidle : ∀ x : M, Good x → step x .finish = x := fun x hx => step_idle_noop hx.idle rfl
  have common : ∀ (m3 : M) (str : String), Good m3 → ProbeFrame (probe md 1).1 m3 →
      str = (if led.addrs.contains 1 then toString led.gen else "-") →
      stepLaw busy led (.straddle c) (observe seen m3 "err" (some (answerOf m 1)) (some str)).2.2 = none ∧
      HRel busy (observe seen m3 "err" (some (answerOf m 1)) (some str)).1
        (observe seen m3 "err" (some (answerOf m 1)) (some str)).2.1 (g + 1)
        (advance busy led (.straddle c) (observe seen m3 "err" (some (answerOf m 1)) (some str)).2.2) := by
    intro m3 str g3 f3 hstr
    have fr := probeFrame_trans qf f3
    refine judge_invalid h (.straddle c) hv g3 (by rw [fr.cur, hcurd, hcur0]) (by rw [fr.busy, hbusyd, hbusy0])
      (fun a ha => by rw [fr.sock, hsockd a (by rw [hcur0]; exact ha), hsock0])
      (fun a ha => by rw [fr.sock, fr.nextSock]; exact hsld a ha)
      (by rw [fr.nextSock, ← hns0]; exact hsrd.next) _ _ ⟨by rw [hstr], by rw [h.p1]; simp⟩
  have hres : ∀ m3 : M, m3.cur = m.cur → resOf m3 g = "err" := by
    intro m3 hc
    have : ¬ m3.cur.gen = g := by rw [hc]; have := h.lt; omega
    simp [resOf, this]
  rcases hconn with ⟨h1, hc0, hn0⟩ | ⟨h1, hn0, hc0⟩
  · -- the connection was refused: nothing in flight
    have hnc : (m0.conns.length != m.conns.length) = false := by rw [hc0]; simp
    have hfin : step (probe md 1).1 .finish = (probe md 1).1 := hidle _ qg
    have := common (probe md 1).1 "-" qg ⟨rfl, rfl, rfl, rfl, rfl⟩ (by rw [hlc, h1]; rfl)
    have hr := hres (probe md 1).1 (by rw [qf.cur, hcurd, hcur0])
    simpa only [runOp, e0, hnc, hmd, Bool.false_eq_true, if_false, hfin, hr, hmid] using this
  · -- the current instance accepted it; it answers it after the failed reload
    have hnc : (m0.conns.length != m.conns.length) = true := by rw [hc0]; simp
    obtain ⟨rg, rf⟩ := good_respond qg m.nextConn
    have hfin : step (step (probe md 1).1 (.respond m.nextConn)) .finish = step (probe md 1).1 (.respond m.nextConn) :=
      hidle _ rg
    have hstr : connAnswer (step (probe md 1).1 (.respond m.nextConn)) m.conns.length = toString m.cur.gen := by
      apply connAnswer_of
      show ((setAnswered (probe md 1).1.conns m.nextConn)[m.conns.length]?).map (·.answered) = _
      rw [hP, hconnsd, hc0, List.append_assoc, List.singleton_append]
      exact straddler_answer m.conns P _ m.nextConn m.cur.gen rfl rfl
    have := common (step (probe md 1).1 (.respond m.nextConn)) (toString m.cur.gen) rg rf
      (by rw [hlc, h1, h.gen]; rfl)
    have hr := hres (step (probe md 1).1 (.respond m.nextConn)) (by rw [rf.cur, qf.cur, hcurd, hcur0])
    simpa only [runOp, e0, hnc, hmd, if_true, hfin, hr, hmid, hstr] using this

open Casket.ReloadSpec

/-- a fresh connection made just before a valid reload returns: the NEW instance answers it (or nobody listens any more) -/
theorem probe_pre_served {m0 md : M} {g : Nat} {c : Cfg} (h : PreFinish m0 md g c)
    (hids : ∀ x ∈ md.conns, x.id < md.nextConn) (h1 : c.addrs.contains 1 = true) :
    probe md 1 = ({ md with queue := upd (upd md.queue 1 [md.nextConn]) 1 [], nextConn := md.nextConn + 1, conns := md.conns ++ [{ id := md.nextConn, addr := 1, minGen := md.cur.gen, owner := some g, answered := some g }] }, toString g) := by
  have hnh : md.new.holds 1 = true := by rw [h.newHolds 1, h1]
  have hna : md.new.accepts 1 = true := by rw [h.newAccepts 1, hnh]
  have hf : md.fds 1 = 1 := by have := h.inv.acc 1; rw [h.curHolds 1, hnh] at this; simpa [b2n] using this
  have hq := h.queue 1
  have hgen := h.newGen
  have e : (probe md 1).1 = { md with queue := upd (upd md.queue 1 [md.nextConn]) 1 [], nextConn := md.nextConn + 1, conns := md.conns ++ [{ id := md.nextConn, addr := 1, minGen := md.cur.gen, owner := some g, answered := some g }] } := by
    simp only [probe, hna, if_true, run, step, hf, hq, List.nil_append, upd_app, hgen, Bool.and_true, decide_true,
      Bool.or_true, gt_iff_lt, Nat.zero_lt_one]
    simp only [setOwner, setAnswered, List.map_append, List.map_map, List.map_cons, List.map_nil, if_true]
    have h1' := setOwner_lt (g := g) hids
    have h2' := setAnswered_lt hids
    simp only [setOwner] at h1'
    simp only [setAnswered] at h2'
    rw [← List.map_map, h1', h2']
  refine Prod.ext e ?_
  show connAnswer (probe md 1).1 md.conns.length = toString g
  rw [e]
  simp [connAnswer]

theorem probe_pre_gone {m0 md : M} {g : Nat} {c : Cfg} (h : PreFinish m0 md g c)
    (hids : ∀ x ∈ md.conns, x.id < md.nextConn) (h1 : c.addrs.contains 1 = false) :
    probe md 1 = ({ md with events := md.events ++ [Ev.refused 1] }, "-") := by
  have hnh : md.new.holds 1 = false := by rw [h.newHolds 1, h1]
  have hna : md.new.accepts 1 = false := by rw [h.newAccepts 1, hnh]
  have hf : md.fds 1 = 0 := by have := h.inv.acc 1; rw [h.curHolds 1, hnh] at this; simpa [b2n] using this
  have hq := h.queue 1
  have e : (probe md 1).1 = { md with events := md.events ++ [Ev.refused 1] } := by
    simp only [probe, hna, Bool.false_eq_true, if_false, run, step, hf, hq, Nat.lt_irrefl, gt_iff_lt]
    rw [setAnswered_lt hids]
  refine Prod.ext e ?_
  show connAnswer (probe md 1).1 md.conns.length = "-"
  rw [e]
  simp [connAnswer]

open Casket.ReloadSpec

/-- `finish` from a state in which the new instance serves and the old one holds nothing gives a settled state -/
theorem finish_good {m2 : M} {g : Nat} {c : Cfg} {busy : List Nat} (hinv : Inv m2) (hp : m2.phase = .stopping [])
    (hgen : m2.new.gen = g) (haddrs : m2.new.addrs = c.addrs) (hholds : ∀ a, m2.new.holds a = c.addrs.contains a)
    (hacc : ∀ a, m2.new.accepts a = m2.new.holds a) (hq : ∀ a, m2.queue a = []) (hbusy : m2.busy = busy)
    (hids : ∀ x ∈ m2.conns, x.id < m2.nextConn) (hfree : ∀ a ∈ c.addrs, busy.contains a = false) :
    Good (step m2 .finish) ∧ (step m2 .finish).cur.gen = g ∧ (step m2 .finish).cur.addrs = c.addrs ∧
    (step m2 .finish).busy = busy ∧ (step m2 .finish).sock = m2.sock ∧ (step m2 .finish).nextSock = m2.nextSock := by
  have hinv' := inv_step hinv .finish
  have e : step m2 .finish = { m2 with cur := m2.new, new := Inst.none, phase := .idle, events := m2.events ++ [Ev.reloadOk m2.new.gen] } := by
    simp [step, hp]
  rw [e] at hinv' ⊢
  refine ⟨⟨hinv', rfl, ?_, hacc, hq, ?_, hids⟩, hgen, haddrs, hbusy, rfl, rfl⟩
  · intro a; show m2.new.holds a = m2.new.addrs.contains a; rw [hholds a, haddrs]
  · intro a ha
    change m2.new.holds a = true at ha
    rw [hholds a] at ha
    show m2.busy.contains a = false
    rw [hbusy]; exact hfree a (by simpa using ha)

/-- a reload with a request in flight whose configuration is valid for the environment -/
theorem straddle_valid {busy : List Nat} {m : M} {seen : List Nat} {g : Nat} {led : HLedger} (h : HRel busy m seen g led)
    (c : Cfg) (hv : valid busy c = true) :
    stepLaw busy led (.straddle c) (runOp g seen m (.straddle c)).2.2 = none ∧
    HRel busy (runOp g seen m (.straddle c)).1 (runOp g seen m (.straddle c)).2.1 (g + 1)
      (advance busy led (.straddle c) (runOp g seen m (.straddle c)).2.2) := by
  have hg := h.good
  have hlc := led_contains_one h
  have hfree : ∀ a ∈ c.addrs, busy.contains a = false := by
    simp only [valid, Bool.and_eq_true, Bool.not_eq_true', List.all_eq_true] at hv
    exact fun a ha => by simpa using hv.2 a ha
  have key0 : ∃ m0, run m [.connect 1, .accept m.cur.gen 1] = m0 ∧ Good m0 ∧ m0.cur = m.cur ∧ m0.busy = m.busy ∧
      m0.sock = m.sock ∧ m0.nextSock = m.nextSock ∧
      ((m.cur.holds 1 = false ∧ m0.conns = m.conns ∧ m0.nextConn = m.nextConn) ∨
       (m.cur.holds 1 = true ∧ m0.nextConn = m.nextConn + 1 ∧
        m0.conns = m.conns ++ [{ id := m.nextConn, addr := 1, minGen := m.cur.gen, owner := some m.cur.gen, answered := none }])) := by
    cases h1 : m.cur.holds 1
    · refine ⟨_, straddle_begin_free hg h1, ?_, rfl, rfl, rfl, rfl, Or.inl ⟨rfl, rfl, rfl⟩⟩
      have hinv : Inv (run m [.connect 1, .accept m.cur.gen 1]) := inv_run _ hg.inv
      rw [straddle_begin_free hg h1] at hinv
      exact good_frame hg hinv rfl rfl rfl hg.queue hg.connIds
    · refine ⟨_, straddle_begin_held hg h1, ?_, rfl, rfl, rfl, rfl, Or.inr ⟨rfl, rfl, rfl⟩⟩
      have hinv : Inv (run m [.connect 1, .accept m.cur.gen 1]) := inv_run _ hg.inv
      rw [straddle_begin_held hg h1] at hinv
      refine good_frame hg hinv rfl rfl rfl (fun x => ?_) (fun x hx => ?_)
      · show upd (upd m.queue 1 [m.nextConn]) 1 [] x = []
        simp only [upd_app]; split <;> simp [hg.queue]
      · show x.id < m.nextConn + 1
        rcases List.mem_append.mp hx with hx | hx
        · have := hg.connIds x hx; omega
        · simp only [List.mem_singleton] at hx; subst hx; exact Nat.lt_succ_self _
  obtain ⟨m0, e0, g0, hcur0, hbusy0, hsock0, hns0, hconn⟩ := key0
  have hlt0 : m0.cur.gen < g := by rw [hcur0]; exact h.lt
  have hpre := reload_valid_pre (g := g) (c := c) g0 hlt0 (by rw [hbusy0, h.busyEq]; exact hv)
  have hksd : ∀ a, a ∈ c.addrs → m.cur.holds a = true → (run m0 (reloadHead g m0 c)).sock a = m.sock a := by
    intro a hac hah
    rw [← hsock0]
    refine keeps_sock_run _ g0.inv (by simp [Keeps, g0.idle, hcur0, hah]) ?_
    intro act hact
    exact keepsAct_reload (g := g) (m := m0) hac act (List.mem_append_left _ hact)
  generalize hmd : run m0 (reloadHead g m0 c) = md at hpre hksd
  have hsrd : SockRel m0 md := by rw [← hmd]; exact sockRel_run _ m0
  have hsld : ∀ a, a = 1 ∨ a = 2 → md.sock a < md.nextSock := by
    intro a ha; rw [← hmd]; exact sockLt_run _ a (by rw [hsock0, hns0]; exact h.sockLt a ha)
  have hidsd : ∀ x ∈ md.conns, x.id < md.nextConn := by
    rw [hpre.conns, hpre.nextConn]; exact g0.connIds
  -- the fresh connection made while the old instance drains
  have keyq : ∃ q1 P, probe md 1 = (q1, if c.addrs.contains 1 then toString g else "-") ∧ Inv q1 ∧
      q1.phase = .stopping [] ∧ q1.new = md.new ∧ q1.busy = md.busy ∧ q1.sock = md.sock ∧ q1.nextSock = md.nextSock ∧
      (∀ a, q1.queue a = []) ∧ q1.conns = md.conns ++ P ∧ (∀ x ∈ q1.conns, x.id < q1.nextConn) := by
    have hinvq : Inv (probe md 1).1 := by simp only [probe]; exact inv_run _ hpre.inv
    cases h1 : c.addrs.contains 1
    · have e := probe_pre_gone hpre hidsd h1
      rw [e] at hinvq
      exact ⟨_, [], by rw [e]; simp, hinvq, hpre.phase, rfl, rfl, rfl, rfl, hpre.queue, by simp, hidsd⟩
    · have e := probe_pre_served hpre hidsd h1
      rw [e] at hinvq
      refine ⟨_, [_], by rw [e]; simp, hinvq, hpre.phase, rfl, rfl, rfl, rfl, fun x => ?_, rfl, fun x hx => ?_⟩
      · show upd (upd md.queue 1 [md.nextConn]) 1 [] x = []
        simp only [upd_app]; split <;> simp [hpre.queue]
      · show x.id < md.nextConn + 1
        rcases List.mem_append.mp hx with hx | hx
        · have := hidsd x hx; omega
        · simp only [List.mem_singleton] at hx; subst hx; exact Nat.lt_succ_self _
  obtain ⟨q1, P, eq1, qinv, qphase, qnew, qbusy, qsock, qns, qqueue, qconns, qids⟩ := keyq
  -- from any state like q1 (possibly after answering the request in flight) `finish` gives the settled new generation
  have common : ∀ (m2 : M) (str : String), Inv m2 → m2.phase = .stopping [] → m2.new = md.new → m2.busy = md.busy →
      m2.sock = md.sock → m2.nextSock = md.nextSock → (∀ a, m2.queue a = []) → (∀ x ∈ m2.conns, x.id < m2.nextConn) →
      str = (if led.addrs.contains 1 then toString led.gen else "-") →
      stepLaw busy led (.straddle c)
        (observe seen (step m2 .finish) "ok" (some (if c.addrs.contains 1 then toString g else "-")) (some str)).2.2 = none ∧
      HRel busy (observe seen (step m2 .finish) "ok" (some (if c.addrs.contains 1 then toString g else "-")) (some str)).1
        (observe seen (step m2 .finish) "ok" (some (if c.addrs.contains 1 then toString g else "-")) (some str)).2.1 (g + 1)
        (advance busy led (.straddle c)
          (observe seen (step m2 .finish) "ok" (some (if c.addrs.contains 1 then toString g else "-")) (some str)).2.2) ∧
      resOf (step m2 .finish) g = "ok" := by
    intro m2 str i2 p2 n2 b2 s2 ns2 q2 ids2 hstr
    obtain ⟨f1, f2, f3, f4, f5, f6⟩ := finish_good (g := g) (c := c) (busy := busy) i2 p2 (by rw [n2]; exact hpre.newGen)
      (by rw [n2]; exact hpre.newAddrs) (by rw [n2]; exact hpre.newHolds) (by rw [n2]; exact hpre.newAccepts) q2
      (by rw [b2, hpre.busy, hbusy0]; exact h.busyEq) ids2 hfree
    have hj := judge_valid h (.straddle c) hv f1 f2 f3 (by rw [f4]; exact h.busyEq.symm)
      (fun a hac hah => by rw [f5, s2]; exact hksd a hac hah)
      (fun a ha => by rw [f5, f6, s2, ns2]; exact hsld a ha)
      (by rw [f6, ns2, ← hns0]; exact hsrd.next) (some (if c.addrs.contains 1 then toString g else "-")) (some str)
      ⟨by rw [hstr], by simp⟩
    exact ⟨hj.1, hj.2, by simp [resOf, f2]⟩
  rcases hconn with ⟨h1, hc0, hn0⟩ | ⟨h1, hn0, hc0⟩
  · have hnc : (m0.conns.length != m.conns.length) = false := by rw [hc0]; simp
    obtain ⟨r1, r2, r3⟩ := common q1 "-" qinv qphase qnew qbusy qsock qns qqueue qids (by rw [hlc, h1]; rfl)
    simpa only [runOp, e0, hnc, hmd, eq1, Bool.false_eq_true, if_false, r3] using And.intro r1 r2
  · have hnc : (m0.conns.length != m.conns.length) = true := by rw [hc0]; simp
    have e2 : step q1 (.respond m.nextConn) = { q1 with conns := setAnswered q1.conns m.nextConn } := rfl
    have hstr : connAnswer (step q1 (.respond m.nextConn)) m.conns.length = toString m.cur.gen := by
      apply connAnswer_of
      show ((setAnswered q1.conns m.nextConn)[m.conns.length]?).map (·.answered) = _
      rw [qconns, hpre.conns, hc0, List.append_assoc, List.singleton_append]
      exact straddler_answer m.conns P _ m.nextConn m.cur.gen rfl rfl
    have ids2 : ∀ x ∈ (step q1 (.respond m.nextConn)).conns, x.id < (step q1 (.respond m.nextConn)).nextConn := by
      intro x hx
      obtain ⟨c0, hc0', e⟩ := mem_setAnswered_id (by simpa [step] using hx)
      show x.id < q1.nextConn
      rw [e]; exact qids c0 hc0'
    obtain ⟨r1, r2, r3⟩ := common (step q1 (.respond m.nextConn)) (toString m.cur.gen) (inv_step qinv _) qphase qnew qbusy qsock
      qns qqueue ids2 (by rw [hlc, h1, h.gen]; rfl)
    simpa only [runOp, e0, hnc, hmd, eq1, if_true, r3, hstr] using And.intro r1 r2


/-- the first half of a request in flight, from a settled state: the result is settled and differs in connections only -/
theorem inflight_begin {m : M} (hg : Good m) :
    ∃ m0, run m [.connect 1, .accept m.cur.gen 1] = m0 ∧ Good m0 ∧ m0.cur = m.cur ∧ m0.busy = m.busy ∧
      m0.sock = m.sock ∧ m0.nextSock = m.nextSock ∧
      ((m.cur.holds 1 = false ∧ m0.conns = m.conns ∧ m0.nextConn = m.nextConn) ∨
       (m.cur.holds 1 = true ∧ m0.nextConn = m.nextConn + 1 ∧
        m0.conns = m.conns ++ [{ id := m.nextConn, addr := 1, minGen := m.cur.gen, owner := some m.cur.gen, answered := none }])) := by
  cases h1 : m.cur.holds 1
  · refine ⟨_, straddle_begin_free hg h1, ?_, rfl, rfl, rfl, rfl, Or.inl ⟨rfl, rfl, rfl⟩⟩
    have hinv : Inv (run m [.connect 1, .accept m.cur.gen 1]) := inv_run _ hg.inv
    rw [straddle_begin_free hg h1] at hinv
    exact good_frame hg hinv rfl rfl rfl hg.queue hg.connIds
  · refine ⟨_, straddle_begin_held hg h1, ?_, rfl, rfl, rfl, rfl, Or.inr ⟨rfl, rfl, rfl⟩⟩
    have hinv : Inv (run m [.connect 1, .accept m.cur.gen 1]) := inv_run _ hg.inv
    rw [straddle_begin_held hg h1] at hinv
    refine good_frame hg hinv rfl rfl rfl (fun x => ?_) (fun x hx => ?_)
    · show upd (upd m.queue 1 [m.nextConn]) 1 [] x = []
      simp only [upd_app]; split <;> simp [hg.queue]
    · show x.id < m.nextConn + 1
      rcases List.mem_append.mp hx with hx | hx
      · have := hg.connIds x hx; omega
      · simp only [List.mem_singleton] at hx; subst hx; exact Nat.lt_succ_self _

/-- a reload while a request stays in flight beyond the graceful period: `Restart` returns (every server of the old instance
was stopped although one drain timed out), the request completes afterwards -/
theorem longflight_ok {busy : List Nat} {m : M} {seen : List Nat} {g : Nat} {led : HLedger} (h : HRel busy m seen g led)
    (c : Cfg) :
    stepLaw busy led (.longflight c) (runOp g seen m (.longflight c)).2.2 = none ∧
    HRel busy (runOp g seen m (.longflight c)).1 (runOp g seen m (.longflight c)).2.1 (g + 1)
      (advance busy led (.longflight c) (runOp g seen m (.longflight c)).2.2) := by
  have hg := h.good
  have hlc := led_contains_one h
  obtain ⟨m0, e0, g0, hcur0, hbusy0, hsock0, hns0, hconn⟩ := inflight_begin hg
  have hlt0 : m0.cur.gen < g := by rw [hcur0]; exact h.lt
  generalize hm1 : run m0 (reloadHead g m0 c ++ [.finish]) = m1
  have hsr : SockRel m0 m1 := by rw [← hm1]; exact sockRel_run _ m0
  have hsl : ∀ a, a = 1 ∨ a = 2 → m1.sock a < m1.nextSock := by
    intro a ha; rw [← hm1]; exact sockLt_run _ a (by rw [hsock0, hns0]; exact h.sockLt a ha)
  -- the state in which the observation is made: m1, or m1 after the request in flight was answered
  have after : ∀ (m2 : M) (str : String), (m2 = m1 ∧ m.cur.holds 1 = false ∧ str = "-" ∨
        m2 = step m1 (.respond m.nextConn) ∧ m.cur.holds 1 = true ∧ str = toString m.cur.gen) →
      Good m1 → Good m2 ∧ ProbeFrame m1 m2 ∧ str = (if led.addrs.contains 1 then toString led.gen else "-") := by
    intro m2 str hc g1
    rcases hc with ⟨rfl, h1, rfl⟩ | ⟨rfl, h1, rfl⟩
    · exact ⟨g1, ⟨rfl, rfl, rfl, rfl, rfl⟩, by rw [hlc, h1]; rfl⟩
    · obtain ⟨rg, rf⟩ := good_respond g1 m.nextConn
      exact ⟨rg, rf, by rw [hlc, h1, h.gen]; rfl⟩
  have hanswer : ∀ (hc : m1.conns = m0.conns), m.cur.holds 1 = true →
      m0.conns = m.conns ++ [{ id := m.nextConn, addr := 1, minGen := m.cur.gen, owner := some m.cur.gen, answered := none }] →
      connAnswer (step m1 (.respond m.nextConn)) m.conns.length = toString m.cur.gen := by
    intro hc _ hc0
    apply connAnswer_of
    show ((setAnswered m1.conns m.nextConn)[m.conns.length]?).map (·.answered) = _
    rw [hc, hc0]
    exact straddler_answer m.conns [] _ m.nextConn m.cur.gen rfl rfl
  cases hv : valid busy c
  · obtain ⟨g1, hcur1, hbusy1, hconns1, _, hsock1⟩ := reload_invalid (g := g) (c := c) g0 hlt0 (by rw [hbusy0, h.busyEq]; exact hv)
    rw [hm1] at g1 hcur1 hbusy1 hconns1 hsock1
    have hres : ∀ m2 : M, m2.cur = m.cur → resOf m2 g = "err" := by
      intro m2 hc
      have : ¬ m2.cur.gen = g := by rw [hc]; have := h.lt; omega
      simp [resOf, this]
    have fin : ∀ (m2 : M) (str : String), Good m2 → ProbeFrame m1 m2 →
        str = (if led.addrs.contains 1 then toString led.gen else "-") →
        stepLaw busy led (.longflight c) (observe seen m2 "err" none (some str)).2.2 = none ∧
        HRel busy (observe seen m2 "err" none (some str)).1 (observe seen m2 "err" none (some str)).2.1 (g + 1)
          (advance busy led (.longflight c) (observe seen m2 "err" none (some str)).2.2) := by
      intro m2 str g2 f2 hstr
      exact judge_invalid h (.longflight c) hv g2 (by rw [f2.cur, hcur1, hcur0]) (by rw [f2.busy, hbusy1, hbusy0])
        (fun a ha => by rw [f2.sock, hsock1 a (by rw [hcur0]; exact ha), hsock0])
        (fun a ha => by rw [f2.sock, f2.nextSock]; exact hsl a ha)
        (by rw [f2.nextSock, ← hns0]; exact hsr.next) none (some str) ⟨by rw [hstr], rfl⟩
    rcases hconn with ⟨h1, hc0, _⟩ | ⟨h1, _, hc0⟩
    · have hnc : (m0.conns.length != m.conns.length) = false := by rw [hc0]; simp
      obtain ⟨a1, a2, a3⟩ := after m1 "-" (Or.inl ⟨rfl, h1, rfl⟩) g1
      have := fin m1 "-" a1 a2 a3
      have hr := hres m1 (by rw [hcur1, hcur0])
      simpa only [runOp, e0, hnc, hm1, Bool.false_eq_true, if_false, hr] using this
    · have hnc : (m0.conns.length != m.conns.length) = true := by rw [hc0]; simp
      obtain ⟨a1, a2, a3⟩ := after (step m1 (.respond m.nextConn)) (toString m.cur.gen) (Or.inr ⟨rfl, h1, rfl⟩) g1
      have := fin _ _ a1 a2 a3
      have hr := hres (step m1 (.respond m.nextConn)) (by rw [a2.cur, hcur1, hcur0])
      have hstr := hanswer hconns1 h1 hc0
      simpa only [runOp, e0, hnc, hm1, if_true, hr, hstr] using this
  · obtain ⟨g1, hgen1, haddrs1, hbusy1, hconns1, _⟩ := reload_valid (g := g) (c := c) g0 hlt0 (by rw [hbusy0, h.busyEq]; exact hv)
    have hks : ∀ a, a ∈ c.addrs → m.cur.holds a = true → m1.sock a = m.sock a := by
      intro a hac hah
      rw [← hm1, ← hsock0]
      exact keeps_sock_run _ g0.inv (by simp [Keeps, g0.idle, hcur0, hah]) (keepsAct_reload hac)
    rw [hm1] at g1 hgen1 haddrs1 hbusy1 hconns1
    have fin : ∀ (m2 : M) (str : String), Good m2 → ProbeFrame m1 m2 →
        str = (if led.addrs.contains 1 then toString led.gen else "-") →
        stepLaw busy led (.longflight c) (observe seen m2 "ok" none (some str)).2.2 = none ∧
        HRel busy (observe seen m2 "ok" none (some str)).1 (observe seen m2 "ok" none (some str)).2.1 (g + 1)
          (advance busy led (.longflight c) (observe seen m2 "ok" none (some str)).2.2) := by
      intro m2 str g2 f2 hstr
      exact judge_valid h (.longflight c) hv g2 (by rw [f2.cur, hgen1]) (by rw [f2.cur, haddrs1]; rfl)
        (by rw [f2.busy, hbusy1, hbusy0])
        (fun a hac hah => by rw [f2.sock]; exact hks a hac hah)
        (fun a ha => by rw [f2.sock, f2.nextSock]; exact hsl a ha)
        (by rw [f2.nextSock, ← hns0]; exact hsr.next) none (some str) ⟨by rw [hstr], rfl⟩
    have hres : ∀ m2 : M, m2.cur = m1.cur → resOf m2 g = "ok" := by
      intro m2 hc; simp [resOf, hc, hgen1]
    rcases hconn with ⟨h1, hc0, _⟩ | ⟨h1, _, hc0⟩
    · have hnc : (m0.conns.length != m.conns.length) = false := by rw [hc0]; simp
      obtain ⟨a1, a2, a3⟩ := after m1 "-" (Or.inl ⟨rfl, h1, rfl⟩) g1
      have := fin m1 "-" a1 a2 a3
      have hr := hres m1 rfl
      simpa only [runOp, e0, hnc, hm1, Bool.false_eq_true, if_false, hr] using this
    · have hnc : (m0.conns.length != m.conns.length) = true := by rw [hc0]; simp
      obtain ⟨a1, a2, a3⟩ := after (step m1 (.respond m.nextConn)) (toString m.cur.gen) (Or.inr ⟨rfl, h1, rfl⟩) g1
      have := fin _ _ a1 a2 a3
      have hr := hres (step m1 (.respond m.nextConn)) a2.cur
      have hstr := hanswer hconns1 h1 hc0
      simpa only [runOp, e0, hnc, hm1, if_true, hr, hstr] using this

/-- one operation of the hand-over stream, plain or with a request in flight -/
theorem op_ok {busy : List Nat} {m : M} {seen : List Nat} {g : Nat} {led : HLedger} (h : HRel busy m seen g led) (op : HOp) :
    stepLaw busy led op (runOp g seen m op).2.2 = none ∧
    HRel busy (runOp g seen m op).1 (runOp g seen m op).2.1 (g + 1) (advance busy led op (runOp g seen m op).2.2) := by
  cases op with
  | reload c => exact reload_op_ok h c
  | straddle c =>
    cases hv : valid busy c
    · exact straddle_invalid h c hv
    · exact straddle_valid h c hv
  | longflight c => exact longflight_ok h c

theorem runOps_check {busy : List Nat} : ∀ (hops : List HOp) (m : M) (seen : List Nat) (g : Nat) (led : HLedger),
    HRel busy m seen g led → checkFrom busy led hops (runOps g seen m hops) = none := by
  intro hops
  induction hops with
  | nil => intro m seen g led _; rfl
  | cons op rest ih =>
    intro m seen g led h
    obtain ⟨h1, h2⟩ := op_ok h op
    simp only [runOps, checkFrom, h1]
    exact ih _ _ _ _ h2
open Casket.ReloadSpec

/-- a listen step that succeeds touches only the socket of the address it is about: the new server for `x` gets a
descriptor of the socket of `x` (when the old instance holds one: same socket identity, one more descriptor) or opens its
own; no other address's descriptors, socket or ownership change — nothing is handed over across addresses -/
theorem listen_per_address {m : M} {x : Nat} {todo : List Nat} (hp : m.phase = .listening (x :: todo))
    (hok : (step m .listen).phase = .listening todo) :
    (∀ y, y ≠ x → (step m .listen).fds y = m.fds y ∧ (step m .listen).sock y = m.sock y ∧
        (step m .listen).new.holds y = m.new.holds y) ∧
    (step m .listen).new.holds x = true ∧ (step m .listen).cur = m.cur ∧
    (m.cur.holds x = true → (step m .listen).sock x = m.sock x) := by
  by_cases h1 : m.new.holds x = true
  · have e : step m .listen = { m with phase := .listening todo } := by simp [step, hp, h1]
    rw [e]
    exact ⟨fun y _ => ⟨rfl, rfl, rfl⟩, h1, rfl, fun _ => rfl⟩
  · have h1' : m.new.holds x = false := by simpa using h1
    by_cases h2 : m.cur.holds x = true
    · have e : step m .listen = { m with fds := upd m.fds x (m.fds x + 1), new := { m.new with holds := set m.new.holds x true }, phase := .listening todo } := by
        simp [step, hp, h1', h2]
      rw [e]
      refine ⟨fun y hy => ⟨?_, rfl, ?_⟩, ?_, rfl, fun _ => rfl⟩
      · show upd m.fds x (m.fds x + 1) y = m.fds y; simp [upd_app, hy]
      · show set m.new.holds x true y = m.new.holds y; simp [set_app, hy]
      · show set m.new.holds x true x = true; simp [set_app]
    · have h2' : m.cur.holds x = false := by simpa using h2
      by_cases hc : (m.busy.contains x || decide (m.fds x > 0)) = true
      · -- the listen fails: the phase would be idle, not `listening todo`
        exfalso
        have e : (step m .listen).phase = .idle := by
          simp only [step, hp, h1', h2', Bool.false_eq_true, if_false]
          rw [if_pos hc]
        rw [e] at hok
        cases hok
      · have e : step m .listen = { m with fds := upd m.fds x 1, sock := upd m.sock x m.nextSock, nextSock := m.nextSock + 1, new := { m.new with holds := set m.new.holds x true }, phase := .listening todo } := by
          simp only [step, hp, h1', h2', Bool.false_eq_true, if_false]
          rw [if_neg hc]
        rw [e]
        refine ⟨fun y hy => ⟨?_, ?_, ?_⟩, ?_, rfl, fun hh => ?_⟩
        · show upd m.fds x 1 y = m.fds y; simp [upd_app, hy]
        · show upd m.sock x m.nextSock y = m.sock y; simp [upd_app, hy]
        · show set m.new.holds x true y = m.new.holds y; simp [set_app, hy]
        · show set m.new.holds x true x = true; simp [set_app]
        · rw [h2'] at hh; exact Bool.noConfusion hh

/-! ### the mixed stream: observations of a settled state -/

theorem observeCells_good : ∀ (xs : List Nat) {m : M}, Good m →
    (observeCells m xs).2 = xs.map (fun x => (b2n (m.cur.holds x), answerOf m x)) ∧
    Good (observeCells m xs).1 ∧ ProbeFrame m (observeCells m xs).1 := by
  intro xs
  induction xs with
  | nil => intro m hg; exact ⟨rfl, hg, ⟨rfl, rfl, rfl, rfl, rfl⟩⟩
  | cons x rest ih =>
    intro m hg
    obtain ⟨a1, g1, f1⟩ := probe_good x hg
    obtain ⟨r1, r2, r3⟩ := ih g1
    refine ⟨?_, r2, probeFrame_trans f1 r3⟩
    simp only [observeCells, List.map_cons, r1, a1, good_fds hg x]
    congr 1
    apply List.map_congr_left
    intro y _
    simp [answerOf, f1.cur]

theorem cells_expected {m : M} {c : Cfg} {g : Nat} (hg : Good m) (hgen : m.cur.gen = g) (haddrs : m.cur.addrs = c.addrs)
    (codes : List Nat) :
    codes.map (fun x => (b2n (m.cur.holds x), answerOf m x)) = codes.map (expectedCell c g) := by
  apply List.map_congr_left
  intro x _
  simp only [expectedCell, answerOf, hg.holds x, haddrs, hgen]
  cases c.addrs.contains x <;> simp [b2n]

/-- the judge's previous observation agrees with the settled state -/
structure MRel (busy codes : List Nat) (m : M) (g : Nat) (prev : List (Nat × String)) : Prop where
  good : Good m
  busyEq : m.busy = busy
  lt : m.cur.gen < g
  prev : prev = codes.map (fun x => (b2n (m.cur.holds x), answerOf m x))

theorem mixedOps_check {busy codes : List Nat} : ∀ (cs : List Cfg) (m : M) (g : Nat) (prev : List (Nat × String)),
    MRel busy codes m g prev → mixedCheck busy codes prev g cs (mixedOps codes g m cs) = none := by
  intro cs
  induction cs with
  | nil => intro m g prev _; rfl
  | cons c rest ih =>
    intro m g prev h
    have hg := h.good
    generalize hm1 : run m (reloadHead g m c ++ [.finish]) = m1
    have e : mixedOps codes g m (c :: rest) =
        { res := resOf m1 g, cells := (observeCells m1 codes).2, mis := false } ::
          mixedOps codes (g + 1) (observeCells m1 codes).1 rest := by
      simp only [mixedOps, hm1]
    rw [e]
    cases hv : valid busy c
    · obtain ⟨g1, hcur, hbusy, _, _, _⟩ := reload_invalid (g := g) (c := c) hg h.lt (by rw [h.busyEq]; exact hv)
      rw [hm1] at g1 hcur hbusy
      obtain ⟨c1, c2, c3⟩ := observeCells_good codes g1
      have hres : resOf m1 g = "err" := by
        have : ¬ m1.cur.gen = g := by rw [hcur]; have := h.lt; omega
        simp [resOf, this]
      have hcells : (observeCells m1 codes).2 = prev := by
        rw [c1, h.prev]
        apply List.map_congr_left
        intro x _
        simp [answerOf, hcur]
      simp only [mixedCheck, mixedStepLaw, hv, hres, hcells]
      simp only [Bool.false_eq_true, if_false, bne_self_eq_false]
      refine ih _ _ _ ⟨c2, by rw [c3.busy, hbusy]; exact h.busyEq, by rw [c3.cur, hcur]; have := h.lt; omega, ?_⟩
      rw [h.prev]
      apply List.map_congr_left
      intro x _
      simp [answerOf, c3.cur, hcur]
    · obtain ⟨g1, hgen, haddrs, hbusy, _, _⟩ := reload_valid (g := g) (c := c) hg h.lt (by rw [h.busyEq]; exact hv)
      rw [hm1] at g1 hgen haddrs hbusy
      obtain ⟨c1, c2, c3⟩ := observeCells_good codes g1
      have hres : resOf m1 g = "ok" := by simp [resOf, hgen]
      have hcells : (observeCells m1 codes).2 = codes.map (expectedCell c g) := by
        rw [c1]; exact cells_expected g1 hgen haddrs codes
      simp only [mixedCheck, mixedStepLaw, hv, hres, hcells]
      simp only [Bool.false_eq_true, if_false, if_true, bne_self_eq_false]
      refine ih _ _ _ ⟨c2, by rw [c3.busy, hbusy]; exact h.busyEq, by rw [c3.cur, hgen]; omega, ?_⟩
      rw [← hcells, c1]
      apply List.map_congr_left
      intro x _
      simp [answerOf, c3.cur]

/-- the mixed stream: for every start and every sequence of reloads the machine's observations satisfy the judge -/
theorem mixed_verdict {busy codes : List Nat} {c0 : Cfg} (cs : List Cfg) (hfree : ∀ a ∈ c0.addrs, busy.contains a = false) :
    mixedVerdict busy codes c0 cs (mixedRun busy codes c0 cs) = "ok" := by
  have g0 : Good (M.init busy c0.addrs) := good_init busy c0.addrs hfree
  obtain ⟨c1, c2, c3⟩ := observeCells_good codes g0
  have hcells : (observeCells (M.init busy c0.addrs) codes).2 = codes.map (expectedCell c0 1) := by
    rw [c1]; exact cells_expected g0 rfl rfl codes
  have hrel : MRel busy codes (observeCells (M.init busy c0.addrs) codes).1 2 (codes.map (expectedCell c0 1)) := by
    refine ⟨c2, by rw [c3.busy]; rfl, by rw [c3.cur]; show 1 < 2; omega, ?_⟩
    rw [← hcells, c1]
    apply List.map_congr_left
    intro x _
    simp [answerOf, c3.cur]
  simp only [mixedVerdict, mixedRun, hcells, Bool.false_eq_true, if_false, bne_self_eq_false, Bool.or_self]
  rw [mixedOps_check cs _ 2 _ hrel]


end Casket.Reload
